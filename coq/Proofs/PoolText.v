(* The display text of the pool rollers (World of Darkness, Double Cross) as an explicit
   rendering of the SAME rounds of dice that the counting theorems (roll_wod_spec /
   roll_dc_spec) speak about; the displayed dice recount to the result; the rendering
   is injective (the text determines the header numbers and every die). *)
From Coq Require Import String Ascii NArith ZArith List Bool Lia ZifyBool.
From DS Require Import Model.PCG Model.Roll Model.Str Model.Dice Proofs.RollProofs Proofs.DiceProofs.
Import ListNotations.
Open Scope string_scope.
Open Scope Z_scope.

(* ------------------------------------------------------------------ *)
(* rendering functions                                                 *)
(* ------------------------------------------------------------------ *)

(* one WoD die: the number, "*" appended when it counts as a success, the whole wrapped in
   "<...>" when it reaches the add line (and is therefore re-rolled in the next round) *)
Definition wod_die_text (addLine threshold : Z) (isGE : bool) (x : Z) : string :=
  let base := show_Z x ++ (if wod_succ threshold isGE x then "*" else "") in
  if wod_reach addLine x then "<" ++ base ++ ">" else base.

(* one Double Cross die: the number, wrapped in "<...>" when it reaches the critical line *)
Definition dc_die_text (addLine : Z) (x : Z) : string :=
  if dc_reach addLine x then "<" ++ show_Z x ++ ">" else show_Z x.

(* one round: its dice in roll order, comma separated, in braces *)
Definition round_text (die : Z -> string) (r : list Z) : string :=
  "{" ++ join "," (map die r) ++ "}".

(* all rounds, comma separated *)
Definition rounds_text (die : Z -> string) (rs : list (list Z)) : string :=
  join "," (map (round_text die) rs).

(* The running total of dice (int64, as the implementation keeps it) exceeded 100 after some
   round: `a` is the total before the first round of `rs` is evaluated (the dice of that round
   are already included), each round adds its number of dice reaching the line (= the dice of
   the next round). *)
Fixpoint over100 (reach : Z -> bool) (a : Z) (rs : list (list Z)) : bool :=
  match rs with
  | [] => false
  | r :: rs' => let a' := wrap64 (a + countZ reach r) in (100 <? a') || over100 reach a' rs'
  end.

(* the dice are displayed iff the first pool has fewer than 15 dice and the running total
   never exceeded 100; otherwise NO die at all is displayed (all-or-nothing) *)
Definition pool_displayed (reach : Z -> bool) (pool : Z) (rs : list (list Z)) : bool :=
  (pool <? 15) && negb (over100 reach pool rs).

(* header ++ optional round count ++ optional dice *)
Definition pool_text (head : string) (res all rounds : Z) (dice : option string) : string :=
  head ++ show_Z res ++ "/" ++ show_Z all
       ++ (if 1 <? rounds then " 轮数:" ++ show_Z rounds else "")
       ++ (match dice with Some d => " " ++ d | None => "" end).

Definition wod_render (addLine threshold : Z) (isGE : bool) (pool succ all rounds : Z)
           (rs : list (list Z)) : string :=
  pool_text "成功" succ all rounds
    (if pool_displayed (wod_reach addLine) pool rs
     then Some (rounds_text (wod_die_text addLine threshold isGE) rs) else None).

Definition dc_render (addLine : Z) (pool result all rounds : Z) (rs : list (list Z)) : string :=
  (if result =? 1 then "大失败 " else "") ++
  pool_text "出目" result all rounds
    (if pool_displayed (dc_reach addLine) pool rs
     then Some (rounds_text (dc_die_text addLine) rs) else None).

(* ------------------------------------------------------------------ *)
(* the model's text is the rendering of the rounds it rolled           *)
(* ------------------------------------------------------------------ *)
Section Source.
  Variable S : Type.
  Variable next : S -> N * S.
  Hypothesis next_word : forall s, (fst (next s) < W64)%N.

  Lemma wod_round_text fuel addLine points threshold isGE mode show k :
    1 <= points <= MaxInt64 - 1 ->
    forall succ add txt s succ' add' txt' s',
    wod_round next fuel k addLine points threshold isGE mode show (succ, add, txt) s
      = Done ((succ', add', txt'), s') ->
    exists dice, length dice = k /\ Forall (fun x => 1 <= x <= points) dice /\
                 succ' = succ + countZ (wod_succ threshold isGE) dice /\
                 add' = add + countZ (wod_reach addLine) dice /\
                 txt' = if show then (txt ++ map (wod_die_text addLine threshold isGE) dice)%list
                        else txt.
  Proof.
    intros Hp. induction k as [|k IH]; intros succ add txt s succ' add' txt' s' H;
      cbn [wod_round] in H.
    - inversion H; subst. exists []. unfold countZ. cbn [filter length map Z.of_nat].
      rewrite app_nil_r. repeat split; try lia; [constructor|destruct show; reflexivity].
    - destruct (roll next fuel points mode s) as [[one s1]|] eqn:Er; [|discriminate].
      pose proof (roll_range S next next_word _ _ _ _ _ _ Hp Er) as Hone.
      cbv zeta in H. apply IH in H. destruct H as (dice & Hl & Hf & Hs & Ha & Ht).
      exists (one :: dice). split; [cbn [length]; f_equal; exact Hl|].
      split; [constructor; assumption|].
      rewrite !countZ_cons. unfold wod_succ at 1, wod_reach at 1.
      split; [lia|]. split; [lia|].
      rewrite Ht. destruct show; [|reflexivity].
      rewrite <- app_assoc. cbn [map app]. reflexivity.
  Qed.

  Lemma wod_rounds_text fuel addLine points threshold isGE mode rfuel :
    1 <= points <= MaxInt64 - 1 ->
    forall pool show all succ rounds details s succ' all' rounds' details' s',
    wod_rounds next rfuel fuel addLine points threshold isGE mode pool show all succ rounds details s
      = Done ((succ', all', rounds', details'), s') ->
    exists rs : list (list Z),
      round_chain (wod_reach addLine) (Z.to_nat pool) rs /\
      Forall (Forall (fun x => 1 <= x <= points)) rs /\
      succ' = succ + countZ (wod_succ threshold isGE) (concat rs) /\
      all' = fold_left (fun a r => wrap64 (a + countZ (wod_reach addLine) r)) rs all /\
      rounds' = rounds + Z.of_nat (length rs) - 1 /\
      (length rs <= rfuel)%nat /\
      details' = if over100 (wod_reach addLine) all rs then []
                 else if show
                      then (details ++ map (round_text (wod_die_text addLine threshold isGE)) rs)%list
                      else details.
  Proof.
    intros Hp. induction rfuel as [|rf IH];
      intros pool show all succ rounds details s succ' all' rounds' details' s' H;
      cbn [wod_rounds] in H; [discriminate|].
    destruct (wod_round next fuel (Z.to_nat pool) addLine points threshold isGE mode show (0, 0, []) s)
      as [[[[sc add] txt] s1]|] eqn:Er; [|discriminate].
    apply (wod_round_text _ _ _ _ _ _ _ _ Hp) in Er.
    destruct Er as (dice & Hl & Hf & Hsc & Hadd & Htxt). rewrite Z.add_0_l in Hsc, Hadd.
    cbn [app] in Htxt.
    cbv zeta in H.
    assert (Hlast : add <= 0 -> filter (wod_reach addLine) dice = []).
    { intros Hn. unfold countZ in Hadd. destruct (filter (wod_reach addLine) dice); [reflexivity|].
      cbn [length] in Hadd. lia. }
    assert (Hmore : 0 < add -> filter (wod_reach addLine) dice <> []).
    { intros Hn E. unfold countZ in Hadd. rewrite E in Hadd. cbn in Hadd. lia. }
    assert (Hnext : Z.to_nat add = length (filter (wod_reach addLine) dice)).
    { unfold countZ in Hadd. rewrite Hadd, Nat2Z.id. reflexivity. }
    destruct (100 <? wrap64 (all + add)) eqn:Eover;
      (destruct (Z.ltb_spec 0 add) as [Hpos|Hnpos];
       [ apply IH in H; destruct H as (rs & Hc & Hfr & Hs' & Ha' & Hr' & Hlen & Hd');
         exists (dice :: rs); split; [|split; [|split; [|split; [|split; [|split]]]]];
         [ apply chain_more; [exact Hl|exact (Hmore Hpos)|rewrite <- Hnext; exact Hc]
         | constructor; assumption
         | cbn [concat]; rewrite countZ_app; lia
         | cbn [fold_left]; rewrite <- Hadd; exact Ha'
         | cbn [length]; lia
         | cbn [length]; lia
         | ]
       | inversion H; subst succ' all' rounds' details' s'; clear H;
         exists [dice]; split; [|split; [|split; [|split; [|split; [|split]]]]];
         [ apply chain_last; [exact Hl|exact (Hlast Hnpos)]
         | constructor; [assumption|constructor]
         | cbn [concat]; rewrite app_nil_r; lia
         | cbn [fold_left]; rewrite <- Hadd; reflexivity
         | cbn [length]; lia
         | cbn [length]; lia
         | ] ]);
      cbn [over100]; rewrite <- Hadd, Eover; cbn [orb].
    - rewrite Hd'. destruct (over100 (wod_reach addLine) (wrap64 (all + add)) rs); reflexivity.
    - reflexivity.
    - rewrite Hd'. destruct (over100 (wod_reach addLine) (wrap64 (all + add)) rs); [reflexivity|].
      destruct show; [|reflexivity]. rewrite Htxt, <- app_assoc. reflexivity.
    - destruct show; [|reflexivity]. rewrite Htxt. reflexivity.
  Qed.

  (* ---- facts about chains: sizes, no wrap-around, the elision flag ---- *)
  Lemma filter_len_le (f : Z -> bool) l : (length (filter f l) <= length l)%nat.
  Proof. induction l as [|x l IH]; cbn [filter length]; [lia|]. destruct (f x); cbn [length]; lia. Qed.

  Lemma chain_concat_le reach n rs :
    round_chain reach n rs -> (length (concat rs) <= n * length rs)%nat.
  Proof.
    induction 1 as [n r Hl Hf|n r rs Hl Hf Hc IH]; cbn [concat length]; rewrite app_length.
    - cbn [length]. lia.
    - pose proof (filter_len_le reach r) as Hk. nia.
  Qed.

  Lemma over100_exact reach n rs :
    round_chain reach n rs ->
    forall a, 0 <= a ->
      a + Z.of_nat (length (concat rs)) - Z.of_nat n < two63 ->
      over100 reach a rs = (100 <? a + Z.of_nat (length (concat rs)) - Z.of_nat n).
  Proof.
    induction 1 as [n r Hl Hf|n r rs Hl Hf Hc IH]; intros a Ha Hb; cbn [over100 concat] in *;
      rewrite app_length, Nat2Z.inj_add in *.
    - unfold countZ. rewrite Hf. cbn [length app Z.of_nat].
      rewrite wrap64_small by (unfold two63 in *; lia).
      rewrite orb_false_r. f_equal. lia.
    - pose proof (round_chain_concat_ge _ _ _ Hc) as Hge.
      unfold countZ.
      rewrite wrap64_small by (unfold two63 in *; lia).
      rewrite IH by lia. lia.
  Qed.

  (* never above 100 => no wrap-around happened and the total is the number of dice *)
  Lemma over100_false_exact reach n rs :
    round_chain reach n rs -> Z.of_nat n < two63 - 100 ->
    forall a, 0 <= a <= 100 -> over100 reach a rs = false ->
      fold_left (fun a r => wrap64 (a + countZ reach r)) rs a
        = a + Z.of_nat (length (concat rs)) - Z.of_nat n /\
      a + Z.of_nat (length (concat rs)) - Z.of_nat n <= 100.
  Proof.
    induction 1 as [n r Hl Hf|n r rs Hl Hf Hc IH]; intros Hn a Ha Hov; cbn [over100 fold_left concat] in *;
      rewrite app_length, Nat2Z.inj_add in *.
    - unfold countZ in *. rewrite Hf in *. cbn [length app Z.of_nat] in *.
      rewrite wrap64_small in * by (unfold two63 in *; lia). lia.
    - apply orb_false_iff in Hov. destruct Hov as [Hov1 Hov2].
      pose proof (filter_len_le reach r) as Hk.
      unfold countZ in *.
      rewrite wrap64_small in Hov1, Hov2 |- * by (unfold two63 in *; lia).
      destruct (IH ltac:(lia) (a + Z.of_nat (length (filter reach r))) ltac:(lia) Hov2) as [IH1 IH2].
      rewrite IH1. lia.
  Qed.

  Lemma pool_displayed_exact reach pool rs :
    round_chain reach (Z.to_nat pool) rs -> 0 <= pool ->
    Z.of_nat (length (concat rs)) < two63 ->
    pool_displayed reach pool rs = (pool <? 15) && (Z.of_nat (length (concat rs)) <=? 100).
  Proof.
    intros Hc Hp Hb. unfold pool_displayed.
    rewrite (over100_exact _ _ _ Hc) by lia. rewrite Z2Nat.id by lia.
    f_equal. lia.
  Qed.

  Lemma pool_displayed_true reach pool rs :
    round_chain reach (Z.to_nat pool) rs -> 0 <= pool ->
    pool_displayed reach pool rs = true ->
    pool < 15 /\ Z.of_nat (length (concat rs)) <= 100 /\
    fold_left (fun a r => wrap64 (a + countZ reach r)) rs pool = Z.of_nat (length (concat rs)).
  Proof.
    intros Hc Hp Hd. unfold pool_displayed in Hd. apply andb_true_iff in Hd.
    destruct Hd as [H15 Hov]. apply negb_true_iff in Hov.
    destruct (over100_false_exact _ _ _ Hc ltac:(unfold two63; lia) pool ltac:(lia) Hov) as [H1 H2].
    rewrite Z2Nat.id in * by lia. split; [lia|]. split; [lia|]. rewrite H1. lia.
  Qed.

  (* the rounds of a run: at most rfuel rounds, none larger than the first *)
  Lemma chain_no_wrap reach pool rs rfuel :
    round_chain reach (Z.to_nat pool) rs -> 0 <= pool ->
    (length rs <= rfuel)%nat -> Z.of_nat rfuel * pool < two63 ->
    Z.of_nat (length (concat rs)) < two63.
  Proof.
    intros Hc Hp Hl Hb. pose proof (chain_concat_le _ _ _ Hc) as H.
    apply Nat2Z.inj_le in H. rewrite Nat2Z.inj_mul, Z2Nat.id in H by lia. nia.
  Qed.

  Theorem roll_wod_text rfuel fuel addLine pool points threshold isGE mode s succ all rounds txt s' :
    wod_check addLine pool points threshold = true ->
    points <= MaxInt64 - 1 ->
    roll_wod next rfuel fuel addLine pool points threshold isGE mode s
      = Done ((succ, all, rounds, txt), s') ->
    exists rs : list (list Z),
      1 <= pool <= 20000 /\
      round_chain (wod_reach addLine) (Z.to_nat pool) rs /\
      Forall (Forall (fun x => 1 <= x <= points)) rs /\
      succ = countZ (wod_succ threshold isGE) (concat rs) /\
      rounds = Z.of_nat (length rs) /\
      (Z.of_nat (length (concat rs)) < two63 -> all = Z.of_nat (length (concat rs))) /\
      (length rs <= rfuel)%nat /\
      txt = wod_render addLine threshold isGE pool succ all rounds rs.
  Proof.
    intros Hchk Hpts H. unfold wod_check in Hchk.
    assert (Hpool : 1 <= pool <= 20000) by lia.
    assert (Hp : 1 <= points <= MaxInt64 - 1) by lia.
    unfold roll_wod in H.
    destruct (wod_rounds next rfuel fuel addLine points threshold isGE mode pool (pool <? 15) pool 0 1 [] s)
      as [[[[[succ0 all0] rounds0] details] s1]|] eqn:Er; [|discriminate].
    cbv zeta in H. inversion H as [[Hs0 Ha0 Hr0 Htxt Hs1]]. subst succ0 all0 rounds0 s1. clear H.
    apply (wod_rounds_text _ _ _ _ _ _ _ Hp) in Er.
    destruct Er as (rs & Hc & Hf & Hs & Ha & Hr & Hlen & Hd).
    exists rs. split; [exact Hpool|]. split; [exact Hc|]. split; [exact Hf|].
    split; [lia|]. split; [lia|]. split; [|split; [exact Hlen|]].
    - intros Hb. rewrite Ha. rewrite (chain_all_exact _ _ _ Hc) by lia. lia.
    - unfold wod_render, pool_text, pool_displayed, rounds_text.
      pose proof (round_chain_nonempty _ _ _ Hc) as Hne.
      rewrite Hd. cbn [app].
      destruct (over100 (wod_reach addLine) pool rs); [rewrite andb_false_r; reflexivity|].
      rewrite andb_true_r. destruct (pool <? 15); [|reflexivity].
      destruct rs as [|r rs]; [congruence|]. reflexivity.
  Qed.

  (* ---- Double Cross ---- *)
  Lemma dc_round_text fuel addLine points mode show k :
    1 <= points <= MaxInt64 - 1 ->
    forall mx add txt s mx' add' txt' s',
    dc_round next fuel k addLine points mode show (mx, add, txt) s = Done ((mx', add', txt'), s') ->
    exists dice, length dice = k /\ Forall (fun x => 1 <= x <= points) dice /\
                 mx' = fold_left (dc_mx_step addLine) dice mx /\
                 add' = add + countZ (dc_reach addLine) dice /\
                 txt' = if show then (txt ++ map (dc_die_text addLine) dice)%list else txt.
  Proof.
    intros Hp. induction k as [|k IH]; intros mx add txt s mx' add' txt' s' H;
      cbn [dc_round] in H.
    - inversion H; subst. exists []. unfold countZ. cbn [filter length map Z.of_nat fold_left].
      rewrite app_nil_r. repeat split; try lia; [constructor|destruct show; reflexivity].
    - destruct (roll next fuel points mode s) as [[one s1]|] eqn:Er; [|discriminate].
      pose proof (roll_range S next next_word _ _ _ _ _ _ Hp Er) as Hone.
      cbv zeta in H. apply IH in H. destruct H as (dice & Hl & Hf & Hm & Ha & Ht).
      exists (one :: dice). split; [cbn [length]; f_equal; exact Hl|].
      split; [constructor; assumption|].
      rewrite countZ_cons. unfold dc_reach at 1. cbn [fold_left]. split; [|split; [lia|]].
      + rewrite Hm. f_equal. unfold dc_mx_step.
        destruct (addLine <=? one); [reflexivity|]. destruct (Z.ltb_spec mx one); lia.
      + rewrite Ht. destruct show; [|reflexivity].
        rewrite <- app_assoc. cbn [map app]. reflexivity.
  Qed.

  Lemma dc_rounds_text fuel addLine points mode rfuel :
    1 <= points <= MaxInt64 - 1 ->
    forall pool show all result rounds details s result' all' rounds' details' s',
    dc_rounds next rfuel fuel addLine points mode pool show all result rounds details s
      = Done ((result', all', rounds', details'), s') ->
    exists rs : list (list Z),
      round_chain (dc_reach addLine) (Z.to_nat pool) rs /\
      Forall (Forall (fun x => 1 <= x <= points)) rs /\
      result' = fold_left (fun a r => wrap64 (a + dc_round_max addLine r)) rs result /\
      all' = fold_left (fun a r => wrap64 (a + countZ (dc_reach addLine) r)) rs all /\
      rounds' = rounds + Z.of_nat (length rs) - 1 /\
      (length rs <= rfuel)%nat /\
      details' = if over100 (dc_reach addLine) all rs then []
                 else if show
                      then (details ++ map (round_text (dc_die_text addLine)) rs)%list
                      else details.
  Proof.
    intros Hp. induction rfuel as [|rf IH];
      intros pool show all result rounds details s result' all' rounds' details' s' H;
      cbn [dc_rounds] in H; [discriminate|].
    destruct (dc_round next fuel (Z.to_nat pool) addLine points mode show (0, 0, []) s)
      as [[[[mx add] txt] s1]|] eqn:Er; [|discriminate].
    apply (dc_round_text _ _ _ _ _ _ Hp) in Er.
    destruct Er as (dice & Hl & Hf & Hmx & Hadd & Htxt). rewrite Z.add_0_l in Hadd.
    fold (dc_round_max addLine dice) in Hmx. cbn [app] in Htxt.
    cbv zeta in H.
    assert (Hlast : add <= 0 -> filter (dc_reach addLine) dice = []).
    { intros Hn. unfold countZ in Hadd. destruct (filter (dc_reach addLine) dice); [reflexivity|].
      cbn [length] in Hadd. lia. }
    assert (Hmore : 0 < add -> filter (dc_reach addLine) dice <> []).
    { intros Hn E. unfold countZ in Hadd. rewrite E in Hadd. cbn in Hadd. lia. }
    assert (Hnext : Z.to_nat add = length (filter (dc_reach addLine) dice)).
    { unfold countZ in Hadd. rewrite Hadd, Nat2Z.id. reflexivity. }
    destruct (100 <? wrap64 (all + add)) eqn:Eover;
      (destruct (Z.ltb_spec 0 add) as [Hpos|Hnpos];
       [ apply IH in H; destruct H as (rs & Hc & Hfr & Hres' & Ha' & Hr' & Hlen & Hd');
         exists (dice :: rs); split; [|split; [|split; [|split; [|split; [|split]]]]];
         [ apply chain_more; [exact Hl|exact (Hmore Hpos)|rewrite <- Hnext; exact Hc]
         | constructor; assumption
         | cbn [fold_left]; rewrite <- Hmx; exact Hres'
         | cbn [fold_left]; rewrite <- Hadd; exact Ha'
         | cbn [length]; lia
         | cbn [length]; lia
         | ]
       | inversion H; subst result' all' rounds' details' s'; clear H;
         exists [dice]; split; [|split; [|split; [|split; [|split; [|split]]]]];
         [ apply chain_last; [exact Hl|exact (Hlast Hnpos)]
         | constructor; [assumption|constructor]
         | cbn [fold_left]; rewrite <- Hmx; reflexivity
         | cbn [fold_left]; rewrite <- Hadd; reflexivity
         | cbn [length]; lia
         | cbn [length]; lia
         | ] ]);
      cbn [over100]; rewrite <- Hadd, Eover; cbn [orb].
    - rewrite Hd'. destruct (over100 (dc_reach addLine) (wrap64 (all + add)) rs); reflexivity.
    - reflexivity.
    - rewrite Hd'. destruct (over100 (dc_reach addLine) (wrap64 (all + add)) rs); [reflexivity|].
      destruct show; [|reflexivity]. rewrite Htxt, <- app_assoc. reflexivity.
    - destruct show; [|reflexivity]. rewrite Htxt. reflexivity.
  Qed.

  Theorem roll_dc_text rfuel fuel addLine pool points mode s result all rounds txt s' :
    dc_check addLine pool points = true ->
    points <= MaxInt64 - 1 ->
    roll_dc next rfuel fuel addLine pool points mode s = Done ((result, all, rounds, txt), s') ->
    exists rs : list (list Z),
      1 <= pool <= 20000 /\
      round_chain (dc_reach addLine) (Z.to_nat pool) rs /\
      Forall (Forall (fun x => 1 <= x <= points)) rs /\
      rounds = Z.of_nat (length rs) /\
      (Z.of_nat (length (concat rs)) < two63 -> all = Z.of_nat (length (concat rs))) /\
      result = fold_left (fun a r => wrap64 (a + dc_round_max addLine r)) rs 0 /\
      (points <= 10 -> 10 * rounds < two63 ->
       result = 10 * (rounds - 1) + dice_max (last rs [])) /\
      (length rs <= rfuel)%nat /\
      txt = dc_render addLine pool result all rounds rs.
  Proof.
    intros Hchk Hpts H. unfold dc_check in Hchk.
    assert (Hpool : 1 <= pool <= 20000) by lia.
    assert (Hp : 1 <= points <= MaxInt64 - 1) by lia.
    unfold roll_dc in H.
    destruct (dc_rounds next rfuel fuel addLine points mode pool (pool <? 15) pool 0 1 [] s)
      as [[[[[result0 all0] rounds0] details] s1]|] eqn:Er; [|discriminate].
    cbv zeta in H. inversion H as [[Hs0 Ha0 Hr0 Htxt Hs1]]. subst result0 all0 rounds0 s1. clear H.
    apply (dc_rounds_text _ _ _ _ _ Hp) in Er.
    destruct Er as (rs & Hc & Hf & Hres & Ha & Hr & Hlen & Hd).
    exists rs. split; [exact Hpool|]. split; [exact Hc|]. split; [exact Hf|].
    split; [lia|]. split; [|split; [exact Hres|split; [|split; [exact Hlen|]]]].
    - intros Hb. rewrite Ha. rewrite (chain_all_exact _ _ _ Hc) by lia. lia.
    - intros Hp10 Hrb. rewrite Hres.
      assert (Hle : Forall (Forall (fun x => x <= 10)) rs).
      { eapply Forall_impl; [|exact Hf]. intros r Hr'. eapply Forall_impl; [|exact Hr'].
        cbv beta. intros x Hx. lia. }
      rewrite (chain_result_exact _ _ _ Hc Hle) by lia. lia.
    - unfold dc_render, pool_text, pool_displayed, rounds_text.
      pose proof (round_chain_nonempty _ _ _ Hc) as Hne.
      rewrite Hd. cbn [app].
      destruct (result =? 1);
        (destruct (over100 (dc_reach addLine) pool rs); [rewrite andb_false_r; reflexivity|];
         rewrite andb_true_r; destruct (pool <? 15); [|reflexivity];
         destruct rs as [|r rs]; [congruence|]; reflexivity).
  Qed.
End Source.

(* ------------------------------------------------------------------ *)
(* the rendering is injective                                          *)
(* ------------------------------------------------------------------ *)
Fixpoint allc (P : ascii -> bool) (s : string) : bool :=
  match s with EmptyString => true | String a r => P a && allc P r end.

(* the string is empty or starts with a character outside P *)
Definition head_not (P : ascii -> bool) (t : string) : bool :=
  match t with EmptyString => true | String c _ => negb (P c) end.

(* characters of a rendered die: a number, "*", "<", ">" *)
Definition tokc (a : ascii) : bool :=
  numc a || existsb (Ascii.eqb a) (list_ascii_of_string "*<>").

Lemma sapp_nil_r (s : string) : s ++ "" = s.
Proof. induction s as [|c s IH]; cbn [append]; [reflexivity|]. rewrite IH. reflexivity. Qed.

Lemma sapp_inv_head (a b c : string) : a ++ b = a ++ c -> b = c.
Proof. induction a as [|x a IH]; cbn [append]; intros H; [exact H|]. inversion H. apply IH; assumption. Qed.

Lemma allc_app P a b : allc P (a ++ b) = allc P a && allc P b.
Proof.
  induction a as [|x a IH]; cbn [append allc]; [reflexivity|]. rewrite IH, andb_assoc. reflexivity.
Qed.

Lemma all_numc_allc s : all_numc s = allc numc s.
Proof. induction s as [|x s IH]; cbn [all_numc allc]; [reflexivity|]. rewrite IH. reflexivity. Qed.

Lemma allc_impl (P Q : ascii -> bool) s :
  (forall a, P a = true -> Q a = true) -> allc P s = true -> allc Q s = true.
Proof.
  intros HPQ. induction s as [|x s IH]; cbn [allc]; [reflexivity|].
  intros H. apply andb_true_iff in H. destruct H as [H1 H2].
  rewrite (HPQ _ H1), (IH H2). reflexivity.
Qed.

(* splitting at the first character outside P (or at the end) *)
Lemma split_tok P a : forall a' t t',
  allc P a = true -> allc P a' = true -> head_not P t = true -> head_not P t' = true ->
  a ++ t = a' ++ t' -> a = a' /\ t = t'.
Proof.
  induction a as [|x a IH]; intros a' t t' Ha Ha' Ht Ht' E; destruct a' as [|y a'];
    cbn [append allc] in *.
  - split; [reflexivity|exact E].
  - exfalso. subst t. cbn [head_not] in Ht. apply andb_true_iff in Ha'. destruct Ha' as [Hy _].
    rewrite Hy in Ht. discriminate.
  - exfalso. subst t'. cbn [head_not] in Ht'. apply andb_true_iff in Ha. destruct Ha as [Hx _].
    rewrite Hx in Ht'. discriminate.
  - inversion E; subst y. apply andb_true_iff in Ha. apply andb_true_iff in Ha'.
    destruct (IH a' t t' (proj2 Ha) (proj2 Ha') Ht Ht' H1) as [-> ->]. split; reflexivity.
Qed.

Lemma show_Z_numc z : allc numc (show_Z z) = true.
Proof. rewrite <- all_numc_allc. apply show_Z_chars. Qed.

Lemma show_Z_tokc z : allc tokc (show_Z z) = true.
Proof.
  apply (allc_impl numc); [|apply show_Z_numc]. intros a H. unfold tokc. rewrite H. reflexivity.
Qed.

Lemma join_cons sep x l :
  join sep (x :: l) = x ++ match l with [] => "" | _ :: _ => sep ++ join sep l end.
Proof. destruct l as [|y l]; cbn [join]; [rewrite sapp_nil_r|]; reflexivity. Qed.

(* a rendered item: non-empty, made of die characters only *)
Definition okstr (s : string) : Prop := allc tokc s = true /\ s <> "".

(* "a,b,c}" ++ t determines the items and t *)
Lemma items_split l : forall l' t t',
  Forall okstr l -> Forall okstr l' ->
  join "," l ++ String "}" t = join "," l' ++ String "}" t' -> l = l' /\ t = t'.
Proof.
  induction l as [|x l IH]; intros l' t t' Hl Hl' E; destruct l' as [|y l'].
  - cbn [join append] in E. inversion E. split; reflexivity.
  - exfalso. rewrite join_cons, sapp_assoc in E. cbn [join append] in E.
    inversion Hl' as [|? ? [Hy1 Hy2] _]; subst.
    destruct y as [|c y]; [congruence|]. cbn [append allc] in *. inversion E; subst c.
    discriminate.
  - exfalso. rewrite join_cons, sapp_assoc in E. cbn [join append] in E.
    inversion Hl as [|? ? [Hx1 Hx2] _]; subst.
    destruct x as [|c x]; [congruence|]. cbn [append allc] in *. inversion E; subst c.
    discriminate.
  - rewrite !join_cons, !sapp_assoc in E.
    inversion Hl as [|? ? [Hx1 Hx2] Hl0]; subst. inversion Hl' as [|? ? [Hy1 Hy2] Hl0']; subst.
    apply (split_tok tokc) in E; [|assumption|assumption| |].
    + destruct E as [-> E].
      destruct l as [|x2 l]; destruct l' as [|y2 l']; cbn [append] in E.
      * inversion E. split; reflexivity.
      * discriminate.
      * discriminate.
      * inversion E as [E0].
        destruct (IH (y2 :: l') t t' Hl0 Hl0' E0) as [-> ->]. split; reflexivity.
    + destruct l; reflexivity.
    + destruct l'; reflexivity.
Qed.

Definition brace (l : list string) : string := String "{" (join "," l ++ String "}" "").

Lemma brace_app l m : brace l ++ m = String "{" (join "," l ++ String "}" m).
Proof. unfold brace. cbn [append]. rewrite sapp_assoc. reflexivity. Qed.

Lemma braces_inj ls : forall ls',
  Forall (Forall okstr) ls -> Forall (Forall okstr) ls' ->
  join "," (map brace ls) = join "," (map brace ls') -> ls = ls'.
Proof.
  induction ls as [|l ls IH]; intros ls' H H' E; destruct ls' as [|l' ls']; cbn [map] in E.
  - reflexivity.
  - rewrite join_cons, brace_app in E. discriminate.
  - rewrite join_cons, brace_app in E. discriminate.
  - rewrite !join_cons, !brace_app in E. inversion E as [E0]. clear E.
    inversion H as [|? ? Hl Hls]; subst. inversion H' as [|? ? Hl' Hls']; subst.
    apply items_split in E0; [|assumption|assumption]. destruct E0 as [-> E0].
    f_equal.
    destruct ls as [|l2 ls]; destruct ls' as [|l2' ls']; cbn [map append] in E0.
    + reflexivity.
    + discriminate.
    + discriminate.
    + inversion E0 as [E1]. apply (IH (l2' :: ls')); assumption.
Qed.

Lemma map_inj_Z (f : Z -> string) (Hf : forall x y, f x = f y -> x = y) l :
  forall l', map f l = map f l' -> l = l'.
Proof.
  induction l as [|x l IH]; intros l' E; destruct l' as [|y l']; cbn [map] in E;
    try discriminate; [reflexivity|].
  inversion E. f_equal; [apply Hf; assumption|apply IH; assumption].
Qed.

Lemma map_map_inj_Z (f : Z -> string) (Hf : forall x y, f x = f y -> x = y) ls :
  forall ls', map (map f) ls = map (map f) ls' -> ls = ls'.
Proof.
  induction ls as [|x l IH]; intros l' E; destruct l' as [|y l']; cbn [map] in E;
    try discriminate; [reflexivity|].
  inversion E. f_equal; [apply (map_inj_Z f Hf); assumption|apply IH; assumption].
Qed.

(* a die renderer: every text is a non-empty token, and the renderer is injective *)
Definition die_ok (die : Z -> string) : Prop :=
  (forall x, okstr (die x)) /\ (forall x y, die x = die y -> x = y).

Lemma rounds_text_braces die rs : rounds_text die rs = join "," (map brace (map (map die) rs)).
Proof. unfold rounds_text. rewrite map_map. reflexivity. Qed.

Theorem rounds_text_inj die rs rs' :
  die_ok die -> rounds_text die rs = rounds_text die rs' -> rs = rs'.
Proof.
  intros [Hok Hinj] E. rewrite !rounds_text_braces in E.
  assert (Hall : forall qs : list (list Z), Forall (Forall okstr) (map (map die) qs)).
  { intros qs. apply Forall_forall. intros l Hin. apply in_map_iff in Hin.
    destruct Hin as (r & <- & _). apply Forall_forall. intros t Ht. apply in_map_iff in Ht.
    destruct Ht as (x & <- & _). apply Hok. }
  apply braces_inj in E; [|apply Hall|apply Hall].
  apply (map_map_inj_Z die Hinj); exact E.
Qed.

Lemma rounds_text_head die rs :
  rounds_text die rs = "" \/ exists t, rounds_text die rs = String "{" t.
Proof.
  destruct rs as [|r rs]; [left; reflexivity|right].
  rewrite rounds_text_braces. cbn [map]. rewrite join_cons, brace_app. eexists. reflexivity.
Qed.

(* ---- the two die renderers are legal tokens and injective ---- *)
Ltac die_inj_case E :=
  rewrite ?sapp_assoc in E; cbn [append] in E;
  first
    [ (* both sides bare, or both sides after removing "<" *)
      (apply (split_tok numc) in E;
       [ destruct E as [E _]; apply show_Z_inj; exact E
       | apply show_Z_numc | apply show_Z_numc | reflexivity | reflexivity ])
    | (inversion E as [E'];
       apply (split_tok numc) in E';
       [ destruct E' as [E' _]; apply show_Z_inj; exact E'
       | apply show_Z_numc | apply show_Z_numc | reflexivity | reflexivity ])
    | (exfalso;
       match type of E with
       | String _ _ = show_Z ?y ++ _ =>
         let c := fresh "c" in let t := fresh "t" in let Ey := fresh "Ey" in let Hc := fresh "Hc" in
         destruct (show_Z_head y) as (c & t & Ey & Hc & _); rewrite Ey in E; cbn [append] in E;
         inversion E; subst c; vm_compute in Hc; discriminate
       | show_Z ?y ++ _ = String _ _ =>
         let c := fresh "c" in let t := fresh "t" in let Ey := fresh "Ey" in let Hc := fresh "Hc" in
         destruct (show_Z_head y) as (c & t & Ey & Hc & _); rewrite Ey in E; cbn [append] in E;
         inversion E; subst c; vm_compute in Hc; discriminate
       end) ].

Lemma wod_die_ok addLine threshold isGE : die_ok (wod_die_text addLine threshold isGE).
Proof.
  split.
  - intros x. unfold okstr, wod_die_text. cbv zeta.
    destruct (show_Z_head x) as (c & t & Ex & _).
    split.
    + destruct (wod_reach addLine x); destruct (wod_succ threshold isGE x);
        rewrite ?allc_app, ?show_Z_tokc; reflexivity.
    + destruct (wod_reach addLine x); [cbn [append]; discriminate|].
      rewrite Ex. cbn [append]. discriminate.
  - intros x y E. unfold wod_die_text in E. cbv zeta in E.
    destruct (wod_reach addLine x); destruct (wod_reach addLine y);
      destruct (wod_succ threshold isGE x); destruct (wod_succ threshold isGE y);
      die_inj_case E.
Qed.

Lemma dc_die_ok addLine : die_ok (dc_die_text addLine).
Proof.
  split.
  - intros x. unfold okstr, dc_die_text.
    destruct (show_Z_head x) as (c & t & Ex & _).
    split.
    + destruct (dc_reach addLine x); rewrite ?allc_app, ?show_Z_tokc; reflexivity.
    + destruct (dc_reach addLine x); [cbn [append]; discriminate|].
      rewrite Ex. discriminate.
  - intros x y E. unfold dc_die_text in E.
    destruct (dc_reach addLine x); destruct (dc_reach addLine y).
    + die_inj_case E.
    + rewrite <- (sapp_nil_r (show_Z y)) in E. die_inj_case E.
    + rewrite <- (sapp_nil_r (show_Z x)) in E. die_inj_case E.
    + rewrite <- (sapp_nil_r (show_Z x)), <- (sapp_nil_r (show_Z y)) in E. die_inj_case E.
Qed.

(* ---- the whole text: header numbers, round count, dice ---- *)
Definition dice_ok (od : option string) : Prop :=
  match od with None => True | Some d => d = "" \/ exists t, d = String "{" t end.

Lemma pool_text_inj head res all rounds od res' all' rounds' od' :
  1 <= rounds -> 1 <= rounds' -> dice_ok od -> dice_ok od' ->
  pool_text head res all rounds od = pool_text head res' all' rounds' od' ->
  res = res' /\ all = all' /\ rounds = rounds' /\ od = od'.
Proof.
  intros Hr Hr' Hd Hd' E. unfold pool_text in E. apply sapp_inv_head in E.
  apply (split_tok numc) in E; [|apply show_Z_numc|apply show_Z_numc|reflexivity|reflexivity].
  destruct E as [E1 E]. apply show_Z_inj in E1. cbn [append] in E. inversion E as [E2]. clear E.
  apply (split_tok numc) in E2; [|apply show_Z_numc|apply show_Z_numc| |].
  2:{ destruct (1 <? rounds); [reflexivity|]. destruct od; reflexivity. }
  2:{ destruct (1 <? rounds'); [reflexivity|]. destruct od'; reflexivity. }
  destruct E2 as [E2 E3]. apply show_Z_inj in E2.
  split; [exact E1|]. split; [exact E2|].
  assert (Hod : forall o o' : option string,
             match o with Some d => " " ++ d | None => "" end
             = match o' with Some d => " " ++ d | None => "" end -> o = o').
  { intros [d|] [d'|] Eo; cbn [append] in Eo; try discriminate; [|reflexivity].
    inversion Eo. reflexivity. }
  destruct (Z.ltb_spec 1 rounds) as [H1|H1]; destruct (Z.ltb_spec 1 rounds') as [H1'|H1'].
  - cbn [append] in E3. inversion E3 as [E5]. clear E3. rename E5 into E3.
    apply (split_tok numc) in E3; [|apply show_Z_numc|apply show_Z_numc| |].
    2:{ destruct od; reflexivity. }
    2:{ destruct od'; reflexivity. }
    destruct E3 as [E3 E4]. apply show_Z_inj in E3. split; [exact E3|]. apply Hod; exact E4.
  - exfalso. destruct od' as [d'|]; cbn [append] in E3; [|discriminate].
    cbn [dice_ok] in Hd'. destruct Hd' as [->|[t ->]]; discriminate.
  - exfalso. destruct od as [d|]; cbn [append] in E3; [|discriminate].
    cbn [dice_ok] in Hd. destruct Hd as [->|[t ->]]; discriminate.
  - split; [lia|]. cbn [append] in E3. apply Hod; exact E3.
Qed.

(* the WoD text determines the header numbers, whether dice are displayed, and,
   when they are, every die of every round *)
Theorem wod_render_inj addLine threshold isGE pool succ all rounds rs pool' succ' all' rounds' rs' :
  1 <= rounds -> 1 <= rounds' ->
  wod_render addLine threshold isGE pool succ all rounds rs
    = wod_render addLine threshold isGE pool' succ' all' rounds' rs' ->
  succ = succ' /\ all = all' /\ rounds = rounds' /\
  pool_displayed (wod_reach addLine) pool rs = pool_displayed (wod_reach addLine) pool' rs' /\
  (pool_displayed (wod_reach addLine) pool rs = true -> rs = rs').
Proof.
  intros Hr Hr' E. unfold wod_render in E.
  apply pool_text_inj in E; [|assumption|assumption| |].
  2:{ destruct (pool_displayed (wod_reach addLine) pool rs); [apply rounds_text_head|exact I]. }
  2:{ destruct (pool_displayed (wod_reach addLine) pool' rs'); [apply rounds_text_head|exact I]. }
  destruct E as (E1 & E2 & E3 & E4). split; [exact E1|]. split; [exact E2|]. split; [exact E3|].
  destruct (pool_displayed (wod_reach addLine) pool rs);
    destruct (pool_displayed (wod_reach addLine) pool' rs'); try discriminate.
  - split; [reflexivity|]. intros _. inversion E4 as [E5].
    apply (rounds_text_inj _ _ _ (wod_die_ok addLine threshold isGE) E5).
  - split; [reflexivity|]. discriminate.
Qed.

Lemma dc_prefix_strip r a n od r' a' n' od' :
  (if r =? 1 then "大失败 " else "") ++ pool_text "出目" r a n od
    = (if r' =? 1 then "大失败 " else "") ++ pool_text "出目" r' a' n' od' ->
  pool_text "出目" r a n od = pool_text "出目" r' a' n' od'.
Proof.
  intros E. destruct (r =? 1); destruct (r' =? 1).
  - apply sapp_inv_head in E. exact E.
  - exfalso. unfold pool_text in E. cbn [append] in E. discriminate.
  - exfalso. unfold pool_text in E. cbn [append] in E. discriminate.
  - exact E.
Qed.

Theorem dc_render_inj addLine pool result all rounds rs pool' result' all' rounds' rs' :
  1 <= rounds -> 1 <= rounds' ->
  dc_render addLine pool result all rounds rs = dc_render addLine pool' result' all' rounds' rs' ->
  result = result' /\ all = all' /\ rounds = rounds' /\
  pool_displayed (dc_reach addLine) pool rs = pool_displayed (dc_reach addLine) pool' rs' /\
  (pool_displayed (dc_reach addLine) pool rs = true -> rs = rs').
Proof.
  intros Hr Hr' E. unfold dc_render in E.
  apply dc_prefix_strip in E.
  apply pool_text_inj in E; [|assumption|assumption| |].
  2:{ destruct (pool_displayed (dc_reach addLine) pool rs); [apply rounds_text_head|exact I]. }
  2:{ destruct (pool_displayed (dc_reach addLine) pool' rs'); [apply rounds_text_head|exact I]. }
  destruct E as (E1 & E2 & E3 & E4). split; [exact E1|]. split; [exact E2|]. split; [exact E3|].
  destruct (pool_displayed (dc_reach addLine) pool rs);
    destruct (pool_displayed (dc_reach addLine) pool' rs'); try discriminate.
  - split; [reflexivity|]. intros _. inversion E4 as [E5].
    apply (rounds_text_inj _ _ _ (dc_die_ok addLine) E5).
  - split; [reflexivity|]. discriminate.
Qed.

(* ------------------------------------------------------------------ *)
(* the displayed dice recount to the result                            *)
(* ------------------------------------------------------------------ *)
Lemma chain_len_le reach n rs :
  round_chain reach n rs -> (1 <= n)%nat -> (length rs <= length (concat rs))%nat.
Proof.
  induction 1 as [n r Hl Hf|n r rs Hl Hf Hc IH]; intros Hn; cbn [concat length]; rewrite app_length.
  - cbn [length]. lia.
  - assert (1 <= length (filter reach r))%nat.
    { destruct (filter reach r); [congruence|cbn [length]; lia]. }
    specialize (IH ltac:(assumption)). lia.
Qed.

Section Recount.
  Variable S : Type.
  Variable next : S -> N * S.
  Hypothesis next_word : forall s, (fst (next s) < W64)%N.

  (* (3a) WoD, unconditional: WHENEVER the text displays dice — i.e. it reads as a header
     followed by a list of rounds rs' — those displayed dice are exactly the dice rolled, they
     form a legal chain, and the header numbers are their recount.  Dice are displayed only if
     the first pool is below 15 and the total is at most 100. *)
  Theorem roll_wod_recount rfuel fuel addLine pool points threshold isGE mode s succ all rounds txt s' :
    wod_check addLine pool points threshold = true ->
    points <= MaxInt64 - 1 ->
    roll_wod next rfuel fuel addLine pool points threshold isGE mode s
      = Done ((succ, all, rounds, txt), s') ->
    forall succ' all' rounds' rs',
      1 <= rounds' ->
      txt = pool_text "成功" succ' all' rounds'
              (Some (rounds_text (wod_die_text addLine threshold isGE) rs')) ->
      succ' = succ /\ all' = all /\ rounds' = rounds /\
      round_chain (wod_reach addLine) (Z.to_nat pool) rs' /\
      Forall (Forall (fun x => 1 <= x <= points)) rs' /\
      succ = countZ (wod_succ threshold isGE) (concat rs') /\
      all = Z.of_nat (length (concat rs')) /\
      rounds = Z.of_nat (length rs') /\
      pool < 15 /\ all <= 100.
  Proof.
    intros Hchk Hpts H succ' all' rounds' rs' Hr' Ht.
    destruct (roll_wod_text S next next_word _ _ _ _ _ _ _ _ _ _ _ _ _ _ Hchk Hpts H)
      as (rs & Hpool & Hc & Hf & Hs & Hr & Ha & _ & Htxt).
    pose proof (round_chain_nonempty _ _ _ Hc) as Hne.
    assert (Hr1 : 1 <= rounds) by (destruct rs; [congruence|cbn [length] in Hr; lia]).
    rewrite Htxt in Ht. unfold wod_render in Ht.
    apply pool_text_inj in Ht; [|assumption|assumption| |apply rounds_text_head].
    2:{ destruct (pool_displayed (wod_reach addLine) pool rs); [apply rounds_text_head|exact I]. }
    destruct Ht as (E1 & E2 & E3 & E4).
    destruct (pool_displayed (wod_reach addLine) pool rs) eqn:Hd; [|discriminate].
    inversion E4 as [E5]. apply (rounds_text_inj _ _ _ (wod_die_ok addLine threshold isGE)) in E5.
    subst rs'. destruct (pool_displayed_true _ _ _ Hc ltac:(lia) Hd) as (H15 & H100 & _).
    assert (Hall : all = Z.of_nat (length (concat rs))) by (apply Ha; unfold two63; lia).
    repeat split; try assumption; try lia.
  Qed.

  (* (1') WoD with the elision condition in closed form.  Z.of_nat rfuel * 20000 < 2^63 only
     says the int64 dice counter cannot wrap around (at most rfuel rounds of at most 20000 dice). *)
  Theorem roll_wod_text_closed rfuel fuel addLine pool points threshold isGE mode s succ all rounds txt s' :
    wod_check addLine pool points threshold = true ->
    points <= MaxInt64 - 1 ->
    Z.of_nat rfuel * 20000 < two63 ->
    roll_wod next rfuel fuel addLine pool points threshold isGE mode s
      = Done ((succ, all, rounds, txt), s') ->
    exists rs : list (list Z),
      round_chain (wod_reach addLine) (Z.to_nat pool) rs /\
      Forall (Forall (fun x => 1 <= x <= points)) rs /\
      succ = countZ (wod_succ threshold isGE) (concat rs) /\
      rounds = Z.of_nat (length rs) /\
      all = Z.of_nat (length (concat rs)) /\
      txt = pool_text "成功" succ all rounds
              (if (pool <? 15) && (all <=? 100)
               then Some (rounds_text (wod_die_text addLine threshold isGE) rs) else None).
  Proof.
    intros Hchk Hpts Hfuel H.
    destruct (roll_wod_text S next next_word _ _ _ _ _ _ _ _ _ _ _ _ _ _ Hchk Hpts H)
      as (rs & Hpool & Hc & Hf & Hs & Hr & Ha & Hlen & Htxt).
    assert (Hnw : Z.of_nat (length (concat rs)) < two63).
    { apply (chain_no_wrap _ pool rs rfuel Hc); [lia|exact Hlen|nia]. }
    specialize (Ha Hnw).
    exists rs. repeat split; try assumption.
    rewrite Htxt. unfold wod_render.
    rewrite (pool_displayed_exact _ _ _ Hc) by (assumption || lia). rewrite <- Ha. reflexivity.
  Qed.

  (* (3b) Double Cross, unconditional *)
  Theorem roll_dc_recount rfuel fuel addLine pool points mode s result all rounds txt s' :
    dc_check addLine pool points = true ->
    points <= MaxInt64 - 1 ->
    roll_dc next rfuel fuel addLine pool points mode s = Done ((result, all, rounds, txt), s') ->
    forall result' all' rounds' rs',
      1 <= rounds' ->
      txt = (if result' =? 1 then "大失败 " else "") ++
            pool_text "出目" result' all' rounds' (Some (rounds_text (dc_die_text addLine) rs')) ->
      result' = result /\ all' = all /\ rounds' = rounds /\
      round_chain (dc_reach addLine) (Z.to_nat pool) rs' /\
      Forall (Forall (fun x => 1 <= x <= points)) rs' /\
      result = fold_left (fun a r => wrap64 (a + dc_round_max addLine r)) rs' 0 /\
      (points <= 10 -> result = 10 * (rounds - 1) + dice_max (last rs' [])) /\
      all = Z.of_nat (length (concat rs')) /\
      rounds = Z.of_nat (length rs') /\
      pool < 15 /\ all <= 100.
  Proof.
    intros Hchk Hpts H result' all' rounds' rs' Hr' Ht.
    destruct (roll_dc_text S next next_word _ _ _ _ _ _ _ _ _ _ _ _ Hchk Hpts H)
      as (rs & Hpool & Hc & Hf & Hr & Ha & Hres & H10 & _ & Htxt).
    pose proof (round_chain_nonempty _ _ _ Hc) as Hne.
    assert (Hr1 : 1 <= rounds) by (destruct rs; [congruence|cbn [length] in Hr; lia]).
    rewrite Htxt in Ht. unfold dc_render in Ht. apply dc_prefix_strip in Ht.
    apply pool_text_inj in Ht; [|assumption|assumption| |apply rounds_text_head].
    2:{ destruct (pool_displayed (dc_reach addLine) pool rs); [apply rounds_text_head|exact I]. }
    destruct Ht as (E1 & E2 & E3 & E4).
    destruct (pool_displayed (dc_reach addLine) pool rs) eqn:Hd; [|discriminate].
    inversion E4 as [E5]. apply (rounds_text_inj _ _ _ (dc_die_ok addLine)) in E5.
    subst rs'. destruct (pool_displayed_true _ _ _ Hc ltac:(lia) Hd) as (H15 & H100 & _).
    assert (Hall : all = Z.of_nat (length (concat rs))) by (apply Ha; unfold two63; lia).
    pose proof (chain_len_le _ _ _ Hc ltac:(lia)) as Hll.
    repeat split; try assumption; try lia.
    intros Hp10. apply H10; [exact Hp10|unfold two63; lia].
  Qed.

  Theorem roll_dc_text_closed rfuel fuel addLine pool points mode s result all rounds txt s' :
    dc_check addLine pool points = true ->
    points <= MaxInt64 - 1 ->
    Z.of_nat rfuel * 20000 < two63 ->
    roll_dc next rfuel fuel addLine pool points mode s = Done ((result, all, rounds, txt), s') ->
    exists rs : list (list Z),
      round_chain (dc_reach addLine) (Z.to_nat pool) rs /\
      Forall (Forall (fun x => 1 <= x <= points)) rs /\
      result = fold_left (fun a r => wrap64 (a + dc_round_max addLine r)) rs 0 /\
      rounds = Z.of_nat (length rs) /\
      all = Z.of_nat (length (concat rs)) /\
      txt = (if result =? 1 then "大失败 " else "") ++
            pool_text "出目" result all rounds
              (if (pool <? 15) && (all <=? 100)
               then Some (rounds_text (dc_die_text addLine) rs) else None).
  Proof.
    intros Hchk Hpts Hfuel H.
    destruct (roll_dc_text S next next_word _ _ _ _ _ _ _ _ _ _ _ _ Hchk Hpts H)
      as (rs & Hpool & Hc & Hf & Hr & Ha & Hres & H10 & Hlen & Htxt).
    assert (Hnw : Z.of_nat (length (concat rs)) < two63).
    { apply (chain_no_wrap _ pool rs rfuel Hc); [lia|exact Hlen|nia]. }
    specialize (Ha Hnw).
    exists rs. repeat split; try assumption.
    rewrite Htxt. unfold dc_render.
    rewrite (pool_displayed_exact _ _ _ Hc) by (assumption || lia). rewrite <- Ha. reflexivity.
  Qed.
End Recount.

(* ------------------------------------------------------------------ *)
(* non-vacuity: the rendering agrees with the model on concrete runs   *)
(* ------------------------------------------------------------------ *)
(* reference splitter (examples only): cut a stream of faces into the chain of rounds *)
Fixpoint split_rounds (fuel : nat) (reach : Z -> bool) (n : nat) (faces : list Z) : list (list Z) :=
  match fuel with
  | O => []
  | Datatypes.S f =>
    let r := firstn n faces in
    let k := length (filter reach r) in
    r :: (if Nat.eqb k 0 then [] else split_rounds f reach k (skipn n faces))
  end.

(* a word source whose d10 faces are known by construction: face = word + 1 *)
Definition ex_words : list N := map (fun i => N.of_nat ((i * 7 + i / 10 + 3) mod 10)) (seq 0 900).
Definition ex_faces : list Z := map (fun w => Z.of_N w + 1) ex_words.

Definition wod_agrees (addLine pool threshold : Z) (isGE : bool) : Prop :=
  match roll_wod list_next 1000 64 addLine pool 10 threshold isGE 0 ex_words with
  | Done ((succ, all, rounds, txt), _) =>
    wod_check addLine pool 10 threshold = true /\
    txt = wod_render addLine threshold isGE pool succ all rounds
            (split_rounds 1000 (wod_reach addLine) (Z.to_nat pool) ex_faces)
  | OutOfFuel => False
  end.

Definition dc_agrees (addLine pool mode : Z) (faces : list Z) : Prop :=
  match roll_dc list_next 1000 64 addLine pool 10 mode ex_words with
  | Done ((result, all, rounds, txt), _) =>
    dc_check addLine pool 10 = true /\
    txt = dc_render addLine pool result all rounds
            (split_rounds 1000 (dc_reach addLine) (Z.to_nat pool) faces)
  | OutOfFuel => False
  end.

(* displayed in full, three rounds *)
Example wod_text_ex_small :
  exists s', roll_wod list_next 1000 64 8 5 10 6 true 0 ex_words
             = Done ((3, 7, 3, "成功3/7 轮数:3 {4,1,<8*>,5,2},{<9*>},{6*}"), s') /\
  wod_render 8 6 true 5 3 7 3 [[4; 1; 8; 5; 2]; [9]; [6]]
    = "成功3/7 轮数:3 {4,1,<8*>,5,2},{<9*>},{6*}".
Proof. vm_compute. eexists. split; reflexivity. Qed.

Example wod_text_ex1 : wod_agrees 8 5 6 true.            Proof. vm_compute. split; reflexivity. Qed.
(* 14 dice, 13 rounds, 67 dice in total: all displayed; success = die <= threshold *)
Example wod_text_ex2 : wod_agrees 3 14 6 false.          Proof. vm_compute. split; reflexivity. Qed.
(* first pool of 15: nothing displayed *)
Example wod_text_ex3 : wod_agrees 9 15 6 false.          Proof. vm_compute. split; reflexivity. Qed.
(* first pool of 14 but more than 100 dice in total: nothing displayed *)
Example wod_text_ex4 : wod_agrees 2 14 8 true.           Proof. vm_compute. split; reflexivity. Qed.
Example wod_text_ex4_elided :
  match roll_wod list_next 1000 64 2 14 10 8 true 0 ex_words with
  | Done ((succ, all, rounds, txt), _) =>
    txt = "成功" ++ show_Z succ ++ "/" ++ show_Z all ++ " 轮数:" ++ show_Z rounds /\ 100 < all
  | OutOfFuel => False
  end.
Proof. vm_compute. split; reflexivity. Qed.
(* no add line: a single round *)
Example wod_text_ex5 : wod_agrees 0 7 8 true.            Proof. vm_compute. split; reflexivity. Qed.

Example dc_text_ex_small :
  exists s', roll_dc list_next 1000 64 8 5 10 0 ex_words
             = Done ((26, 7, 3, "出目26/7 轮数:3 {4,1,<8>,5,2},{<9>},{6}"), s') /\
  dc_render 8 5 26 7 3 [[4; 1; 8; 5; 2]; [9]; [6]] = "出目26/7 轮数:3 {4,1,<8>,5,2},{<9>},{6}".
Proof. vm_compute. eexists. split; reflexivity. Qed.

Example dc_text_ex1 : dc_agrees 8 5 0 ex_faces.          Proof. vm_compute. split; reflexivity. Qed.
Example dc_text_ex2 : dc_agrees 3 14 0 ex_faces.         Proof. vm_compute. split; reflexivity. Qed.
Example dc_text_ex3 : dc_agrees 9 15 0 ex_faces.         Proof. vm_compute. split; reflexivity. Qed.
Example dc_text_ex4 : dc_agrees 2 14 0 ex_faces.         Proof. vm_compute. split; reflexivity. Qed.
(* min mode: every die is 1, result 1, the "大失败" prefix *)
Example dc_text_ex_fumble :
  exists s', roll_dc list_next 1000 64 8 5 10 (-1) ex_words
             = Done ((1, 5, 1, "大失败 出目1/5 {1,1,1,1,1}"), s') /\
  dc_render 8 5 1 5 1 [[1; 1; 1; 1; 1]] = "大失败 出目1/5 {1,1,1,1,1}".
Proof. vm_compute. eexists. split; reflexivity. Qed.
Example dc_text_ex5 : dc_agrees 8 5 (-1) (repeat 1 100).  Proof. vm_compute. split; reflexivity. Qed.

Print Assumptions roll_wod_text.
Print Assumptions roll_dc_text.
Print Assumptions roll_wod_recount.
Print Assumptions roll_dc_recount.
Print Assumptions roll_wod_text_closed.
Print Assumptions roll_dc_text_closed.
Print Assumptions wod_render_inj.
Print Assumptions dc_render_inj.
Print Assumptions rounds_text_inj.

(* ------------------------------------------------------------------ *)
(* bonus: the success markers in the text can be counted directly      *)
(* ------------------------------------------------------------------ *)
Lemma cc_app c a b : count_char c (a ++ b) = count_char c a + count_char c b.
Proof. induction a as [|x a IH]; cbn [append count_char]; [reflexivity|]. rewrite IH. lia. Qed.

Lemma cc_allc c P s : allc P s = true -> P c = false -> count_char c s = 0.
Proof.
  intros Hs Hc. induction s as [|x s IH]; cbn [count_char allc] in *; [reflexivity|].
  apply andb_true_iff in Hs. destruct Hs as [Hx Hs]. rewrite (IH Hs).
  destruct (Ascii.eqb_spec x c) as [->|_]; [congruence|reflexivity].
Qed.

Lemma cc_join c l :
  count_char c "," = 0 ->
  count_char c (join "," l) = fold_right Z.add 0 (map (count_char c) l).
Proof.
  intros Hsep. induction l as [|x l IH]; [reflexivity|].
  rewrite join_cons, cc_app. cbn [map fold_right]. rewrite <- IH.
  destruct l as [|y l]; [reflexivity|]. rewrite cc_app, Hsep. reflexivity.
Qed.

(* a marker character c that each die text carries exactly when f holds of the die *)
Lemma cc_rounds_text c (f : Z -> bool) die rs :
  count_char c "," = 0 -> count_char c "{" = 0 -> count_char c "}" = 0 ->
  (forall x, count_char c (die x) = if f x then 1 else 0) ->
  count_char c (rounds_text die rs) = countZ f (concat rs).
Proof.
  intros H1 H2 H3 Hdie. unfold rounds_text. rewrite (cc_join c _ H1), map_map.
  induction rs as [|r rs IH]; cbn [map fold_right concat]; [reflexivity|].
  rewrite IH, countZ_app. f_equal.
  unfold round_text. rewrite !cc_app, H2, H3, (cc_join c _ H1), map_map.
  clear IH. induction r as [|x r IHr]; cbn [map fold_right]; [reflexivity|].
  rewrite countZ_cons, Hdie. lia.
Qed.

Lemma cc_star_wod_die addLine threshold isGE x :
  count_char "*" (wod_die_text addLine threshold isGE x) = if wod_succ threshold isGE x then 1 else 0.
Proof.
  assert (H0 : count_char "*" (show_Z x) = 0) by (apply (cc_allc _ numc); [apply show_Z_numc|reflexivity]).
  unfold wod_die_text. cbv zeta.
  destruct (wod_reach addLine x); destruct (wod_succ threshold isGE x);
    rewrite ?cc_app, H0; reflexivity.
Qed.

(* the number of "*" in the whole text is the number of displayed dice meeting the threshold *)
Theorem wod_render_stars addLine threshold isGE pool succ all rounds rs :
  count_char "*" (wod_render addLine threshold isGE pool succ all rounds rs)
  = if pool_displayed (wod_reach addLine) pool rs
    then countZ (wod_succ threshold isGE) (concat rs) else 0.
Proof.
  assert (H0 : forall z, count_char "*" (show_Z z) = 0).
  { intros z. apply (cc_allc _ numc); [apply show_Z_numc|reflexivity]. }
  unfold wod_render, pool_text. rewrite !cc_app, !H0.
  assert (Hr : count_char "*" (if 1 <? rounds then " 轮数:" ++ show_Z rounds else "") = 0).
  { destruct (1 <? rounds); [rewrite cc_app, H0|]; reflexivity. }
  rewrite Hr.
  destruct (pool_displayed (wod_reach addLine) pool rs); [|reflexivity].
  rewrite cc_app, (cc_rounds_text "*" (wod_succ threshold isGE)); try reflexivity.
  apply cc_star_wod_die.
Qed.

Section Stars.
  Variable S : Type.
  Variable next : S -> N * S.
  Hypothesis next_word : forall s, (fst (next s) < W64)%N.

  (* when the dice are displayed, the success count is the number of "*" in the text;
     when they are elided there is no "*" at all *)
  Theorem roll_wod_stars rfuel fuel addLine pool points threshold isGE mode s succ all rounds txt s' :
    wod_check addLine pool points threshold = true ->
    points <= MaxInt64 - 1 ->
    Z.of_nat rfuel * 20000 < two63 ->
    roll_wod next rfuel fuel addLine pool points threshold isGE mode s
      = Done ((succ, all, rounds, txt), s') ->
    count_char "*" txt = if (pool <? 15) && (all <=? 100) then succ else 0.
  Proof.
    intros Hchk Hpts Hfuel H.
    destruct (roll_wod_text S next next_word _ _ _ _ _ _ _ _ _ _ _ _ _ _ Hchk Hpts H)
      as (rs & Hpool & Hc & Hf & Hs & Hr & Ha & Hlen & Htxt).
    assert (Hnw : Z.of_nat (length (concat rs)) < two63).
    { apply (chain_no_wrap _ pool rs rfuel Hc); [lia|exact Hlen|nia]. }
    specialize (Ha Hnw).
    rewrite Htxt, wod_render_stars, (pool_displayed_exact _ _ _ Hc) by (assumption || lia).
    rewrite <- Ha, <- Hs. reflexivity.
  Qed.
End Stars.

Print Assumptions wod_render_stars.
Print Assumptions roll_wod_stars.
