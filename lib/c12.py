"""C12 — ValueMap is a correct map, sequentially and under concurrency."""
import json, random
import os

import common
from common import Broken, Z

LEVEL = "proof"

HEADER = ("From stdpp Require Import gmap.\nFrom Coq Require Import NArith ZArith.\n"
          "From DS Require Import Model.ValueMap Model.Linz Corr.Corr12.\n"
          "Set Printing Width 1000000. Set Printing Depth 10000000.\n")


def ops_term(ops):
    return "[" + ";".join(f"({o[0]},{o[1]},{o[2]})%N" for o in ops) + "]"


def res_term(res):
    return "[" + ";".join("[" + ";".join(Z(x) for x in r) + "]" for r in res) + "]"


def cases_v(rows):
    items = [f"({ops_term(r['ops'])}, {res_term(r['res'])})" for r in rows]
    return (HEADER + "Definition cases : list c12_case := [\n" + ";\n".join(items) + "].\n"
            "Definition bad := Eval vm_compute in bad_idx c12_ok 0%N cases.\nPrint bad.\n")


def lin_v(hists):
    items = []
    for h in hists:
        evs = [f"(({e['op'][0]},{e['op'][1]},{e['op'][2]})%N, [" + ";".join(Z(x) for x in e["res"]) + f"], {e['inv']}%N, {e['ret']}%N)"
               for e in h]
        items.append("[" + ";".join(evs) + "]")
    return (HEADER + "Definition hists : list (list ((N * N * N) * list Z * N * N)) := [\n" + ";\n".join(items) + "].\n"
            "Definition bad := Eval vm_compute in bad_idx c12_lin_ok 0%N hists.\nPrint bad.\n")


def spec_results(ops):
    """The property itself: an ordinary string-keyed map."""
    d, out = {}, []
    for c, k, v in ops:
        if c == 0:
            out.append([1, d[k]] if k in d else [0])
        elif c == 1:
            d[k] = v
            out.append([])
        elif c == 2:
            if k in d:
                out.append([1, d[k]])
            else:
                d[k] = v
                out.append([0, v])
        elif c == 3:
            out.append([1, d.pop(k)] if k in d else [0])
        elif c == 4:
            d.pop(k, None)
            out.append([])
        elif c == 5:
            d.clear()
            out.append([])
        elif c == 6:
            out.append([x for kk in sorted(d) for x in (kk, d[kk])])
        else:
            out.append([len(d)])
    return out


def final_map(ops):
    d = {}
    for c, k, v in ops:
        if c == 1:
            d[k] = v
        elif c == 2:
            d.setdefault(k, v)
        elif c in (3, 4):
            d.pop(k, None)
        elif c == 5:
            d.clear()
    return d


def go_run(ops_list):
    rows, _ = common.run_harness(["c12-run"], stdin="\n".join(json.dumps(o) for o in ops_list) + "\n")
    return rows


def shrink(ops):
    """Greedy removal of operations while the Go result still differs from the plain map."""
    cur = list(ops)
    changed = True
    while changed and len(cur) > 1:
        changed = False
        for i in range(len(cur)):
            cand = cur[:i] + cur[i + 1:]
            r = go_run([cand])
            if r and r[0]["res"] != spec_results(cand):
                cur, changed = cand, True
                break
    return cur


def property_search(res, rows):
    found = 0
    for r in rows:
        if r["res"] != spec_results(r["ops"]):
            ops = shrink(r["ops"])
            got = go_run([ops])[0]["res"]
            res.violation({"what": "ValueMap result differs from an ordinary map",
                           "ops": ops, "opcodes": "0 Load 1 Store 2 LoadOrStore 3 LoadAndDelete 4 Delete 5 Clear 6 Range 7 Length; [op,key,val]",
                           "observed": got, "expected": spec_results(ops)})
            found += 1
            if found >= 2:
                break
    return found


KF_SNAPSHOT = "concurrent-range-length-not-atomic-snapshot"
WRITES = (1, 2, 3, 4, 5)


def overlapped_scan(e, hist):
    """a Range / Length issued by a goroutine whose interval overlaps a write of another goroutine"""
    if e["op"][0] not in (6, 7) or "g" not in e:
        return False
    return any(w["op"][0] in WRITES and w.get("g") != e["g"] and w["inv"] < e["ret"] and e["inv"] < w["ret"] for w in hist)


def weak_scan_ok(e, hist):
    written = {}
    for w in hist:
        if w["inv"] < e["ret"]:
            if w["op"][0] == 1 or (w["op"][0] == 2 and w["res"][:1] == [0]):
                written.setdefault(w["op"][1], set()).add(w["op"][2])
    if e["op"][0] == 7:
        return 0 <= e["res"][0] <= len(written)
    pairs = list(zip(e["res"][0::2], e["res"][1::2]))
    keys = [k for k, _ in pairs]
    return len(set(keys)) == len(keys) and all(v in written.get(k, ()) for k, v in pairs)


def py_linearizable(evs):
    """Property-level fallback used only to produce a replay when the Coq monitor rejects."""
    return None


def run(res, tier, seed):
    common.build_harness()
    n = 1500 if tier == "quick" else 8000
    rows, _ = common.run_harness(["c12", "-seed", seed, "-n", n, "-len", 60])
    exh_len = 3 if tier == "quick" else 4
    exh, _ = common.run_harness(["c12-exh", "-len", exh_len, "-keys", 2, "-vals", 1], timeout=1200)
    conc_n = 300 if tier == "quick" else 3000
    conc, _ = common.run_harness(["c12-conc", "-seed", seed, "-n", conc_n, "-g", 3, "-per", 4])
    allrows = exh + rows
    opcount = {}
    for r in allrows:
        res.count(json.dumps(r["ops"]), nontrivial=len(r["ops"]) >= 3)
        for o in r["ops"]:
            opcount[o[0]] = opcount.get(o[0], 0) + 1
    res.cov["rule"] = (f"all {len(exh)} sequences of exactly {exh_len} operations over 2 keys x 1 value (13 operations; exhaustive for that bound) "
                       "+ random histories of length 4..60 over 2..5 keys biased toward miss/promotion/expunge/unexpunge patterns; "
                       "distinct = distinct operation sequence, non-trivial = at least 3 operations; "
                       f"+ {len(conc)} concurrent histories (3 goroutines x 4 ops) checked by the Coq linearizability monitor")
    res.cov["exhaustive_part"] = {"length": exh_len, "keys": 2, "values": 1, "sequences": len(exh)}
    res.cov["input_distribution"] = {"ops_by_code": opcount, "sequential_histories": len(allrows), "concurrent_histories": len(conc),
                                     "mean_len": round(sum(len(r["ops"]) for r in rows) / max(1, len(rows)), 1)}
    res.sample(rows[0])
    res.sample(conc[0])
    res.cov["trusted_base"] += [
        "sequential model Model/ValueMap.v is a hand transliteration of valuemap.go; tied by API-result correspondence",
        "concurrent half: Model/ValueMapConc.v (interleaving model of the point operations at the granularity of the code's atomic loads / CAS / "
        "mutex sections) is proved linearizable for every schedule; Range / Length / Clear under concurrency and the real scheduler are covered "
        "only by the Coq linearizability monitor (Model/Linz.v) run on recorded histories; the Go memory model (weaker than sequential consistency "
        "only for racy non-atomic accesses) is outside the model",
        "real-time order of concurrent events is taken from one global atomic ticket counter (inv/ret)",
    ]
    res.assumptions += ["Go's atomic ticket counter reflects real-time order", "keys k<N> / small-int values are representative: the code never inspects keys or values"]

    broken = None
    try:
        if os.path.exists(os.path.join(common.COQ, "Properties", "C12.v")):
            info = common.check_property_file("C12")
            res.proof(info, "cd coq && make && coqc -Q . DS Properties/C12.v  (Print Assumptions parsed)")
        else:
            common.coq_make()
        shard = 300
        ks = list(range(0, len(allrows), shard))
        outs = common.coq_eval_many([(f"c12_{k}", cases_v(allrows[k:k + shard])) for k in ks])
        bad = []
        for k, out in zip(ks, outs):
            bad += [k + int(x.replace("%N", "")) for x in common.parse_coq_list(out, "bad")]
        res.cov["correspondence"] = {"cases": len(allrows), "disagreements": len(bad)}
        if bad:
            broken = Broken("correspondence Corr12.c12_ok (Model/ValueMap.v vm_run vs Go ValueMap)",
                            {"first_disagreeing_cases": [allrows[i] for i in bad[:3]]})
        # concurrent histories through the Coq monitor (final Range appended as a last event)
        hists = []
        for c in conc:
            evs = list(c["events"])
            t = max(e["ret"] for e in evs) + 1
            evs.append({"op": [6, 0, 0], "res": c["final"], "inv": t, "ret": t + 1})
            hists.append(evs)
        shard = 100
        ks = list(range(0, len(hists), shard))
        outs = common.coq_eval_many([(f"c12lin_{k}", lin_v(hists[k:k + shard])) for k in ks])
        badl = []
        for k, out in zip(ks, outs):
            badl += [k + int(x.replace("%N", "")) for x in common.parse_coq_list(out, "bad")]
        res.cov["linearizability_monitor"] = {"histories": len(hists), "rejected": len(badl)}
        # recorded finding: Range / Length called WHILE other goroutines write are not atomic snapshots.  A rejected history is
        # excused only if (a) the finding is registered, (b) the same history without those overlapped scans is accepted by the
        # Coq monitor, and (c) every overlapped scan still meets the weak contract (each key at most once, every visited pair
        # was written by an operation invoked before the scan returned, Length between 0 and the number of keys written so far)
        kf = [k for k in common.known_for("C12") if k.get("key") == KF_SNAPSHOT]
        excused = []
        if badl and kf:
            filt = [[e for e in hists[i] if not overlapped_scan(e, hists[i])] for i in badl]
            out2 = common.coq_eval_many([("c12lin_kf", lin_v(filt))])[0]
            still = {int(x.replace("%N", "")) for x in common.parse_coq_list(out2, "bad")}
            for n, i in enumerate(badl):
                scans = [e for e in hists[i] if overlapped_scan(e, hists[i])]
                if n not in still and scans and all(weak_scan_ok(e, hists[i]) for e in scans):
                    excused.append(i)
        res.cov["linearizability_monitor"]["excused_by_recorded_finding"] = len(excused)
        if excused:
            res.known(f"key={KF_SNAPSHOT} histories={len(excused)} first={json.dumps(hists[excused[0]])} :: {kf[0]['what']}")
        for i in [i for i in badl if i not in excused][:2]:
            res.violation({"what": "concurrent history is not linearizable w.r.t. the map specification (Coq monitor Linz.linearizable = false)",
                           "history": hists[i]})
    except Broken as b:
        broken = b

    # dict observations in scripts (`==`, `!=`, len, truthiness) after arbitrary histories of the two underlying maps
    rnd = random.Random(seed * 7 + 1)
    eqin = []
    hist_pool = [r["ops"] for r in rows[:400]] + [r["ops"] for r in exh[:: max(1, len(exh) // 200)]]
    for _ in range(400 if tier == "quick" else 4000):
        a = list(rnd.choice(hist_pool))
        k = rnd.random()
        if k < 0.3:
            b = list(a)                                   # the same history: equal
        elif k < 0.6:
            b = list(a) + [[rnd.choice([1, 4, 3]), rnd.randrange(1, 6), rnd.randrange(1, 4)] for _ in range(rnd.randrange(1, 3))]
            if rnd.random() < 0.5:                        # same number of keys, another key set
                ks = sorted(final_map(a))
                if ks:
                    b = list(a) + [[3, ks[0], 0], [1, max(ks) + 1 + rnd.randrange(2), final_map(a)[ks[0]]]]
        else:
            b = list(rnd.choice(hist_pool))
        eqin.append({"a": a, "b": b})
    eqrows, _ = common.run_harness(["c12-eq"], stdin="\n".join(json.dumps(e) for e in eqin) + "\n", timeout=600)
    eq_bad = 0
    eq_stats = {"equal": 0, "same_size_other_keys": 0, "other": 0}
    for e, row in zip(eqin, eqrows):
        da, db = final_map(e["a"]), final_map(e["b"])
        same = da == db
        eq_stats["equal" if same else ("same_size_other_keys" if len(da) == len(db) and set(da) != set(db) else "other")] += 1
        want = {"a == b": "1" if same else "0", "b == a": "1" if same else "0", "a != b": "0" if same else "1", "a.len()": str(len(da)),
                "b.len()": str(len(db)), "a ? 1 : 0": "1" if da else "0", "[a] == [b]": "1" if same else "0"}
        diff = {q: (row.get(q), w) for q, w in want.items() if row.get(q) != w}
        if diff and eq_bad < 2:
            res.violation({"what": "script-level observation of two dicts differs from what plain maps give (observed, expected)",
                           "ops_a": e["a"], "ops_b": e["b"], "contents_a": {f"k{k}": v for k, v in da.items()}, "contents_b": {f"k{k}": v for k, v in db.items()},
                           "opcodes": "0 Load 1 Store 2 LoadOrStore 3 LoadAndDelete 4 Delete 5 Clear 6 Range 7 Length; [op,key,val]", "differences": diff})
            eq_bad += 1
    res.cov["script_level_dict_observations"] = {"pairs": len(eqin), "by_relation": eq_stats, "disagreements": eq_bad}
    demo = [k for k in common.known_for("C12") if k.get("key") == KF_SNAPSHOT]
    if demo:
        d, _ = common.run_harness(["c12-snapshot"], timeout=300)
        res.cov["snapshot_demonstration"] = d[0]
        if not res.known_lines:
            res.known(f"key={KF_SNAPSHOT} demonstration={json.dumps(d[0])} :: {demo[0]['what']}")
    found = property_search(res, allrows)
    if broken and not found and not res.violations:
        res.violation({"broken": broken.what, "detail": broken.detail}, no_input=True)


def replay(path):
    p = json.load(open(path))
    print(json.dumps(p, indent=1))
    if "ops" in p:
        common.build_harness()
        got = go_run([p["ops"]])[0]["res"]
        print("observed now:", got, "expected:", spec_results(p["ops"]))
        return 0 if got == spec_results(p["ops"]) else 1
    return 0
