"""Grammar-aware random source generator for dicescript programs (shared by several checks).
Every choice derives from the random.Random instance passed in."""

# some names end in a character whose last UTF-8 byte is 0x85 / 0xA0 (bytes that unicode.IsSpace accepts as runes U+0085 / U+00A0)
IDENTS = ["x", "y", "z", "v1", "val", "arr", "m", "力量", "敏捷", "_t", "hp", "n", "体内", "夠", "nà"]
# dice letters a b c d f p are dice heads when the families are enabled: never used as names
FUNCS = ["g", "h", "fn1", "fib"]
STRS = ["", "abc", "x y", "力量", "a{b", "it's", 'q"q', "1", "0"]
SP = ["", " ", "  ", "\n", "\t", " \n "]


class G:
    def __init__(self, rnd, dice=True, stmts=True, floats=False, max_depth=3, st=False):
        self.r = rnd
        self.dice = dice
        self.stmts = stmts
        self.floats = floats
        self.max_depth = max_depth

    def sp(self):
        return self.r.choice(["", "", " ", " ", "  "])

    def ident(self):
        return self.r.choice(IDENTS)

    def number(self):
        r = self.r
        k = r.randrange(10)
        if k < 6:
            return str(r.randrange(0, 12))
        if k < 8:
            return str(r.choice([0, 1, 2, 10, 100, 511, 512, 513, 1000, 65536]))
        if k == 8:
            return str(r.choice([2147483647, 9223372036854775807, 9223372036854775808, 99999999999999999999]))
        return str(r.randrange(0, 1000))

    def string(self):
        r = self.r
        d = r.choice(["'", '"'])
        s = r.choice(STRS).replace("\\", "\\\\").replace(d, "\\" + d)
        return d + s + d

    def template(self, depth):
        r = self.r
        d = r.choice(["`", "\x1e"])
        parts = []
        for _ in range(r.randrange(0, 4)):
            k = r.randrange(4)
            if k == 0:
                parts.append(r.choice(["ab", " ", "力", "x=", "\\n", "\\{", "1"]))
            elif k == 1:
                parts.append("{" + self.sp() + self.expr(depth - 1) + self.sp() + "}")
            elif k == 2:
                parts.append("{%" + self.sp() + self.stmt_list(depth - 1, 1 + r.randrange(2)) + self.sp() + "%}")
            else:
                parts.append("{" + self.ident() + "}")
        return d + "".join(parts) + d

    def dice_term(self):
        r = self.r
        k = r.randrange(12)
        n = lambda: str(r.choice([1, 2, 3, 4, 6, 10, 20, 100]))
        if k < 5:
            t = r.choice(["", "", n()]) + r.choice(["d", "D"]) + n()
            if r.random() < 0.4:
                t += r.choice(["k", "q", "kh", "kl", "dh", "dl"]) + r.choice(["", "1", "2", "3"])
            if r.random() < 0.2:
                t += r.choice(["min", "max"]) + n()
            return t
        if k == 5:
            return r.choice(["d", "2d", "d优势", "d劣势", "3d" + r.choice(["", "k2"])])
        if k == 6:
            return r.choice(["b", "p", "b2", "p3", "B1", "P"])
        if k == 7:
            return r.choice(["f", "F"])
        if k == 8:
            return n() + "a" + str(r.choice([8, 9, 10, 11])) + r.choice(["", "m10", "k8", "q3", "m6k5"])
        if k == 9:
            return n() + "c" + str(r.choice([8, 9, 10, 11])) + r.choice(["", "m10", "m20"])
        if k == 10:
            return "(" + n() + "d" + n() + ")d" + n()
        return n() + "d" + n() + "d" + n()

    def atom(self, depth):
        r = self.r
        k = r.randrange(22)
        if depth <= 0:
            k = r.randrange(8)
        if k < 3:
            return self.number()
        if k == 3:
            return self.string()
        if k < 6:
            return self.ident()
        if k == 6:
            return r.choice(["true", "false", "null"])
        if k == 7:
            return self.dice_term() if self.dice else self.number()
        if k == 8:
            return "(" + self.sp() + self.expr(depth - 1) + self.sp() + ")"
        if k == 9:
            n = r.randrange(0, 4)
            return "[" + ("," + self.sp()).join(self.expr(depth - 1) for _ in range(n)) + "]" + r.choice(["", "", ".len()", ".sum()", "kh", "kl2", "[0]", ".pop()"])
        if k == 10:
            n = r.randrange(0, 3)
            items = []
            for _ in range(n):
                key = r.choice(["'k'", "'j'", self.ident(), "1"])
                items.append(key + self.sp() + ":" + self.sp() + self.expr(depth - 1))
            return "{" + ("," + self.sp()).join(items) + "}" + r.choice(["", "", ".len()", ".keys()", "['k']", ".k"])
        if k == 11:
            return "[" + self.number() + ".." + self.number() + "]"
        if k == 12:
            return self.template(depth)
        if k == 13:
            return self.ident() + "[" + self.expr(depth - 1) + "]"
        if k == 14:
            return self.ident() + "[" + r.choice(["", self.number()]) + ":" + r.choice(["", self.number()]) + "]"
        if k == 15:
            return self.ident() + "." + r.choice(["len", "sum", "pop", "keys", "values", "items", "x", "push"]) + r.choice(["", "()", "(" + self.expr(depth - 1) + ")"])
        if k == 16:
            fn = r.choice(FUNCS + ["str", "int", "float", "abs", "ceil", "floor", "round", "bool", "repr", "typeId", "dir"])
            n = r.randrange(0, 3)
            return fn + "(" + ("," + self.sp()).join(self.expr(depth - 1) for _ in range(n)) + ")"
        if k == 17:
            return "&" + self.ident()
        if k == 18:
            return "this." + self.ident()
        if k == 19 and self.floats:
            return r.choice(["1.5", "0.25", ".5", "2.0", "10.75"])
        if k == 20:
            return self.dice_term() if self.dice else self.ident()
        return self.ident()

    BINOPS = ["+", "-", "*", "/", "%", "^", "**", "??", "<", "<=", "==", "!=", ">=", ">", "&&", "||", "&", "|", "＋", "－", "＊", "／"]

    def expr(self, depth):
        r = self.r
        if depth <= 0:
            return self.atom(0)
        k = r.randrange(12)
        if k < 4:
            return self.atom(depth)
        if k < 8:
            return self.expr(depth - 1) + self.sp() + r.choice(self.BINOPS) + self.sp() + self.expr(depth - 1)
        if k == 8:
            return r.choice(["-", "+"]) + self.atom(depth - 1)
        if k == 9:
            return self.expr(depth - 1) + self.sp() + "?" + self.sp() + self.expr(depth - 1) + self.sp() + ":" + self.sp() + self.expr(depth - 1)
        if k == 10:
            n = 1 + r.randrange(3)
            return ("," + self.sp()).join(self.expr(depth - 1) + self.sp() + "?" + self.sp() + self.expr(depth - 1) for _ in range(n))
        return self.ident() + self.sp() + "=" + self.sp() + self.expr(depth - 1)

    def block(self, depth, loop):
        return "{" + self.sp() + self.stmt_list(depth - 1, self.r.randrange(0, 3), loop) + self.sp() + "}"

    def stmt(self, depth, loop=False):
        r = self.r
        k = r.randrange(20)
        if not self.stmts or depth <= 0:
            k = r.randrange(8)
        if k < 4:
            return self.expr(depth)
        if k < 7:
            lhs = r.choice([self.ident(), self.ident(), "&" + self.ident(), "this." + self.ident(), self.ident() + "." + r.choice(["k", "x"]),
                            "&" + self.ident() + ".x", self.ident() + "[" + self.number() + "]", self.ident() + "[1:2]"])
            return lhs + self.sp() + "=" + self.sp() + self.expr(depth)
        if k == 7:
            return self.expr(depth)
        if k < 11:
            s = "if " + self.expr(depth - 1) + " " + self.block(depth, loop)
            for _ in range(r.randrange(0, 2)):
                s += " else if " + self.expr(depth - 1) + " " + self.block(depth, loop)
            if r.random() < 0.5:
                s += " else " + self.block(depth, loop)
            return s
        if k < 13:
            v = self.ident()
            body = self.stmt_list(depth - 1, r.randrange(0, 3), True)
            return v + " = 0; while " + v + " < " + str(r.randrange(1, 5)) + " { " + v + " = " + v + " + 1" + ("; " + body if body else "") + " }"
        if k == 13:
            return r.choice(["break", "continue"]) if loop else self.expr(depth)
        if k < 16:
            ps = r.sample(["u", "w", "k1", "q2"], r.randrange(0, 3))
            return "func " + r.choice(FUNCS) + "(" + ", ".join(ps) + ") { " + self.stmt_list(depth - 1, r.randrange(0, 3)) + " }"
        if k == 16:
            return "return " + self.expr(depth - 1)
        if k == 17:
            return "return"
        if k == 18:
            return "// #EnableDice " + r.choice(["wod", "coc", "fate", "doublecross", "xx"]) + " " + r.choice(["true", "false"]) + "\n" + self.expr(depth - 1)
        return "// " + r.choice(["note", "x=1", ""]) + "\n" + self.expr(depth - 1)

    def stmt_list(self, depth, n, loop=False):
        sep = self.r.choice(["; ", ";", " ;\n", "\n"])
        return sep.join(self.stmt(depth, loop) for _ in range(n))

    def program(self):
        return self.stmt_list(self.max_depth, 1 + self.r.randrange(4))


TAILS = ["(", "[", "{", "'", '"', "`", "\x1e", "{'a':1", "[x,2", "'abc", "`a{1}", "`a{", "x || [", " if", " while 1 {", "func g(", ")", "]", "}", " else",
         "?", "? 1", "? 1 :", "+", "+ (", "**", "&&", "||", " d", " 2d", " b", " 3a", " 2c", " f", "力量", "（", "＋1", " ", "　", "\v", "\f", ".", "..", ".x",
         "[1:", "[1:2", "=", "= 1", "==", " &", " &x", "&x =", " this.", "//c", "// #EnableDice coc true", "\n", "\n\n", ";", ";;", "\\", "\x00", "\xff", "\xe5\x8a"]

TOKENS = ["1", "2", "10", "x", "y", "d", "D", "a", "b", "c", "f", "p", "k", "q", "m", "+", "-", "*", "/", "(", ")", "[", "]", "{", "}", "'", '"', "`", ",", ":", ";",
          "=", "==", "<", ">", "?", ".", "..", "&", "&&", "|", "||", " ", "\n", "if", "else", "while", "func", "return", "break", "continue", "this", "null",
          "true", "^st", "力量", "3d6", "2d", "b2", "3a8", "2c8", "kh", "kl", "min", "max", "%}", "{%", "//", "#EnableDice", "coc", "wod", "1.5", "\\", "％"]


def token_soup(rnd, n=None):
    n = n or rnd.randrange(1, 9)
    return "".join(rnd.choice(TOKENS) + rnd.choice(["", "", " "]) for _ in range(n))


def mutate(rnd, s):
    """byte / token level mutation of a source string (returns bytes)"""
    b = bytearray(s.encode("utf-8", "surrogatepass") if isinstance(s, str) else s)
    k = rnd.randrange(6)
    if not b:
        return bytes(rnd.choice(TOKENS).encode())
    if k == 0:
        del b[rnd.randrange(len(b))]
    elif k == 1:
        b.insert(rnd.randrange(len(b) + 1), rnd.choice(b"()[]{}'\"`+-*/&|?:;,.=<>%^dDabcfpkq \n\\\x1e\x00\xff"))
    elif k == 2:
        b = b[:rnd.randrange(len(b) + 1)]
    elif k == 3:
        i = rnd.randrange(len(b) + 1)
        b[i:i] = rnd.choice(TOKENS).encode()
    elif k == 4:
        i = rnd.randrange(len(b))
        b[i] = rnd.randrange(256)
    else:
        b += tail_bytes(rnd.choice(TAILS)) if rnd.random() < 0.9 else bytes([rnd.randrange(256)])
    return bytes(b)


def st_input(rnd):
    """`^st` command lists (assignments or modifications)"""
    names = ["力量", "敏捷", "智力", "hp", "san", "射击:弓箭", "属性"]
    vals = lambda: rnd.choice(["60", "7", "1d1", "(1+2)", "2d1+1", "1.5", "10", "60", "7", "(`{% if 1 { 2 } %}`)", "(`{% x = 0; while x < 1 { x = x + 1 } %}`)",
                               "(2d)", "(1|2)", "(`{% func g() { 1 } %}`)", "`{1}`"])
    if rnd.random() < 0.5:
        items = []
        for _ in range(1 + rnd.randrange(4)):
            nm = rnd.choice(names)
            k = rnd.randrange(6)
            if k == 0:
                items.append(nm + vals())
            elif k == 1:
                items.append(nm + rnd.choice([":", "="]) + vals())
            elif k == 2:
                items.append("&" + nm + "=" + vals())
            elif k == 3:
                items.append("'" + nm + "2'" + rnd.choice([":", "="]) + vals())
            elif k == 4:
                items.append(nm + "*" + rnd.choice(["2", "1.5", ""]) + ":" + vals())
            else:
                items.append(nm + " " + vals())
        return "^st" + rnd.choice(["", " "]) + rnd.choice(["", " ", ","]).join(items)
    items = []
    for _ in range(1 + rnd.randrange(3)):
        items.append(rnd.choice(names) + rnd.choice(["+", "+=", "-", "-="]) + vals())
    return "^st" + rnd.choice(["", " "]) + rnd.choice([" ", ","]).join(items)


def tail_bytes(t):
    """TAILS entries written with \\xNN escapes below U+0100 denote raw bytes (invalid UTF-8 on purpose)"""
    if t in ("\xff", "\xe5\x8a"):
        return t.encode("latin-1")
    return t.encode("utf-8")


def random_input(rnd):
    """one input (bytes) from the mixed stream: programs, soups, st lists, mutations, program+tail"""
    g = G(rnd, max_depth=rnd.choice([1, 2, 3]))
    k = rnd.randrange(10)
    if k < 5:
        return g.program().encode()
    if k < 6:
        return token_soup(rnd).encode()
    if k < 7:
        return st_input(rnd).encode()
    if k < 9:
        return mutate(rnd, g.program())
    return g.program().encode() + tail_bytes(rnd.choice(TAILS))
