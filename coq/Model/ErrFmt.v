(* C19 — rendering of friendly syntax errors (parser_errors.go): getLineAtBytes with the 57/60
   byte cut, caret placement, header / position / message assembly of fmtErrText for the three
   language settings, the bilingual message table as explicit data, the message selection of
   formatFriendlyError, and the `line:col (offset): ` prefix added by the generated parser.
   Executable definitions only; lemmas are in Proofs/ErrFmtProofs.v. *)
From Coq Require Import NArith ZArith List Bool Arith Decimal.
From DS Require Import Model.Pos.
Import ListNotations.
Local Open Scope N_scope.

(* ---- small byte-string helpers ------------------------------------------------------------ *)
Fixpoint bytes_eqb (a b : bytes) : bool :=
  match a, b with
  | [], [] => true
  | x :: a', y :: b' => if x =? y then bytes_eqb a' b' else false
  | _, _ => false
  end.

Fixpoint prefixb (p l : bytes) : bool :=
  match p, l with
  | [], _ => true
  | x :: p', y :: l' => if x =? y then prefixb p' l' else false
  | _ :: _, [] => false
  end.

Fixpoint infixb (p l : bytes) : bool :=
  if prefixb p l then true else match l with [] => false | _ :: l' => infixb p l' end.

(* decimal rendering of a Go int >= 0 (%d) *)
Fixpoint uint_bytes (d : uint) : bytes :=
  match d with
  | Nil => []
  | D0 r => 48 :: uint_bytes r | D1 r => 49 :: uint_bytes r | D2 r => 50 :: uint_bytes r
  | D3 r => 51 :: uint_bytes r | D4 r => 52 :: uint_bytes r | D5 r => 53 :: uint_bytes r
  | D6 r => 54 :: uint_bytes r | D7 r => 55 :: uint_bytes r | D8 r => 56 :: uint_bytes r
  | D9 r => 57 :: uint_bytes r
  end.
Definition show_nat (n : nat) : bytes := uint_bytes (Nat.to_uint n).

(* utf8.AppendRune as used by fmt's %c: surrogates and values above MaxRune print U+FFFD *)
Definition encode_rune (r : N) : bytes :=
  if r <? 128 then [r]
  else if r <? 2048 then [192 + r / 64; 128 + r mod 64]
  else if ((55296 <=? r) && (r <=? 57343)) || (1114111 <? r) then [239; 191; 189]
  else if r <? 65536 then [224 + r / 4096; 128 + (r / 64) mod 64; 128 + r mod 64]
  else [240 + r / 262144; 128 + (r / 4096) mod 64; 128 + (r / 64) mod 64; 128 + r mod 64].

(* ---- getLineAtBytes --------------------------------------------------------------------------
   lines := strings.Split(string(input), "\n") *)
Fixpoint split_lines (inp : bytes) : list bytes :=
  match inp with
  | [] => [[]]
  | b :: t =>
    if b =? NL then [] :: split_lines t
    else match split_lines t with
         | l :: r => (b :: l) :: r
         | [] => [[b]]
         end
  end.

(* if len(result) > 60 { result = result[:57] + "..." } — a BYTE cut: it may split a rune *)
Definition trunc (l : bytes) : bytes :=
  if (60 <? length l)%nat then firstn 57 l ++ [46; 46; 46] else l.

Definition get_line (inp : bytes) (ln : nat) : bytes :=
  let lines := split_lines inp in
  if ((0 <? ln) && (ln <=? length lines))%nat then trunc (nth (ln - 1) lines [])
  else trunc inp.   (* fallback: the whole input (never taken for a parser position, see proofs) *)

(* ---- languages ---------------------------------------------------------------------------- *)
Inductive Lang := Bi | Cn | En.
(* switch lang { case ParseErrorLanguageChinese(1) ... case ParseErrorLanguageEnglish(2) ... default } *)
Definition lang_of_int (z : Z) : Lang :=
  if (z =? 1)%Z then Cn else if (z =? 2)%Z then En else Bi.

(* ---- the message table (errMsgs) as data: key, cn, en ---------------------------------------
   A copy of the table in parser_errors.go; every check run scrapes the CURRENT source and
   re-establishes `table_current` (Corr19) by vm_compute. *)
Definition table := list (bytes * bytes * bytes).

Definition msg_table : table := [
  (* empty: 输入为空 | Empty input *)
  ([101;109;112;116;121],
   [232;190;147;229;133;165;228;184;186;231;169;186],
   [69;109;112;116;121;32;105;110;112;117;116]);
  (* invalidStart: 表达式不能以 '%c' 开头 | Expression cannot start with '%c' *)
  ([105;110;118;97;108;105;100;83;116;97;114;116],
   [232;161;168;232;190;190;229;188;143;228;184;141;232;131;189;228;187;165;32;39;37;99;39;32;229;188;128;229;164;180],
   [69;120;112;114;101;115;115;105;111;110;32;99;97;110;110;111;116;32;115;116;97;114;116;32;119;105;116;104;32;39;37;99;39]);
  (* missingRParen: 缺少右括号 ')' | Missing closing parenthesis ')' *)
  ([109;105;115;115;105;110;103;82;80;97;114;101;110],
   [231;188;186;229;176;145;229;143;179;230;139;172;229;143;183;32;39;41;39],
   [77;105;115;115;105;110;103;32;99;108;111;115;105;110;103;32;112;97;114;101;110;116;104;101;115;105;115;32;39;41;39]);
  (* missingRBrace: 缺少右花括号 '}' | Missing closing brace '}' *)
  ([109;105;115;115;105;110;103;82;66;114;97;99;101],
   [231;188;186;229;176;145;229;143;179;232;138;177;230;139;172;229;143;183;32;39;125;39],
   [77;105;115;115;105;110;103;32;99;108;111;115;105;110;103;32;98;114;97;99;101;32;39;125;39]);
  (* missingRBracket: 缺少右方括号 ']' | Missing closing bracket ']' *)
  ([109;105;115;115;105;110;103;82;66;114;97;99;107;101;116],
   [231;188;186;229;176;145;229;143;179;230;150;185;230;139;172;229;143;183;32;39;93;39],
   [77;105;115;115;105;110;103;32;99;108;111;115;105;110;103;32;98;114;97;99;107;101;116;32;39;93;39]);
  (* unclosedString: 字符串未闭合 | Unclosed string literal *)
  ([117;110;99;108;111;115;101;100;83;116;114;105;110;103],
   [229;173;151;231;172;166;228;184;178;230;156;170;233;151;173;229;144;136],
   [85;110;99;108;111;115;101;100;32;115;116;114;105;110;103;32;108;105;116;101;114;97;108]);
  (* missingExpr: '%c' 后需要表达式 | Expression expected after '%c' *)
  ([109;105;115;115;105;110;103;69;120;112;114],
   [39;37;99;39;32;229;144;142;233;156;128;232;166;129;232;161;168;232;190;190;229;188;143],
   [69;120;112;114;101;115;115;105;111;110;32;101;120;112;101;99;116;101;100;32;97;102;116;101;114;32;39;37;99;39]);
  (* incomplete: 表达式不完整 | Incomplete expression *)
  ([105;110;99;111;109;112;108;101;116;101],
   [232;161;168;232;190;190;229;188;143;228;184;141;229;174;140;230;149;180],
   [73;110;99;111;109;112;108;101;116;101;32;101;120;112;114;101;115;115;105;111;110]);
  (* unexpectedChar: 无法识别的字符 '%c' | Unexpected character '%c' *)
  ([117;110;101;120;112;101;99;116;101;100;67;104;97;114],
   [230;151;160;230;179;149;232;175;134;229;136;171;231;154;132;229;173;151;231;172;166;32;39;37;99;39],
   [85;110;101;120;112;101;99;116;101;100;32;99;104;97;114;97;99;116;101;114;32;39;37;99;39]);
  (* syntax: 语法错误 | Syntax error *)
  ([115;121;110;116;97;120],
   [232;175;173;230;179;149;233;148;153;232;175;175],
   [83;121;110;116;97;120;32;101;114;114;111;114])
].
(* "语法错误 Syntax Error\n" *)
Definition h_bi : bytes := [232;175;173;230;179;149;233;148;153;232;175;175;32;83;121;110;116;97;120;32;69;114;114;111;114;10].
(* "语法错误\n" *)
Definition h_cn : bytes := [232;175;173;230;179;149;233;148;153;232;175;175;10].
(* "Syntax Error\n" *)
Definition h_en : bytes := [83;121;110;116;97;120;32;69;114;114;111;114;10].
(* "  位置 " *)
Definition w_cn : bytes := [32;32;228;189;141;231;189;174;32].
(* "  Pos " *)
Definition w_en : bytes := [32;32;80;111;115;32].

Definition lookup (t : table) (key : bytes) : bytes * bytes :=
  match find (fun row => bytes_eqb (fst (fst row)) key) t with
  | Some (_, cn, en) => (cn, en)
  | None => ([], [])            (* Go: zero bilingualMsg for a missing key *)
  end.

(* ---- fmt.Sprintf(msg, char) for the templates of the table ----------------------------------
   One %c verb at most (side condition `table_wf`).  A template without a verb but with an
   argument gets Go's "%!(EXTRA int32=N)" suffix (not reachable from formatFriendlyError). *)
Fixpoint subst_c (t enc : bytes) : bytes :=
  match t with
  | 37 :: 99 :: r => enc ++ r
  | b :: r => b :: subst_c r enc
  | [] => []
  end.
Fixpoint has_verb (t : bytes) : bool :=
  match t with
  | 37 :: ((99 :: _) as r) => true
  | _ :: r => has_verb r
  | [] => false
  end.
Definition extra_suffix (ch : N) : bytes :=
  [37;33;40;69;88;84;82;65;32;105;110;116;51;50;61] ++ show_nat (N.to_nat ch) ++ [41].
(* if char != 0 { cn = fmt.Sprintf(cn, char) } *)
Definition fmt_msg (t : bytes) (ch : N) : bytes :=
  if ch =? 0 then t
  else if has_verb t then subst_c t (encode_rune ch) else t ++ extra_suffix ch.

(* ---- fmtErrText ------------------------------------------------------------------------------ *)
Definition header (l : Lang) : bytes := match l with Bi => h_bi | Cn => h_cn | En => h_en end.

Definition bar : bytes := [32; 32; 124; 10].          (* "  |\n" *)
Definition gutter : bytes := [32; 32; 124; 32; 32].   (* "  |  " *)

(* pointerPos := pos.col - 1; if pointerPos < 0 { pointerPos = 0 } *)
Definition caret_spaces (cl : nat) : nat := Nat.pred cl.

Definition context (ln cl : nat) (inp : bytes) : bytes :=
  match inp with
  | [] => []                                   (* if len(input) > 0 { ... } *)
  | _ => bar ++ gutter ++ get_line inp ln ++ [NL]
         ++ gutter ++ repeat 32 (caret_spaces cl) ++ [94; NL] ++ bar
  end.

(* "%d:%d - %s" *)
Definition pos_msg (ln cl : nat) (m : bytes) : bytes :=
  show_nat ln ++ [58] ++ show_nat cl ++ [32; 45; 32] ++ m.

Definition tail (l : Lang) (ln cl : nat) (cn en : bytes) : bytes :=
  match l with
  | Cn => w_cn ++ pos_msg ln cl cn
  | En => w_en ++ pos_msg ln cl en
  | Bi => w_cn ++ pos_msg ln cl cn ++ [NL] ++ w_en ++ pos_msg ln cl en
  end.

Definition render (l : Lang) (ln cl : nat) (inp cn en : bytes) (ch : N) : bytes :=
  header l ++ context ln cl inp ++ tail l ln cl (fmt_msg cn ch) (fmt_msg en ch).

(* friendlyParseError.Error(): the language travels with the error value; only a negative value
   falls back to the package-level default (SetParseErrorLanguage).  Context.Parse always stores
   its own Config.ParseErrorLanguage (setParseErrorLanguageOf). *)
Definition error_text (err_lang pkg_default : Z) (ln cl : nat) (inp cn en : bytes) (ch : N) : bytes :=
  let lang := if (err_lang <? 0)%Z then pkg_default else err_lang in
  render (lang_of_int lang) ln cl inp cn en ch.

(* parser.addErrAt with an empty rule stack: fmt.Sprintf("%d:%d (%d)", ...) + ": " + inner *)
Definition prefix (ln cl o : nat) : bytes :=
  show_nat ln ++ [58] ++ show_nat cl ++ [32; 40] ++ show_nat o ++ [41; 58; 32].

(* ---- formatFriendlyError: which message ------------------------------------------------------- *)
Definition in_range (r lo hi : N) : bool := (lo <=? r) && (r <=? hi).
Definition memN (r : N) (l : list N) : bool := existsb (N.eqb r) l.

Definition is_valid_start (r : N) : bool :=
  if in_range r 48 57 then true            (* 0-9 *)
  else if in_range r 97 122 then true      (* a-z *)
  else if in_range r 65 90 then true       (* A-Z *)
  (* _ $ ( [ { dquote quote backquote 0x1e + - . &   优 劣 （ 【 *)
  else if memN r [95; 36; 40; 91; 123; 34; 39; 96; 30; 43; 45; 46; 38; 20248; 21155; 65288; 12304] then true
  else in_range r 19968 40959.             (* CJK 0x4E00..0x9FFF *)

Definition is_valid_ident (r : N) : bool :=
  if is_valid_start r then true else in_range r 48 57.

(* + - * / % ^ = < > ! & | ? : ,  ＋ － ＊ ／ *)
Definition is_operator (r : N) : bool :=
  memN r [43; 45; 42; 47; 37; 94; 61; 60; 62; 33; 38; 124; 63; 58; 44; 65291; 65293; 65290; 65295].

Definition is_quote (r : N) : bool := memN r [34; 39; 96; 30].
Definition is_space (r : N) : bool := memN r [32; 9; 10; 13].

(* getPrevNonSpaceChar: steps back BYTE by byte and decodes at each index (a continuation byte
   decodes to RuneError, which is not a space: multi-byte predecessors are seen as U+FFFD) *)
Fixpoint prev_nonspace (inp : bytes) (i : nat) : N :=
  match i with
  | O => 0
  | S j => let r := fst (decode (skipn j inp)) in
           if is_space r then prev_nonspace inp j else r
  end.

(* findUnclosedBracketBytes: `for _, r := range string(input)` decodes like DecodeRune *)
Fixpoint unclosed (fuel : nat) (p : bytes) (stack : list N) (instr : bool) (sc : N) : N :=
  match fuel with
  | O => hd 0 stack
  | S f =>
    match p with
    | [] => hd 0 stack
    | _ =>
      let '(r, n) := decode p in
      let rest := skipn n p in
      if instr then (if r =? sc then unclosed f rest stack false sc else unclosed f rest stack true sc)
      else if is_quote r then unclosed f rest stack true r
      else if memN r [40; 123; 91] then unclosed f rest (r :: stack) false sc
      else let closes (o : N) := match stack with t :: s' => if t =? o then s' else stack | [] => stack end in
           if r =? 41 then unclosed f rest (closes 40) false sc
           else if r =? 125 then unclosed f rest (closes 123) false sc
           else if r =? 93 then unclosed f rest (closes 91) false sc
           else unclosed f rest stack false sc
    end
  end.
Definition find_unclosed (p : bytes) : N := unclosed (length p) p [] false 0.

Definition key (s : list N) : bytes := s.
Definition k_empty := key [101;109;112;116;121].
Definition k_invalidStart := key [105;110;118;97;108;105;100;83;116;97;114;116].
Definition k_missingRParen := key [109;105;115;115;105;110;103;82;80;97;114;101;110].
Definition k_missingRBrace := key [109;105;115;115;105;110;103;82;66;114;97;99;101].
Definition k_missingRBracket := key [109;105;115;115;105;110;103;82;66;114;97;99;107;101;116].
Definition k_unclosedString := key [117;110;99;108;111;115;101;100;83;116;114;105;110;103].
Definition k_missingExpr := key [109;105;115;115;105;110;103;69;120;112;114].
Definition k_incomplete := key [105;110;99;111;109;112;108;101;116;101].
Definition k_unexpectedChar := key [117;110;101;120;112;101;99;116;101;100;67;104;97;114].
Definition k_syntax := key [115;121;110;116;97;120].

(* returns (table key, fmtChar) *)
Definition select (inp : bytes) (o : nat) : bytes * N :=
  match inp with
  | [] => (k_empty, 0)
  | _ =>
    let len := length inp in
    let ch := if (o <? len)%nat then fst (decode (skipn o inp)) else 0 in
    let chk := if (o <? len)%nat then firstn o inp else inp in
    if ((o =? 0)%nat && negb (is_valid_start ch)) then (k_invalidStart, ch)
    else let u := find_unclosed chk in
    if u =? 40 then (k_missingRParen, 0)
    else if u =? 123 then (k_missingRBrace, 0)
    else if u =? 91 then (k_missingRBracket, 0)
    else let pv := prev_nonspace inp o in
    if ((0 <? o)%nat && is_operator pv) then
      (if memN pv [41; 93; 125] then (k_syntax, 0) else (k_missingExpr, pv))
    else if (len <=? o)%nat then (k_incomplete, 0)
    else if is_quote ch then (k_unclosedString, 0)
    else if (negb (is_valid_start ch) && negb (is_valid_ident ch)) then (k_unexpectedChar, ch)
    else (k_syntax, 0)
  end.

(* The whole error text Context.Parse returns for a rejected input whose furthest failure is at
   byte `o` (no action / encoding error recorded). *)
Definition model_error (t : table) (l : Lang) (inp : bytes) (o : nat) : option bytes :=
  match fail_pos inp o with
  | None => None
  | Some (ln, cl) =>
    let '(k, ch) := select inp o in
    let '(cn, en) := lookup t k in
    Some (prefix ln cl o ++ render l ln cl inp cn en ch)
  end.

(* ---- reading a rendered text back -------------------------------------------------------------- *)
Fixpoint split_at_nl (l : bytes) : bytes * bytes :=
  match l with
  | [] => ([], [])
  | b :: r => if b =? NL then ([], r) else let '(a, c) := split_at_nl r in (b :: a, c)
  end.

Definition is_digit (b : N) : bool := (48 <=? b) && (b <=? 57).

Fixpoint span (p : N -> bool) (l : bytes) : bytes * bytes :=
  match l with
  | [] => ([], [])
  | b :: r => if p b then let '(a, c) := span p r in (b :: a, c) else ([], l)
  end.

Fixpoint strip (p l : bytes) : option bytes :=
  match p, l with
  | [], _ => Some l
  | x :: p', y :: l' => if x =? y then strip p' l' else None
  | _ :: _, [] => None
  end.

Fixpoint digits_uint (l : bytes) : uint :=
  match l with
  | [] => Nil
  | b :: r =>
    let d := digits_uint r in
    if b =? 48 then D0 d else if b =? 49 then D1 d else if b =? 50 then D2 d
    else if b =? 51 then D3 d else if b =? 52 then D4 d else if b =? 53 then D5 d
    else if b =? 54 then D6 d else if b =? 55 then D7 d else if b =? 56 then D8 d else D9 d
  end.
Definition read_nat (l : bytes) : nat := Nat.of_uint (digits_uint l).

(* position line: skip the position word (no digits), read `line:col` *)
Definition parse_pos (l : bytes) : option (nat * nat) :=
  let '(_, r) := span (fun b => negb (is_digit b)) l in
  let '(d1, r1) := span is_digit r in
  match d1, r1 with
  | _ :: _, 58 :: r2 =>
    let '(d2, _) := span is_digit r2 in
    match d2 with _ :: _ => Some (read_nat d1, read_nat d2) | [] => None end
  | _, _ => None
  end.

(* -> (line, col, Some (quoted line, number of blanks before the caret)) *)
Definition parse_back (text : bytes) : option (nat * nat * option (bytes * nat)) :=
  let '(_, r1) := split_at_nl text in
  match strip (bar ++ gutter) r1 with
  | Some r2 =>
    let '(q, r3) := split_at_nl r2 in
    match strip gutter r3 with
    | Some r4 =>
      let '(sp, r5) := span (N.eqb 32) r4 in
      match strip ([94; NL] ++ bar) r5 with
      | Some r6 => match parse_pos r6 with
                   | Some (ln, cl) => Some (ln, cl, Some (q, length sp))
                   | None => None
                   end
      | None => None
      end
    | None => None
    end
  | None => match parse_pos r1 with
            | Some (ln, cl) => Some (ln, cl, None)
            | None => None
            end
  end.

(* ---- side conditions on a table (decided by vm_compute on the actual table) ----------------- *)
Fixpoint count_pct (t : bytes) : nat :=
  match t with [] => 0%nat | b :: r => ((if (b =? 37)%N then 1 else 0) + count_pct r)%nat end.
(* a template has no '%' at all, or exactly one and it is the verb %c *)
Definition tmpl_wf (t : bytes) : bool :=
  match count_pct t with
  | O => true
  | S O => has_verb t
  | _ => false
  end.

(* fixed pieces of a template: the text around the verb *)
Fixpoint pieces_aux (cur : bytes) (t : bytes) : list bytes :=
  match t with
  | 37 :: 99 :: r => List.rev cur :: pieces_aux [] r
  | b :: r => pieces_aux (b :: cur) r
  | [] => [List.rev cur]
  end.
Definition pieces (t : bytes) : list bytes :=
  filter (fun p => (4 <=? length p)%nat) (pieces_aux [] t).

Definition none_infix (needles hay : list bytes) : bool :=
  forallb (fun n => forallb (fun h => negb (infixb n h)) hay) needles.

Definition drop_nl (h : bytes) : bytes := fst (split_at_nl h).

(* no fixed English text occurs inside any Chinese fixed text (header, position word, templates)
   and vice versa; every template is well-formed *)
Definition table_ok (t : table) : bool :=
  let cns := map (fun row => snd (fst row)) t in
  let ens := map (fun row => snd row) t in
  let cn_fixed := drop_nl h_cn :: w_cn :: cns in
  let en_fixed := drop_nl h_en :: w_en :: ens in
  let cn_needles := drop_nl h_cn :: [228;189;141;231;189;174] :: flat_map pieces cns in
  let en_needles := drop_nl h_en :: [80;111;115;32] :: flat_map pieces ens in
  forallb tmpl_wf cns && forallb tmpl_wf ens &&
  none_infix en_needles cn_fixed && none_infix cn_needles en_fixed.
