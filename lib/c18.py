"""C18 — the st command reports every attribute edit once, in order, verbatim.

For any list of attribute assignments (plain, `*k`, `*`, computed) or any list of modifications
(`+ += - -=`) written in any accepted spelling and separator, CallbackSt fires exactly once per edit, in
source order, with exactly the written name, the evaluated value (sign-normalised for `-`), the operator,
and nothing else in the input is reinterpreted as an edit.

Structure: (1) harness `c18` generates edit lists, prints them (`print_st`), runs `^st…` with a recording
CallbackSt and evaluates every value text ALONE on a fresh VM; (2) Properties/C18.v is compiled (VM half:
proof for all lists); (3) correspondence inside Coq: `st_run (compile_st edits)` with the values Go computed
for each value text alone must equal Go's callback log exactly (type, name, value, extra, op, detail text),
and `compile_st edits` projected on push.str / push.computed / st.* must equal the projection of Go's
compiled code; arbitrary (also malformed) sources: `st_exec` on Go's own projected code must reproduce Go's
callback log; (4) K1: Go Parse vs the Coq PEG interpreter on the same st inputs; (5) property-level search in
Python on Go's own callback logs, independent of the Coq model.
"""
import json
import os
import re

import common
import pegcases
from common import Broken

LEVEL = "proof"

KEY_PAREN = "st-paren-value-absorbs-next-computed-edit"
KEY_DIGITS = "st-name-ending-in-digits-resplit"
KEY_COLON = "st-colon-value-starting-with-letter-read-as-namespace"
KEY_CSPACE = "st-computed-space-after-delimiter-rejected"
HAZARD_KEY = {"digits": KEY_DIGITS, "abut": KEY_DIGITS, "paren-amp": KEY_PAREN, "colon-letter": KEY_COLON}

MY_COQ_FILES = ["Model/St.v", "Proofs/StProofs.v", "Corr/Corr18.v"]

T_INT, T_FLOAT, T_STR, T_NULL, T_COMPUTED = 0, 1, 2, 3, 5   # VMValue.TypeId as dumped by the harness
REPORTED_OP = {"+": "+", "+=": "+", "-": "-", "-=": "-="}


# ----------------------------------------------------------------------------- the property predicate
def neg_dump(v):
    """sign-normalisation of the VM (OpNegation): ints (wrapping) and floats only; None = undefined."""
    if v is None:
        return None
    if v["t"] == T_INT and v.get("i") is not None:
        z = -int(v["i"])
        z = (z + 2 ** 63) % 2 ** 64 - 2 ** 63
        return {"t": T_INT, "i": str(z)}
    if v["t"] == T_FLOAT and v.get("f") is not None:
        return {"t": T_FLOAT, "f": str(int(v["f"]) ^ (1 << 63))}
    return None


def expected_log(case):
    """(list of expected callbacks, index of the edit at which an error is expected or None, problem or None).
    A callback is (type, name, value dump, extra dump or None, op, text)."""
    out = []
    for k, e in enumerate(case["edits"]):
        if e["kind"] == "computed":
            out.append(("set", e["name"], {"t": T_COMPUTED, "s": e["ctext"]}, None, "", ""))
            continue
        a = e["alone"]
        if not a["ok"] or a.get("rest"):
            return out, None, f"generator: value text {e['eval']!r} does not evaluate alone: {a}"
        v = a["val"]
        if e["kind"] == "set":
            out.append(("set", e["name"], v, None, "", ""))
        elif e["kind"] == "x0":
            out.append(("set.x0", e["name"], v, None, "", ""))
        elif e["kind"] == "x1":
            ka = e["kalone"]
            if not ka["ok"] or ka.get("rest"):
                return out, None, f"generator: factor text {e['ktext']!r} does not evaluate alone: {ka}"
            out.append(("set.x1", e["name"], v, ka["val"], "", ""))
        elif e["kind"] == "mod":
            if e["op"] == "-":
                v = neg_dump(v)
                if v is None:
                    return out, k, None
            out.append(("mod", e["name"], v, None, REPORTED_OP[e["op"]], e["ctext"]))
        else:
            return out, None, "generator: unknown edit kind " + e["kind"]
    return out, None, None


def call_tuple(c):
    return (c["type"], c["name"], c["val"], c["extra"], c["op"], c["detail"])


def same_call(got, want):
    """property-level comparison: type, name verbatim, value, extra, op; the captured text / computed source
    modulo trailing blanks (`)` is followed by optional blanks inside the expression grammar)."""
    if got[:2] != want[:2] or got[4] != want[4]:
        return False
    gv, wv = got[2], want[2]
    if wv.get("t") == T_COMPUTED:
        if gv.get("t") != T_COMPUTED or (gv.get("s") or "").rstrip(" ") != wv["s"].rstrip(" "):
            return False
    elif gv != wv:
        return False
    if got[3] != want[3]:
        return False
    return got[5].rstrip(" ") == want[5].rstrip(" ")


def judge(case):
    """-> (verdict, detail); verdict: 'ok' | 'mismatch' | 'generator'.  The property on one generated case."""
    run = case["run"]
    want, err_at, problem = expected_log(case)
    if problem:
        return "generator", problem
    got = [call_tuple(c) for c in run["calls"]]
    if run.get("panic"):
        return "mismatch", "Go panic: " + run["panic"]
    if len(got) != len(want):
        return "mismatch", f"{len(got)} callbacks for {len(case['edits'])} edits (expected {len(want)})"
    for k, (g, w) in enumerate(zip(got, want)):
        if not same_call(g, w):
            return "mismatch", f"callback {k}: got {show_call(g)} expected {show_call(w)}"
    if err_at is not None:
        if run["ok"]:
            return "mismatch", f"edit {err_at} has a value whose negation is undefined, but the run succeeded"
        return "ok", ""
    if not run["ok"]:
        return "mismatch", "run failed: " + run.get("err", "")[:200]
    if run["rest"].strip(" ") != case["tail"].strip(" "):
        return "mismatch", f"unconsumed input {run['rest']!r}, expected {case['tail']!r}"
    return "ok", ""


def prefix_ok(case, upto):
    """callbacks of the edits before index `upto` are as expected (used to bound what a recorded defect may excuse)"""
    want, err_at, problem = expected_log(case)
    if problem:
        return False
    got = [call_tuple(c) for c in case["run"]["calls"]]
    n = min(upto, len(want))
    if len(got) < n:
        return False
    return all(same_call(g, w) for g, w in zip(got[:n], want[:n]))


def show_val(v):
    if v is None:
        return "nil"
    if v.get("i") is not None:
        return v["i"]
    if v.get("f") is not None:
        import struct
        return repr(struct.unpack("<d", struct.pack("<Q", int(v["f"])))[0])
    if v.get("t") == T_COMPUTED:
        return "computed(%r)" % v.get("s")
    if v.get("s") is not None:
        return "%r" % v["s"]
    return "type%d" % v["t"]


def show_call(c):
    return f"({c[0]}, {c[1]!r}, {show_val(c[2])}, {show_val(c[3]) if c[3] else '-'}, {c[4]!r}, {c[5]!r})"


def structural(run):
    """st_nothing_else on the real code of ANY source (also malformed): every callback has its own st.*
    instruction in the compiled code (count, order, kind), its name is the string pushed before it."""
    if run.get("panic"):
        return "Go panic: " + run["panic"]
    calls = run["calls"]
    stops = [c for c in run["code"] if c["op"].startswith("st.")]
    if run["nst"] != len(stops):
        return f"st.* instruction inside a nested body ({run['nst']} in total, {len(stops)} at top level)"
    if len(calls) > len(stops) or (run["ok"] and len(calls) != len(stops)):
        return f"{len(calls)} callbacks, {len(stops)} st.* instructions, ok={run['ok']}"
    kind = {"st.set": "set", "st.mod": "mod", "st.x0": "set.x0", "st.x1": "set.x1"}
    for c, s in zip(calls, stops):
        if kind[s["op"]] != c["type"]:
            return f"callback type {c['type']} from instruction {s['op']}"
        if s["op"] == "st.mod" and (c["op"], c["detail"]) != (s["o"], s["s"]):
            return f"st.mod callback op/text {(c['op'], c['detail'])} differs from the instruction's {(s['o'], s['s'])}"
        if s["op"] != "st.mod" and (c["op"], c["detail"]) != ("", ""):
            return f"{s['op']} callback carries op/text {(c['op'], c['detail'])}"
        if (c["extra"] is not None) != (s["op"] == "st.x1"):
            return f"extra argument {'present' if c['extra'] is not None else 'absent'} for {s['op']}"
    return None


# ----------------------------------------------------------------------------- Coq side
def cb(s):
    return "[" + ";".join(str(x) for x in s.encode("utf-8", "surrogatepass")) + "]"


def sval_term(v):
    if v is None:
        return "SNull"
    t = v["t"]
    if t == T_INT and v.get("i") is not None:
        return f"(SInt {common.Z(v['i'])})"
    if t == T_FLOAT and v.get("f") is not None:
        return f"(SFloatBits {int(v['f'])})"
    if t == T_STR and v.get("s") is not None:
        return f"(SStr {cb(v['s'])})"
    if t == T_NULL:
        return "SNull"
    if t == T_COMPUTED:
        return f"(SComputed {cb(v.get('s') or '')})"
    return f"(SOther {max(t, 0)})"


def edit_term(e):
    if e["kind"] == "computed":
        return f"(EComputed {cb(e['name'])} {cb(e['ctext'])})"
    v = sval_term(e["alone"]["val"])
    if e["kind"] == "set":
        return f"(ESet {cb(e['name'])} {v})"
    if e["kind"] == "x0":
        return f"(ESetX0 {cb(e['name'])} {v})"
    if e["kind"] == "x1":
        return f"(ESetX1 {cb(e['name'])} {sval_term(e['kalone']['val'])} {v})"
    op = {"+": "OpAdd", "+=": "OpAddEq", "-": "OpSub", "-=": "OpSubEq"}[e["op"]]
    return f"(EMod {op} {cb(e['name'])} {v} {cb(e['ctext'])})"


def call_term(c):
    ex = "None" if c["extra"] is None else f"(Some {sval_term(c['extra'])})"
    return f"(mkCb {cb(c['type'])} {cb(c['name'])} {sval_term(c['val'])} {ex} {cb(c['op'])} {cb(c['detail'])})"


def pop_term(p):
    if p["op"] == "push.str":
        return f"(PName {cb(p.get('s', ''))})"
    if p["op"] == "push.computed":
        return f"(PComputed {cb(p.get('s', ''))})"
    if p["op"] == "st.mod":
        return f"(PMod {cb(p.get('o', ''))} {cb(p.get('s', ''))})"
    return {"st.set": "PSet", "st.x0": "PX0", "st.x1": "PX1"}[p["op"]]


def lst(items):
    return "[" + "; ".join(items) + "]"


HEAD = ("From Coq Require Import NArith ZArith List.\nFrom DS Require Import Model.St Corr.Corr18.\n"
        "Import ListNotations.\nOpen Scope N_scope.\nSet Printing Width 1000000. Set Printing Depth 10000000.\n")


def cases_v(cases):
    """edit-list cases: (edits, Go ran ok, Go's callback log, Go's projected code)"""
    items = []
    for c in cases:
        r = c["run"]
        items.append(f"({lst(edit_term(e) for e in c['edits'])}, {'true' if r['ok'] else 'false'}, "
                     f"{lst(call_term(x) for x in r['calls'])}, {lst(pop_term(p) for p in r['code'])})")
    return (HEAD + "Definition cases : list c18_case := [\n " + ";\n ".join(items) + "].\n"
            "Definition bad := Eval vm_compute in bad_indices c18_ok 0%N cases.\nPrint bad.\n")


def replay_v(rows):
    """any source: Go's projected code replayed by the model's stack machine with Go's own values"""
    items = []
    for r in rows:
        items.append(f"({lst(pop_term(p) for p in r['code'])}, {'true' if r['ok'] else 'false'}, "
                     f"{lst(call_term(x) for x in r['calls'])})")
    return (HEAD + "Definition cases : list c18_replay := [\n " + ";\n ".join(items) + "].\n"
            "Definition bad := Eval vm_compute in bad_indices c18_replay_ok 0%N cases.\nPrint bad.\n")


def ensure_coq_built():
    """My .v files are compiled here when _CoqProject does not list them yet (coq_make covers them once it does)."""
    proj = open(os.path.join(common.COQ, "_CoqProject")).read()
    if all(f in proj for f in MY_COQ_FILES):
        return
    with common.Lock("coqmake"):
        for f in MY_COQ_FILES:
            src = os.path.join(common.COQ, f)
            vo = src + "o"
            deps = [os.path.join(common.COQ, g) for g in MY_COQ_FILES[:MY_COQ_FILES.index(f) + 1]]
            if os.path.exists(vo) and all(os.path.getmtime(vo) >= os.path.getmtime(d) for d in deps):
                continue
            r = common.sh(["timeout", "900", "coqc", "-q", "-Q", ".", "DS", f], cwd=common.COQ)
            common.log(f"[coq] coqc {f} rc={r.returncode}")
            if r.returncode != 0:
                m = re.search(r"line (\d+)", r.stdout)
                raise Broken(f"coq-build {f}" + (f":{m.group(1)}" if m else ""), r.stdout[-4000:])


def clean_code(code):
    """Corr18.clean: every st.* instruction directly preceded by push.str [push.computed]"""
    k, n = 0, len(code)
    while k < n:
        if code[k]["op"] != "push.str":
            return False
        k += 1
        if k < n and code[k]["op"] == "push.computed":
            if k + 1 < n and code[k + 1]["op"] == "st.set":
                k += 2
                continue
            return False
        if k < n and code[k]["op"].startswith("st."):
            k += 1
            continue
        return False
    return True


def bad_of(outs, ks):
    bad = []
    for k, out in zip(ks, outs):
        bad += [k + int(x.replace("%N", "")) for x in common.parse_coq_list(out, "bad")]
    return bad


# ----------------------------------------------------------------------------- driver
def replay_of(case):
    return {"input": case["run"]["src"], "mode": case["run"]["mode"],
            "how": "vm := NewVM(); vm.Config.DiceMinMode/DiceMaxMode per mode (-1/0/1); vm.Config.CallbackSt = recorder; "
                   "vm.Run(input)   |   echo '{\"src\": <input>, \"mode\": <mode>}' | harness c18-probe"}


def run(res, tier, seed):
    common.build_harness()
    known_keys = {f.get("key") for f in common.known_for("C18")}
    n = 2400 if tier == "quick" else 30000
    rows, _ = common.run_harness(["c18", "-seed", seed, "-n", n], timeout=1800)
    cases = [r for r in rows if r.get("family") != "malformed"]
    malformed = [r for r in rows if r.get("family") == "malformed"]
    if not cases:
        raise Broken("harness-output", "c18 produced no cases")

    # ---- (5) property-level search on Go's own callback logs
    found = 0
    dist = {"family": {}, "edit_kinds": {}, "name_kinds": {}, "value_kinds": {}, "mod_ops": {}, "separators": {}, "list_len": {},
            "mode": {}, "with_tail": 0, "hazard_shapes": {}, "hazard_cases_that_behave": 0, "well_behaved_cases": 0,
            "set_forms": {}, "malformed_sources": len(malformed), "malformed_with_callbacks": 0, "not_negatable_cases": 0}

    def bump(d, k):
        d[k] = d.get(k, 0) + 1
    known_hits = {}
    good = []          # cases on which the property holds: correspondence compares them exactly
    for c in cases:
        bump(dist["family"], c["family"])
        bump(dist["list_len"], str(len(c["edits"])))
        bump(dist["mode"], str(c["run"]["mode"]))
        for e in c["edits"]:
            bump(dist["edit_kinds"], e["kind"])
            bump(dist["name_kinds"], e["namek"])
            bump(dist["value_kinds"], e["vkind"])
            if e["kind"] == "mod":
                bump(dist["mod_ops"], e["op"])
            if e["kind"] == "set":
                bump(dist["set_forms"], e["form"] + (e["delim"] if e["form"] == "delim" else ""))
        for s in c["seps"][:-1]:
            bump(dist["separators"], repr(s))
        if c["tail"]:
            dist["with_tail"] += 1
        for h in c["hazards"]:
            bump(dist["hazard_shapes"], h["h"])
        if c["family"] == "notneg":
            dist["not_negatable_cases"] += 1
        res.count(c["run"]["src"] + "|" + str(c["run"]["mode"]), nontrivial=len(c["edits"]) >= 2 or c["edits"][0]["kind"] != "set")
        verdict, detail = judge(c)
        sbad = structural(c["run"])
        if verdict == "generator":
            raise Broken("generator c18: " + detail, c["run"]["src"])
        if verdict == "ok" and not sbad:
            good.append(c)
            if c["hazards"]:
                dist["hazard_cases_that_behave"] += 1
            else:
                dist["well_behaved_cases"] += 1
            continue
        hz = c["hazards"]
        excused = False
        if verdict == "mismatch" and not sbad and hz and not c["run"].get("panic"):
            keys = {HAZARD_KEY[h["h"]] for h in hz}
            first = min(h["at"] for h in hz)
            if keys <= known_keys and prefix_ok(c, first):
                excused = True
                for h in hz:
                    known_hits.setdefault((HAZARD_KEY[h["h"]], h["h"]), []).append((c, detail))
        if excused:
            continue
        found += 1
        if found <= 5:
            res.violation(dict(replay_of(c), what=sbad or detail,
                               edits=[{k: e[k] for k in ("kind", "name", "op", "vtext", "ktext", "src") if e.get(k)} for e in c["edits"]],
                               separators=c["seps"], tail=c["tail"],
                               recorded_defect_shapes=[h["h"] for h in hz],
                               expected=[show_call(x) for x in expected_log(c)[0]],
                               got=[show_call(call_tuple(x)) for x in c["run"]["calls"]],
                               error=c["run"].get("err"), rest=c["run"]["rest"]))
    for r in malformed:
        res.count(r["run"]["src"], nontrivial=bool(r["run"]["calls"]))
        if r["run"]["calls"]:
            dist["malformed_with_callbacks"] += 1
        sbad = structural(r["run"])
        if sbad:
            found += 1
            if found <= 5:
                res.violation(dict(replay_of(r), what="callback without its own st.* instruction: " + sbad,
                                   got=[show_call(call_tuple(x)) for x in r["run"]["calls"]], code=r["run"]["code"]))

    for (key, h), hits in sorted(known_hits.items()):
        c, detail = min(hits, key=lambda x: len(x[0]["run"]["src"]))
        res.known(f"key={key} shape={h} input={json.dumps(c['run']['src'], ensure_ascii=False)} mode={c['run']['mode']}: {detail} "
                  f"({len(hits)} cases in this run)")

    res.cov["rule"] = ("edit lists of 1..6 edits: assignment lists (plain `name[:=]value` / `namevalue`, `name*k[:=]value`, `name*[:=]value`, "
                       "computed `&name[:=]expr`) and modification lists (`+ += - -=`); names CJK / other scripts / ASCII / mixed, quoted "
                       "(with digits, blanks, ':'), namespaced `a:b`, a few unquoted names ending in digits; values ints, floats, dice (d1 in "
                       "random mode, any dice under min/max mode), binary expressions, parenthesised expressions, a few `dY`, negative and "
                       "non-negatable values; separators '', ' ', ',', ' ,', ', ', '  ', ' , ' (uniform or mixed), optional trailing "
                       "separator and trailing non-edit text; plus a malformed stream (1–2 rune mutations of valid sources); "
                       "distinct = distinct (source, mode); non-trivial = at least two edits or a non-plain edit / malformed source that "
                       "still fires a callback")
    res.cov["input_distribution"] = dist
    for c in cases[:3] + cases[len(cases) // 2: len(cases) // 2 + 2]:
        res.sample({"input": c["run"]["src"], "mode": c["run"]["mode"], "callbacks": [show_call(call_tuple(x)) for x in c["run"]["calls"]]})
    res.cov["trusted_base"] += [
        "Model/St.v is a hand-written model of the four st.* cases of rollvm.go (pop order, negation, error outcomes) and of the "
        "instruction order the st_* grammar actions emit; tied by exact callback-log and projected-code correspondence",
        "the splitting of the source text into names and values is the grammar's business: validated (not proved) by the "
        "printer -> parser+VM search and by the K1 correspondence of the PEG model on the same inputs",
        "expected values are Go's own evaluation of each value text ALONE on a fresh VM (flags as `est` sets them); the "
        "expression evaluator itself is the subject of other properties",
        "Config.CallbackSt is set (with a nil callback the four instructions only pop)",
    ]
    res.assumptions += ["a list is either all assignments or all modifications (the grammar's two alternatives)",
                        "with the empty separator the next name is quoted or starts with a non-ASCII letter; unquoted names do not end "
                        "in digits; a value after an unspaced ':' does not start with a letter; no blank after the delimiter of a computed "
                        "edit (each of these shapes is generated at a low rate and replayed as a recorded defect)",
                        "the captured expression text is compared modulo trailing blanks in the property-level search (exactly in the "
                        "correspondence)"]

    # ---- (2)-(4) proof file, correspondences
    broken = None
    try:
        ensure_coq_built()
        info = common.check_property_file("C18")
        res.proof(info, "cd coq && make && coqc -Q . DS Properties/C18.v  (Print Assumptions parsed)")
        limit = 2400 if tier == "quick" else 12000
        # (a case that stops at a non-negatable value AND contains a recorded-defect shape further on is only replayed)
        sel = [c for c in good if c["run"]["ok"] or not c["hazards"]][:limit]
        shard = 400
        ks = list(range(0, len(sel), shard))
        outs = common.coq_eval_many([(f"c18_{k}", cases_v(sel[k:k + shard])) for k in ks], workers=12)
        bad = bad_of(outs, ks)
        # replay of Go's own code for everything else (recorded-defect shapes, malformed sources)
        good_ids = {id(c) for c in sel}
        others = [c["run"] for c in cases if id(c) not in good_ids]
        others += [r["run"] for r in malformed]
        others = [r for r in others if not r.get("panic")][:limit]
        ks2 = list(range(0, len(others), shard))
        outs2 = common.coq_eval_many([(f"c18r_{k}", replay_v(others[k:k + shard])) for k in ks2], workers=12)
        bad2 = bad_of(outs2, ks2)
        res.cov["correspondence"] = {"edit_list_cases": len(sel), "edit_list_disagreements": len(bad),
                                     "each": "st_run (compile_st edits) = Go's callback log (type, name, value, extra, op, text) with the "
                                             "values Go computed for each value text alone; proj (compile_st edits) = projection of "
                                             "Go's compiled code on push.str / push.computed / st.*",
                                     "code_replay_cases": len(others), "code_replay_disagreements": len(bad2),
                                     "code_replay_cases_with_strings_inside_values_skipped": sum(1 for r in others if not clean_code(r["code"]))}
        if bad:
            broken = Broken("correspondence Corr18.c18_ok (Model/St.v st_run/compile_st vs parser+VM)",
                            {"first": [dict(replay_of(sel[i]), got=[show_call(call_tuple(x)) for x in sel[i]["run"]["calls"]],
                                            code=sel[i]["run"]["code"]) for i in bad[:3]]})
        elif bad2:
            broken = Broken("correspondence Corr18.c18_replay_ok (Model/St.v st_exec on Go's projected code vs Go's callback log)",
                            {"first": [dict(input=others[i]["src"], mode=others[i]["mode"], code=others[i]["code"],
                                            got=[show_call(call_tuple(x)) for x in others[i]["calls"]]) for i in bad2[:3]]})
        # K1 on the st inputs
        if not broken:
            k1n = 420 if tier == "quick" else 4000
            res.cov["translator"] = pegcases.regenerate_grammar()   # the PEG model follows /repo's current grammar
            common.coq_make()
            srcs = [c["run"]["src"] for c in cases[:k1n * 3 // 4]] + [r["run"]["src"] for r in malformed[:k1n // 4]]
            srcs = list(dict.fromkeys(srcs))
            inputs = [(s.encode("utf-8", "surrogatepass"), pegcases.ALL_ON) for s in srcs]
            prow = pegcases.go_parse(inputs)
            badk = pegcases.correspond(inputs, prow, "c18k1")
            res.cov["correspondence"]["k1_st_inputs"] = len(inputs)
            res.cov["correspondence"]["k1_disagreements"] = len(badk)
            res.cov["correspondence"]["k1_accepted"] = sum(1 for r in prow if r["ok"])
            if badk:
                broken = Broken("correspondence CorrK1 (Model/Peg.v + Gen/Grammar.v vs Go Parse) on st inputs",
                                {"first": [{"input": srcs[i], "go": prow[i]} for i in badk[:4]]})
    except Broken as b:
        broken = b
    if broken and not found:
        res.violation({"broken": broken.what, "detail": broken.detail}, no_input=True)


def replay(path):
    p = json.load(open(path))
    print(json.dumps(p, indent=1, ensure_ascii=False))
    if p.get("input") is not None:
        common.build_harness()
        rows, _ = common.run_harness(["c18-probe"], stdin=json.dumps({"src": p["input"], "mode": p.get("mode", 0)}) + "\n")
        for r in rows:
            print("now:", "ok" if r["ok"] else "error: " + r.get("err", r.get("panic", "")), "rest=%r" % r["rest"])
            for c in r["calls"]:
                print("   ", show_call(call_tuple(c)))
    return 0
