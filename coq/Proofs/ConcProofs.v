From Coq Require Import NArith List Bool String Arith Lia.
From DS Require Import Model.Conc.
Import ListNotations.

Section Sched.
  Variable G : Type.
  Variable S : Type.
  Variable step : nat -> G -> S -> S.

  (* whatever the interleaving, VM i ends where it ends when its own steps run alone *)
  Theorem schedule_independent (g : G) (sched : list nat) : forall (st : nat -> S) (i : nat),
    run_sched G S step g sched st i = iter S (count i sched) (step i g) (st i).
  Proof.
    induction sched as [|j r IH]; intros st i; [reflexivity|].
    cbn [run_sched]. rewrite IH. unfold upd, count. cbn [List.filter].
    destruct (Nat.eqb_spec i j) as [->|Hne].
    - reflexivity.
    - reflexivity.
  Qed.

  (* two schedules with the same number of steps of VM i give VM i the same final state *)
  Corollary same_count_same_result (g : G) (s1 s2 : list nat) (st : nat -> S) (i : nat) :
    count i s1 = count i s2 -> run_sched G S step g s1 st i = run_sched G S step g s2 st i.
  Proof. intros H. rewrite !schedule_independent, H. reflexivity. Qed.
End Sched.
