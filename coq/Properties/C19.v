(* C19 — syntax errors point at the right place in the chosen language.
   Only statements + `exact lemma` + Print Assumptions live here.

   Model/Pos.v: bytes, utf8.DecodeRune, the generated parser's read() on (line, col, offset, w, rn),
   the plain position of a rune boundary (plain_lc), `consistent`.
   Model/ErrFmt.v: getLineAtBytes, the 57/60 cut, caret, fmtErrText for the three languages, the
   message table as data, formatFriendlyError's message selection, the `l:c (o): ` prefix. *)
From Coq Require Import NArith ZArith List Arith.
From DS Require Import Model.Pos Model.ErrFmt Proofs.ErrFmtProofs.
Import ListNotations.

(* ---- position ---------------------------------------------------------------------------- *)

(* one read() from a consistent point that is not at the end of input gives a consistent point,
   and the slice p.data[offset:] it takes is in range (no panic) *)
Theorem C19_read_preserves_consistent :
  forall inp s, consistent inp s -> w s > 0 ->
    exists s', read inp s = Some s' /\ consistent inp s'.
Proof. exact read_preserves_consistent. Qed.
Print Assumptions C19_read_preserves_consistent.

(* every point the parser can hold (first read, then reads at non-EOF points; restore and memo
   entries copy such points) is consistent *)
Theorem C19_pos_invariant :
  forall inp s, reach inp s -> consistent inp s.
Proof. exact pos_invariant. Qed.
Print Assumptions C19_pos_invariant.

(* ... in particular after any number n+1 of reads from the initial point, as long as no read
   was issued at the end of input *)
Theorem C19_run_invariant :
  forall inp n s,
    run inp (S n) = Some s ->
    (forall m s', m < n -> run inp (S m) = Some s' -> w s' > 0) ->
    consistent inp s.
Proof. intros inp n s H G. exact (pos_invariant inp s (run_invariant inp n s H G)). Qed.
Print Assumptions C19_run_invariant.

Theorem C19_offset_le_length :
  forall inp s, consistent inp s -> off s <= length inp.
Proof. exact offset_le_length. Qed.
Print Assumptions C19_offset_le_length.

(* an offset has exactly one plain line / column *)
Theorem C19_plain_position_unique :
  forall inp o L C L' C', plain_lc inp o L C -> plain_lc inp o L' C' -> L = L' /\ C = C'.
Proof. exact plain_lc_fun. Qed.
Print Assumptions C19_plain_position_unique.

(* The code's (line, col) against the plain 1-based line / column (in runes) of the byte offset:
   L is 1 + the number of newline bytes before the offset; they agree unless the byte AT the
   offset is a newline — exactly then the code reports the NEXT line, column 0. *)
Theorem C19_line_col_spec :
  forall inp s, consistent inp s ->
    exists L C,
      plain_lc inp (off s) L C /\
      L = 1 + count_nl (firstn (off s) inp) /\
      (nth (off s) inp 0%N <> NL \/ length inp <= off s -> line s = L /\ col s = C) /\
      (off s < length inp /\ nth (off s) inp 0%N = NL -> line s = S L /\ col s = 0).
Proof. exact line_col_spec. Qed.
Print Assumptions C19_line_col_spec.

(* "the reported line and column are the line and column of that offset" is therefore FALSE of
   the code at a newline byte (recorded defect #32): for the input ".\n" the parser point at offset
   1 says 2:0, the plain position of offset 1 is 1:2.  Go reports `2:0 (1)` for this input. *)
Theorem C19_line_col_at_newline_refuted :
  exists inp s L C,
    reach inp s /\ plain_lc inp (off s) L C /\ ~ (line s = L /\ col s = C).
Proof.
  exists [46; 10]%N, (mkPt 2 0 1 1 NL), 1, 2.
  destruct defect32_point as [Hrun Hp].
  split; [|split; [exact Hp|cbn; intros [H _]; discriminate]].
  apply (run_invariant [46; 10]%N 1 _ Hrun).
  intros m s' Hm Hr. assert (m = 0) by (inversion Hm as [|? H0]; [reflexivity|inversion H0]).
  subst m. vm_compute in Hr. inversion Hr. cbn. constructor.
Qed.
Print Assumptions C19_line_col_at_newline_refuted.

(* the position handed to the formatter lies within the input and names an existing line *)
Theorem C19_fail_pos_within_input :
  forall inp o ln cl, fail_pos inp o = Some (ln, cl) ->
    o <= length inp /\ 1 <= ln <= length (split_lines inp).
Proof.
  intros inp o ln cl H. split;
    [exact (fail_pos_offset_le inp o ln cl H)|exact (fail_pos_line_in_range inp o ln cl H)].
Qed.
Print Assumptions C19_fail_pos_within_input.

(* ---- rendering ------------------------------------------------------------------------------ *)

(* from the rendered text one recovers exactly line, col, the quoted line (cut at 57 bytes + "..."
   beyond 60) and the caret: it stands after col-1 blanks (none when col = 0) *)
Theorem C19_render_parses_back :
  forall l ln cl inp cn en ch,
    inp <> [] -> 1 <= ln <= length (split_lines inp) ->
    parse_back (render l ln cl inp cn en ch) =
    Some (ln, cl, Some (get_line inp ln, Nat.pred cl)).
Proof. exact render_parses_back. Qed.
Print Assumptions C19_render_parses_back.

Theorem C19_render_parses_back_empty_input :
  forall l ln cl cn en ch, parse_back (render l ln cl [] cn en ch) = Some (ln, cl, None).
Proof. exact render_parses_back_empty. Qed.
Print Assumptions C19_render_parses_back_empty_input.

(* the quoted line is line `line s` of the input (split at newline bytes, cut at 57+... beyond
   60); its index is the number of newline bytes before the offset (+1 at a newline: defect #32) *)
Theorem C19_quoted_line_is_that_line :
  forall inp s, consistent inp s ->
    1 <= line s <= length (split_lines inp) /\
    get_line inp (line s) = trunc (nth (line s - 1) (split_lines inp) []) /\
    line s - 1 = count_nl (firstn (off s) inp) + (if (rn s =? NL)%N then 1 else 0).
Proof. exact quoted_line_consistent. Qed.
Print Assumptions C19_quoted_line_is_that_line.

(* language: the Chinese text is a function of the Chinese column only (and the Chinese constants),
   the English text of the English column only; the bilingual text carries both position lines.
   That no English table string occurs inside a Chinese one (and v.v.) is `table_ok`, decided on
   the table itself; every check run re-establishes that the table is the one in the source. *)
Theorem C19_language_only :
  (forall ln cl inp cn en en' ch,
      render Cn ln cl inp cn en ch = render Cn ln cl inp cn en' ch /\
      render Cn ln cl inp cn en ch = h_cn ++ context ln cl inp ++ w_cn ++ pos_msg ln cl (fmt_msg cn ch)) /\
  (forall ln cl inp cn cn' en ch,
      render En ln cl inp cn en ch = render En ln cl inp cn' en ch /\
      render En ln cl inp cn en ch = h_en ++ context ln cl inp ++ w_en ++ pos_msg ln cl (fmt_msg en ch)) /\
  (forall ln cl inp cn en ch, exists pre,
      render Bi ln cl inp cn en ch =
      pre ++ (w_cn ++ pos_msg ln cl (fmt_msg cn ch)) ++ [NL] ++ (w_en ++ pos_msg ln cl (fmt_msg en ch))) /\
  table_ok msg_table = true.
Proof.
  split; [exact render_cn_only|]. split; [exact render_en_only|].
  split; [exact render_bi_both|exact msg_table_ok].
Qed.
Print Assumptions C19_language_only.

(* cross-VM footprint: Parse stores its own Config.ParseErrorLanguage (>= 0) in the error value;
   the text then does not depend on the package-level default, the only state VMs share on this
   path.  (Data-race freedom itself is not a Coq theorem: Go race detector, harness c19-conc.) *)
Theorem C19_render_independent_of_other_vms :
  forall err_lang d d' ln cl inp cn en ch,
    (0 <= err_lang)%Z ->
    error_text err_lang d ln cl inp cn en ch = error_text err_lang d' ln cl inp cn en ch.
Proof. exact error_text_independent_of_default. Qed.
Print Assumptions C19_render_independent_of_other_vms.

(* ---- non-vacuity ------------------------------------------------------------------------- *)
(* "中(\n1": the point at offset 5 is 2:1 and consistent premises are inhabited *)
Example C19_nonvacuous_position :
  fail_pos [228; 184; 173; 40; 10; 49]%N 5 = Some (2, 1) /\
  (exists s, reach [40; 49]%N s /\ off s = 1 /\ line s = 1 /\ col s = 2).
Proof.
  split; [reflexivity|]. exists (mkPt 1 2 1 1 49%N). split; [|auto].
  apply reach_next with (mkPt 1 1 0 1 40%N); [apply reach_first; reflexivity|cbn; auto|reflexivity].
Qed.

(* "(1+2" rejected at offset 4, Chinese: the whole text, and it reads back *)
Example C19_nonvacuous_render :
  option_map parse_back (model_error msg_table Cn [40; 49; 43; 50]%N 4) =
  Some (Some (1, 5, Some ([40; 49; 43; 50]%N, 4))) /\
  error_text 1 2 1 5 [40; 49]%N [65]%N [66]%N 0 <> error_text 2 2 1 5 [40; 49]%N [65]%N [66]%N 0.
Proof. split; [reflexivity|vm_compute; discriminate]. Qed.
