(* K2 correspondence: Model/VM.v run on the byte-code dumped from the real parser, against what
   the real VM observed (harness/k2.go): result value (structural, through the heap), error class,
   NumOpCount (exact), generator state (exact), local variables and st callback log after every
   step of a history run on one VM. *)
From Coq Require Import String Ascii NArith ZArith List Bool.
From DS Require Import Model.Str Model.PCG Model.Value Model.VM.
Import ListNotations.
Open Scope string_scope.
Open Scope Z_scope.

(* structural dump, as harness/vm.go dumpValue *)
Inductive dval :=
| DInt (z : Z)
| DStr (s : string)
| DNull
| DArr (l : list dval)
| DDict (l : list (string * dval))      (* any order *)
| DComp (expr : string)
| DFunc (text : string)                 (* Name + "(" + fmt.Sprint(Params) + ")" + Expr *)
| DNative (name : string)
| DCyc (t : Z)                          (* array / dict already on the current path *)
| DOther (t : Z).

Definition func_text (d : fdata instr) : string :=
  f_name d ++ "([" ++ join " " (f_params d) ++ "])" ++ f_expr d.

(* dumpValueD: `seen` holds the objects on the current path only *)
Fixpoint reify (fuel : nat) (ft : ftab) (h : heap) (v : value) (path : list N) : dval :=
  match fuel with
  | O => DOther (-1)
  | S f =>
    match v with
    | VInt z => DInt z
    | VStr s => DStr s
    | VNull => DNull
    | VComp cid => DComp (fi_expr (fnames_of ft cid))
    | VFunc fid => match f_lookup ft fid with Some d => DFunc (func_text d) | None => DOther (-2) end
    | VNative n _ => DNative n
    | VThis => DOther 20
    | VArr id => if mem_N id path then DCyc 6
                 else DArr (map (fun x => reify f ft h x (id :: path)) (get_arr id h))
    | VDict id => if mem_N id path then DCyc 7
                  else DDict (map (fun kv => (fst kv, reify f ft h (snd kv) (id :: path))) (get_map id h))
    end
  end.
Definition reify0 (ft : ftab) (h : heap) (v : value) : dval := reify (str_fuel h) ft h v [].

Fixpoint dget (k : string) (l : list (string * dval)) : option dval :=
  match l with [] => None | (k', v) :: r => if String.eqb k k' then Some v else dget k r end.

Fixpoint dval_eqb (a b : dval) {struct a} : bool :=
  match a, b with
  | DInt x, DInt y => x =? y
  | DStr x, DStr y | DComp x, DComp y | DFunc x, DFunc y | DNative x, DNative y => String.eqb x y
  | DNull, DNull => true
  | DCyc x, DCyc y | DOther x, DOther y => x =? y
  | DArr l1, DArr l2 =>
    (fix go (l1 l2 : list dval) : bool :=
       match l1, l2 with
       | [], [] => true
       | x :: r1, y :: r2 => if dval_eqb x y then go r1 r2 else false
       | _, _ => false
       end) l1 l2
  | DDict l1, DDict l2 =>
    if Nat.eqb (length l1) (length l2) then
      (fix go (l1 : list (string * dval)) : bool :=
         match l1 with
         | [] => true
         | (k, x) :: r => match dget k l2 with
                          | Some y => if dval_eqb x y then go r else false
                          | None => false
                          end
         end) l1
    else false
  | _, _ => false
  end.

(* observed st callback: type, name, value, extra, op, text *)
Definition dst : Type := string * string * dval * option dval * string * string.

Record expect := {
  x_kind : N;                       (* 0 value, 1 error, 2 panic *)
  x_val : dval;
  x_err : N;                        (* error class; 0 = message not in the table (any class accepted) *)
  x_ops : Z;
  x_hi : N; x_lo : N;
  x_vars : list (string * dval);
  x_st : list dst
}.

Definition k2_step : Type := code * string * expect.
Definition k2_case : Type := ftab * config * (N * N) * list k2_step.

Inductive verdict := KOk | KUnsup (why : string) | KBad (why : string).

Definition k2_fuel : nat := 30000.

Definition st_eqb (ft : ftab) (h : heap) (c : stcall) (d : dst) : bool :=
  let '(t, name, v, extra, op, text) := d in
  String.eqb (st_type c) t && String.eqb (st_name c) name && dval_eqb v (reify0 ft h (st_val c)) &&
  match st_extra c, extra with
  | None, None => true
  | Some x, Some y => dval_eqb y (reify0 ft h x)
  | _, _ => false
  end && String.eqb (st_op c) op && String.eqb (st_text c) text.

Fixpoint all2 {A B} (f : A -> B -> bool) (l1 : list A) (l2 : list B) : bool :=
  match l1, l2 with
  | [], [] => true
  | x :: r1, y :: r2 => if f x y then all2 f r1 r2 else false
  | _, _ => false
  end.

Definition check_state (ft : ftab) (x : expect) (st : vmstate) : verdict :=
  if negb (vs_ops st =? x_ops x) then KBad ("ops model=" ++ show_Z (vs_ops st))
  else if negb ((hi (vs_pcg st) =? x_hi x)%N && (lo (vs_pcg st) =? x_lo x)%N) then KBad "generator state"
  else if negb (dval_eqb (DDict (x_vars x)) (reify0 ft (vs_heap st) (VDict (vs_attrs st)))) then KBad "variables"
  else if negb (all2 (st_eqb ft (vs_heap st)) (vs_st st) (x_st x)) then KBad "st log"
  else KOk.

Fixpoint run_steps (E : env) (st : vmstate) (l : list k2_step) : verdict :=
  match l with
  | [] => KOk
  | (c, src, x) :: r =>
    match run k2_fuel E c src st with
    | OUnsupported why => KUnsup why
    | OOutOfFuel => KBad "model out of fuel"
    | OPanic what => if (x_kind x =? 2)%N then KOk else KBad ("model panics: " ++ what)
    | Val v st' =>
      if negb (x_kind x =? 0)%N then KBad "model returns a value"
      else if negb (dval_eqb (x_val x) (reify0 (e_ftab E) (vs_heap st') v)) then KBad "value"
      else match check_state (e_ftab E) x st' with
           | KOk => run_steps E st' r
           | bad => bad
           end
    | Err e st' =>
      if negb (x_kind x =? 1)%N then KBad ("model fails with class " ++ show_N (eclass_num e))
      else if negb ((x_err x =? 0)%N || (x_err x =? eclass_num e)%N) then KBad ("error class model=" ++ show_N (eclass_num e))
      else match check_state (e_ftab E) x st' with
           | KOk => run_steps E st' r
           | bad => bad
           end
    end
  end.

Definition k2_check (c : k2_case) : verdict :=
  let '(ft, cfg, (h, l), steps) := c in
  run_steps {| e_ftab := ft; e_cfg := cfg |} (init_vmstate {| hi := h; lo := l |}) steps.

(* report: index and verdict of every case that is not KOk *)
Fixpoint k2_report (i : N) (l : list k2_case) : list (N * verdict) :=
  match l with
  | [] => []
  | c :: r => match k2_check c with
              | KOk => k2_report (i + 1) r
              | v => (i, v) :: k2_report (i + 1) r
              end
  end.

(* constructors used by the generated case files *)
Definition FD (computed : bool) (name : string) (params : list string) (expr : string) (c : option code) : fdata instr :=
  {| f_computed := computed; f_name := name; f_params := params; f_expr := expr; f_code := c |}.
Definition CFG (div0 mn mx : bool) (limit : Z) (st : bool) : config :=
  {| cfg_ignore_div0 := div0; cfg_min_mode := mn; cfg_max_mode := mx; cfg_op_limit := limit;
     cfg_def_expr_empty := true; cfg_st_callback := st |}.
Definition X (kind : N) (v : dval) (err : N) (ops : Z) (h l : N) (vars : list (string * dval)) (st : list dst) : expect :=
  {| x_kind := kind; x_val := v; x_err := err; x_ops := ops; x_hi := h; x_lo := l; x_vars := vars; x_st := st |}.
