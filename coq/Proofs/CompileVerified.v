(* Every program of the fragment of Model/Ast.v compiles (Model/Compile.v) to byte-code that the
   proved verifier's checker (Model/Verify.v `check`) accepts, hence (Proofs/VerifyProofs.v) to
   code that never gets stuck on ANY path of the shape machine of Model/Bytecode.v.

   Route: an explicit annotation `annot p` is defined by recursion on the syntax tree (abstract
   state before each instruction of `compile p`), and `check (to_shape (compile p)) (annot p)` is
   proved by induction on the tree, for code segments placed anywhere inside a larger program.
   The inference (`infer` / `verify`) is not reasoned about here; Proofs/CompileInfer.v proves
   that it accepts the same programs.

   The annotation is deliberately WEAK: statements are annotated as if they left nothing on the
   stack (a statement leaks the values it computes: one slot per expression statement, per `if`
   and per `while`; lower bounds absorb that, which is also what makes the loop head invariant),
   and the flags "a detail span exists" / "lastPop is set" are claimed only as far as they are known
   on entry (parameters dt / ls, both false for the program) or where the very next instruction needs
   them (ld.d, dice, push.last). *)
From Coq Require Import NArith ZArith List Bool String Lia.
From DS Require Import Model.Str Model.Value Model.VM Model.Ast Model.Compile.
From DS Require Import Model.Bytecode Model.Verify Proofs.VerifyProofs.
Import ListNotations.
Open Scope nat_scope.
Local Notation length := List.length.

(* ================================================================ translation to the shape level *)
(* iota order of bytecode.go = order of the constructors of VM.opcode = order of Bytecode.mnemonics *)
Definition opnum (o : opcode) : N :=
  match o with
  | OpPushInt => 0 | OpPushFlt => 1 | OpPushStr => 2 | OpPushArr => 3 | OpPushDict => 4 | OpPushRange => 5
  | OpPushComputed => 6 | OpPushNull => 7 | OpPushThis => 8 | OpPushGlobal => 9 | OpPushFunc => 10
  | OpPushLast => 11 | OpPushDefExpr => 12
  | OpLdFs => 13 | OpLd => 14 | OpLdD => 15 | OpLdRaw => 16 | OpStore => 17 | OpStoreGlobal => 18 | OpStoreLocal => 19
  | OpInvoke => 20 | OpInvokeSelf => 21 | OpItemGet => 22 | OpItemSet => 23 | OpAttrGet => 24 | OpAttrSet => 25
  | OpSliceGet => 26 | OpSliceSet => 27
  | OpAdd => 28 | OpSub => 29 | OpMul => 30 | OpDiv => 31 | OpMod => 32 | OpPow => 33 | OpNullCoalescing => 34
  | OpLt => 35 | OpLe => 36 | OpEq => 37 | OpNe => 38 | OpGe => 39 | OpGt => 40
  | OpBitAnd => 41 | OpBitOr => 42 | OpAnd => 43 | OpOr => 44 | OpNeg => 45 | OpPos => 46
  | OpDiceInit => 47 | OpDiceSetTimes => 48 | OpDiceSetKeepLow => 49 | OpDiceSetKeepHigh => 50
  | OpDiceSetDropLow => 51 | OpDiceSetDropHigh => 52 | OpDiceSetMin => 53 | OpDiceSetMax => 54
  | OpDice => 55 | OpDiceCustom => 56
  | OpCocPenalty => 57 | OpCocBonus => 58 | OpDiceFate => 59 | OpDiceWod => 60 | OpWodInit => 61 | OpWodPool => 62
  | OpWodPoints => 63 | OpWodThreshold => 64 | OpWodThresholdQ => 65 | OpDiceDC => 66 | OpDcInit => 67
  | OpDcPool => 68 | OpDcPoints => 69 | OpHalt => 70 | OpMarkDetail => 71
  | OpPop => 72 | OpPopN => 73 | OpNop => 74 | OpJmp => 75 | OpJe => 76 | OpJne => 77 | OpJeDup => 78 | OpRet => 79
  | OpFstrPush => 80 | OpFstrPop => 81 | OpBlockPush => 82 | OpBlockPop => 83
  | OpStSet => 84 | OpStMod => 85 | OpStX0 => 86 | OpStX1 => 87
  | OpUnknown => 255            (* a CodeType without a name: no case in the switch *)
  end%N.

(* the Go dynamic type of ByteCode.Value *)
Definition shp_opd (o : VM.operand) : Bytecode.operand :=
  match o with
  | ONil => PNil | OInt z => PInt z | OFlt => PFloat | OStr _ => PStr | OSpan _ _ => PSpan
  | OSt _ _ => PSt | OFn _ => PFn | OCust => PCust | OBad => PBad
  end.

(* the fragment defines no functions: no instruction carries a body *)
Definition shp_instr (i : VM.instr) : Bytecode.instr :=
  Instr (opnum (VM.i_op i)) (mnemonic (opnum (VM.i_op i))) (shp_opd (VM.i_arg i)) None.

Definition to_shape (c : VM.code) : Bytecode.code := map shp_instr c.

(* the numbering agrees with the mnemonic table of Model/Bytecode.v (all 88 named opcodes, in order) *)
Definition all_opcodes : list opcode :=
  [ OpPushInt; OpPushFlt; OpPushStr; OpPushArr; OpPushDict; OpPushRange; OpPushComputed; OpPushNull;
    OpPushThis; OpPushGlobal; OpPushFunc; OpPushLast; OpPushDefExpr;
    OpLdFs; OpLd; OpLdD; OpLdRaw; OpStore; OpStoreGlobal; OpStoreLocal;
    OpInvoke; OpInvokeSelf; OpItemGet; OpItemSet; OpAttrGet; OpAttrSet; OpSliceGet; OpSliceSet;
    OpAdd; OpSub; OpMul; OpDiv; OpMod; OpPow; OpNullCoalescing;
    OpLt; OpLe; OpEq; OpNe; OpGe; OpGt;
    OpBitAnd; OpBitOr; OpAnd; OpOr; OpNeg; OpPos;
    OpDiceInit; OpDiceSetTimes; OpDiceSetKeepLow; OpDiceSetKeepHigh; OpDiceSetDropLow; OpDiceSetDropHigh;
    OpDiceSetMin; OpDiceSetMax; OpDice; OpDiceCustom;
    OpCocPenalty; OpCocBonus; OpDiceFate; OpDiceWod; OpWodInit; OpWodPool; OpWodPoints; OpWodThreshold;
    OpWodThresholdQ; OpDiceDC; OpDcInit; OpDcPool; OpDcPoints; OpHalt; OpMarkDetail;
    OpPop; OpPopN; OpNop; OpJmp; OpJe; OpJne; OpJeDup; OpRet;
    OpFstrPush; OpFstrPop; OpBlockPush; OpBlockPop;
    OpStSet; OpStMod; OpStX0; OpStX1 ].
Example opnum_is_iota : map opnum all_opcodes = map N.of_nat (seq 0 88) /\ map (fun o => mnemonic (opnum o)) all_opcodes = mnemonics.
Proof. split; vm_compute; reflexivity. Qed.

Lemma to_shape_app a b : to_shape (a ++ b) = to_shape a ++ to_shape b.
Proof. apply map_app. Qed.
Lemma to_shape_len c : length (to_shape c) = length c.
Proof. apply map_length. Qed.
Lemma to_shape_names c : names_ok (to_shape c) = true.
Proof.
  induction c as [|i c IH]; [reflexivity|].
  unfold names_ok in *. cbn [to_shape map all_ok name_ok shp_instr]. rewrite String.eqb_refl. exact IH.
Qed.
Lemma to_shape_no_bodies c : count_bodies (to_shape c) = 0.
Proof. induction c as [|i c IH]; [reflexivity|]. unfold count_bodies in *. cbn. exact IH. Qed.

(* ================================================================ the order on abstract states *)
Definition st (lo : nat) (B : list nat) (d : nat) (dt ls : bool) : astate :=
  {| a_lo := lo; a_blocks := B; a_fb := []; a_fd := None; a_dice := d; a_det := dt; a_last := ls |}.

Lemma list_le_refl l : list_le l l = true.
Proof. induction l as [|x r IH]; [reflexivity|]. cbn [list_le]. rewrite Nat.leb_refl. exact IH. Qed.

Lemma aleb_st_refl lo B d dt ls : aleb (st lo B d dt ls) (st lo B d dt ls) = true.
Proof.
  unfold aleb, st. cbn [a_lo a_blocks a_fb a_fd a_dice a_det a_last fb_le opt_le].
  rewrite !Nat.leb_refl, list_le_refl. destruct dt, ls; reflexivity.
Qed.

(* whatever is weaker than a state of the form st .. is weaker than every stronger state *)
Lemma aleb_weak a lo B d dt ls X :
  aleb (st lo B d dt ls) X = true ->
  lo <= a_lo a -> a_blocks a = B -> a_fb a = [] -> d <= a_dice a ->
  (dt = true -> a_det a = true) -> (ls = true -> a_last a = true) ->
  aleb a X = true.
Proof.
  unfold aleb, st. cbn [a_lo a_blocks a_fb a_fd a_dice a_det a_last].
  intros H Hlo HB Hfb Hd Hdt Hls.
  destruct (a_lo X <=? lo) eqn:E1; [|discriminate].
  destruct (list_le (a_blocks X) B) eqn:E2; [|discriminate].
  destruct (fb_le (a_fb X) []) eqn:E3; [|discriminate].
  destruct (opt_le (a_fd X) None) eqn:E4; [|discriminate].
  destruct (a_dice X <=? d) eqn:E5; [|discriminate].
  destruct (implb (a_det X) dt) eqn:E6; [|discriminate].
  rewrite HB, Hfb, E2, E3.
  apply Nat.leb_le in E1. apply Nat.leb_le in E5.
  replace (a_lo X <=? a_lo a) with true by (symmetry; apply Nat.leb_le; lia).
  replace (a_dice X <=? a_dice a) with true by (symmetry; apply Nat.leb_le; lia).
  destruct (a_fd X) as [x|]; [destruct (a_fd a); discriminate|]. cbn [opt_le].
  destruct (a_det X); [destruct dt; [|discriminate]; rewrite (Hdt eq_refl)|]; cbn [implb];
    (destruct (a_last X); [destruct ls; [|discriminate]; rewrite (Hls eq_refl)|]; reflexivity).
Qed.

(* ================================================================ segments of a list *)
Fixpoint at_seg {X} (L : list X) (p : nat) (seg : list X) : Prop :=
  match seg with
  | [] => True
  | x :: r => nth_error L p = Some x /\ at_seg L (S p) r
  end.

Lemma at_seg_app {X} (L : list X) l1 l2 p : at_seg L p (l1 ++ l2) <-> at_seg L p l1 /\ at_seg L (p + length l1) l2.
Proof.
  revert p. induction l1 as [|x r IH]; intro p; cbn [app at_seg length].
  - rewrite Nat.add_0_r. tauto.
  - rewrite IH. replace (S p + length r) with (p + S (length r)) by lia. tauto.
Qed.

Lemma at_seg_mid {X} (pre seg post : list X) : at_seg (pre ++ seg ++ post) (length pre) seg.
Proof.
  revert pre. induction seg as [|x r IH]; intro pre; cbn [at_seg]; [exact Logic.I|]. split.
  - rewrite nth_error_app2 by lia. rewrite Nat.sub_diag. reflexivity.
  - replace (pre ++ (x :: r) ++ post) with ((pre ++ [x]) ++ r ++ post) by (rewrite <- app_assoc; reflexivity).
    replace (S (length pre)) with (length (pre ++ [x])) by (rewrite app_length; cbn; lia).
    apply IH.
Qed.

(* ================================================================ one instruction *)
Definition ok (C : Bytecode.code) (A : annotation) (p n : nat) : Prop :=
  forall q, p <= q < p + n -> check_pc C A q = true.

Lemma ok_nil C A p : ok C A p 0.
Proof. intros q Hq. lia. Qed.
Lemma ok_one C A p : check_pc C A p = true -> ok C A p 1.
Proof. intros H q Hq. replace q with p by lia. exact H. Qed.
Lemma ok_app C A p n1 n2 : ok C A p n1 -> ok C A (p + n1) n2 -> ok C A p (n1 + n2).
Proof. intros H1 H2 q Hq. destruct (Nat.lt_ge_cases q (p + n1)); [apply H1|apply H2]; lia. Qed.

Lemma jump_target_some len q off t :
  (Z.of_nat q + off + 1 = Z.of_nat t)%Z -> t <= len -> jump_target len q off = Some t.
Proof.
  intros E Hle. unfold jump_target. rewrite E.
  replace (Z.of_nat t <? 0)%Z with false by (symmetry; apply Z.ltb_ge; lia).
  replace (Z.of_nat len <? Z.of_nat t)%Z with false by (symmetry; apply Z.ltb_ge; lia).
  rewrite Nat2Z.id. reflexivity.
Qed.

Lemma ck_simple C A q i a e X lo B d dt ls :
  nth_error C q = Some i -> nth_error A q = Some (Some a) ->
  nth_error A (S q) = Some (Some X) -> aleb (st lo B d dt ls) X = true ->
  ishape i = SSimple e ->
  a_fb a = [] -> a_blocks a = B ->
  (e_need_dice e = true -> 1 <= a_dice a) -> e_pops e <= a_lo a ->
  (e_need_det e = true -> a_det a = true) -> (e_need_last e = true -> a_last a = true) ->
  lo <= a_lo a - e_pops e + e_push e -> d <= a_dice a + e_dice_up e - e_dice_down e ->
  (dt = true -> a_det a || (0 <? e_det_up e) = true) ->
  (ls = true -> a_last a || ((0 <? e_pops e) && negb (e_quiet e)) = true) ->
  check_pc C A q = true.
Proof.
  intros HC HA HX HXle Hsh Hfb HB Hdice Hpops Hdet Hlast Hlo Hd Hdt Hls.
  unfold check_pc. rewrite HA, HC, Hsh. cbn [atransfer].
  replace (e_need_dice e && (a_dice a =? 0)) with false.
  2:{ destruct (e_need_dice e); [|reflexivity]. specialize (Hdice eq_refl). symmetry. apply Nat.eqb_neq. lia. }
  replace (a_lo a <? e_pops e) with false by (symmetry; apply Nat.ltb_ge; lia).
  replace (e_need_det e && negb (a_det a)) with false.
  2:{ destruct (e_need_det e); [|reflexivity]. rewrite (Hdet eq_refl). reflexivity. }
  replace (e_need_last e && negb (a_last a)) with false.
  2:{ destruct (e_need_last e); [|reflexivity]. rewrite (Hlast eq_refl). reflexivity. }
  cbn [all_ok]. unfold succ_ok. cbn [fst snd]. rewrite HX.
  erewrite aleb_weak; [reflexivity|exact HXle|..]; cbn [a_lo a_blocks a_fb a_dice a_det a_last]; auto.
Qed.

Lemma ck_peek C A q i a X lo B d dt ls :
  nth_error C q = Some i -> nth_error A q = Some (Some a) ->
  nth_error A (S q) = Some (Some X) -> aleb (st lo B d dt ls) X = true ->
  ishape i = SPeek ->
  a_fb a = [] -> a_blocks a = B -> 1 <= a_lo a -> lo <= a_lo a -> d <= a_dice a ->
  (dt = true -> a_det a = true) -> (ls = true -> a_last a = true) ->
  check_pc C A q = true.
Proof.
  intros HC HA HX HXle Hsh Hfb HB H1 Hlo Hd Hdt Hls.
  unfold check_pc. rewrite HA, HC, Hsh. cbn [atransfer].
  replace (a_lo a =? 0) with false by (symmetry; apply Nat.eqb_neq; lia).
  cbn [all_ok]. unfold succ_ok. cbn [fst snd]. rewrite HX.
  erewrite aleb_weak; [reflexivity|exact HXle|..]; auto.
Qed.

Lemma ck_jmp C A q i a off t X lo B d dt ls :
  nth_error C q = Some i -> nth_error A q = Some (Some a) ->
  ishape i = SJmp off -> (Z.of_nat q + off + 1 = Z.of_nat t)%Z -> t <= length C ->
  nth_error A t = Some (Some X) -> aleb (st lo B d dt ls) X = true ->
  a_fb a = [] -> a_blocks a = B -> lo <= a_lo a -> d <= a_dice a ->
  (dt = true -> a_det a = true) -> (ls = true -> a_last a = true) ->
  check_pc C A q = true.
Proof.
  intros HC HA Hsh Ht Hle HX HXle Hfb HB Hlo Hd Hdt Hls.
  unfold check_pc. rewrite HA, HC, Hsh. cbn [atransfer]. rewrite (jump_target_some _ _ _ _ Ht Hle).
  cbn [all_ok]. unfold succ_ok. cbn [fst snd]. rewrite HX.
  erewrite aleb_weak; [reflexivity|exact HXle|..]; auto.
Qed.

(* both successors of a conditional jump have lastPop set *)
Lemma ck_jcond C A q i a off dup t X1 X2 lo1 lo2 B d dt ls1 ls2 :
  nth_error C q = Some i -> nth_error A q = Some (Some a) ->
  ishape i = SJcond off dup -> (Z.of_nat q + off + 1 = Z.of_nat t)%Z -> t <= length C ->
  nth_error A (S q) = Some (Some X1) -> aleb (st lo1 B d dt ls1) X1 = true ->
  nth_error A t = Some (Some X2) -> aleb (st lo2 B d dt ls2) X2 = true ->
  a_fb a = [] -> a_blocks a = B -> 1 <= a_lo a ->
  lo1 <= a_lo a - 1 -> lo2 <= (if dup then a_lo a else a_lo a - 1) -> d <= a_dice a ->
  (dt = true -> a_det a = true) ->
  check_pc C A q = true.
Proof.
  intros HC HA Hsh Ht Hle HX1 HX1le HX2 HX2le Hfb HB H1 Hlo1 Hlo2 Hd Hdt.
  unfold check_pc. rewrite HA, HC, Hsh. cbn [atransfer].
  replace (a_lo a =? 0) with false by (symmetry; apply Nat.eqb_neq; lia).
  rewrite (jump_target_some _ _ _ _ Ht Hle).
  cbn [all_ok]. unfold succ_ok. cbn [fst snd]. rewrite HX1, HX2.
  erewrite aleb_weak; [|exact HX1le|..]; cbn [a_lo a_blocks a_fb a_dice a_det a_last]; auto.
  erewrite aleb_weak; [reflexivity|exact HX2le|..]; destruct dup; cbn [a_lo a_blocks a_fb a_dice a_det a_last]; auto.
Qed.

Lemma ck_bpush C A q i a X lo B d dt ls :
  nth_error C q = Some i -> nth_error A q = Some (Some a) ->
  nth_error A (S q) = Some (Some X) -> aleb (st lo B d dt ls) X = true ->
  ishape i = SBlockPush ->
  a_fb a = [] -> a_lo a :: a_blocks a = B -> lo <= a_lo a -> d <= a_dice a ->
  (dt = true -> a_det a = true) -> (ls = true -> a_last a = true) ->
  check_pc C A q = true.
Proof.
  intros HC HA HX HXle Hsh Hfb HB Hlo Hd Hdt Hls.
  unfold check_pc. rewrite HA, HC, Hsh. cbn [atransfer].
  cbn [all_ok]. unfold succ_ok. cbn [fst snd]. rewrite HX.
  erewrite aleb_weak; [reflexivity|exact HXle|..]; cbn [a_lo a_blocks a_fb a_dice a_det a_last]; auto.
Qed.

Lemma ck_bpop C A q i a b X lo B d dt ls :
  nth_error C q = Some i -> nth_error A q = Some (Some a) ->
  nth_error A (S q) = Some (Some X) -> aleb (st lo B d dt ls) X = true ->
  ishape i = SBlockPop ->
  a_fb a = [] -> a_blocks a = b :: B -> lo <= S b -> d <= a_dice a ->
  (dt = true -> a_det a = true) -> (ls = true -> a_last a = true) ->
  check_pc C A q = true.
Proof.
  intros HC HA HX HXle Hsh Hfb HB Hlo Hd Hdt Hls.
  unfold check_pc. rewrite HA, HC, Hsh. cbn [atransfer]. rewrite HB.
  cbn [all_ok]. unfold succ_ok. cbn [fst snd]. rewrite HX.
  erewrite aleb_weak; [reflexivity|exact HXle|..]; cbn [a_lo a_blocks a_fb a_dice a_det a_last]; auto.
Qed.

Lemma ck_halt C A q i a :
  nth_error C q = Some i -> nth_error A q = Some (Some a) -> ishape i = SHalt -> check_pc C A q = true.
Proof. intros HC HA Hsh. unfold check_pc. rewrite HA, HC, Hsh. reflexivity. Qed.

(* ================================================================ shapes of the emitted instructions *)
Lemma shape_bin o : ishape (shp_instr (I (bin_opcode o) ONil)) = SSimple (E 2 1).
Proof. destruct o; reflexivity. Qed.
Lemma shape_un o : ishape (shp_instr (I (un_opcode o) ONil)) = SSimple (E 1 1).
Proof. destruct o; reflexivity. Qed.
Lemma shape_arr {X} (l : list X) : ishape (shp_instr (I OpPushArr (OInt (zlen l)))) = SSimple (E (length l) 1).
Proof.
  unfold ishape, shp_instr, zlen. cbn [i_t i_opd VM.i_op VM.i_arg opnum shp_opd shape_of with_count].
  replace (Z.of_nat (length l) <? 0)%Z with false by (symmetry; apply Z.ltb_ge; lia).
  rewrite Nat2Z.id. reflexivity.
Qed.

(* ================================================================ the annotation *)
(* dt / ls: a detail span / lastPop is known to exist when the annotated code is entered.  The
   program itself is annotated with dt = ls = false; the other instances are the annotations of a
   loop whose head is reached in an arbitrary abstract state (Proofs/CompileInfer.v). *)
Section Flags.
Variables dt ls : bool.
Notation S0 lo B d := (st lo B d dt ls).

(* abstract state before each instruction of compile_expr e, entered with at least lo values, open
   blocks B, dice depth at least d; left with one value more *)
Fixpoint ann_expr (e : expr) (lo : nat) (B : list nat) (d : nat) : annotation :=
  match e with
  | EInt _ | EStr _ | ENull | ETrue | EFalse => [Some (S0 lo B d)]
  | EVar _ => [Some (S0 lo B d); Some (st lo B d true ls)]
  | EAssign _ e1 => ann_expr e1 lo B d ++ [Some (S0 (S lo) B d)]
  | EUn _ e1 => ann_expr e1 lo B d ++ [Some (S0 (S lo) B d)]
  | EBin _ l r => ann_expr l lo B d ++ ann_expr r (S lo) B d ++ [Some (S0 (S (S lo)) B d)]
  | EOr l r =>
    ann_expr l lo B d ++ [Some (S0 (S lo) B d)] ++ ann_expr r lo B d
    ++ [Some (S0 (S lo) B d); Some (st lo B d dt true)]
  | ETern c a b =>
    ann_expr c lo B d ++ [Some (S0 (S lo) B d)] ++ ann_expr a lo B d ++ [Some (S0 (S lo) B d)] ++ ann_expr b lo B d
  | EArr l =>
    (fix items (l : list expr) (lo' : nat) : annotation :=
       match l with [] => [] | x :: r => ann_expr x lo' B d ++ items r (S lo') end) l lo
    ++ [Some (S0 (length l + lo) B d)]
  | EIdx b i => ann_expr b lo B d ++ ann_expr i (S lo) B d ++ [Some (S0 (S (S lo)) B d)]
  | ERoll x y =>
    ann_expr x lo B d ++ [Some (S0 (S lo) B d); Some (S0 (S lo) B (S d))]
    ++ ann_expr y lo B (S d) ++ [Some (S0 (S lo) B (S d)); Some (st (S lo) B (S d) true ls)]
  end.

Fixpoint citems (l : list expr) : VM.code :=
  match l with [] => [] | x :: r => compile_expr x ++ citems r end.
Fixpoint aitems (l : list expr) (lo : nat) (B : list nat) (d : nat) : annotation :=
  match l with [] => [] | x :: r => ann_expr x lo B d ++ aitems r (S lo) B d end.
Lemma compile_arr l : compile_expr (EArr l) = citems l ++ [I OpPushArr (OInt (zlen l))].
Proof. reflexivity. Qed.
Lemma ann_arr l lo B d : ann_expr (EArr l) lo B d = aitems l lo B d ++ [Some (S0 (length l + lo) B d)].
Proof.
  cbn [ann_expr]. f_equal. revert lo. induction l as [|x r IH]; intro lo; cbn [aitems]; [reflexivity|].
  rewrite IH. reflexivity.
Qed.

(* break / continue: one block.pop per open `if`; block.pop leaves (saved height + 1) values *)
Fixpoint ann_pops (lo : nat) (ifs LB : list nat) (d : nat) : annotation :=
  match ifs with
  | [] => []
  | b :: r => Some (S0 lo (ifs ++ LB) d) :: ann_pops (S b) r LB d
  end.
Fixpoint lo_after (lo : nat) (ifs : list nat) : nat :=
  match ifs with [] => lo | b :: r => lo_after (S b) r end.

(* ifs = saved heights of the `if` blocks open since the enclosing loop (innermost first),
   LB = the blocks open at the head L and at the exit X of the enclosing loop (the loop's own block
   and everything outside; [] at top level, where L = the first instruction and X = halt).
   Every statement is annotated as entered AND left with at least lo values. *)
Fixpoint ann_stmt (s : stmt) (lo : nat) (ifs LB : list nat) (d : nat) : annotation :=
  let B := ifs ++ LB in
  match s with
  | SNop => []
  | SExpr e => ann_expr e lo B d
  | SSeq a b => ann_stmt a lo ifs LB d ++ ann_stmt b lo ifs LB d
  | SIf c t e =>
    ann_expr c lo B d ++ [Some (S0 (S lo) B d); Some (S0 (S lo) (S lo :: B) d)]
    ++ ann_stmt t lo (S lo :: ifs) LB d ++ [Some (S0 lo (S lo :: B) d)]
    ++ ann_stmt e lo (S lo :: ifs) LB d ++ [Some (S0 lo (S lo :: B) d)]
  | SWhile c b =>
    [Some (S0 lo B d)] ++ ann_expr c lo (lo :: B) d ++ [Some (S0 (S lo) (lo :: B) d)]
    ++ ann_stmt b lo [] (lo :: B) d ++ [Some (S0 lo (lo :: B) d)] ++ [Some (S0 lo (lo :: B) d)]
  | SBreak | SContinue => ann_pops lo ifs LB d ++ [Some (S0 (lo_after lo ifs) LB d)]
  end.


(* ================================================================ lengths *)
Lemma ann_expr_len_and_hd : forall e,
  (forall lo B d, length (ann_expr e lo B d) = length (compile_expr e)) /\
  (forall lo B d, exists t, ann_expr e lo B d = Some (S0 lo B d) :: t).
Proof.
  fix IH 1. intros e. destruct e as [n|s| | | |x|x e1|o e1|o l r|l r|c a b|l|b i|x y].
  1-6: split; intros; cbn [ann_expr compile_expr length]; eauto.
  - destruct (IH e1) as [L H]. split; intros lo B d; cbn [ann_expr compile_expr].
    + rewrite !app_length, L. reflexivity.
    + destruct (H lo B d) as [t ->]. eexists; reflexivity.
  - destruct (IH e1) as [L H]. split; intros lo B d; cbn [ann_expr compile_expr].
    + rewrite !app_length, L. reflexivity.
    + destruct (H lo B d) as [t ->]. eexists; reflexivity.
  - destruct (IH l) as [L1 H1], (IH r) as [L2 H2]. split; intros lo B d; cbn [ann_expr compile_expr].
    + rewrite !app_length, L1, L2. reflexivity.
    + destruct (H1 lo B d) as [t ->]. eexists; reflexivity.
  - destruct (IH l) as [L1 H1], (IH r) as [L2 H2]. split; intros lo B d; cbn [ann_expr compile_expr].
    + rewrite !app_length, L1, L2. reflexivity.
    + destruct (H1 lo B d) as [t ->]. eexists; reflexivity.
  - destruct (IH c) as [L1 H1], (IH a) as [L2 H2], (IH b) as [L3 H3]. split; intros lo B d; cbn [ann_expr compile_expr].
    + rewrite !app_length, L1, L2, L3. reflexivity.
    + destruct (H1 lo B d) as [t ->]. eexists; reflexivity.
  - assert (HL : forall lo B d, length (aitems l lo B d) = length (citems l) /\
                                exists t, aitems l lo B d ++ [Some (S0 (length l + lo) B d)] = Some (S0 lo B d) :: t).
    { induction l as [|x r IHr]; intros lo B d; cbn [aitems citems length].
      - split; [reflexivity|]. eexists; reflexivity.
      - destruct (IH x) as [L1 H1]. destruct (IHr (S lo) B d) as [L2 _]. split.
        + rewrite !app_length, L1, L2. reflexivity.
        + destruct (H1 lo B d) as [t ->]. eexists; reflexivity. }
    split; intros lo B d; rewrite ann_arr, ?compile_arr.
    + destruct (HL lo B d) as [L _]. rewrite !app_length, L. reflexivity.
    + destruct (HL lo B d) as [_ H]. exact H.
  - destruct (IH b) as [L1 H1], (IH i) as [L2 H2]. split; intros lo B d; cbn [ann_expr compile_expr].
    + rewrite !app_length, L1, L2. reflexivity.
    + destruct (H1 lo B d) as [t ->]. eexists; reflexivity.
  - destruct (IH x) as [L1 H1], (IH y) as [L2 H2]. split; intros lo B d; cbn [ann_expr compile_expr].
    + rewrite !app_length, L1, L2. reflexivity.
    + destruct (H1 lo B d) as [t ->]. eexists; reflexivity.
Qed.

Lemma ann_expr_len e lo B d : length (ann_expr e lo B d) = length (compile_expr e).
Proof. apply ann_expr_len_and_hd. Qed.
Lemma ann_expr_hd e lo B d : exists t, ann_expr e lo B d = Some (S0 lo B d) :: t.
Proof. apply ann_expr_len_and_hd. Qed.
Lemma at_seg_hd_expr A q e lo B d : at_seg A q (ann_expr e lo B d) -> nth_error A q = Some (Some (S0 lo B d)).
Proof. destruct (ann_expr_hd e lo B d) as [t ->]. cbn [at_seg]. tauto. Qed.

Lemma to_shape_cons x r : to_shape (x :: r) = shp_instr x :: to_shape r.
Proof. reflexivity. Qed.

Lemma ok_split C A p n n1 n2 : n = n1 + n2 -> ok C A p n1 -> ok C A (p + n1) n2 -> ok C A p n.
Proof. intros ->. apply ok_app. Qed.

Lemma at_seg_cons {X} (L : list X) p x r : at_seg L p (x :: r) -> nth_error L p = Some x /\ at_seg L (S p) r.
Proof. exact (fun H => H). Qed.

(* ================================================================ tactics *)
Ltac segs :=
  repeat match goal with
         | H : at_seg _ _ (to_shape (_ ++ _)) |- _ => rewrite to_shape_app in H
         | H : at_seg _ _ (to_shape (_ :: _)) |- _ => rewrite to_shape_cons in H
         | H : at_seg _ _ (_ ++ _) |- _ => apply at_seg_app in H; destruct H
         | H : at_seg _ _ (_ :: _) |- _ => apply at_seg_cons in H; destruct H
         | H : at_seg _ _ (to_shape []) |- _ => clear H
         | H : at_seg _ _ [] |- _ => clear H
         end.

Ltac heads :=
  repeat match goal with
         | H : at_seg ?A ?q (ann_expr ?e ?lo ?B ?d) |- _ =>
           lazymatch goal with
           | _ : nth_error A q = Some (Some (S0 lo B d)) |- _ => fail
           | _ => pose proof (at_seg_hd_expr _ _ _ _ _ _ H)
           end
         end.

Ltac pos :=
  match goal with
  | H : nth_error ?L ?q' = _ |- nth_error ?L ?q = _ => first [exact H | replace q with q' by lia; exact H]
  | H : at_seg ?L ?q' _ |- at_seg ?L ?q _ => first [exact H | replace q with q' by lia; exact H]
  end.

Ltac flag :=
  intros; repeat match goal with H : _ = true |- _ => rewrite H end; cbn; try reflexivity; try apply orb_true_r.
Ltac side :=
  cbn; try reflexivity; try lia; try (intros; discriminate); try (intros; reflexivity); auto; try solve [flag].

Ltac wk := first [eassumption | apply aleb_st_refl].
Ltac shp := first [reflexivity | apply shape_bin | apply shape_un | apply shape_arr].

Ltac step_simple := apply ok_one; eapply ck_simple; [pos|pos|pos|wk|shp|..]; side.
Ltac step_peek := apply ok_one; eapply ck_peek; [pos|pos|pos|wk|shp|..]; side.
Ltac step_jcond T := apply ok_one; eapply ck_jcond with (t := T); [pos|pos|shp|unfold zlen; lia|lia|pos|wk|pos|wk|..]; side.
Ltac step_jmp T := apply ok_one; eapply ck_jmp with (t := T); [pos|pos|shp|unfold zlen; lia|lia|pos|wk|..]; side.
Ltac step_bpush := apply ok_one; eapply ck_bpush; [pos|pos|pos|wk|shp|..]; side.
Ltac step_bpop := apply ok_one; eapply ck_bpop; [pos|pos|pos|wk|shp|..]; side.

Lemma aitems_len l : forall lo B d, length (aitems l lo B d) = length (citems l).
Proof.
  induction l as [|x r IH]; intros lo B d; cbn [aitems citems]; [reflexivity|].
  rewrite !app_length, ann_expr_len, IH. reflexivity.
Qed.

(* ================================================================ expressions *)
Section ExprInd.
  Variable P : expr -> Prop.
  Hypothesis HInt : forall n, P (EInt n).
  Hypothesis HStr : forall s, P (EStr s).
  Hypothesis HNull : P ENull.
  Hypothesis HTrue : P ETrue.
  Hypothesis HFalse : P EFalse.
  Hypothesis HVar : forall x, P (EVar x).
  Hypothesis HAssign : forall x e, P e -> P (EAssign x e).
  Hypothesis HUn : forall o e, P e -> P (EUn o e).
  Hypothesis HBin : forall o l r, P l -> P r -> P (EBin o l r).
  Hypothesis HOr : forall l r, P l -> P r -> P (EOr l r).
  Hypothesis HTern : forall c a b, P c -> P a -> P b -> P (ETern c a b).
  Hypothesis HArr : forall l, Forall P l -> P (EArr l).
  Hypothesis HIdx : forall e i, P e -> P i -> P (EIdx e i).
  Hypothesis HRoll : forall x y, P x -> P y -> P (ERoll x y).
  Fixpoint expr_ind_nested (e : expr) : P e :=
    match e with
    | EInt n => HInt n
    | EStr s => HStr s
    | ENull => HNull
    | ETrue => HTrue
    | EFalse => HFalse
    | EVar x => HVar x
    | EAssign x e1 => HAssign x e1 (expr_ind_nested e1)
    | EUn o e1 => HUn o e1 (expr_ind_nested e1)
    | EBin o l r => HBin o l r (expr_ind_nested l) (expr_ind_nested r)
    | EOr l r => HOr l r (expr_ind_nested l) (expr_ind_nested r)
    | ETern c a b => HTern c a b (expr_ind_nested c) (expr_ind_nested a) (expr_ind_nested b)
    | EArr l => HArr l ((fix go (l : list expr) : Forall P l :=
                           match l with [] => Forall_nil P | x :: r => Forall_cons x (expr_ind_nested x) (go r) end) l)
    | EIdx e1 i => HIdx e1 i (expr_ind_nested e1) (expr_ind_nested i)
    | ERoll x y => HRoll x y (expr_ind_nested x) (expr_ind_nested y)
    end.
End ExprInd.

(* a segment holding the code of e, annotated with ann_expr e, whose exit is annotated with
   something no stronger than "one value more": every instruction of the segment passes check_pc *)
Definition expr_okP (e : expr) : Prop :=
  forall C A p lo B d X,
    at_seg C p (to_shape (compile_expr e)) ->
    at_seg A p (ann_expr e lo B d) ->
    p + length (compile_expr e) <= length C ->
    nth_error A (p + length (compile_expr e)) = Some (Some X) ->
    aleb (S0 (S lo) B d) X = true ->
    ok C A p (length (compile_expr e)).

Ltac prep :=
  segs; change (to_shape []) with (@nil Bytecode.instr) in *; rewrite ?to_shape_len, ?ann_expr_len, ?aitems_len, ?app_length in *; cbn [length] in *; heads.

Ltac use IH := eapply IH; [pos|pos|lia|pos|wk].

Lemma items_ok l :
  Forall expr_okP l ->
  forall C A p lo B d X,
    at_seg C p (to_shape (citems l)) ->
    at_seg A p (aitems l lo B d) ->
    p + length (citems l) <= length C ->
    nth_error A (p + length (citems l)) = Some (Some X) ->
    aleb (S0 (length l + lo) B d) X = true ->
    ok C A p (length (citems l)).
Proof.
  induction 1 as [|x r Hx Hr IH]; intros C A p lo B d X HC HA Hlen HX HXle.
  - apply ok_nil.
  - replace (length (x :: r) + lo) with (length r + S lo) in HXle by (cbn [length]; lia).
    cbn [citems aitems] in *.
    destruct r as [|y r'].
    + cbn [citems aitems length Nat.add] in *. prep.
      apply (ok_split _ _ _ _ (length (compile_expr x)) 0); [lia| |apply ok_nil].
      eapply Hx; [pos|pos|lia|pos|wk].
    + specialize (IH C A (p + length (compile_expr x)) (S lo) B d X).
      cbn [aitems] in HA. prep.
      apply (ok_split _ _ _ _ (length (compile_expr x)) (length (citems (y :: r')))); [lia| |].
      * eapply Hx; [pos|pos|lia|pos|wk].
      * apply IH; [pos| |lia|pos|exact HXle].
        cbn [aitems]. apply at_seg_app. rewrite ann_expr_len. split; pos.
Qed.

Lemma expr_ok : forall e, expr_okP e.
Proof.
  induction e using expr_ind_nested; unfold expr_okP in *; intros C A p lo B d X HC HA Hlen HX HXle.
  - cbn [compile_expr ann_expr] in *; prep; step_simple.
  - cbn [compile_expr ann_expr] in *; prep; step_simple.
  - cbn [compile_expr ann_expr] in *; prep; step_simple.
  - cbn [compile_expr ann_expr] in *; prep; step_simple.
  - cbn [compile_expr ann_expr] in *; prep; step_simple.
  - (* EVar *)
    cbn [compile_expr ann_expr] in *; prep.
    apply (ok_split _ _ _ _ 1 1); [lia| |]; step_simple.
  - (* EAssign *)
    cbn [compile_expr ann_expr] in *; prep.
    apply (ok_split _ _ _ _ (length (compile_expr e)) 1); [lia| |].
    + use IHe.
    + step_peek.
  - (* EUn *)
    cbn [compile_expr ann_expr] in *; prep.
    apply (ok_split _ _ _ _ (length (compile_expr e)) 1); [lia| |].
    + use IHe.
    + step_simple.
  - (* EBin *)
    cbn [compile_expr ann_expr] in *; prep.
    apply (ok_split _ _ _ _ (length (compile_expr e1)) (length (compile_expr e2) + 1)); [lia| |].
    + use IHe1.
    + apply (ok_split _ _ _ _ (length (compile_expr e2)) 1); [lia| |].
      * use IHe2.
      * step_simple.
  - (* EOr *)
    cbn [compile_expr ann_expr] in *; prep.
    set (nl := length (compile_expr e1)) in *. set (nr := length (compile_expr e2)) in *.
    apply (ok_split _ _ _ _ nl (1 + (nr + 2))); [lia| |].
    + use IHe1.
    + apply (ok_split _ _ _ _ 1 (nr + 2)); [lia| |].
      * step_jcond (p + nl + 1 + nr + 2).
      * apply (ok_split _ _ _ _ nr 2); [lia| |].
        -- use IHe2.
        -- apply (ok_split _ _ _ _ 1 1); [lia| |].
           ++ step_jcond (p + nl + 1 + nr + 2).
           ++ step_simple.
  - (* ETern *)
    cbn [compile_expr ann_expr] in *; prep.
    set (nc := length (compile_expr e1)) in *. set (na := length (compile_expr e2)) in *.
    set (nb := length (compile_expr e3)) in *.
    apply (ok_split _ _ _ _ nc (1 + (na + (1 + nb)))); [lia| |].
    + use IHe1.
    + apply (ok_split _ _ _ _ 1 (na + (1 + nb))); [lia| |].
      * step_jcond (p + nc + 1 + na + 1).
      * apply (ok_split _ _ _ _ na (1 + nb)); [lia| |].
        -- use IHe2.
        -- apply (ok_split _ _ _ _ 1 nb); [lia| |].
           ++ step_jmp (p + nc + 1 + na + 1 + nb).
           ++ use IHe3.
  - (* EArr *)
    rewrite compile_arr, ann_arr in *. prep.
    apply (ok_split _ _ _ _ (length (citems l)) 1); [lia| |].
    + eapply items_ok; [exact H|pos|pos|lia|pos|wk].
    + step_simple.
  - (* EIdx *)
    cbn [compile_expr ann_expr] in *; prep.
    apply (ok_split _ _ _ _ (length (compile_expr e1)) (length (compile_expr e2) + 1)); [lia| |].
    + use IHe1.
    + apply (ok_split _ _ _ _ (length (compile_expr e2)) 1); [lia| |].
      * use IHe2.
      * step_simple.
  - (* ERoll *)
    cbn [compile_expr ann_expr] in *; prep.
    set (nx := length (compile_expr e1)) in *. set (ny := length (compile_expr e2)) in *.
    apply (ok_split _ _ _ _ nx (1 + (1 + (ny + (1 + 1))))); [lia| |].
    + use IHe1.
    + apply (ok_split _ _ _ _ 1 (1 + (ny + (1 + 1)))); [lia| |].
      * step_simple.
      * apply (ok_split _ _ _ _ 1 (ny + (1 + 1))); [lia| |].
        -- step_simple.
        -- apply (ok_split _ _ _ _ ny (1 + 1)); [lia| |].
           ++ use IHe2.
           ++ apply (ok_split _ _ _ _ 1 1); [lia| |]; step_simple.
Qed.

(* ================================================================ statements *)
(* number of instructions of a statement, in nat (Compile.ssize is the same number in Z) *)
Fixpoint sl (dd : nat) (s : stmt) : nat :=
  match s with
  | SNop => 0
  | SExpr e => length (compile_expr e)
  | SSeq a b => sl dd a + sl dd b
  | SIf c t e => length (compile_expr c) + 2 + sl (S dd) t + 1 + sl (S dd) e + 1
  | SWhile c b => 1 + length (compile_expr c) + 1 + sl 0 b + 1 + 1
  | SBreak | SContinue => dd + 1
  end.

Lemma pops_len dd : length (pops dd) = dd.
Proof. apply repeat_length. Qed.

Lemma compile_stmt_len s : forall dd bo ao, length (compile_stmt dd bo ao s) = sl dd s.
Proof.
  induction s; intros dd bo ao; cbn [compile_stmt sl]; rewrite ?app_length, ?pops_len; cbn [length];
    rewrite ?IHs1, ?IHs2, ?IHs; lia.
Qed.

Lemma ssize_sl s : forall dd, ssize dd s = Z.of_nat (sl dd s).
Proof.
  induction s; intros dd; cbn [ssize sl]; unfold zlen; rewrite ?IHs1, ?IHs2, ?IHs; lia.
Qed.

Lemma ann_pops_len ifs : forall lo LB d, length (ann_pops lo ifs LB d) = length ifs.
Proof. induction ifs as [|b r IH]; intros; cbn [ann_pops length]; [reflexivity|]. rewrite IH. reflexivity. Qed.

Lemma ann_stmt_len s : forall lo ifs LB d, length (ann_stmt s lo ifs LB d) = sl (length ifs) s.
Proof.
  induction s; intros lo ifs LB d; cbn [ann_stmt sl]; rewrite ?app_length, ?ann_expr_len, ?ann_pops_len; cbn [length];
    rewrite ?IHs1, ?IHs2, ?IHs; cbn [length]; lia.
Qed.

Lemma ann_stmt_hd s : forall lo ifs LB d,
  ann_stmt s lo ifs LB d = [] \/ exists t, ann_stmt s lo ifs LB d = Some (S0 lo (ifs ++ LB) d) :: t.
Proof.
  induction s; intros lo ifs LB d; cbn [ann_stmt].
  - left; reflexivity.
  - right. apply ann_expr_hd.
  - destruct (IHs1 lo ifs LB d) as [->|[t ->]]; [apply IHs2|right; eexists; reflexivity].
  - right. destruct (ann_expr_hd c lo (ifs ++ LB) d) as [t ->]. eexists; reflexivity.
  - right. eexists; reflexivity.
  - right. destruct ifs; eexists; reflexivity.
  - right. destruct ifs; eexists; reflexivity.
Qed.

Lemma stmt_entry s A p lo ifs LB d X :
  at_seg A p (ann_stmt s lo ifs LB d) ->
  nth_error A (p + sl (length ifs) s) = Some (Some X) -> aleb (S0 lo (ifs ++ LB) d) X = true ->
  exists X', nth_error A p = Some (Some X') /\ aleb (S0 lo (ifs ++ LB) d) X' = true.
Proof.
  intros HA HX HXle. pose proof (ann_stmt_len s lo ifs LB d) as L.
  destruct (ann_stmt_hd s lo ifs LB d) as [E|[t E]]; rewrite E in *.
  - cbn [length] in L. rewrite <- L, Nat.add_0_r in HX. eauto.
  - apply at_seg_cons in HA. destruct HA as [HA _]. eexists; split; [exact HA|apply aleb_st_refl].
Qed.

Lemma aleb_mono lo lo' B d X : aleb (S0 lo B d) X = true -> lo <= lo' -> aleb (S0 lo' B d) X = true.
Proof. intros H Hle. eapply aleb_weak; [exact H|..]; cbn; auto. Qed.

Lemma lo_after_ge ifs : forall lo0 lo, lo0 <= lo -> Forall (fun b => lo0 <= S b) ifs -> lo0 <= lo_after lo ifs.
Proof.
  induction ifs as [|b r IH]; intros lo0 lo Hle HF; cbn [lo_after]; [exact Hle|].
  inversion HF; subst. apply IH; assumption.
Qed.

Lemma pops_ok ifs : forall C A p lo LB d,
  at_seg C p (to_shape (pops (length ifs))) ->
  at_seg A p (ann_pops lo ifs LB d) ->
  nth_error A (p + length ifs) = Some (Some (S0 (lo_after lo ifs) LB d)) ->
  ok C A p (length ifs).
Proof.
  induction ifs as [|b r IH]; intros C A p lo LB d HC HA HX.
  - apply ok_nil.
  - cbn [length pops repeat ann_pops lo_after] in *. fold (pops (length r)) in HC.
    rewrite to_shape_cons in HC. apply at_seg_cons in HC. apply at_seg_cons in HA.
    destruct HC as [HC1 HC2], HA as [HA1 HA2].
    assert (HN : nth_error A (S p) = Some (Some (S0 (S b) (r ++ LB) d))).
    { destruct r as [|b' r'].
      - cbn [length lo_after app] in *. replace (S p) with (p + 1) by lia. exact HX.
      - cbn [ann_pops] in HA2. apply at_seg_cons in HA2. apply HA2. }
    apply (ok_split _ _ _ _ 1 (length r)); [lia| |].
    + step_bpop.
    + eapply IH; [pos|pos|pos].
Qed.

(* PL / PX = the positions of the head L and of the exit X of the enclosing loop (top level: the
   first instruction and halt); bo / ao are the distances the compiler was told *)
Definition stmt_okP (s : stmt) : Prop :=
  forall C A p lo ifs LB d bo ao PL PX X XL XX,
    at_seg C p (to_shape (compile_stmt (length ifs) bo ao s)) ->
    at_seg A p (ann_stmt s lo ifs LB d) ->
    Forall (fun b => lo <= S b) ifs ->
    nth_error A (p + sl (length ifs) s) = Some (Some X) -> aleb (S0 lo (ifs ++ LB) d) X = true ->
    (bo = Z.of_nat p - Z.of_nat PL)%Z -> PL <= p ->
    (ao = Z.of_nat PX - Z.of_nat (p + sl (length ifs) s))%Z -> p + sl (length ifs) s <= PX -> PX <= length C ->
    nth_error A PL = Some (Some XL) -> aleb (S0 lo LB d) XL = true ->
    nth_error A PX = Some (Some XX) -> aleb (S0 lo LB d) XX = true ->
    ok C A p (sl (length ifs) s).

Ltac sprep :=
  unfold zlen in *; segs; change (to_shape []) with (@nil Bytecode.instr) in *;
  rewrite ?to_shape_len, ?ann_expr_len, ?compile_stmt_len, ?ann_stmt_len, ?ann_pops_len, ?pops_len, ?ssize_sl, ?app_length in *;
  cbn [length] in *; heads.

Ltac okpos Q := match goal with |- ok _ _ ?q _ => first [constr_eq q Q | replace q with Q by lia] end.

Lemma stmt_ok : forall s, stmt_okP s.
Proof.
  induction s; unfold stmt_okP in *;
    intros C A p lo ifs LB d bo ao PL PX X XL XX HC HA HF HX HXle Hbo HPL Hao HPX HPXle HL HLle HXX HXXle;
    cbn [compile_stmt ann_stmt sl] in *.
  - (* SNop *) apply ok_nil.
  - (* SExpr *)
    eapply expr_ok; [pos|pos|lia|pos|]. eapply aleb_mono; [exact HXle|lia].
  - (* SSeq *)
    sprep. set (na := sl (length ifs) s1) in *. set (nb := sl (length ifs) s2) in *.
    match goal with H : at_seg A (p + na) (ann_stmt s2 _ _ _ _) |- _ =>
      destruct (stmt_entry s2 A (p + na) lo ifs LB d X H) as [X' [HX' HX'le]]; [pos|exact HXle|] end.
    apply (ok_split _ _ _ _ na nb); [lia| |].
    + eapply IHs1 with (PL := PL) (PX := PX); [pos|pos|exact HF|pos|exact HX'le|lia|lia|fold na; lia|fold na; lia|lia|
                                                exact HL|exact HLle|exact HXX|exact HXXle].
    + eapply IHs2 with (PL := PL) (PX := PX); [pos|pos|exact HF|pos|exact HXle|lia|lia|fold nb; lia|fold nb; lia|lia|
                                                exact HL|exact HLle|exact HXX|exact HXXle].
  - (* SIf *)
    sprep. set (nc := length (compile_expr c)) in *.
    set (nt := sl (S (length ifs)) s1) in *. set (ne := sl (S (length ifs)) s2) in *.
    pose proof (IHs1 C A (p + nc + 2) lo (S lo :: ifs) LB d) as IT.
    pose proof (IHs2 C A (p + nc + 2 + nt + 1) lo (S lo :: ifs) LB d) as IE.
    cbn [length app] in IT, IE. fold nt in IT. fold ne in IE.
    destruct (stmt_entry s1 A (p + nc + 2) lo (S lo :: ifs) LB d (S0 lo (S lo :: ifs ++ LB) d)) as [XT [HXT HXTle]];
      [pos|cbn [length]; pos|apply aleb_st_refl|].
    destruct (stmt_entry s2 A (p + nc + 2 + nt + 1) lo (S lo :: ifs) LB d (S0 lo (S lo :: ifs ++ LB) d)) as [XE [HXE HXEle]];
      [pos|cbn [length]; pos|apply aleb_st_refl|].
    cbn [app] in HXTle, HXEle.
    apply (ok_split _ _ _ _ nc (1 + (1 + (nt + (1 + (ne + 1)))))); [lia| |].
    { eapply expr_ok; [pos|pos|lia|pos|wk]. }
    apply (ok_split _ _ _ _ 1 (1 + (nt + (1 + (ne + 1))))); [lia| |].
    { step_bpush. }
    apply (ok_split _ _ _ _ 1 (nt + (1 + (ne + 1)))); [lia| |].
    { step_jcond (p + nc + 2 + nt + 1). }
    apply (ok_split _ _ _ _ nt (1 + (ne + 1))); [lia| |].
    { okpos (p + nc + 2). eapply IT with (PL := PL) (PX := PX);
        [pos|pos|constructor; [lia|exact HF]|pos|wk|lia|lia|lia|lia|lia|exact HL|exact HLle|exact HXX|exact HXXle]. }
    apply (ok_split _ _ _ _ 1 (ne + 1)); [lia| |].
    { step_jmp (p + nc + 2 + nt + 1 + ne). }
    apply (ok_split _ _ _ _ ne 1); [lia| |].
    { okpos (p + nc + 2 + nt + 1). eapply IE with (PL := PL) (PX := PX);
        [pos|pos|constructor; [lia|exact HF]|pos|wk|lia|lia|lia|lia|lia|exact HL|exact HLle|exact HXX|exact HXXle]. }
    step_bpop.
  - (* SWhile *)
    sprep. set (nc := length (compile_expr c)) in *. set (nb := sl 0 s) in *.
    pose proof (IHs C A (p + 1 + nc + 1) lo [] (lo :: ifs ++ LB) d) as IB.
    cbn [length app] in IB. fold nb in IB.
    destruct (stmt_entry s A (p + 1 + nc + 1) lo [] (lo :: ifs ++ LB) d (S0 lo (lo :: ifs ++ LB) d)) as [XB [HXB HXBle]];
      [pos|cbn [length]; pos|apply aleb_st_refl|].
    cbn [app] in HXBle.
    apply (ok_split _ _ _ _ 1 (nc + (1 + (nb + (1 + 1))))); [lia| |].
    { step_bpush. }
    apply (ok_split _ _ _ _ nc (1 + (nb + (1 + 1)))); [lia| |].
    { eapply expr_ok; [pos|pos|lia|pos|wk]. }
    apply (ok_split _ _ _ _ 1 (nb + (1 + 1))); [lia| |].
    { step_jcond (p + 1 + nc + 1 + nb + 1). }
    apply (ok_split _ _ _ _ nb (1 + 1)); [lia| |].
    { okpos (p + 1 + nc + 1). eapply IB with (PL := p + 1) (PX := p + 1 + nc + 1 + nb + 1);
        [pos|pos|constructor|pos|wk|lia|lia|lia|lia|lia|pos|wk|pos|wk]. }
    apply (ok_split _ _ _ _ 1 1); [lia| |].
    { step_jmp (p + 1). }
    step_bpop.
  - (* SBreak *)
    sprep.
    apply (ok_split _ _ _ _ (length ifs) 1); [lia| |].
    + eapply pops_ok; [pos|pos|pos].
    + step_jmp PX. apply lo_after_ge; [lia|exact HF].
  - (* SContinue *)
    sprep.
    apply (ok_split _ _ _ _ (length ifs) 1); [lia| |].
    + eapply pops_ok; [pos|pos|pos].
    + step_jmp PL. apply lo_after_ge; [lia|exact HF].
Qed.

End Flags.

(* ================================================================ whole programs *)
Lemma all_ok_intro {X} (f : X -> bool) l : (forall x, In x l -> f x = true) -> all_ok f l = true.
Proof.
  induction l as [|y r IH]; intro H; cbn [all_ok]; [reflexivity|].
  rewrite (H y (or_introl eq_refl)). apply IH. intros x Hx. apply H. right. exact Hx.
Qed.

(* the whole program: statements, then halt; nothing is known on entry *)
Definition annot (p : stmt) : annotation := ann_stmt false false p 0 [] [] 0 ++ [Some (st 0 [] 0 false false)].

(* MAIN THEOREM: the explicit annotation of every program of the fragment is accepted by the
   checker.  No side condition: every `stmt` of Model/Ast.v, of any size and nesting depth, including
   break / continue outside a loop (at top level they jump to halt / to the first instruction). *)
Theorem compile_check : forall p : stmt, check (to_shape (compile p)) (annot p) = true.
Proof.
  intro p. unfold check, compile, annot.
  set (C := to_shape (compile_stmt 0 0 0 p ++ [I OpHalt ONil])).
  set (A := ann_stmt false false p 0 [] [] 0 ++ [Some (st 0 [] 0 false false)]).
  assert (HC : at_seg C 0 (to_shape (compile_stmt 0 0 0 p))).
  { subst C. rewrite to_shape_app. apply (at_seg_mid [] _ _). }
  assert (HA : at_seg A 0 (ann_stmt false false p 0 [] [] 0)) by apply (at_seg_mid [] _ _).
  assert (HH : nth_error A (sl 0 p) = Some (Some (st 0 [] 0 false false))).
  { subst A. rewrite nth_error_app2; rewrite ann_stmt_len; cbn [length]; [|lia]. rewrite Nat.sub_diag. reflexivity. }
  assert (HCh : nth_error C (sl 0 p) = Some (shp_instr (I OpHalt ONil))).
  { subst C. rewrite to_shape_app. rewrite nth_error_app2; rewrite to_shape_len, compile_stmt_len; [|lia].
    rewrite Nat.sub_diag. reflexivity. }
  assert (LC : length C = sl 0 p + 1).
  { subst C. rewrite to_shape_len, app_length, compile_stmt_len. reflexivity. }
  destruct (stmt_entry false false p A 0 0 [] [] 0 (st 0 [] 0 false false) HA HH (aleb_st_refl _ _ _ _ _)) as [X0 [HX0 HX0le]].
  rewrite HX0. change a_init with (st 0 [] 0 false false). cbn [app] in HX0le. rewrite HX0le.
  apply all_ok_intro. intros q Hq. apply in_seq in Hq. rewrite LC in Hq.
  destruct (Nat.lt_ge_cases q (sl 0 p)) as [Hlt|Hge].
  - pose proof (stmt_ok false false p C A 0 0 [] [] 0 0%Z 0%Z 0 (sl 0 p) (st 0 [] 0 false false) X0 (st 0 [] 0 false false)) as Hs.
    cbn [length app Nat.add] in Hs.
    apply Hs; try assumption; try apply aleb_st_refl; try lia. constructor.
  - replace q with (sl 0 p) by lia. eapply ck_halt; [exact HCh|exact HH|reflexivity].
Qed.

Corollary compile_checked : forall p : stmt, exists a, check (to_shape (compile p)) a = true.
Proof. intro p. exists (annot p). apply compile_check. Qed.

(* hence (soundness of the checker, Proofs/VerifyProofs.v): on no path -- whatever the outcomes of the
   conditional jumps -- does compiled code pop an empty stack, jump outside [0, len], meet an
   ill-typed operand, close a block that is not open, or use dice / detail / lastPop state nobody
   set up *)
Corollary compile_never_stuck :
  forall (p : stmt) s, reachable (to_shape (compile p)) s -> forall r, sstep (to_shape (compile p)) s <> Stuck r.
Proof. intros p. exact (no_stuck_reachable _ _ (compile_check p)). Qed.

(* every reachable state is described by the annotation *)
Corollary compile_reachable_consistent :
  forall (p : stmt) s, reachable (to_shape (compile p)) s -> consistent (annot p) s.
Proof. intros p. exact (reachable_consistent _ _ (compile_check p)). Qed.

(* every instruction is reached with one fixed number of open blocks, whatever the path *)
Corollary compile_block_depth_unique :
  forall (p : stmt) s1 s2, reachable (to_shape (compile p)) s1 -> reachable (to_shape (compile p)) s2 -> pc s1 = pc s2 ->
  length (blocks s1) = length (blocks s2) /\ length (fblocks s1) = length (fblocks s2).
Proof. intros p. exact (block_depth_unique _ _ (compile_check p)). Qed.

(* the fragment defines no functions: the program is its only subprogram *)
Lemma to_shape_subprogram c b : subprogram (to_shape c) b -> b = to_shape c.
Proof.
  intro H. remember (to_shape c) as C eqn:EC. induction H as [|C c' t n o b S IH Hin]; [reflexivity|].
  specialize (IH EC). subst c' C. unfold to_shape in Hin. apply in_map_iff in Hin.
  destruct Hin as [i [Hi _]]. discriminate Hi.
Qed.

Corollary compile_all_never_stuck :
  forall (p : stmt) b, subprogram (to_shape (compile p)) b ->
  forall s, reachable b s -> forall r, sstep b s <> Stuck r.
Proof. intros p b Hb. rewrite (to_shape_subprogram _ _ Hb). apply compile_never_stuck. Qed.

(* the decoded program uses the numbering and the mnemonics of Model/Bytecode.v *)
Corollary compile_names_ok : forall p : stmt, names_ok (to_shape (compile p)) = true.
Proof. intro p. apply to_shape_names. Qed.

Print Assumptions compile_check.
Print Assumptions compile_never_stuck.
Print Assumptions compile_block_depth_unique.
Print Assumptions compile_all_never_stuck.

(* ================================================================ non-vacuity / cross-checks *)
Module CVExamples.
  Open Scope string_scope.
  (* every construct of the fragment: assignment, while, if / else, break and continue under open
     `if` blocks, nested dice, ||, ternary, array literal with a ternary element, indexing, unary *)
  Definition ex_all : stmt :=
    SSeq (SExpr (EAssign "i" (EInt 0)))
     (SSeq (SWhile (EBin BLt (EVar "i") (EInt 5))
             (SSeq (SExpr (EAssign "i" (EBin BAdd (EVar "i") (EInt 1))))
               (SSeq (SIf (EBin BEq (EVar "i") (EInt 2)) SBreak (SIf (EVar "i") SContinue SNop))
                     (SExpr (EAssign "r" (ERoll (EInt 2) (ERoll (EInt 1) (EInt 6))))))))
           (SExpr (EOr (ETern (EVar "r")
                              (EArr [EInt 1; ETern (EInt 1) (EInt 2) (EInt 3); EIdx (EArr [EInt 1]) (EInt 0)])
                              ENull)
                       (EUn UNeg (EStr "a"))))).

  (* the inference of Model/Verify.v accepts it too, and the explicit annotation is weaker than
     (or equal to) nothing the checker needs: both are accepted *)
  Example ex_all_accepted :
    verify (to_shape (compile ex_all)) = true /\ check (to_shape (compile ex_all)) (annot ex_all) = true /\
    List.length (compile ex_all) = 68.
  Proof. repeat split; vm_compute; reflexivity. Qed.

  (* the translation yields the dump format of Model/Bytecode.v: `i = 0; while i < 5 { i = i + 1 }` *)
  Definition B (t : nat) (n : string) (o : Bytecode.operand) : Bytecode.instr := Instr (N.of_nat t) n o None.
  Example ex_while_shape :
    to_shape (compile (SSeq (SExpr (EAssign "i" (EInt 0)))
                            (SWhile (EBin BLt (EVar "i") (EInt 5)) (SExpr (EAssign "i" (EBin BAdd (EVar "i") (EInt 1)))))))
    = [ B 0 "push.int" (PInt 0); B 17 "store" PStr; B 82 "block.push" PNil; B 71 "mark.detail" PSpan; B 15 "ld.d" PStr;
        B 0 "push.int" (PInt 5); B 35 "comp.lt" PNil; B 77 "jne" (PInt 6); B 71 "mark.detail" PSpan; B 15 "ld.d" PStr;
        B 0 "push.int" (PInt 1); B 28 "add" PNil; B 17 "store" PStr; B 75 "jmp" (PInt (-11)); B 83 "block.pop" PNil;
        B 70 "halt" PNil ].
  Proof. vm_compute. reflexivity. Qed.

  (* break / continue outside any loop, and an empty program *)
  Example ex_toplevel_jumps :
    verify (to_shape (compile (SSeq (SIf ETrue SBreak SContinue) SContinue))) = true /\
    verify (to_shape (compile SNop)) = true.
  Proof. split; vm_compute; reflexivity. Qed.
End CVExamples.
