(* Proofs about Model/Detail.v: no panic, shape of the process text (forward splice), stripping the
   annotations, purity/idempotence of GetDetailText. *)
From Coq Require Import String Ascii NArith ZArith List Bool Lia Arith.
From Coq Require Import ZifyBool ZifyNat.
From DS Require Import Model.Str Model.Detail.
Import ListNotations.
Open Scope string_scope.

(* ------------------------------------------------------------------ byte strings *)
Lemma sapp_nil_r (s : string) : s ++ "" = s.
Proof. induction s; cbn; congruence. Qed.
Lemma sapp_assoc3 (a b c : string) : (a ++ b) ++ c = a ++ (b ++ c).
Proof. induction a; cbn; congruence. Qed.
Lemma slen_app (a b : string) : String.length (a ++ b) = String.length a + String.length b.
Proof. induction a; cbn; congruence. Qed.

Lemma stake_sdrop n s : stake n s ++ sdrop n s = s.
Proof. revert s; induction n; intros [|c r]; cbn; try reflexivity. now rewrite IHn. Qed.
Lemma slen_stake n s : n <= String.length s -> String.length (stake n s) = n.
Proof. revert s; induction n; intros [|c r]; cbn; intros; try lia. rewrite IHn; lia. Qed.
Lemma slen_sdrop n s : String.length (sdrop n s) = String.length s - n.
Proof. revert s; induction n; intros [|c r]; cbn; try lia. apply IHn. Qed.
Lemma stake_app_exact a b : stake (String.length a) (a ++ b) = a.
Proof. induction a; cbn; [destruct b; reflexivity| congruence]. Qed.
Lemma sdrop_app_exact a b : sdrop (String.length a) (a ++ b) = b.
Proof. induction a; cbn; auto. Qed.
Lemma stake_stake n m s : n <= m -> stake n (stake m s) = stake n s.
Proof.
  revert m s; induction n; intros m s H; [destruct (stake m s); reflexivity|].
  destruct m; [lia|]. destruct s; cbn; [reflexivity|]. rewrite IHn; [reflexivity|lia].
Qed.
Lemma sdrop_sdrop n m s : sdrop n (sdrop m s) = sdrop (m + n) s.
Proof.
  revert s; induction m; intros s; cbn; [reflexivity|].
  destruct s; [destruct n; reflexivity|]. apply IHm.
Qed.
Lemma sdrop_stake n m s : sdrop n (stake m s) = stake (m - n) (sdrop n s).
Proof.
  revert m s; induction n; intros m s; cbn.
  - now rewrite Nat.sub_0_r.
  - destruct m; cbn; [destruct (sdrop (S n) s); destruct s; reflexivity|].
    destruct s; cbn; [destruct (m - n); reflexivity|]. apply IHn.
Qed.
Lemma stake_all n s : String.length s <= n -> stake n s = s.
Proof. revert s; induction n; intros [|c r]; cbn; intros; try reflexivity; try lia. rewrite IHn; [reflexivity|lia]. Qed.

(* s[p:] = s[p:q] ++ s[q:] *)
Lemma sdrop_split s p q : p <= q -> sdrop p s = ssub s p q ++ sdrop q s.
Proof.
  intros H. unfold ssub. replace q with (p + (q - p)) at 2 by lia.
  rewrite <- sdrop_sdrop. now rewrite stake_sdrop.
Qed.
(* s[p:b] = s[p:q] ++ s[q:b] *)
Lemma ssub_split s p q b : p <= q -> q <= b -> ssub s p b = ssub s p q ++ ssub s q b.
Proof.
  intros H1 H2. unfold ssub.
  replace (stake (q - p) (sdrop p s)) with (stake (q - p) (stake (b - p) (sdrop p s))) by (apply stake_stake; lia).
  replace (stake (b - q) (sdrop q s)) with (sdrop (q - p) (stake (b - p) (sdrop p s))).
  - now rewrite stake_sdrop.
  - rewrite sdrop_stake, sdrop_sdrop. f_equal; [lia|f_equal; lia].
Qed.
Lemma ssub_0 s q : ssub s 0 q = stake q s.
Proof. unfold ssub. cbn. now rewrite Nat.sub_0_r. Qed.
(* reading below q only depends on the first q bytes *)
Lemma ssub_stake s q b e : e <= q -> ssub (stake q s) b e = ssub s b e.
Proof.
  intros H. unfold ssub. rewrite sdrop_stake. apply stake_stake. lia.
Qed.
Lemma ssub_agree s t q b e : stake q s = stake q t -> e <= q -> ssub s b e = ssub t b e.
Proof. intros E H. rewrite <- (ssub_stake s q b e H), <- (ssub_stake t q b e H). now rewrite E. Qed.
Lemma stake_len_ge s t q : stake q s = stake q t -> q <= String.length t -> q <= String.length s.
Proof.
  intros E H. assert (L : String.length (stake q s) = q) by (rewrite E; apply slen_stake; exact H).
  clear E. revert s L. induction q; intros s L; [lia|].
  destruct s; cbn in L; [discriminate|]. cbn. apply le_n_S. apply IHq; [lia|]. lia.
Qed.

(* ------------------------------------------------------------------ forward splice *)
Definition repl : Type := (nat * nat * string)%type.
Fixpoint ranges_ok (len p : nat) (l : list repl) : Prop :=
  match l with
  | [] => p <= len
  | (b, e, _) :: l' => p <= b /\ b <= e /\ ranges_ok len e l'
  end.
Definition first_b (len : nat) (l : list repl) : nat :=
  match l with [] => len | (b, _, _) :: _ => b end.

Lemma ranges_ok_le len p l : ranges_ok len p l -> p <= first_b len l /\ first_b len l <= len.
Proof.
  revert p; induction l as [|[[b e] r] l IH]; cbn; intros p H; [lia|].
  destruct H as (H1 & H2 & H3). apply IH in H3. cbn in *. destruct l as [|[[b' e'] r'] l']; cbn in *; lia.
Qed.

Lemma splice_shift src p q l :
  p <= q -> q <= first_b (String.length src) l -> splice src p l = ssub src p q ++ splice src q l.
Proof.
  intros H1 H2. destruct l as [|[[b e] r] l']; cbn in *.
  - apply sdrop_split; exact H1.
  - rewrite (ssub_split src p q b) by lia. now rewrite sapp_assoc3.
Qed.

(* the first q bytes (q up to the first replaced range) are those of the source; the rest is the splice from q *)
Lemma splice_prefix src q l :
  q <= first_b (String.length src) l -> first_b (String.length src) l <= String.length src ->
  stake q (splice src 0 l) = stake q src /\ sdrop q (splice src 0 l) = splice src q l.
Proof.
  intros H1 H2. rewrite (splice_shift src 0 q l) by lia. rewrite ssub_0.
  assert (L : String.length (stake q src) = q) by (apply slen_stake; lia).
  split.
  - rewrite <- L at 1. apply stake_app_exact.
  - rewrite <- L at 1. apply sdrop_app_exact.
Qed.

(* ------------------------------------------------------------------ sorting by End *)
Lemma insert_end_Forall (P : span -> Prop) x l : P x -> Forall P l -> Forall P (insert_end x l).
Proof.
  intros Hx H. induction H; cbn; [constructor; auto|].
  destruct (sp_e x <=? sp_e x0)%Z; constructor; auto.
Qed.
Lemma sort_end_Forall (P : span -> Prop) l : Forall P l -> Forall P (sort_end l).
Proof. induction 1; cbn; [constructor|]. apply insert_end_Forall; auto. Qed.
Lemma insert_end_length x l : length (insert_end x l) = S (length l).
Proof. induction l; cbn; [reflexivity|]. destruct (sp_e x <=? sp_e a)%Z; cbn; congruence. Qed.
Lemma sort_end_length l : length (sort_end l) = length l.
Proof. induction l; cbn; [reflexivity|]. rewrite insert_end_length. congruence. Qed.
Lemma removelast_Forall {A} (P : A -> Prop) l : Forall P l -> Forall P (removelast l).
Proof. induction 1; cbn; [constructor|]. destruct l; [constructor|]. constructor; auto. Qed.
Lemma last_Forall {A} (P : A -> Prop) l d : Forall P l -> l <> [] -> P (last l d).
Proof.
  induction 1; intros Hn; [congruence|]. destruct l; cbn; [exact H|]. apply IHForall. discriminate.
Qed.

(* ------------------------------------------------------------------ the grouping loop *)
Section Groups.
  Variable offset : Z.

  Definition span_in (hi : Z) (s : span) : Prop := (0 <= sp_b s /\ sp_b s <= sp_e s /\ sp_e s <= hi)%Z.
  Definition group_ok (g : group) : Prop :=
    g_spans g <> [] /\ (0 <= g_b g /\ g_b g <= g_e g /\ g_e g <= offset)%Z /\ Forall (span_in (g_e g)) (g_spans g).

  (* reversed list: the head is the latest group; consecutive groups are strictly separated *)
  Fixpoint sep_chain (m : list group) : Prop :=
    match m with
    | g :: (g' :: _) as r => (g_e g' < g_b g)%Z /\ sep_chain r
    | _ => True
    end.
  Definition last_end_of (m : list group) : Z := match m with [] => (-1)%Z | g :: _ => g_e g end.

  Lemma span_in_mono hi hi' s : (hi <= hi')%Z -> span_in hi s -> span_in hi' s.
  Proof. unfold span_in; lia. Qed.

  Lemma build_groups_inv l : forall m,
    Forall group_ok m -> sep_chain m ->
    exists m', build_groups offset l (last_end_of m) m = GOk m' /\ Forall group_ok m' /\ sep_chain m'.
  Proof.
    induction l as [|i r IH]; intros m Hok Hsep; cbn [build_groups].
    - exists m. auto.
    - destruct (span_skipped offset i) eqn:Esk; [apply IH; assumption|].
      unfold span_skipped in Esk.
      assert (Hi : (0 <= sp_b i /\ sp_b i <= sp_e i /\ sp_e i <= offset)%Z) by lia. clear Esk.
      destruct (last_end_of m <? sp_b i)%Z eqn:Enew.
      + (* a new group *)
        assert (E : (if (last_end_of m <? sp_e i)%Z then sp_e i else last_end_of m) = sp_e i).
        { destruct (last_end_of m <? sp_e i)%Z eqn:E1; [reflexivity|lia]. }
        rewrite E.
        change (sp_e i) with (last_end_of (mkGroup (sp_b i) (sp_e i) (sp_tag i) [i] :: m)) at 1.
        apply IH.
        * constructor; [|exact Hok]. unfold group_ok; cbn. split; [discriminate|]. split; [lia|].
          constructor; [unfold span_in; lia|constructor].
        * destruct m as [|g m0]; cbn; [exact I|]. cbn in Enew. split; [lia|exact Hsep].
      + (* joins the latest group *)
        destruct m as [|g m0]; [cbn in Enew; lia|]. cbn [last_end_of] in *.
        set (e' := if (g_e g <? sp_e i)%Z then sp_e i else g_e g).
        change e' with (last_end_of (mkGroup (g_b g) e' (g_tag g) (g_spans g ++ [i]) :: m0)) at 1.
        inversion Hok as [|? ? Hg Hm0]; subst.
        destruct Hg as (Hne & Hb & Hsp).
        assert (He' : (g_e g <= e' /\ sp_e i <= e' /\ e' <= offset)%Z) by (unfold e'; destruct (g_e g <? sp_e i)%Z eqn:E1; lia).
        apply IH.
        * constructor; [|exact Hm0]. unfold group_ok; cbn. split; [destruct (g_spans g); discriminate|].
          split; [lia|]. apply Forall_app. split.
          -- eapply Forall_impl; [|exact Hsp]. intros s Hs. eapply span_in_mono; [|exact Hs]. lia.
          -- constructor; [unfold span_in; lia|constructor].
        * destruct m0 as [|g' m1]; cbn; [exact I|]. cbn in Hsep. exact Hsep.
  Qed.
End Groups.

Lemma build_groups_ok offset spans :
  exists m, build_groups offset spans (-1)%Z [] = GOk m /\ Forall (group_ok offset) m /\ sep_chain m.
Proof. apply (build_groups_inv offset spans []); [constructor|exact I]. Qed.

(* ------------------------------------------------------------------ one rendering step *)
Lemma map_ext_Forall {A B} (f g : A -> B) l : Forall (fun x => f x = g x) l -> map f l = map g l.
Proof. induction 1; cbn; congruence. Qed.

Lemma annotation_agree n s t q g :
  stake q s = stake q t -> Forall (span_in (g_e g)) (g_spans g) -> (0 <= g_e g)%Z -> Z.to_nat (g_e g) <= q ->
  annotation n s g = annotation n t g.
Proof.
  intros E Hsp H0 Hq. unfold annotation, annotation_with.
  assert (Hb : ssub s (Z.to_nat (g_b g)) (Z.to_nat (g_e g)) = ssub t (Z.to_nat (g_b g)) (Z.to_nat (g_e g)))
    by (eapply ssub_agree; eauto).
  assert (Hm : map (fun x => ssub s (Z.to_nat (sp_b x)) (Z.to_nat (sp_e x)) ++ "=" ++ sp_ret x) (removelast (sort_end (g_spans g)))
             = map (fun x => ssub t (Z.to_nat (sp_b x)) (Z.to_nat (sp_e x)) ++ "=" ++ sp_ret x) (removelast (sort_end (g_spans g)))).
  { apply map_ext_Forall. apply removelast_Forall. apply sort_end_Forall.
    eapply Forall_impl; [|exact Hsp]. intros x Hx. cbv beta. f_equal.
    eapply ssub_agree; [exact E|]. unfold span_in in Hx. lia. }
  rewrite Hb, Hm. reflexivity.
Qed.

Lemma slices_ok_true offset s g :
  group_ok offset g -> Z.to_nat (g_e g) <= String.length s -> slices_ok s g = true.
Proof.
  intros (Hne & Hb & Hsp) Hl. unfold slices_ok.
  apply andb_true_iff. split; [lia|].
  apply forallb_forall. intros x Hx.
  assert (F : Forall (span_in (g_e g)) (removelast (sort_end (g_spans g))))
    by (apply removelast_Forall, sort_end_Forall; exact Hsp).
  rewrite Forall_forall in F. specialize (F x Hx). unfold span_in in F. lia.
Qed.

Lemma render_group_nonempty n cur g :
  g_spans g <> [] ->
  render_group n (DText cur) g =
  if slices_ok cur g then
    DText (stake (Z.to_nat (g_b g)) cur ++ group_ret g ++ annotation n cur g ++ sdrop (Z.to_nat (g_e g)) cur)
  else DPanic.
Proof. intros H. unfold render_group. destruct (g_spans g); [congruence|reflexivity]. Qed.

Lemma render_step offset n src g l :
  group_ok offset g -> (offset <= Z.of_nat (String.length src))%Z ->
  ranges_ok (String.length src) 0 l -> Z.to_nat (g_e g) <= first_b (String.length src) l ->
  render_group n (DText (splice src 0 l)) g = DText (splice src 0 (replacement n src g :: l)).
Proof.
  intros Hg Hoff Hr Hq. pose proof Hg as (Hne & Hb & Hsp).
  apply ranges_ok_le in Hr. destruct Hr as [_ Hfl].
  destruct (splice_prefix src (Z.to_nat (g_e g)) l Hq Hfl) as [P1 P2].
  rewrite render_group_nonempty by exact Hne.
  rewrite (slices_ok_true offset); [|exact Hg|eapply stake_len_ge; [exact P1|lia]].
  f_equal. unfold replacement. cbn [splice]. rewrite ssub_0.
  rewrite (annotation_agree n (splice src 0 l) src (Z.to_nat (g_e g)) g P1 Hsp) by lia.
  rewrite P2.
  replace (stake (Z.to_nat (g_b g)) (splice src 0 l)) with (stake (Z.to_nat (g_b g)) src).
  - now rewrite !sapp_assoc3.
  - rewrite <- (stake_stake (Z.to_nat (g_b g)) (Z.to_nat (g_e g)) (splice src 0 l)) by lia.
    rewrite P1. symmetry. apply stake_stake. lia.
Qed.

Lemma fold_render offset n src : forall m l,
  Forall (group_ok offset) m -> sep_chain m -> (offset <= Z.of_nat (String.length src))%Z ->
  ranges_ok (String.length src) 0 l ->
  Z.to_nat (last_end_of m) <= first_b (String.length src) l ->
  (m <> [] -> l <> [] -> Z.to_nat (last_end_of m) < first_b (String.length src) l) ->
  fold_left (render_group n) m (DText (splice src 0 l)) =
  DText (splice src 0 (map (replacement n src) (rev m) ++ l)) /\
  ranges_ok (String.length src) 0 (map (replacement n src) (rev m) ++ l).
Proof.
  induction m as [|g m IH]; intros l Hok Hsep Hoff Hr Hq Hq'; cbn [fold_left rev map app].
  - split; [reflexivity|exact Hr].
  - inversion Hok as [|? ? Hg Hm]; subst. cbn [last_end_of] in Hq.
    rewrite (render_step offset n src g l Hg Hoff Hr Hq).
    pose proof Hg as (Hne & Hb & Hsp).
    assert (Hsep' : sep_chain m /\ (m <> [] -> (last_end_of m < g_b g)%Z)).
    { destruct m as [|g' m']; cbn in *; [split; [exact I|congruence]|]. destruct Hsep. split; [assumption|intros _; lia]. }
    destruct Hsep' as [Hs1 Hs2].
    destruct (IH (replacement n src g :: l)) as [E R]; try assumption.
    + cbn. repeat split; try lia. apply ranges_ok_le in Hr as Hr'.
      destruct l as [|[[b e] r] l']; cbn in *; [lia|]. repeat split; try lia. tauto.
    + unfold replacement. cbn [first_b]. destruct m as [|g' m']; [cbn; lia|].
      specialize (Hs2 ltac:(discriminate)). cbn [last_end_of] in *. lia.
    + intros Hm' _. unfold replacement. cbn [first_b]. specialize (Hs2 Hm'). destruct m; [congruence|].
      cbn [last_end_of] in *. inversion Hm as [|? ? Hg' ?]; subst. destruct Hg' as (_ & Hb' & _). lia.
    + rewrite E. rewrite map_app. cbn [map]. rewrite <- !app_assoc. cbn [app]. split; [reflexivity|].
      rewrite map_app in R. cbn [map] in R. rewrite <- app_assoc in R. exact R.
Qed.

(* ------------------------------------------------------------------ no panic + shape, for ALL span lists *)
Theorem detail_shape_all data offset spans ret :
  offset <= String.length data ->
  let src := stake offset data in
  let gs := groups_of offset spans in
  make_detail_res data offset spans ret =
    DText (finish (splice src 0 (map (replacement (length gs) src) gs)) ret).
Proof.
  intros Hoff src gs. unfold make_detail_res.
  replace (Nat.leb offset (String.length data)) with true by (symmetry; apply Nat.leb_le; exact Hoff).
  cbn [negb]. subst gs. unfold groups_of.
  destruct (build_groups_ok (Z.of_nat offset) spans) as (m & Em & Hok & Hsep). rewrite Em.
  assert (Hl : String.length src = offset) by (apply slen_stake; exact Hoff).
  assert (S0 : DText src = DText (splice src 0 [])) by (cbn; reflexivity).
  fold src. rewrite S0.
  destruct (fold_render (Z.of_nat offset) (length m) src m [] Hok Hsep) as [E _]; try (cbn; lia).
  - cbn. destruct m as [|g m']; cbn; [lia|]. inversion Hok as [|? ? Hg ?]; subst. destruct Hg as (_ & Hb & _). lia.
  - intros _ Hn. congruence.
  - rewrite E. rewrite app_nil_r, rev_length. reflexivity.
Qed.

Theorem make_detail_no_panic data offset spans ret :
  offset <= String.length data -> make_detail_res data offset spans ret <> DPanic.
Proof. intros H. rewrite detail_shape_all by exact H. discriminate. Qed.

(* what the groups are: inside [0, offset], strictly separated, in increasing order; every span of a group lies
   inside the group; nothing but skipped spans is lost *)
Fixpoint sep_fwd (l : list group) : Prop :=
  match l with
  | g :: (g' :: _) as r => (g_e g < g_b g')%Z /\ sep_fwd r
  | _ => True
  end.
Lemma sep_chain_rev m : sep_chain m -> sep_fwd (rev m).
Proof.
  assert (G : forall m acc, sep_chain m -> sep_fwd acc ->
             (forall g a, hd_error m = Some g -> hd_error acc = Some a -> (g_e g < g_b a)%Z) ->
             sep_fwd (rev_append m acc)).
  { induction m0 as [|g m0 IH]; intros acc H1 H2 H3; cbn; [exact H2|].
    apply IH.
    - destruct m0; cbn in *; [exact I|tauto].
    - destruct acc as [|a acc']; cbn; [exact I|]. split; [apply H3; reflexivity|exact H2].
    - intros g' a Hg' Ha. cbn in Ha. inversion Ha; subst. destruct m0; cbn in *; [discriminate|].
      inversion Hg'; subst. tauto. }
  intros H. rewrite rev_alt. apply G; [exact H|exact I|]. intros g a _ Ha. discriminate.
Qed.

Theorem groups_wf offset spans :
  let gs := groups_of offset spans in
  Forall (group_ok (Z.of_nat offset)) gs /\ sep_fwd gs.
Proof.
  cbn. unfold groups_of. destruct (build_groups_ok (Z.of_nat offset) spans) as (m & Em & Hok & Hsep). rewrite Em.
  split; [apply Forall_rev; exact Hok|apply sep_chain_rev; exact Hsep].
Qed.

(* concat of the groups' spans = the spans that pass the filter, in order *)
Lemma build_groups_concat offset l : forall lastEnd m m',
  build_groups offset l lastEnd m = GOk m' ->
  concat (map g_spans (rev m')) = concat (map g_spans (rev m)) ++ filter (fun s => negb (span_skipped offset s)) l.
Proof.
  induction l as [|i r IH]; intros lastEnd m m' H; cbn [build_groups filter] in *.
  - inversion H; subst. now rewrite app_nil_r.
  - destruct (span_skipped offset i) eqn:Esk; cbn [negb].
    + eapply IH; exact H.
    + destruct (lastEnd <? sp_b i)%Z.
      * apply IH in H. rewrite H. cbn [rev map]. rewrite map_app, concat_app. cbn. now rewrite <- !app_assoc.
      * destruct m as [|g m0]; [discriminate|]. apply IH in H. rewrite H. cbn [rev map].
        rewrite !map_app, !concat_app. cbn. rewrite !app_nil_r. now rewrite <- !app_assoc.
Qed.
Theorem groups_partition offset spans :
  concat (map g_spans (groups_of offset spans)) =
  filter (fun s => negb (span_skipped (Z.of_nat offset) s)) spans.
Proof.
  unfold groups_of. destruct (build_groups_ok (Z.of_nat offset) spans) as (m & Em & _). rewrite Em.
  apply build_groups_concat in Em. exact Em.
Qed.
