#!/bin/bash
# Run once after a fresh restore, offline: gate on forbidden Coq constructs, build the Go
# harness against /repo, regenerate the translator output (coq/Gen), build the whole Coq
# development (full .vo build).
set -e
cd "$(dirname "$0")"
export GOFLAGS=-mod=mod GOPROXY=off GOSUMDB=off GOTOOLCHAIN=local
# 1. gate: no axioms / admits / disabled checks anywhere in the development
if grep -rnE '\b(Admitted|admit|Axiom|Parameter|Conjecture|Admit Obligations)\b|Unset Guard|bypass_check|Unset Positivity|Unset Universe|type-in-type|impredicative-set' coq --include='*.v' | grep -v '^coq/Cases/' | grep -vE '\(\*.*(Admitted|admit|Axiom|Parameter).*\*\)' ; then
  echo "forbidden construct found in the Coq development" >&2; exit 1
fi
# 2. harness
mkdir -p .work/bin
cp /repo/go.sum harness/go.sum
(cd harness && go build -tags verif -o ../.work/bin/harness .)
# 3. translators: every generated file under coq/Gen (grammar + action table, package-variable footprint,
#    capacity constants) is rewritten from the current /repo, so a stale committed copy can never be built against
python3 tools/regen.py > .work/gen.log
# 4. Coq
cd coq
coq_makefile -f _CoqProject -o Makefile > /dev/null
timeout 3400 make -j16 > ../.work/setup.log 2>&1 || { tail -50 ../.work/setup.log; exit 1; }
cd ..
echo "setup ok"
