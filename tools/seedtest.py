#!/usr/bin/env python3
"""Confirm a seeded change (patch.diff + demo_test.go + meta.json) in a scratch worktree of /repo, store it under
/verif/seeded/<id>/, then apply it to /repo's working tree, run the given checks, and undo it.
usage: seedtest.py <seed-id> <dir-with-patch> <Cnn> [<Cnn> ...]"""
import json
import os
import shutil
import subprocess
import sys
import time

ENV = dict(os.environ, GOFLAGS="-mod=mod", GOPROXY="off", GOSUMDB="off", GOTOOLCHAIN="local")


def sh(cmd, cwd=None, timeout=1800):
    r = subprocess.run(cmd, shell=True, cwd=cwd, env=ENV, capture_output=True, text=True, timeout=timeout)
    return r.returncode, (r.stdout + r.stderr)


def main():
    sid, src, checks = sys.argv[1], sys.argv[2], sys.argv[3:]
    wt = f"/tmp/seedwt_{sid}"
    sh(f"git -C /repo worktree remove --force {wt}")
    rc, out = sh(f"git -C /repo worktree add -q {wt} HEAD")
    assert rc == 0, out
    result = {"confirmed": False}
    try:
        shutil.copy(os.path.join(src, "demo_test.go"), os.path.join(wt, "zz_seeded_demo_test.go"))
        rc0, o0 = sh("go test -vet=off -count=1 -run TestSeededDemo . 2>&1 | tail -5", cwd=wt)
        demo_passes_clean = " ok " in o0 or o0.strip().startswith("ok")
        rc, o = sh(f"git apply {os.path.join(src, 'patch.diff')}", cwd=wt)
        assert rc == 0, "patch does not apply: " + o
        rc1, o1 = sh("go test -vet=off -count=1 -run TestSeededDemo . 2>&1 | tail -8", cwd=wt)
        demo_fails_mut = "FAIL" in o1
        os.remove(os.path.join(wt, "zz_seeded_demo_test.go"))
        rc2, o2 = sh("go build ./... && go test -vet=off -count=1 ./... 2>&1 | tail -3", cwd=wt)
        suite_passes_mut = "FAIL" not in o2 and "ok" in o2
        result = {"confirmed": demo_passes_clean and demo_fails_mut and suite_passes_mut, "demo_passes_without": demo_passes_clean,
                  "demo_fails_with": demo_fails_mut, "suite_passes_with": suite_passes_mut, "demo_output_with_change": o1[-600:]}
    finally:
        sh(f"git -C /repo worktree remove --force {wt}")
    print(json.dumps(result, indent=1, ensure_ascii=False))
    if not result["confirmed"]:
        return 1
    dst = f"/verif/seeded/{sid}"
    os.makedirs(dst, exist_ok=True)
    for f in ("patch.diff", "demo_test.go"):
        shutil.copy(os.path.join(src, f), os.path.join(dst, f))
    meta = json.load(open(os.path.join(src, "meta.json")))
    meta["confirmed_by_me"] = {"how": "scratch worktree of /repo HEAD: demo passes without the change; with the change the demo fails and the unedited suite passes",
                               "repo_head": subprocess.run("git -C /repo rev-parse --short HEAD", shell=True, capture_output=True, text=True).stdout.strip()}
    # run the checks against /repo with the patch applied
    st = subprocess.run("git -C /repo status --porcelain", shell=True, capture_output=True, text=True).stdout.strip()
    assert st == "", "/repo working tree not clean: " + st
    rc, o = sh(f"git -C /repo apply {os.path.join(dst, 'patch.diff')}")
    assert rc == 0, o
    verdicts = {}
    try:
        for c in checks:
            t0 = time.time()
            r = subprocess.run(["./check", c, "--tier", "quick"], cwd="/verif", capture_output=True, text=True, timeout=3000)
            lines = [l for l in r.stdout.splitlines() if l.startswith("VIOLATION")]
            kinds = "missed"
            replay = None
            if lines:
                kinds = "no-failing-input-found" if all(l.endswith("no-failing-input-found") for l in lines) else "violation-with-replay"
                first = next((l for l in lines if not l.endswith("no-failing-input-found")), lines[0])
                path = first.split("replay=")[1].split()[0]
                try:
                    replay = json.load(open(path))
                    replay = {k: (v if len(str(v)) < 400 else str(v)[:400] + "...") for k, v in replay.items()}
                except Exception:
                    pass
            verdicts[c] = {"exit": r.returncode, "verdict": kinds, "violations": len(lines), "seconds": round(time.time() - t0, 1), "first_replay": replay}
            print(c, verdicts[c]["verdict"], verdicts[c]["violations"], f"{verdicts[c]['seconds']}s")
    finally:
        sh("git -C /repo checkout -- .")
        # leave neither a harness binary nor a generated Coq table (Gen/*.v) built from the changed tree behind
        sh("cd /verif && python3 tools/regen.py")
    meta["checks_run_against_it"] = verdicts
    json.dump(meta, open(os.path.join(dst, "meta.json"), "w"), indent=1, ensure_ascii=False)
    return 0


sys.exit(main())
