package main

import (
	"bufio"
	"encoding/base64"
	"encoding/json"
	"os"

	ds "github.com/sealdice/dicescript"
	"golang.org/x/exp/rand"
)

func seedBytes(r *rng) []byte {
	b := make([]byte, 16)
	for k := 0; k < 16; k += 8 {
		v := r.u64()
		for j := 0; j < 8; j++ {
			b[k+j] = byte(v >> (8 * j))
		}
	}
	return b
}

func perturbGlobal(r *rng) {
	g := ds.VerifGlobalRandSource()
	for k := 0; k < 1+r.intn(5); k++ {
		g.Uint64()
	}
	// an unrelated, unseeded VM rolling dice and shuffling
	vm := ds.NewVM()
	vm.Config.EnableDiceWoD, vm.Config.EnableDiceCoC, vm.Config.EnableDiceFate, vm.Config.EnableDiceDoubleCross = true, true, true, true
	vm.Config.OpCountLimit = 100000
	func() {
		defer func() { _ = recover() }()
		_ = vm.Run(pick(r, []string{"3d6", "2c8", "[1,2,3].shuffle()", "b2", "f", "5a9"}))
	}()
}

type c06Obs struct {
	Ok     bool   `json:"ok"`
	Err    string `json:"err"`
	Panic  string `json:"panic"`
	Str    string `json:"str"`
	Detail string `json:"detail"`
	Seed   string `json:"seed"` // GetCurSeed, hex
}

func c06Run(vm *ds.Context, src string) c06Obs {
	o := runScript(vm, src, true)
	sb, _ := vm.GetCurSeed()
	return c06Obs{Ok: o.Ok, Err: o.Err, Panic: o.Panic, Str: o.Str, Detail: o.Detail, Seed: hexs(sb)}
}

func hexs(b []byte) string {
	const d = "0123456789abcdef"
	out := make([]byte, 0, 2*len(b))
	for _, x := range b {
		out = append(out, d[x>>4], d[x&15])
	}
	return string(out)
}

// restoreVars: snapshot the variables to JSON and load them into a fresh VM — functions and computed values then have no
// compiled code and are compiled lazily on first use (a different code path that must use the same generator)
var restoreVars = false

// c06Mode: -1 / +1 = the seeded VMs compute the lower / upper bound (DiceMinMode / DiceMaxMode); dice draw nothing then,
// but the random array methods still draw — from the VM's own generator
var c06Mode = 0

func c06ApplyMode(vm *ds.Context) {
	vm.Config.DiceMinMode, vm.Config.DiceMaxMode = c06Mode < 0, c06Mode > 0
}

func seededVM(seed []byte, pre string) *ds.Context {
	vm := &ds.Context{Seed: append([]byte{}, seed...)}
	vm.Init()
	allOn().apply(vm)
	c06ApplyMode(vm)
	if pre != "" {
		func() {
			defer func() { _ = recover() }()
			_ = vm.Run(pre)
		}()
		if restoreVars {
			if js, err := vm.Attrs.ToJSON(); err == nil {
				vm2 := &ds.Context{Seed: append([]byte{}, seed...)}
				vm2.Init()
				allOn().apply(vm2)
				c06ApplyMode(vm2)
				if vm2.Attrs.UnmarshalJSON(js) == nil {
					vm = vm2
				}
			}
		}
		// re-seed so that the history's own dice do not matter
		src := &rand.PCGSource{}
		_ = src.UnmarshalBinary(seed)
		vm.RandSrc = src
	}
	return vm
}

func init() {
	// PCG marshal / unmarshal / draws against the model
	cmds["c06-pcg"] = func(args []string) {
		fs, seed, n := stdFlags("c06-pcg")
		fs.Parse(args)
		r := newRng(*seed)
		for k := 0; k < *n; k++ {
			sb := seedBytes(r)
			if k%10 == 9 {
				sb = sb[:r.intn(16)] // short seed: UnmarshalBinary fails, Init ignores the error -> zero state
			}
			vm := &ds.Context{Seed: sb}
			reused := k%3 == 1
			if reused {
				// a context that was seeded and used before: seeding it again must start the new sequence
				vm.Seed = seedBytes(r)
				vm.Init()
				for j := r.intn(4); j > 0; j-- {
					vm.RandSrc.Uint64()
				}
				_ = vm.Run("2d6 + d20")
				vm.Seed = sb
			}
			vm.Init()
			if vm.RandSrc == nil {
				// a context given a seed has its own generator, whatever the seed's length
				bytes := make([]int, len(sb))
				for j, b := range sb {
					bytes[j] = int(b)
				}
				emit(map[string]any{"seed": bytes, "nosrc": true, "reused": reused})
				continue
			}
			h0, l0 := srcState(vm.RandSrc)
			nd := r.intn(6)
			var outs []string
			for j := 0; j < nd; j++ {
				outs = append(outs, u(vm.RandSrc.Uint64()))
			}
			cur, _ := vm.GetCurSeed()
			h1, l1 := srcState(vm.RandSrc)
			bytes := make([]int, len(sb))
			for j, b := range sb {
				bytes[j] = int(b)
			}
			cb := make([]int, len(cur))
			for j, b := range cur {
				cb[j] = int(b)
			}
			row := map[string]any{"seed": bytes, "hi0": u(h0), "lo0": u(l0), "draws": outs, "cur": cb, "hi1": u(h1), "lo1": u(l1), "reused": reused}
			// the same seed on a fresh context (what "seeded evaluation" promises whatever the context was used for before)
			fresh := &ds.Context{Seed: sb}
			fresh.Init()
			if fresh.RandSrc != nil {
				fh, fl := srcState(fresh.RandSrc)
				row["fresh_hi0"], row["fresh_lo0"] = u(fh), u(fl)
			} else {
				row["fresh_nosrc"] = true
			}
			emit(row)
		}
	}

	// reproducibility / resumability / independence of the package generator (Go vs Go)
	cmds["c06"] = func(args []string) {
		fs, seed, _ := stdFlags("c06")
		fs.Parse(args)
		r := newRng(*seed)
		sc := bufio.NewScanner(os.Stdin)
		sc.Buffer(make([]byte, 1<<20), 1<<26)
		for sc.Scan() {
			var in struct {
				B64     string `json:"b64"`
				Pre     string `json:"pre"`
				Next    string `json:"next"`
				Restore bool   `json:"restore"`
				Mode    int    `json:"mode"`
			}
			if json.Unmarshal(sc.Bytes(), &in) != nil {
				continue
			}
			raw, _ := base64.StdEncoding.DecodeString(in.B64)
			pre, _ := base64.StdEncoding.DecodeString(in.Pre)
			next, _ := base64.StdEncoding.DecodeString(in.Next)
			restoreVars = in.Restore
			c06Mode = in.Mode
			sb := seedBytes(r)
			// pin the package-level generator so that a dependence on it is DETERMINISTIC in the stability test below
			pin := func(x uint64) {
				var b16 [16]byte
				for k := 0; k < 8; k++ {
					b16[k], b16[8+k] = byte(x>>(8*k)), byte((x*7+1)>>(8*k))
				}
				_ = ds.VerifGlobalRandSource().UnmarshalBinary(b16[:])
			}
			pinSeed := r.u64()
			pin(pinSeed)
			a := c06Run(seededVM(sb, string(pre)), string(raw))
			// the same again with NOTHING in between: a difference here is nondeterminism of the program itself
			// (Go map order visible through dict iteration), not interference
			unstable := false
			for k := 0; k < 3 && !unstable; k++ {
				pin(pinSeed)
				if a2 := c06Run(seededVM(sb, string(pre)), string(raw)); a2 != a {
					unstable = true
				}
			}
			pin(pinSeed + 12345)
			perturbGlobal(r)
			b := c06Run(seededVM(sb, string(pre)), string(raw))
			row := map[string]any{"a": a, "b": b, "same": a == b, "unstable": unstable}
			// resume: continue on the same VM vs a fresh VM seeded from GetCurSeed
			if a.Ok && len(next) > 0 {
				vm1 := seededVM(sb, string(pre))
				_ = c06Run(vm1, string(raw))
				c1 := c06Run(vm1, string(next))
				vm2 := seededVM(sb, string(pre))
				o2 := c06Run(vm2, string(raw))
				cur, _ := vm2.GetCurSeed()
				perturbGlobal(r)
				vm3 := &ds.Context{Seed: cur}
				vm3.Init()
				allOn().apply(vm3)
				c06ApplyMode(vm3)
				c3 := c06Run(vm3, string(next))
				row["resume_same"] = c1 == c3
				row["c1"], row["c3"], row["o2seed"] = c1, c3, o2.Seed
			}
			// seeding ONE context again from the SAME bytes (Seed re-assigned with equal content, Init) must give the run a fresh
			// context gives from these bytes: value, process text, final generator state
			if len(pre) == 0 {
				vmR := seededVM(sb, "")
				r1 := c06Run(vmR, string(raw))
				vmR.Seed = append([]byte{}, sb...)
				vmR.Init()
				r2 := c06Run(vmR, string(raw))
				row["reseed_same"] = r1 == r2 && r1 == a
				row["r1"], row["r2"] = r1, r2
			}
			emit(row)
		}
	}
}
