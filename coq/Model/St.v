(* C18 — the st command: edit lists, the code the st_* grammar actions emit for them, and the four
   st.* cases of the VM loop (rollvm.go, `case typeStSetName / typeStModify / typeStX0 / typeStX1`)
   with the CallbackSt invocations as the only output.  Executable definitions only.

   Strings are UTF-8 byte lists.  Values are abstract: enough to print the callback log. *)
From Coq Require Import NArith ZArith List Bool.
From DS Require Import Model.Str.
Import ListNotations.

Definition str := list N.
Open Scope N_scope.

(* ---- values as seen by the callback ------------------------------------------------------ *)
Inductive sval :=
| SInt (z : Z)            (* VMTypeInt, int64 *)
| SFloatBits (bits : N)   (* VMTypeFloat, IEEE-754 bits *)
| SStr (s : str)          (* VMTypeString *)
| SNull                   (* VMTypeNull: also what stackPop returns on an empty stack *)
| SComputed (text : str)  (* VMTypeComputedValue with source text Expr *)
| SOther (ty : N).        (* any other type (array, dict, function, ...): opaque *)

(* VMValue.OpNegation: ints (Go's wrapping unary minus) and floats (sign bit flipped); nil otherwise *)
Definition sign_bit : N := 9223372036854775808.
Definition neg (v : sval) : option sval :=
  match v with
  | SInt z => Some (SInt (wrap64 (- z)))
  | SFloatBits b => Some (SFloatBits (N.lxor b sign_bit))
  | _ => None
  end.

(* VMValue.ReadString: the payload of a string, "" for every other type *)
Definition read_string (v : sval) : str :=
  match v with SStr s => s | _ => [] end.

(* ---- edits ------------------------------------------------------------------------------ *)
(* the four written modification operators *)
Inductive mop := OpAdd | OpAddEq | OpSub | OpSubEq.

Definition s_plus : str := [43].      (* "+" *)
Definition s_minus : str := [45].     (* "-" *)
Definition s_minuseq : str := [45; 61]. (* "-=" *)

(* what the grammar action stores in StInfo.Op: AddStModify("+", …) for both `+` and `+=` *)
Definition op_text (o : mop) : str :=
  match o with OpAdd | OpAddEq => s_plus | OpSub => s_minus | OpSubEq => s_minuseq end.

(* `v` is the value the expression code leaves on the stack.  For `EMod OpSub` the captured
   expression is the text "-expr" (the minus sign is its first character) and v is ITS value. *)
Inductive edit :=
| ESet (name : str) (v : sval)                 (* name[:=]value, namevalue *)
| ESetX1 (name : str) (k v : sval)             (* name*k[:=]value *)
| ESetX0 (name : str) (v : sval)               (* name*[:=]value *)
| EComputed (name : str) (text : str)          (* &name[:=]expr *)
| EMod (o : mop) (name : str) (v : sval) (text : str).  (* name+expr name+=expr name-expr name-=expr *)

(* ---- the VM half ------------------------------------------------------------------------ *)
Inductive instr :=
| IPushName (s : str)          (* push.str emitted by st_name1/1r/2/2r *)
| IPushVal (v : sval)          (* stands for the expression code that leaves v *)
| IPushExtra (k : sval)        (* the code of the factor of `*k` *)
| IPushComputed (text : str)   (* push.computed (AddStoreComputedOnStack) *)
| IStSet                       (* st.set *)
| IStMod (op : str) (text : str)  (* st.mod with StInfo{Op, Text} *)
| IStX0                        (* st.x0 *)
| IStX1.                       (* st.x1 *)

Record callback := mkCb {
  cb_type : str; cb_name : str; cb_val : sval; cb_extra : option sval; cb_op : str; cb_text : str }.

Definition t_set : str := [115; 101; 116].                   (* "set" *)
Definition t_mod : str := [109; 111; 100].                   (* "mod" *)
Definition t_x0 : str := [115; 101; 116; 46; 120; 48].       (* "set.x0" *)
Definition t_x1 : str := [115; 101; 116; 46; 120; 49].       (* "set.x1" *)

(* stackPop: on an empty stack the VM records error E3 and hands out a null value; the instruction
   goes on (the callback still fires) and the loop stops before the next instruction. *)
Definition pop (stk : list sval) : sval * list sval * bool :=
  match stk with
  | [] => (SNull, [], true)
  | v :: r => (v, r, false)
  end.

Fixpoint str_eqb (a b : str) : bool :=
  match a, b with
  | [], [] => true
  | x :: a', y :: b' => if N.eqb x y then str_eqb a' b' else false
  | _, _ => false
  end.

(* Done: the code ran to its end.  Failed: ctx.Error was set (empty stack, or a value whose negation
   is undefined); in both cases the log holds the callbacks that fired, in order. *)
Inductive outcome := Done (log : list callback) | Failed (log : list callback).

(* log is kept newest-first while running *)
Fixpoint st_exec (code : list instr) (stk : list sval) (log : list callback) : outcome :=
  match code with
  | [] => Done (rev log)
  | i :: rest =>
    match i with
    | IPushName s => st_exec rest (SStr s :: stk) log
    | IPushVal v => st_exec rest (v :: stk) log
    | IPushExtra k => st_exec rest (k :: stk) log
    | IPushComputed t => st_exec rest (SComputed t :: stk) log
    | IStSet =>
      (* stName, stVal := stackPop2(): the value is on top, the name below *)
      let '(v, s1, u1) := pop stk in
      let '(n, s2, u2) := pop s1 in
      let log' := mkCb t_set (read_string n) v None [] [] :: log in
      if u1 || u2 then Failed (rev log') else st_exec rest s2 log'
    | IStMod op text =>
      let '(v, s1, u1) := pop stk in
      let '(n, s2, u2) := pop s1 in
      if str_eqb op s_minus then
        match neg v with
        | None => Failed (rev log)          (* type error, return: no callback for this edit *)
        | Some v' =>
          let log' := mkCb t_mod (read_string n) v' None op text :: log in
          if u1 || u2 then Failed (rev log') else st_exec rest s2 log'
        end
      else
        let log' := mkCb t_mod (read_string n) v None op text :: log in
        if u1 || u2 then Failed (rev log') else st_exec rest s2 log'
    | IStX0 =>
      let '(v, s1, u1) := pop stk in
      let '(n, s2, u2) := pop s1 in
      let log' := mkCb t_x0 (read_string n) v None [] [] :: log in
      if u1 || u2 then Failed (rev log') else st_exec rest s2 log'
    | IStX1 =>
      (* stVal := stackPop(); stExtra := stackPop(); stName := stackPop() *)
      let '(v, s1, u1) := pop stk in
      let '(k, s2, u2) := pop s1 in
      let '(n, s3, u3) := pop s2 in
      let log' := mkCb t_x1 (read_string n) v (Some k) [] [] :: log in
      if u1 || u2 || u3 then Failed (rev log') else st_exec rest s3 log'
    end
  end.

Definition st_run (code : list instr) : option (list callback) :=
  match st_exec code [] [] with Done l => Some l | Failed _ => None end.

(* ---- the grammar half: what st_assign / st_modify_lead emit, in order -------------------- *)
(* name first (st_name* pushes the string), then the value code, then the operation *)
Definition compile_edit (e : edit) : list instr :=
  match e with
  | ESet n v => [IPushName n; IPushVal v; IStSet]
  | ESetX1 n k v => [IPushName n; IPushExtra k; IPushVal v; IStX1]
  | ESetX0 n v => [IPushName n; IPushVal v; IStX0]
  | EComputed n t => [IPushName n; IPushComputed t; IStSet]
  | EMod o n v t => [IPushName n; IPushVal v; IStMod (op_text o) t]
  end.

Definition compile_st (es : list edit) : list instr := flat_map compile_edit es.

(* ---- the specification side: the callback each edit must produce -------------------------- *)
(* sign-normalisation: `name-expr` reports the negation of the value of "-expr" *)
Definition reported_value (o : mop) (v : sval) : sval :=
  match o with
  | OpSub => match neg v with Some v' => v' | None => v end
  | _ => v
  end.

Definition callback_of (e : edit) : callback :=
  match e with
  | ESet n v => mkCb t_set n v None [] []
  | ESetX1 n k v => mkCb t_x1 n v (Some k) [] []
  | ESetX0 n v => mkCb t_x0 n v None [] []
  | EComputed n t => mkCb t_set n (SComputed t) None [] []
  | EMod o n v t => mkCb t_mod n (reported_value o v) None (op_text o) t
  end.

Definition negatableb (e : edit) : bool :=
  match e with
  | EMod OpSub _ v _ => match neg v with Some _ => true | None => false end
  | _ => true
  end.
Definition negatable (e : edit) : Prop := negatableb e = true.
Definition all_negatable (es : list edit) : Prop := Forall negatable es.

(* ---- counting st.* instructions and their signatures -------------------------------------- *)
Definition is_st (i : instr) : bool :=
  match i with IStSet | IStMod _ _ | IStX0 | IStX1 => true | _ => false end.

Definition count_st (code : list instr) : nat := length (filter is_st code).

(* (callback type, op, text) fixed by an st.* instruction alone *)
Definition sig_of (i : instr) : option (str * str * str) :=
  match i with
  | IStSet => Some (t_set, [], [])
  | IStMod op text => Some (t_mod, op, text)
  | IStX0 => Some (t_x0, [], [])
  | IStX1 => Some (t_x1, [], [])
  | _ => None
  end.

Fixpoint st_sigs (code : list instr) : list (str * str * str) :=
  match code with
  | [] => []
  | i :: r => match sig_of i with Some s => s :: st_sigs r | None => st_sigs r end
  end.

Definition cb_sig (c : callback) : str * str * str := (cb_type c, cb_op c, cb_text c).
