(* Definitional (big-step) semantics of the core fragment of Model/Ast.v, written from the
   DOCUMENTED rules (docs/GUIDE.md + the precedence of roll.peg), not from the VM:

   values         int (int64, wrapping) | string | null | array (a plain list: the fragment has no
                  mutation of arrays, so reference identity is unobservable)
   truthiness     int <> 0, string <> "", null false, array non-empty
   + - * / %      ints wrap; `+` also joins two strings / two arrays (at most 512 elements),
                  `*` also repeats an array (int * array, array * int; at most 512 elements, a negative
                  count is an error); division / modulus by zero is an error — with IgnoreDiv0 a
                  DIVISION by zero yields the left operand; / truncates towards zero, % has the sign
                  of the left operand
   ^              exact integer power (outside +-2^53 the implementation goes through float64: those
                  inputs are `DUnsup`, not part of the definition)
   ??             the left operand unless it is null (both operands are evaluated)
   < <= >= >      ints only (anything else is a type error); == != structural on every pair
   & |            ints only
   &&             BOTH operands are evaluated, the result is the left one if it is falsy, else the
                  right one (GUIDE describes short-circuit only for ||)
   ||             the left operand if it is truthy (the right one is then NOT evaluated), else the right
   c ? a : b      only the chosen arm is evaluated
   x = e          stores the value and yields it; reading an unknown variable yields null
   e[i]           arrays and strings (by rune), negative indices count from the end, out of range
                  is an error
   XdY            only under min / max mode: X dice of Y sides settle at X resp. X*Y; X and Y must be
                  positive ints (X is checked before Y is evaluated)
   statements     `if` / `while` evaluate to null; values of statements inside a block are dropped;
                  the result of a program is the value of the last statement that produced one
                  (null when there is none); `while` takes fuel (iterations per loop)
   errors         an error stops the program; the effects before it persist (outcome carries the
                  environment); the next program of a history starts from that environment.

   DELIBERATE DIFFERENCES from the code (DESIGN Appendix C.3): no operand-stack limit (the VM leaks
   one slot per value-producing statement of a loop body and gives up at 1000 slots: finding
   while-body-stack-leak), no block-nesting limit, no op-count budget. *)
From Coq Require Import String Ascii NArith ZArith List Bool.
From DS Require Import Model.Str Model.PCG Model.Roll Model.Dice Model.Value Model.VM Model.Ast.
Import ListNotations.
Open Scope string_scope.
Open Scope Z_scope.

Inductive dv :=
| DvInt (z : Z)
| DvStr (s : string)
| DvNull
| DvArr (l : list dv).

Definition denv := list (string * dv).
Fixpoint dget (k : string) (m : denv) : option dv :=
  match m with [] => None | (k', v) :: r => if String.eqb k k' then Some v else dget k r end.
Fixpoint dset (k : string) (v : dv) (m : denv) : denv :=
  match m with
  | [] => [(k, v)]
  | (k', v') :: r => if String.eqb k k' then (k, v) :: r else (k', v') :: dset k v r
  end.
Definition dlookup (k : string) (m : denv) : dv := match dget k m with Some v => v | None => DvNull end.

Definition truthy (v : dv) : bool :=
  match v with
  | DvInt z => negb (z =? 0)
  | DvStr s => negb (String.eqb s "")
  | DvNull => false
  | DvArr l => match l with [] => false | _ => true end
  end.

Fixpoint dv_eqb (a b : dv) {struct a} : bool :=
  match a, b with
  | DvInt x, DvInt y => x =? y
  | DvStr x, DvStr y => String.eqb x y
  | DvNull, DvNull => true
  | DvArr l1, DvArr l2 =>
    (fix go (l1 l2 : list dv) : bool :=
       match l1, l2 with
       | [], [] => true
       | x :: r1, y :: r2 => if dv_eqb x y then go r1 r2 else false
       | _, _ => false
       end) l1 l2
  | _, _ => false
  end.

Definition dbool (b : bool) : dv := DvInt (if b then 1 else 0).
Definition lit_int (n : N) : Z := if MaxInt64 <? Z.of_N n then MaxInt64 else Z.of_N n.   (* ParseInt saturates *)

Definition arr_limit : Z := 512.
Definition arr_repeat (l : list dv) (times : dv) : dv + eclass :=
  match times with
  | DvInt t =>
    if t <? 0 then inr EValue
    else if (arr_limit <? wrap64 (zlen l * t)) || ((0 <? zlen l) && (arr_limit <? t)) then inr ELimit
    else inl (DvArr (match l with [] => [] | _ => repeat_list l (Z.to_nat t) end))
  | _ => inr EType
  end.

Inductive bres := BV (v : dv) | BE (c : eclass) | BU (why : string).

Definition int_op (f : Z -> Z -> bres) (a b : dv) : bres :=
  match a, b with DvInt x, DvInt y => f x y | _, _ => BE EType end.

Definition bin_sem (cfg : config) (o : binop) (a b : dv) : bres :=
  match o with
  | BAdd =>
    match a, b with
    | DvInt x, DvInt y => BV (DvInt (wrap64 (x + y)))
    | DvStr x, DvStr y => BV (DvStr (x ++ y))
    | DvArr x, DvArr y => if arr_limit <? zlen x + zlen y then BE ELimit else BV (DvArr (x ++ y)%list)
    | _, _ => BE EType
    end
  | BSub => int_op (fun x y => BV (DvInt (wrap64 (x - y)))) a b
  | BMul =>
    match a, b with
    | DvInt x, DvInt y => BV (DvInt (wrap64 (x * y)))
    | DvInt _, DvArr l => match arr_repeat l a with inl v => BV v | inr e => BE e end
    | DvArr l, _ => match arr_repeat l b with inl v => BV v | inr e => BE e end
    | _, _ => BE EType
    end
  | BDiv => int_op (fun x y => if y =? 0 then (if cfg_ignore_div0 cfg then BV (DvInt x) else BE EDiv0)
                               else BV (DvInt (wrap64 (Z.quot x y)))) a b
  | BMod => int_op (fun x y => if y =? 0 then BE EDiv0 else BV (DvInt (wrap64 (Z.rem x y)))) a b
  | BPow => int_op (fun x y => match int_pow x y with Some r => BV (DvInt r) | None => BU "pow range" end) a b
  | BNullCo => BV (match a with DvNull => b | _ => a end)
  | BLt => int_op (fun x y => BV (dbool (x <? y))) a b
  | BLe => int_op (fun x y => BV (dbool (x <=? y))) a b
  | BGe => int_op (fun x y => BV (dbool (y <=? x))) a b
  | BGt => int_op (fun x y => BV (dbool (y <? x))) a b
  | BEq => BV (dbool (dv_eqb a b))
  | BNe => BV (dbool (negb (dv_eqb a b)))
  | BBitAnd => int_op (fun x y => BV (DvInt (Z.land x y))) a b
  | BBitOr => int_op (fun x y => BV (DvInt (Z.lor x y))) a b
  | BAnd => BV (if truthy a then b else a)
  end.

Definition un_sem (o : unop) (a : dv) : bres :=
  match a with
  | DvInt x => BV (DvInt (match o with UNeg => wrap64 (- x) | UPos => x end))
  | _ => BE EType
  end.

Definition index_sem (b i : dv) : bres :=
  match b with
  | DvArr l =>
    match i with
    | DvInt k => match get_real_index k (zlen l) with
                 | Some j => BV (znth l j DvNull)
                 | None => BE EIndex
                 end
    | _ => BE EType
    end
  | DvStr s =>
    match i with
    | DvInt k => let rs := runes s in
                 match get_real_index k (zlen rs) with
                 | Some j => BV (DvStr (znth rs j ""))
                 | None => BE EIndex
                 end
    | _ => BE EType
    end
  | _ => BE EType
  end.

(* X dice of Y sides under min / max mode *)
Definition dice_cap_d : Z := 100000.
Definition dice_sem (cfg : config) (times sides : Z) : bres :=
  if roll_mode cfg =? 0 then BU "random dice"
  else if dice_cap_d <? times then BU "dice count"
  else match roll_common pcg_next 8 times sides None None 0 0 0 (roll_mode cfg) {| hi := 0; lo := 0 |} with
       | Roll.Done ((num, _), _) => BV (DvInt num)
       | Roll.OutOfFuel => BU "dice fuel"
       end.

Inductive eres :=
| EV (v : dv) (env : denv)
| EE (c : eclass) (env : denv)
| EU (why : string).

Definition lift_b (r : bres) (env : denv) : eres :=
  match r with BV v => EV v env | BE c => EE c env | BU w => EU w end.

Section Den.
  Variable cfg : config.

  Fixpoint dexpr (e : expr) (env : denv) {struct e} : eres :=
    match e with
    | EInt n => EV (DvInt (lit_int n)) env
    | EStr s => EV (DvStr s) env
    | ENull => EV DvNull env
    | ETrue => EV (DvInt 1) env
    | EFalse => EV (DvInt 0) env
    | EVar x => EV (dlookup x env) env
    | EAssign x e1 =>
      match dexpr e1 env with
      | EV v env1 => EV v (dset x v env1)
      | r => r
      end
    | EUn o e1 =>
      match dexpr e1 env with
      | EV v env1 => lift_b (un_sem o v) env1
      | r => r
      end
    | EBin o l r =>
      match dexpr l env with
      | EV a env1 =>
        match dexpr r env1 with
        | EV b env2 => lift_b (bin_sem cfg o a b) env2
        | x => x
        end
      | x => x
      end
    | EOr l r =>
      match dexpr l env with
      | EV a env1 => if truthy a then EV a env1 else dexpr r env1
      | x => x
      end
    | ETern c a b =>
      match dexpr c env with
      | EV vc env1 => if truthy vc then dexpr a env1 else dexpr b env1
      | x => x
      end
    | EArr l =>
      (fix items (l : list expr) (env : denv) (acc : list dv) : eres :=
         match l with
         | [] => EV (DvArr (rev acc)) env
         | x :: r => match dexpr x env with
                     | EV v env1 => items r env1 (v :: acc)
                     | y => y
                     end
         end) l env []
    | EIdx b i =>
      match dexpr b env with
      | EV vb env1 =>
        match dexpr i env1 with
        | EV vi env2 => lift_b (index_sem vb vi) env2
        | x => x
        end
      | x => x
      end
    | ERoll x y =>
      match dexpr x env with
      | EV (DvInt t) env1 =>
        if t <=? 0 then EE EDice env1
        else match dexpr y env1 with
             | EV (DvInt s) env2 => if s <=? 0 then EE EDice env2 else lift_b (dice_sem cfg t s) env2
             | EV _ env2 => EE EDice env2
             | r => r
             end
      | EV _ env1 => EE EDice env1
      | r => r
      end
    end.

  Inductive sres :=
  | SNorm (v : option dv) (env : denv)
  | SBrk (env : denv)
  | SCont (env : denv)
  | SErrR (c : eclass) (env : denv)
  | SFuelR
  | SUnsupR (why : string).

  (* fuel = iterations allowed per loop *)
  Fixpoint dstmt (fuel : nat) (s : stmt) (env : denv) {struct s} : sres :=
    match s with
    | SNop => SNorm None env
    | SExpr e =>
      match dexpr e env with
      | EV v env1 => SNorm (Some v) env1
      | EE c env1 => SErrR c env1
      | EU w => SUnsupR w
      end
    | SSeq s1 s2 =>
      match dstmt fuel s1 env with
      | SNorm v1 env1 =>
        match dstmt fuel s2 env1 with
        | SNorm v2 env2 => SNorm (match v2 with Some _ => v2 | None => v1 end) env2
        | r => r
        end
      | r => r
      end
    | SIf c t e =>
      match dexpr c env with
      | EV vc env1 =>
        match dstmt fuel (if truthy vc then t else e) env1 with
        | SNorm _ env2 => SNorm (Some DvNull) env2
        | r => r
        end
      | EE k env1 => SErrR k env1
      | EU w => SUnsupR w
      end
    | SWhile c b =>
      (fix loop (n : nat) (env : denv) : sres :=
         match n with
         | O => SFuelR
         | S n' =>
           match dexpr c env with
           | EV vc env1 =>
             if truthy vc then
               match dstmt fuel b env1 with
               | SNorm _ env2 | SCont env2 => loop n' env2
               | SBrk env2 => SNorm (Some DvNull) env2
               | r => r
               end
             else SNorm (Some DvNull) env1
           | EE k env1 => SErrR k env1
           | EU w => SUnsupR w
           end
         end) fuel env
    | SBreak => SBrk env
    | SContinue => SCont env
    end.
End Den.

Inductive doutcome :=
| DVal (v : dv) (env : denv)
| DErr (c : eclass) (env : denv)
| DOutOfFuel
| DUnsup (why : string).

Definition denote (fuel : nat) (cfg : config) (p : stmt) (env : denv) : doutcome :=
  match dstmt cfg fuel p env with
  | SNorm v env1 => DVal (match v with Some x => x | None => DvNull end) env1
  | SErrR c env1 => DErr c env1
  | SFuelR => DOutOfFuel
  | SUnsupR w => DUnsup w
  | SBrk _ | SCont _ => DUnsup "break / continue outside a loop"
  end.

(* a history on one VM: every program starts from the environment the previous one left,
   also after an error *)
Fixpoint denote_history (fuel : nat) (cfg : config) (ps : list stmt) (env : denv) : list doutcome :=
  match ps with
  | [] => []
  | p :: r =>
    let o := denote fuel cfg p env in
    o :: match o with
         | DVal _ env1 | DErr _ env1 => denote_history fuel cfg r env1
         | _ => []
         end
  end.

(* ------------------------------------------------------------------ well-formedness *)
(* break / continue only inside a loop (the parser rejects the others) *)
Fixpoint loops_ok (inloop : bool) (s : stmt) : bool :=
  match s with
  | SSeq a b => loops_ok inloop a && loops_ok inloop b
  | SIf _ t e => loops_ok inloop t && loops_ok inloop e
  | SWhile _ b => loops_ok true b
  | SBreak | SContinue => inloop
  | _ => true
  end.
