(* C01 (VM half): well-formed byte-code never makes the VM model reach a Go panic site;
   C07 (VM half): the operation budget fails closed.
   Everything here is ABOUT Model/VM.v (validated against the implementation by the K2 correspondence). *)
From Coq Require Import String Ascii NArith ZArith List Bool Lia.
From DS Require Import Model.Str Model.PCG Model.Roll Model.Dice Model.Value Model.VM Model.CodeWf Proofs.VMFacts.
Import ListNotations.
Open Scope Z_scope.

(* ================================================================== PART A: C01 *)

(* The two Panic sites of the model that do not depend on the byte-code but on a VALUE that the Go
   program cannot construct: see C01_*_refuted / the report at the end of part A. *)
Definition range_msg : string := "index out of range (push.range)".
Definition nilself_msg : string := "nil Self".
Definition allowed (s : string) : Prop := s = range_msg \/ s = nilself_msg.

Definition res_ok (r : result) : Prop := match r with Panic s => allowed s | _ => True end.
Definition rok {A} (r : R A) : Prop := match r with RPanic s => allowed s | _ => True end.

(* ------------------------------------------------------------------ code_wf / ftab_wf lookups *)
Lemma code_wf_from_nth : forall len c pc k i,
  code_wf_from len pc c = true -> nth_error c k = Some i -> instr_wf len (pc + k) i = true.
Proof.
  induction c as [|a c IH]; intros pc k i H Hn.
  - destruct k; discriminate.
  - cbn [code_wf_from] in H. apply andb_true_iff in H. destruct H as [H1 H2]. destruct k as [|k].
    + cbn in Hn. injection Hn as <-. rewrite Nat.add_0_r. exact H1.
    + cbn [nth_error] in Hn. replace (pc + S k)%nat with (S pc + k)%nat by lia. eapply IH; eauto.
Qed.

Lemma code_wf_nth : forall c k i, code_wf c = true -> nth_error c k = Some i -> instr_wf (length c) k i = true.
Proof. unfold code_wf; intros c k i H Hn. exact (code_wf_from_nth _ _ 0%nat _ _ H Hn). Qed.

Lemma spans_wf_nth : forall src c k i, spans_wf src c = true -> nth_error c k = Some i -> span_wf src i = true.
Proof.
  unfold spans_wf; intros src c k i H Hn. rewrite forallb_forall in H. apply H. eapply nth_error_In; eauto.
Qed.

Lemma spans_wf_None : forall c, spans_wf None c = true.
Proof.
  unfold spans_wf; intros c. apply forallb_forall. intros i _. unfold span_wf.
  destruct (i_op i); try reflexivity. destruct (i_arg i); reflexivity.
Qed.

Lemma ftab_wf_lookup : forall ft id d c, ftab_wf ft = true -> f_lookup ft id = Some d -> f_code d = Some c ->
  code_wf c = true /\ spans_wf (Some (f_expr d)) c = true.
Proof.
  unfold ftab_wf, f_lookup; intros ft id d c H Hl Hc. rewrite forallb_forall in H.
  specialize (H d (nth_error_In _ _ Hl)). unfold fentry_wf in H. rewrite Hc in H. apply andb_true_iff in H. exact H.
Qed.

(* ------------------------------------------------------------------ the frame invariant *)
Definition span_ok (src : option string) (p : Z * Z) : Prop := span_in src (fst p) (snd p) = true.

(* c, src: code and source text of the activation (never change) *)
Definition frame_ok (c : code) (src : option string) (fr : frame) : Prop :=
  fr_code fr = c /\ fr_src fr = src /\ fr_top fr <= stack_size /\
  Forall (fun t => t < stack_size) (fr_blocks fr) /\ Forall (fun t => t < stack_size) (fr_fblocks fr) /\
  Forall (span_ok src) (fr_details fr).

Definition machine_ok (m : machine) : Prop :=
  let fr := m_fr m in
  code_wf (fr_code fr) = true /\ spans_wf (fr_src fr) (fr_code fr) = true /\
  frame_ok (fr_code fr) (fr_src fr) fr /\ 0 <= fr_pc fr.

Definition callee_ok (call : machine -> result) : Prop := forall m, machine_ok m -> res_ok (call m).

Lemma new_frame_ok : forall c src, frame_ok c src (new_frame c src).
Proof. intros; unfold frame_ok, new_frame, stack_size; cbn. repeat split; try constructor; lia. Qed.

Lemma new_frame_machine_ok : forall c src w, code_wf c = true -> spans_wf src c = true ->
  machine_ok {| m_fr := new_frame c src; m_w := w |}.
Proof.
  intros c src w H1 H2. unfold machine_ok; cbn [m_fr]. change (fr_code (new_frame c src)) with c.
  change (fr_src (new_frame c src)) with src. split; [exact H1|]. split; [exact H2|]. split; [apply new_frame_ok|].
  cbn; lia.
Qed.

Ltac fr_unfold :=
  unfold frame_ok, jump, fr_set_stack, fr_set_pc, fr_set_blocks, fr_set_dice, fr_set_wod, fr_set_dc,
         fr_set_details, fr_set_err, mk in *;
  cbn [fr_code fr_pc fr_live fr_dead fr_top fr_last fr_blocks fr_fblocks fr_dice fr_wod fr_dc fr_details
       fr_src fr_err m_fr m_w] in *.

Section StepSafety.
  Variable call : machine -> result.
  Variable rfuel : nat.
  Variable E : env.
  Variable c : code.
  Variable src : option string.
  Variable pc0 : Z.
  Hypothesis Hpc0 : 0 <= pc0.
  Hypothesis Hft : ftab_wf (e_ftab E) = true.
  Hypothesis Hcall : callee_ok call.

  (* a frame in the middle of the instruction at pc0: below the overflow line *)
  Definition mid (fr : frame) : Prop := frame_ok c src fr /\ fr_top fr < stack_size /\ fr_pc fr = pc0.
  (* a frame that may be pushed on / handed back to the loop *)
  Definition ready (fr : frame) : Prop := frame_ok c src fr /\ fr_top fr < stack_size /\ -1 <= fr_pc fr.
  Definition post (fr : frame) : Prop := frame_ok c src fr /\ -1 <= fr_pc fr.

  Definition Q (r : sresult) : Prop :=
    match r with SNext m => post (m_fr m) | SPanic s => allowed s | _ => True end.

  Lemma mid_ready : forall fr, mid fr -> ready fr.
  Proof. unfold mid, ready; intros fr (H1 & H2 & H3); split; [exact H1|split; [exact H2|lia]]. Qed.
  Lemma ready_post : forall fr, ready fr -> post fr.
  Proof. unfold ready, post; tauto. Qed.

  (* ---- stack primitives keep `mid` and do not touch the dice states *)
  Lemma err_invalid_mid : forall fr, mid fr -> mid (err_invalid fr) /\ fr_dice (err_invalid fr) = fr_dice fr.
  Proof. unfold err_invalid, mid; intros fr H. destruct (fr_err fr); fr_unfold; tauto. Qed.

  Lemma pop_mid : forall fr v fr1, mid fr -> pop fr = (v, fr1) -> mid fr1 /\ fr_dice fr1 = fr_dice fr.
  Proof.
    unfold pop; intros fr v fr1 H. destruct (fr_live fr).
    - intros [= <- <-]. destruct (err_invalid_mid fr H) as [H1 H2]. unfold mid in *. fr_unfold. tauto.
    - intros [= <- <-]. unfold mid in *. fr_unfold. intuition lia.
  Qed.

  Lemma pop_n_aux_mid : forall n fr acc l fr1, mid fr -> pop_n_aux n fr acc = (l, fr1) -> mid fr1 /\ fr_dice fr1 = fr_dice fr.
  Proof.
    induction n; intros fr acc l fr1 H; cbn [pop_n_aux].
    - intros [= <- <-]; auto.
    - destruct (pop fr) as [v fr0] eqn:Hp. destruct (pop_mid _ _ _ H Hp) as [H1 H2]. intros H3.
      destruct (IHn _ _ _ _ H1 H3) as [H4 H5]. split; congruence.
  Qed.

  Lemma pop_n_mid : forall n fr l fr1, mid fr -> pop_n n fr = (l, fr1) -> mid fr1 /\ fr_dice fr1 = fr_dice fr.
  Proof.
    unfold pop_n; intros n fr l fr1 H. destruct (n <=? 0); [intros [= <- <-]; auto|].
    destruct (pop_n_aux (Z.to_nat n) fr []) as [l1 fr0] eqn:Hp. destruct (pop_n_aux_mid _ _ _ _ _ H Hp) as [H1 H2].
    intros [= <- <-]. unfold mid in *. fr_unfold. tauto.
  Qed.

  Lemma set_top_mid : forall fr t fr1, mid fr -> t < stack_size -> set_top fr t = Some fr1 ->
    mid fr1 /\ fr_dice fr1 = fr_dice fr /\ fr_blocks fr1 = fr_blocks fr /\ fr_fblocks fr1 = fr_fblocks fr.
  Proof.
    unfold set_top; intros fr t fr1 H Ht. destruct (t <=? fr_top fr).
    - destruct (lower_top _ _ _) as [l d]. intros [= <-]. unfold mid in *. fr_unfold. intuition lia.
    - destruct (raise_top _ _ _) as [[l d]|]; [|discriminate]. intros [= <-]. unfold mid in *. fr_unfold. intuition lia.
  Qed.

  Lemma span_ok_00 : span_ok src (0, 0).
  Proof. unfold span_ok, span_in; destruct src; cbn [fst snd]; auto. unfold zlen. rewrite !andb_true_iff, !Z.leb_le. lia. Qed.

  Lemma last_detail_mid : forall fr, mid fr -> mid (last_detail fr) /\ fr_dice (last_detail fr) = fr_dice fr.
  Proof.
    unfold last_detail; intros fr H. destruct (fr_details fr) eqn:Hd; auto. unfold mid in *. fr_unfold.
    intuition auto. repeat constructor. apply span_ok_00.
  Qed.

  Lemma jump_ready : forall fr off, mid fr -> -1 <= pc0 + off -> ready (jump fr off).
  Proof. unfold mid, ready; intros fr off H Ho. fr_unfold. intuition lia. Qed.

  (* ---- result-level facts *)
  Lemma Q_next : forall fr w, post fr -> Q (SNext (mk fr w)).
  Proof. intros; exact H. Qed.

  Lemma Q_do_push : forall v fr w, ready fr -> Q (do_push v fr w).
  Proof.
    unfold do_push, push, ready; intros v fr w (H1 & H2 & H3).
    replace (stack_size <=? fr_top fr) with false by (symmetry; apply Z.leb_gt; lia).
    cbn [Q mk m_fr]. unfold post. fr_unfold. intuition lia.
  Qed.

  Lemma Q_dice_result : forall z fr w, mid fr -> Q (dice_result z fr w).
  Proof. intros z fr w H. unfold dice_result. apply Q_do_push, mid_ready, last_detail_mid, H. Qed.

  Lemma rok_rbind : forall A B (r : R A) (k : A -> world -> R B), rok r -> (forall a w, rok (k a w)) -> rok (rbind r k).
  Proof. intros A B r k H1 H2. destruct r; cbn; auto. Qed.

  Lemma Q_lift : forall A (r : R A) fr k, rok r -> (forall a w, Q (k a w)) -> Q (lift r fr k).
  Proof. intros A r fr k H1 H2. destruct r; cbn; auto. unfold check_err. destruct (fr_err fr); cbn; auto. Qed.


  (* ---- operations of one instruction: no panic besides the two value-dependent sites *)
  Ltac rok_tac :=
    repeat first
      [ exact Logic.I
      | right; reflexivity
      | left; reflexivity
      | progress cbv zeta
      | apply rok_rbind; [|intros]
      | match goal with
        | |- rok (if ?b then _ else _) => destruct b
        | |- rok (match ?x with _ => _ end) => destruct x
        end ].

  Lemma sub_result_ok : forall m, machine_ok m -> res_ok (call m).
  Proof. exact Hcall. Qed.

  Lemma computed_execute_ok : forall cid k w, rok (computed_execute call E cid k w).
  Proof.
    intros cid k w. unfold computed_execute.
    destruct (nth_error (w_chain w) k); [|exact Logic.I].
    destruct (cattrs_force cid (w_heap w)) as [mapid h1].
    destruct (limit_hit E _); [exact Logic.I|].
    destruct (f_lookup (e_ftab E) cid) as [d|] eqn:Hl; [|exact Logic.I].
    destruct (f_code d) as [body|] eqn:Hc; [|exact Logic.I].
    destruct (ftab_wf_lookup _ _ _ _ Hft Hl Hc) as [W1 W2].
    match goal with |- rok (match call ?sub with _ => _ end) =>
      pose proof (sub_result_ok sub (new_frame_machine_ok _ _ _ W1 W2)) as Hs; destruct (call sub) end;
    cbn [res_ok] in Hs; rok_tac; exact Hs.
  Qed.

  Lemma func_invoke_ok : forall fid args w, rok (func_invoke call E fid args w).
  Proof.
    intros fid args w. unfold func_invoke.
    destruct (f_lookup (e_ftab E) fid) as [d|] eqn:Hl; [|exact Logic.I].
    destruct (w_chain w) as [|self ups]; [exact Logic.I|].
    destruct (negb _); [exact Logic.I|].
    destruct (alloc_map _ _) as [mapid h1].
    destruct (limit_hit E _); [exact Logic.I|].
    destruct (f_code d) as [body|] eqn:Hc; [|exact Logic.I].
    destruct (ftab_wf_lookup _ _ _ _ Hft Hl Hc) as [W1 W2].
    match goal with |- rok (match call ?sub with _ => _ end) =>
      pose proof (sub_result_ok sub (new_frame_machine_ok body None _ W1 (spans_wf_None body))) as Hs; destruct (call sub) end;
    cbn [res_ok] in Hs; rok_tac; exact Hs.
  Qed.

  Lemma load_walk_ok : forall n k name isRaw w, rok (load_walk call E n k name isRaw w).
  Proof.
    induction n; intros k name isRaw w; cbn [load_walk]; [exact Logic.I|].
    destruct (nth_error (w_chain w) k); [|exact Logic.I].
    apply rok_rbind.
    - destruct (match mget name _ with Some v => v | None => VNull end); try exact Logic.I.
      destruct isRaw; [exact Logic.I|apply computed_execute_ok].
    - intros v w'. destruct v; try exact Logic.I. apply IHn.
  Qed.

  Lemma load_name_ok : forall name isRaw w, rok (load_name call E name isRaw w).
  Proof. intros; apply load_walk_ok. Qed.

  Lemma load_local_ok : forall name w, rok (load_local call E name w).
  Proof.
    intros name w. unfold load_local.
    destruct (match mget name _ with Some v => v | None => VNull end); try exact Logic.I. apply computed_execute_ok.
  Qed.

  Lemma new_arr_ok : forall l w, rok (new_arr l w).
  Proof. intros; unfold new_arr. destruct (alloc_arr _ _); exact Logic.I. Qed.

  Lemma str_of_ok : forall E' b v w, rok (str_of E' b v w).
  Proof. intros; unfold str_of. rok_tac. Qed.

  Lemma roll1_ok : forall n w, rok (roll1 n w).
  Proof. intros; unfold roll1. rok_tac. Qed.

  Lemma shuffle_loop_ok : forall i l w, rok (shuffle_loop i l w).
  Proof.
    induction i; intros l w; cbn [shuffle_loop]; [exact Logic.I|].
    apply rok_rbind; [apply roll1_ok|]. intros; apply IHi.
  Qed.
  Lemma shuffle_ok : forall l w, rok (shuffle l w).
  Proof. intros; apply shuffle_loop_ok. Qed.

  Lemma array_repeat_ok : forall id t w, rok (array_repeat id t w).
  Proof. intros; unfold array_repeat. rok_tac; apply new_arr_ok. Qed.

  Lemma attr_get_ok : forall v name w, rok (attr_get call E v name w).
  Proof.
    intros v name w. unfold attr_get. destruct v; try exact Logic.I.
    - rok_tac.
    - apply rok_rbind; [apply load_local_ok|intros; exact Logic.I].
  Qed.

  Lemma attr_set_ok : forall v name x w, rok (attr_set v name x w).
  Proof. intros; unfold attr_set. rok_tac. Qed.
  Lemma item_get_ok : forall a b w, rok (item_get a b w).
  Proof. intros; unfold item_get. rok_tac. Qed.
  Lemma item_set_ok : forall a b x w, rok (item_set a b x w).
  Proof. intros; unfold item_set. rok_tac. Qed.
  Lemma slice_get_ok : forall o a b w, rok (slice_get o a b w).
  Proof. intros; unfold slice_get. rok_tac; apply new_arr_ok. Qed.
  Lemma slice_set_ok : forall o a b x w, rok (slice_set o a b x w).
  Proof. intros; unfold slice_set. rok_tac. Qed.

  Lemma bin_op_ok : forall op v1 v2 w, rok (bin_op rfuel E op v1 v2 w).
  Proof.
    intros op v1 v2 w. unfold bin_op.
    destruct op; try exact Logic.I; destruct v1; try exact Logic.I; destruct v2; try exact Logic.I;
      rok_tac; try apply new_arr_ok; try apply array_repeat_ok.
  Qed.

  (* push.range: the only panic is the model's "index out of range" (reachable only when an operand
     is not an int64, see push_range_no_panic_i64 below) *)
  Lemma push_range_ok : forall a b w, rok (push_range a b w).
  Proof. intros; unfold push_range. rok_tac; apply new_arr_ok. Qed.

  Lemma native_call_ok : forall name self args w, rok (native_call call E name self args w).
  Proof.
    intros name self args w. unfold native_call.
    destruct (native_sig name) as [np defaults]. cbv zeta.
    repeat match goal with
    | |- rok (if ?b then _ else _) => destruct b
    end;
    try exact Logic.I;
    try (apply rok_rbind; [first [apply str_of_ok | apply shuffle_ok | apply roll1_ok | apply new_arr_ok | idtac]|intros]);
    repeat match goal with
    | |- rok (load_name _ _ _ _ _) => apply load_name_ok
    | |- rok (computed_execute _ _ _ _ _) => apply computed_execute_ok
    | |- rok (new_arr _ _) => apply new_arr_ok
    | |- rok (shuffle _ _) => apply shuffle_ok
    | |- rok (roll1 _ _) => apply roll1_ok
    | |- rok (rbind _ _) => apply rok_rbind; [|intros]
    | |- rok (RPanic _) => right; reflexivity
    | |- rok (if ?b then _ else _) => destruct b
    | |- rok (match ?x with _ => _ end) => destruct x
    | |- _ => exact Logic.I
    end.
  Qed.


  (* ------------------------------------------------------------------ one instruction *)
  Definition step_safe (op : opcode) : Prop :=
    forall o m len, mid (m_fr m) -> instr_wf len (Z.to_nat pc0) (I op o) = true -> span_wf src (I op o) = true ->
                    Q (step call rfuel E (I op o) m).

  Lemma Q_same : forall m, mid (m_fr m) -> Q (SNext m).
  Proof. intros m H. exact (ready_post _ (mid_ready _ H)). Qed.

  Ltac fr_solve :=
    unfold mid, ready, post in *; fr_unfold;
    repeat match goal with H : _ /\ _ |- _ => destruct H end;
    repeat split; try assumption; try lia; try congruence;
    try (constructor; first [assumption | lia | apply span_ok_00]).

  Ltac q_fact :=
    repeat match goal with
    | Hm : mid ?fr, Hp : pop ?fr = (_, _) |- _ =>
      let H1 := fresh "Hm" in let H2 := fresh "Hd" in destruct (pop_mid _ _ _ Hm Hp) as [H1 H2]; clear Hp
    | Hm : mid ?fr, Hp : pop_n _ ?fr = (_, _) |- _ =>
      let H1 := fresh "Hm" in let H2 := fresh "Hd" in destruct (pop_n_mid _ _ _ _ Hm Hp) as [H1 H2]; clear Hp
    end.

  Ltac q_rok0 :=
    first [ apply func_invoke_ok | apply native_call_ok | apply load_name_ok | apply attr_get_ok | apply attr_set_ok
          | apply item_get_ok | apply item_set_ok | apply slice_get_ok | apply slice_set_ok | apply bin_op_ok
          | apply push_range_ok ].
  Ltac q_rok :=
    first [ q_rok0 | exact Logic.I
          | match goal with H : _ = ?r |- rok ?r => rewrite <- H; q_rok0 end ].

  Ltac q_ready :=
    first [ apply mid_ready; assumption
          | apply mid_ready; apply last_detail_mid; assumption
          | fr_solve ].

  Ltac q_go :=
    repeat (cbv beta iota zeta; first
      [ exact Logic.I
      | apply Q_same; assumption
      | apply Q_do_push; q_ready
      | apply Q_dice_result; first [assumption | fr_solve]
      | apply Q_next; first [apply ready_post; q_ready | fr_solve]
      | apply Q_lift; [q_rok | intros]
      | match goal with
        | |- Q (if ?b then _ else _) => destruct b eqn:?
        | |- Q (match ?x with _ => _ end) => destruct x eqn:?; q_fact
        end
      | exfalso; congruence ]).

  Ltac q_start :=
    intros o m len Hm Hwf Hsp; unfold step; cbn [i_op i_arg];
    unfold instr_wf, jump_ok, is_oint, is_ostr, is_ospan, is_ost, is_ofn, is_oint_nonneg in Hwf; cbn [i_op i_arg] in Hwf;
    match type of Hwf with
    | true = true => idtac
    | _ => destruct o; try discriminate Hwf
    end;
    unfold with_pop2, with_pop, with_pop_n, with_int, need_dice, arg_int, arg_str, upd_dice, add_ops.

  Ltac by_cases tac :=
    let op := fresh "op" in let Hin := fresh "Hin" in
    intros op Hin; cbn [In] in Hin;
    repeat (destruct Hin as [<-|Hin]; [tac|]); contradiction.

  Lemma step_push_no_panic : forall op,
    In op [OpPushInt; OpPushFlt; OpPushStr; OpPushArr; OpPushDict; OpPushComputed; OpPushFunc; OpPushNull; OpPushThis;
           OpPushRange; OpPushLast] -> step_safe op.
  Proof. by_cases ltac:(q_start; q_go). Qed.


  Lemma step_arith_no_panic : forall op,
    In op [OpAdd; OpSub; OpMul; OpDiv; OpMod; OpPow; OpNullCoalescing; OpLt; OpLe; OpEq; OpNe; OpGe; OpGt;
           OpBitAnd; OpBitOr; OpAnd; OpOr; OpNeg; OpPos] -> step_safe op.
  Proof. by_cases ltac:(q_start; q_go). Qed.

  Lemma step_invoke_no_panic : forall op, In op [OpInvoke; OpInvokeSelf] -> step_safe op.
  Proof. by_cases ltac:(q_start; q_go). Qed.

  Lemma step_item_attr_slice_no_panic : forall op,
    In op [OpItemGet; OpItemSet; OpAttrGet; OpAttrSet; OpSliceGet; OpSliceSet] -> step_safe op.
  Proof. by_cases ltac:(q_start; q_go). Qed.

  Lemma step_pop_misc_no_panic : forall op,
    In op [OpPop; OpPopN; OpNop; OpRet; OpHalt; OpPushGlobal; OpStoreGlobal; OpUnknown; OpDiceCustom] -> step_safe op.
  Proof. by_cases ltac:(q_start; q_go). Qed.

  Lemma step_st_no_panic : forall op, In op [OpStSet; OpStMod; OpStX0; OpStX1] -> step_safe op.
  Proof. by_cases ltac:(q_start; q_go). Qed.


  Lemma step_jump_no_panic : forall op, In op [OpJmp; OpJe; OpJne; OpJeDup] -> step_safe op.
  Proof.
    by_cases ltac:(q_start; apply Z.leb_le in Hwf; (rewrite Z2Nat.id in Hwf by (exact Hpc0)); q_go).
  Qed.

  Lemma step_load_store_no_panic : forall op, In op [OpLd; OpLdD; OpLdRaw; OpStore; OpStoreLocal] -> step_safe op.
  Proof. by_cases ltac:(q_start; q_go). Qed.


  Lemma step_dice_no_panic : forall op,
    In op [OpDiceInit; OpDiceSetTimes; OpDiceSetKeepLow; OpDiceSetKeepHigh; OpDiceSetDropLow; OpDiceSetDropHigh;
           OpDiceSetMin; OpDiceSetMax; OpDice; OpDiceFate; OpCocPenalty; OpCocBonus; OpMarkDetail] -> step_safe op.
  Proof. by_cases ltac:(q_start; q_go). Qed.

  Lemma step_wod_dc_no_panic : forall op,
    In op [OpDiceWod; OpWodInit; OpWodPool; OpWodPoints; OpWodThreshold; OpWodThresholdQ;
           OpDiceDC; OpDcInit; OpDcPool; OpDcPoints] -> step_safe op.
  Proof. by_cases ltac:(q_start; q_go). Qed.


  Lemma blocks_head : forall fr t rest, mid fr -> fr_blocks fr = t :: rest ->
    t < stack_size /\ Forall (fun t => t < stack_size) rest.
  Proof. unfold mid, frame_ok; intros fr t rest H Hb. rewrite Hb in H. destruct H as ((_ & _ & _ & H & _) & _). inversion H; auto. Qed.
  Lemma fblocks_head : forall fr t rest, mid fr -> fr_fblocks fr = t :: rest ->
    t < stack_size /\ Forall (fun t => t < stack_size) rest.
  Proof. unfold mid, frame_ok; intros fr t rest H Hb. rewrite Hb in H. destruct H as ((_ & _ & _ & _ & H & _) & _). inversion H; auto. Qed.

  Lemma step_block_no_panic : forall op, In op [OpBlockPush; OpBlockPop; OpFstrPush; OpFstrPop] -> step_safe op.
  Proof.
    intros op Hin; cbn [In] in Hin. destruct Hin as [<-|[<-|[<-|[<-|[]]]]].
    - q_start; q_go.
    - q_start. destruct (fr_blocks (m_fr m)) as [|t rest] eqn:Hb; [exact Logic.I|].
      destruct (blocks_head _ _ _ Hm Hb) as [Ht Hr].
      destruct (set_top (m_fr m) t) as [fr1|] eqn:Hs; [|exact Logic.I].
      destruct (set_top_mid _ _ _ Hm Ht Hs) as (M1 & D1 & B1 & F1).
      apply Q_do_push. unfold mid, ready in *. fr_unfold. intuition lia.
    - q_start; q_go.
    - q_start. destruct (fr_fblocks (m_fr m)) as [|t rest] eqn:Hb; [exact Logic.I|].
      destruct (fblocks_head _ _ _ Hm Hb) as [Ht Hr]. cbv zeta.
      assert (Hfin : forall v fr1, mid fr1 ->
                Q (match set_top fr1 t with
                   | None => SUnsup "uninit slot"
                   | Some fr2 => do_push v (fr_set_blocks fr2 (fr_blocks fr2) rest) (m_w m)
                   end)).
      { intros v fr1 M. destruct (set_top fr1 t) as [fr2|] eqn:Hs; [|exact Logic.I].
        destruct (set_top_mid _ _ _ M Ht Hs) as (M1 & D1 & B1 & F1).
        apply Q_do_push. unfold mid, ready in *. fr_unfold. intuition lia. }
      destruct (t =? fr_top (m_fr m)); [apply Hfin; assumption|].
      destruct (pop (m_fr m)) as [v fr1] eqn:Hp. destruct (pop_mid _ _ _ Hm Hp) as [M1 _]. apply Hfin; assumption.
  Qed.

  Lemma step_ldfs_no_panic : step_safe OpLdFs.
  Proof.
    q_start. apply Z.leb_le in Hwf.
    destruct ((0 <? z) && (fr_top (m_fr m) - z <? 0)); [exact Logic.I|].
    match goal with |- Q (?f ?l0 ?a0) => cut (forall l acc, Q (f l acc)); [intros Hx; apply Hx|] end.
    induction l as [|v l IH]; intros acc; cbv beta iota.
    - assert (Ht : fr_top (m_fr m) - z < stack_size) by (destruct Hm as (_ & Ht & _); lia).
      replace (stack_size <=? fr_top (m_fr m) - z) with false by (symmetry; apply Z.leb_gt; exact Ht).
      destruct (set_top (m_fr m) (fr_top (m_fr m) - z)) as [fr1|] eqn:Hs; [|exact Logic.I].
      destruct (set_top_mid _ _ _ Hm Ht Hs) as (M1 & _). apply Q_do_push, mid_ready, M1.
    - destruct (to_string _ _ v); [apply IH|exact Logic.I].
  Qed.

  Lemma span_in_substring : forall s b e, span_in (Some s) b e = true -> substring_b (bytes_of s) b e <> None.
  Proof.
    unfold span_in, substring_b; intros s b e H. rewrite !andb_true_iff, !Z.leb_le in H. destruct H as [[H1 H2] H3].
    replace ((b <? 0) || (e <? b) || (zlen (bytes_of s) <? e)) with false; [discriminate|].
    symmetry. rewrite !orb_false_iff, !Z.ltb_ge. lia.
  Qed.

  Lemma step_def_expr_no_panic : step_safe OpPushDefExpr.
  Proof.
    q_start. destruct (negb _); [exact Logic.I|].
    destruct (push (VInt 100) (m_fr m)) as [fr1|] eqn:Hp.
    2:{ destruct (push_some (VInt 100) (m_fr m)) as [x Hx]; [apply Hm|congruence]. }
    assert (P1 : post fr1 /\ fr_details fr1 = fr_details (m_fr m) /\ fr_src fr1 = fr_src (m_fr m)).
    { unfold push in Hp. destruct (stack_size <=? fr_top (m_fr m)) eqn:Ht; [discriminate|]. apply Z.leb_gt in Ht.
      injection Hp as <-. unfold mid, post in *. fr_unfold. intuition lia. }
    destruct P1 as (P1 & P2 & P3).
    destruct (fr_src fr1) as [s|] eqn:Hs; [|apply Q_next, P1].
    destruct (fr_details fr1) as [|[b e] ds] eqn:Hd; [apply Q_next, P1|].
    destruct (fr_dice fr1); [apply Q_next, P1|].
    destruct (substring_b (bytes_of s) b e) eqn:Hsub; [apply Q_next, P1|].
    exfalso. destruct P1 as ((_ & S1 & _ & _ & _ & D1) & _). rewrite Hd in D1. inversion D1 as [|? ? D2 _].
    unfold span_ok in D2. cbn [fst snd] in D2. rewrite <- S1 in D2. rewrite Hs in D2. exact (span_in_substring _ _ _ D2 Hsub).
  Qed.

  (* the step theorem: every opcode *)
  Theorem C01_step_no_panic_partial : forall op, step_safe op.
  Proof.
    intros op.
    destruct op;
      first [ apply step_push_no_panic; cbn; tauto
            | apply step_arith_no_panic; cbn; tauto
            | apply step_invoke_no_panic; cbn; tauto
            | apply step_item_attr_slice_no_panic; cbn; tauto
            | apply step_pop_misc_no_panic; cbn; tauto
            | apply step_st_no_panic; cbn; tauto
            | apply step_jump_no_panic; cbn; tauto
            | apply step_load_store_no_panic; cbn; tauto
            | apply step_dice_no_panic; cbn; tauto
            | apply step_wod_dc_no_panic; cbn; tauto
            | apply step_block_no_panic; cbn; tauto
            | apply step_ldfs_no_panic
            | apply step_def_expr_no_panic ].
  Qed.

End StepSafety.

(* ------------------------------------------------------------------ the loop *)
Lemma count_op_frame : forall E m m1 over, count_op E m = (m1, over) -> m_fr m1 = m_fr m.
Proof. unfold count_op; intros E m m1 over. destruct (ops_add _ _ _). intros [= <- <-]. reflexivity. Qed.

Lemma nth_error_in_range : forall A (l : list A) z, 0 <= z -> z < zlen l -> nth_error l (Z.to_nat z) <> None.
Proof. unfold zlen; intros A l z H1 H2. apply nth_error_Some. lia. Qed.

Theorem C01_exec_no_panic_partial : forall E, ftab_wf (e_ftab E) = true ->
  forall fuel m, machine_ok m -> res_ok (exec fuel E m).
Proof.
  intros E Hft. induction fuel as [|f IH]; intros m Hm; [exact Logic.I|].
  cbn [exec]. destruct Hm as (W1 & W2 & F & Hpc).
  destruct (zlen (fr_code (m_fr m)) <=? fr_pc (m_fr m)) eqn:Hlen; [destruct (fr_err (m_fr m)); exact Logic.I|].
  apply Z.leb_gt in Hlen.
  destruct (count_op E m) as [m1 over] eqn:Hc. pose proof (count_op_frame _ _ _ _ Hc) as Hfr.
  destruct over; [exact Logic.I|]. destruct (fr_err (m_fr m)); [exact Logic.I|].
  destruct (fr_top (m_fr m) =? stack_size) eqn:Htop; [exact Logic.I|]. apply Z.eqb_neq in Htop.
  destruct (fr_pc (m_fr m) <? 0) eqn:Hneg; [apply Z.ltb_lt in Hneg; lia|].
  destruct (nth_error (fr_code (m_fr m)) (Z.to_nat (fr_pc (m_fr m)))) as [[op o]|] eqn:Hn.
  2:{ exfalso. exact (nth_error_in_range _ _ _ Hpc Hlen Hn). }
  assert (Hmid : mid (fr_code (m_fr m)) (fr_src (m_fr m)) (fr_pc (m_fr m)) (m_fr m1)).
  { rewrite Hfr. unfold mid. split; [exact F|]. split; [|reflexivity]. destruct F as (_ & _ & Ht & _). lia. }
  pose proof (C01_step_no_panic_partial (exec f E) f E _ _ _ Hpc Hft IH op o m1 _ Hmid
                (code_wf_nth _ _ _ W1 Hn) (spans_wf_nth _ _ _ _ W2 Hn)) as HQ.
  destruct (step (exec f E) f E {| i_op := op; i_arg := o |} m1) as [m2|m2|e m2|s| |s]; try exact Logic.I.
  - apply IH. cbn [Q] in HQ. destruct HQ as [F2 P2].
    unfold machine_ok; cbn [m_fr]. unfold frame_ok in *. fr_unfold.
    destruct F2 as (C2 & S2 & R2). rewrite C2, S2. repeat (split; [tauto|]). lia.
  - exact HQ.
Qed.

Theorem C01_run_no_panic_partial : forall E c src,
  code_wf c = true -> spans_wf (Some src) c = true -> ftab_wf (e_ftab E) = true ->
  forall fuel st, match run fuel E c src st with OPanic s => allowed s | _ => True end.
Proof.
  intros E c src W1 W2 Hft fuel st. unfold run.
  match goal with |- context [exec fuel E ?m] =>
    pose proof (C01_exec_no_panic_partial E Hft fuel m (new_frame_machine_ok _ _ _ W1 W2)) as H;
    destruct (exec fuel E m) end; try exact Logic.I. exact H.
Qed.
