(* Proofs about Model/Detail.v: no panic, shape of the process text (forward splice), stripping the
   annotations, purity/idempotence of GetDetailText. *)
From Coq Require Import String Ascii NArith ZArith List Bool Lia Arith Sorted.
From Coq Require Import ZifyBool ZifyNat.
From DS Require Import Model.Str Model.Detail.
Import ListNotations.
Open Scope string_scope.

(* ------------------------------------------------------------------ byte strings *)
Lemma sapp_nil_r (s : string) : s ++ "" = s.
Proof. induction s; cbn; congruence. Qed.
Lemma sapp_assoc3 (a b c : string) : (a ++ b) ++ c = a ++ (b ++ c).
Proof. induction a; cbn; congruence. Qed.
Lemma slen_app (a b : string) : String.length (a ++ b) = String.length a + String.length b.
Proof. induction a; cbn; congruence. Qed.

Lemma stake_sdrop n s : stake n s ++ sdrop n s = s.
Proof. revert s; induction n; intros [|c r]; cbn; try reflexivity. now rewrite IHn. Qed.
Lemma slen_stake n s : n <= String.length s -> String.length (stake n s) = n.
Proof. revert s; induction n; intros [|c r]; cbn; intros; try lia. rewrite IHn; lia. Qed.
Lemma slen_sdrop n s : String.length (sdrop n s) = String.length s - n.
Proof. revert s; induction n; intros [|c r]; cbn; try lia. apply IHn. Qed.
Lemma stake_app_exact a b : stake (String.length a) (a ++ b) = a.
Proof. induction a; cbn; [destruct b; reflexivity| congruence]. Qed.
Lemma sdrop_app_exact a b : sdrop (String.length a) (a ++ b) = b.
Proof. induction a; cbn; auto. Qed.
Lemma stake_stake n m s : n <= m -> stake n (stake m s) = stake n s.
Proof.
  revert m s; induction n; intros m s H; [destruct (stake m s); reflexivity|].
  destruct m; [lia|]. destruct s; cbn; [reflexivity|]. rewrite IHn; [reflexivity|lia].
Qed.
Lemma sdrop_sdrop n m s : sdrop n (sdrop m s) = sdrop (m + n) s.
Proof.
  revert s; induction m; intros s; cbn; [reflexivity|].
  destruct s; [destruct n; reflexivity|]. apply IHm.
Qed.
Lemma sdrop_stake n m s : sdrop n (stake m s) = stake (m - n) (sdrop n s).
Proof.
  revert m s; induction n; intros m s; cbn.
  - now rewrite Nat.sub_0_r.
  - destruct m; cbn; [destruct (sdrop (S n) s); destruct s; reflexivity|].
    destruct s; cbn; [destruct (m - n); reflexivity|]. apply IHn.
Qed.
Lemma stake_all n s : String.length s <= n -> stake n s = s.
Proof. revert s; induction n; intros [|c r]; cbn; intros; try reflexivity; try lia. rewrite IHn; [reflexivity|lia]. Qed.

(* s[p:] = s[p:q] ++ s[q:] *)
Lemma sdrop_split s p q : p <= q -> sdrop p s = ssub s p q ++ sdrop q s.
Proof.
  intros H. unfold ssub. replace q with (p + (q - p)) at 2 by lia.
  rewrite <- sdrop_sdrop. now rewrite stake_sdrop.
Qed.
(* s[p:b] = s[p:q] ++ s[q:b] *)
Lemma ssub_split s p q b : p <= q -> q <= b -> ssub s p b = ssub s p q ++ ssub s q b.
Proof.
  intros H1 H2. unfold ssub.
  replace (stake (q - p) (sdrop p s)) with (stake (q - p) (stake (b - p) (sdrop p s))) by (apply stake_stake; lia).
  replace (stake (b - q) (sdrop q s)) with (sdrop (q - p) (stake (b - p) (sdrop p s))).
  - now rewrite stake_sdrop.
  - rewrite sdrop_stake, sdrop_sdrop. f_equal; [lia|f_equal; lia].
Qed.
Lemma ssub_0 s q : ssub s 0 q = stake q s.
Proof. unfold ssub. cbn. now rewrite Nat.sub_0_r. Qed.
(* reading below q only depends on the first q bytes *)
Lemma ssub_stake s q b e : e <= q -> ssub (stake q s) b e = ssub s b e.
Proof.
  intros H. unfold ssub. rewrite sdrop_stake. apply stake_stake. lia.
Qed.
Lemma ssub_agree s t q b e : stake q s = stake q t -> e <= q -> ssub s b e = ssub t b e.
Proof. intros E H. rewrite <- (ssub_stake s q b e H), <- (ssub_stake t q b e H). now rewrite E. Qed.
Lemma stake_len_ge s t q : stake q s = stake q t -> q <= String.length t -> q <= String.length s.
Proof.
  intros E H. assert (L : String.length (stake q s) = q) by (rewrite E; apply slen_stake; exact H).
  clear E. revert s L. induction q; intros s L; [lia|].
  destruct s; cbn in L; [discriminate|]. cbn. apply le_n_S. apply IHq; [lia|]. lia.
Qed.

(* ------------------------------------------------------------------ forward splice *)
Definition repl : Type := (nat * nat * string)%type.
Fixpoint ranges_ok (len p : nat) (l : list repl) : Prop :=
  match l with
  | [] => p <= len
  | (b, e, _) :: l' => p <= b /\ b <= e /\ ranges_ok len e l'
  end.
Definition first_b (len : nat) (l : list repl) : nat :=
  match l with [] => len | (b, _, _) :: _ => b end.

Lemma ranges_ok_le len p l : ranges_ok len p l -> p <= first_b len l /\ first_b len l <= len.
Proof.
  revert p; induction l as [|[[b e] r] l IH]; cbn; intros p H; [lia|].
  destruct H as (H1 & H2 & H3). apply IH in H3. cbn in *. destruct l as [|[[b' e'] r'] l']; cbn in *; lia.
Qed.

Lemma splice_shift src p q l :
  p <= q -> q <= first_b (String.length src) l -> splice src p l = ssub src p q ++ splice src q l.
Proof.
  intros H1 H2. destruct l as [|[[b e] r] l']; cbn in *.
  - apply sdrop_split; exact H1.
  - rewrite (ssub_split src p q b) by lia. now rewrite sapp_assoc3.
Qed.

(* the first q bytes (q up to the first replaced range) are those of the source; the rest is the splice from q *)
Lemma splice_prefix src q l :
  q <= first_b (String.length src) l -> first_b (String.length src) l <= String.length src ->
  stake q (splice src 0 l) = stake q src /\ sdrop q (splice src 0 l) = splice src q l.
Proof.
  intros H1 H2. rewrite (splice_shift src 0 q l) by lia. rewrite ssub_0.
  assert (L : String.length (stake q src) = q) by (apply slen_stake; lia).
  split.
  - rewrite <- L at 1. apply stake_app_exact.
  - rewrite <- L at 1. apply sdrop_app_exact.
Qed.

(* ------------------------------------------------------------------ sorting by End *)
Lemma insert_end_Forall (P : span -> Prop) x l : P x -> Forall P l -> Forall P (insert_end x l).
Proof.
  intros Hx H. induction H; cbn; [constructor; auto|].
  destruct (sp_e x <=? sp_e x0)%Z; constructor; auto.
Qed.
Lemma sort_end_Forall (P : span -> Prop) l : Forall P l -> Forall P (sort_end l).
Proof. induction 1; cbn; [constructor|]. apply insert_end_Forall; auto. Qed.
Lemma insert_end_length x l : length (insert_end x l) = S (length l).
Proof. induction l; cbn; [reflexivity|]. destruct (sp_e x <=? sp_e a)%Z; cbn; congruence. Qed.
Lemma sort_end_length l : length (sort_end l) = length l.
Proof. induction l; cbn; [reflexivity|]. rewrite insert_end_length. congruence. Qed.
Lemma removelast_Forall {A} (P : A -> Prop) l : Forall P l -> Forall P (removelast l).
Proof. induction 1; cbn; [constructor|]. destruct l; [constructor|]. constructor; auto. Qed.
Lemma last_Forall {A} (P : A -> Prop) l d : Forall P l -> l <> [] -> P (last l d).
Proof.
  induction 1; intros Hn; [congruence|]. destruct l; cbn; [exact H|]. apply IHForall. discriminate.
Qed.

(* ------------------------------------------------------------------ the grouping loop *)
Section Groups.
  Variable offset : Z.

  Definition span_in (hi : Z) (s : span) : Prop := (0 <= sp_b s /\ sp_b s <= sp_e s /\ sp_e s <= hi)%Z.
  Definition group_ok (g : group) : Prop :=
    g_spans g <> [] /\ (0 <= g_b g /\ g_b g <= g_e g /\ g_e g <= offset)%Z /\ Forall (span_in (g_e g)) (g_spans g) /\
    (* the group starts where its first span starts and ends at the largest End of its spans *)
    g_b g = sp_b (hd dummy_span (g_spans g)) /\ g_tag g = sp_tag (hd dummy_span (g_spans g)) /\
    Exists (fun s => sp_e s = g_e g) (g_spans g).

  (* reversed list: the head is the latest group; consecutive groups are strictly separated *)
  Fixpoint sep_chain (m : list group) : Prop :=
    match m with
    | g :: (g' :: _) as r => (g_e g' < g_b g)%Z /\ sep_chain r
    | _ => True
    end.
  Definition last_end_of (m : list group) : Z := match m with [] => (-1)%Z | g :: _ => g_e g end.

  Lemma span_in_mono hi hi' s : (hi <= hi')%Z -> span_in hi s -> span_in hi' s.
  Proof. unfold span_in; lia. Qed.

  Lemma build_groups_inv l : forall m,
    Forall group_ok m -> sep_chain m ->
    exists m', build_groups offset l (last_end_of m) m = GOk m' /\ Forall group_ok m' /\ sep_chain m'.
  Proof.
    induction l as [|i r IH]; intros m Hok Hsep; cbn [build_groups].
    - exists m. auto.
    - destruct (span_skipped offset i) eqn:Esk; [apply IH; assumption|].
      unfold span_skipped in Esk.
      assert (Hi : (0 <= sp_b i /\ sp_b i <= sp_e i /\ sp_e i <= offset)%Z) by lia. clear Esk.
      destruct (last_end_of m <? sp_b i)%Z eqn:Enew.
      + (* a new group *)
        assert (E : (if (last_end_of m <? sp_e i)%Z then sp_e i else last_end_of m) = sp_e i).
        { destruct (last_end_of m <? sp_e i)%Z eqn:E1; [reflexivity|lia]. }
        rewrite E.
        change (sp_e i) with (last_end_of (mkGroup (sp_b i) (sp_e i) (sp_tag i) [i] :: m)) at 1.
        apply IH.
        * constructor; [|exact Hok]. unfold group_ok; cbn. split; [discriminate|]. split; [lia|].
          split; [constructor; [unfold span_in; lia|constructor]|].
          split; [reflexivity|]. split; [reflexivity|]. constructor. reflexivity.
        * destruct m as [|g m0]; cbn; [exact I|]. cbn in Enew. split; [lia|exact Hsep].
      + (* joins the latest group *)
        destruct m as [|g m0]; [cbn in Enew; lia|]. cbn [last_end_of] in *.
        set (e' := if (g_e g <? sp_e i)%Z then sp_e i else g_e g).
        change e' with (last_end_of (mkGroup (g_b g) e' (g_tag g) (g_spans g ++ [i]) :: m0)) at 1.
        inversion Hok as [|? ? Hg Hm0]; subst.
        destruct Hg as (Hne & Hb & Hsp & Hhd & Htg & Hex).
        assert (He' : (g_e g <= e' /\ sp_e i <= e' /\ e' <= offset)%Z) by (unfold e'; destruct (g_e g <? sp_e i)%Z eqn:E1; lia).
        apply IH.
        * constructor; [|exact Hm0]. unfold group_ok; cbn. split; [destruct (g_spans g); discriminate|].
          split; [lia|]. split; [apply Forall_app; split|].
          -- eapply Forall_impl; [|exact Hsp]. intros s Hs. eapply span_in_mono; [|exact Hs]. lia.
          -- constructor; [unfold span_in; lia|constructor].
          -- split; [destruct (g_spans g); [congruence|exact Hhd]|].
             split; [destruct (g_spans g); [congruence|exact Htg]|].
             apply Exists_app. unfold e'. destruct (g_e g <? sp_e i)%Z eqn:E1.
             ++ right. constructor. reflexivity.
             ++ left. exact Hex.
        * destruct m0 as [|g' m1]; cbn; [exact I|]. cbn in Hsep. exact Hsep.
  Qed.
End Groups.

Lemma build_groups_ok offset spans :
  exists m, build_groups offset spans (-1)%Z [] = GOk m /\ Forall (group_ok offset) m /\ sep_chain m.
Proof. apply (build_groups_inv offset spans []); [constructor|exact I]. Qed.

(* ------------------------------------------------------------------ one rendering step *)
Lemma map_ext_Forall {A B} (f g : A -> B) l : Forall (fun x => f x = g x) l -> map f l = map g l.
Proof. induction 1; cbn; congruence. Qed.

Lemma annotation_agree n s t q g :
  stake q s = stake q t -> Forall (span_in (g_e g)) (g_spans g) -> (0 <= g_e g)%Z -> Z.to_nat (g_e g) <= q ->
  annotation n s g = annotation n t g.
Proof.
  intros E Hsp H0 Hq. unfold annotation, annotation_with.
  assert (Hb : ssub s (Z.to_nat (g_b g)) (Z.to_nat (g_e g)) = ssub t (Z.to_nat (g_b g)) (Z.to_nat (g_e g)))
    by (eapply ssub_agree; eauto).
  assert (Hm : map (fun x => ssub s (Z.to_nat (sp_b x)) (Z.to_nat (sp_e x)) ++ "=" ++ sp_ret x) (removelast (sort_end (g_spans g)))
             = map (fun x => ssub t (Z.to_nat (sp_b x)) (Z.to_nat (sp_e x)) ++ "=" ++ sp_ret x) (removelast (sort_end (g_spans g)))).
  { apply map_ext_Forall. apply removelast_Forall. apply sort_end_Forall.
    eapply Forall_impl; [|exact Hsp]. intros x Hx. cbv beta. f_equal.
    eapply ssub_agree; [exact E|]. unfold span_in in Hx. lia. }
  rewrite Hb, Hm. reflexivity.
Qed.

Lemma slices_ok_true offset s g :
  group_ok offset g -> Z.to_nat (g_e g) <= String.length s -> slices_ok s g = true.
Proof.
  intros (Hne & Hb & Hsp & _) Hl. unfold slices_ok.
  apply andb_true_iff. split; [lia|].
  apply forallb_forall. intros x Hx.
  assert (F : Forall (span_in (g_e g)) (removelast (sort_end (g_spans g))))
    by (apply removelast_Forall, sort_end_Forall; exact Hsp).
  rewrite Forall_forall in F. specialize (F x Hx). unfold span_in in F. lia.
Qed.

Lemma render_group_nonempty n cur g :
  g_spans g <> [] ->
  render_group n (DText cur) g =
  if slices_ok cur g then
    DText (stake (Z.to_nat (g_b g)) cur ++ group_ret g ++ annotation n cur g ++ sdrop (Z.to_nat (g_e g)) cur)
  else DPanic.
Proof. intros H. unfold render_group. destruct (g_spans g); [congruence|reflexivity]. Qed.

Lemma render_step offset n src g l :
  group_ok offset g -> (offset <= Z.of_nat (String.length src))%Z ->
  ranges_ok (String.length src) 0 l -> Z.to_nat (g_e g) <= first_b (String.length src) l ->
  render_group n (DText (splice src 0 l)) g = DText (splice src 0 (replacement n src g :: l)).
Proof.
  intros Hg Hoff Hr Hq. pose proof Hg as (Hne & Hb & Hsp & _).
  apply ranges_ok_le in Hr. destruct Hr as [_ Hfl].
  destruct (splice_prefix src (Z.to_nat (g_e g)) l Hq Hfl) as [P1 P2].
  rewrite render_group_nonempty by exact Hne.
  rewrite (slices_ok_true offset); [|exact Hg|eapply stake_len_ge; [exact P1|lia]].
  f_equal. unfold replacement. cbn [splice]. rewrite ssub_0.
  rewrite (annotation_agree n (splice src 0 l) src (Z.to_nat (g_e g)) g P1 Hsp) by lia.
  rewrite P2.
  replace (stake (Z.to_nat (g_b g)) (splice src 0 l)) with (stake (Z.to_nat (g_b g)) src).
  - now rewrite !sapp_assoc3.
  - rewrite <- (stake_stake (Z.to_nat (g_b g)) (Z.to_nat (g_e g)) (splice src 0 l)) by lia.
    rewrite P1. symmetry. apply stake_stake. lia.
Qed.

Lemma fold_render offset n src : forall m l,
  Forall (group_ok offset) m -> sep_chain m -> (offset <= Z.of_nat (String.length src))%Z ->
  ranges_ok (String.length src) 0 l ->
  Z.to_nat (last_end_of m) <= first_b (String.length src) l ->
  (m <> [] -> l <> [] -> Z.to_nat (last_end_of m) < first_b (String.length src) l) ->
  fold_left (render_group n) m (DText (splice src 0 l)) =
  DText (splice src 0 (map (replacement n src) (rev m) ++ l)) /\
  ranges_ok (String.length src) 0 (map (replacement n src) (rev m) ++ l).
Proof.
  induction m as [|g m IH]; intros l Hok Hsep Hoff Hr Hq Hq'; cbn [fold_left rev map app].
  - split; [reflexivity|exact Hr].
  - inversion Hok as [|? ? Hg Hm]; subst. cbn [last_end_of] in Hq.
    rewrite (render_step offset n src g l Hg Hoff Hr Hq).
    pose proof Hg as (Hne & Hb & Hsp & _).
    assert (Hsep' : sep_chain m /\ (m <> [] -> (last_end_of m < g_b g)%Z)).
    { destruct m as [|g' m']; cbn in *; [split; [exact I|congruence]|]. destruct Hsep. split; [assumption|intros _; lia]. }
    destruct Hsep' as [Hs1 Hs2].
    destruct (IH (replacement n src g :: l)) as [E R]; try assumption.
    + cbn. repeat split; try lia. apply ranges_ok_le in Hr as Hr'.
      destruct l as [|[[b e] r] l']; cbn in *; [lia|]. repeat split; try lia. tauto.
    + unfold replacement. cbn [first_b]. destruct m as [|g' m']; [cbn; lia|].
      specialize (Hs2 ltac:(discriminate)). cbn [last_end_of] in *. lia.
    + intros Hm' _. unfold replacement. cbn [first_b]. specialize (Hs2 Hm'). destruct m; [congruence|].
      cbn [last_end_of] in *. inversion Hm as [|? ? Hg' ?]; subst. destruct Hg' as (_ & Hb' & _). lia.
    + rewrite E. rewrite map_app. cbn [map]. rewrite <- !app_assoc. cbn [app]. split; [reflexivity|].
      exact R.
Qed.

(* ------------------------------------------------------------------ no panic + shape, for ALL span lists *)
Theorem detail_shape_all data offset spans ret :
  offset <= String.length data ->
  let src := stake offset data in
  let gs := groups_of offset spans in
  make_detail_res data offset spans ret =
    DText (finish (splice src 0 (map (replacement (length gs) src) gs)) ret).
Proof.
  intros Hoff. cbv zeta. unfold make_detail_res.
  replace (Nat.leb offset (String.length data)) with true by (symmetry; apply Nat.leb_le; exact Hoff).
  cbn [negb]. unfold groups_of.
  destruct (build_groups_ok (Z.of_nat offset) spans) as (m & Em & Hok & Hsep). rewrite Em.
  assert (Hl : String.length (stake offset data) = offset) by (apply slen_stake; exact Hoff).
  remember (stake offset data) as src eqn:Esrc.
  destruct (fold_render (Z.of_nat offset) (length m) src m [] Hok Hsep) as [E _].
  - lia.
  - cbn. lia.
  - cbn [first_b]. destruct m as [|g m']; cbn [last_end_of]; [lia|].
    inversion Hok as [|? ? Hg ?]; subst. destruct Hg as (_ & Hb & _). lia.
  - intros _ Hn. congruence.
  - change (splice src 0 []) with src in E. rewrite E. rewrite app_nil_r, rev_length. reflexivity.
Qed.

Theorem make_detail_no_panic data offset spans ret :
  offset <= String.length data -> make_detail_res data offset spans ret <> DPanic.
Proof. intros H. rewrite detail_shape_all by exact H. discriminate. Qed.

(* what the groups are: inside [0, offset], strictly separated, in increasing order; every span of a group lies
   inside the group; nothing but skipped spans is lost *)
Fixpoint sep_fwd (l : list group) : Prop :=
  match l with
  | g :: (g' :: _) as r => (g_e g < g_b g')%Z /\ sep_fwd r
  | _ => True
  end.
Lemma sep_chain_rev m : sep_chain m -> sep_fwd (rev m).
Proof.
  assert (G : forall m acc, sep_chain m -> sep_fwd acc ->
             (forall g a, hd_error m = Some g -> hd_error acc = Some a -> (g_e g < g_b a)%Z) ->
             sep_fwd (rev_append m acc)).
  { induction m0 as [|g m0 IH]; intros acc H1 H2 H3; cbn; [exact H2|].
    apply IH.
    - destruct m0; cbn in *; [exact I|tauto].
    - destruct acc as [|a acc']; cbn; [exact I|]. split; [apply H3; reflexivity|exact H2].
    - intros g' a Hg' Ha. cbn in Ha. inversion Ha; subst. destruct m0; cbn in *; [discriminate|].
      inversion Hg'; subst. tauto. }
  intros H. rewrite rev_alt. apply G; [exact H|exact I|]. intros g a _ Ha. discriminate.
Qed.

Theorem groups_wf offset spans :
  let gs := groups_of offset spans in
  Forall (group_ok (Z.of_nat offset)) gs /\ sep_fwd gs.
Proof.
  cbn. unfold groups_of. destruct (build_groups_ok (Z.of_nat offset) spans) as (m & Em & Hok & Hsep). rewrite Em.
  split; [apply Forall_rev; exact Hok|apply sep_chain_rev; exact Hsep].
Qed.

(* concat of the groups' spans = the spans that pass the filter, in order *)
Lemma build_groups_concat offset l : forall lastEnd m m',
  build_groups offset l lastEnd m = GOk m' ->
  concat (map g_spans (rev m')) = (concat (map g_spans (rev m)) ++ filter (fun s => negb (span_skipped offset s)) l)%list.
Proof.
  induction l as [|i r IH]; intros lastEnd m m' H; cbn [build_groups filter] in *.
  - inversion H; subst. now rewrite app_nil_r.
  - destruct (span_skipped offset i) eqn:Esk; cbn [negb].
    + eapply IH; exact H.
    + destruct (lastEnd <? sp_b i)%Z.
      * apply IH in H. rewrite H. cbn [rev map]. rewrite map_app, concat_app. cbn. now rewrite <- !app_assoc.
      * destruct m as [|g m0]; [discriminate|]. apply IH in H. rewrite H. cbn [rev map].
        rewrite !map_app, !concat_app. cbn. rewrite !app_nil_r. now rewrite <- !app_assoc.
Qed.
Theorem groups_partition offset spans :
  concat (map g_spans (groups_of offset spans)) =
  filter (fun s => negb (span_skipped (Z.of_nat offset) s)) spans.
Proof.
  unfold groups_of. destruct (build_groups_ok (Z.of_nat offset) spans) as (m & Em & _). rewrite Em.
  apply build_groups_concat in Em. exact Em.
Qed.

(* ------------------------------------------------------------------ stripping the annotations *)
Fixpoint nobr (s : string) : bool :=
  match s with
  | EmptyString => true
  | String c r => negb (Ascii.eqb c lbr) && negb (Ascii.eqb c rbr) && nobr r
  end.

Lemma nobr_app a b : nobr (a ++ b) = nobr a && nobr b.
Proof. induction a; cbn; [reflexivity|]. rewrite IHa. now rewrite !andb_assoc. Qed.
Lemma nobr_stake n s : nobr s = true -> nobr (stake n s) = true.
Proof.
  revert s; induction n; intros [|c r]; cbn; auto. intros H.
  apply andb_true_iff in H. destruct H as [H1 H2]. rewrite H1. cbn. auto.
Qed.
Lemma nobr_sdrop n s : nobr s = true -> nobr (sdrop n s) = true.
Proof.
  revert s; induction n; intros [|c r]; cbn; auto. intros H.
  apply andb_true_iff in H. destruct H as [H1 H2]. auto.
Qed.
Lemma nobr_ssub s b e : nobr s = true -> nobr (ssub s b e) = true.
Proof. intros. unfold ssub. now apply nobr_stake, nobr_sdrop. Qed.
Lemma nobr_join sep l : nobr sep = true -> Forall (fun x => nobr x = true) l -> nobr (join sep l) = true.
Proof.
  intros Hs H. induction H as [|x l Hx Hl IH]; cbn; [reflexivity|].
  destruct l; [exact Hx|]. rewrite !nobr_app, Hx, Hs. exact IH.
Qed.

Lemma strip_nobr_app a b : nobr a = true -> strip_go 0 (a ++ b) = a ++ strip_go 0 b.
Proof.
  induction a as [|c r IH]; cbn; intros H; [reflexivity|].
  apply andb_true_iff in H. destruct H as [H1 H2]. apply andb_true_iff in H1. destruct H1 as [H0 H1].
  destruct (Ascii.eqb c lbr); [discriminate|]. now rewrite IH.
Qed.
Lemma strip_in_bracket body rest : nobr body = true -> strip_go 1 (body ++ String rbr rest) = strip_go 0 rest.
Proof.
  induction body as [|c r IH]; cbn; intros H; [reflexivity|].
  apply andb_true_iff in H. destruct H as [H1 H2]. apply andb_true_iff in H1. destruct H1 as [H0 H1].
  destruct (Ascii.eqb c lbr); [discriminate|]. destruct (Ascii.eqb c rbr); [discriminate|]. now apply IH.
Qed.
Lemma strip_bracket body rest :
  nobr body = true -> strip_go 0 (("[" ++ body ++ "]") ++ rest) = strip_go 0 rest.
Proof.
  intros H. cbn. rewrite sapp_assoc3. cbn. now apply strip_in_bracket.
Qed.

(* an annotation is either absent or one bracket group without inner brackets *)
Definition simple_annot (a : string) : Prop :=
  a = "" \/ exists body, a = "[" ++ body ++ "]" /\ nobr body = true.

Lemma strip_value_annot v a rest :
  nobr v = true -> simple_annot a -> strip_go 0 ((v ++ a) ++ rest) = v ++ strip_go 0 rest.
Proof.
  intros Hv [->|(body & -> & Hb)].
  - rewrite sapp_nil_r. now apply strip_nobr_app.
  - rewrite sapp_assoc3. rewrite strip_nobr_app by exact Hv. f_equal. now apply strip_bracket.
Qed.

Lemma strip_splice src (ann : group -> string) : nobr src = true -> forall gs p,
  Forall (fun g => nobr (group_ret g) = true /\ simple_annot (ann g)) gs ->
  strip_annotations (splice src p (map (fun g => (Z.to_nat (g_b g), Z.to_nat (g_e g), group_ret g ++ ann g)) gs)) =
  splice src p (map value_only gs).
Proof.
  intros Hs. unfold strip_annotations. induction gs as [|g gs IH]; intros p H; cbn [map splice].
  - rewrite <- (sapp_nil_r (sdrop p src)) at 1. rewrite strip_nobr_app by (now apply nobr_sdrop). cbn. apply sapp_nil_r.
  - inversion H as [|? ? [Hv Ha] Hr]; subst. unfold value_only at 1. cbn [splice].
    rewrite strip_nobr_app by (now apply nobr_ssub). f_equal.
    rewrite strip_value_annot by assumption. f_equal. apply IH. exact Hr.
Qed.

(* bracket-free dice spans *)
Definition span_clean (s : span) : Prop :=
  nobr (sp_ret s) = true /\ nobr (sp_text s) = true /\ nobr (sp_expr s) = true /\ nobr (sp_suffix s) = true /\
  sp_textonly s = false.
Lemma dummy_clean : span_clean dummy_span.
Proof. repeat split. Qed.
Lemma last_clean l : Forall span_clean l -> span_clean (last l dummy_span).
Proof. induction 1; cbn; [apply dummy_clean|]. destruct l; [assumption|]. exact IHForall. Qed.

Lemma annotation_simple (rd : nat -> nat -> string) n g :
  (forall b e, nobr (rd b e) = true) -> Forall span_clean (g_spans g) ->
  simple_annot (annotation_with rd n g) /\ nobr (group_ret g) = true.
Proof.
  intros Hrd Hc.
  assert (Hs : Forall span_clean (sort_end (g_spans g))) by (apply sort_end_Forall; exact Hc).
  pose proof (last_clean _ Hs) as (L1 & L2 & L3 & L4 & L5).
  split; [|exact L1].
  unfold annotation_with.
  set (lst := last (sort_end (g_spans g)) dummy_span) in *.
  set (parts := filter nonempty (map (fun s => rd (Z.to_nat (sp_b s)) (Z.to_nat (sp_e s)) ++ "=" ++ sp_ret s)
                                     (removelast (sort_end (g_spans g))))).
  assert (Hparts : Forall (fun x => nobr x = true) parts).
  { unfold parts. rewrite Forall_forall. intros x Hx. apply filter_In in Hx. destruct Hx as [Hx _].
    apply in_map_iff in Hx. destruct Hx as (s & <- & Hin).
    assert (F : Forall span_clean (removelast (sort_end (g_spans g)))) by (apply removelast_Forall; exact Hs).
    rewrite Forall_forall in F. destruct (F s Hin) as (R1 & _). rewrite !nobr_app, Hrd, R1. reflexivity. }
  set (subtxt := if Nat.ltb 1 (length (sort_end (g_spans g))) then
                   match parts with [] => "" | _ => "," ++ join "," parts end else "").
  assert (Hsub : nobr subtxt = true).
  { unfold subtxt. destruct (Nat.ltb 1 _); [|reflexivity].
    assert (J : nobr (join "," parts) = true) by (apply nobr_join; [reflexivity|exact Hparts]).
    destruct parts; [reflexivity|]. rewrite nobr_app, J. reflexivity. }
  set (base := rd (Z.to_nat (g_b g)) (Z.to_nat (g_e g))).
  assert (Hbase : nobr base = true) by apply Hrd.
  set (exprText := if nonempty (sp_expr lst) then sp_expr lst else base).
  assert (Hex : nobr exprText = true) by (unfold exprText; destruct (nonempty (sp_expr lst)); [exact L3|exact Hbase]).
  set (suffix0 := if nonempty (sp_suffix lst) then sp_suffix lst else "=").
  assert (Hsf : nobr suffix0 = true) by (unfold suffix0; destruct (nonempty (sp_suffix lst)); [exact L4|reflexivity]).
  rewrite L5.
  (* d2 = "[" ++ X with X bracket-free *)
  assert (D2 : exists X, nobr X = true /\
     (if String.eqb (g_tag g) "load" then "[" ++ exprText ++ (if nonempty (sp_text lst) then "," ++ sp_text lst else "")
      else if String.eqb (g_tag g) "load.computed"
           then (if nonempty (sp_text lst) && negb (String.eqb (sp_ret lst) (sp_text lst))
                 then ("[" ++ exprText) ++ suffix0 ++ sp_text lst else "[" ++ exprText) ++ suffix0 ++ sp_ret lst
           else (if nonempty (sp_text lst) && negb (String.eqb (sp_ret lst) (sp_text lst))
                 then ("[" ++ exprText) ++ suffix0 ++ sp_text lst else "[" ++ exprText)) = "[" ++ X).
  { destruct (String.eqb (g_tag g) "load").
    - eexists. split; [|reflexivity]. rewrite nobr_app, Hex. destruct (nonempty (sp_text lst)); [|reflexivity].
      rewrite nobr_app, L2. reflexivity.
    - destruct (nonempty (sp_text lst) && negb (String.eqb (sp_ret lst) (sp_text lst)));
        destruct (String.eqb (g_tag g) "load.computed"); cbn [append];
        eexists; (split; [|reflexivity]); rewrite ?nobr_app, ?Hex, ?Hsf, ?L1, ?L2; reflexivity. }
  destruct D2 as (X & HX & ->).
  match goal with |- simple_annot (if _ then _ else ?dd) => set (d4 := dd) end.
  assert (H4 : simple_annot d4).
  { unfold d4. destruct (Nat.eqb n 1 && _); [left; reflexivity|]. right. exists (X ++ subtxt). split.
    - cbn [append]. now rewrite sapp_assoc3.
    - now rewrite nobr_app, HX, Hsub. }
  destruct (Nat.ltb 400 (String.length d4)); [|exact H4].
  right. exists "略". split; reflexivity.
Qed.

(* ------------------------------------------------------------------ purity and idempotence of GetDetailText *)
Theorem get_detail_text_idem data offset spans ret cache :
  let '(t1, c1) := get_detail_text data offset spans ret cache in
  let '(t2, c2) := get_detail_text data offset spans ret c1 in
  t2 = t1 /\ c2 = c1.
Proof.
  unfold get_detail_text. destruct spans as [|s l]; [split; reflexivity|].
  destruct (nonempty cache) eqn:Ec.
  - rewrite Ec. split; reflexivity.
  - destruct (nonempty (make_detail data offset (s :: l) ret)) eqn:Et; [split; reflexivity|].
    split; reflexivity.
Qed.

Theorem get_detail_text_vm_pure {V R} (st : vmstate V R) :
  let '(t, st') := get_detail_text_vm st in
  vm_ret st' = vm_ret st /\ vm_vars st' = vm_vars st /\ vm_rng st' = vm_rng st /\
  vm_data st' = vm_data st /\ vm_offset st' = vm_offset st /\ vm_spans st' = vm_spans st /\
  (* a second request returns the same text and leaves the state as it is *)
  get_detail_text_vm st' = (t, st') /\
  (* right after Parse (cache = "") the text is a function of (data, offset, spans, ret) alone *)
  (vm_cache st = "" -> t = match vm_spans st with [] => "" | _ => make_detail (vm_data st) (vm_offset st) (vm_spans st) (vm_ret st) end).
Proof.
  unfold get_detail_text_vm.
  pose proof (get_detail_text_idem (vm_data st) (vm_offset st) (vm_spans st) (vm_ret st) (vm_cache st)) as H.
  destruct (get_detail_text (vm_data st) (vm_offset st) (vm_spans st) (vm_ret st) (vm_cache st)) as [t c] eqn:E1.
  cbn [vm_ret vm_vars vm_rng vm_data vm_offset vm_spans vm_cache].
  destruct (get_detail_text (vm_data st) (vm_offset st) (vm_spans st) (vm_ret st) c) as [t2 c2] eqn:E2.
  destruct H as [-> ->].
  repeat split.
  intros Hc. unfold get_detail_text in E1. rewrite Hc in E1. destruct (vm_spans st); cbn in E1; inversion E1; reflexivity.
Qed.

(* ------------------------------------------------------------------ C14: shape for well-formed span lists *)
(* what a run of the fragment records: every span inside the matched text, sorted by Begin (solveDetail) *)
Definition wf_spans (offset : nat) (spans : list span) : Prop :=
  Forall (span_in (Z.of_nat offset)) spans /\
  StronglySorted (fun a b => (sp_b a <= sp_b b)%Z) spans.

Lemma filter_all {A} (f : A -> bool) l : Forall (fun x => f x = true) l -> filter f l = l.
Proof. induction 1; cbn; [reflexivity|]. rewrite H. congruence. Qed.

Theorem detail_shape data offset spans ret :
  offset <= String.length data -> wf_spans offset spans ->
  let src := stake offset data in
  let gs := groups_of offset spans in
  (* the text: source with each group [b,e) replaced by value ++ annotation, then the final rule *)
  make_detail data offset spans ret = finish (splice src 0 (map (replacement (length gs) src) gs)) ret /\
  (* the groups: inside the matched text, strictly separated, in source order; no span is lost *)
  Forall (group_ok (Z.of_nat offset)) gs /\ sep_fwd gs /\ concat (map g_spans gs) = spans.
Proof.
  intros Hoff [Hin Hsort]. cbv zeta.
  split; [unfold make_detail; rewrite detail_shape_all by exact Hoff; reflexivity|].
  destruct (groups_wf offset spans) as [G1 G2]. split; [exact G1|]. split; [exact G2|].
  rewrite groups_partition. apply filter_all.
  eapply Forall_impl; [|exact Hin]. intros s Hs. unfold span_in in Hs. unfold span_skipped. lia.
Qed.

Lemma Forall_concat_groups (P : span -> Prop) gs :
  Forall P (concat (map g_spans gs)) -> Forall (fun g => Forall P (g_spans g)) gs.
Proof.
  induction gs as [|g gs IH]; cbn; intros H; [constructor|].
  apply Forall_app in H. destruct H. constructor; auto.
Qed.
Lemma Forall_filter {A} (P : A -> Prop) f l : Forall P l -> Forall P (filter f l).
Proof. induction 1; cbn; [constructor|]. destruct (f x); [constructor|]; auto. Qed.

(* stripping the annotations of the (untrimmed) text gives the source with each top-level roll replaced by its value *)
Theorem strip_is_source_with_values data offset spans :
  let src := stake offset data in
  let gs := groups_of offset spans in
  nobr src = true -> Forall span_clean spans ->
  strip_annotations (splice src 0 (map (replacement (length gs) src) gs)) = splice src 0 (map value_only gs).
Proof.
  cbv zeta. intros Hs Hc.
  set (src := stake offset data). set (gs := groups_of offset spans).
  assert (Hg : Forall (fun g => Forall span_clean (g_spans g)) gs).
  { apply Forall_concat_groups. unfold gs. rewrite groups_partition. apply Forall_filter. exact Hc. }
  unfold replacement.
  apply (strip_splice src (fun g => annotation (length gs) src g) Hs gs 0).
  eapply Forall_impl; [|exact Hg]. intros g Hgc. cbv beta.
  destruct (annotation_simple (ssub src) (length gs) g) as [A1 A2]; [intros; now apply nobr_ssub|exact Hgc|].
  split; [exact A2|exact A1].
Qed.

(* ------------------------------------------------------------------ the annotation of a single dice span *)
Definition dice_span (b e : Z) (num : Z) (txt tag : string) : span :=
  mkSpan b e (show_Z num) txt "" tag false "".
Definition dice_group (b e : Z) (num : Z) (txt tag : string) : group :=
  mkGroup b e tag [dice_span b e num txt tag].

Lemma string_eqb_false_tag tag : tag <> "load" -> tag <> "load.computed" ->
  String.eqb tag "load" = false /\ String.eqb tag "load.computed" = false.
Proof. intros H1 H2. split; apply String.eqb_neq; assumption. Qed.

(* value[source=dice text] — or value[source] when the dice text is the value itself (rule 1.1), nothing when
   that is the whole input (rule 1.3), [略] above 400 bytes *)
Theorem dice_annotation_format rd n b e num txt tag :
  tag <> "load" -> tag <> "load.computed" ->
  let base := rd (Z.to_nat b) (Z.to_nat e) in
  let body := if nonempty txt && negb (String.eqb (show_Z num) txt) then base ++ "=" ++ txt else base in
  let d3 := "[" ++ body ++ "]" in
  let d4 := if Nat.eqb n 1 && String.eqb d3 ("[" ++ base ++ "]") then "" else d3 in
  group_ret (dice_group b e num txt tag) = show_Z num /\
  annotation_with rd n (dice_group b e num txt tag) = if Nat.ltb 400 (String.length d4) then "[略]" else d4.
Proof.
  intros H1 H2. cbv zeta. split; [reflexivity|].
  destruct (string_eqb_false_tag tag H1 H2) as [E1 E2].
  unfold annotation_with, dice_group, dice_span.
  cbn [g_spans g_b g_e g_tag sort_end insert_end last removelast map filter length Nat.ltb Nat.leb
       sp_expr sp_ret sp_text sp_suffix sp_textonly sp_b sp_e nonempty].
  rewrite E1, E2.
  destruct (nonempty txt && negb (String.eqb (show_Z num) txt)); cbn [append]; rewrite ?sapp_assoc3; cbn [append]; reflexivity.
Qed.

(* ------------------------------------------------------------------ C14: the value before the bracket is the total of the dice listed *)
From DS Require Import Model.PCG Model.Roll Model.Dice Proofs.DiceProofs.

Section Totals.
  Variable S : Type.
  Variable next : S -> N * S.
  Hypothesis next_word : forall s, (fst (next s) < W64)%N.
  Open Scope Z_scope.

  (* XdY with every modifier: the span the VM records is (show_Z num, txt); txt lists `times` dice, `pick` of them
     before the bar; num is their total; and the text determines the dice and the bar position, hence the total *)
  Theorem annotation_total_common fuel times d dmin dmax keep lo hi mode s num txt s' :
    0 <= times -> 1 <= d <= MaxInt64 - 1 ->
    roll_common next fuel times d dmin dmax keep lo hi mode s = Done ((num, txt), s') ->
    let pick := pick_num times keep lo hi in
    exists shown : list Z,
      Z.of_nat (length shown) = times /\ 0 <= pick <= times /\
      txt = common_text times pick shown /\
      num = sum64 (firstn (Z.to_nat pick) shown) /\
      (forall shown' pick', 0 <= pick' <= times -> Z.of_nat (length shown') = times ->
         common_text times pick' shown' = txt ->
         shown' = shown /\ pick' = pick /\ sum64 (firstn (Z.to_nat pick') shown') = num).
  Proof.
    intros Ht Hd H. cbv zeta.
    destruct (roll_common_legal S next next_word fuel times d dmin dmax keep lo hi mode s num txt s' Ht Hd H)
      as (draws & shown & _ & _ & Hl & _ & _ & _ & _ & Hn & Htxt).
    pose proof (pick_num_range times keep lo hi Ht) as Hp.
    exists shown. split; [exact Hl|]. split; [exact Hp|]. split; [exact Htxt|]. split; [exact Hn|].
    intros shown' pick' Hp' Hl' E. rewrite Htxt in E.
    destruct (common_text_inj times pick' (pick_num times keep lo hi) shown' shown Hp' Hp Hl' Hl E) as [-> ->].
    split; [reflexivity|]. split; [reflexivity|]. symmetry. exact Hn.
  Qed.

  (* Fate: four symbols, value = number of '+' minus number of '-' *)
  Theorem annotation_total_fate fuel mode s sum txt s' :
    roll_fate next fuel mode s = Done ((sum, txt), s') ->
    String.length txt = 4%nat /\ Forall fate_char (list_ascii_of_string txt) /\
    sum = count_char "+" txt - count_char "-" txt.
  Proof.
    intros H. destruct (roll_fate_spec S next next_word fuel mode s sum txt s' H) as (A & B & C & _). auto.
  Qed.

  (* CoC bonus / penalty: the text lists the D100 roll and the extra tens digits; the value is the best / worst
     combination of a listed tens digit with the units digit *)
  Theorem annotation_total_coc fuel isBonus diceNum mode s num txt s' :
    0 <= diceNum ->
    roll_coc next fuel isBonus diceNum mode s = Done ((num, txt), s') ->
    exists (res : Z) (digits : list Z),
      txt = "(D100=" ++ show_Z res ++ (if isBonus then ",奖励" else ",惩罚") ++ join " " (map show_Z digits) ++ ")" /\
      Z.of_nat (length digits) = diceNum /\
      (let u := res mod 10 in
       let t0 := (res / 10) mod 10 in
       num = (if isBonus
              then fold_right Z.min (coc_val t0 u) (map (fun c => coc_val c u) digits)
              else fold_right Z.max (coc_val t0 u) (map (fun c => coc_val c u) digits))).
  Proof.
    intros Hn H.
    destruct (roll_coc_spec S next next_word fuel isBonus diceNum mode s num txt s' Hn H)
      as (res & digits & _ & Hl & _ & Hv & _ & Ht).
    exists res, digits. auto.
  Qed.

  (* WoD / Double Cross: the text starts with the two counters; the value is the first of them *)
  Theorem annotation_total_wod_header rfuel fuel addLine pool points threshold isGE mode s succ all rounds txt s' :
    roll_wod next rfuel fuel addLine pool points threshold isGE mode s = Done ((succ, all, rounds, txt), s') ->
    exists tail, txt = "成功" ++ show_Z succ ++ "/" ++ show_Z all ++ tail.
  Proof.
    unfold roll_wod. intros H.
    destruct (wod_rounds next rfuel fuel addLine points threshold isGE mode pool (pool <? 15) pool 0 1 [] s)
      as [[[[[succ0 all0] rounds0] details] s1]|]; [|discriminate].
    inversion H; subst. eexists. reflexivity.
  Qed.
  Theorem annotation_total_dc_header rfuel fuel addLine pool points mode s result all rounds txt s' :
    roll_dc next rfuel fuel addLine pool points mode s = Done ((result, all, rounds, txt), s') ->
    exists head tail, txt = head ++ "出目" ++ show_Z result ++ "/" ++ show_Z all ++ tail /\ (head = "" \/ head = "大失败 ").
  Proof.
    unfold roll_dc. intros H.
    destruct (dc_rounds next rfuel fuel addLine points mode pool (pool <? 15) pool 0 1 [] s)
      as [[[[[result0 all0] rounds0] details] s1]|]; [|discriminate].
    cbv zeta in H. inversion H; subst.
    destruct (result =? 1).
    - exists "大失败 ". eexists. split; [|right; reflexivity]. reflexivity.
    - exists "". eexists. split; [|left; reflexivity]. reflexivity.
  Qed.
End Totals.
Open Scope nat_scope.
Open Scope string_scope.

(* ------------------------------------------------------------------ C14: the stripped text evaluates to the value *)
(* Full statement (for every fragment expression, any spacing): proved in full further down (`strip_evaluates`,
   a printer/parser round trip for eval_arith, decimal rendering included).  First a bounded instance proved by
   exhaustive evaluation; the check also evaluates eval_arith (strip_annotations text) inside Coq on every text
   Go produced for the fragment stream (Corr14.c14_eval_ok). *)
Definition strip_evaluates_statement : Prop :=
  forall e : aexp, prec_ok e = true -> eval_arith (aprint e) = Some (avalue e).

Definition sample_atoms : list aexp := [ANum 0; ANum 12; ARoll (-3); ARoll 100].
Definition sample_ws : list string := [""; String (ascii_of_N 10) " "].
Definition sample_unary : list aexp :=
  (sample_atoms ++ flat_map (fun a => [ANeg " " a; APos "" a; ANeg "" (ANeg "" a)]) [ANum 7; ARoll (-3)])%list.
Definition sample_bin (ls rs : list aexp) (ops : list binop) (wss : list string) : list aexp :=
  flat_map (fun l => flat_map (fun r => flat_map (fun o => flat_map (fun w1 => map (fun w2 => ABin o l w1 w2 r) wss) wss) ops) rs) ls.
Definition sample_terms : list aexp := (sample_unary ++ sample_bin sample_unary sample_atoms [OMul] [""])%list.
Definition sample_level2 : list aexp :=
  (sample_atoms ++ map (fun e => AParen " " e "") (sample_bin [ANum 12; ARoll (-3)] [ANum 7; ARoll 100] [OAdd; OSub; OMul] [" "]))%list.
Definition sample_exprs : list aexp :=
  (sample_terms ++ sample_bin sample_terms sample_level2 [OAdd; OSub] sample_ws ++
   sample_bin (sample_bin sample_atoms sample_atoms [OAdd; OSub; OMul] [""]) sample_level2 [OAdd; OSub; OMul] [" "])%list.
Definition strip_eval_ok (e : aexp) : bool :=
  negb (prec_ok e) ||
  match eval_arith (aprint e) with Some v => Z.eqb v (avalue e) | None => false end.

Theorem strip_evaluates_partial :
  forall e, In e sample_exprs -> prec_ok e = true -> eval_arith (aprint e) = Some (avalue e).
Proof.
  assert (H : forallb strip_eval_ok sample_exprs = true) by (vm_compute; reflexivity).
  rewrite forallb_forall in H. intros e He Hp. specialize (H e He). unfold strip_eval_ok in H.
  rewrite Hp in H. cbn [negb orb] in H.
  destruct (eval_arith (aprint e)) as [v|]; [|discriminate]. apply Z.eqb_eq in H. congruence.
Qed.
Lemma sample_exprs_count : (1000 <=? length (filter prec_ok sample_exprs))%nat = true.
Proof. vm_compute. reflexivity. Qed.

(* ------------------------------------------------------------------ C14: full round trip printer -> evaluator *)
(* The full statement IS true: `strip_evaluates` below proves it for every e (no bound), by a printer -> parser
   round trip: decimal rendering is read back exactly (uval / read_digits_uint), each level of the evaluator
   consumes exactly the text of a sub-expression of that level (round_trip), and the fuel S (length text) is enough
   (the measure is the length of the printed text). *)
From Coq Require Decimal DecimalString DecimalPos.
(* characters *)
Lemma digit_not_ws c : is_digit c = true -> is_ws c = false.
Proof. unfold is_digit, is_ws. cbv zeta. lia. Qed.
Lemma digit_not_minus c : is_digit c = true -> Ascii.eqb c ch_minus = false.
Proof. intros H. destruct (Ascii.eqb_spec c ch_minus) as [->|]; [discriminate H|reflexivity]. Qed.
Lemma digit_not_plus c : is_digit c = true -> Ascii.eqb c ch_plus = false.
Proof. intros H. destruct (Ascii.eqb_spec c ch_plus) as [->|]; [discriminate H|reflexivity]. Qed.

Lemma skip_ws_app ws s : all_ws ws = true -> skip_ws (ws ++ s) = skip_ws s.
Proof.
  induction ws as [|c r IH]; cbn [all_ws append skip_ws]; [reflexivity|].
  intros H. apply andb_true_iff in H. destruct H as [H1 H2]. rewrite H1. auto.
Qed.

(* unfolding equations (the fuel is matched inside) *)
Section Unfold.
  Variable pe : string -> option (Z * string).
  Lemma parse_unary_eq f s :
    parse_unary pe f s =
    match skip_ws s with
    | String c r =>
      if Ascii.eqb c ch_minus then
        match f with
        | O => None
        | S k => match parse_unary pe k r with Some (v, rest) => Some ((- v)%Z, rest) | None => None end
        end
      else if Ascii.eqb c ch_plus then
        match f with O => None | S k => parse_unary pe k r end
      else parse_atom pe s
    | EmptyString => None
    end.
  Proof. destruct f; reflexivity. Qed.
  Lemma term_rest_eq f acc s :
    term_rest pe f acc s =
    match skip_ws s with
    | String c r =>
      if Ascii.eqb c ch_star then
        match f with
        | O => None
        | S k => match parse_unary pe k r with
                 | Some (v, rest) => term_rest pe k (acc * v)%Z rest
                 | None => None
                 end
        end
      else Some (acc, s)
    | EmptyString => Some (acc, s)
    end.
  Proof. destruct f; reflexivity. Qed.
  Lemma expr_rest_eq f acc s :
    expr_rest pe f acc s =
    match skip_ws s with
    | String c r =>
      if Ascii.eqb c ch_plus then
        match f with
        | O => None
        | S k => match parse_term pe k r with
                 | Some (v, rest) => expr_rest pe k (acc + v)%Z rest
                 | None => None
                 end
        end
      else if Ascii.eqb c ch_minus then
        match f with
        | O => None
        | S k => match parse_term pe k r with
                 | Some (v, rest) => expr_rest pe k (acc - v)%Z rest
                 | None => None
                 end
        end
      else Some (acc, s)
    | EmptyString => Some (acc, s)
    end.
  Proof. destruct f; reflexivity. Qed.

  (* leading blanks *)
  Lemma parse_atom_ws ws s : all_ws ws = true -> parse_atom pe (ws ++ s) = parse_atom pe s.
  Proof. intros H. unfold parse_atom. rewrite (skip_ws_app ws s H). reflexivity. Qed.
  Lemma parse_unary_ws f ws s : all_ws ws = true -> parse_unary pe f (ws ++ s) = parse_unary pe f s.
  Proof.
    intros H. rewrite (parse_unary_eq f (ws ++ s)), (parse_unary_eq f s).
    rewrite (skip_ws_app ws s H), (parse_atom_ws ws s H). reflexivity.
  Qed.
  Lemma parse_term_ws f ws s : all_ws ws = true -> parse_term pe f (ws ++ s) = parse_term pe f s.
  Proof. intros H. unfold parse_term. rewrite (parse_unary_ws f ws s H). reflexivity. Qed.
  Lemma parse_expr_step_ws f ws s : all_ws ws = true -> parse_expr_step pe f (ws ++ s) = parse_expr_step pe f s.
  Proof. intros H. unfold parse_expr_step. rewrite (parse_term_ws f ws s H). reflexivity. Qed.

  (* continuations that end a level *)
  Definition nodigit (s : string) : bool :=
    match s with String c _ => negb (is_digit c) | EmptyString => true end.
  Definition nostar (s : string) : bool :=
    match skip_ws s with String c _ => negb (Ascii.eqb c ch_star) | EmptyString => true end.
  Definition noadd (s : string) : bool :=
    match skip_ws s with
    | String c _ => negb (Ascii.eqb c ch_plus) && negb (Ascii.eqb c ch_minus)
    | EmptyString => true
    end.

  Lemma term_rest_stop f acc s : nostar s = true -> term_rest pe f acc s = Some (acc, s).
  Proof.
    unfold nostar. intros H. rewrite term_rest_eq. destruct (skip_ws s) as [|c r]; [reflexivity|].
    destruct (Ascii.eqb c ch_star); [discriminate H|reflexivity].
  Qed.
  Lemma expr_rest_stop f acc s : noadd s = true -> expr_rest pe f acc s = Some (acc, s).
  Proof.
    unfold noadd. intros H. rewrite expr_rest_eq. destruct (skip_ws s) as [|c r]; [reflexivity|].
    destruct (Ascii.eqb c ch_plus); [discriminate H|].
    destruct (Ascii.eqb c ch_minus); [discriminate H|reflexivity].
  Qed.

  (* one operator *)
  Lemma term_rest_star f acc ws s :
    all_ws ws = true ->
    term_rest pe (S f) acc (ws ++ String "*" s) =
    match parse_unary pe f s with
    | Some (v, rest) => term_rest pe f (acc * v)%Z rest
    | None => None
    end.
  Proof. intros H. rewrite term_rest_eq, (skip_ws_app ws _ H). reflexivity. Qed.
  Lemma expr_rest_plus f acc ws s :
    all_ws ws = true ->
    expr_rest pe (S f) acc (ws ++ String "+" s) =
    match parse_term pe f s with
    | Some (v, rest) => expr_rest pe f (acc + v)%Z rest
    | None => None
    end.
  Proof. intros H. rewrite expr_rest_eq, (skip_ws_app ws _ H). reflexivity. Qed.
  Lemma expr_rest_minus f acc ws s :
    all_ws ws = true ->
    expr_rest pe (S f) acc (ws ++ String "-" s) =
    match parse_term pe f s with
    | Some (v, rest) => expr_rest pe f (acc - v)%Z rest
    | None => None
    end.
  Proof. intros H. rewrite expr_rest_eq, (skip_ws_app ws _ H). reflexivity. Qed.
  Lemma parse_unary_minus f ws s :
    all_ws ws = true ->
    parse_unary pe (S f) (String "-" (ws ++ s)) =
    match parse_unary pe f s with Some (v, rest) => Some ((- v)%Z, rest) | None => None end.
  Proof. intros H. rewrite parse_unary_eq. cbn [skip_ws]. change (is_ws "-") with false. cbv iota.
    change (Ascii.eqb "-" ch_minus) with true. cbv iota. rewrite (parse_unary_ws f ws s H). reflexivity. Qed.
  Lemma parse_unary_plus f ws s :
    all_ws ws = true ->
    parse_unary pe (S f) (String "+" (ws ++ s)) = parse_unary pe f s.
  Proof. intros H. rewrite parse_unary_eq. cbn [skip_ws]. change (is_ws "+") with false. cbv iota.
    change (Ascii.eqb "+" ch_minus) with false. change (Ascii.eqb "+" ch_plus) with true. cbv iota.
    apply parse_unary_ws, H. Qed.
  Lemma parse_unary_paren f s :
    parse_unary pe f (String "(" s) =
    match pe s with
    | Some (v, rest) =>
      match skip_ws rest with
      | String c2 r2 => if Ascii.eqb c2 ch_rp then Some (v, r2) else None
      | EmptyString => None
      end
    | None => None
    end.
  Proof. rewrite parse_unary_eq. reflexivity. Qed.
End Unfold.

(* decimal rendering *)
Fixpoint uval (acc : Z) (d : Decimal.uint) : Z :=
  match d with
  | Decimal.Nil => acc
  | Decimal.D0 l => uval (acc * 10 + 0) l
  | Decimal.D1 l => uval (acc * 10 + 1) l
  | Decimal.D2 l => uval (acc * 10 + 2) l
  | Decimal.D3 l => uval (acc * 10 + 3) l
  | Decimal.D4 l => uval (acc * 10 + 4) l
  | Decimal.D5 l => uval (acc * 10 + 5) l
  | Decimal.D6 l => uval (acc * 10 + 6) l
  | Decimal.D7 l => uval (acc * 10 + 7) l
  | Decimal.D8 l => uval (acc * 10 + 8) l
  | Decimal.D9 l => uval (acc * 10 + 9) l
  end%Z.

Lemma uval_acc d : forall acc : positive, uval (Zpos acc) d = Zpos (Pos.of_uint_acc d acc).
Proof.
  induction d; intros acc; cbn [uval Pos.of_uint_acc]; try reflexivity;
    rewrite <- IHd; f_equal; lia.
Qed.
Lemma uval_of_uint d : uval 0 d = Z.of_N (Pos.of_uint d).
Proof.
  induction d; cbn [uval Pos.of_uint]; try reflexivity; try exact IHd;
    cbn [Z.mul Z.add Z.of_N]; apply uval_acc.
Qed.
Lemma uval_to_uint p : uval 0 (Pos.to_uint p) = Zpos p.
Proof. rewrite uval_of_uint, DecimalPos.Unsigned.of_to. reflexivity. Qed.

Lemma read_digits_uint d : forall acc rest, nodigit rest = true ->
  read_digits acc (DecimalString.NilEmpty.string_of_uint d ++ rest) = (uval acc d, rest).
Proof.
  induction d; intros acc rest H; cbn [DecimalString.NilEmpty.string_of_uint append uval].
  - destruct rest as [|c r]; [reflexivity|]. cbn [read_digits]. cbn [nodigit] in H.
    destruct (is_digit c); [discriminate H|reflexivity].
  - cbn [read_digits]. change (is_digit "0") with true. cbv iota. change (digit_val "0") with 0%Z. apply IHd, H.
  - cbn [read_digits]. change (is_digit "1") with true. cbv iota. change (digit_val "1") with 1%Z. apply IHd, H.
  - cbn [read_digits]. change (is_digit "2") with true. cbv iota. change (digit_val "2") with 2%Z. apply IHd, H.
  - cbn [read_digits]. change (is_digit "3") with true. cbv iota. change (digit_val "3") with 3%Z. apply IHd, H.
  - cbn [read_digits]. change (is_digit "4") with true. cbv iota. change (digit_val "4") with 4%Z. apply IHd, H.
  - cbn [read_digits]. change (is_digit "5") with true. cbv iota. change (digit_val "5") with 5%Z. apply IHd, H.
  - cbn [read_digits]. change (is_digit "6") with true. cbv iota. change (digit_val "6") with 6%Z. apply IHd, H.
  - cbn [read_digits]. change (is_digit "7") with true. cbv iota. change (digit_val "7") with 7%Z. apply IHd, H.
  - cbn [read_digits]. change (is_digit "8") with true. cbv iota. change (digit_val "8") with 8%Z. apply IHd, H.
  - cbn [read_digits]. change (is_digit "9") with true. cbv iota. change (digit_val "9") with 9%Z. apply IHd, H.
Qed.

Lemma nz_uint_head d : exists c s, DecimalString.NilZero.string_of_uint d = String c s /\ is_digit c = true.
Proof. destruct d; cbn; eexists; eexists; split; reflexivity. Qed.
Lemma read_digits_nz d rest : nodigit rest = true ->
  read_digits 0 (DecimalString.NilZero.string_of_uint d ++ rest) = (uval 0 d, rest).
Proof.
  intros H. destruct d; try (apply (read_digits_uint _ 0%Z rest H)).
  cbn [DecimalString.NilZero.string_of_uint append read_digits uval]. change (is_digit "0") with true. cbv iota.
  destruct rest as [|c r]; [reflexivity|]. cbn [read_digits]. cbn [nodigit] in H.
  destruct (is_digit c); [discriminate H|reflexivity].
Qed.

Lemma parse_unary_number pe f d rest : nodigit rest = true ->
  parse_unary pe f (DecimalString.NilZero.string_of_uint d ++ rest) = Some (uval 0 d, rest).
Proof.
  intros H. pose proof (read_digits_nz d rest H) as R.
  destruct (nz_uint_head d) as (c & s & E & Hc). rewrite E in *. cbn [append] in *.
  rewrite parse_unary_eq. cbn [skip_ws]. rewrite (digit_not_ws c Hc), (digit_not_minus c Hc), (digit_not_plus c Hc).
  unfold parse_atom. cbn [skip_ws]. rewrite (digit_not_ws c Hc), Hc, R. reflexivity.
Qed.

Lemma show_Z_nonneg z : (0 <= z)%Z -> exists d, show_Z z = DecimalString.NilZero.string_of_uint d /\ uval 0 d = z.
Proof.
  destruct z as [|p|p]; intros H; [| |lia].
  - exists (Decimal.D0 Decimal.Nil). split; reflexivity.
  - exists (Pos.to_uint p). split; [reflexivity|apply uval_to_uint].
Qed.
Lemma show_Z_neg p : show_Z (Zneg p) = String "-" (DecimalString.NilZero.string_of_uint (Pos.to_uint p)).
Proof. reflexivity. Qed.

Lemma parse_unary_show_Z pe f z rest : nodigit rest = true -> 1 <= f ->
  parse_unary pe f (show_Z z ++ rest) = Some (z, rest).
Proof.
  intros H Hf. destruct z as [|p|p].
  - exact (parse_unary_number pe f (Decimal.D0 Decimal.Nil) rest H).
  - destruct (show_Z_nonneg (Zpos p) ltac:(lia)) as (d & E & V). rewrite E. rewrite <- V. apply parse_unary_number, H.
  - rewrite show_Z_neg. cbn [append]. destruct f as [|f]; [lia|].
    pose proof (parse_unary_minus pe f "" (DecimalString.NilZero.string_of_uint (Pos.to_uint p) ++ rest) eq_refl) as M.
    cbn [append] in M. rewrite M.
    rewrite (parse_unary_number pe f _ rest H), uval_to_uint. reflexivity.
Qed.
Lemma show_Z_len z : 1 <= String.length (show_Z z).
Proof.
  destruct z as [|p|p]; [cbn; lia| |rewrite show_Z_neg; cbn [String.length]; lia].
  destruct (show_Z_nonneg (Zpos p) ltac:(lia)) as (d & E & _). rewrite E.
  destruct (nz_uint_head d) as (c & s & E' & _). rewrite E'. cbn [String.length]. lia.
Qed.

(* continuations *)
Lemma ws_not_digit c : is_ws c = true -> is_digit c = false.
Proof. intros H. destruct (is_digit c) eqn:E; [|reflexivity]. rewrite (digit_not_ws c E) in H. discriminate H. Qed.
Lemma cont_props ws c s :
  all_ws ws = true -> is_ws c = false -> is_digit c = false ->
  nodigit (ws ++ String c s) = true /\
  nostar (ws ++ String c s) = negb (Ascii.eqb c ch_star) /\
  noadd (ws ++ String c s) = negb (Ascii.eqb c ch_plus) && negb (Ascii.eqb c ch_minus).
Proof.
  intros Hw Hc Hd. split; [|split].
  - destruct ws as [|a r]; cbn [append nodigit]; [rewrite Hd; reflexivity|].
    cbn [all_ws] in Hw. apply andb_true_iff in Hw. destruct Hw as [Ha _]. rewrite (ws_not_digit a Ha). reflexivity.
  - unfold nostar. rewrite (skip_ws_app ws _ Hw). cbn [skip_ws]. rewrite Hc. reflexivity.
  - unfold noadd. rewrite (skip_ws_app ws _ Hw). cbn [skip_ws]. rewrite Hc. reflexivity.
Qed.

(* operators on the spine of a product / of a sum *)
Fixpoint stars (e : aexp) : nat := match e with ABin OMul l _ _ _ => S (stars l) | _ => 0 end.
Fixpoint adds (e : aexp) : nat :=
  match e with ABin OAdd l _ _ _ | ABin OSub l _ _ _ => S (adds l) | _ => 0 end.

Lemma aprint_len e : 1 <= String.length (aprint e).
Proof.
  induction e; cbn [aprint]; rewrite ?slen_app; cbn [String.length]; try lia.
  - unfold show_N. apply show_Z_len.
  - apply show_Z_len.
Qed.
Lemma stars_lt e : stars e < String.length (aprint e).
Proof.
  induction e; try (cbn [stars]; apply aprint_len).
  destruct op; try (cbn [stars]; apply aprint_len).
  cbn [stars aprint]. rewrite !slen_app. pose proof (aprint_len e2). lia.
Qed.
Lemma adds_lt e : adds e < String.length (aprint e).
Proof.
  induction e; try (cbn [adds]; apply aprint_len).
  destruct op; try (cbn [adds]; apply aprint_len);
  cbn [adds aprint]; rewrite !slen_app; pose proof (aprint_len e2); lia.
Qed.

Lemma lift12 pe f s v rest :
  parse_unary pe f s = Some (v, rest) -> parse_term pe f s = term_rest pe f v rest.
Proof. intros H. unfold parse_term. rewrite H. reflexivity. Qed.
Lemma lift23 pe f f' s v rest :
  parse_term pe f s = term_rest pe f' v rest -> nostar rest = true ->
  parse_expr_step pe f s = expr_rest pe f v rest.
Proof. intros H Hs. unfold parse_expr_step. rewrite H, (term_rest_stop pe f' v rest Hs). reflexivity. Qed.
Lemma from_unary pe f s v rest (P Q : Prop) :
  parse_unary pe f s = Some (v, rest) ->
  (P -> parse_unary pe f s = Some (v, rest)) /\
  (Q -> parse_term pe f s = term_rest pe (f - 0) v rest) /\
  (nostar rest = true -> parse_expr_step pe f s = expr_rest pe (f - 0) v rest).
Proof.
  intros H. rewrite Nat.sub_0_r. split; [auto|]. split; [intros _; apply lift12, H|].
  intros Hs. apply (lift23 pe f f s v rest); [apply lift12, H|exact Hs].
Qed.

Lemma round_trip e : prec_ok e = true ->
  forall k f rest, String.length (aprint e) <= k -> String.length (aprint e) <= f -> nodigit rest = true ->
  (2 <= alevel e -> parse_unary (parse_expr k) f (aprint e ++ rest) = Some (avalue e, rest)) /\
  (1 <= alevel e ->
   parse_term (parse_expr k) f (aprint e ++ rest) = term_rest (parse_expr k) (f - stars e) (avalue e) rest) /\
  (nostar rest = true ->
   parse_expr_step (parse_expr k) f (aprint e ++ rest) = expr_rest (parse_expr k) (f - adds e) (avalue e) rest).
Proof.
  induction e as [n|v|ws e IH|ws e IH|ws1 e IH ws2|op l IHl ws1 ws2 r IHr]; intros Hp k f rest Hk Hf Hnd.
  - (* ANum *)
    cbn [aprint avalue stars adds]. apply from_unary. unfold show_N.
    apply parse_unary_show_Z; [exact Hnd|]. pose proof (aprint_len (ANum n)). lia.
  - (* ARoll *)
    cbn [aprint avalue stars adds]. apply from_unary.
    apply parse_unary_show_Z; [exact Hnd|]. pose proof (aprint_len (ARoll v)). lia.
  - (* ANeg *)
    cbn [prec_ok] in Hp. apply andb_true_iff in Hp. destruct Hp as [Hp He]. apply andb_true_iff in Hp. destruct Hp as [Hw Hl].
    apply Nat.leb_le in Hl.
    cbn [aprint] in *. rewrite !slen_app in Hk, Hf. cbn [String.length] in Hk, Hf.
    cbn [avalue stars adds]. apply from_unary. rewrite !sapp_assoc3. cbn [append].
    destruct f as [|f]; [lia|]. rewrite (parse_unary_minus _ f ws _ Hw).
    destruct (IH He k f rest ltac:(lia) ltac:(lia) Hnd) as (H1 & _ & _). rewrite (H1 Hl). reflexivity.
  - (* APos *)
    cbn [prec_ok] in Hp. apply andb_true_iff in Hp. destruct Hp as [Hp He]. apply andb_true_iff in Hp. destruct Hp as [Hw Hl].
    apply Nat.leb_le in Hl.
    cbn [aprint] in *. rewrite !slen_app in Hk, Hf. cbn [String.length] in Hk, Hf.
    cbn [avalue stars adds]. apply from_unary. rewrite !sapp_assoc3. cbn [append].
    destruct f as [|f]; [lia|]. rewrite (parse_unary_plus _ f ws _ Hw).
    destruct (IH He k f rest ltac:(lia) ltac:(lia) Hnd) as (H1 & _ & _). exact (H1 Hl).
  - (* AParen *)
    cbn [prec_ok] in Hp. apply andb_true_iff in Hp. destruct Hp as [Hp He]. apply andb_true_iff in Hp. destruct Hp as [Hw1 Hw2].
    cbn [aprint] in *. rewrite !slen_app in Hk, Hf. cbn [String.length] in Hk, Hf.
    cbn [avalue stars adds]. apply from_unary. rewrite !sapp_assoc3. cbn [append].
    rewrite parse_unary_paren.
    destruct k as [|k]; [lia|]. cbn [parse_expr]. rewrite (parse_expr_step_ws _ k ws1 _ Hw1).
    destruct (cont_props ws2 ")" rest Hw2 eq_refl eq_refl) as (C1 & C2 & C3).
    destruct (IH He k k (ws2 ++ String ")" rest) ltac:(lia) ltac:(lia) C1) as (_ & _ & H3).
    rewrite (H3 C2), (expr_rest_stop _ _ _ _ C3), (skip_ws_app ws2 _ Hw2). reflexivity.
  - (* ABin *)
    destruct op.
    + (* OAdd *)
      cbn [prec_ok] in Hp. apply andb_true_iff in Hp. destruct Hp as [Hp Hr]. apply andb_true_iff in Hp. destruct Hp as [Hp Hl].
      apply andb_true_iff in Hp. destruct Hp as [Hp Hlv]. apply andb_true_iff in Hp. destruct Hp as [Hw1 Hw2].
      apply Nat.leb_le in Hlv.
      cbn [aprint op_text] in *. rewrite !slen_app in Hk, Hf. cbn [String.length] in Hk, Hf.
      cbn [alevel]. split; [intros; lia|]. split; [intros; lia|]. intros Hs.
      cbn [avalue stars adds]. rewrite !sapp_assoc3. cbn [append].
      destruct (cont_props ws1 "+" (ws2 ++ aprint r ++ rest) Hw1 eq_refl eq_refl) as (C1 & C2 & _).
      destruct (IHl Hl k f _ ltac:(lia) ltac:(lia) C1) as (_ & _ & H3). rewrite (H3 C2).
      pose proof (adds_lt l) as Ha.
      destruct (f - adds l) as [|f'] eqn:Ef; [lia|].
      rewrite (expr_rest_plus _ f' _ ws1 _ Hw1), (parse_term_ws _ f' ws2 _ Hw2).
      destruct (IHr Hr k f' rest ltac:(lia) ltac:(lia) Hnd) as (_ & H2 & _).
      rewrite (H2 Hlv), (term_rest_stop _ _ _ _ Hs). f_equal. lia.
    + (* OSub *)
      cbn [prec_ok] in Hp. apply andb_true_iff in Hp. destruct Hp as [Hp Hr]. apply andb_true_iff in Hp. destruct Hp as [Hp Hl].
      apply andb_true_iff in Hp. destruct Hp as [Hp Hlv]. apply andb_true_iff in Hp. destruct Hp as [Hw1 Hw2].
      apply Nat.leb_le in Hlv.
      cbn [aprint op_text] in *. rewrite !slen_app in Hk, Hf. cbn [String.length] in Hk, Hf.
      cbn [alevel]. split; [intros; lia|]. split; [intros; lia|]. intros Hs.
      cbn [avalue stars adds]. rewrite !sapp_assoc3. cbn [append].
      destruct (cont_props ws1 "-" (ws2 ++ aprint r ++ rest) Hw1 eq_refl eq_refl) as (C1 & C2 & _).
      destruct (IHl Hl k f _ ltac:(lia) ltac:(lia) C1) as (_ & _ & H3). rewrite (H3 C2).
      pose proof (adds_lt l) as Ha.
      destruct (f - adds l) as [|f'] eqn:Ef; [lia|].
      rewrite (expr_rest_minus _ f' _ ws1 _ Hw1), (parse_term_ws _ f' ws2 _ Hw2).
      destruct (IHr Hr k f' rest ltac:(lia) ltac:(lia) Hnd) as (_ & H2 & _).
      rewrite (H2 Hlv), (term_rest_stop _ _ _ _ Hs). f_equal. lia.
    + (* OMul *)
      cbn [prec_ok] in Hp. apply andb_true_iff in Hp. destruct Hp as [Hp Hr]. apply andb_true_iff in Hp. destruct Hp as [Hp Hl].
      apply andb_true_iff in Hp. destruct Hp as [Hp Hlr]. apply andb_true_iff in Hp. destruct Hp as [Hp Hll].
      apply andb_true_iff in Hp. destruct Hp as [Hw1 Hw2].
      apply Nat.leb_le in Hlr. apply Nat.leb_le in Hll.
      cbn [aprint op_text] in *. rewrite !slen_app in Hk, Hf. cbn [String.length] in Hk, Hf.
      assert (T : parse_term (parse_expr k) f ((aprint l ++ ws1 ++ "*" ++ ws2 ++ aprint r) ++ rest) =
                  term_rest (parse_expr k) (f - stars (ABin OMul l ws1 ws2 r)) (avalue (ABin OMul l ws1 ws2 r)) rest).
      { cbn [avalue stars adds]. rewrite !sapp_assoc3. cbn [append].
        destruct (cont_props ws1 "*" (ws2 ++ aprint r ++ rest) Hw1 eq_refl eq_refl) as (C1 & _ & _).
        destruct (IHl Hl k f _ ltac:(lia) ltac:(lia) C1) as (_ & H2 & _). rewrite (H2 Hll).
        pose proof (stars_lt l) as Ha.
        destruct (f - stars l) as [|f'] eqn:Ef; [lia|].
        rewrite (term_rest_star _ f' _ ws1 _ Hw1), (parse_unary_ws _ f' ws2 _ Hw2).
        destruct (IHr Hr k f' rest ltac:(lia) ltac:(lia) Hnd) as (H1 & _ & _).
        rewrite (H1 Hlr). f_equal. lia. }
      cbn [alevel]. split; [intros; lia|]. split; [intros _; exact T|].
      intros Hs. cbn [adds]. rewrite Nat.sub_0_r. exact (lift23 _ _ _ _ _ _ T Hs).
Qed.

Theorem strip_evaluates : strip_evaluates_statement.
Proof.
  intros e Hp. unfold eval_arith. cbn [parse_expr].
  destruct (round_trip e Hp (String.length (aprint e)) (String.length (aprint e)) "" (le_n _) (le_n _) eq_refl)
    as (_ & _ & H3).
  rewrite (sapp_nil_r (aprint e)) in H3. rewrite (H3 eq_refl), (expr_rest_stop _ _ _ "" eq_refl). reflexivity.
Qed.

(* ------------------------------------------------------------------ non-vacuity on a real dump *)
(* `x1 = 5` then `(2d6)d4 + 3*f - x1` (harness c14-src, seed 5): spans, offset, result and text as Go produced them *)
Definition ex_src : string := "(2d6)d4 + 3*f - x1".
Definition ex_spans : list span :=
  [mkSpan 0 7 "19" "3+3+2+1+2+3+2+3" "" "dice" false "";
   mkSpan 1 4 "8" "4+4" "" "dice" false "";
   mkSpan 12 13 "0" "+--+" "" "dice-fate" false "";
   mkSpan 16 18 "5" "" "" "load" false ""].
Definition ex_go_text : string := "19[(2d6)d4=3+3+2+1+2+3+2+3,2d6=8] + 3*0[f=+--+] - 5[x1]".

Lemma ex_shape :
  make_detail ex_src 18 ex_spans "14" = ex_go_text /\ wf_spans 18 ex_spans /\ length (groups_of 18 ex_spans) = 3.
Proof.
  split; [vm_compute; reflexivity|]. split; [|vm_compute; reflexivity].
  split.
  - repeat constructor; cbn; lia.
  - repeat constructor; cbn; lia.
Qed.
Lemma ex_strip :
  nobr (stake 18 ex_src) = true /\ Forall span_clean ex_spans /\
  strip_annotations ex_go_text = "19 + 3*0 - 5" /\ eval_arith (strip_annotations ex_go_text) = Some 14%Z.
Proof.
  split; [vm_compute; reflexivity|]. split; [repeat constructor|]. split; vm_compute; reflexivity.
Qed.
Lemma ex_small :
  make_detail "d10" 3 [mkSpan 0 3 "3" "3" "" "dice" false ""] "3" = "" /\
  make_detail " 2d6 " 5 [mkSpan 1 4 "7" "3+4" "" "dice" false ""] "7" = "7[2d6=3+4]".
Proof. split; vm_compute; reflexivity. Qed.
