package main

import (
	"encoding/hex"
	"fmt"
	"math"
	"sort"

	ds "github.com/sealdice/dicescript"
)

// ---------- structural value dump (nil-aware, cycle-aware, dict entries sorted) ----------
type vdump struct {
	T    int      `json:"t"`            // TypeId; -1 = nil pointer
	I    *string  `json:"i,omitempty"`  // int payload (decimal)
	F    *string  `json:"f,omitempty"`  // float payload, IEEE bits (decimal uint64)
	S    *string  `json:"s,omitempty"`  // string payload / computed expr / function name
	L    []*vdump `json:"l,omitempty"`  // array elements / dict values (sorted by key)
	K    []string `json:"k,omitempty"`  // dict keys (sorted)
	Cyc  bool     `json:"cyc,omitempty"`
	Bad  bool     `json:"bad,omitempty"` // payload does not match the tag
	Deep bool     `json:"deep,omitempty"`
}

// the dump is a TREE: a value with shared sub-structure is written as its unfolding, which can be exponentially larger
// than the object graph; beyond dumpNodeCap nodes the rest is marked Deep ("not expressible", the case is skipped and counted)
const dumpNodeCap = 200000

func dumpValue(v *ds.VMValue) *vdump { n := 0; return dumpValueD(v, map[any]bool{}, 0, &n) }

func dumpValueD(v *ds.VMValue, seen map[any]bool, depth int, dumpNodes *int) *vdump {
	if v == nil {
		return &vdump{T: -1}
	}
	d := &vdump{T: int(v.TypeId)}
	*dumpNodes++
	if depth > 40 || *dumpNodes > dumpNodeCap {
		d.Deep = true
		return d
	}
	switch v.TypeId {
	case ds.VMTypeInt:
		x, ok := v.Value.(ds.IntType)
		if !ok {
			d.Bad = true
			return d
		}
		s := i(int64(x))
		d.I = &s
	case ds.VMTypeFloat:
		x, ok := v.Value.(float64)
		if !ok {
			d.Bad = true
			return d
		}
		s := u(math.Float64bits(x))
		d.F = &s
	case ds.VMTypeString:
		x, ok := v.Value.(string)
		if !ok {
			d.Bad = true
			return d
		}
		d.S = &x
	case ds.VMTypeNull:
	case ds.VMTypeArray:
		a, ok := v.ReadArray()
		if !ok || a == nil {
			d.Bad = true
			return d
		}
		if seen[a] {
			d.Cyc = true
			return d
		}
		seen[a] = true
		d.L = []*vdump{}
		for _, e := range a.List {
			d.L = append(d.L, dumpValueD(e, seen, depth+1, dumpNodes))
		}
		delete(seen, a)
	case ds.VMTypeDict:
		dd, ok := v.ReadDictData()
		if !ok || dd == nil || dd.Dict == nil {
			d.Bad = true
			return d
		}
		if seen[dd] {
			d.Cyc = true
			return d
		}
		seen[dd] = true
		type kv struct {
			k string
			v *ds.VMValue
		}
		var l []kv
		dd.Dict.Range(func(key string, value *ds.VMValue) bool {
			l = append(l, kv{key, value})
			return true
		})
		sort.Slice(l, func(a, b int) bool { return l[a].k < l[b].k })
		d.L, d.K = []*vdump{}, []string{}
		for _, p := range l {
			d.K = append(d.K, p.k)
			d.L = append(d.L, dumpValueD(p.v, seen, depth+1, dumpNodes))
		}
		delete(seen, dd)
	case ds.VMTypeComputedValue:
		c, ok := v.ReadComputed()
		if !ok || c == nil {
			d.Bad = true
			return d
		}
		d.S = &c.Expr
	case ds.VMTypeFunction:
		f, ok := v.ReadFunctionData()
		if !ok || f == nil {
			d.Bad = true
			return d
		}
		s := f.Name + "(" + fmt.Sprint(f.Params) + ")" + f.Expr
		d.S = &s
	case ds.VMTypeNativeFunction:
		f, ok := v.ReadNativeFunctionData()
		if !ok || f == nil {
			d.Bad = true
			return d
		}
		d.S = &f.Name
	}
	return d
}

// ---------- running scripts ----------
type vmCfg struct {
	WoD, CoC, Fate, DC     bool
	NoBitwise, NoStmts, NoNDice bool
	IgnoreDiv0             bool
	Mode                   int // -1 min, 0 random, 1 max
	DefaultSides           string
	OpLimit                int64
	ParseLimit             uint64
	Lang                   int
}

// an operation budget is always configured: without one, unbounded recursion (e.g. `&v = -v; v`) exhausts the Go stack, which the property does not cover
func allOn() vmCfg { return vmCfg{WoD: true, CoC: true, Fate: true, DC: true, OpLimit: 200000} }

func (c vmCfg) apply(vm *ds.Context) {
	vm.Config.EnableDiceWoD = c.WoD
	vm.Config.EnableDiceCoC = c.CoC
	vm.Config.EnableDiceFate = c.Fate
	vm.Config.EnableDiceDoubleCross = c.DC
	vm.Config.DisableBitwiseOp = c.NoBitwise
	vm.Config.DisableStmts = c.NoStmts
	vm.Config.DisableNDice = c.NoNDice
	vm.Config.IgnoreDiv0 = c.IgnoreDiv0
	vm.Config.DiceMinMode = c.Mode == -1
	vm.Config.DiceMaxMode = c.Mode == 1
	vm.Config.DefaultDiceSideExpr = c.DefaultSides
	vm.Config.OpCountLimit = ds.IntType(c.OpLimit)
	vm.Config.ParseExprLimit = c.ParseLimit
	vm.Config.ParseErrorLanguage = c.Lang
}

type runOut struct {
	Ok      bool   `json:"ok"`
	Err     string `json:"err,omitempty"`
	Panic   string `json:"panic,omitempty"`
	Val     *vdump `json:"val,omitempty"`
	Str     string `json:"str,omitempty"`
	Matched string `json:"matched"`
	Rest    string `json:"rest"`
	MHex    string `json:"mhex,omitempty"` // exact bytes of Matched / RestInput (JSON strings replace invalid UTF-8)
	RHex    string `json:"rhex,omitempty"`
	Detail  string `json:"detail"`
	Hi2     string `json:"hi2,omitempty"`
	Lo2     string `json:"lo2,omitempty"`
	Ops     int64  `json:"ops"`
}

// runScript runs one source text on vm; a Go panic is caught and reported (the harness
// must survive to report it; "no panic" itself is a checked observable).
func runScript(vm *ds.Context, src string, wantDetail bool) (o runOut) {
	defer func() {
		if r := recover(); r != nil {
			o.Ok = false
			o.Panic = fmt.Sprint(r)
		}
	}()
	err := vm.Run(src)
	o.Ops = int64(vm.NumOpCount)
	if err != nil {
		o.Err = err.Error()
		return
	}
	o.Ok = true
	o.Val = dumpValue(vm.Ret)
	o.Str = vm.Ret.ToString()
	o.Matched, o.Rest = vm.Matched, vm.RestInput
	o.MHex, o.RHex = hex.EncodeToString([]byte(vm.Matched)), hex.EncodeToString([]byte(vm.RestInput))
	if wantDetail {
		o.Detail = vm.GetDetailText()
	}
	if vm.RandSrc != nil {
		h, l := srcState(vm.RandSrc)
		o.Hi2, o.Lo2 = u(h), u(l)
	}
	return
}

func newVM(c vmCfg, hi, lo uint64, seeded bool) *ds.Context {
	vm := ds.NewVM()
	c.apply(vm)
	if seeded {
		vm.RandSrc = mkSrc(hi, lo)
	}
	return vm
}
