(* When does the INFERENCE of Model/Verify.v (`infer` / `verify`, fixpoint iteration with fuel)
   accept a program?  A sufficient condition, independent of any compiler:

     the program has an inductive annotation Wg (check c Wg = true), contains no fstr.block.push,
     and every backward (or self) jump k -> t lies in a REGION (t, e) -- t <= k <= e -- such that no
     instruction before t jumps or falls into (t, e], and such that for EVERY abstract state E
     without template blocks there is an annotation W E, inductive on [t, e], with E at t.

   Then the first pass of `infer` already computes a fixpoint (a backward jump never changes the
   state recorded at its target: everything recorded inside the region stays above W E, E being the
   state recorded at the head), the second pass changes nothing, and `verify c = true` -- two of
   the 200 units of fuel are used. *)
From Coq Require Import NArith ZArith List Bool String Lia.
From DS Require Import Model.Bytecode Model.Verify Proofs.VerifyProofs.
Import ListNotations.
Open Scope nat_scope.
Local Notation length := List.length.

Definition plain (a : astate) : Prop := a_fb a = [] /\ a_fd a = None.
Definition ge (a w : astate) : Prop := aleb a w = true.

(* ================================================================ the order *)
Lemma aleb_iff a1 a2 :
  aleb a1 a2 = true <->
  a_lo a2 <= a_lo a1 /\ list_le (a_blocks a2) (a_blocks a1) = true /\ fb_le (a_fb a2) (a_fb a1) = true /\
  opt_le (a_fd a2) (a_fd a1) = true /\ a_dice a2 <= a_dice a1 /\
  implb (a_det a2) (a_det a1) = true /\ implb (a_last a2) (a_last a1) = true.
Proof.
  unfold aleb. split.
  - intro H.
    destruct (a_lo a2 <=? a_lo a1) eqn:E1; [|discriminate].
    destruct (list_le (a_blocks a2) (a_blocks a1)) eqn:E2; [|discriminate].
    destruct (fb_le (a_fb a2) (a_fb a1)) eqn:E3; [|discriminate].
    destruct (opt_le (a_fd a2) (a_fd a1)) eqn:E4; [|discriminate].
    destruct (a_dice a2 <=? a_dice a1) eqn:E5; [|discriminate].
    destruct (implb (a_det a2) (a_det a1)) eqn:E6; [|discriminate].
    apply Nat.leb_le in E1. apply Nat.leb_le in E5. repeat split; auto.
  - intros (H1 & H2 & H3 & H4 & H5 & H6 & H7).
    apply Nat.leb_le in H1. apply Nat.leb_le in H5. rewrite H1, H2, H3, H4, H5, H6. exact H7.
Qed.

Lemma list_le_refl l : list_le l l = true.
Proof. induction l as [|x r IH]; [reflexivity|]. cbn [list_le]. rewrite Nat.leb_refl. exact IH. Qed.

Lemma list_le_trans : forall l3 l2 l1, list_le l3 l2 = true -> list_le l2 l1 = true -> list_le l3 l1 = true.
Proof.
  induction l3 as [|x3 r3 IH]; intros [|x2 r2] [|x1 r1] H1 H2; cbn [list_le] in *; try discriminate; auto.
  destruct (x3 <=? x2) eqn:E1; [|discriminate]. destruct (x2 <=? x1) eqn:E2; [|discriminate].
  apply Nat.leb_le in E1. apply Nat.leb_le in E2.
  replace (x3 <=? x1) with true by (symmetry; apply Nat.leb_le; lia). eapply IH; eauto.
Qed.

Lemma implb_trans a b c : implb a b = true -> implb b c = true -> implb a c = true.
Proof. destruct a, b, c; auto. Qed.

(* plain states: only lo / blocks / dice / flags matter *)
Lemma ge_plain_iff a w :
  plain a ->
  (ge a w <->
   plain w /\ a_lo w <= a_lo a /\ list_le (a_blocks w) (a_blocks a) = true /\ a_dice w <= a_dice a /\
   implb (a_det w) (a_det a) = true /\ implb (a_last w) (a_last a) = true).
Proof.
  intros [Pf Pd]. unfold ge. rewrite aleb_iff, Pf, Pd. split.
  - intros (H1 & H2 & H3 & H4 & H5 & H6 & H7). repeat split; auto.
    + destruct (a_fb w) as [|[x d] r]; [reflexivity|discriminate].
    + destruct (a_fd w); [discriminate|reflexivity].
  - intros ([Qf Qd] & H1 & H2 & H5 & H6 & H7). rewrite Qf, Qd. repeat split; auto.
Qed.

Lemma ge_refl a : plain a -> ge a a.
Proof.
  intro P. apply (ge_plain_iff a a P). repeat split; try apply P; auto using list_le_refl.
  - destruct (a_det a); reflexivity.
  - destruct (a_last a); reflexivity.
Qed.

Lemma ge_plain a w : plain a -> ge a w -> plain w.
Proof. intros P H. apply (ge_plain_iff a w P) in H. apply H. Qed.

Lemma ge_trans a1 a2 a3 : plain a1 -> ge a1 a2 -> ge a2 a3 -> ge a1 a3.
Proof.
  intros P1 H12 H23. pose proof (ge_plain _ _ P1 H12) as P2.
  apply (ge_plain_iff _ _ P1) in H12. apply (ge_plain_iff _ _ P2) in H23. apply (ge_plain_iff _ _ P1).
  destruct H12 as (_ & A1 & A2 & A3 & A4 & A5), H23 as (P3 & B1 & B2 & B3 & B4 & B5).
  repeat split; try apply P3; eauto using Nat.le_trans, list_le_trans, implb_trans.
Qed.

(* ================================================================ the join *)
Lemma list_min_glb : forall w l1 l2,
  list_le w l1 = true -> list_le w l2 = true ->
  exists m, list_min l1 l2 = Some m /\ list_le w m = true /\ list_le m l1 = true /\ list_le m l2 = true.
Proof.
  induction w as [|x r IH]; intros [|x1 r1] [|x2 r2] H1 H2; cbn [list_le] in *; try discriminate.
  - exists []. repeat split; reflexivity.
  - destruct (x <=? x1) eqn:E1; [|discriminate]. destruct (x <=? x2) eqn:E2; [|discriminate].
    destruct (IH r1 r2 H1 H2) as (m & Hm & M1 & M2 & M3).
    exists (Nat.min x1 x2 :: m). cbn [list_min list_le]. rewrite Hm, M1, M2, M3.
    apply Nat.leb_le in E1. apply Nat.leb_le in E2.
    replace (x <=? Nat.min x1 x2) with true by (symmetry; apply Nat.leb_le; lia).
    replace (Nat.min x1 x2 <=? x1) with true by (symmetry; apply Nat.leb_le; lia).
    replace (Nat.min x1 x2 <=? x2) with true by (symmetry; apply Nat.leb_le; lia).
    repeat split; reflexivity.
Qed.

Lemma implb_and c a b : implb c a = true -> implb c b = true -> implb c (a && b) = true.
Proof. destruct c, a, b; auto. Qed.
Lemma implb_and_l a b : implb (a && b) a = true.
Proof. destruct a, b; auto. Qed.
Lemma implb_and_r a b : implb (a && b) b = true.
Proof. destruct a, b; auto. Qed.

Lemma ajoin_glb a1 a2 w :
  plain a1 -> plain a2 -> ge a1 w -> ge a2 w ->
  exists j, ajoin a1 a2 = Some j /\ plain j /\ ge j w /\ ge a1 j /\ ge a2 j.
Proof.
  intros P1 P2 H1 H2. pose proof H1 as H1'. pose proof H2 as H2'.
  apply (ge_plain_iff _ _ P1) in H1. apply (ge_plain_iff _ _ P2) in H2.
  destruct H1 as (Pw & A1 & A2 & A3 & A4 & A5), H2 as (_ & B1 & B2 & B3 & B4 & B5).
  destruct (list_min_glb _ _ _ A2 B2) as (m & Hm & M1 & M2 & M3).
  destruct P1 as [P1f P1d], P2 as [P2f P2d].
  unfold ajoin. rewrite Hm, P1f, P2f, P1d, P2d. cbn [fb_min opt_min].
  eexists; split; [reflexivity|].
  assert (Pj : plain {| a_lo := Nat.min (a_lo a1) (a_lo a2); a_blocks := m; a_fb := []; a_fd := None;
                        a_dice := Nat.min (a_dice a1) (a_dice a2); a_det := a_det a1 && a_det a2;
                        a_last := a_last a1 && a_last a2 |}) by (split; reflexivity).
  split; [exact Pj|]. split; [|split].
  - apply (ge_plain_iff _ _ Pj). cbn [a_lo a_blocks a_dice a_det a_last].
    repeat split; try apply Pw; auto using implb_and, Nat.min_glb.
  - apply ge_plain_iff; [split; assumption|]. cbn [a_lo a_blocks a_dice a_det a_last].
    repeat split; auto using implb_and_l, Nat.le_min_l.
  - apply ge_plain_iff; [split; assumption|]. cbn [a_lo a_blocks a_dice a_det a_last].
    repeat split; auto using implb_and_r, Nat.le_min_r.
Qed.

(* ================================================================ the transfer function *)
Definition targets (len p : nat) (sh : shape) : list nat :=
  match sh with
  | SSimple _ | SPeek | SBlockPush | SBlockPop | SFstrPush | SFstrPop => [S p]
  | SJmp off => match jump_target len p off with Some t => [t] | None => [] end
  | SJcond off _ => match jump_target len p off with Some t => [S p; t] | None => [] end
  | SHalt | SBadOperand => []
  end.

Lemma atransfer_targets len p sh a succs : atransfer len p sh a = AOk succs -> map fst succs = targets len p sh.
Proof.
  destruct sh as [e| |off|off dup| | | | | |]; cbn [atransfer targets]; intro H.
  - destruct (e_need_dice e && (a_dice a =? 0)); [discriminate|].
    destruct (a_lo a <? e_pops e); [discriminate|].
    destruct (e_need_det e && negb (a_det a)); [discriminate|].
    destruct (e_need_last e && negb (a_last a)); [discriminate|]. inversion H; reflexivity.
  - destruct (a_lo a =? 0); [discriminate|]. inversion H; reflexivity.
  - destruct (jump_target len p off); [|discriminate]. inversion H; reflexivity.
  - destruct (a_lo a =? 0); [discriminate|]. destruct (jump_target len p off); [|discriminate]. inversion H; reflexivity.
  - inversion H; reflexivity.
  - inversion H; reflexivity.
  - destruct (a_blocks a); [discriminate|]. inversion H; reflexivity.
  - inversion H; reflexivity.
  - destruct (a_fb a) as [|[b dp] r]; [discriminate|].
    destruct ((a_lo a =? 0) && match a_fd a with None => true | Some _ => false end); [discriminate|]. inversion H; reflexivity.
  - discriminate.
Qed.

Lemma targets_le len p sh t : p < len -> In t (targets len p sh) -> t <= len.
Proof.
  intros Hp. destruct sh as [e| |off|off dup| | | | | |]; cbn [targets]; intro H.
  1,2,6,7,8,9: destruct H as [<-|[]]; lia.
  - destruct (jump_target len p off) eqn:E; [|destruct H]. destruct H as [<-|[]]. eapply jump_target_le; eauto.
  - destruct (jump_target len p off) eqn:E; [|destruct H]. destruct H as [<-|[<-|[]]]; [lia|eapply jump_target_le; eauto].
  - destruct H.
  - destruct H.
Qed.

Definition rel_succs (sa sw : list (nat * astate)) : Prop :=
  Forall2 (fun x y => fst x = fst y /\ ge (snd x) (snd y)) sa sw.

(* a stronger state passes wherever a weaker plain state passes, with stronger successors *)
Ltac pl := split; cbn [a_fb a_fd]; first [assumption|reflexivity].

Lemma atransfer_mono len p sh a w sw :
  plain a -> ge a w -> sh <> SFstrPush ->
  atransfer len p sh w = AOk sw ->
  exists sa, atransfer len p sh a = AOk sa /\ rel_succs sa sw /\ Forall (fun x => plain (snd x)) sa.
Proof.
  intros Pa H Hsh T. pose proof (ge_plain _ _ Pa H) as Pw.
  apply (ge_plain_iff _ _ Pa) in H. destruct H as (_ & A1 & A2 & A3 & A4 & A5).
  destruct Pa as [Paf Pad]. destruct Pw as [Pwf Pwd].
  destruct sh as [e| |off|off dup| | | | | |]; cbn [atransfer] in *.
  - destruct (e_need_dice e && (a_dice w =? 0)) eqn:E1; [discriminate|].
    destruct (a_lo w <? e_pops e) eqn:E2; [discriminate|].
    destruct (e_need_det e && negb (a_det w)) eqn:E3; [discriminate|].
    destruct (e_need_last e && negb (a_last w)) eqn:E4; [discriminate|].
    inversion T; subst sw; clear T.
    apply Nat.ltb_ge in E2.
    replace (e_need_dice e && (a_dice a =? 0)) with false.
    2:{ destruct (e_need_dice e); [|reflexivity]. cbn [andb] in *. apply Nat.eqb_neq in E1. symmetry. apply Nat.eqb_neq. lia. }
    replace (a_lo a <? e_pops e) with false by (symmetry; apply Nat.ltb_ge; lia).
    replace (e_need_det e && negb (a_det a)) with false.
    2:{ destruct (e_need_det e); [|reflexivity]. cbn [andb] in *. destruct (a_det w); [|discriminate].
        destruct (a_det a); [reflexivity|discriminate]. }
    replace (e_need_last e && negb (a_last a)) with false.
    2:{ destruct (e_need_last e); [|reflexivity]. cbn [andb] in *. destruct (a_last w); [|discriminate].
        destruct (a_last a); [reflexivity|discriminate]. }
    eexists; split; [reflexivity|]. rewrite Pad, Pwd. cbn [fd_after].
    split; [constructor; [|constructor]|constructor; [|constructor]]; cbn [fst snd].
    + split; [reflexivity|]. apply ge_plain_iff; [pl|].
      cbn [a_lo a_blocks a_dice a_det a_last]. repeat split; auto; try lia.
    + pl.
  - destruct (a_lo w =? 0) eqn:E1; [discriminate|]. inversion T; subst sw; clear T. apply Nat.eqb_neq in E1.
    replace (a_lo a =? 0) with false by (symmetry; apply Nat.eqb_neq; lia).
    eexists; split; [reflexivity|]. split; [constructor; [|constructor]|constructor; [|constructor]]; cbn [fst snd].
    + split; [reflexivity|]. apply ge_plain_iff; [pl|]. repeat split; auto.
    + pl.
  - destruct (jump_target len p off) as [t|]; [|discriminate]. inversion T; subst sw; clear T.
    eexists; split; [reflexivity|]. split; [constructor; [|constructor]|constructor; [|constructor]]; cbn [fst snd].
    + split; [reflexivity|]. apply ge_plain_iff; [pl|]. repeat split; auto.
    + pl.
  - destruct (a_lo w =? 0) eqn:E1; [discriminate|]. apply Nat.eqb_neq in E1.
    destruct (jump_target len p off) as [t|]; [|discriminate]. inversion T; subst sw; clear T.
    replace (a_lo a =? 0) with false by (symmetry; apply Nat.eqb_neq; lia).
    eexists; split; [reflexivity|]. rewrite Pad, Pwd. cbn [fd_after].
    assert (G1 : ge {| a_lo := a_lo a - 1; a_blocks := a_blocks a; a_fb := a_fb a; a_fd := None; a_dice := a_dice a;
                       a_det := a_det a; a_last := true |}
                    {| a_lo := a_lo w - 1; a_blocks := a_blocks w; a_fb := a_fb w; a_fd := None; a_dice := a_dice w;
                       a_det := a_det w; a_last := true |}).
    { apply ge_plain_iff; [pl|]. cbn [a_lo a_blocks a_dice a_det a_last]. repeat split; auto; lia. }
    assert (G2 : ge {| a_lo := a_lo a; a_blocks := a_blocks a; a_fb := a_fb a; a_fd := None; a_dice := a_dice a;
                       a_det := a_det a; a_last := true |}
                    {| a_lo := a_lo w; a_blocks := a_blocks w; a_fb := a_fb w; a_fd := None; a_dice := a_dice w;
                       a_det := a_det w; a_last := true |}).
    { apply ge_plain_iff; [pl|]. cbn [a_lo a_blocks a_dice a_det a_last]. repeat split; auto; lia. }
    split; [constructor; [|constructor; [|constructor]]|constructor; [|constructor; [|constructor]]]; cbn [fst snd].
    + split; [reflexivity|exact G1].
    + split; [reflexivity|]. destruct dup; [exact G2|exact G1].
    + pl.
    + destruct dup; pl.
  - inversion T; subst sw. eexists; split; [reflexivity|]. split; constructor.
  - inversion T; subst sw; clear T.
    eexists; split; [reflexivity|]. split; [constructor; [|constructor]|constructor; [|constructor]]; cbn [fst snd].
    + split; [reflexivity|]. apply ge_plain_iff; [pl|].
      cbn [a_lo a_blocks a_dice a_det a_last list_le]. repeat split; auto.
      replace (a_lo w <=? a_lo a) with true by (symmetry; apply Nat.leb_le; lia). exact A2.
    + pl.
  - destruct (a_blocks w) as [|bw rw] eqn:EB; [discriminate|]. inversion T; subst sw; clear T.
    destruct (a_blocks a) as [|ba ra]; [discriminate|]. cbn [list_le] in A2.
    destruct (bw <=? ba) eqn:E; [|discriminate]. apply Nat.leb_le in E.
    eexists; split; [reflexivity|]. split; [constructor; [|constructor]|constructor; [|constructor]]; cbn [fst snd].
    + split; [reflexivity|]. apply ge_plain_iff; [pl|].
      cbn [a_lo a_blocks a_dice a_det a_last]. repeat split; auto; lia.
    + pl.
  - exfalso; apply Hsh; reflexivity.
  - rewrite Pwf in T. discriminate.
  - discriminate.
Qed.

Lemma Forall2_in_l {X Y} (R : X -> Y -> Prop) l1 l2 x : Forall2 R l1 l2 -> In x l1 -> exists y, In y l2 /\ R x y.
Proof.
  induction 1 as [|a b l1 l2 Hab HF IH]; intro Hin; [destruct Hin|].
  destruct Hin as [<-|Hin]; [exists b; split; [left; reflexivity|exact Hab]|].
  destruct (IH Hin) as [y [Hy Hr]]. exists y; split; [right; exact Hy|exact Hr].
Qed.

(* ================================================================ lists *)
Lemma set_nth_length {X} (l : list X) n x : length (set_nth l n x) = length l.
Proof. revert n; induction l as [|y r IH]; intros [|n]; cbn [set_nth length]; auto. Qed.

Lemma nth_error_set_nth_eq {X} (l : list X) n x : n < length l -> nth_error (set_nth l n x) n = Some x.
Proof.
  revert n; induction l as [|y r IH]; intros [|n] H; cbn [set_nth length nth_error] in *; try lia; auto.
  apply IH. lia.
Qed.

Lemma nth_error_set_nth_neq {X} (l : list X) n m x : m <> n -> nth_error (set_nth l n x) m = nth_error l m.
Proof.
  revert n m; induction l as [|y r IH]; intros [|n] [|m] H; cbn [set_nth nth_error]; auto; try congruence.
Qed.

Lemma all_ok_intro {X} (f : X -> bool) l : (forall x, In x l -> f x = true) -> all_ok f l = true.
Proof.
  induction l as [|y r IH]; intro H; cbn [all_ok]; [reflexivity|].
  rewrite (H y (or_introl eq_refl)). apply IH. intros x Hx. apply H. right. exact Hx.
Qed.

(* ================================================================ check_pc *)
Lemma check_pc_inv c A q w i :
  check_pc c A q = true -> nth_error A q = Some (Some w) -> nth_error c q = Some i ->
  exists sw, atransfer (length c) q (ishape i) w = AOk sw /\
             forall t w', In (t, w') sw -> exists x, nth_error A t = Some (Some x) /\ ge w' x.
Proof.
  unfold check_pc. intros H HA HC. rewrite HA, HC in H.
  destruct (atransfer (length c) q (ishape i) w) as [r|sw]; [discriminate|].
  exists sw; split; [reflexivity|]. intros t w' Hin.
  pose proof (all_ok_forall _ _ H _ Hin) as Hs. unfold succ_ok in Hs. cbn [fst snd] in Hs.
  destruct (nth_error A t) as [[x|]|]; try discriminate. exists x; split; [reflexivity|exact Hs].
Qed.

Lemma check_pc_intro c A q a i sa :
  nth_error A q = Some (Some a) -> nth_error c q = Some i -> atransfer (length c) q (ishape i) a = AOk sa ->
  (forall t a', In (t, a') sa -> exists x, nth_error A t = Some (Some x) /\ ge a' x) ->
  check_pc c A q = true.
Proof.
  intros HA HC HT H. unfold check_pc. rewrite HA, HC, HT. apply all_ok_intro. intros [t a'] Hin.
  destruct (H t a' Hin) as [x [Hx Hge]]. unfold succ_ok. cbn [fst snd]. rewrite Hx. exact Hge.
Qed.

(* ================================================================ the first pass computes a fixpoint *)
Record region := { r_t : nat; r_e : nat; r_W : astate -> annotation }.

Section Generic.
  Variable c : code.
  Variable Wg : annotation.
  Variable regs : list region.
  Local Notation len := (length c).

  Hypothesis HWg : check c Wg = true.
  Hypothesis Hnofstr : forall i, In i c -> ishape i <> SFstrPush.
  (* every backward (or self) jump lies in a region, whose head it targets *)
  Hypothesis Hback : forall k i u, nth_error c k = Some i -> In u (targets len k (ishape i)) -> u <= k ->
                                   exists r, In r regs /\ r_t r = u /\ k <= r_e r.
  (* nothing before the head of a region jumps (or falls) into the region past its head *)
  Hypothesis Hnoentry : forall r q i u, In r regs -> q < r_t r -> nth_error c q = Some i ->
                                        In u (targets len q (ishape i)) -> ~ (r_t r < u <= r_e r).
  (* whatever the state E at the head, the region has an inductive annotation with E at the head *)
  Hypothesis Hfam : forall r E, In r regs -> plain E ->
                                nth_error (r_W r E) (r_t r) = Some (Some E) /\
                                forall q, r_t r <= q <= r_e r -> check_pc c (r_W r E) q = true.

  Definition good_entries (A : annotation) : Prop :=
    forall q x, nth_error A q = Some (Some x) -> plain x /\ exists w, nth_error Wg q = Some (Some w) /\ ge x w.

  Definition reg_inv (k : nat) (A : annotation) : Prop :=
    forall r, In r regs ->
      (k <= r_t r -> forall q x, r_t r < q <= r_e r -> nth_error A q <> Some (Some x)) /\
      (r_t r < k ->
       ((forall E, nth_error A (r_t r) <> Some (Some E)) ->
        forall q x, r_t r < q <= r_e r -> nth_error A q <> Some (Some x)) /\
       (forall E, nth_error A (r_t r) = Some (Some E) ->
        forall q x, r_t r < q <= r_e r -> nth_error A q = Some (Some x) ->
        exists w, nth_error (r_W r E) q = Some (Some w) /\ ge x w)).

  Record Inv (k : nat) (A : annotation) : Prop := {
    inv_len : length A = S len;
    inv_good : good_entries A;
    inv_closed : forall q, q < k -> check_pc c A q = true;
    inv_reg : reg_inv k A;
    inv_zero : nth_error A 0 = Some (Some a_init) }.

  Lemma Wg_closed q : q < len -> check_pc c Wg q = true.
  Proof.
    intro Hq. unfold check in HWg.
    destruct (nth_error Wg 0) as [[a0|]|]; try discriminate. destruct (aleb a_init a0); [|discriminate].
    apply (all_ok_forall _ _ HWg). apply in_seq. lia.
  Qed.

  Lemma nofstr_at k i : nth_error c k = Some i -> ishape i <> SFstrPush.
  Proof. intro H. apply Hnofstr. eapply nth_error_In; eauto. Qed.

  (* what is known about a successor (t, a') of pc k *)
  Definition fact (k : nat) (A : annotation) (t : nat) (a' : astate) : Prop :=
    t <= len /\ plain a' /\
    (exists w, nth_error Wg t = Some (Some w) /\ ge a' w) /\
    (t <= k -> exists E, nth_error A t = Some (Some E) /\ ge a' E) /\
    (forall r, In r regs -> k < r_t r -> ~ (r_t r < t <= r_e r)) /\
    (forall r E, In r regs -> r_t r <= k -> nth_error A (r_t r) = Some (Some E) -> r_t r < t <= r_e r -> k < t ->
                 exists w, nth_error (r_W r E) t = Some (Some w) /\ ge a' w).

  Lemma step_facts k A a i :
    Inv k A -> nth_error A k = Some (Some a) -> nth_error c k = Some i ->
    exists sa, atransfer len k (ishape i) a = AOk sa /\ forall t a', In (t, a') sa -> fact k A t a'.
  Proof.
    intros I HA HC.
    assert (Hk : k < len) by (apply nth_error_Some; congruence).
    destruct (inv_good _ _ I _ _ HA) as [Pa [w [HW Hge]]].
    destruct (check_pc_inv _ _ _ _ _ (Wg_closed k Hk) HW HC) as [sw [Tw Sw]].
    destruct (atransfer_mono _ _ _ _ _ _ Pa Hge (nofstr_at _ _ HC) Tw) as [sa [Ta [Rel Pl]]].
    exists sa; split; [exact Ta|].
    (* the region lemma *)
    assert (RL : forall r E, In r regs -> r_t r <= k <= r_e r -> nth_error A (r_t r) = Some (Some E) ->
                 forall t a', In (t, a') sa -> exists x, nth_error (r_W r E) t = Some (Some x) /\ ge a' x).
    { intros r E Hr Hrange HE t a' Hin.
      destruct (inv_good _ _ I _ _ HE) as [PE _].
      destruct (Hfam r E Hr PE) as [Hhead Hck].
      assert (Hwk : exists wk, nth_error (r_W r E) k = Some (Some wk) /\ ge a wk).
      { destruct (Nat.eq_dec (r_t r) k) as [Heq|Hne].
        - rewrite Heq in *. rewrite HA in HE. inversion HE; subst E. exists a; split; [exact Hhead|apply ge_refl; exact Pa].
        - destruct (inv_reg _ _ I r Hr) as [_ H2]. destruct (H2 ltac:(lia)) as [_ H3].
          apply (H3 E HE k a); [lia|exact HA]. }
      destruct Hwk as [wk [Hwk Hgk]].
      destruct (check_pc_inv _ _ _ _ _ (Hck k Hrange) Hwk HC) as [swk [Twk Swk]].
      destruct (atransfer_mono _ _ _ _ _ _ Pa Hgk (nofstr_at _ _ HC) Twk) as [sa' [Ta' [Rel' _]]].
      rewrite Ta in Ta'. inversion Ta'; subst sa'.
      destruct (Forall2_in_l _ _ _ _ Rel' Hin) as [[t' w'] [Hin' [Ht Hg]]]. cbn [fst snd] in *. subst t'.
      destruct (Swk _ _ Hin') as [x [Hx Hgx]]. exists x; split; [exact Hx|].
      eapply ge_trans; [|exact Hg|exact Hgx]. rewrite Forall_forall in Pl. apply (Pl _ Hin). }
    intros t a' Hin.
    assert (Hpl : plain a') by (rewrite Forall_forall in Pl; apply (Pl _ Hin)).
    assert (Htg : In t (targets len k (ishape i))).
    { rewrite <- (atransfer_targets _ _ _ _ _ Ta). apply in_map_iff. exists (t, a'); split; [reflexivity|exact Hin]. }
    unfold fact. split; [eapply targets_le; eauto|]. split; [exact Hpl|]. split; [|split; [|split]].
    - destruct (Forall2_in_l _ _ _ _ Rel Hin) as [[t' w'] [Hin' [Ht Hg]]]. cbn [fst snd] in *. subst t'.
      destruct (Sw _ _ Hin') as [x [Hx Hgx]]. exists x; split; [exact Hx|]. eapply ge_trans; eauto.
    - intro Htk. destruct (Hback k i t HC Htg Htk) as [r [Hr [Hrt Hre]]].
      destruct (nth_error A t) as [[E|]|] eqn:EA.
      + exists E; split; [reflexivity|].
        destruct (inv_good _ _ I _ _ EA) as [PE _].
        destruct (RL r E Hr ltac:(lia) ltac:(rewrite Hrt; exact EA) t a' Hin) as [x [Hx Hgx]].
        destruct (Hfam r E Hr PE) as [Hhead _]. rewrite Hrt in Hhead. rewrite Hhead in Hx. inversion Hx; subst x. exact Hgx.
      + exfalso. destruct (Nat.eq_dec t k) as [->|Hne]; [congruence|].
        destruct (inv_reg _ _ I r Hr) as [_ H2]. destruct (H2 ltac:(lia)) as [H3 _].
        apply (H3 ltac:(intros E HE; rewrite Hrt in HE; congruence) k a ltac:(lia) HA).
      + exfalso. destruct (Nat.eq_dec t k) as [->|Hne]; [congruence|].
        destruct (inv_reg _ _ I r Hr) as [_ H2]. destruct (H2 ltac:(lia)) as [H3 _].
        apply (H3 ltac:(intros E HE; rewrite Hrt in HE; congruence) k a ltac:(lia) HA).
    - intros r Hr Hkr. eapply Hnoentry; eauto.
    - intros r E Hr Hrk HE Hrange Hkt. eapply RL; eauto. lia.
  Qed.

  (* ---------------------------------------------------------------- merging the successors of pc k *)
  Definition MInv (k : nat) (A0 A : annotation) : Prop :=
    length A = S len /\ good_entries A /\ (forall q, q < k -> check_pc c A q = true) /\ reg_inv (S k) A /\
    (forall q, q <= k -> nth_error A q = nth_error A0 q).

  Lemma check_pc_weaken A t x q :
    q <> t -> t < length A ->
    (forall y, nth_error A t = Some (Some y) -> plain y /\ ge y x) ->
    check_pc c A q = true -> check_pc c (set_nth A t (Some x)) q = true.
  Proof.
    intros Hqt Ht Hy H. unfold check_pc in *. rewrite nth_error_set_nth_neq by exact Hqt.
    destruct (nth_error A q) as [[a|]|]; auto. destruct (nth_error c q) as [i|]; auto.
    destruct (atransfer len q (ishape i) a) as [r|succs]; auto.
    apply all_ok_intro. intros [u b] Hin. pose proof (all_ok_forall _ _ H _ Hin) as Hs.
    unfold succ_ok in *. cbn [fst snd] in *.
    destruct (Nat.eq_dec u t) as [->|Hne].
    - rewrite nth_error_set_nth_eq by exact Ht.
      destruct (nth_error A t) as [[y|]|] eqn:Ey; try discriminate.
      destruct (Hy y eq_refl) as [Py Hg].
      (* b >= y >= x; b need not be plain: use the component form *)
      apply aleb_iff in Hs. apply (ge_plain_iff _ _ Py) in Hg.
      destruct Py as [Pyf Pyd]. rewrite Pyf, Pyd in Hs.
      destruct Hs as (S1 & S2 & S3 & S4 & S5 & S6 & S7). destruct Hg as ([Pxf Pxd] & G1 & G2 & G3 & G4 & G5).
      apply aleb_iff. rewrite Pxf, Pxd. repeat split; eauto using Nat.le_trans, list_le_trans, implb_trans.
    - rewrite nth_error_set_nth_neq by exact Hne. exact Hs.
  Qed.

  Lemma MInv_set k A0 A a t x :
    nth_error A0 k = Some (Some a) ->
    MInv k A0 A -> k < t -> t <= len -> plain x ->
    (exists w, nth_error Wg t = Some (Some w) /\ ge x w) ->
    (forall y, nth_error A t = Some (Some y) -> ge y x) ->
    (forall r, In r regs -> k < r_t r -> ~ (r_t r < t <= r_e r)) ->
    (forall r E, In r regs -> r_t r <= k -> nth_error A0 (r_t r) = Some (Some E) -> r_t r < t <= r_e r ->
                 exists w, nth_error (r_W r E) t = Some (Some w) /\ ge x w) ->
    MInv k A0 (set_nth A t (Some x)).
  Proof.
    intros HA0k (ML & MG & MC & MR & MS) Hkt Htl Px HWx Hyx Hno Hreg.
    assert (Htlen : t < length A) by lia.
    split; [rewrite set_nth_length; exact ML|]. split; [|split; [|split]].
    - intros q z Hq. destruct (Nat.eq_dec q t) as [->|Hne].
      + rewrite nth_error_set_nth_eq in Hq by exact Htlen. inversion Hq; subst z. split; assumption.
      + rewrite nth_error_set_nth_neq in Hq by exact Hne. apply MG. exact Hq.
    - intros q Hq. apply check_pc_weaken; [lia|exact Htlen| |apply MC; exact Hq].
      intros y Hy. split; [apply (MG _ _ Hy)|apply Hyx; exact Hy].
    - intros r Hr. destruct (MR r Hr) as [R1 R2]. split.
      + intros Hk q z Hrange. rewrite nth_error_set_nth_neq; [apply R1; assumption|].
        intros ->. apply (Hno r Hr ltac:(lia)). exact Hrange.
      + intros Hk. destruct (R2 Hk) as [R3 R4].
        assert (Hrt : nth_error (set_nth A t (Some x)) (r_t r) = nth_error A0 (r_t r)).
        { rewrite nth_error_set_nth_neq by lia. apply MS. lia. }
        assert (Hrt' : nth_error A (r_t r) = nth_error A0 (r_t r)) by (apply MS; lia).
        split.
        * intros HnE q z Hrange. destruct (Nat.eq_dec q t) as [->|Hne].
          -- exfalso. rewrite Hrt in HnE. rewrite Hrt' in R3.
             destruct (Nat.eq_dec (r_t r) k) as [Heq|Hnk].
             ++ rewrite Heq in HnE. apply (HnE a). exact HA0k.
             ++ apply (R3 HnE k a ltac:(lia)). rewrite (MS k (Nat.le_refl k)). exact HA0k.
          -- rewrite nth_error_set_nth_neq by exact Hne. rewrite Hrt in HnE. rewrite Hrt' in R3. apply R3; assumption.
        * intros E HE q z Hrange Hq. rewrite Hrt in HE. rewrite Hrt' in R4.
          destruct (Nat.eq_dec q t) as [->|Hne].
          -- rewrite nth_error_set_nth_eq in Hq by exact Htlen. inversion Hq; subst z.
             apply (Hreg r E Hr ltac:(lia) HE Hrange).
          -- rewrite nth_error_set_nth_neq in Hq by exact Hne. apply (R4 E HE q z Hrange Hq).
    - intros q Hq. rewrite nth_error_set_nth_neq by lia. apply MS. exact Hq.
  Qed.

  Lemma merge_step k A0 a :
    nth_error A0 k = Some (Some a) ->
    forall sa A ch,
      MInv k A0 A -> (forall t a', In (t, a') sa -> fact k A0 t a') ->
      exists A' ch', merge A ch sa = IOk A' ch' /\ MInv k A0 A' /\
                     (forall t a', In (t, a') sa -> exists x, nth_error A' t = Some (Some x) /\ ge a' x) /\
                     (forall u y, nth_error A u = Some (Some y) -> exists y', nth_error A' u = Some (Some y') /\ ge y y').
  Proof.
    intros HA0k. induction sa as [|[t a'] rest IH]; intros A ch M HF.
    - exists A, ch. split; [reflexivity|]. split; [exact M|]. split; [intros t a' []|].
      intros u y Hy. exists y; split; [exact Hy|]. apply ge_refl. destruct M as (_ & MG & _). apply (MG _ _ Hy).
    - destruct (HF t a' (or_introl eq_refl)) as (Htl & Pa' & [wg [HWg' Hgwg]] & Hbk & Hno & Hreg).
      pose proof M as (ML & MG & MC & MR & MS).
      assert (HFrest : forall t0 a0, In (t0, a0) rest -> fact k A0 t0 a0) by (intros; apply HF; right; assumption).
      (* continuation: given the annotation A1 after this merge *)
      assert (Cont : forall A1 ch1,
                 MInv k A0 A1 ->
                 (exists x, nth_error A1 t = Some (Some x) /\ ge a' x) ->
                 (forall u y, nth_error A u = Some (Some y) -> exists y', nth_error A1 u = Some (Some y') /\ ge y y') ->
                 exists A' ch', merge A1 ch1 rest = IOk A' ch' /\ MInv k A0 A' /\
                   (forall t0 a0, In (t0, a0) ((t, a') :: rest) -> exists x, nth_error A' t0 = Some (Some x) /\ ge a0 x) /\
                   (forall u y, nth_error A u = Some (Some y) -> exists y', nth_error A' u = Some (Some y') /\ ge y y')).
      { intros A1 ch1 M1 [x [Hx Hgx]] Hmono.
        destruct (IH A1 ch1 M1 HFrest) as (A' & ch' & Hm & M' & Hs & Hmono').
        exists A', ch'. split; [exact Hm|]. split; [exact M'|]. split.
        - intros t0 a0 [Heq|Hin]; [|apply Hs; exact Hin]. inversion Heq; subst t0 a0.
          destruct (Hmono' _ _ Hx) as [x' [Hx' Hgx']]. exists x'; split; [exact Hx'|]. eapply ge_trans; eauto.
        - intros u y Hy. destruct (Hmono _ _ Hy) as [y1 [Hy1 Hg1]]. destruct (Hmono' _ _ Hy1) as [y2 [Hy2 Hg2]].
          exists y2; split; [exact Hy2|]. destruct M as (_ & MG0 & _). eapply ge_trans; [apply (MG0 _ _ Hy)|eauto..]. }
      cbn [merge].
      destruct (nth_error A t) as [[a''|]|] eqn:EA.
      + (* an entry exists *)
        destruct (MG _ _ EA) as [Pa'' [wg' [HWg'' Hg'']]]. rewrite HWg' in HWg''. inversion HWg''; subst wg'.
        destruct (ajoin_glb a'' a' wg Pa'' Pa' Hg'' Hgwg) as (j & Hj & Pj & Hjw & Hj1 & Hj2).
        rewrite Hj.
        destruct (aleb j a'') eqn:Ejl.
        * (* unchanged *)
          apply Cont; [exact M| |].
          -- exists a''; split; [exact EA|]. eapply ge_trans; eauto.
          -- intros u y Hy. exists y; split; [exact Hy|apply ge_refl; apply (MG _ _ Hy)].
        * (* weakened: only possible for a forward edge *)
          assert (Hkt : k < t).
          { destruct (Nat.le_gt_cases t k) as [Hle|Hgt]; [|exact Hgt]. exfalso.
            destruct (Hbk Hle) as [E [HE HgE]]. rewrite <- (MS t Hle) in HE. rewrite EA in HE. inversion HE; subst E.
            destruct (ajoin_glb a'' a' a'' Pa'' Pa' (ge_refl _ Pa'') HgE) as (j' & Hj' & _ & Hjl & _).
            rewrite Hj in Hj'. inversion Hj'; subst j'. unfold ge in Hjl. congruence. }
          apply Cont.
          -- eapply MInv_set; eauto.
             ++ intros y Hy. rewrite EA in Hy. inversion Hy; subst y. exact Hj1.
             ++ intros r E Hr Hrk HE Hrange.
                destruct (Hreg r E Hr Hrk HE Hrange Hkt) as [w [Hw Hgw]]. exists w; split; [exact Hw|].
                destruct (MR r Hr) as [_ R2]. destruct (R2 ltac:(lia)) as [_ R4].
                rewrite (MS (r_t r) Hrk) in R4. destruct (R4 E HE t a'' Hrange EA) as [w2 [Hw2 Hgw2]].
                rewrite Hw in Hw2. inversion Hw2; subst w2.
                destruct (ajoin_glb a'' a' w Pa'' Pa' Hgw2 Hgw) as (j' & Hj' & _ & Hjl & _).
                rewrite Hj in Hj'. inversion Hj'; subst j'. exact Hjl.
          -- exists j; split; [apply nth_error_set_nth_eq; lia|exact Hj2].
          -- intros u y Hy. destruct (Nat.eq_dec u t) as [->|Hne].
             ++ rewrite EA in Hy. inversion Hy; subst y. exists j; split; [apply nth_error_set_nth_eq; lia|exact Hj1].
             ++ exists y; split; [rewrite nth_error_set_nth_neq by exact Hne; exact Hy|apply ge_refl; apply (MG _ _ Hy)].
      + (* no entry yet: a forward edge *)
        assert (Hkt : k < t).
        { destruct (Nat.le_gt_cases t k) as [Hle|Hgt]; [|exact Hgt]. exfalso.
          destruct (Hbk Hle) as [E [HE _]]. rewrite <- (MS t Hle) in HE. congruence. }
        apply Cont.
        -- eapply MInv_set; eauto; try (intros y Hy; congruence).
        -- exists a'; split; [apply nth_error_set_nth_eq; lia|apply ge_refl; exact Pa'].
        -- intros u y Hy. destruct (Nat.eq_dec u t) as [->|Hne]; [congruence|].
           exists y; split; [rewrite nth_error_set_nth_neq by exact Hne; exact Hy|apply ge_refl; apply (MG _ _ Hy)].
      + exfalso. assert (nth_error A t <> None) by (apply nth_error_Some; lia). congruence.
  Qed.

  (* ---------------------------------------------------------------- one pass *)
  Lemma reg_inv_skip k A :
    reg_inv k A -> (forall a, nth_error A k <> Some (Some a)) -> reg_inv (S k) A.
  Proof.
    intros R Hk r Hr. destruct (R r Hr) as [R1 R2]. split.
    - intros Hle. apply R1. lia.
    - intros Hlt. destruct (Nat.eq_dec (r_t r) k) as [Heq|Hne].
      + split.
        * intros _. apply R1. lia.
        * intros E HE. rewrite Heq in HE. exfalso. apply (Hk E HE).
      + apply R2. lia.
  Qed.

  Lemma reg_inv_enter k A :
    reg_inv k A -> reg_inv (S k) A.
  Proof.
    intros R r Hr. destruct (R r Hr) as [R1 R2]. split.
    - intros Hle. apply R1. lia.
    - intros Hlt. destruct (Nat.eq_dec (r_t r) k) as [Heq|Hne].
      + split.
        * intros _. apply R1. lia.
        * intros E HE q x Hrange Hq. exfalso. apply (R1 ltac:(lia) q x Hrange Hq).
      + apply R2. lia.
  Qed.

  Lemma pass_inv : forall cs pre A ch,
    c = pre ++ cs -> Inv (length pre) A ->
    exists A' ch', pass c len cs (length pre) A ch = IOk A' ch' /\ Inv len A'.
  Proof.
    induction cs as [|i cs IH]; intros pre A ch Hc I.
    - exists A, ch. split; [reflexivity|]. replace len with (length pre); [exact I|].
      rewrite Hc, app_nil_r. reflexivity.
    - set (k := length pre) in *.
      assert (HC : nth_error c k = Some i).
      { rewrite Hc. rewrite nth_error_app2 by (unfold k; lia). unfold k. rewrite Nat.sub_diag. reflexivity. }
      assert (Hc' : c = (pre ++ [i]) ++ cs) by (rewrite <- app_assoc; exact Hc).
      assert (Hk' : length (pre ++ [i]) = S k) by (rewrite app_length; cbn [length]; unfold k; lia).
      cbn [pass].
      destruct (nth_error A k) as [[a|]|] eqn:EA.
      + destruct (step_facts k A a i I EA HC) as [sa [Ta HF]]. rewrite Ta.
        assert (M : MInv k A A).
        { split; [apply (inv_len _ _ I)|]. split; [apply (inv_good _ _ I)|]. split; [apply (inv_closed _ _ I)|].
          split; [apply reg_inv_enter; apply (inv_reg _ _ I)|]. reflexivity. }
        destruct (merge_step k A a EA sa A ch M HF) as (A1 & ch1 & Hm & M1 & Hs & _).
        rewrite Hm. rewrite <- Hk'. apply (IH (pre ++ [i]) A1 ch1 Hc'). rewrite Hk'.
        destruct M1 as (ML & MG & MC & MR & MS).
        constructor; auto.
        * intros q Hq. destruct (Nat.eq_dec q k) as [->|Hne]; [|apply MC; lia].
          eapply check_pc_intro; [rewrite (MS k (Nat.le_refl k)); exact EA|exact HC|exact Ta|exact Hs].
        * rewrite (MS 0 ltac:(lia)). apply (inv_zero _ _ I).
      + rewrite <- Hk'. apply (IH (pre ++ [i]) A ch Hc'). rewrite Hk'.
        constructor; try apply I.
        * intros q Hq. destruct (Nat.eq_dec q k) as [->|Hne]; [|apply (inv_closed _ _ I); lia].
          unfold check_pc. rewrite EA. reflexivity.
        * apply reg_inv_skip; [apply (inv_reg _ _ I)|]. intros a Ha. congruence.
      + rewrite <- Hk'. apply (IH (pre ++ [i]) A ch Hc'). rewrite Hk'.
        constructor; try apply I.
        * intros q Hq. destruct (Nat.eq_dec q k) as [->|Hne]; [|apply (inv_closed _ _ I); lia].
          unfold check_pc. rewrite EA. reflexivity.
        * apply reg_inv_skip; [apply (inv_reg _ _ I)|]. intros a Ha. congruence.
  Qed.

  (* ---------------------------------------------------------------- a pass over a fixpoint changes nothing *)
  Lemma merge_closed A : forall sa ch,
    (forall t a', In (t, a') sa -> plain a' /\ exists x, nth_error A t = Some (Some x) /\ plain x /\ ge a' x) ->
    merge A ch sa = IOk A ch.
  Proof.
    induction sa as [|[t a'] rest IH]; intros ch H; cbn [merge]; [reflexivity|].
    destruct (H t a' (or_introl eq_refl)) as [Pa' [x [Hx [Px Hg]]]]. rewrite Hx.
    destruct (ajoin_glb x a' x Px Pa' (ge_refl _ Px) Hg) as (j & Hj & _ & Hjl & _).
    rewrite Hj. unfold ge in Hjl. rewrite Hjl. apply IH. intros; apply H; right; assumption.
  Qed.

  Lemma pass_closed A :
    (forall q x, nth_error A q = Some (Some x) -> plain x) ->
    (forall q, q < len -> check_pc c A q = true) ->
    forall cs pre ch, c = pre ++ cs -> pass c len cs (length pre) A ch = IOk A ch.
  Proof.
    intros HP HCk. induction cs as [|i cs IH]; intros pre ch Hc; [reflexivity|].
    set (k := length pre) in *.
    assert (HC : nth_error c k = Some i).
    { rewrite Hc. rewrite nth_error_app2 by (unfold k; lia). unfold k. rewrite Nat.sub_diag. reflexivity. }
    assert (Hk : k < len) by (apply nth_error_Some; congruence).
    assert (Hc' : c = (pre ++ [i]) ++ cs) by (rewrite <- app_assoc; exact Hc).
    assert (Hk' : length (pre ++ [i]) = S k) by (rewrite app_length; cbn [length]; unfold k; lia).
    cbn [pass].
    destruct (nth_error A k) as [[a|]|] eqn:EA; try (rewrite <- Hk'; apply IH; exact Hc').
    destruct (check_pc_inv _ _ _ _ _ (HCk k Hk) EA HC) as [sa [Ta Hs]]. rewrite Ta.
    pose proof (HP _ _ EA) as Pa.
    destruct (atransfer_mono _ _ _ _ _ _ Pa (ge_refl _ Pa) (nofstr_at _ _ HC) Ta) as [sa' [Ta' [_ Pl]]].
    rewrite Ta in Ta'. inversion Ta'; subst sa'. rewrite Forall_forall in Pl.
    rewrite merge_closed.
    - rewrite <- Hk'. apply IH. exact Hc'.
    - intros t a' Hin. split; [apply (Pl _ Hin)|]. destruct (Hs _ _ Hin) as [x [Hx Hg]].
      exists x; split; [exact Hx|]. split; [apply (HP _ _ Hx)|exact Hg].
  Qed.

  (* ---------------------------------------------------------------- the inference accepts *)
  Lemma Inv_init : Inv 0 (Some a_init :: repeat None len).
  Proof.
    constructor.
    - cbn [length]. rewrite repeat_length. reflexivity.
    - intros q x Hq. destruct q as [|q]; cbn [nth_error] in Hq.
      + inversion Hq; subst x. split; [split; reflexivity|].
        unfold check in HWg. destruct (nth_error Wg 0) as [[a0|]|]; try discriminate.
        destruct (aleb a_init a0) eqn:E; [|discriminate]. exists a0; split; [reflexivity|exact E].
      + exfalso. destruct (nth_error (repeat None len) q) as [o|] eqn:E; [|discriminate].
        apply nth_error_In in E. apply repeat_spec in E. congruence.
    - intros q Hq. lia.
    - intros r Hr. split; [|intros Hlt; lia].
      intros _ q x Hrange Hq. destruct q as [|q]; [lia|]. cbn [nth_error] in Hq.
      destruct (nth_error (repeat None len) q) as [o|] eqn:E; [|discriminate].
      apply nth_error_In in E. apply repeat_spec in E. congruence.
    - reflexivity.
  Qed.

  Lemma Inv_check A : Inv len A -> check c A = true.
  Proof.
    intros I. unfold check. rewrite (inv_zero _ _ I).
    replace (aleb a_init a_init) with true by (symmetry; apply (ge_refl a_init); split; reflexivity).
    apply all_ok_intro. intros q Hq. apply in_seq in Hq. apply (inv_closed _ _ I). lia.
  Qed.

  Lemma iterate_S f A :
    iterate (S f) c A = match pass c len c 0 A false with IOk annot' true => iterate f c annot' | r => Some r end.
  Proof. reflexivity. Qed.

  Theorem infer_accepts : exists A ch, infer c = Some (IOk A ch) /\ check c A = true.
  Proof.
    destruct (pass_inv c [] (Some a_init :: repeat None len) false eq_refl Inv_init) as (A1 & ch1 & Hp1 & I1).
    cbn [length] in Hp1.
    assert (Hp2 : pass c len c 0 A1 false = IOk A1 false).
    { apply (pass_closed A1) with (pre := []); [|apply (inv_closed _ _ I1)|reflexivity].
      intros q x Hq. apply (inv_good _ _ I1 _ _ Hq). }
    unfold infer. change infer_fuel with (S (S 198)). rewrite iterate_S, Hp1.
    destruct ch1.
    - rewrite iterate_S, Hp2. exists A1, false. split; [reflexivity|apply Inv_check; exact I1].
    - exists A1, false. split; [reflexivity|apply Inv_check; exact I1].
  Qed.

  Theorem verify_accepts : verify c = true.
  Proof. destruct infer_accepts as (A & ch & Hi & Hc). unfold verify. rewrite Hi. exact Hc. Qed.
End Generic.

Print Assumptions verify_accepts.
