(* Executable model of the byte-code VM of sealdice/dicescript: rollvm.go `evaluate`,
   Parse/RunAfterParsed (the run half), types.go LoadName*/StoreName*/AttrGet/AttrSet/ItemGet/
   ItemSet/GetSliceEx/SetSliceEx/FuncInvoke*/ComputedExecute, types_methods.go, builtin_functions.go.
   Dice come from Model/Dice.v on PCG.pcg_next.  Tied to the code by the K2 correspondence
   (Corr/CorrK2.v, lib/k2cases.py): the model is run on the byte-code the real parser produced.

   READING GUIDE
     opcode / operand / instr   decoded byte-code (operand keeps the Go dynamic type of ByteCode.Value,
                                so that every `code.Value.(T)` assertion is an explicit Panic)
     frame                      the locals of one activation of evaluate(): pc, operand stack (with the
                                stale slots above top), lastPop, block stacks, dice states, detail spans
     ctx                        what a Context contributes besides the frame: its Attrs map and NumOpCount
     world                      everything shared: heap, generator, st callback log, the context chain
                                (head = running context, tail = UpCtx chain)
     step call m                one loop iteration of evaluate() (open recursion: `call` runs a sub-VM)
     exec fuel m                the loop; fuel bounds dispatched instructions per activation AND nesting
     run fuel env code src st   Parse's resets + RunAfterParsed on a persistent VM state

   OUTCOMES  Fin / Fail (ctx.Error set; class of the message) / Panic (Go would panic here today) /
   OutOfFuel (for every fuel = the real code does not terminate / recurses until the goroutine stack
   is exhausted: only loops and recursion of the SCRIPT are left, all counted by NumOpCount) /
   Unsupported (outside the modelled fragment; see the list below).

   ILL-FORMED CODE (left over from abandoned parser alternatives) is an ERROR since the repair
   "ill-formed byte-code makes the VM report an error": stackPop on an empty stack records E3
   (unless an error is already recorded), yields a null and THE INSTRUCTION GOES ON; the recorded
   error (frame field fr_err) is acted upon at the next `if ctx.Error != nil { return }` of that
   instruction or, after one more numOpCountAdd(1), at the next loop head.  The same field models
   `invoke` of a non-function, which records its error without returning.  store / store.local on an
   empty stack, dice.set* / dice without a dice state, block.pop / fstr.block.pop without an open block
   return E3 at once; a dice result without a mark.detail appends an empty span.
   WHERE THE CODE STILL PANICS (explicit `Panic`): a `code.Value.(T)` assertion on a nil / wrongly typed
   operand (jmp je jne je.dup push.arr push.dict invoke popn ld.fs: IntType; push.str ld ld.d ld.raw store
   store.local attr.get attr.set: string; push.func push.computed: *VMValue; mark.detail: BufferSpan; st.mod:
   StInfo — for je/je.dup/jne only when the jump is taken); a jump that makes opIndex negative (e.code[opIndex]);
   push.def_expr whose last span lies outside the source text; stackPush at top = 1000 (unreachable: the
   loop head stops there); jumping beyond the end simply ends the run.

   DELIBERATELY UNSUPPORTED (outcome `Unsupported why`)
     "float"            push.flt, toFloat(): no float value exists in this version
     "pow range"        int ^ int whose exact result (or an operand) exceeds 2^53, or 0 ^ negative
                        (math.Pow rounding / platform-defined float->int conversion)
     "float sum"        Array.kh/kl/sum when an element or partial sum exceeds 2^53 (float64 accumulation)
     "dict order"       ToString/ToRepr of a dict with >= 2 keys, Dict.keys/values/items with >= 2 keys,
                        dir() of an array or dict (Go map iteration order)
     "lazy body"        calling a function / computed value whose code is not in the dump
     "custom dice"      dice.custom
     "def_expr"         push.def_expr with Config.DefaultDiceSideExpr <> ""
     "operand"          push.int whose operand is not an IntType (parser never emits it)
     "uninit slot"      block.pop / ld.fs raising top over a never-written slot (unreachable from top = 0)
     "dice count"       more than dice_cap dice in one roll (model cost only)
     "tostring fuel"    cannot happen (fuel = heap size + 2)
   NOT MODELLED AT ALL: detail texts (DetailSpans contents, makeDetailStr — only len(details) and the
   last span matter for panics), hooks and global-name callbacks (absent in the harness), custom dice,
   RunExpr, Matched/RestInput, the unseeded package generator (the VM is always seeded), JSON. *)
From Coq Require Import String Ascii NArith ZArith List Bool.
From DS Require Import Model.Str Model.PCG Model.Roll Model.Dice Model.Value.
Import ListNotations.
Open Scope string_scope.
Open Scope Z_scope.

(* ------------------------------------------------------------------ byte-code *)
Inductive opcode :=
| OpPushInt | OpPushFlt | OpPushStr | OpPushArr | OpPushDict | OpPushRange | OpPushComputed | OpPushNull
| OpPushThis | OpPushGlobal | OpPushFunc | OpPushLast | OpPushDefExpr
| OpLdFs | OpLd | OpLdD | OpLdRaw | OpStore | OpStoreGlobal | OpStoreLocal
| OpInvoke | OpInvokeSelf | OpItemGet | OpItemSet | OpAttrGet | OpAttrSet | OpSliceGet | OpSliceSet
| OpAdd | OpSub | OpMul | OpDiv | OpMod | OpPow | OpNullCoalescing
| OpLt | OpLe | OpEq | OpNe | OpGe | OpGt
| OpBitAnd | OpBitOr | OpAnd | OpOr | OpNeg | OpPos
| OpDiceInit | OpDiceSetTimes | OpDiceSetKeepLow | OpDiceSetKeepHigh | OpDiceSetDropLow | OpDiceSetDropHigh
| OpDiceSetMin | OpDiceSetMax | OpDice | OpDiceCustom
| OpCocPenalty | OpCocBonus | OpDiceFate | OpDiceWod | OpWodInit | OpWodPool | OpWodPoints | OpWodThreshold
| OpWodThresholdQ | OpDiceDC | OpDcInit | OpDcPool | OpDcPoints | OpHalt | OpMarkDetail
| OpPop | OpPopN | OpNop | OpJmp | OpJe | OpJne | OpJeDup | OpRet
| OpFstrPush | OpFstrPop | OpBlockPush | OpBlockPop
| OpStSet | OpStMod | OpStX0 | OpStX1
| OpUnknown.                      (* a CodeType without a name: no case in the switch *)

(* Go dynamic type of ByteCode.Value *)
Inductive operand :=
| ONil
| OInt (z : Z)
| OFlt
| OStr (s : string)
| OSpan (b e : Z)
| OSt (op text : string)
| OFn (id : N)                    (* *VMValue: function or computed value = entry id of ftab *)
| OCust
| OBad.

Record instr := I { i_op : opcode; i_arg : operand }.
Definition code := list instr.
Definition ftab := list (fdata instr).

Definition f_lookup (ft : ftab) (id : N) : option (fdata instr) := nth_error ft (N.to_nat id).
Definition fnames_of (ft : ftab) : fnames :=
  fun id => match f_lookup ft id with
            | Some d => {| fi_name := f_name d; fi_expr := f_expr d |}
            | None => {| fi_name := ""; fi_expr := "" |}
            end.

(* ------------------------------------------------------------------ configuration *)
Record config := {
  cfg_ignore_div0 : bool;
  cfg_min_mode : bool;              (* DiceMinMode *)
  cfg_max_mode : bool;              (* DiceMaxMode *)
  cfg_op_limit : Z;                 (* OpCountLimit, 0 = none *)
  cfg_def_expr_empty : bool;        (* DefaultDiceSideExpr == "" *)
  cfg_st_callback : bool            (* CallbackSt != nil *)
}.
Definition roll_mode (c : config) : Z := if cfg_min_mode c then -1 else if cfg_max_mode c then 1 else 0.

Record env := { e_ftab : ftab; e_cfg : config }.
Definition e_fn (e : env) : fnames := fnames_of (e_ftab e).

(* ------------------------------------------------------------------ errors *)
Inductive eclass :=
| EType      (* 1: operand / receiver of the wrong type *)
| EDiv0      (* 2 *)
| EIndex     (* 3: 无法获取此下标 *)
| EBudget    (* 4: 允许算力上限 *)
| EStack     (* 5: 执行栈到达溢出线 *)
| ENest      (* 6: block / template nesting *)
| EDice      (* 7: illegal dice parameter value *)
| ECall      (* 8: call of a non-function, arity *)
| EOther     (* 9 *)
| ELimit     (* 10: 不能一次性创建过长的数组 *)
| EValue.    (* 11: illegal argument value of a builtin / array repetition *)
Definition eclass_num (e : eclass) : N :=
  match e with
  | EType => 1 | EDiv0 => 2 | EIndex => 3 | EBudget => 4 | EStack => 5 | ENest => 6 | EDice => 7
  | ECall => 8 | EOther => 9 | ELimit => 10 | EValue => 11
  end%N.

(* ------------------------------------------------------------------ machine state *)
(* lastPop: nil, a pointer INTO the stack (stackPop: contents may change later), or a clone (stackPopN) *)
Inductive lastpop := LNone | LSlot (i : Z) | LVal (v : value).

Record dstate := { d_times : Z; d_keep : Z; d_low : Z; d_high : Z; d_min : option Z; d_max : option Z }.
Definition dstate0 : dstate := {| d_times := 1; d_keep := 0; d_low := 0; d_high := 0; d_min := None; d_max := None |}.
Record wodstate := { w_pool : Z; w_points : Z; w_threshold : Z; w_isge : bool }.
Record dcstate := { c_pool : Z; c_points : Z }.

Definition stack_size : Z := 1000.
Definition block_depth : Z := 20.

Record frame := {
  fr_code : code;
  fr_pc : Z;                        (* opIndex *)
  fr_live : list value;             (* stack[0..top), top first *)
  fr_dead : list value;             (* stack[top..), nearest first: stale contents of popped slots *)
  fr_top : Z;                       (* = length fr_live *)
  fr_last : lastpop;
  fr_blocks : list Z;               (* blockStack[0..blockIndex), innermost first *)
  fr_fblocks : list Z;              (* fstrBlockStack *)
  fr_dice : list dstate;            (* diceStates[0..diceStateIndex], innermost first *)
  fr_wod : wodstate;
  fr_dc : dcstate;
  fr_details : list (Z * Z);        (* spans of `details`, newest first *)
  fr_src : option string;           (* ctx.parser.data: source (main), Expr (computed), nil (function) *)
  fr_err : option eclass            (* ctx.Error of the running context, set but not yet acted upon *)
}.

Definition new_frame (c : code) (src : option string) : frame :=
  {| fr_code := c; fr_pc := 0; fr_live := []; fr_dead := []; fr_top := 0; fr_last := LNone;
     fr_blocks := []; fr_fblocks := []; fr_dice := [];
     fr_wod := {| w_pool := 0; w_points := 0; w_threshold := 0; w_isge := false |};
     fr_dc := {| c_pool := 0; c_points := 0 |};
     fr_details := []; fr_src := src; fr_err := None |}.

Record ctx := { c_attrs : N; c_ops : Z }.

(* one CallbackSt invocation: type, name, value, extra, op, text *)
Record stcall := { st_type : string; st_name : string; st_val : value; st_extra : option value; st_op : string; st_text : string }.

Record world := {
  w_heap : heap;
  w_pcg : pcg;
  w_st : list stcall;               (* newest first *)
  w_chain : list ctx                (* head = the running Context, tail = its UpCtx chain *)
}.

Record machine := { m_fr : frame; m_w : world }.

Inductive result :=
| Fin (m : machine)                 (* evaluate() returned with ctx.Error == nil *)
| Fail (e : eclass) (m : machine)   (* ctx.Error set; state at that moment *)
| Panic (what : string)
| OutOfFuel
| Unsupported (what : string).

(* result of an operation inside one instruction *)
Inductive R (A : Type) :=
| ROk (a : A) (w : world)
| RFail (e : eclass) (w : world)
| RPanic (what : string)
| RFuel
| RUnsup (what : string).
Arguments ROk {A}. Arguments RFail {A}. Arguments RPanic {A}. Arguments RFuel {A}. Arguments RUnsup {A}.

Definition rbind {A B} (r : R A) (k : A -> world -> R B) : R B :=
  match r with
  | ROk a w => k a w
  | RFail e w => RFail e w
  | RPanic s => RPanic s
  | RFuel => RFuel
  | RUnsup s => RUnsup s
  end.

(* ---- setters *)
Definition fr_set_stack (fr : frame) (live dead : list value) (top : Z) (last : lastpop) : frame :=
  {| fr_code := fr_code fr; fr_pc := fr_pc fr; fr_live := live; fr_dead := dead; fr_top := top; fr_last := last;
     fr_blocks := fr_blocks fr; fr_fblocks := fr_fblocks fr; fr_dice := fr_dice fr; fr_wod := fr_wod fr; fr_dc := fr_dc fr;
     fr_details := fr_details fr; fr_src := fr_src fr; fr_err := fr_err fr |}.
Definition fr_set_pc (fr : frame) (pc : Z) : frame :=
  {| fr_code := fr_code fr; fr_pc := pc; fr_live := fr_live fr; fr_dead := fr_dead fr; fr_top := fr_top fr; fr_last := fr_last fr;
     fr_blocks := fr_blocks fr; fr_fblocks := fr_fblocks fr; fr_dice := fr_dice fr; fr_wod := fr_wod fr; fr_dc := fr_dc fr;
     fr_details := fr_details fr; fr_src := fr_src fr; fr_err := fr_err fr |}.
Definition fr_set_blocks (fr : frame) (b fb : list Z) : frame :=
  {| fr_code := fr_code fr; fr_pc := fr_pc fr; fr_live := fr_live fr; fr_dead := fr_dead fr; fr_top := fr_top fr; fr_last := fr_last fr;
     fr_blocks := b; fr_fblocks := fb; fr_dice := fr_dice fr; fr_wod := fr_wod fr; fr_dc := fr_dc fr;
     fr_details := fr_details fr; fr_src := fr_src fr; fr_err := fr_err fr |}.
Definition fr_set_dice (fr : frame) (d : list dstate) : frame :=
  {| fr_code := fr_code fr; fr_pc := fr_pc fr; fr_live := fr_live fr; fr_dead := fr_dead fr; fr_top := fr_top fr; fr_last := fr_last fr;
     fr_blocks := fr_blocks fr; fr_fblocks := fr_fblocks fr; fr_dice := d; fr_wod := fr_wod fr; fr_dc := fr_dc fr;
     fr_details := fr_details fr; fr_src := fr_src fr; fr_err := fr_err fr |}.
Definition fr_set_wod (fr : frame) (x : wodstate) : frame :=
  {| fr_code := fr_code fr; fr_pc := fr_pc fr; fr_live := fr_live fr; fr_dead := fr_dead fr; fr_top := fr_top fr; fr_last := fr_last fr;
     fr_blocks := fr_blocks fr; fr_fblocks := fr_fblocks fr; fr_dice := fr_dice fr; fr_wod := x; fr_dc := fr_dc fr;
     fr_details := fr_details fr; fr_src := fr_src fr; fr_err := fr_err fr |}.
Definition fr_set_dc (fr : frame) (x : dcstate) : frame :=
  {| fr_code := fr_code fr; fr_pc := fr_pc fr; fr_live := fr_live fr; fr_dead := fr_dead fr; fr_top := fr_top fr; fr_last := fr_last fr;
     fr_blocks := fr_blocks fr; fr_fblocks := fr_fblocks fr; fr_dice := fr_dice fr; fr_wod := fr_wod fr; fr_dc := x;
     fr_details := fr_details fr; fr_src := fr_src fr; fr_err := fr_err fr |}.
Definition fr_set_details (fr : frame) (d : list (Z * Z)) : frame :=
  {| fr_code := fr_code fr; fr_pc := fr_pc fr; fr_live := fr_live fr; fr_dead := fr_dead fr; fr_top := fr_top fr; fr_last := fr_last fr;
     fr_blocks := fr_blocks fr; fr_fblocks := fr_fblocks fr; fr_dice := fr_dice fr; fr_wod := fr_wod fr; fr_dc := fr_dc fr;
     fr_details := d; fr_src := fr_src fr; fr_err := fr_err fr |}.

Definition fr_set_err (fr : frame) (e : option eclass) : frame :=
  {| fr_code := fr_code fr; fr_pc := fr_pc fr; fr_live := fr_live fr; fr_dead := fr_dead fr; fr_top := fr_top fr; fr_last := fr_last fr;
     fr_blocks := fr_blocks fr; fr_fblocks := fr_fblocks fr; fr_dice := fr_dice fr; fr_wod := fr_wod fr; fr_dc := fr_dc fr;
     fr_details := fr_details fr; fr_src := fr_src fr; fr_err := e |}.
(* errInvalidCode: "E3:无效的表达式" unless an error is already recorded *)
Definition err_invalid (fr : frame) : frame :=
  match fr_err fr with Some _ => fr | None => fr_set_err fr (Some EOther) end.

Definition w_set_heap (w : world) (h : heap) : world :=
  {| w_heap := h; w_pcg := w_pcg w; w_st := w_st w; w_chain := w_chain w |}.
Definition w_set_pcg (w : world) (s : pcg) : world :=
  {| w_heap := w_heap w; w_pcg := s; w_st := w_st w; w_chain := w_chain w |}.
Definition w_set_chain (w : world) (c : list ctx) : world :=
  {| w_heap := w_heap w; w_pcg := w_pcg w; w_st := w_st w; w_chain := c |}.
Definition w_add_st (w : world) (c : stcall) : world :=
  {| w_heap := w_heap w; w_pcg := w_pcg w; w_st := c :: w_st w; w_chain := w_chain w |}.

(* the running context (the chain is never empty while a machine runs) *)
Definition ctx0 : ctx := {| c_attrs := 0%N; c_ops := 0 |}.
Definition w_self (w : world) : ctx := hd ctx0 (w_chain w).
Definition w_set_self_ops (w : world) (ops : Z) : world :=
  match w_chain w with
  | [] => w
  | c :: r => w_set_chain w ({| c_attrs := c_attrs c; c_ops := ops |} :: r)
  end.

(* ------------------------------------------------------------------ operand stack *)
(* stackPop.  On an empty stack (ill-formed code) it records E3, yields a fresh null and the
   instruction goes on; lastPop then points to that null, not into the stack *)
Definition pop (fr : frame) : value * frame :=
  match fr_live fr with
  | [] => (VNull, fr_set_stack (err_invalid fr) (fr_live fr) (fr_dead fr) (fr_top fr) (LVal VNull))
  | v :: l => (v, fr_set_stack fr l (v :: fr_dead fr) (fr_top fr - 1) (LSlot (fr_top fr - 1)))
  end.
(* stackPush: None = index 1000 (panic; unreachable: the loop head stops at top = 1000) *)
Definition push (v : value) (fr : frame) : option frame :=
  if stack_size <=? fr_top fr then None
  else Some (fr_set_stack fr (v :: fr_live fr) (tl (fr_dead fr)) (fr_top fr + 1) (fr_last fr)).

(* stackPopN(n): n <= 0 pops nothing and leaves lastPop alone; otherwise lastPop = clone of the deepest *)
Fixpoint pop_n_aux (n : nat) (fr : frame) (acc : list value) : list value * frame :=
  match n with
  | O => (acc, fr)
  | S n' => let '(v, fr') := pop fr in pop_n_aux n' fr' (v :: acc)
  end.
Definition pop_n (n : Z) (fr : frame) : list value * frame :=
  if n <=? 0 then ([], fr)
  else let '(l, fr') := pop_n_aux (Z.to_nat n) fr [] in
       (l, fr_set_stack fr' (fr_live fr') (fr_dead fr') (fr_top fr') (match l with v :: _ => LVal v | [] => fr_last fr' end)).

(* e.top = newTop (block.pop, ld.fs): downwards the slots become stale, upwards stale slots come back.
   inl why = not expressible *)
Fixpoint lower_top (n : nat) (live dead : list value) : list value * list value :=
  match n with
  | O => (live, dead)
  | S n' => match live with
            | [] => (live, dead)
            | v :: l => lower_top n' l (v :: dead)
            end
  end.
Fixpoint raise_top (n : nat) (live dead : list value) : option (list value * list value) :=
  match n with
  | O => Some (live, dead)
  | S n' => match dead with
            | [] => None
            | v :: d => raise_top n' (v :: live) d
            end
  end.
Definition set_top (fr : frame) (newTop : Z) : option frame :=
  if newTop <=? fr_top fr then
    let '(l, d) := lower_top (Z.to_nat (fr_top fr - newTop)) (fr_live fr) (fr_dead fr) in
    Some (fr_set_stack fr l d newTop (fr_last fr))
  else match raise_top (Z.to_nat (newTop - fr_top fr)) (fr_live fr) (fr_dead fr) with
       | None => None
       | Some (l, d) => Some (fr_set_stack fr l d newTop (fr_last fr))
       end.

(* *lastPop at this moment *)
Definition read_slot (fr : frame) (i : Z) : option value :=
  if i <? 0 then None
  else if i <? fr_top fr then nth_error (fr_live fr) (Z.to_nat (fr_top fr - 1 - i))
  else nth_error (fr_dead fr) (Z.to_nat (i - fr_top fr)).

(* ------------------------------------------------------------------ NumOpCount *)
(* numOpCountAdd: saturating add, then the limit test; true = "允许算力上限" *)
Definition ops_add (c : config) (ops count : Z) : Z * bool :=
  let ops' := if wrap64 (MaxInt64 - ops) <? count then MaxInt64 else wrap64 (ops + count) in
  (ops', (0 <? cfg_op_limit c) && (cfg_op_limit c <? ops')).

(* ------------------------------------------------------------------ small helpers *)
Definition dice_cap : Z := 100000.
Definition roll_fuel : nat := 400.

Definition builtin_names : list string :=
  ["ceil"; "floor"; "round"; "abs"; "toInt"; "toFloat"; "toStr"; "toBool"; "repr"; "load"; "loadRaw"; "store"; "dir"; "typeId"].
Fixpoint mem_s (x : string) (l : list string) : bool :=
  match l with [] => false | y :: r => if String.eqb x y then true else mem_s x r end.

(* builtinProto[TypeId]: method name -> native name *)
Definition proto_method (v : value) (name : string) : option string :=
  match v with
  | VArr _ => if mem_s name ["kh"; "kl"; "sum"; "len"; "shuffle"; "rand"; "randSize"; "pop"; "shift"; "push"]
              then Some ("Array." ++ name) else None
  | VDict _ => if mem_s name ["keys"; "values"; "items"; "len"] then Some ("Dict." ++ name) else None
  | VComp _ => if String.eqb name "compute" then Some "Computed.compute" else None
  | _ => None
  end.
Definition self_of (v : value) : vself :=
  match v with VArr id => SArr id | VDict id => SDict id | VComp c => SComp c | _ => SNone end.

(* (number of declared params, defaults) of a native function *)
Definition native_sig (name : string) : nat * list value :=
  if mem_s name ["Array.kh"; "Array.kl"] then (1%nat, [VInt 1])
  else if mem_s name ["Array.randSize"; "Array.push"] then (1%nat, [])
  else if String.eqb name "store" then (2%nat, [])
  else if mem_s name builtin_names then (1%nat, [])
  else (0%nat, []).

(* regexp [dD][优優劣][势勢] somewhere in the text (push.def_expr) *)
Fixpoint has_adv (l : list N) : bool :=
  match l with
  | [] => false
  | b :: r =>
    (if ((b =? 100) || (b =? 68))%N then
       match r with
       | x1 :: x2 :: x3 :: y1 :: y2 :: y3 :: _ =>
         (((x1 =? 228) && (x2 =? 188) && (x3 =? 152)) || ((x1 =? 229) && (x2 =? 132) && (x3 =? 170)) ||
          ((x1 =? 229) && (x2 =? 138) && (x3 =? 163)))%N &&
         (((y1 =? 229) && (y2 =? 138) && (y3 =? 191)) || ((y1 =? 229) && (y2 =? 139) && (y3 =? 162)))%N
       | _ => false
       end
     else false) || has_adv r
  end.

(* ------------------------------------------------------------------ operations of one instruction *)
Section Ops.
  Variable call : machine -> result.     (* run a sub-VM to completion (exec with less fuel) *)
  Variable rfuel : nat.                  (* fuel for unbounded Go recursion / loops inside one instruction *)
  Variable E : env.
  Let fn := e_fn E.
  Let cfg := e_cfg E.

  Definition limit_hit (ops : Z) : bool := (0 <? cfg_op_limit cfg) && (cfg_op_limit cfg <? ops).

  (* the chain seen by a sub-VM started on behalf of chain position k, and how to put it back *)
  Definition chain_put (pre : list ctx) (t : ctx) (rest : list ctx) : list ctx := (pre ++ t :: rest)%list.

  (* ComputedExecute(ctx = k-th context of the chain, detail) *)
  Definition computed_execute (cid : N) (k : nat) (w : world) : R value :=
    match nth_error (w_chain w) k with
    | None => RUnsup "context index"
    | Some t =>
      let pre := firstn k (w_chain w) in
      let rest := skipn (S k) (w_chain w) in
      let '(mapid, h1) := cattrs_force cid (w_heap w) in
      let ops1 := wrap64 (c_ops t + 100) in
      let t1 := {| c_attrs := c_attrs t; c_ops := ops1 |} in
      let w1 := w_set_chain (w_set_heap w h1) (chain_put pre t1 rest) in
      if limit_hit ops1 then RFail EBudget w1
      else match f_lookup (e_ftab E) cid with
           | None => RUnsup "function table"
           | Some d =>
             match f_code d with
             | None => RUnsup "lazy body"
             | Some c =>
               let sub := {| m_fr := new_frame c (Some (f_expr d));
                             m_w := w_set_chain w1 ({| c_attrs := mapid; c_ops := ops1 |} :: t1 :: rest) |} in
               match call sub with
               | Fin m' =>
                 match w_chain (m_w m') with
                 | s' :: t' :: rest' =>
                   let ret := match fr_live (m_fr m') with v :: _ => v | [] => VNull end in
                   ROk ret (w_set_chain (m_w m') (chain_put pre {| c_attrs := c_attrs t'; c_ops := c_ops s' |} rest'))
                 | _ => RUnsup "context chain"
                 end
               | Fail e m' =>   (* the work done before the failure is charged to the caller as well *)
                 match w_chain (m_w m') with
                 | s' :: t' :: rest' =>
                   RFail e (w_set_chain (m_w m') (chain_put pre {| c_attrs := c_attrs t'; c_ops := Z.max (c_ops t') (c_ops s') |} rest'))
                 | _ => RUnsup "context chain"
                 end
               | Panic s => RPanic s
               | OutOfFuel => RFuel
               | Unsupported s => RUnsup s
               end
             end
           end
    end.

  Fixpoint bind_params (ps : list string) (args : list value) (m : vmap) : vmap :=
    match ps, args with
    | p :: pr, a :: ar => bind_params pr ar (mset p a m)
    | _, _ => m
    end.

  (* FuncInvokeRaw(ctx = running context, params, false) *)
  Definition func_invoke (fid : N) (args : list value) (w : world) : R value :=
    match f_lookup (e_ftab E) fid, w_chain w with
    | None, _ => RUnsup "function table"
    | _, [] => RUnsup "context chain"
    | Some d, self :: ups =>
      if negb (Nat.eqb (length (f_params d)) (length args)) then RFail ECall w
      else
        let '(mapid, h1) := alloc_map (bind_params (f_params d) args []) (w_heap w) in
        let ops1 := wrap64 (c_ops self + 100) in
        let self1 := {| c_attrs := c_attrs self; c_ops := ops1 |} in
        let w1 := w_set_chain (w_set_heap w h1) (self1 :: ups) in
        if limit_hit ops1 then RFail EBudget w1
        else match f_code d with
             | None => RUnsup "lazy body"
             | Some c =>
               let sub := {| m_fr := new_frame c None;
                             m_w := w_set_chain w1 ({| c_attrs := mapid; c_ops := ops1 |} :: self1 :: ups) |} in
               match call sub with
               | Fin m' =>
                 match w_chain (m_w m') with
                 | s' :: t' :: rest' =>
                   let ret := match fr_live (m_fr m') with v :: _ => v | [] => VNull end in
                   ROk ret (w_set_chain (m_w m') ({| c_attrs := c_attrs t'; c_ops := c_ops s' |} :: rest'))
                 | _ => RUnsup "context chain"
                 end
               | Fail e m' =>   (* the work done before the failure is charged to the caller as well *)
                 match w_chain (m_w m') with
                 | s' :: t' :: rest' =>
                   RFail e (w_set_chain (m_w m') ({| c_attrs := c_attrs t'; c_ops := Z.max (c_ops t') (c_ops s') |} :: rest'))
                 | [_] => RFail e (w_set_chain (m_w m') [])
                 | [] => RUnsup "context chain"
                 end
               | Panic s => RPanic s
               | OutOfFuel => RFuel
               | Unsupported s => RUnsup s
               end
             end
    end.

  (* LoadNameWithDetail: local scope, then every UpCtx (a computed value found on the way is executed
     BY THAT CONTEXT and the search goes on when it yields null), then builtins, else null *)
  Definition load_global (name : string) : value :=
    if mem_s name builtin_names then VNative name SNone else VNull.
  (* The running context's operation counter is carried to the calling context that is being searched and back again
     (a calling context's own counter is only brought up to date when its callee returns; a computed value found there
     starts from that counter, and the callee's return overwrites what it leaves behind) *)
  Definition ops_at (k : nat) (w : world) : Z := match nth_error (w_chain w) k with Some c => c_ops c | None => 0 end.
  Definition set_ops_at (k : nat) (ops : Z) (w : world) : world :=
    match nth_error (w_chain w) k with
    | Some c => w_set_chain w (chain_put (firstn k (w_chain w)) {| c_attrs := c_attrs c; c_ops := ops |} (skipn (S k) (w_chain w)))
    | None => w
    end.
  Definition sync_to (k : nat) (w : world) : world :=
    match k with O => w | S _ => if ops_at k w <? ops_at 0 w then set_ops_at k (ops_at 0 w) w else w end.
  Definition sync_back (k : nat) (w : world) : world :=   (* the counter is an int64 in the implementation *)
    match k with O => w | S _ => let v := wrap64 (ops_at k w) in if ops_at 0 w <? v then set_ops_at 0 v w else w end.
  Definition rmapw {A} (f : world -> world) (r : R A) : R A :=
    match r with ROk a w => ROk a (f w) | RFail e w => RFail e (f w) | RPanic s => RPanic s | RFuel => RFuel | RUnsup s => RUnsup s end.

  Fixpoint load_walk (n : nat) (k : nat) (name : string) (isRaw : bool) (w : world) : R value :=
    match n with
    | O => ROk (load_global name) w
    | S n' =>
      match nth_error (w_chain w) k with
      | None => ROk (load_global name) w
      | Some c =>
        let val := match mget name (get_map (c_attrs c) (w_heap w)) with Some v => v | None => VNull end in
        let w0 := sync_to k w in
        rbind (rmapw (sync_back k)
                 (match val with
                  | VComp cid => if isRaw then ROk val w0 else computed_execute cid k w0
                  | _ => ROk val w0
                  end))
              (fun v w' => match v with
                           | VNull => load_walk n' (S k) name isRaw w'
                           | _ => ROk v w'
                           end)
      end
    end.
  Definition load_name (name : string) (isRaw : bool) (w : world) : R value :=
    load_walk (length (w_chain w)) 0 name isRaw w.

  (* LoadNameLocal(name, false) of the running context (push.this + attr.get) *)
  Definition load_local (name : string) (w : world) : R value :=
    let val := match mget name (get_map (c_attrs (w_self w)) (w_heap w)) with Some v => v | None => VNull end in
    match val with
    | VComp cid => computed_execute cid 0 w
    | _ => ROk val w
    end.

  (* StoreName / StoreNameLocal: no global names are registered *)
  Definition store_name (name : string) (v : value) (w : world) : world :=
    let id := c_attrs (w_self w) in
    w_set_heap w (set_map id (mset name v (get_map id (w_heap w))) (w_heap w)).

  Definition new_arr (l : list value) (w : world) : R value :=
    let '(id, h) := alloc_arr l (w_heap w) in ROk (VArr id) (w_set_heap w h).

  (* ---- strings *)
  Definition str_of (repr : bool) (v : value) (w : world) : R string :=
    match (if repr then to_repr fn (w_heap w) v else to_string fn (w_heap w) v) with
    | TS s _ => ROk s w
    | TSUnsup why => RUnsup why
    end.

  (* ---- ArrayRepeatTimesEx *)
  Definition array_repeat (id : N) (times : value) (w : world) : R value :=
    match times with
    | VInt t =>
      let l := get_arr id (w_heap w) in
      if t <? 0 then RFail EValue w
      else
        let len := wrap64 (zlen l * t) in
        if (512 <? len) || ((0 <? zlen l) && (512 <? t)) then RFail ELimit w
        else new_arr (match l with [] => [] | _ => repeat_list l (Z.to_nat t) end) w
    | _ => RFail EType w
    end.

  Definition vbool (b : bool) : value := VInt (if b then 1 else 0).

  (* ---- binary operators (binOperator[...]); a nil result is the type error of the VM *)
  Definition bin_op (op : opcode) (v1 v2 : value) (w : world) : R value :=
    match op with
    | OpAdd =>
      match v1, v2 with
      | VInt a, VInt b => ROk (VInt (wrap64 (a + b))) w
      | VStr a, VStr b => ROk (VStr (a ++ b)) w
      | VArr a, VArr b =>
        let l1 := get_arr a (w_heap w) in
        let l2 := get_arr b (w_heap w) in
        if 512 <? zlen l1 + zlen l2 then RFail ELimit w else new_arr (l1 ++ l2)%list w
      | _, _ => RFail EType w
      end
    | OpSub =>
      match v1, v2 with
      | VInt a, VInt b => ROk (VInt (wrap64 (a - b))) w
      | _, _ => RFail EType w
      end
    | OpMul =>
      match v1, v2 with
      | VInt a, VInt b => ROk (VInt (wrap64 (a * b))) w
      | VInt _, VArr id => array_repeat id v1 w
      | VArr id, _ => array_repeat id v2 w
      | _, _ => RFail EType w
      end
    | OpDiv =>
      match v1, v2 with
      | VInt a, VInt b =>
        if b =? 0 then (if cfg_ignore_div0 cfg then ROk v1 w else RFail EDiv0 w)
        else ROk (VInt (wrap64 (Z.quot a b))) w
      | _, _ => RFail EType w
      end
    | OpMod =>
      match v1, v2 with
      | VInt a, VInt b => if b =? 0 then RFail EDiv0 w else ROk (VInt (wrap64 (Z.rem a b))) w
      | _, _ => RFail EType w
      end
    | OpPow =>
      match v1, v2 with
      | VInt a, VInt b => match int_pow a b with Some r => ROk (VInt r) w | None => RUnsup "pow range" end
      | _, _ => RFail EType w
      end
    | OpNullCoalescing => ROk (match v1 with VNull => v2 | _ => v1 end) w
    | OpLt => match v1, v2 with VInt a, VInt b => ROk (vbool (a <? b)) w | _, _ => RFail EType w end
    | OpLe => match v1, v2 with VInt a, VInt b => ROk (vbool (a <=? b)) w | _, _ => RFail EType w end
    | OpGe => match v1, v2 with VInt a, VInt b => ROk (vbool (b <=? a)) w | _, _ => RFail EType w end
    | OpGt => match v1, v2 with VInt a, VInt b => ROk (vbool (b <? a)) w | _, _ => RFail EType w end
    | OpEq => match value_equal rfuel fn (w_heap w) v1 v2 with Some b => ROk (vbool b) w | None => RFuel end
    | OpNe => match value_equal rfuel fn (w_heap w) v1 v2 with Some b => ROk (vbool (negb b)) w | None => RFuel end
    | OpBitAnd => match v1, v2 with VInt a, VInt b => ROk (VInt (Z.land a b)) w | _, _ => RFail EType w end
    | OpBitOr => match v1, v2 with VInt a, VInt b => ROk (VInt (Z.lor a b)) w | _, _ => RFail EType w end
    | _ => RUnsup "not a binary operator"
    end.

  (* ---- AttrGet: None = nil ("不支持的类型：当前变量无法用.来取属性") *)
  (* for depth := 0; depth < 64; depth++ { follow __proto__ } : at most 64 links, then "not found" *)
  Fixpoint proto_walk (n : nat) (cur : N) (name : string) (h : heap) : option value :=
    match n with
    | O => None
    | S n' =>
      match mget "__proto__" (get_map cur h) with
      | Some (VDict p) =>
        match mget name (get_map p h) with
        | Some x => Some x
        | None => proto_walk n' p name h
        end
      | _ => None
      end
    end.

  Definition attr_fallback (v : value) (name : string) : option value :=
    match proto_method v name with
    | Some n => Some (VNative n (self_of v))
    | None => match v with
              | VInt _ | VStr _ | VNull => None
              | _ => Some VNull
              end
    end.

  Definition attr_get (v : value) (name : string) (w : world) : R (option value) :=
    match v with
    | VComp cid => ROk (Some (match mget name (cattrs_get cid (w_heap w)) with Some x => x | None => VNull end)) w
    | VDict id =>
      match mget name (get_map id (w_heap w)) with
      | Some x => ROk (Some x) w
      | None =>
        match proto_walk 64 id name (w_heap w) with
        | Some x => ROk (Some x) w
        | None => ROk (attr_fallback v name) w
        end
      end
    | VThis => rbind (load_local name w) (fun x w' => ROk (Some x) w')
    | _ => ROk (attr_fallback v name) w
    end.

  (* AttrSet: failure = nil *)
  Definition attr_set (obj : value) (name : string) (val : value) (w : world) : R unit :=
    match obj with
    | VComp cid =>
      let '(id, h1) := cattrs_force cid (w_heap w) in
      ROk tt (w_set_heap w (set_map id (mset name val (get_map id h1)) h1))
    | VDict id => ROk tt (w_set_heap w (set_map id (mset name val (get_map id (w_heap w))) (w_heap w)))
    | _ => RFail EType w
    end.

  Definition item_get (obj idx : value) (w : world) : R value :=
    match obj with
    | VArr id =>
      match idx with
      | VInt i => let l := get_arr id (w_heap w) in
                  match get_real_index i (zlen l) with
                  | None => RFail EIndex w
                  | Some k => ROk (znth l k VNull) w
                  end
      | _ => RFail EType w
      end
    | VDict id =>
      match as_dict_key idx with
      | None => RFail EType w
      | Some k => ROk (match mget k (get_map id (w_heap w)) with Some x => x | None => VNull end) w
      end
    | VStr s =>
      match idx with
      | VInt i => let rs := runes s in
                  match get_real_index i (zlen rs) with
                  | None => RFail EIndex w
                  | Some k => ROk (VStr (znth rs k "")) w
                  end
      | _ => RFail EType w
      end
    | _ => RFail EType w
    end.

  Definition item_set (obj idx val : value) (w : world) : R unit :=
    match obj with
    | VArr id =>
      match idx with
      | VInt i => let l := get_arr id (w_heap w) in
                  match get_real_index i (zlen l) with
                  | None => RFail EIndex w
                  | Some k => ROk tt (w_set_heap w (set_arr id (list_set l (Z.to_nat k) val) (w_heap w)))
                  end
      | _ => RFail EType w
      end
    | VDict id =>
      match as_dict_key idx with
      | None => RFail EType w
      | Some k => ROk tt (w_set_heap w (set_map id (mset k val (get_map id (w_heap w))) (w_heap w)))
      end
    | _ => RFail EType w
    end.

  (* Length: None = "这个类型无法取得长度" *)
  Definition length_of (v : value) (h : heap) : option Z :=
    match v with
    | VArr id => Some (zlen (get_arr id h))
    | VDict id => Some (zlen (get_map id h))
    | VStr s => Some (zlen (runes s))
    | _ => None
    end.

  Definition slice_get (obj a b : value) (w : world) : R value :=
    let a := match a with VNull => VInt 0 | _ => a end in
    match length_of obj (w_heap w) with
    | None => RFail EType w
    | Some len =>
      let b := match b with VNull => VInt len | _ => b end in
      match a, b with
      | VInt va, VInt vb =>
        let '(a', b') := slice_bounds va vb len in
        match obj with
        | VStr s => ROk (VStr (concat_s (slice (runes s) a' b'))) w
        | VArr id => new_arr (slice (get_arr id (w_heap w)) a' b') w
        | _ => RFail EType w
        end
      | _, _ => RFail EType w
      end
    end.

  Definition slice_set (obj a b val : value) (w : world) : R unit :=
    let a := match a with VNull => VInt 0 | _ => a end in
    match obj with
    | VArr id =>
      let l := get_arr id (w_heap w) in
      let b := match b with VNull => VInt (zlen l) | _ => b end in
      match a, b with
      | VInt va, VInt vb =>
        match val with
        | VArr id2 => ROk tt (w_set_heap w (set_arr id (set_slice l (get_arr id2 (w_heap w)) va vb) (w_heap w)))
        | _ => RFail EType w
        end
      | _, _ => RFail EType w
      end
    | _ => RFail EType w
    end.

  (* ---- push.range *)
  Fixpoint range_loop (n : nat) (i step b : Z) (idx len : Z) (acc : list value) : option (list value) :=
    if len <=? idx then None                            (* arr[index]: index out of range *)
    else
      let acc := VInt i :: acc in
      if i =? b then Some (rev acc)
      else match n with
           | O => None
           | S n' => range_loop n' (wrap64 (i + step)) step b (idx + 1) len acc
           end.

  Definition push_range (a b : value) (w : world) : R value :=
    match a, b with
    | VInt x, VInt y =>
      let '(step, len) := if x <=? y then (1, wrap64 (y - x)) else (-1, wrap64 (x - y)) in
      if (len <? 0) || (511 <? len) then RFail ELimit w     (* a wrapped difference is negative *)
      else
      let len := wrap64 (len + 1) in
      if 512 <? len then RFail ELimit w
      else match range_loop 513 x step y 0 len [] with
           | None => RPanic "index out of range (push.range)"
           | Some l => new_arr l w
           end
    | _, _ => RFail EType w
    end.

  (* ---- NewDictValWithArray *)
  Fixpoint dict_of (l : list value) (m : vmap) : option vmap :=
    match l with
    | k :: v :: r => match as_dict_key k with
                     | None => None
                     | Some ks => dict_of r (mset ks v m)
                     end
    | _ => Some m
    end.

  (* ---- natives *)
  Definition roll1 (n : Z) (w : world) : R Z :=
    match roll pcg_next roll_fuel n 0 (w_pcg w) with
    | Roll.OutOfFuel => RFuel
    | Roll.Done (r, s) => ROk r (w_set_pcg w s)
    end.

  Definition swap (l : list value) (i j : nat) : list value :=
    let a := nth i l VNull in
    let b := nth j l VNull in
    list_set (list_set l i b) j a.

  (* funcArrayShuttle: for i := len-1; i > 0; i-- { j := ctxRandIntn(ctx, i+1); swap } *)
  Fixpoint shuffle_loop (i : nat) (l : list value) (w : world) : R (list value) :=
    match i with
    | O => ROk l w
    | S i' => rbind (roll1 (Z.of_nat i + 1) w)
                    (fun r w' => shuffle_loop i' (swap l i (Z.to_nat (r - 1))) w')
    end.
  Definition shuffle (l : list value) (w : world) : R (list value) := shuffle_loop (pred (length l)) l w.

  Definition native_call (name : string) (self : vself) (args : list value) (w : world) : R value :=
    let '(np, defaults) := native_sig name in
    let args := (args ++ skipn (length args) defaults)%list in
    if negb (Nat.eqb (length args) np) then RFail ECall w
    else
      let a0 := nth 0 args VNull in
      let a1 := nth 1 args VNull in
      let self_arr := match self with SArr id => id | _ => 0%N end in
      let self_dict := match self with SDict id => id | _ => 0%N end in
      if mem_s name ["ceil"; "floor"; "round"] then
        match a0 with VInt _ => ROk a0 w | _ => RFail EType w end
      else if String.eqb name "abs" then
        match a0 with VInt z => ROk (if z <? 0 then VInt (wrap64 (- z)) else a0) w | _ => RFail EType w end
      else if String.eqb name "toInt" then
        match a0 with
        | VInt _ => ROk a0 w
        | VStr s => match parse_int s with Some z => ROk (VInt z) w | None => RFail EValue w end
        | _ => RFail EType w
        end
      else if String.eqb name "toFloat" then
        match a0 with VInt _ | VStr _ => RUnsup "float" | _ => RFail EType w end
      else if String.eqb name "toStr" then rbind (str_of false a0 w) (fun s w' => ROk (VStr s) w')
      else if String.eqb name "repr" then rbind (str_of true a0 w) (fun s w' => ROk (VStr s) w')
      else if String.eqb name "toBool" then ROk (vbool (as_bool fn (w_heap w) a0)) w
      else if String.eqb name "typeId" then ROk (VInt (type_id a0)) w
      else if String.eqb name "load" then
        match a0 with VStr n => load_name n false w | _ => RFail EType w end
      else if String.eqb name "loadRaw" then
        match a0 with VStr n => load_name n true w | _ => RFail EType w end
      else if String.eqb name "store" then
        match a0 with VStr n => ROk a1 (store_name n a1 w) | _ => RFail EType w end
      else if String.eqb name "dir" then
        match a0 with
        | VArr _ | VDict _ => RUnsup "dict order"
        | VComp _ => new_arr [VStr "compute"] w
        | _ => new_arr [] w
        end
      else if String.eqb name "Computed.compute" then
        match self with SComp cid => computed_execute cid 0 w | _ => RPanic "nil Self" end
      else if mem_s name ["Array.kh"; "Array.kl"] then
        match a0 with
        | VInt num =>
          match keep_sum (String.eqb name "Array.kh") num (get_arr self_arr (w_heap w)) with
               | Some r => ROk (VInt r) w
               | None => RUnsup "float sum"
               end
        | _ => RFail EType w
        end
      else if String.eqb name "Array.sum" then
        match fsum (ints_of (get_arr self_arr (w_heap w))) 0 with
        | Some r => ROk (VInt r) w
        | None => RUnsup "float sum"
        end
      else if String.eqb name "Array.len" then ROk (VInt (zlen (get_arr self_arr (w_heap w)))) w
      else if String.eqb name "Array.shuffle" then
        rbind (shuffle (get_arr self_arr (w_heap w)) w)
              (fun l w' => ROk (VArr self_arr) (w_set_heap w' (set_arr self_arr l (w_heap w'))))
      else if String.eqb name "Array.rand" then
        let l := get_arr self_arr (w_heap w) in
        match l with
        | [] => RFail EValue w
        | _ => rbind (roll1 (zlen l) w) (fun r w' => ROk (znth l (r - 1) VNull) w')
        end
      else if String.eqb name "Array.randSize" then
        rbind (shuffle (get_arr self_arr (w_heap w)) w)
              (fun l w' => match a0 with
                           | VInt n => if (n <? 0) || (zlen l <? n) then RFail EValue w'
                                       else new_arr (firstn (Z.to_nat n) l) w'
                           | _ => RFail EType w'
                           end)
      else if String.eqb name "Array.pop" then
        let l := get_arr self_arr (w_heap w) in
        match l with
        | [] => ROk VNull w
        | _ => ROk (last l VNull) (w_set_heap w (set_arr self_arr (removelast l) (w_heap w)))
        end
      else if String.eqb name "Array.shift" then
        match get_arr self_arr (w_heap w) with
        | [] => ROk VNull w
        | x :: r => ROk x (w_set_heap w (set_arr self_arr r (w_heap w)))
        end
      else if String.eqb name "Array.push" then
        ROk (VArr self_arr) (w_set_heap w (set_arr self_arr (get_arr self_arr (w_heap w) ++ [a0])%list (w_heap w)))
      else if String.eqb name "Dict.len" then ROk (VInt (zlen (get_map self_dict (w_heap w)))) w
      else if mem_s name ["Dict.keys"; "Dict.values"; "Dict.items"] then
        match get_map self_dict (w_heap w) with
        | [] => new_arr [] w
        | [(k, x)] =>
          if String.eqb name "Dict.keys" then new_arr [VStr k] w
          else if String.eqb name "Dict.values" then new_arr [x] w
          else rbind (new_arr [VStr k; x] w) (fun p w' => new_arr [p] w')
        | _ => RUnsup "dict order"
        end
      else RUnsup "unknown native".
End Ops.

(* ------------------------------------------------------------------ budgeted WoD / Double Cross rounds *)
(* rollWoD / rollDoubleCross with budget = numOpCountAdd: at the START of every round (the first
   included) the round's pool is charged; when the limit is exceeded the rounds stop and the VM
   returns "允许算力上限".  One round = Dice.wod_round / Dice.dc_round (texts not needed here).
   n bounds the number of rounds: without a limit an exploding pool in max mode never ends. *)
Inductive rounds_res :=
| RDone (total : Z) (ops : Z) (s : pcg)
| ROver (ops : Z) (s : pcg)
| RNoFuel.

Fixpoint wod_budget (n : nat) (c : config) (addLine points threshold : Z) (isGE : bool) (mode : Z)
         (pool succ ops : Z) (s : pcg) : rounds_res :=
  match n with
  | O => RNoFuel
  | S n' =>
    let '(ops', over) := ops_add c ops pool in
    if over then ROver ops' s
    else match wod_round pcg_next roll_fuel (Z.to_nat pool) addLine points threshold isGE mode false (0, 0, []) s with
         | Roll.OutOfFuel => RNoFuel
         | Roll.Done ((sc, add, _), s1) =>
           if 0 <? add then wod_budget n' c addLine points threshold isGE mode add (succ + sc) ops' s1
           else RDone (succ + sc) ops' s1
         end
  end.

Fixpoint dc_budget (n : nat) (c : config) (addLine points mode : Z) (pool result ops : Z) (s : pcg) : rounds_res :=
  match n with
  | O => RNoFuel
  | S n' =>
    let '(ops', over) := ops_add c ops pool in
    if over then ROver ops' s
    else match dc_round pcg_next roll_fuel (Z.to_nat pool) addLine points mode false (0, 0, []) s with
         | Roll.OutOfFuel => RNoFuel
         | Roll.Done ((mx, add, _), s1) =>
           if 0 <? add then dc_budget n' c addLine points mode add (wrap64 (result + mx)) ops' s1
           else RDone (wrap64 (result + mx)) ops' s1
         end
  end.

(* ------------------------------------------------------------------ one instruction *)
Inductive sresult :=
| SNext (m : machine)                  (* fall out of the switch: the loop adds 1 to opIndex; a recorded
                                          error (fr_err) stops the run at the next loop head, after counting *)
| SStop (m : machine)                  (* halt / ret *)
| SFail (e : eclass) (m : machine)     (* ctx.Error set and `return` *)
| SPanic (what : string)
| SFuel
| SUnsup (what : string).

Section Step.
  Variable call : machine -> result.
  Variable rfuel : nat.
  Variable E : env.
  Let fn := e_fn E.
  Let cfg := e_cfg E.

  Definition mk (fr : frame) (w : world) : machine := {| m_fr := fr; m_w := w |}.

  Definition with_pop (fr : frame) (k : value -> frame -> sresult) : sresult :=
    let '(v, fr') := pop fr in k v fr'.
  (* stackPop2: returns (deeper, top) *)
  Definition with_pop2 (fr : frame) (k : value -> value -> frame -> sresult) : sresult :=
    with_pop fr (fun v2 fr1 => with_pop fr1 (fun v1 fr2 => k v1 v2 fr2)).
  Definition with_pop_n (n : Z) (fr : frame) (k : list value -> frame -> sresult) : sresult :=
    let '(l, fr') := pop_n n fr in k l fr'.
  (* `if ctx.Error != nil { return }` *)
  Definition check_err (fr : frame) (w : world) (k : sresult) : sresult :=
    match fr_err fr with Some e => SFail e (mk fr w) | None => k end.
  Definition do_push (v : value) (fr : frame) (w : world) : sresult :=
    match push v fr with
    | None => SPanic "stack index 1000"
    | Some fr' => SNext (mk fr' w)
    end.
  (* a helper that set ctx.Error (RFail) overwrites whatever was recorded; after a helper that
     succeeded the VM tests ctx.Error, which may still hold the E3 of an empty-stack pop *)
  Definition lift {A} (r : R A) (fr : frame) (k : A -> world -> sresult) : sresult :=
    match r with
    | ROk a w => check_err fr w (k a w)
    | RFail e w => SFail e (mk fr w)
    | RPanic s => SPanic s
    | RFuel => SFuel
    | RUnsup s => SUnsup s
    end.
  Definition arg_int (o : operand) (k : Z -> sresult) : sresult :=
    match o with OInt z => k z | _ => SPanic "operand is not an IntType" end.
  Definition arg_str (o : operand) (k : string -> sresult) : sresult :=
    match o with OStr s => k s | _ => SPanic "operand is not a string" end.
  Definition jump (fr : frame) (off : Z) : frame := fr_set_pc fr (fr_pc fr + off).

  (* readIntOperand *)
  Definition with_int (v : value) (fr : frame) (w : world) (k : Z -> sresult) : sresult :=
    match v with VInt z => k z | _ => SFail EType (mk fr w) end.
  (* diceStates[diceStateIndex] = f(...) *)
  Definition upd_dice (fr : frame) (w : world) (f : dstate -> dstate) : sresult :=
    match fr_dice fr with
    | [] => SPanic "diceStates index -1"        (* unreachable: need_dice has tested it *)
    | d :: r => SNext (mk (fr_set_dice fr (f d :: r)) w)
    end.
  (* if diceStateIndex < 0 { errInvalidCode(); return } *)
  Definition need_dice (fr : frame) (w : world) (k : sresult) : sresult :=
    match fr_dice fr with
    | [] => let fr' := err_invalid fr in SFail (match fr_err fr' with Some e => e | None => EOther end) (mk fr' w)
    | _ => k
    end.
  (* details[len(details)-1].Ret = ret; ...; stackPush(ret) *)
  (* lastDetail(): an empty span is appended when no mark.detail preceded *)
  Definition last_detail (fr : frame) : frame :=
    match fr_details fr with [] => fr_set_details fr [(0, 0)] | _ => fr end.
  Definition dice_result (z : Z) (fr : frame) (w : world) : sresult := do_push (VInt z) (last_detail fr) w.
  Definition add_ops (w : world) (count : Z) : world * bool :=
    let '(ops', over) := ops_add cfg (c_ops (w_self w)) count in (w_set_self_ops w ops', over).

  Definition st_name_of (v : value) : string := match v with VStr s => s | _ => "" end.
  Definition st_log (w : world) (t name : string) (v : value) (extra : option value) (op text : string) : world :=
    w_add_st w {| st_type := t; st_name := name; st_val := v; st_extra := extra; st_op := op; st_text := text |}.

  Definition substring_b (l : list N) (b e : Z) : option (list N) :=
    if (b <? 0) || (e <? b) || (zlen l <? e) then None else Some (slice l b e).

  Definition step (ins : instr) (m : machine) : sresult :=
    let fr := m_fr m in
    let w := m_w m in
    let o := i_arg ins in
    match i_op ins with
    | OpPushInt => match o with OInt z => do_push (VInt z) fr w | _ => SUnsup "operand" end
    | OpPushFlt => SUnsup "float"
    | OpPushStr => arg_str o (fun s => do_push (VStr s) fr w)
    | OpPushArr =>
      arg_int o (fun n => with_pop_n n fr (fun l fr1 =>
        let '(id, h) := alloc_arr l (w_heap w) in do_push (VArr id) fr1 (w_set_heap w h)))
    | OpPushDict =>
      arg_int o (fun n => with_pop_n (wrap64 (n * 2)) fr (fun l fr1 =>
        match dict_of l [] with
        | None => SFail EType (mk fr1 w)
        | Some d => let '(id, h) := alloc_map d (w_heap w) in do_push (VDict id) fr1 (w_set_heap w h)
        end))
    | OpPushComputed | OpPushFunc =>
      match o with
      | OFn id => match f_lookup (e_ftab E) id with
                  | Some d => do_push (if f_computed d then VComp id else VFunc id) fr w
                  | None => SUnsup "function table"
                  end
      | _ => SPanic "operand is not a *VMValue"
      end
    | OpPushNull => do_push VNull fr w
    | OpPushThis => do_push VThis fr w
    | OpPushRange =>
      with_pop2 fr (fun a b fr1 => lift (push_range a b w) fr1 (fun v w1 => do_push v fr1 w1))
    | OpPushLast =>
      match fr_last fr with
      | LNone => SFail EOther m
      | LVal v => do_push v fr w
      | LSlot i => match read_slot fr i with
                   | Some v => do_push v fr w
                   | None => SUnsup "uninit slot"
                   end
      end
    | OpPushDefExpr =>
      if negb (cfg_def_expr_empty cfg) then SUnsup "def_expr"
      else match push (VInt 100) fr with
           | None => SPanic "stack index 1000"
           | Some fr1 =>
             (* the rest only rewrites the detail text; what is left of it here is the slice expression *)
             match fr_src fr1, fr_details fr1, fr_dice fr1 with
             | None, _, _ | _, [], _ | _, _, [] => SNext (mk fr1 w)
             | Some src, (b, e) :: _, _ :: _ =>
               (* a span outside the text (left-over code of an abandoned parse branch in a body whose text was cut): nothing
                  to rewrite — since the repair of the slice panic both cases simply go on *)
               match substring_b (bytes_of src) b e with
               | None => SNext (mk fr1 w)
               | Some _ => SNext (mk fr1 w)
               end
             end
           end

    | OpAnd =>
      with_pop2 fr (fun a b fr1 => do_push (if as_bool fn (w_heap w) a then b else a) fr1 w)

    | OpInvoke =>
      arg_int o (fun n => with_pop_n n fr (fun args fr1 => with_pop fr1 (fun f fr2 =>
        match f with
        | VFunc fid => lift (func_invoke call E fid args w) fr2 (fun v w1 => do_push v fr2 w1)
        | VNative name self => lift (native_call call E name self args w) fr2 (fun v w1 => do_push v fr2 w1)
        | _ => SNext (mk (fr_set_err fr2 (Some ECall)) w)        (* ctx.Error = ...; no return *)
        end)))

    | OpItemGet =>
      with_pop2 fr (fun obj idx fr1 => lift (item_get obj idx w) fr1 (fun v w1 => do_push v fr1 w1))
    | OpItemSet =>
      with_pop fr (fun val fr1 => with_pop2 fr1 (fun obj idx fr2 =>
        lift (item_set obj idx val w) fr2 (fun _ w1 => SNext (mk fr2 w1))))
    | OpAttrSet =>
      with_pop2 fr (fun val obj fr1 => arg_str o (fun name =>
        match attr_set obj name val w with
        | RFail _ w1 => SFail (match fr_err fr1 with Some e => e | None => EType end) (mk fr1 w1)   (* ret == nil *)
        | r => lift r fr1 (fun _ w1 => SNext (mk fr1 w1))
        end))
    | OpAttrGet =>
      with_pop fr (fun obj fr1 => arg_str o (fun name =>
        lift (attr_get call E obj name w) fr1 (fun r w1 =>
          match r with
          | None => SFail EType (mk fr1 w1)
          | Some v => do_push v fr1 w1
          end)))
    | OpSliceGet =>
      with_pop fr (fun stp fr1 =>
        match stp with
        | VNull => with_pop2 fr1 (fun a b fr2 => with_pop fr2 (fun obj fr3 =>
                     lift (slice_get obj a b w) fr3 (fun v w1 => do_push v fr3 w1)))
        | _ => SFail EOther (mk fr1 w)
        end)
    | OpSliceSet =>
      with_pop fr (fun val fr0 => with_pop fr0 (fun stp fr1 =>
        match stp with
        | VNull => with_pop2 fr1 (fun a b fr2 => with_pop fr2 (fun obj fr3 =>
                     lift (slice_set obj a b val w) fr3 (fun _ w1 => SNext (mk fr3 w1))))
        | _ => SFail EOther (mk fr1 w)
        end))

    | OpRet | OpHalt => SStop m

    | OpLdFs =>
      arg_int o (fun num =>
        if (0 <? num) && (fr_top fr - num <? 0) then SFail EOther m
        else
          let vals := rev (firstn (Z.to_nat num) (fr_live fr)) in
          (fix cat (l : list value) (acc : string) : sresult :=
             match l with
             | [] =>
               if stack_size <=? fr_top fr - num then SPanic "stack index 1000"
               else match set_top fr (fr_top fr - num) with
                    | None => SUnsup "uninit slot"
                    | Some fr1 => do_push (VStr acc) fr1 w
                    end
             | v :: r => match to_string fn (w_heap w) v with
                         | TS s _ => cat r (acc ++ s)
                         | TSUnsup why => SUnsup why
                         end
             end) vals "")
    | OpLd => arg_str o (fun name => lift (load_name call E name false w) fr (fun v w1 => do_push v fr w1))
    | OpLdRaw => arg_str o (fun name => lift (load_name call E name true w) fr (fun v w1 => do_push v fr w1))
    | OpLdD =>
      arg_str o (fun name =>
        let fr0 := last_detail fr in
        lift (load_name call E name false w) fr0 (fun v w1 => do_push v fr0 w1))
    | OpStore | OpStoreLocal =>
      match fr_live fr with
      | [] => SFail EOther (mk (err_invalid fr) w)           (* e.top <= 0: errInvalidCode(); return *)
      | v :: _ => arg_str o (fun name => SNext (mk fr (store_name name v w)))
      end

    | OpJe | OpJeDup =>
      with_pop fr (fun v fr1 =>
        if as_bool fn (w_heap w) v then
          arg_int o (fun off =>
            match i_op ins with
            | OpJeDup => do_push v (jump fr1 off) w
            | _ => SNext (mk (jump fr1 off) w)
            end)
        else SNext (mk fr1 w))
    | OpJne =>
      with_pop fr (fun v fr1 =>
        if as_bool fn (w_heap w) v then SNext (mk fr1 w)
        else arg_int o (fun off => SNext (mk (jump fr1 off) w)))
    | OpJmp => arg_int o (fun off => SNext (mk (jump fr off) w))
    | OpPop => with_pop fr (fun _ fr1 => SNext (mk fr1 w))
    | OpPopN => arg_int o (fun n => with_pop_n n fr (fun _ fr1 => SNext (mk fr1 w)))

    | OpAdd | OpSub | OpMul | OpDiv | OpMod | OpPow | OpNullCoalescing
    | OpLt | OpLe | OpEq | OpNe | OpGe | OpGt | OpBitAnd | OpBitOr =>
      with_pop2 fr (fun v1 v2 fr1 =>
        match bin_op rfuel E (i_op ins) v1 v2 w, fr_err fr1 with
        | RFail EType w1, Some e => SFail e (mk fr1 w1)      (* ret == nil with ctx.Error already set *)
        | r, _ => lift r fr1 (fun v w1 => do_push v fr1 w1)
        end)
    | OpPos =>
      with_pop fr (fun v fr1 => match v with VInt z => do_push v fr1 w | _ => SFail EType (mk fr1 w) end)
    | OpNeg =>
      with_pop fr (fun v fr1 => match v with VInt z => do_push (VInt (wrap64 (- z))) fr1 w | _ => SFail EType (mk fr1 w) end)

    | OpDiceInit => SNext (mk (fr_set_dice fr (dstate0 :: fr_dice fr)) w)
    | OpDiceSetTimes =>
      need_dice fr w (with_pop fr (fun v fr1 =>
        match v with
        | VInt t => if t <=? 0 then SFail EDice (mk fr1 w)
                    else upd_dice fr1 w (fun d => {| d_times := t; d_keep := d_keep d; d_low := d_low d; d_high := d_high d; d_min := d_min d; d_max := d_max d |})
        | _ => SFail EDice (mk fr1 w)
        end))
    | OpDiceSetKeepLow =>
      need_dice fr w (with_pop fr (fun v fr1 => with_int v fr1 w (fun n =>
        upd_dice fr1 w (fun d => {| d_times := d_times d; d_keep := 1; d_low := n; d_high := d_high d; d_min := d_min d; d_max := d_max d |}))))
    | OpDiceSetKeepHigh =>
      need_dice fr w (with_pop fr (fun v fr1 => with_int v fr1 w (fun n =>
        upd_dice fr1 w (fun d => {| d_times := d_times d; d_keep := 2; d_low := d_low d; d_high := n; d_min := d_min d; d_max := d_max d |}))))
    | OpDiceSetDropLow =>
      need_dice fr w (with_pop fr (fun v fr1 => with_int v fr1 w (fun n =>
        upd_dice fr1 w (fun d => {| d_times := d_times d; d_keep := 3; d_low := n; d_high := d_high d; d_min := d_min d; d_max := d_max d |}))))
    | OpDiceSetDropHigh =>
      need_dice fr w (with_pop fr (fun v fr1 => with_int v fr1 w (fun n =>
        upd_dice fr1 w (fun d => {| d_times := d_times d; d_keep := 4; d_low := d_low d; d_high := n; d_min := d_min d; d_max := d_max d |}))))
    | OpDiceSetMin =>
      need_dice fr w (with_pop fr (fun v fr1 => with_int v fr1 w (fun n =>
        upd_dice fr1 w (fun d => {| d_times := d_times d; d_keep := d_keep d; d_low := d_low d; d_high := d_high d; d_min := Some n; d_max := d_max d |}))))
    | OpDiceSetMax =>
      need_dice fr w (with_pop fr (fun v fr1 => with_int v fr1 w (fun n =>
        upd_dice fr1 w (fun d => {| d_times := d_times d; d_keep := d_keep d; d_low := d_low d; d_high := d_high d; d_min := d_min d; d_max := Some n |}))))
    | OpMarkDetail =>
      match o with
      | OSpan b e => SNext (mk (fr_set_details fr ((b, e) :: fr_details fr)) w)
      | _ => SPanic "operand is not a BufferSpan"
      end
    | OpDice =>
      match fr_dice fr with
      | [] => need_dice fr w (SPanic "unreachable")
      | d :: rest =>
        with_pop fr (fun v fr1 =>
          match v with
          | VInt sides =>
            if sides <=? 0 then SFail EDice (mk fr1 w)
            else if ((d_keep d =? 1) || (d_keep d =? 3)) && (d_low d <=? 0) then SFail EDice (mk fr1 w)
            else if ((d_keep d =? 2) || (d_keep d =? 4)) && (d_high d <=? 0) then SFail EDice (mk fr1 w)
            else
              let '(w1, over) := add_ops w (d_times d) in
              if over then SFail EBudget (mk fr1 w1)
              else if dice_cap <? d_times d then SUnsup "dice count"
              else match roll_common pcg_next roll_fuel (d_times d) sides (d_min d) (d_max d)
                                     (d_keep d) (d_low d) (d_high d) (roll_mode cfg) (w_pcg w1) with
                   | Roll.OutOfFuel => SFuel
                   | Roll.Done ((num, _), s) => dice_result num (fr_set_dice fr1 rest) (w_set_pcg w1 s)
                   end
          | _ => SFail EDice (mk fr1 w)
          end)
      end
    | OpDiceCustom => SUnsup "custom dice"
    | OpDiceFate =>
      (* four dice, charged before they are rolled (numOpCountAdd(4)) *)
      let '(w1, over) := add_ops w 4 in
      if over then SFail EBudget (mk fr w1)
      else match roll_fate pcg_next roll_fuel (roll_mode cfg) (w_pcg w1) with
           | Roll.OutOfFuel => SFuel
           | Roll.Done ((sum, _), s) => dice_result sum fr (w_set_pcg w1 s)
           end
    | OpCocBonus | OpCocPenalty =>
      with_pop fr (fun v fr1 => with_int v fr1 w (fun n =>
        if n <? 0 then SFail EDice (mk fr1 w)
        else
          let '(w1, over) := add_ops w n in
          if over then SFail EBudget (mk fr1 w1)
          else if dice_cap <? n then SUnsup "dice count"
          else match roll_coc pcg_next roll_fuel (match i_op ins with OpCocBonus => true | _ => false end)
                              n (roll_mode cfg) (w_pcg w1) with
               | Roll.OutOfFuel => SFuel
               | Roll.Done ((r, _), s) => dice_result r fr1 (w_set_pcg w1 s)
               end))

    | OpWodInit => SNext (mk (fr_set_wod fr {| w_pool := 1; w_points := 10; w_threshold := 8; w_isge := true |}) w)
    | OpWodPoints =>
      with_pop fr (fun v fr1 => with_int v fr1 w (fun n =>
        let x := fr_wod fr1 in
        SNext (mk (fr_set_wod fr1 {| w_pool := w_pool x; w_points := n; w_threshold := w_threshold x; w_isge := w_isge x |}) w)))
    | OpWodThreshold =>
      with_pop fr (fun v fr1 => with_int v fr1 w (fun n =>
        let x := fr_wod fr1 in
        SNext (mk (fr_set_wod fr1 {| w_pool := w_pool x; w_points := w_points x; w_threshold := n; w_isge := true |}) w)))
    | OpWodThresholdQ =>
      with_pop fr (fun v fr1 => with_int v fr1 w (fun n =>
        let x := fr_wod fr1 in
        SNext (mk (fr_set_wod fr1 {| w_pool := w_pool x; w_points := w_points x; w_threshold := n; w_isge := false |}) w)))
    | OpWodPool =>
      with_pop fr (fun v fr1 => with_int v fr1 w (fun n =>
        let x := fr_wod fr1 in
        SNext (mk (fr_set_wod fr1 {| w_pool := n; w_points := w_points x; w_threshold := w_threshold x; w_isge := w_isge x |}) w)))
    | OpDiceWod =>
      with_pop fr (fun v fr1 => with_int v fr1 w (fun addLine =>
        let x := fr_wod fr1 in
        if negb (wod_check addLine (w_pool x) (w_points x) (w_threshold x)) then SFail EDice (mk fr1 w)
        else match wod_budget rfuel cfg addLine (w_points x) (w_threshold x) (w_isge x) (roll_mode cfg)
                              (w_pool x) 0 (c_ops (w_self w)) (w_pcg w) with
             | RNoFuel => SFuel
             | ROver ops s => SFail EBudget (mk fr1 (w_set_pcg (w_set_self_ops w ops) s))
             | RDone num ops s => dice_result num fr1 (w_set_pcg (w_set_self_ops w ops) s)
             end))
    | OpDcInit => SNext (mk (fr_set_dc fr {| c_pool := 1; c_points := 10 |}) w)
    | OpDcPool =>
      with_pop fr (fun v fr1 => with_int v fr1 w (fun n =>
        SNext (mk (fr_set_dc fr1 {| c_pool := n; c_points := c_points (fr_dc fr1) |}) w)))
    | OpDcPoints =>
      with_pop fr (fun v fr1 => with_int v fr1 w (fun n =>
        SNext (mk (fr_set_dc fr1 {| c_pool := c_pool (fr_dc fr1); c_points := n |}) w)))
    | OpDiceDC =>
      with_pop fr (fun v fr1 => with_int v fr1 w (fun addLine =>
        let x := fr_dc fr1 in
        if negb (dc_check addLine (c_pool x) (c_points x)) then SFail EDice (mk fr1 w)
        else match dc_budget rfuel cfg addLine (c_points x) (roll_mode cfg) (c_pool x) 0 (c_ops (w_self w)) (w_pcg w) with
             | RNoFuel => SFuel
             | ROver ops s => SFail EBudget (mk fr1 (w_set_pcg (w_set_self_ops w ops) s))
             | RDone num ops s => dice_result num fr1 (w_set_pcg (w_set_self_ops w ops) s)
             end))

    | OpBlockPush =>
      if block_depth <=? zlen (fr_blocks fr) then SFail ENest m
      else SNext (mk (fr_set_blocks fr (fr_top fr :: fr_blocks fr) (fr_fblocks fr)) w)
    | OpBlockPop =>
      match fr_blocks fr with
      | [] => SFail EOther (mk (err_invalid fr) w)            (* blockIndex <= 0: errInvalidCode(); return *)
      | newTop :: rest =>
        match set_top fr newTop with
        | None => SUnsup "uninit slot"
        | Some fr1 =>
          do_push (match fr_fblocks fr with [] => VNull | _ => VStr "" end) (fr_set_blocks fr1 rest (fr_fblocks fr1)) w
        end
      end
    | OpFstrPush =>
      if block_depth <=? zlen (fr_fblocks fr) then SFail ENest m
      else SNext (mk (fr_set_blocks fr (fr_blocks fr) (fr_top fr :: fr_fblocks fr)) w)
    | OpFstrPop =>
      match fr_fblocks fr with
      | [] => SFail EOther (mk (err_invalid fr) w)            (* fstrBlockIndex <= 0 *)
      | newTop :: rest =>
        let fin (v : value) (fr1 : frame) :=
            match set_top fr1 newTop with
            | None => SUnsup "uninit slot"
            | Some fr2 => do_push v (fr_set_blocks fr2 (fr_blocks fr2) rest) w
            end in
        if newTop =? fr_top fr then fin (VStr "") fr
        else with_pop fr (fun v fr1 => fin v fr1)
      end

    | OpStSet =>
      with_pop2 fr (fun nm v fr1 =>
        SNext (mk fr1 (if cfg_st_callback cfg then st_log w "set" (st_name_of nm) v None "" "" else w)))
    | OpStMod =>
      with_pop2 fr (fun nm v fr1 =>
        match o with
        | OSt op text =>
          if cfg_st_callback cfg then
            if String.eqb op "-" then
              match v with
              | VInt z => SNext (mk fr1 (st_log w "mod" (st_name_of nm) (VInt (wrap64 (- z))) None op text))
              | _ => SFail EType (mk fr1 w)               (* OpNegation() == nil: type error, return *)
              end
            else SNext (mk fr1 (st_log w "mod" (st_name_of nm) v None op text))
          else SNext (mk fr1 w)
        | _ => SPanic "operand is not a StInfo"
        end)
    | OpStX0 =>
      with_pop2 fr (fun nm v fr1 =>
        SNext (mk fr1 (if cfg_st_callback cfg then st_log w "set.x0" (st_name_of nm) v None "" "" else w)))
    | OpStX1 =>
      with_pop fr (fun v fr1 => with_pop fr1 (fun extra fr2 => with_pop fr2 (fun nm fr3 =>
        SNext (mk fr3 (if cfg_st_callback cfg then st_log w "set.x1" (st_name_of nm) v (Some extra) "" "" else w)))))

    (* no case in the switch *)
    | OpPushGlobal | OpStoreGlobal | OpInvokeSelf | OpOr | OpNop | OpUnknown => SNext m
    end.
End Step.

(* ------------------------------------------------------------------ the loop of evaluate() *)
Definition count_op (E : env) (m : machine) : machine * bool :=
  let '(ops', over) := ops_add (e_cfg E) (c_ops (w_self (m_w m))) 1 in
  ({| m_fr := m_fr m; m_w := w_set_self_ops (m_w m) ops' |}, over).

Fixpoint exec (fuel : nat) (E : env) (m : machine) : result :=
  match fuel with
  | O => OutOfFuel
  | S f =>
    let fr := m_fr m in
    if zlen (fr_code fr) <=? fr_pc fr then                  (* for opIndex < e.codeIndex *)
      match fr_err fr with Some e => Fail e m | None => Fin m end
    else
      let '(m1, over) := count_op E m in                     (* numOpCountAdd(1) *)
      if over then Fail EBudget m1
      else match fr_err fr with Some e => Fail e m1 | None =>
      if fr_top fr =? stack_size then Fail EStack m1
      else if fr_pc fr <? 0 then Panic "code index negative"
      else match nth_error (fr_code fr) (Z.to_nat (fr_pc fr)) with
           | None => Panic "code index out of range"
           | Some ins =>
             let next (m2 : machine) := {| m_fr := fr_set_pc (m_fr m2) (fr_pc (m_fr m2) + 1); m_w := m_w m2 |} in
             match step (exec f E) f E ins m1 with
             | SNext m2 => exec f E (next m2)
             | SStop m2 => Fin m2
             | SFail e m2 => Fail e m2
             | SPanic s => Panic s
             | SFuel => OutOfFuel
             | SUnsup s => Unsupported s
             end
           end
      end
  end.

(* ------------------------------------------------------------------ Parse's resets + RunAfterParsed *)
(* what persists between two Run calls on one VM *)
Record vmstate := {
  vs_heap : heap;
  vs_pcg : pcg;
  vs_attrs : N;                        (* ctx.Attrs *)
  vs_ops : Z;                          (* ctx.NumOpCount after the last run *)
  vs_st : list stcall                  (* callbacks of the last run, oldest first *)
}.

Definition init_vmstate (s : pcg) : vmstate :=
  let '(id, h) := alloc_map [] empty_heap in
  {| vs_heap := h; vs_pcg := s; vs_attrs := id; vs_ops := 0; vs_st := [] |}.

Inductive outcome :=
| Val (v : value) (st : vmstate)       (* ctx.Ret *)
| Err (e : eclass) (st : vmstate)      (* ctx.Error *)
| OPanic (what : string)
| OOutOfFuel
| OUnsupported (what : string).

Definition state_of (m : machine) : vmstate :=
  let w := m_w m in
  {| vs_heap := w_heap w; vs_pcg := w_pcg w; vs_attrs := c_attrs (w_self w); vs_ops := c_ops (w_self w); vs_st := rev (w_st w) |}.

Definition run (fuel : nat) (E : env) (c : code) (src : string) (st : vmstate) : outcome :=
  let w := {| w_heap := vs_heap st; w_pcg := vs_pcg st; w_st := [];
              w_chain := [{| c_attrs := vs_attrs st; c_ops := 0 |}] |} in
  match exec fuel E {| m_fr := new_frame c (Some src); m_w := w |} with
  | Fin m => Val (match fr_live (m_fr m) with v :: _ => v | [] => VNull end) (state_of m)
  | Fail e m => Err e (state_of m)
  | Panic s => OPanic s
  | OutOfFuel => OOutOfFuel
  | Unsupported s => OUnsupported s
  end.
