(* C02 — evaluation agrees with the language's definitional semantics.

   Model/Ast.v      core fragment of the documented language + printer (any whitespace / parenthesisation)
   Model/Denote.v   definitional semantics written from docs/GUIDE.md + the precedence of roll.peg
   Model/Compile.v  reference compiler to the byte-code of Model/VM.v (tied to the real parser by K4)
   Model/VM.v       the byte-code VM model (tied to the real VM by K2)

   WHAT IS PROVED (compiler correctness against the validated VM model, by structural induction on the AST,
   i.e. for programs of every size):
     C02_compile_correct_expr / _partial   scalar fragment (no heap), exact values
     C02_compile_correct_arrays            + array literals, indexing, all operators on arrays (values related through the heap)
     C02_compile_correct_loops             + while / break / continue at any nesting, under the stack-room hypothesis `wneed`
     C02_compile_correct_dice              + dice terms XdY with arbitrary operand expressions, under min / max mode
                                             (EVERY constructor of Model/Ast.v; in random mode the definition gives no value
                                             and nothing is claimed — the roll rules themselves are C04 / C05 / C15)
   The statement WITHOUT the stack-room hypothesis stays visible as C02_compile_correct_statement; as it stands it is
   REFUTED by the recorded defect while-body-stack-leak (C02_compile_correct_statement_refuted).
   Outside Model/Ast.v (dicts, functions, templates, slices, methods, computed values): the tie is the K2 / K3 / K4
   correspondence only. *)
From Coq Require Import String NArith ZArith List Bool.
From DS Require Import Model.Str Model.PCG Model.Value Model.VM Model.Ast Model.Denote Model.Compile Proofs.CompileProofs Proofs.CompileArrays Proofs.CompileDice.
Import ListNotations.
Open Scope Z_scope.

(* ---- expressions: executing `compile_expr e` inside a larger program pushes exactly the value of the
   definition on the operand stack and leaves the variables of the definition; an error of the definition is a
   VM error of the same class with the variables of the definition.  Hypotheses: the code sits at pc, the
   variables agree, no op budget, the operand stack has room (`need e` slots below the 1000-slot line). *)
Theorem C02_compile_correct_expr :
  forall (E : env), cfg_op_limit (e_cfg E) = 0 ->
  forall prog dice wod dc src pcg0 st0 attrs e, core_expr e ->
  forall env pc live blocks h j,
    code_at prog pc (compile_expr e) -> get_map attrs h = inj_env env -> scalar_env env -> zlen live + need e <= 999 ->
    match dexpr (e_cfg E) e env with
    | EV v env' =>
      exists h' j', steps E (M prog dice wod dc src pcg0 st0 attrs pc live blocks h j)
                          (M prog dice wod dc src pcg0 st0 attrs (pc + zlen (compile_expr e)) (inj v :: live) blocks h' j')
                    /\ get_map attrs h' = inj_env env' /\ scalar v /\ scalar_env env'
    | EE c env' => fails E (M prog dice wod dc src pcg0 st0 attrs pc live blocks h j) c (inj_env env')
    | EU _ => True
    end.
Proof. exact expr_correct. Qed.

(* ---- whole programs of the proved fragment, through `run` (Parse's resets + RunAfterParsed) on a persistent
   VM state: the definition's value is the VM's result and the definition's variables are the VM's variables;
   the definition's error is the VM's error (same class, same variables).  Since the final state is again
   related to the final environment, the statement composes over histories of programs on one VM,
   including after failed ones. *)
Theorem C02_compile_correct_partial :
  forall p, core_stmt p -> sneed p <= 999 -> bneed p <= 20 ->
  forall cfg ftab fuel env src st,
    cfg_op_limit cfg = 0 -> scalar_env env -> vars_of_state st = inj_env env ->
    match denote fuel cfg p env with
    | DVal v env' =>
      exists fuel' st', run fuel' {| e_ftab := ftab; e_cfg := cfg |} (compile p) src st = Val (inj v) st'
                        /\ vars_of_state st' = inj_env env' /\ vs_attrs st' = vs_attrs st /\ scalar v /\ scalar_env env'
    | DErr c env' =>
      exists fuel' st', run fuel' {| e_ftab := ftab; e_cfg := cfg |} (compile p) src st = Err c st'
                        /\ vars_of_state st' = inj_env env'
    | DOutOfFuel | DUnsup _ => True
    end.
Proof. exact compile_correct_core. Qed.

(* ---- arrays and indexing: the relation between definitional values and VM values goes through the heap
   (arel h : an array value corresponds to an allocated array whose elements correspond), environments likewise (erel);
   the relation is stable under heap growth and re-established by every conclusion, so the statement composes over
   histories.  Every expression except dice terms: array literals, indexing, all 16 binary operators on arbitrary related
   values (array + array, array * int, structural ==, ...), with if / else and sequences. *)
Theorem C02_compile_correct_arrays : forall p, arr_stmt p -> asneed p <= 999 -> bneed p <= 20 ->
  forall cfg ftab fuel env src st,
    cfg_op_limit cfg = 0 -> erel (vs_heap st) env (vars_of_state st) ->
    match denote fuel cfg p env with
    | DVal v env' =>
      exists fuel' st' vv, run fuel' {| e_ftab := ftab; e_cfg := cfg |} (compile p) src st = Val vv st'
                           /\ arel (vs_heap st') v vv /\ erel (vs_heap st') env' (vars_of_state st')
                           /\ vs_attrs st' = vs_attrs st /\ heap_le (vs_heap st) (vs_heap st')
    | DErr c env' =>
      exists fuel' st', run fuel' {| e_ftab := ftab; e_cfg := cfg |} (compile p) src st = Err c st'
                        /\ erel (vs_heap st') env' (vars_of_state st')
    | DOutOfFuel | DUnsup _ => True
    end.
Proof. exact compile_correct_arrays. Qed.

(* ---- loops: every statement of Model/Ast.v (while / break / continue at any nesting of ifs), every expression except
   dice terms, under an explicit stack-room hypothesis: a loop body leaves one operand-stack slot per value-producing
   statement per iteration in the implementation (the recorded finding while-body-stack-leak), the definition's own fuel
   bounds the iterations, and `wneed fuel p <= 999` says the 1000-slot stack suffices.  Without that hypothesis the
   statement is false (C02_compile_correct_statement_refuted below); with it the compiled loop computes the definition's
   value.  Example (Proofs/CompileArrays.v count_900_run): a 900-iteration counter is PROVED to return 900. *)
Theorem C02_compile_correct_loops : forall p fuel, loop_stmt p -> wneed (Z.of_nat fuel) p <= 999 -> wbneed p <= 20 ->
  forall cfg ftab env src st,
    cfg_op_limit cfg = 0 -> erel (vs_heap st) env (vars_of_state st) ->
    match denote fuel cfg p env with
    | DVal v env' =>
      exists fuel' st' vv, run fuel' {| e_ftab := ftab; e_cfg := cfg |} (compile p) src st = Val vv st'
                           /\ arel (vs_heap st') v vv /\ erel (vs_heap st') env' (vars_of_state st')
                           /\ vs_attrs st' = vs_attrs st /\ heap_le (vs_heap st) (vs_heap st')
    | DErr c env' =>
      exists fuel' st', run fuel' {| e_ftab := ftab; e_cfg := cfg |} (compile p) src st = Err c st'
                        /\ erel (vs_heap st') env' (vars_of_state st')
    | DOutOfFuel | DUnsup _ => True
    end.
Proof. exact compile_correct_loops. Qed.

(* ---- dice terms: every statement and EVERY expression of Model/Ast.v, `XdY` with arbitrary operand expressions of the
   fragment.  Under min mode / max mode of the configuration the definition gives XdY the value X*1 resp. X*Y (errors:
   non-integer or non-positive operand, the first operand checked before the second is evaluated); the compiled code
   (dice.init, dice.setTimes, operand, mark.detail, dice) computes the same on the VM model, leaves the dice-state stack
   and the generator as they were, and the conclusion again relates the final states, so it composes over histories.
   `dwneed` is `wneed` with max (not sum) for the two operands of a roll: the count is popped before the sides run. *)
Theorem C02_compile_correct_dice : forall p fuel, dice_stmt p -> dwneed (Z.of_nat fuel) p <= 999 -> wbneed p <= 20 ->
  forall cfg ftab env src st,
    cfg_op_limit cfg = 0 -> erel (vs_heap st) env (vars_of_state st) ->
    match denote fuel cfg p env with
    | DVal v env' =>
      exists fuel' st' vv, run fuel' {| e_ftab := ftab; e_cfg := cfg |} (compile p) src st = Val vv st'
                           /\ arel (vs_heap st') v vv /\ erel (vs_heap st') env' (vars_of_state st')
                           /\ vs_attrs st' = vs_attrs st /\ heap_le (vs_heap st) (vs_heap st')
    | DErr c env' =>
      exists fuel' st', run fuel' {| e_ftab := ftab; e_cfg := cfg |} (compile p) src st = Err c st'
                        /\ erel (vs_heap st') env' (vars_of_state st')
    | DOutOfFuel | DUnsup _ => True
    end.
Proof. exact compile_correct_dice_loops. Qed.

(* a roll has a value in the definition only under min / max mode *)
Theorem C02_roll_value_needs_mode : forall cfg x y env v env', dexpr cfg (ERoll x y) env = EV v env' -> roll_mode cfg <> 0.
Proof. exact dexpr_roll_value_mode. Qed.

(* ---- the full statement, every constructor of Model/Ast.v *)
Definition C02_compile_correct_statement : Prop := compile_correct_statement.

(* false today: `i=0; while i<2000 {i=i+1}; i` is 2000 by the definition, the VM stops with
   "执行栈到达溢出线" (each value-producing statement of a loop body leaks one operand-stack slot per iteration) *)
Theorem C02_compile_correct_statement_refuted : ~ C02_compile_correct_statement.
Proof. exact compile_correct_statement_refuted. Qed.

(* ---- per-operator rules (the documented rule, proved of the VM model) *)
Theorem C02_op_add_spec : forall E r w,
  (forall a b, bin_op r E OpAdd (VInt a) (VInt b) w = ROk (VInt (wrap64 (a + b))) w) /\
  (forall a b, bin_op r E OpAdd (VStr a) (VStr b) w = ROk (VStr (a ++ b)) w) /\
  (forall a b, bin_op r E OpAdd (VInt a) (VStr b) w = RFail EType w) /\
  (forall a b, bin_op r E OpAdd (VStr a) (VInt b) w = RFail EType w).
Proof. exact op_add_spec. Qed.

Theorem C02_op_div_spec : forall E r w a b,
  bin_op r E OpDiv (VInt a) (VInt b) w =
  if b =? 0 then (if cfg_ignore_div0 (e_cfg E) then ROk (VInt a) w else RFail EDiv0 w)
  else ROk (VInt (wrap64 (Z.quot a b))) w.
Proof. exact op_div_spec. Qed.

Theorem C02_compare_spec : forall E r w,
  (forall a b, bin_op r E OpLt (VInt a) (VInt b) w = ROk (vbool (a <? b)) w) /\
  (forall a b, bin_op r E OpLe (VInt a) (VInt b) w = ROk (vbool (a <=? b)) w) /\
  (forall a b, bin_op r E OpGe (VInt a) (VInt b) w = ROk (vbool (b <=? a)) w) /\
  (forall a b, bin_op r E OpGt (VInt a) (VInt b) w = ROk (vbool (b <? a)) w) /\
  (forall op v1 v2, In op [OpLt; OpLe; OpGe; OpGt] -> is_int v1 && is_int v2 = false -> bin_op r E op v1 v2 w = RFail EType w).
Proof. exact compare_spec. Qed.

Theorem C02_truthy_spec : forall fn h,
  (forall z, as_bool fn h (VInt z) = negb (z =? 0)) /\
  (forall s, as_bool fn h (VStr s) = negb (String.eqb s "")) /\
  as_bool fn h VNull = false /\
  (forall id, as_bool fn h (VArr id) = negb (Nat.eqb (length (get_arr id h)) 0)).
Proof. exact truthy_spec. Qed.

(* every binary operator of the VM against the documented rule `bin_sem`, on ints / strings / null *)
Theorem C02_binop_table_aligned : forall E r o a b w, scalar a -> scalar b -> o <> BAnd ->
  match bin_sem (e_cfg E) o a b with
  | BV v => bin_op (S r) E (bin_opcode o) (inj a) (inj b) w = ROk (inj v) w /\ scalar v
  | BE c => bin_op (S r) E (bin_opcode o) (inj a) (inj b) w = RFail c w
  | BU _ => True
  end.
Proof. exact bin_op_spec. Qed.

Print Assumptions C02_compile_correct_expr.
Print Assumptions C02_compile_correct_partial.
Print Assumptions C02_compile_correct_statement_refuted.
Print Assumptions C02_op_add_spec.
Print Assumptions C02_op_div_spec.
Print Assumptions C02_compare_spec.
Print Assumptions C02_truthy_spec.
Print Assumptions C02_binop_table_aligned.

(* ---- non-vacuity *)
(* a program with a loop, break and continue, evaluated through `denote` and through `compile` + `run`: equal *)
Example C02_loop_agrees :
  denote 100 cfg0 example_prog [] = DVal (DvInt 32) [("x"%string, DvInt 16); ("i"%string, DvInt 9)]
  /\ exists st', run 2000 {| e_ftab := []; e_cfg := cfg0 |} (compile example_prog) "" (init_vmstate {| hi := 1; lo := 2 |}) = Val (VInt 32) st'
                 /\ vars_of_state st' = inj_env [("x"%string, DvInt 16); ("i"%string, DvInt 9)].
Proof. exact example_loop_agrees. Qed.

(* the hypotheses of the proved theorem are satisfiable and the definition then yields a value / an error *)
Example C02_partial_nonvacuous :
  core_stmt example_core /\ sneed example_core <= 999 /\ bneed example_core <= 20 /\
  denote 0 cfg0 example_core [] = DVal (DvStr "ab") [("x"%string, DvInt (-2)); ("y"%string, DvInt 2)].
Proof. exact example_core_ok. Qed.
Example C02_partial_nonvacuous_error :
  denote 0 cfg0 (SSeq (SExpr (EAssign "x" (EInt 1))) (SExpr (EBin BDiv (EVar "x") (EBin BSub (EVar "x") (EVar "x"))))) []
  = DErr EDiv0 [("x"%string, DvInt 1)].
Proof. exact example_core_error. Qed.
(* the printer: one AST, two whitespace / parenthesisation choices, two different legal texts *)
Example C02_printer_choices :
  print (mk_ws 1) example_core <> print (mk_ws 2) example_core.
Proof. vm_compute. discriminate. Qed.
Example C02_dice_nonvacuous :
  exists fuel' st' vv, run fuel' {| e_ftab := []; e_cfg := cfg_max |} (compile example_dice) "" st_init = Val vv st'
                       /\ arel (vs_heap st') (DvArr [DvInt 4; DvInt 12; DvInt 18]) vv
                       /\ erel (vs_heap st') [("x"%string, DvInt 18)] (vars_of_state st').
Proof. exact example_dice_run_max. Qed.

Print Assumptions C02_compile_correct_arrays.
Print Assumptions C02_compile_correct_loops.
Print Assumptions C02_compile_correct_dice.
Print Assumptions C02_roll_value_needs_mode.
