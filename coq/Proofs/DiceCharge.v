(* C07 (VM half, dice): "the operation counter accounts for ... every die rolled".

   WHAT THE MODEL (Model/VM.v `step`) CHARGES, per dice opcode, and what it rolls
     dice (XdY)            numOpCountAdd(times) FIRST, then `times` dice (roll_many (Z.to_nat times)).
                           over budget -> Fail EBudget, generator untouched.
     coc.bonus/penalty n   numOpCountAdd(n) FIRST, then 1 + n dice (the d100 and n tens dice: roll ... 100, coc_loop n).
                           The d100 is paid for by the 1 the loop head charges for the instruction.
     dice.wod / dice.dc    numOpCountAdd(pool of the round) at the START of every round, then that round's pool dice;
                           the round that breaks the limit is not rolled, the earlier rounds were (generator advanced).
     dice.fate             numOpCountAdd(4) FIRST, then 4 dice (fate_loop 4); over budget -> Fail EBudget, generator untouched.
                           (An earlier version charged nothing for the 4 dice: found here, repaired in code and model.)
   "A die" = one call of Roll.roll (one iteration of the rolling loops), whatever the mode (min / max mode draw no word).
   The draws of Array.shuffle / rand / randSize (ctxRandIntn, Model `roll1`) are NOT dice and are not counted here
   (they are not charged either: one dispatch for up to len-1 draws).

   exec_dice               instrumented twin of VM.exec: also returns the number of dice rolled,
                           summed over the activation AND every sub-VM activation it starts (function calls,
                           computed values); exec_dice_fst: it computes exactly VM.exec.
   C07_dice_bounded_by_budget   under a limit 0 < L <= MaxInt64 - 100, on a chain of contexts within the budget:
                              dice <= max 0 (L - c0)          (no slack; attained: C07_dice_bound_tight)
                           and for a finished run dice <= c_final - c0 (C07_dice_paid_by_counter).
   The sub-VM twins (..._s) are VMDepth's twins (..._d) with `+` in place of `max`; the chain invariants are REUSED from
   Proofs/VMSafety.v (step_ops_mono) and Proofs/VMDepth.v (step_inv_all, computed_execute_d_exact, ...). *)
From Coq Require Import String Ascii NArith ZArith List Bool Lia.
From DS Require Import Model.Str Model.PCG Model.Roll Model.Dice Model.Value Model.VM Model.CodeWf
  Proofs.VMFacts Proofs.VMSafety Proofs.VMDepth.
Import ListNotations.
Open Scope Z_scope.

(* ================================================================== counts *)
(* number of dice rolled; acct = the same as an integer (what the counter must have paid) *)
Definition cnt : Type := nat.
Definition cz : cnt := O.
Definition cadd (a b : cnt) : cnt := (a + b)%nat.
Definition acct (a : cnt) : Z := Z.of_nat a.

Lemma acct_cz : acct cz = 0. Proof. reflexivity. Qed.
Lemma acct_cadd : forall a b, acct (cadd a b) = acct a + acct b.
Proof. intros a b. unfold acct, cadd. lia. Qed.

(* ================================================================== the instrumentation *)
Definition RS (A : Type) : Type := (R A * cnt)%type.

Definition rbinds {A B} (r : RS A) (k : A -> world -> RS B) : RS B :=
  match fst r with
  | ROk a w => (fst (k a w), cadd (snd r) (snd (k a w)))
  | RFail e w => (RFail e w, snd r)
  | RPanic s => (RPanic s, snd r)
  | RFuel => (RFuel, snd r)
  | RUnsup s => (RUnsup s, snd r)
  end.
Definition rmapws {A} (f : world -> world) (r : RS A) : RS A := (rmapw f (fst r), snd r).

Section OpsS.
  Variable call : machine -> result.      (* run a sub-VM: its result ... *)
  Variable csub : machine -> cnt.         (* ... and the dice rolled in it and below it *)
  Variable E : env.

  (* VM.computed_execute; where the sub-VM is started: its dice *)
  Definition computed_execute_s (cid : N) (k : nat) (w : world) : RS value :=
    match nth_error (w_chain w) k with
    | None => (RUnsup "context index", cz)
    | Some t =>
      let pre := firstn k (w_chain w) in
      let rest := skipn (S k) (w_chain w) in
      let '(mapid, h1) := cattrs_force cid (w_heap w) in
      let ops1 := wrap64 (c_ops t + 100) in
      let t1 := {| c_attrs := c_attrs t; c_ops := ops1 |} in
      let w1 := w_set_chain (w_set_heap w h1) (chain_put pre t1 rest) in
      if limit_hit E ops1 then (RFail EBudget w1, cz)
      else match f_lookup (e_ftab E) cid with
           | None => (RUnsup "function table", cz)
           | Some d =>
             match f_code d with
             | None => (RUnsup "lazy body", cz)
             | Some c =>
               let sub := {| m_fr := new_frame c (Some (f_expr d));
                             m_w := w_set_chain w1 ({| c_attrs := mapid; c_ops := ops1 |} :: t1 :: rest) |} in
               (match call sub with
                | Fin m' =>
                  match w_chain (m_w m') with
                  | s' :: t' :: rest' =>
                    let ret := match fr_live (m_fr m') with v :: _ => v | [] => VNull end in
                    ROk ret (w_set_chain (m_w m') (chain_put pre {| c_attrs := c_attrs t'; c_ops := c_ops s' |} rest'))
                  | _ => RUnsup "context chain"
                  end
                | Fail e m' =>
                  match w_chain (m_w m') with
                  | s' :: t' :: rest' =>
                    RFail e (w_set_chain (m_w m') (chain_put pre {| c_attrs := c_attrs t'; c_ops := Z.max (c_ops t') (c_ops s') |} rest'))
                  | _ => RUnsup "context chain"
                  end
                | Panic s => RPanic s
                | OutOfFuel => RFuel
                | Unsupported s => RUnsup s
                end, csub sub)
             end
           end
    end.

  (* VM.func_invoke *)
  Definition func_invoke_s (fid : N) (args : list value) (w : world) : RS value :=
    match f_lookup (e_ftab E) fid, w_chain w with
    | None, _ => (RUnsup "function table", cz)
    | _, [] => (RUnsup "context chain", cz)
    | Some d, self :: ups =>
      if negb (Nat.eqb (length (f_params d)) (length args)) then (RFail ECall w, cz)
      else
        let '(mapid, h1) := alloc_map (bind_params (f_params d) args []) (w_heap w) in
        let ops1 := wrap64 (c_ops self + 100) in
        let self1 := {| c_attrs := c_attrs self; c_ops := ops1 |} in
        let w1 := w_set_chain (w_set_heap w h1) (self1 :: ups) in
        if limit_hit E ops1 then (RFail EBudget w1, cz)
        else match f_code d with
             | None => (RUnsup "lazy body", cz)
             | Some c =>
               let sub := {| m_fr := new_frame c None;
                             m_w := w_set_chain w1 ({| c_attrs := mapid; c_ops := ops1 |} :: self1 :: ups) |} in
               (match call sub with
                | Fin m' =>
                  match w_chain (m_w m') with
                  | s' :: t' :: rest' =>
                    let ret := match fr_live (m_fr m') with v :: _ => v | [] => VNull end in
                    ROk ret (w_set_chain (m_w m') ({| c_attrs := c_attrs t'; c_ops := c_ops s' |} :: rest'))
                  | _ => RUnsup "context chain"
                  end
                | Fail e m' =>
                  match w_chain (m_w m') with
                  | s' :: t' :: rest' =>
                    RFail e (w_set_chain (m_w m') ({| c_attrs := c_attrs t'; c_ops := Z.max (c_ops t') (c_ops s') |} :: rest'))
                  | [_] => RFail e (w_set_chain (m_w m') [])
                  | [] => RUnsup "context chain"
                  end
                | Panic s => RPanic s
                | OutOfFuel => RFuel
                | Unsupported s => RUnsup s
                end, csub sub)
             end
    end.

  (* VM.load_walk: several computed values may be evaluated one after the other: the sum *)
  Fixpoint load_walk_s (n : nat) (k : nat) (name : string) (isRaw : bool) (w : world) : RS value :=
    match n with
    | O => (ROk (load_global name) w, cz)
    | S n' =>
      match nth_error (w_chain w) k with
      | None => (ROk (load_global name) w, cz)
      | Some c =>
        let val := match mget name (get_map (c_attrs c) (w_heap w)) with Some v => v | None => VNull end in
        let w0 := sync_to k w in
        rbinds (rmapws (sync_back k)
                  (match val with
                   | VComp cid => if isRaw then (ROk val w0, cz) else computed_execute_s cid k w0
                   | _ => (ROk val w0, cz)
                   end))
               (fun v w' => match v with
                            | VNull => load_walk_s n' (S k) name isRaw w'
                            | _ => (ROk v w', cz)
                            end)
      end
    end.
  Definition load_name_s (name : string) (isRaw : bool) (w : world) : RS value :=
    load_walk_s (length (w_chain w)) 0 name isRaw w.

  Definition load_local_s (name : string) (w : world) : RS value :=
    let val := match mget name (get_map (c_attrs (w_self w)) (w_heap w)) with Some v => v | None => VNull end in
    match val with
    | VComp cid => computed_execute_s cid 0 w
    | _ => (ROk val w, cz)
    end.

  (* VM.attr_get starts a sub-VM only for `this.name` *)
  Definition attr_get_s (v : value) (name : string) (w : world) : RS (option value) :=
    match v with
    | VThis => rbinds (load_local_s name w) (fun x w' => (ROk (Some x) w', cz))
    | _ => (attr_get call E v name w, cz)
    end.

  (* VM.native_call starts a sub-VM only in load / loadRaw / Computed.compute *)
  Definition native_call_s (name : string) (self : vself) (args : list value) (w : world) : RS value :=
    let '(np, defaults) := native_sig name in
    let args' := (args ++ skipn (length args) defaults)%list in
    if negb (Nat.eqb (length args') np) then (RFail ECall w, cz)
    else
      let a0 := nth 0 args' VNull in
      if String.eqb name "load" then
        match a0 with VStr n => load_name_s n false w | _ => (RFail EType w, cz) end
      else if String.eqb name "loadRaw" then
        match a0 with VStr n => load_name_s n true w | _ => (RFail EType w, cz) end
      else if String.eqb name "Computed.compute" then
        match self with SComp cid => computed_execute_s cid 0 w | _ => (RPanic "nil Self", cz) end
      else (native_call call E name self args w, cz).

  (* VM.step starts sub-VMs only in invoke, attr.get, ld, ld.raw, ld.d: the dice rolled in the sub-VMs of ONE instruction *)
  Definition step_sub (ins : instr) (m : machine) : cnt :=
    let fr := m_fr m in
    let w := m_w m in
    match i_op ins, i_arg ins with
    | OpInvoke, OInt n =>
      let '(args, fr1) := pop_n n fr in
      let '(f, fr2) := pop fr1 in
      match f with
      | VFunc fid => snd (func_invoke_s fid args w)
      | VNative name self => snd (native_call_s name self args w)
      | _ => cz
      end
    | OpAttrGet, OStr name => let '(obj, fr1) := pop fr in snd (attr_get_s obj name w)
    | OpLd, OStr name => snd (load_name_s name false w)
    | OpLdRaw, OStr name => snd (load_name_s name true w)
    | OpLdD, OStr name => snd (load_name_s name false w)
    | _, _ => cz
    end.

  (* ---- the twins compute the results of the model's functions *)
  Lemma fst_rbinds : forall A B (r : RS A) (k : A -> world -> RS B),
    fst (rbinds r k) = rbind (fst r) (fun a w => fst (k a w)).
  Proof. intros A B [r d] k. unfold rbinds. cbn [fst]. destruct r; reflexivity. Qed.

  Lemma computed_execute_s_fst : forall cid k w, fst (computed_execute_s cid k w) = computed_execute call E cid k w.
  Proof.
    intros cid k w. unfold computed_execute_s, computed_execute.
    destruct (nth_error (w_chain w) k); [|reflexivity].
    destruct (cattrs_force cid (w_heap w)) as [mapid h1]. cbv zeta.
    destruct (limit_hit E _); [reflexivity|].
    destruct (f_lookup (e_ftab E) cid) as [d|]; [|reflexivity].
    destruct (f_code d); reflexivity.
  Qed.

  Lemma func_invoke_s_fst : forall fid args w, fst (func_invoke_s fid args w) = func_invoke call E fid args w.
  Proof.
    intros fid args w. unfold func_invoke_s, func_invoke.
    destruct (f_lookup (e_ftab E) fid) as [d|]; [|reflexivity].
    destruct (w_chain w) as [|self ups]; [reflexivity|].
    destruct (negb _); [reflexivity|].
    destruct (alloc_map _ _) as [mapid h1]. cbv zeta.
    destruct (limit_hit E _); [reflexivity|].
    destruct (f_code d); reflexivity.
  Qed.

  Lemma load_walk_s_fst : forall n k name isRaw w, fst (load_walk_s n k name isRaw w) = load_walk call E n k name isRaw w.
  Proof.
    induction n as [|n IH]; intros k name isRaw w; cbn [load_walk_s load_walk]; [reflexivity|].
    destruct (nth_error (w_chain w) k) as [c|]; [|reflexivity]. cbv zeta.
    rewrite fst_rbinds. unfold rmapws. cbn [fst].
    match goal with |- rbind (rmapw _ ?a) _ = rbind (rmapw _ ?b) _ => assert (Hab : a = b) end.
    { destruct (match mget name _ with Some v => v | None => VNull end); try reflexivity.
      destruct isRaw; [reflexivity|apply computed_execute_s_fst]. }
    rewrite Hab. apply rbind_ext. intros v w'. destruct v; try reflexivity. apply IH.
  Qed.

  Lemma load_name_s_fst : forall name isRaw w, fst (load_name_s name isRaw w) = load_name call E name isRaw w.
  Proof. intros; apply load_walk_s_fst. Qed.

  Lemma load_local_s_fst : forall name w, fst (load_local_s name w) = load_local call E name w.
  Proof.
    intros name w. unfold load_local_s, load_local. cbv zeta.
    destruct (match mget name _ with Some v => v | None => VNull end); try reflexivity. apply computed_execute_s_fst.
  Qed.

  Lemma attr_get_s_fst : forall v name w, fst (attr_get_s v name w) = attr_get call E v name w.
  Proof.
    intros v name w. destruct v; try reflexivity. cbn [attr_get_s attr_get].
    rewrite fst_rbinds, load_local_s_fst. reflexivity.
  Qed.

  Lemma native_call_s_fst : forall name self args w, fst (native_call_s name self args w) = native_call call E name self args w.
  Proof.
    intros name self args w. unfold native_call_s.
    destruct (String.eqb name "load") eqn:H1.
    { apply String.eqb_eq in H1. subst name. cbn.
      destruct (negb _); [reflexivity|]. destruct (nth 0 _ VNull); try reflexivity. apply load_name_s_fst. }
    destruct (String.eqb name "loadRaw") eqn:H2.
    { apply String.eqb_eq in H2. subst name. cbn.
      destruct (negb _); [reflexivity|]. destruct (nth 0 _ VNull); try reflexivity. apply load_name_s_fst. }
    destruct (String.eqb name "Computed.compute") eqn:H3.
    { apply String.eqb_eq in H3. subst name. cbn.
      destruct (negb _); [reflexivity|]. destruct self; try reflexivity. apply computed_execute_s_fst. }
    unfold native_call. destruct (native_sig name) as [np defaults]. cbv zeta.
    destruct (negb _); reflexivity.
  Qed.
End OpsS.

(* ------------------------------------------------------------------ the dice ONE instruction rolls itself *)
(* mirrors the dice branches of VM.step: the trip counts of the rolling loops that the instruction enters
   (roll_many (Z.to_nat times); roll .. 100 + coc_loop (Z.to_nat n); fate_loop 4; the pools of the STARTED rounds,
   CodeWf.wod_budget_cnt / dc_budget_cnt).  Tied to `step` by the per-opcode theorems below. *)
Definition step_own (rfuel : nat) (E : env) (ins : instr) (m : machine) : cnt :=
  let fr := m_fr m in
  let w := m_w m in
  let cfg := e_cfg E in
  match i_op ins with
  | OpDice =>
    match fr_dice fr with
    | [] => cz
    | d :: _ =>
      match fst (pop fr) with
      | VInt sides =>
        if sides <=? 0 then cz
        else if ((d_keep d =? 1) || (d_keep d =? 3)) && (d_low d <=? 0) then cz
        else if ((d_keep d =? 2) || (d_keep d =? 4)) && (d_high d <=? 0) then cz
        else if over_by E w (d_times d) then cz
        else if dice_cap <? d_times d then cz
        else Z.to_nat (d_times d)
      | _ => cz
      end
    end
  | OpDiceFate => if over_by E w 4 then cz else 4%nat
  | OpCocBonus | OpCocPenalty =>
    match fst (pop fr) with
    | VInt n => if n <? 0 then cz else if over_by E w n then cz else if dice_cap <? n then cz else S (Z.to_nat n)
    | _ => cz
    end
  | OpDiceWod =>
    match pop fr with
    | (VInt addLine, fr1) =>
      let x := fr_wod fr1 in
      if negb (wod_check addLine (w_pool x) (w_points x) (w_threshold x)) then cz
      else Z.to_nat (snd (wod_budget_cnt rfuel cfg addLine (w_points x) (w_threshold x) (w_isge x) (roll_mode cfg)
                                         (w_pool x) 0 (c_ops (w_self w)) (w_pcg w)))
    | _ => cz
    end
  | OpDiceDC =>
    match pop fr with
    | (VInt addLine, fr1) =>
      let x := fr_dc fr1 in
      if negb (dc_check addLine (c_pool x) (c_points x)) then cz
      else Z.to_nat (snd (dc_budget_cnt rfuel cfg addLine (c_points x) (roll_mode cfg) (c_pool x) 0 (c_ops (w_self w)) (w_pcg w)))
    | _ => cz
    end
  | _ => cz
  end.

(* exactly VM.exec, also returning the dice rolled by this activation and by every sub-VM activation below it *)
Fixpoint exec_dice (fuel : nat) (E : env) (m : machine) : result * cnt :=
  match fuel with
  | O => (OutOfFuel, cz)
  | S f =>
    let fr := m_fr m in
    if zlen (fr_code fr) <=? fr_pc fr then
      (match fr_err fr with Some e => Fail e m | None => Fin m end, cz)
    else
      let '(m1, over) := count_op E m in
      if over then (Fail EBudget m1, cz)
      else match fr_err fr with Some e => (Fail e m1, cz) | None =>
      if fr_top fr =? stack_size then (Fail EStack m1, cz)
      else if fr_pc fr <? 0 then (Panic "code index negative", cz)
      else match nth_error (fr_code fr) (Z.to_nat (fr_pc fr)) with
           | None => (Panic "code index out of range", cz)
           | Some ins =>
             let next (m2 : machine) := {| m_fr := fr_set_pc (m_fr m2) (fr_pc (m_fr m2) + 1); m_w := m_w m2 |} in
             (* own dice + the dice of the sub-VMs this instruction starts (they run `exec f E`) *)
             let d := cadd (step_own f E ins m1)
                           (step_sub (exec f E) (fun sub => snd (exec_dice f E sub)) E ins m1) in
             match step (exec f E) f E ins m1 with
             | SNext m2 => let '(r, n) := exec_dice f E (next m2) in (r, cadd d n)
             | SStop m2 => (Fin m2, d)
             | SFail e m2 => (Fail e m2, d)
             | SPanic s => (Panic s, d)
             | SFuel => (OutOfFuel, d)
             | SUnsup s => (Unsupported s, d)
             end
           end
      end
  end.

Lemma exec_dice_fst : forall fuel E m, fst (exec_dice fuel E m) = exec fuel E m.
Proof.
  induction fuel as [|f IH]; intros E m; [reflexivity|]. cbn [exec_dice exec].
  destruct (zlen (fr_code (m_fr m)) <=? fr_pc (m_fr m)); [reflexivity|].
  destruct (count_op E m) as [m1 over]. destruct over; [reflexivity|].
  destruct (fr_err (m_fr m)); [reflexivity|]. destruct (fr_top (m_fr m) =? stack_size); [reflexivity|].
  destruct (fr_pc (m_fr m) <? 0); [reflexivity|]. destruct (nth_error _ _); [|reflexivity]. cbv zeta.
  destruct (step (exec f E) f E i m1); try reflexivity.
  match goal with |- context [exec_dice f E ?x] => specialize (IH E x); destruct (exec_dice f E x) end. exact IH.
Qed.

(* ================================================================== (1) per dice opcode: what is charged, what is rolled *)
Lemma ops_of_set_pcg : forall w s, ops_of (w_set_pcg w s) = ops_of w.
Proof. reflexivity. Qed.

(* numOpCountAdd(n) on the running context: the new counter is min(MaxInt64, old + n); without "over" it is old + n <= L *)
Lemma charged_ops_min : forall E w n, w_chain w <> [] -> 0 <= ops_of w <= MaxInt64 -> 0 <= n ->
  ops_of (charged E w n) = Z.min (ops_of w + n) MaxInt64.
Proof.
  intros E w n Hch Hops Hn. unfold charged. rewrite ops_of_set_self by exact Hch. apply ops_add_value; assumption.
Qed.

Lemma charged_ops_in : forall E L w n, cfg_op_limit (e_cfg E) = L -> 0 < L < MaxInt64 ->
  w_chain w <> [] -> 0 <= ops_of w <= MaxInt64 -> 0 <= n -> over_by E w n = false ->
  ops_of (charged E w n) = ops_of w + n /\ ops_of w + n <= L.
Proof.
  intros E L w n HL HLr Hch Hops Hn Hov. unfold charged. rewrite ops_of_set_self by exact Hch.
  unfold over_by in Hov. destruct (ops_add (e_cfg E) (ops_of w) n) as [ops' over] eqn:Ha. cbn [fst snd] in *. subst over.
  destruct (charge_step _ _ _ _ _ _ HL HLr Hops Hn Ha) as [_ C2]. destruct (C2 eq_refl) as [C3 C4]. lia.
Qed.

(* ---- XdY: `times` is charged first; over budget -> EBudget and no die; otherwise exactly `times` dice *)
Theorem C07_dice_charge : forall call rf E o m d rest,
  fr_dice (m_fr m) = d :: rest -> w_chain (m_w m) <> [] -> 0 <= ops_of (m_w m) <= MaxInt64 -> 0 <= d_times d ->
  match step call rf E (I OpDice o) m with
  | SNext m' =>
    ops_of (m_w m') = Z.min (ops_of (m_w m) + d_times d) MaxInt64 /\
    step_own rf E (I OpDice o) m = Z.to_nat (d_times d) /\
    exists sides nums, fst (pop (m_fr m)) = VInt sides /\
      roll_many pcg_next roll_fuel (Z.to_nat (d_times d)) sides (roll_mode (e_cfg E)) (d_min d) (d_max d) (w_pcg (m_w m))
      = Roll.Done (nums, w_pcg (m_w m'))
  | SFail e m' =>
    step_own rf E (I OpDice o) m = cz /\ w_pcg (m_w m') = w_pcg (m_w m) /\
    (e = EBudget -> over_by E (m_w m) (d_times d) = true /\
                    ops_of (m_w m') = Z.min (ops_of (m_w m) + d_times d) MaxInt64) /\
    (e <> EBudget -> m_w m' = m_w m)
  | SStop _ => False
  | _ => True
  end.
Proof.
  intros call rf E o m d rest Hd Hch Hops Ht. unfold step, step_own; cbn [i_op i_arg]. rewrite Hd. unfold with_pop.
  destruct (pop (m_fr m)) as [v fr1]. cbn [fst].
  destruct v; try (cbn [m_w mk]; repeat split; try reflexivity; intros; congruence).
  repeat match goal with |- context [if ?b then SFail EDice _ else _] =>
           destruct b; [cbn [m_w mk]; repeat split; try reflexivity; intros; congruence|] end.
  rewrite add_ops_spec. destruct (over_by E (m_w m) (d_times d)) eqn:Ho.
  - cbn [m_w mk]. split; [reflexivity|]. split; [apply charged_pcg|]. split; [|congruence].
    intros _. split; [reflexivity|]. apply charged_ops_min; assumption.
  - destruct (dice_cap <? d_times d); [exact Logic.I|].
    unfold roll_common.
    destruct (roll_many _ _ _ _ _ _ _ _) as [[nums s]|] eqn:Hr; [|exact Logic.I].
    unfold dice_result, do_push. destruct (push _ _); [|exact Logic.I]. cbn [m_w mk].
    rewrite ops_of_set_pcg. split; [apply charged_ops_min; assumption|]. split; [reflexivity|].
    exists z, nums. split; [reflexivity|]. rewrite charged_pcg in Hr. exact Hr.
Qed.

(* ---- CoC bonus / penalty n: n is charged first; then 1 + n dice (the d100 + n tens dice) *)
Theorem C07_coc_charge : forall call rf E op o m n l,
  op = OpCocBonus \/ op = OpCocPenalty -> fr_live (m_fr m) = VInt n :: l ->
  w_chain (m_w m) <> [] -> 0 <= ops_of (m_w m) <= MaxInt64 ->
  match step call rf E (I op o) m with
  | SNext m' =>
    0 <= n /\ ops_of (m_w m') = Z.min (ops_of (m_w m) + n) MaxInt64 /\
    step_own rf E (I op o) m = S (Z.to_nat n) /\
    exists res s1 acc, roll pcg_next roll_fuel 100 (roll_mode (e_cfg E)) (w_pcg (m_w m)) = Roll.Done (res, s1) /\
      coc_loop pcg_next roll_fuel (Z.to_nat n) (match op with OpCocBonus => true | _ => false end) (roll_mode (e_cfg E))
               ([], Z.quot res 10, Z.quot res 10, false) s1 = Roll.Done (acc, w_pcg (m_w m'))
  | SFail e m' =>
    step_own rf E (I op o) m = cz /\ w_pcg (m_w m') = w_pcg (m_w m) /\
    (e = EBudget -> over_by E (m_w m) n = true /\ ops_of (m_w m') = Z.min (ops_of (m_w m) + n) MaxInt64)
  | SStop _ => False
  | _ => True
  end.
Proof.
  intros call rf E op o m n l Hop Hl Hch Hops. unfold step, step_own.
  destruct Hop as [-> | ->]; cbn [i_op i_arg]; unfold with_pop, with_int, pop; rewrite Hl; cbv beta iota zeta; cbn [fst];
    (destruct (n <? 0) eqn:Hn; [cbn [m_w mk]; repeat split; try reflexivity; intros; congruence|]); apply Z.ltb_ge in Hn;
    rewrite add_ops_spec; (destruct (over_by E (m_w m) n) eqn:Ho;
      [cbn [m_w mk]; split; [reflexivity|]; split; [apply charged_pcg|]; intros _; split; [reflexivity|apply charged_ops_min; assumption]|]);
    (destruct (dice_cap <? n); [exact Logic.I|]);
    unfold roll_coc; rewrite charged_pcg;
    (destruct (roll pcg_next roll_fuel 100 _ _) as [[res s1]|] eqn:Hr; [|exact Logic.I]);
    (destruct (coc_loop _ _ _ _ _ _ _) as [[[[[nums dmin] dmax] ten] s2]|] eqn:Hc; [|exact Logic.I]);
    unfold dice_result, do_push; cbv beta iota zeta; (destruct (push _ _); [|exact Logic.I]); cbn [m_w mk];
    rewrite ops_of_set_pcg; (split; [exact Hn|]); (split; [apply charged_ops_min; assumption|]); (split; [reflexivity|]);
    exists res, s1, (nums, dmin, dmax, ten); (split; [reflexivity|exact Hc]).
Qed.

(* ---- Fate: 4 is charged first; over budget -> EBudget and no die; otherwise exactly four dice *)
Theorem C07_fate_charge : forall call rf E o m,
  w_chain (m_w m) <> [] -> 0 <= ops_of (m_w m) <= MaxInt64 ->
  match step call rf E (I OpDiceFate o) m with
  | SNext m' =>
    ops_of (m_w m') = Z.min (ops_of (m_w m) + 4) MaxInt64 /\
    step_own rf E (I OpDiceFate o) m = 4%nat /\
    exists sum txt, fate_loop pcg_next roll_fuel 4 (roll_mode (e_cfg E)) 0 "" (w_pcg (m_w m)) = Roll.Done ((sum, txt), w_pcg (m_w m'))
  | SFail e m' =>
    e = EBudget /\ over_by E (m_w m) 4 = true /\
    step_own rf E (I OpDiceFate o) m = cz /\ w_pcg (m_w m') = w_pcg (m_w m) /\
    ops_of (m_w m') = Z.min (ops_of (m_w m) + 4) MaxInt64
  | SStop _ => False
  | _ => True
  end.
Proof.
  intros call rf E o m Hch Hops. assert (H4 : 0 <= 4) by lia.
  unfold step, step_own; cbn [i_op i_arg]. rewrite add_ops_spec.
  destruct (over_by E (m_w m) 4) eqn:Ho.
  - cbn [m_w mk]. split; [reflexivity|]. split; [reflexivity|]. split; [reflexivity|]. split; [apply charged_pcg|].
    apply charged_ops_min; assumption.
  - unfold roll_fate. rewrite charged_pcg.
    destruct (fate_loop _ _ _ _ _ _ _) as [[[sum txt] s]|] eqn:Hf; [|exact Logic.I].
    unfold dice_result, do_push. destruct (push _ _); [|exact Logic.I]. cbn [m_w mk].
    rewrite ops_of_set_pcg. split; [apply charged_ops_min; assumption|]. split; [reflexivity|]. exists sum, txt. reflexivity.
Qed.

(* ---- WoD / Double Cross: the pool of every round is charged at the start of the round; the dice counted are the pools
   of the STARTED rounds (wod_budget_cnt / dc_budget_cnt); the round that breaks the limit is not rolled *)
Theorem C07_wod_dc_charge : forall call rf E L o m addLine l,
  cfg_op_limit (e_cfg E) = L -> 0 < L < MaxInt64 ->
  fr_live (m_fr m) = VInt addLine :: l -> w_chain (m_w m) <> [] -> 0 <= ops_of (m_w m) <= MaxInt64 ->
  let fr1 := snd (pop (m_fr m)) in
  (let x := fr_wod fr1 in
   wod_check addLine (w_pool x) (w_points x) (w_threshold x) = true ->
   exists k, step_own rf E (I OpDiceWod o) m = Z.to_nat k /\ 0 <= k <= Z.max 0 (L - ops_of (m_w m)) /\
     match step call rf E (I OpDiceWod o) m with
     | SNext m' => ops_of (m_w m') = ops_of (m_w m) + k /\ ops_of (m_w m') <= L
     | SFail e m' => e = EBudget /\ L < ops_of (m_w m')
     | SStop _ => False
     | _ => True
     end) /\
  (let x := fr_dc fr1 in
   dc_check addLine (c_pool x) (c_points x) = true ->
   exists k, step_own rf E (I OpDiceDC o) m = Z.to_nat k /\ 0 <= k <= Z.max 0 (L - ops_of (m_w m)) /\
     match step call rf E (I OpDiceDC o) m with
     | SNext m' => ops_of (m_w m') = ops_of (m_w m) + k /\ ops_of (m_w m') <= L
     | SFail e m' => e = EBudget /\ L < ops_of (m_w m')
     | SStop _ => False
     | _ => True
     end).
Proof.
  intros call rf E L o m addLine l HL HLr Hl Hch Hops.
  destruct (C07_wod_dc_rounds_charged_step call rf E o m addLine l Hl) as [HW HD]. cbv zeta in *. split; intros Hc.
  - destruct (HW Hc) as [Hs Hp]. rewrite Hs. clear HW HD Hs.
    unfold step_own; cbn [i_op]. destruct (pop (m_fr m)) as [v fr1] eqn:Hp0.
    unfold pop in Hp0. rewrite Hl in Hp0. injection Hp0 as <- <-. cbn [snd] in *. rewrite Hc. cbn [negb].
    change (c_ops (w_self (m_w m))) with (ops_of (m_w m)).
    match goal with |- context [wod_budget_cnt ?a ?b ?c ?d ?e ?f ?g ?h ?i ?j ?k] =>
      pose proof (C07_wod_rounds_charged b L c d e f g HL HLr a h i j k Hops Hp) as Hr;
      pose proof (wod_budget_cnt_fst a b c d e f g h i j k) as Hf;
      destruct (wod_budget_cnt a b c d e f g h i j k) as [r k0] end.
    cbn [fst snd] in *. rewrite <- Hf. exists k0. split; [reflexivity|].
    unfold rounds_charged in Hr. destruct Hr as (K1 & K2 & K3). split; [lia|].
    destruct r as [total ops' s|ops' s|].
    + unfold dice_result, do_push. destruct (push _ _); [|exact Logic.I]. cbn [m_w mk].
      rewrite ops_of_set_pcg, ops_of_set_self by exact Hch. lia.
    + cbn [m_w mk]. rewrite ops_of_set_pcg, ops_of_set_self by exact Hch. split; [reflexivity|exact K3].
    + exact Logic.I.
  - destruct (HD Hc) as [Hs Hp]. rewrite Hs. clear HW HD Hs.
    unfold step_own; cbn [i_op]. destruct (pop (m_fr m)) as [v fr1] eqn:Hp0.
    unfold pop in Hp0. rewrite Hl in Hp0. injection Hp0 as <- <-. cbn [snd] in *. rewrite Hc. cbn [negb].
    change (c_ops (w_self (m_w m))) with (ops_of (m_w m)).
    match goal with |- context [dc_budget_cnt ?a ?b ?c ?d ?e ?f ?g ?h ?i] =>
      pose proof (C07_dc_rounds_charged b L c d e HL HLr a f g h i Hops Hp) as Hr;
      pose proof (dc_budget_cnt_fst a b c d e f g h i) as Hf;
      destruct (dc_budget_cnt a b c d e f g h i) as [r k0] end.
    cbn [fst snd] in *. rewrite <- Hf. exists k0. split; [reflexivity|].
    unfold rounds_charged in Hr. destruct Hr as (K1 & K2 & K3). split; [lia|].
    destruct r as [total ops' s|ops' s|].
    + unfold dice_result, do_push. destruct (push _ _); [|exact Logic.I]. cbn [m_w mk].
      rewrite ops_of_set_pcg, ops_of_set_self by exact Hch. lia.
    + cbn [m_w mk]. rewrite ops_of_set_pcg, ops_of_set_self by exact Hch. split; [reflexivity|exact K3].
    + exact Logic.I.
Qed.

(* a round whose charge raises the "over" flag is not rolled: the rounds stop on the generator state that round started on *)
Lemma C07_round_over_not_rolled : forall n c addLine points threshold isGE mode pool acc ops s,
  snd (ops_add c ops pool) = true ->
  (wod_budget (S n) c addLine points threshold isGE mode pool acc ops s = ROver (fst (ops_add c ops pool)) s) /\
  (dc_budget (S n) c addLine points mode pool acc ops s = ROver (fst (ops_add c ops pool)) s) /\
  (snd (wod_budget_cnt (S n) c addLine points threshold isGE mode pool acc ops s) = 0) /\
  (snd (dc_budget_cnt (S n) c addLine points mode pool acc ops s) = 0).
Proof.
  intros n c addLine points threshold isGE mode pool acc ops s H.
  cbn [wod_budget dc_budget wod_budget_cnt dc_budget_cnt]. destruct (ops_add c ops pool) as [ops' over]. cbn [fst snd] in *. subst over.
  repeat split.
Qed.

(* ================================================================== (2) the whole run *)
(* a world a run may be started on: a running context, every counter of the chain within the budget *)
Definition OKW (L : Z) (w : world) : Prop := w_chain w <> [] /\ chain_in_budget L w.

Lemma OKW_ops : forall L w, OKW L w -> 0 <= ops_of w <= L.
Proof.
  unfold OKW, chain_in_budget, ops_of, w_self. intros L w [Hne H]. destruct (w_chain w) as [|x r]; [congruence|].
  exact (Forall_inv H).
Qed.

Lemma ops_at_0 : forall w, w_chain w <> [] -> ops_at 0 w = ops_of w.
Proof. unfold ops_at, ops_of, w_self. intros w H. destruct (w_chain w); [congruence|reflexivity]. Qed.

Lemma nth_error_chain_put_gen : forall (l : list ctx) k x rest, (k < length l)%nat ->
  nth_error (chain_put (firstn k l) x rest) k = Some x.
Proof.
  intros l k x rest Hlen. unfold chain_put.
  rewrite nth_error_app2 by (rewrite firstn_length_le; lia).
  rewrite firstn_length_le by lia. rewrite Nat.sub_diag. reflexivity.
Qed.

Section Quant.
  Variable call : machine -> result.
  Variable csub : machine -> cnt.
  Variable rfuel : nat.
  Variable E : env.
  Variable L : Z.
  Hypothesis HL : cfg_op_limit (e_cfg E) = L.
  Hypothesis HLr : 0 < L <= MaxInt64 - 100.
  Hypothesis Hcall : forall m m', run_pre m -> call m = Fin m' -> ops_of (m_w m) <= ops_of (m_w m') <= MaxInt64.
  Hypothesis Hfin : forall sub, w_chain (m_w sub) <> [] -> dice_ok (m_fr sub) -> chain_in_budget L (m_w sub) ->
    forall m', call sub = Fin m' -> chain_in_budget L (m_w m').
  (* what is known of the dice of a sub-VM: paid for by the counter of the sub-VM's context *)
  Hypothesis Hsubq : forall sub, w_chain (m_w sub) <> [] -> dice_ok (m_fr sub) -> chain_in_budget L (m_w sub) ->
    acct (csub sub) <= L - ops_of (m_w sub) /\
    (forall m', call sub = Fin m' -> acct (csub sub) <= ops_of (m_w m') - ops_of (m_w sub)).

  Lemma HLr' : 0 < L < MaxInt64. Proof. unfold MaxInt64 in *. lia. Qed.

  Lemma OKW_W : forall w, OKW L w -> W (ops_of w) w.
  Proof. intros w H. pose proof (OKW_ops _ _ H). destruct H as [Hne _]. unfold W. split; [exact Hne|]. unfold MaxInt64 in *. lia. Qed.
  Lemma OKW_PWL : forall w, OKW L w -> PWL L w.
  Proof. intros w [_ H]. apply (chain_PWL L HLr). exact H. Qed.
  Lemma OKW_of : forall c w, 0 <= c -> W c w -> PWL L w -> OKW L w.
  Proof. intros c w Hc Hw Hp. split; [exact (proj1 Hw)|exact (W_PWL_chain L c Hc w Hw Hp)]. Qed.

  (* ---- the chain invariant of the model's functions, from Proofs/VMDepth.v (depth component ignored) *)
  Let cd0 : machine -> nat := fun _ => O.
  Lemma Hsub_d : forall c sub, w_chain (m_w sub) <> [] -> c + 100 <= ops_of (m_w sub) <= L ->
    dice_ok (m_fr sub) -> chain_in_budget L (m_w sub) ->
    (S (cd0 sub) <= 1)%nat /\ (forall m', call sub = Fin m' -> chain_in_budget L (m_w m')).
  Proof. intros c sub S1 _ S3 S4. split; [unfold cd0; lia|]. apply Hfin; assumption. Qed.

  Definition CEd c (Hc : 0 <= c) := computed_execute_d_exact call cd0 E L HL HLr c Hc 1%nat (Hsub_d c).
  Definition FId c (Hc : 0 <= c) := func_invoke_d_exact call cd0 E L HL HLr c Hc 1%nat (Hsub_d c).

  Lemma ce_pwl : forall c, 0 <= c -> forall cid k w, W c w -> PWL L w ->
    (forall t, nth_error (w_chain w) k = Some t -> c <= c_ops t) -> rct (PWL L) (computed_execute call E cid k w).
  Proof.
    intros c Hc cid k w Hw Hp Hge. destruct (CEd c Hc cid k w Hw Hp (fun _ => proj1 Hp) Hge) as [P _].
    rewrite computed_execute_d_fst in P. exact P.
  Qed.
  Lemma fi_pwl : forall c, 0 <= c -> forall fid args w, W c w -> PWL L w -> rct (PWL L) (func_invoke call E fid args w).
  Proof.
    intros c Hc fid args w Hw Hp. destruct (FId c Hc fid args w Hw Hp (proj1 Hp)) as [P _].
    rewrite func_invoke_d_fst in P. exact P.
  Qed.
  Lemma ln_pwl : forall c, 0 <= c -> forall name isRaw w, W c w -> PWL L w -> rct (PWL L) (load_name call E name isRaw w).
  Proof.
    intros c Hc name isRaw w Hw Hp.
    destruct (load_name_d_inv call cd0 E L HLr Hcall c Hc 1%nat (PWL L) (PWL_sync_to L HLr c Hc) (PWL_sync_back L HLr)
                (CEd c Hc) name isRaw w Hw Hp (proj1 Hp)) as [P _].
    rewrite load_name_d_fst in P. exact P.
  Qed.
  Lemma ag_pwl : forall c, 0 <= c -> forall v name w, W c w -> PWL L w -> rct (PWL L) (attr_get call E v name w).
  Proof.
    intros c Hc v name w Hw Hp.
    destruct (attr_get_d_inv call cd0 E L HLr Hcall c Hc 1%nat (PWL L) (CEd c Hc) v name w Hw Hp (proj1 Hp)) as [P _].
    rewrite attr_get_d_fst in P. exact P.
  Qed.
  Lemma nc_pwl : forall c, 0 <= c -> forall name self args w, W c w -> PWL L w ->
    rct (PWL L) (native_call call E name self args w).
  Proof.
    intros c Hc name self args w Hw Hp.
    destruct (native_call_d_inv call cd0 E L HLr Hcall c Hc 1%nat (PWL L) (PWL_chain L) (PWL_sync_to L HLr c Hc)
                (PWL_sync_back L HLr) (CEd c Hc) name self args w Hw Hp (proj1 Hp)) as [P _].
    rewrite native_call_d_fst in P. exact P.
  Qed.

  (* ---- the quantitative invariant of one operation started on w: the result world is again a world a run may be
     started on, the running context's counter did not go down, and the dice counted were paid for by its increase *)
  Definition rokw (w : world) {A} (r : R A) : Prop :=
    match r with ROk _ w' => OKW L w' /\ ops_of w <= ops_of w' | _ => True end.
  Definition PQ {A} (w : world) (rs : RS A) : Prop :=
    rokw w (fst rs) /\
    match fst rs with
    | ROk _ w' => acct (snd rs) <= ops_of w' - ops_of w
    | _ => acct (snd rs) <= L - ops_of w
    end.

  Lemma rokw_of : forall A w (r : R A), OKW L w -> rmono (ops_of w) r -> rct (PWL L) r -> rokw w r.
  Proof.
    intros A w r Hw Hm Hp. destruct r; try exact Logic.I. cbn in *. pose proof (OKW_ops _ _ Hw).
    split; [apply (OKW_of (ops_of w)); [lia|assumption|assumption]|]. exact (proj1 (proj2 Hm)).
  Qed.

  (* an operation that starts no sub-VM *)
  Lemma PQ_plain : forall A w (r : R A), OKW L w -> rmono (ops_of w) r -> rct (PWL L) r -> PQ w (r, cz).
  Proof.
    intros A w r Hw Hm Hp. pose proof (rokw_of _ _ _ Hw Hm Hp) as Hr. pose proof (OKW_ops _ _ Hw).
    split; [exact Hr|]. cbn [fst snd]. rewrite acct_cz.
    destruct r; try lia. cbn in Hr. lia.
  Qed.
  Lemma PQ_ret : forall A w (a : A), OKW L w -> PQ w (ROk a w, cz).
  Proof.
    intros A w a Hw. split; [split; [exact Hw|lia]|]. cbn [fst snd]. rewrite acct_cz. lia.
  Qed.
  Lemma PQ_fail : forall A w (r : R A), OKW L w -> (match r with ROk _ _ => False | _ => True end) -> PQ w (r, cz).
  Proof.
    intros A w r Hw Hr. pose proof (OKW_ops _ _ Hw). destruct r; try contradiction;
      (split; [exact Logic.I|]; cbn [fst snd]; rewrite acct_cz; lia).
  Qed.

  Lemma PQ_rbinds : forall A B w (r : RS A) (k : A -> world -> RS B),
    PQ w r -> (forall a w', OKW L w' -> PQ w' (k a w')) -> PQ w (rbinds r k).
  Proof.
    intros A B w [r d] k (P1 & P3) Hk. unfold rbinds. cbn [fst snd] in *.
    destruct r as [a w'| | | |]; try (split; [exact Logic.I|exact P3]).
    cbn in P1. destruct P1 as [O1 O2]. destruct (Hk a w' O1) as (K1 & K3).
    split; cbn [fst snd]; rewrite ?acct_cadd.
    - destruct (fst (k a w')); try exact Logic.I. cbn in *. split; [exact (proj1 K1)|lia].
    - destruct (fst (k a w')); lia.
  Qed.

  (* ---- the two operations that start a sub-VM *)
  Lemma ce_q : forall c, 0 <= c -> forall cid k w, W c w -> PWL L w ->
    (forall t, nth_error (w_chain w) k = Some t -> c <= c_ops t) ->
    match fst (computed_execute_s call csub E cid k w) with
    | ROk _ w' => acct (snd (computed_execute_s call csub E cid k w)) <= ops_at k w' - c
    | _ => acct (snd (computed_execute_s call csub E cid k w)) <= L - c
    end.
  Proof.
    intros c Hc cid k w Hw Hp Hge. pose proof (W_PWL_chain L c Hc w Hw Hp) as Hch.
    assert (HcL : c <= L) by (destruct Hw as [_ Hw]; destruct Hp as [Hp _]; lia).
    unfold computed_execute_s.
    destruct (nth_error (w_chain w) k) as [t|] eqn:Hn; [|cbn [fst snd]; rewrite acct_cz; lia].
    destruct (cattrs_force cid (w_heap w)) as [mapid h1]. cbv zeta.
    destruct (limit_hit E _) eqn:Hlim; [cbn [fst snd]; rewrite acct_cz; lia|].
    destruct (f_lookup (e_ftab E) cid) as [d|]; [|cbn [fst snd]; rewrite acct_cz; lia].
    destruct (f_code d) as [body|]; [|cbn [fst snd]; rewrite acct_cz; lia].
    assert (Ht : c <= c_ops t <= L).
    { split; [apply Hge; reflexivity|]. exact (proj2 (Forall_nth_error _ _ _ _ _ Hch Hn)). }
    destruct (sub_start_exact E L HL HLr c Hc _ Ht Hlim) as [Hr Hle]. rewrite Hr in *.
    match goal with |- context [call ?s] => set (sub := s) end.
    destruct (Hsubq sub) as (Q1 & Q2).
    { cbn. discriminate. }
    { constructor. }
    { unfold chain_in_budget. cbn [sub m_w w_chain w_set_chain].
      constructor; [cbn [c_ops]; lia|]. constructor; [cbn [c_ops]; lia|]. apply Forall_skipn'. exact Hch. }
    change (ops_of (m_w sub)) with (c_ops t + 100) in Q1, Q2.
    cbn [fst snd].
    destruct (call sub) as [m'|e m'| | |] eqn:Hcs; try lia.
    - specialize (Q2 m' eq_refl). unfold ops_of, w_self in Q2.
      destruct (w_chain (m_w m')) as [|s' [|t' rest']] eqn:Hc'; try lia.
      cbv zeta. unfold ops_at. cbn [w_chain w_set_chain].
      rewrite nth_error_chain_put_gen by (apply nth_error_Some; congruence). cbn [c_ops hd] in *. lia.
    - destruct (w_chain (m_w m')) as [|s' [|t' rest']]; lia.
  Qed.

  Lemma fi_q : forall fid args w, OKW L w -> PQ w (func_invoke_s call csub E fid args w).
  Proof.
    intros fid args w Hok. pose proof (OKW_W _ Hok) as Hw. pose proof (OKW_PWL _ Hok) as Hp. pose proof (OKW_ops _ _ Hok) as Hops.
    assert (Hc : 0 <= ops_of w) by lia.
    split.
    - rewrite func_invoke_s_fst. apply rokw_of; [exact Hok| |exact (fi_pwl _ Hc fid args w Hw Hp)].
      apply (func_invoke_mono call E L HLr Hcall _ Hc); [exact Hw|lia].
    - unfold func_invoke_s.
      destruct (f_lookup (e_ftab E) fid) as [d|]; [|cbn [fst snd]; rewrite acct_cz; lia].
      destruct (w_chain w) as [|self ups] eqn:Hcw; [cbn [fst snd]; rewrite acct_cz; lia|].
      destruct (negb _); [cbn [fst snd]; rewrite acct_cz; lia|].
      destruct (alloc_map _ _) as [mapid h1]. cbv zeta.
      destruct (limit_hit E _) eqn:Hlim; [cbn [fst snd]; rewrite acct_cz; lia|].
      destruct (f_code d) as [body|]; [|cbn [fst snd]; rewrite acct_cz; lia].
      destruct Hok as [_ Hch]. unfold chain_in_budget in Hch. rewrite Hcw in Hch.
      pose proof (Forall_inv Hch) as Hself. cbv beta in Hself. pose proof (Forall_inv_tail Hch) as Hups.
      assert (Ht : 0 <= c_ops self <= L) by lia.
      assert (Hos : ops_of w = c_ops self) by (unfold ops_of, w_self; rewrite Hcw; reflexivity).
      destruct (sub_start_exact E L HL HLr 0 ltac:(lia) _ Ht Hlim) as [Hr Hle]. rewrite Hr in *.
      match goal with |- context [call ?s] => set (sub := s) end.
      destruct (Hsubq sub) as (Q1 & Q2).
      { cbn. discriminate. }
      { constructor. }
      { unfold chain_in_budget. cbn [sub m_w w_chain w_set_chain].
        constructor; [cbn [c_ops]; lia|]. constructor; [cbn [c_ops]; lia|]. exact Hups. }
      change (ops_of (m_w sub)) with (c_ops self + 100) in Q1, Q2.
      cbn [fst snd].
      destruct (call sub) as [m'|e m'| | |] eqn:Hcs; try lia.
      + specialize (Q2 m' eq_refl). unfold ops_of at 1, w_self in Q2.
        destruct (w_chain (m_w m')) as [|s' [|t' rest']] eqn:Hc'; try lia.
        cbv zeta. unfold ops_of at 1, w_self. cbn [w_chain w_set_chain hd c_ops] in *. lia.
      + destruct (w_chain (m_w m')) as [|s' [|t' rest']]; lia.
  Qed.

  (* carrying the counter back: the running context's counter is then at least that of the calling context *)
  Lemma sync_back_at : forall k w, w_chain w <> [] -> PWL L w -> ops_at k w <= ops_of (sync_back k w).
  Proof.
    intros k w Hne Hp. destruct k as [|k]; [cbn [sync_back]; rewrite ops_at_0 by exact Hne; lia|].
    unfold sync_back. cbv zeta.
    assert (Hv : wrap64 (ops_at (S k) w) = ops_at (S k) w).
    { destruct Hp as [_ Ht]. unfold ops_at. destruct (w_chain w) as [|x r]; [congruence|]. cbn [tl nth_error] in *.
      destruct (nth_error r k) as [t|] eqn:Hk.
      - pose proof (Forall_nth_error _ _ _ _ _ Ht Hk) as Hb. cbv beta in Hb.
        apply wrap64_id. unfold in_i64, two63, MaxInt64 in *. lia.
      - apply wrap64_id. unfold in_i64, two63. lia. }
    rewrite Hv. destruct (ops_at 0 w <? ops_at (S k) w) eqn:Hlt.
    - unfold set_ops_at. unfold ops_of, w_self. destruct (w_chain w) as [|x r] eqn:Hcw; [congruence|].
      cbn [nth_error]. cbn [w_chain w_set_chain firstn chain_put app hd c_ops]. lia.
    - apply Z.ltb_ge in Hlt. rewrite ops_at_0 in Hlt by exact Hne. exact Hlt.
  Qed.

  Lemma sync_ok : forall k w, OKW L w ->
    OKW L (sync_to k w) /\ W (ops_of w) (sync_to k w) /\ PWL L (sync_to k w).
  Proof.
    intros k w Hok. pose proof (OKW_W _ Hok) as Hw. pose proof (OKW_PWL _ Hok) as Hp. pose proof (OKW_ops _ _ Hok) as Hops.
    assert (Hc : 0 <= ops_of w) by lia.
    pose proof (W_sync_to _ k w Hw) as Hw0. pose proof (PWL_sync_to L HLr _ Hc k w Hw Hp) as Hp0.
    split; [exact (OKW_of _ _ Hc Hw0 Hp0)|]. split; assumption.
  Qed.

  (* the first half of one step of load_walk: the value found in context k, computed by that context if need be *)
  Lemma lw_first : forall k w c (x : RS value), OKW L w -> nth_error (w_chain w) k = Some c ->
    (exists v, x = (ROk v (sync_to k w), cz)) \/ (exists cid, x = computed_execute_s call csub E cid k (sync_to k w)) ->
    PQ w (rmapws (sync_back k) x).
  Proof.
    intros k w c x Hok Hn Hx. pose proof (OKW_W _ Hok) as Hw. pose proof (OKW_ops _ _ Hok) as Hops.
    assert (Hc : 0 <= ops_of w) by lia.
    destruct (sync_ok k w Hok) as (Hok0 & Hw0 & Hp0).
    assert (Hback : forall w', W (ops_of w) w' -> PWL L w' ->
              OKW L (sync_back k w') /\ ops_of w <= ops_of (sync_back k w') /\ ops_at k w' <= ops_of (sync_back k w')).
    { intros w' Hw' Hp'. pose proof (W_sync_back _ k w' Hw') as Hwb. pose proof (PWL_sync_back L HLr k w' Hp') as Hpb.
      split; [exact (OKW_of _ _ Hc Hwb Hpb)|]. split; [exact (proj1 (proj2 Hwb))|].
      apply sync_back_at; [exact (proj1 Hw')|exact Hp']. }
    destruct Hx as [[v ->]|[cid ->]].
    - unfold rmapws. cbn [fst snd rmapw]. destruct (Hback _ Hw0 Hp0) as (B1 & B2 & _).
      split; [split; assumption|]. cbn [fst snd]. rewrite acct_cz. lia.
    - assert (Hge : forall t, nth_error (w_chain (sync_to k w)) k = Some t -> ops_of w <= c_ops t)
        by (intros t Ht; exact (sync_to_ge _ _ _ _ Hw Hn _ Ht)).
      pose proof (ce_q _ Hc cid k _ Hw0 Hp0 Hge) as Q.
      pose proof (ce_pwl _ Hc cid k _ Hw0 Hp0 Hge) as Hpw.
      assert (Hmo : rmono (ops_of w) (computed_execute call E cid k (sync_to k w))).
      { apply (computed_execute_mono call E L HLr Hcall _ Hc); [exact Hw0|]. intros _. exact (proj1 Hp0). }
      unfold rmapws, PQ. cbn [fst snd]. rewrite computed_execute_s_fst in *.
      destruct (computed_execute call E cid k (sync_to k w)) as [a w'| | | |]; cbn [rmapw rokw];
        try (split; [exact Logic.I|lia]).
      cbn in Hmo, Hpw. destruct (Hback _ Hmo Hpw) as (B1 & B2 & B3).
      split; [split; assumption|lia].
  Qed.

  Lemma lw_q : forall n k name isRaw w, OKW L w -> PQ w (load_walk_s call csub E n k name isRaw w).
  Proof.
    induction n as [|n IH]; intros k name isRaw w Hok; cbn [load_walk_s]; [apply PQ_ret; exact Hok|].
    destruct (nth_error (w_chain w) k) as [c|] eqn:Hn; [|apply PQ_ret; exact Hok]. cbv zeta.
    apply PQ_rbinds.
    - apply (lw_first k w c); [exact Hok|exact Hn|].
      destruct (match mget name _ with Some v => v | None => VNull end); try (left; eexists; reflexivity).
      destruct isRaw; [left; eexists; reflexivity|right; eexists; reflexivity].
    - intros v w' Hok'. destruct v; try (apply PQ_ret; exact Hok'). apply IH. exact Hok'.
  Qed.

  Lemma ln_q : forall name isRaw w, OKW L w -> PQ w (load_name_s call csub E name isRaw w).
  Proof. intros; apply lw_q; assumption. Qed.

  (* a computed value evaluated by the running context itself *)
  Lemma ce0_q : forall cid w, OKW L w -> PQ w (computed_execute_s call csub E cid 0 w).
  Proof.
    intros cid w Hok. pose proof (OKW_W _ Hok) as Hw. pose proof (OKW_PWL _ Hok) as Hp. pose proof (OKW_ops _ _ Hok) as Hops.
    assert (Hc : 0 <= ops_of w) by lia.
    assert (Hge : forall t, nth_error (w_chain w) 0 = Some t -> ops_of w <= c_ops t).
    { intros t Ht. unfold ops_of, w_self. destruct (w_chain w); [discriminate|]. cbn in Ht. injection Ht as <-. cbn. lia. }
    pose proof (ce_q _ Hc cid 0%nat w Hw Hp Hge) as Q.
    pose proof (ce_pwl _ Hc cid 0%nat w Hw Hp Hge) as Hpw.
    assert (Hmo : rmono (ops_of w) (computed_execute call E cid 0 w)).
    { apply (computed_execute_mono call E L HLr Hcall _ Hc); [exact Hw|]. intros _. lia. }
    pose proof (rokw_of _ _ _ Hok Hmo Hpw) as Hr.
    unfold PQ. rewrite computed_execute_s_fst in *. split; [exact Hr|].
    destruct (computed_execute call E cid 0 w) as [a w'| | | |]; try exact Q.
    cbn in Hr. rewrite ops_at_0 in Q by exact (proj1 (proj1 Hr)). exact Q.
  Qed.

  Lemma ll_q : forall name w, OKW L w -> PQ w (load_local_s call csub E name w).
  Proof.
    intros name w Hok. unfold load_local_s. cbv zeta.
    destruct (match mget name _ with Some v => v | None => VNull end); try (apply PQ_ret; exact Hok). apply ce0_q; exact Hok.
  Qed.

  Lemma ag_q : forall v name w, OKW L w -> PQ w (attr_get_s call csub E v name w).
  Proof.
    intros v name w Hok. pose proof (OKW_W _ Hok) as Hw. pose proof (OKW_PWL _ Hok) as Hp. pose proof (OKW_ops _ _ Hok) as Hops.
    assert (Hc : 0 <= ops_of w) by lia.
    assert (Hplain : PQ w (attr_get call E v name w, cz)).
    { apply PQ_plain; [exact Hok| |exact (ag_pwl _ Hc v name w Hw Hp)].
      apply (attr_get_mono call E L HLr Hcall _ Hc); [exact Hw|lia]. }
    destruct v; try exact Hplain. cbn [attr_get_s].
    apply PQ_rbinds; [apply ll_q; exact Hok|]. intros x w' Hok'. apply PQ_ret. exact Hok'.
  Qed.

  Lemma nc_q : forall name self args w, OKW L w -> PQ w (native_call_s call csub E name self args w).
  Proof.
    intros name self args w Hok. pose proof (OKW_W _ Hok) as Hw. pose proof (OKW_PWL _ Hok) as Hp. pose proof (OKW_ops _ _ Hok) as Hops.
    assert (Hc : 0 <= ops_of w) by lia.
    unfold native_call_s. destruct (native_sig name) as [np defaults]. cbv zeta.
    destruct (negb _); [apply PQ_fail; [exact Hok|exact Logic.I]|].
    destruct (String.eqb name "load").
    { destruct (nth 0 _ VNull); try (apply PQ_fail; [exact Hok|exact Logic.I]). apply ln_q; exact Hok. }
    destruct (String.eqb name "loadRaw").
    { destruct (nth 0 _ VNull); try (apply PQ_fail; [exact Hok|exact Logic.I]). apply ln_q; exact Hok. }
    destruct (String.eqb name "Computed.compute").
    { destruct self; try (apply PQ_fail; [exact Hok|exact Logic.I]). apply ce0_q; exact Hok. }
    apply PQ_plain; [exact Hok| |exact (nc_pwl _ Hc name self args w Hw Hp)].
    apply (native_call_mono call E L HLr Hcall _ Hc); [exact Hw|lia].
  Qed.

  (* ---- one instruction: the dice it rolls itself + those of the sub-VMs it starts are paid for by the increase of
     the running context's counter, + the 1 the loop head has charged for the instruction itself *)
  Definition SQ (c : Z) (d : cnt) (r : sresult) : Prop :=
    match r with
    | SNext m2 | SStop m2 => acct d <= ops_of (m_w m2) - c + 1
    | _ => acct d <= L - c + 1
    end.

  Definition sworld (r : sresult) (w1 : world) : Prop :=
    match r with SNext m | SStop m | SFail _ m => m_w m = w1 | _ => True end.

  Lemma sworld_do_push : forall v fr w, sworld (do_push v fr w) w.
  Proof. intros; unfold do_push. destruct (push v fr); cbn; [reflexivity|exact Logic.I]. Qed.

  Lemma SQ_cz_l : forall c x r, SQ c x r -> SQ c (cadd cz x) r.
  Proof. intros c x r H. exact H. Qed.
  Lemma SQ_cz_r : forall c x r, SQ c x r -> SQ c (cadd x cz) r.
  Proof. intros c x r H. unfold cadd, cz. rewrite Nat.add_0_r. exact H. Qed.

  Lemma SQ_same : forall r w, OKW L w -> sworld r w -> SQ (ops_of w) cz r.
  Proof.
    intros r w Hok Hs. pose proof (OKW_ops _ _ Hok). unfold SQ. rewrite acct_cz.
    destruct r; cbn in Hs; subst; lia.
  Qed.

  Lemma SQ_of_Q2 : forall w r, OKW L w -> Q2 (ops_of w) r -> SQ (ops_of w) cz r.
  Proof.
    intros w r Hok HQ. pose proof (OKW_ops _ _ Hok). unfold SQ. rewrite acct_cz.
    destruct r; cbn in HQ; try lia.
    - destruct HQ as [[_ HQ] _]. lia.
    - destruct HQ as [_ HQ]. lia.
  Qed.

  Lemma SQ_lift : forall A (rs : RS A) fr k w, OKW L w -> PQ w rs -> (forall a w1, sworld (k a w1) w1) ->
    SQ (ops_of w) (snd rs) (lift (fst rs) fr k).
  Proof.
    intros A [r d] fr k w Hok (P1 & P3) Hk. cbn [fst snd] in *. pose proof (OKW_ops _ _ Hok).
    unfold SQ. destruct r as [a w1|e w1| | |]; cbn [lift]; try lia.
    cbn in P1. destruct P1 as [O1 O2]. pose proof (OKW_ops _ _ O1). unfold check_err.
    destruct (fr_err fr); [lia|]. specialize (Hk a w1). destruct (k a w1); cbn in Hk; subst; lia.
  Qed.

  Lemma step_q_invoke : forall o m, OKW L (m_w m) ->
    SQ (ops_of (m_w m)) (cadd (step_own rfuel E (I OpInvoke o) m) (step_sub call csub E (I OpInvoke o) m))
       (step call rfuel E (I OpInvoke o) m).
  Proof.
    intros o m Hok. unfold step, step_own, step_sub; cbn [i_op i_arg]. apply SQ_cz_l.
    unfold arg_int, with_pop_n, with_pop.
    destruct o; try (apply SQ_same; [exact Hok|exact Logic.I]).
    destruct (pop_n z (m_fr m)) as [args fr1]. destruct (pop fr1) as [f fr2].
    destruct f; try (apply SQ_same; [exact Hok|reflexivity]).
    - rewrite <- (func_invoke_s_fst call csub E). apply SQ_lift; [exact Hok|apply fi_q; exact Hok|].
      intros; apply sworld_do_push.
    - rewrite <- (native_call_s_fst call csub E). apply SQ_lift; [exact Hok|apply nc_q; exact Hok|].
      intros; apply sworld_do_push.
  Qed.

  Lemma step_q_attrget : forall o m, OKW L (m_w m) ->
    SQ (ops_of (m_w m)) (cadd (step_own rfuel E (I OpAttrGet o) m) (step_sub call csub E (I OpAttrGet o) m))
       (step call rfuel E (I OpAttrGet o) m).
  Proof.
    intros o m Hok. unfold step, step_own, step_sub; cbn [i_op i_arg]. apply SQ_cz_l.
    unfold arg_str, with_pop. destruct (pop (m_fr m)) as [obj fr1].
    destruct o; try (apply SQ_same; [exact Hok|exact Logic.I]).
    rewrite <- (attr_get_s_fst call csub E). apply SQ_lift; [exact Hok|apply ag_q; exact Hok|].
    intros r w1. destruct r; [apply sworld_do_push|reflexivity].
  Qed.

  Lemma step_q_ld : forall op, In op [OpLd; OpLdRaw; OpLdD] -> forall o m, OKW L (m_w m) ->
    SQ (ops_of (m_w m)) (cadd (step_own rfuel E (I op o) m) (step_sub call csub E (I op o) m))
       (step call rfuel E (I op o) m).
  Proof.
    intros op Hin o m Hok. cbn [In] in Hin.
    repeat (destruct Hin as [<-|Hin];
      [unfold step, step_own, step_sub; cbn [i_op i_arg]; apply SQ_cz_l; unfold arg_str;
       destruct o; try (apply SQ_same; [exact Hok|exact Logic.I]);
       rewrite <- (load_name_s_fst call csub E); apply SQ_lift; [exact Hok|apply ln_q; exact Hok|];
       intros; apply sworld_do_push|]).
    contradiction.
  Qed.

  (* ---- the dice opcodes *)
  Lemma SQ_dice_result : forall c d z fr w, acct d <= ops_of w - c + 1 -> ops_of w <= L ->
    SQ c d (dice_result z fr w).
  Proof.
    intros c d z fr w Ha Hl. unfold dice_result, do_push, SQ.
    destruct (push _ _); [cbn [m_w mk]; exact Ha|lia].
  Qed.

  Lemma acct_dice : forall n : nat, acct n = Z.of_nat n.
  Proof. reflexivity. Qed.

  Lemma step_q_dice : forall o m, OKW L (m_w m) -> dice_ok (m_fr m) ->
    SQ (ops_of (m_w m)) (cadd (step_own rfuel E (I OpDice o) m) (step_sub call csub E (I OpDice o) m))
       (step call rfuel E (I OpDice o) m).
  Proof.
    intros o m Hok Hd. pose proof (OKW_ops _ _ Hok) as Hops. destruct Hok as [Hne Hch].
    assert (Hops' : 0 <= ops_of (m_w m) <= MaxInt64) by (unfold MaxInt64 in *; lia).
    assert (Hz : forall r, match r with SNext _ | SStop _ => False | _ => True end -> SQ (ops_of (m_w m)) cz r)
      by (intros r Hr; unfold SQ; rewrite acct_cz; destruct r; try contradiction; lia).
    unfold step, step_own, step_sub; cbn [i_op i_arg].
    replace (match o with OInt _ | _ => cz end) with cz by (destruct o; reflexivity). apply SQ_cz_r.
    destruct (fr_dice (m_fr m)) as [|d rest] eqn:Hfd; [apply Hz; unfold need_dice; rewrite Hfd; exact Logic.I|].
    assert (Ht : 0 <= d_times d) by (unfold dice_ok in Hd; rewrite Hfd in Hd; exact (Forall_inv Hd)).
    unfold with_pop. destruct (pop (m_fr m)) as [v fr1]. cbn [fst].
    destruct v; try (apply Hz; exact Logic.I).
    repeat match goal with |- SQ _ (if ?b then cz else _) (if ?b then _ else _) => destruct b; [apply Hz; exact Logic.I|] end.
    rewrite add_ops_spec. destruct (over_by E (m_w m) (d_times d)) eqn:Ho; [apply Hz; exact Logic.I|].
    destruct (dice_cap <? d_times d); [apply Hz; exact Logic.I|].
    destruct (charged_ops_in E L (m_w m) (d_times d) HL HLr' Hne Hops' Ht Ho) as [C1 C2].
    destruct (roll_common _ _ _ _ _ _ _ _ _ _ _) as [[[num x] s]|];
      [|unfold SQ; rewrite acct_dice, Z2Nat.id by exact Ht; lia].
    apply SQ_dice_result; rewrite ?acct_dice, ?Z2Nat.id by exact Ht; rewrite ops_of_set_pcg; lia.
  Qed.

  Lemma step_q_coc : forall op, In op [OpCocBonus; OpCocPenalty] -> forall o m, OKW L (m_w m) ->
    SQ (ops_of (m_w m)) (cadd (step_own rfuel E (I op o) m) (step_sub call csub E (I op o) m))
       (step call rfuel E (I op o) m).
  Proof.
    intros op Hin o m Hok. pose proof (OKW_ops _ _ Hok) as Hops. destruct Hok as [Hne Hch].
    assert (Hops' : 0 <= ops_of (m_w m) <= MaxInt64) by (unfold MaxInt64 in *; lia).
    assert (Hz : forall r, match r with SNext _ | SStop _ => False | _ => True end -> SQ (ops_of (m_w m)) cz r)
      by (intros r Hr; unfold SQ; rewrite acct_cz; destruct r; try contradiction; lia).
    cbn [In] in Hin.
    repeat (destruct Hin as [<-|Hin];
      [unfold step, step_own, step_sub; cbn [i_op i_arg];
       replace (match o with OInt _ | _ => cz end) with cz by (destruct o; reflexivity); apply SQ_cz_r;
       unfold with_pop, with_int; destruct (pop (m_fr m)) as [v fr1]; cbn [fst];
       destruct v; try (apply Hz; exact Logic.I);
       (destruct (z <? 0) eqn:Hn; [apply Hz; exact Logic.I|]); apply Z.ltb_ge in Hn;
       rewrite add_ops_spec; (destruct (over_by E (m_w m) z) eqn:Ho; [apply Hz; exact Logic.I|]);
       (destruct (dice_cap <? z); [apply Hz; exact Logic.I|]);
       destruct (charged_ops_in E L (m_w m) z HL HLr' Hne Hops' Hn Ho) as [C1 C2];
       (destruct (roll_coc _ _ _ _ _ _) as [[[num x] s]|];
         [|unfold SQ; rewrite acct_dice, Nat2Z.inj_succ, Z2Nat.id by exact Hn; lia]);
       apply SQ_dice_result; rewrite ?acct_dice, ?Nat2Z.inj_succ, ?Z2Nat.id by exact Hn;
       rewrite ops_of_set_pcg; lia|]).
    contradiction.
  Qed.

  Lemma step_q_fate : forall o m, OKW L (m_w m) ->
    SQ (ops_of (m_w m)) (cadd (step_own rfuel E (I OpDiceFate o) m) (step_sub call csub E (I OpDiceFate o) m))
       (step call rfuel E (I OpDiceFate o) m).
  Proof.
    intros o m Hok. pose proof (OKW_ops _ _ Hok) as Hops. destruct Hok as [Hne Hch].
    assert (Hops' : 0 <= ops_of (m_w m) <= MaxInt64) by (unfold MaxInt64 in *; lia).
    assert (Hz : forall r, match r with SNext _ | SStop _ => False | _ => True end -> SQ (ops_of (m_w m)) cz r)
      by (intros r Hr; unfold SQ; rewrite acct_cz; destruct r; try contradiction; lia).
    unfold step, step_own, step_sub; cbn [i_op i_arg].
    replace (match o with OInt _ | _ => cz end) with cz by (destruct o; reflexivity). apply SQ_cz_r.
    rewrite add_ops_spec. destruct (over_by E (m_w m) 4) eqn:Ho; [apply Hz; exact Logic.I|].
    assert (H4 : 0 <= 4) by lia.
    destruct (charged_ops_in E L (m_w m) 4 HL HLr' Hne Hops' H4 Ho) as [C1 C2].
    change (acct 4%nat) with 4 in *.
    destruct (roll_fate _ _ _ _) as [[[sum x] s]|]; [|unfold SQ; change (acct 4%nat) with 4; lia].
    apply SQ_dice_result; [change (acct 4%nat) with 4|]; rewrite ops_of_set_pcg; lia.
  Qed.

  Lemma step_q_wod : forall o m, OKW L (m_w m) ->
    SQ (ops_of (m_w m)) (cadd (step_own rfuel E (I OpDiceWod o) m) (step_sub call csub E (I OpDiceWod o) m))
       (step call rfuel E (I OpDiceWod o) m).
  Proof.
    intros o m Hok. pose proof (OKW_ops _ _ Hok) as Hops. destruct Hok as [Hne Hch].
    assert (Hops' : 0 <= ops_of (m_w m) <= MaxInt64) by (unfold MaxInt64 in *; lia).
    assert (Hz : forall r, match r with SNext _ | SStop _ => False | _ => True end -> SQ (ops_of (m_w m)) cz r)
      by (intros r Hr; unfold SQ; rewrite acct_cz; destruct r; try contradiction; lia).
    unfold step, step_own, step_sub; cbn [i_op i_arg].
    replace (match o with OInt _ | _ => cz end) with cz by (destruct o; reflexivity). apply SQ_cz_r.
    unfold with_pop, with_int. destruct (pop (m_fr m)) as [v fr1]. destruct v; try (apply Hz; exact Logic.I). cbv beta iota zeta.
    destruct (negb (wod_check _ _ _ _)) eqn:Hc; [apply Hz; exact Logic.I|]. apply wod_check_pool in Hc.
    change (c_ops (w_self (m_w m))) with (ops_of (m_w m)).
    match goal with |- context [wod_budget_cnt ?a ?b ?c ?d ?e ?f ?g ?h ?i ?j ?k] =>
      pose proof (C07_wod_rounds_charged b L c d e f g HL HLr' a h i j k Hops' Hc) as Hr;
      pose proof (wod_budget_cnt_fst a b c d e f g h i j k) as Hf;
      destruct (wod_budget_cnt a b c d e f g h i j k) as [r k0] end.
    cbn [fst snd] in *. rewrite <- Hf. unfold rounds_charged in Hr. destruct Hr as (K1 & K2 & K3).
    destruct r as [total ops' s|ops' s|].
    - apply SQ_dice_result; rewrite ?acct_dice, ?Z2Nat.id by exact K1;
        rewrite ops_of_set_pcg, ops_of_set_self by exact Hne; lia.
    - unfold SQ. rewrite acct_dice, Z2Nat.id by exact K1. lia.
    - unfold SQ. rewrite acct_dice, Z2Nat.id by exact K1. lia.
  Qed.

  Lemma step_q_dc : forall o m, OKW L (m_w m) ->
    SQ (ops_of (m_w m)) (cadd (step_own rfuel E (I OpDiceDC o) m) (step_sub call csub E (I OpDiceDC o) m))
       (step call rfuel E (I OpDiceDC o) m).
  Proof.
    intros o m Hok. pose proof (OKW_ops _ _ Hok) as Hops. destruct Hok as [Hne Hch].
    assert (Hops' : 0 <= ops_of (m_w m) <= MaxInt64) by (unfold MaxInt64 in *; lia).
    assert (Hz : forall r, match r with SNext _ | SStop _ => False | _ => True end -> SQ (ops_of (m_w m)) cz r)
      by (intros r Hr; unfold SQ; rewrite acct_cz; destruct r; try contradiction; lia).
    unfold step, step_own, step_sub; cbn [i_op i_arg].
    replace (match o with OInt _ | _ => cz end) with cz by (destruct o; reflexivity). apply SQ_cz_r.
    unfold with_pop, with_int. destruct (pop (m_fr m)) as [v fr1]. destruct v; try (apply Hz; exact Logic.I). cbv beta iota zeta.
    destruct (negb (dc_check _ _ _)) eqn:Hc; [apply Hz; exact Logic.I|]. apply dc_check_pool in Hc.
    change (c_ops (w_self (m_w m))) with (ops_of (m_w m)).
    match goal with |- context [dc_budget_cnt ?a ?b ?c ?d ?e ?f ?g ?h ?i] =>
      pose proof (C07_dc_rounds_charged b L c d e HL HLr' a f g h i Hops' Hc) as Hr;
      pose proof (dc_budget_cnt_fst a b c d e f g h i) as Hf;
      destruct (dc_budget_cnt a b c d e f g h i) as [r k0] end.
    cbn [fst snd] in *. rewrite <- Hf. unfold rounds_charged in Hr. destruct Hr as (K1 & K2 & K3).
    destruct r as [total ops' s|ops' s|].
    - apply SQ_dice_result; rewrite ?acct_dice, ?Z2Nat.id by exact K1;
        rewrite ops_of_set_pcg, ops_of_set_self by exact Hne; lia.
    - unfold SQ. rewrite acct_dice, Z2Nat.id by exact K1. lia.
    - unfold SQ. rewrite acct_dice, Z2Nat.id by exact K1. lia.
  Qed.

  Theorem step_q : forall op o m, OKW L (m_w m) -> dice_ok (m_fr m) ->
    SQ (ops_of (m_w m)) (cadd (step_own rfuel E (I op o) m) (step_sub call csub E (I op o) m))
       (step call rfuel E (I op o) m).
  Proof.
    intros op o m Hok Hd. pose proof (OKW_W _ Hok) as Hw. pose proof (OKW_ops _ _ Hok) as Hops.
    assert (Hc : 0 <= ops_of (m_w m)) by lia.
    pose proof (step_ops_mono call rfuel E L HL HLr Hcall _ Hc op o m Hw (proj2 Hops) Hd) as HQ.
    destruct op;
      lazymatch goal with
      | |- SQ _ _ (step _ _ _ (I ?op0 _) _) =>
        lazymatch op0 with
        | OpInvoke => apply step_q_invoke; assumption
        | OpAttrGet => apply step_q_attrget; assumption
        | OpLd => apply step_q_ld; [cbn; tauto|assumption]
        | OpLdRaw => apply step_q_ld; [cbn; tauto|assumption]
        | OpLdD => apply step_q_ld; [cbn; tauto|assumption]
        | OpDice => apply step_q_dice; assumption
        | OpCocBonus => apply step_q_coc; [cbn; tauto|assumption]
        | OpCocPenalty => apply step_q_coc; [cbn; tauto|assumption]
        | OpDiceFate => apply step_q_fate; assumption
        | OpDiceWod => apply step_q_wod; assumption
        | OpDiceDC => apply step_q_dc; assumption
        | _ => unfold step_own, step_sub; cbn [i_op i_arg];
               replace (match o with OInt _ | _ => cz end) with cz by (destruct o; reflexivity);
               apply SQ_cz_l; apply SQ_of_Q2; assumption
        end
      end.
  Qed.

  (* the chain invariant of one instruction (VMSafety.step_ops_mono + VMDepth.step_inv_all) *)
  Lemma step_okw : forall op o m, OKW L (m_w m) -> dice_ok (m_fr m) ->
    match step call rfuel E (I op o) m with
    | SNext m2 => OKW L (m_w m2) /\ dice_ok (m_fr m2)
    | SStop m2 => OKW L (m_w m2)
    | _ => True
    end.
  Proof.
    intros op o m Hok Hd. pose proof (OKW_W _ Hok) as Hw. pose proof (OKW_PWL _ Hok) as Hp. pose proof (OKW_ops _ _ Hok) as Hops.
    assert (Hc : 0 <= ops_of (m_w m)) by lia.
    pose proof (step_ops_mono call rfuel E L HL HLr Hcall _ Hc op o m Hw (proj2 Hops) Hd) as HQ.
    destruct (step_inv_all call cd0 rfuel E L HL HLr Hcall _ Hc 1%nat (PWL L)
                (PWL_chain L) (PWL_set L) (PWL_sync_to L HLr _ Hc) (PWL_sync_back L HLr)
                (CEd _ Hc) (FId _ Hc) op o m Hw Hp (proj2 Hops)) as [HT _].
    destruct (step call rfuel E (I op o) m) as [m2|m2|e m2|s| |s]; try exact Logic.I; cbn [Q2 QT] in HQ, HT.
    - destruct HQ as [W1 D2]. split; [exact (OKW_of _ _ Hc W1 HT)|exact D2].
    - exact (OKW_of _ _ Hc HQ HT).
  Qed.
End Quant.

(* ================================================================== the run *)
Lemma exec_dice_aux : forall E L, cfg_op_limit (e_cfg E) = L -> 0 < L <= MaxInt64 - 100 ->
  forall fuel m, w_chain (m_w m) <> [] -> dice_ok (m_fr m) -> chain_in_budget L (m_w m) ->
  acct (snd (exec_dice fuel E m)) <= L - ops_of (m_w m) /\
  (forall m', fst (exec_dice fuel E m) = Fin m' -> acct (snd (exec_dice fuel E m)) <= ops_of (m_w m') - ops_of (m_w m)).
Proof.
  intros E L HL HLr. induction fuel as [|f IH]; intros m Hch Hdice HCH.
  - assert (Hops : 0 <= ops_of (m_w m) <= L) by (apply OKW_ops; split; assumption).
    cbn [exec_dice snd fst]. rewrite acct_cz. split; [lia|discriminate].
  - assert (Hops : 0 <= ops_of (m_w m) <= L) by (apply OKW_ops; split; assumption).
    assert (Hz2 : acct cz <= L - ops_of (m_w m)) by (rewrite acct_cz; lia).
    cbn [exec_dice].
    destruct (zlen (fr_code (m_fr m)) <=? fr_pc (m_fr m)).
    { cbn [snd fst]. rewrite acct_cz. split; [lia|].
      destruct (fr_err (m_fr m)); [discriminate|]. intros m' [= <-]. lia. }
    rewrite count_op_spec.
    assert (Hops' : 0 <= ops_of (m_w m) <= MaxInt64) by (unfold MaxInt64 in *; lia).
    destruct (ops_add (e_cfg E) (ops_of (m_w m)) 1) as [new over] eqn:Ha. cbn [snd fst].
    assert (H01 : 0 <= 1) by lia.
    destruct (C07_ops_add_spec _ _ _ _ _ Hops' H01 Ha) as (A1 & A2 & A3 & A4).
    destruct over; [cbn [snd fst]; split; [exact Hz2|discriminate]|].
    assert (Hnew : new = ops_of (m_w m) + 1 /\ new <= L).
    { assert (~ (0 < cfg_op_limit (e_cfg E) /\ cfg_op_limit (e_cfg E) < new)) by (intros X; apply A4 in X; discriminate).
      unfold MaxInt64 in *. lia. }
    destruct Hnew as [Hn1 Hn2].
    destruct (fr_err (m_fr m)); [cbn [snd fst]; split; [exact Hz2|discriminate]|].
    destruct (fr_top (m_fr m) =? stack_size); [cbn [snd fst]; split; [exact Hz2|discriminate]|].
    destruct (fr_pc (m_fr m) <? 0); [cbn [snd fst]; split; [exact Hz2|discriminate]|].
    destruct (nth_error _ _) as [[op o]|]; [|cbn [snd fst]; split; [exact Hz2|discriminate]]. cbv zeta.
    assert (Hm1 : ops_of (m_w (counted E m)) = new) by (rewrite counted_ops by exact Hch; rewrite Ha; reflexivity).
    assert (Hch1 : w_chain (m_w (counted E m)) <> []).
    { unfold counted, w_set_self_ops; cbn [m_w]. destruct (w_chain (m_w m)); [congruence|discriminate]. }
    assert (Hnew0 : 0 <= new) by lia.
    assert (HW : W new (m_w (counted E m))) by (unfold W; rewrite Hm1; split; [exact Hch1|unfold MaxInt64 in *; lia]).
    assert (HPW : PWL L (m_w (counted E m))).
    { unfold counted; cbn [m_w]. apply (PWL_set L); [rewrite Ha; exact Hn2|]. apply (chain_PWL L HLr). exact HCH. }
    assert (Hok1 : OKW L (m_w (counted E m))) by (split; [exact Hch1|exact (W_PWL_chain L new Hnew0 _ HW HPW)]).
    assert (Hcall : forall m0 m', run_pre m0 -> exec f E m0 = Fin m' -> ops_of (m_w m0) <= ops_of (m_w m') <= MaxInt64)
      by (intros m0 m' P0; apply (C07_counter_never_lowered E L HL HLr f m0 m' P0)).
    assert (Hfin : forall sub, w_chain (m_w sub) <> [] -> dice_ok (m_fr sub) -> chain_in_budget L (m_w sub) ->
              forall m', exec f E sub = Fin m' -> chain_in_budget L (m_w m')).
    { intros sub S1 S2 S3. exact (proj2 (proj2 (C07_call_depth_exact E L HL HLr f sub S1 S2 S3))). }
    assert (Hsubq : forall sub, w_chain (m_w sub) <> [] -> dice_ok (m_fr sub) -> chain_in_budget L (m_w sub) ->
              acct (snd (exec_dice f E sub)) <= L - ops_of (m_w sub) /\
              (forall m', exec f E sub = Fin m' -> acct (snd (exec_dice f E sub)) <= ops_of (m_w m') - ops_of (m_w sub))).
    { intros sub S1 S2 S3. destruct (IH sub S1 S2 S3) as (I1 & I2). split; [exact I1|].
      intros m' Hm'. apply I2. rewrite exec_dice_fst. exact Hm'. }
    assert (Hdice1 : dice_ok (m_fr (counted E m))) by exact Hdice.
    pose proof (step_q (exec f E) (fun sub => snd (exec_dice f E sub)) f E L HL HLr Hcall Hfin Hsubq op o _ Hok1 Hdice1) as HS.
    pose proof (step_okw (exec f E) f E L HL HLr Hcall Hfin op o _ Hok1 Hdice1) as HK.
    rewrite Hm1 in HS. unfold SQ in HS.
    set (d := cadd (step_own f E (I op o) (counted E m))
                   (step_sub (exec f E) (fun sub => snd (exec_dice f E sub)) E (I op o) (counted E m))) in *.
    destruct (step (exec f E) f E {| i_op := op; i_arg := o |} (counted E m)) as [m2|m2|e m2|s| |s];
      cbn [snd fst]; try (split; [lia|discriminate]).
    + destruct HK as [K1 K2].
      match goal with |- context [exec_dice f E ?x] => destruct (IH x) as (I1 & I2) end.
      { exact (proj1 K1). }
      { exact K2. }
      { exact (proj2 K1). }
      cbn [m_w] in I1, I2.
      match goal with |- context [exec_dice f E ?x] => destruct (exec_dice f E x) as [r n] end.
      cbn [snd fst] in *. rewrite acct_cadd. split; [lia|].
      intros m' Hm'. specialize (I2 m' Hm'). lia.
    + pose proof (OKW_ops _ _ HK). split; [lia|]. intros m' [= <-]. lia.
Qed.

(* MAIN.  Under a limit L, from a start counter c0 on a chain of contexts within the budget, one run - including every
   sub-VM activation it starts - rolls at most (L - c0) dice: every die rolled was paid for, within the limit. *)
Theorem C07_dice_bounded_by_budget : forall E L, cfg_op_limit (e_cfg E) = L -> 0 < L <= MaxInt64 - 100 ->
  forall fuel m, w_chain (m_w m) <> [] -> dice_ok (m_fr m) -> chain_in_budget L (m_w m) ->
  fst (exec_dice fuel E m) = exec fuel E m /\
  Z.of_nat (snd (exec_dice fuel E m)) <= Z.max 0 (L - ops_of (m_w m)).
Proof.
  intros E L HL HLr fuel m Hch Hdice HCH. split; [apply exec_dice_fst|].
  destruct (exec_dice_aux E L HL HLr fuel m Hch Hdice HCH) as (A & _). unfold acct in A. lia.
Qed.

(* a finished run: the dice are paid for by the increase of the counter *)
Theorem C07_dice_paid_by_counter : forall E L, cfg_op_limit (e_cfg E) = L -> 0 < L <= MaxInt64 - 100 ->
  forall fuel m m', w_chain (m_w m) <> [] -> dice_ok (m_fr m) -> chain_in_budget L (m_w m) ->
  exec fuel E m = Fin m' ->
  Z.of_nat (snd (exec_dice fuel E m)) <= ops_of (m_w m') - ops_of (m_w m).
Proof.
  intros E L HL HLr fuel m m' Hch Hdice HCH Hfin.
  destruct (exec_dice_aux E L HL HLr fuel m Hch Hdice HCH) as (_ & A).
  specialize (A m'). rewrite exec_dice_fst in A. exact (A Hfin).
Qed.

(* the machine `run` starts: one context, counter 0 *)
Corollary C07_run_dice_bound : forall E L c src st fuel, cfg_op_limit (e_cfg E) = L -> 0 < L <= MaxInt64 - 100 ->
  let m0 := {| m_fr := new_frame c (Some src);
               m_w := {| w_heap := vs_heap st; w_pcg := vs_pcg st; w_st := [];
                         w_chain := [{| c_attrs := vs_attrs st; c_ops := 0 |}] |} |} in
  Z.of_nat (snd (exec_dice fuel E m0)) <= L.
Proof.
  intros E L c src st fuel HL HLr m0.
  destruct (C07_dice_bounded_by_budget E L HL HLr fuel m0) as (_ & H).
  { unfold m0; cbn. discriminate. }
  { unfold m0, dice_ok; cbn. constructor. }
  { unfold chain_in_budget, m0; cbn. constructor; [cbn; lia|constructor]. }
  change (ops_of (m_w m0)) with 0 in *. lia.
Qed.

(* ================================================================== non-vacuity, tightness, the hypothesis *)
Definition mach0 (c : code) : machine :=
  {| m_fr := new_frame c (Some "x"%string);
     m_w := {| w_heap := vs_heap st0; w_pcg := vs_pcg st0; w_st := []; w_chain := [{| c_attrs := vs_attrs st0; c_ops := 0 |}] |} |}.
Definition p3d6 : code := [I OpDiceInit ONil; I OpPushInt (OInt 3); I OpDiceSetTimes ONil; I OpPushInt (OInt 6); I OpDice ONil].
Definition pfate : code := [I OpDiceFate ONil].
Definition pb2 : code := [I OpPushInt (OInt 2); I OpCocBonus ONil].
Definition p5a8 : code := [I OpWodInit ONil; I OpPushInt (OInt 5); I OpWodPool ONil; I OpPushInt (OInt 8); I OpDiceWod ONil].
Definition p3c8 : code := [I OpDcInit ONil; I OpPushInt (OInt 3); I OpDcPool ONil; I OpPushInt (OInt 8); I OpDiceDC ONil].
(* (error class or 0, final counter, final generator state, dice) *)
Definition summ (x : result * cnt) : Z * Z * pcg * cnt :=
  (match fst x with
   | Fin m => (0, ops_of (m_w m), w_pcg (m_w m))
   | Fail e m => (Z.of_N (eclass_num e), ops_of (m_w m), w_pcg (m_w m))
   | _ => (-1, -1, {| hi := 0; lo := 0 |})
   end, snd x).

(* counter after the run = instructions dispatched + what the dice opcode charged; dice actually rolled *)
Example C07_dice_examples :
  (* 3d6: 5 instructions + 3 charged, 3 dice *)
  (let '(e, ops, _, d) := summ (exec_dice 100 (env_lim 1000) (mach0 p3d6)) in (e, ops, d)) = (0, 8, 3%nat) /\
  (* f: 1 instruction + 4 charged, 4 dice *)
  (let '(e, ops, _, d) := summ (exec_dice 100 (env_lim 1000) (mach0 pfate)) in (e, ops, d)) = (0, 5, 4%nat) /\
  (* b2: 2 instructions + 2 charged, 3 dice (d100 + 2 tens dice) *)
  (let '(e, ops, _, d) := summ (exec_dice 100 (env_lim 1000) (mach0 pb2)) in (e, ops, d)) = (0, 4, 3%nat) /\
  (* 5a8: 5 instructions + 9 charged over the rounds, 9 dice *)
  (let '(e, ops, _, d) := summ (exec_dice 100 (env_lim 1000) (mach0 p5a8)) in (e, ops, d)) = (0, 14, 9%nat) /\
  (* 3c8: 5 instructions + 6 charged over the rounds, 6 dice *)
  (let '(e, ops, _, d) := summ (exec_dice 100 (env_lim 1000) (mach0 p3c8)) in (e, ops, d)) = (0, 11, 6%nat).
Proof. vm_compute. repeat split. Qed.

(* over budget: 3d6 under a limit of 7 - the charge 5 + 3 = 8 exceeds it: budget error, no die, generator untouched *)
Example C07_dice_over_budget_example :
  summ (exec_dice 100 (env_lim 7) (mach0 p3d6)) = (4, 8, vs_pcg st0, O).
Proof. vm_compute. reflexivity. Qed.

(* WoD under a limit of 12: the first round (5 dice) was charged and rolled (generator advanced), the second round's
   pool of 3 breaks the limit: it is charged (counter 13), NOT rolled, budget error *)
Example C07_wod_over_budget_example :
  let '(e, ops, s, d) := summ (exec_dice 100 (env_lim 12) (mach0 p5a8)) in
  e = 4 /\ ops = 13 /\ d = 5%nat /\ s <> vs_pcg st0.
Proof. vm_compute. repeat split. discriminate. Qed.

(* sub-VMs are counted: the computed value `2d+1` of VMSafety.ftab_comp rolls its 2 dice in a sub-VM; a function whose
   body is `f` called twice: 8 dice in two sub-VMs *)
Definition ftab_f4 : ftab :=
  [ {| f_computed := false; f_name := "f"; f_params := []; f_expr := "return f";
       f_code := Some [I OpDiceFate ONil; I OpRet ONil] |} ].
Example C07_dice_subvm_examples :
  summ (exec_dice 100 {| e_ftab := ftab_comp; e_cfg := e_cfg (env_lim 1000) |} (mach0 prog_comp))
  = (0, 115, {| hi := 14594582461938010890; lo := 5862910401548952268 |}, 2%nat) /\
  (let '(e, ops, _, d) :=
     summ (exec_dice 100 {| e_ftab := ftab_f4; e_cfg := e_cfg (env_lim 1000) |}
             (mach0 [I OpPushFunc (OFn 0); I OpInvoke (OInt 0); I OpPushFunc (OFn 0); I OpInvoke (OInt 0); I OpHalt ONil])) in
   (e, ops, d)) = (0, 217, 8%nat).
Proof. vm_compute. split; reflexivity. Qed.

(* the witness of the earlier finding (Fate dice not charged: four `f` under a limit of 3 rolled 12 dice) now fails
   closed: the first `f` charges 1 + 4 = 5 > 3: budget error, no die, generator untouched *)
Example C07_fate_over_budget_example :
  summ (exec_dice 100 (env_lim 3) (mach0 [I OpDiceFate ONil; I OpDiceFate ONil; I OpDiceFate ONil; I OpDiceFate ONil]))
  = (4, 5, vs_pcg st0, O).
Proof. vm_compute. reflexivity. Qed.

(* tightness of the bound: one coc.bonus on a stack holding 2, limit 3, counter 0: 3 dice = L - c0 *)
Definition mtight : machine :=
  {| m_fr := fr_set_stack (new_frame [I OpCocBonus ONil] None) [VInt 2] [] 1 LNone; m_w := m_w (mach0 []) |}.
Example C07_dice_bound_tight :
  w_chain (m_w mtight) <> [] /\ dice_ok (m_fr mtight) /\ chain_in_budget 3 (m_w mtight) /\
  snd (exec_dice 100 (env_lim 3) mtight) = 3%nat /\ 3 - ops_of (m_w mtight) = 3.
Proof.
  split; [cbn; discriminate|]. split; [constructor|]. split; [constructor; [cbn; lia|constructor]|].
  split; vm_compute; reflexivity.
Qed.

(* the hypothesis on the CALLING contexts is needed (as for VMDepth.C07_call_depth_needs_int64_chain): a calling context
   with the non-int64 counter 2^64 - 93 holds the computed value x = 500d6; evaluated for that context the sub-VM
   starts on the wrapped counter 7 and rolls its 500 dice although the running context is at 990 of 1000; on a chain
   within the budget the same evaluation is charged to the running context (300 -> 906) *)
Definition ftab_xd : ftab :=
  [ {| f_computed := true; f_name := "x"; f_params := []; f_expr := "500d6";
       f_code := Some [I OpDiceInit ONil; I OpPushInt (OInt 500); I OpDiceSetTimes ONil; I OpPushInt (OInt 6); I OpDice ONil] |} ].
Definition env_xd (L : Z) : env := {| e_ftab := ftab_xd; e_cfg := e_cfg (env_lim L) |}.
Definition w_xd (c : Z) : world :=
  match exec 10 (env_xd 0) (mach [I OpPushComputed (OFn 0%N); I OpStore (OStr "x")] w_start) with
  | Fin m' => w_set_self_ops (m_w m') c
  | _ => w_start
  end.
Definition w_upd (c up : Z) : world :=
  let w := w_xd c in
  let '(id, h) := alloc_map [] (w_heap w) in
  {| w_heap := h; w_pcg := w_pcg w; w_st := [];
     w_chain := [{| c_attrs := id; c_ops := c |}; {| c_attrs := c_attrs (w_self w); c_ops := up |}] |}.
Example C07_dice_bound_needs_chain_in_budget :
  let m := mach [I OpLd (OStr "x")] (w_upd 990 (two64 - 93)) in
  run_pre m /\ (let '(e, ops, _, d) := summ (exec_dice 50 (env_xd 1000) m) in (e, ops, d)) = (0, 991, 500%nat) /\
  1000 - ops_of (m_w m) = 10.
Proof. split; [apply run_preb_ok; vm_compute; reflexivity|vm_compute; split; reflexivity]. Qed.
Example C07_dice_subvm_of_calling_context_charged :
  let m := mach [I OpLd (OStr "x")] (w_upd 300 5) in
  chain_in_budget 1000 (m_w m) /\
  (let '(e, ops, _, d) := summ (exec_dice 50 (env_xd 1000) m) in (e, ops, d)) = (0, 906, 500%nat).
Proof. split; [apply chain_in_budgetb_ok; vm_compute; reflexivity|vm_compute; reflexivity]. Qed.

Print Assumptions exec_dice_fst.
Print Assumptions C07_dice_charge.
Print Assumptions C07_coc_charge.
Print Assumptions C07_fate_charge.
Print Assumptions C07_wod_dc_charge.
Print Assumptions step_q.
Print Assumptions C07_dice_bounded_by_budget.
Print Assumptions C07_dice_paid_by_counter.
Print Assumptions C07_run_dice_bound.
Print Assumptions C07_fate_over_budget_example.
Print Assumptions C07_dice_bound_tight.
Print Assumptions C07_round_over_not_rolled.
Print Assumptions C07_dice_bound_needs_chain_in_budget.
