package main

// C19 — syntax errors point at the right place in the chosen language.
//
//   harness c19 -seed S -n N [-enum K] [-enumSample M]
//       emits one JSON row per REJECTED input (Parse returned an error): the input (hex), the error
//       text under the three language settings (hex, so that invalid UTF-8 and raw newlines survive),
//       the parser's furthest-failure position (hook VerifParseStats) and the generator family.
//       Accepted inputs are only counted (summary row at the end).
//   harness c19-conc -seed S -n ITER -g G [-disturb]
//       G goroutines, each with its own VM and language, parse rejected inputs concurrently and
//       compare every message with what the same configuration produced in isolation.

import (
	"encoding/hex"
	"fmt"
	"strings"
	"sync"

	ds "github.com/sealdice/dicescript"
)

type c19Row struct {
	Kind string    `json:"k"`
	In   string    `json:"in"`   // hex
	Errs [3]string `json:"e"`    // hex; index = language setting 0 (both), 1 (Chinese), 2 (English)
	Fail [3]int    `json:"f"`    // furthest failure: line, col, offset (language 0 run)
	Same bool      `json:"same"` // the three runs agree on the furthest failure position and the error count
	NErr int       `json:"nerr"`
}

// the ~25-token alphabet of the exhaustive enumeration
var c19Tokens = []string{
	"1", "x", "+", "-", "*", "(", ")", "[", "]", "{", "}", "'", "\"", "`", "\n", " ", ".", ",", "=", ";",
	"中", "＋", "if", "d", "%",
}

func c19Parse(src string, lang int) (string, bool, ds.VerifParseStatsT, string) {
	vm := ds.NewVM()
	c := allOn()
	c.Lang = lang
	c.apply(vm)
	// two custom dice made of multi-byte text (used by the "custom" family only; no other input contains them): a regular
	// expression and a stream parser
	h := func(ctx *ds.Context, groups []string, payload any) (*ds.VMValue, string, error) {
		return ds.NewIntVal(1), "", nil
	}
	_ = vm.RegCustomDice(`骰(\d+)`, h)
	_ = vm.RegCustomDiceParser(func(ctx *ds.Context, st *ds.CustomDiceStream) (*ds.CustomDiceParseResult, error) {
		for _, want := range []rune("命运") {
			if ch, ok := st.Read(); !ok || ch != want {
				return nil, nil
			}
		}
		return &ds.CustomDiceParseResult{Groups: []string{"命运"}, Matched: true}, nil
	}, h)
	var err error
	pan := ""
	func() {
		defer func() {
			if r := recover(); r != nil {
				pan = "panic"
			}
		}()
		err = vm.Parse(src)
	}()
	st := vm.VerifParseStats()
	if pan != "" {
		return "", false, st, pan
	}
	if err == nil {
		return "", false, st, ""
	}
	return err.Error(), true, st, ""
}

type c19Gen struct {
	seen     map[string]bool
	accepted map[string]int
	rejected map[string]int
	panics   int
}

// eval parses src under the three language settings; nil when a run panicked.
func c19Eval(kind, src string) (row *c19Row, rejected bool, panicked bool) {
	row = &c19Row{Kind: kind, In: hex.EncodeToString([]byte(src)), Same: true}
	rej := false
	for lang := 0; lang < 3; lang++ {
		e, bad, st, pan := c19Parse(src, lang)
		if pan != "" {
			return nil, false, true
		}
		if lang == 0 {
			rej = bad
			row.Fail = [3]int{st.FailLine, st.FailCol, st.FailOff}
			row.NErr = st.NErrs
		} else if bad != rej || st.FailLine != row.Fail[0] || st.FailCol != row.Fail[1] || st.FailOff != row.Fail[2] || st.NErrs != row.NErr {
			row.Same = false
		}
		row.Errs[lang] = hex.EncodeToString([]byte(e))
	}
	return row, rej || !row.Same, false
}

func (g *c19Gen) try(kind, src string) {
	g.batch(kind, []string{src})
}

// batch evaluates the inputs on several goroutines (each parse uses its own VM) and emits in input order.
func (g *c19Gen) batch(kind string, srcs []string) {
	var todo []string
	for _, src := range srcs {
		if len(src) > 400 || g.seen[src] {
			continue
		}
		g.seen[src] = true
		todo = append(todo, src)
	}
	type res struct {
		row      *c19Row
		rej, pan bool
	}
	out := make([]res, len(todo))
	if len(todo) < 64 {
		for i, s := range todo {
			out[i].row, out[i].rej, out[i].pan = c19Eval(kind, s)
		}
	} else {
		var wg sync.WaitGroup
		nw := 12
		for wk := 0; wk < nw; wk++ {
			wg.Add(1)
			go func(wk int) {
				defer wg.Done()
				for i := wk; i < len(todo); i += nw {
					out[i].row, out[i].rej, out[i].pan = c19Eval(kind, todo[i])
				}
			}(wk)
		}
		wg.Wait()
	}
	for _, o := range out {
		switch {
		case o.pan:
			g.panics++
		case !o.rej:
			g.accepted[kind]++
		default:
			g.rejected[kind]++
			emit(o.row)
		}
	}
}

var c19Openers = []string{"(", "[", "{", "'", "\"", "`", "\x1e", "（", "【", "((", "[(", "{'a':", "{'a':[", "f(", "x[", "`{", "`{%", "[1,", "(1+"}
var c19Fillers = []string{"1", "x", "中文", "好", "变量", "1 + 2", "x * 3", "d6", "2d10", "'s'", "\"t\"", "1.5", "a.b", "优势", "é", "ß", "𝒳", "日本語", "€", " ", "  ", "\t"}
var c19Ops = []string{"+", "-", "*", "/", "%", "^", "=", "<", ">", "!", "&", "|", "?", ":", ",", "＋", "－", "＊", "／", "==", "&&", "||", "**"}
var c19Bad = []string{"*", ")", "]", "}", ",", "#", "@", "~", "\\", "。", "、", "“", "\x00", "\x7f", "?", "$", ";", "%", "!", "；"}
var c19Seps = []string{" ", "\n", " \n", "\n ", "\n\n", "\r\n", "  ", "\t", ""}

func c19Expr(r *rng, depth int) string {
	if depth <= 0 || r.chance(1, 3) {
		return pick(r, c19Fillers)
	}
	switch r.intn(4) {
	case 0:
		return c19Expr(r, depth-1) + pick(r, c19Seps) + pick(r, c19Ops) + pick(r, c19Seps) + c19Expr(r, depth-1)
	case 1:
		return "(" + c19Expr(r, depth-1) + ")"
	case 2:
		return "[" + c19Expr(r, depth-1) + "," + pick(r, c19Seps) + c19Expr(r, depth-1) + "]"
	}
	return pick(r, c19Fillers) + pick(r, c19Seps) + pick(r, c19Ops) + pick(r, c19Seps) + pick(r, c19Fillers)
}

// an opener that is never closed, with 0..3 line breaks and multi-byte text before the failure
func c19Unclosed(r *rng) string {
	var sb strings.Builder
	if r.chance(1, 4) {
		sb.WriteString(pick(r, []string{" ", "\n", "\n\n", "  \n", "\t", "\r\n"}))
	}
	sb.WriteString(pick(r, c19Openers))
	lines := r.intn(4)
	parts := 1 + r.intn(4)
	for i := 0; i < parts; i++ {
		sb.WriteString(pick(r, c19Seps))
		sb.WriteString(c19Expr(r, 2))
		if i+1 < parts {
			sb.WriteString(pick(r, c19Seps))
			sb.WriteString(pick(r, c19Ops))
		}
		if lines > 0 && r.chance(1, 2) {
			sb.WriteString("\n")
			lines--
		}
	}
	switch r.intn(6) {
	case 0:
		sb.WriteString(pick(r, c19Bad))
	case 1:
		sb.WriteString(pick(r, c19Ops))
	case 2:
		sb.WriteString("\n")
	case 3:
		sb.WriteString(pick(r, c19Bad) + pick(r, c19Seps) + c19Expr(r, 1))
	}
	return sb.String()
}

func c19Pad(r *rng, n int) string {
	var sb strings.Builder
	for sb.Len() < n {
		switch r.intn(5) {
		case 0:
			sb.WriteString(pick(r, []string{"中", "文", "好", "é", "€", "𝒳"}))
		case 1:
			sb.WriteString(" + ")
		default:
			sb.WriteString(pick(r, []string{"1", "22", "x", "abc", "y1"}))
			if r.chance(1, 2) {
				sb.WriteString("+")
			}
		}
	}
	return sb.String()
}

// lines of 55..70 bytes around the 57/60 byte truncation, failure before or after the cut
func c19Long(r *rng) string {
	target := 50 + r.intn(24)
	open := pick(r, []string{"(", "[", "(1+", "'", "`"})
	var body string
	if open == "'" || open == "`" {
		body = strings.ReplaceAll(c19Pad(r, target), "+", "_")
	} else {
		body = c19Pad(r, target)
		body = strings.TrimRight(body, "+ ")
		if len(body) == 0 {
			body = "1"
		}
	}
	s := open + body
	switch r.intn(5) {
	case 0:
		s = s + " " + pick(r, c19Bad)
	case 1:
		cut := r.intn(len(body) + 1)
		for cut < len(body) && (body[cut]&0xC0) == 0x80 {
			cut++
		}
		s = open + body[:cut] + pick(r, c19Bad) + body[cut:]
	case 2:
		s = pick(r, []string{"", "\n", "1 +\n"}) + s
	case 3:
		s = s + "\n" + pick(r, c19Bad)
	}
	if r.chance(1, 5) {
		s = "(\n" + s
	}
	return s
}

func c19Utf8(r *rng) string {
	bad := []string{"\xff", "\xc3", "\xe4\xb8", "\xf0\x9f\x98", "\x80", "\xc0\xaf", "\xed\xa0\x80", "\xf5", "\xe4", "\xbf"}
	switch r.intn(6) {
	case 0:
		return pick(r, bad)
	case 1:
		return pick(r, c19Openers) + pick(r, bad)
	case 2:
		return pick(r, c19Openers) + c19Expr(r, 1) + pick(r, bad) + c19Expr(r, 1)
	case 3:
		return pick(r, bad) + pick(r, c19Ops) + "1"
	case 4:
		return "(" + pick(r, []string{"中", "好\n", "1+\n"}) + pick(r, bad) + "\n" + pick(r, bad)
	}
	return "'" + pick(r, bad) + "' +" + pick(r, c19Bad)
}

func c19Stray(r *rng) string {
	switch r.intn(6) {
	case 0:
		return pick(r, c19Ops) + c19Expr(r, 1)
	case 1:
		return pick(r, c19Bad) + pick(r, c19Seps) + c19Expr(r, 1)
	case 2:
		return pick(r, c19Seps) + pick(r, c19Ops)
	case 3:
		return pick(r, c19Seps) + pick(r, c19Seps) + pick(r, c19Bad) + pick(r, c19Ops)
	case 4:
		return pick(r, c19Openers) + pick(r, c19Seps) + pick(r, c19Ops) + pick(r, c19Seps) + pick(r, c19Ops)
	}
	return pick(r, c19Openers) + c19Expr(r, 1) + pick(r, c19Seps) + pick(r, c19Ops) + pick(r, c19Seps) + pick(r, c19Bad)
}

// failure exactly at a newline byte (defect #32 family) and neighbours
// a syntax error on a line that holds a matching custom dice made of multi-byte text before the error position
func c19Custom(r *rng) string {
	dice := func() string { return pick(r, []string{"骰3", "骰12", "命运", "骰007", "命运"}) }
	pre := pick(r, []string{"", "1+\n ", "x = 2\n", "力量 = 骰3; ", "  "})
	body := pick(r, []string{"(" + dice() + "+", "(" + dice(), "[" + dice() + ", " + dice(), dice() + " + " + dice() + " * (", dice() + " +", "{a: " + dice() + " + ",
		"f(" + dice() + ", ", dice() + " ? " + dice() + " :", "`x{" + dice() + "+}`", dice() + " " + dice() + " )", "(" + dice() + ")) + 1", "力量" + dice() + " + ("})
	return pre + body + pick(r, []string{"", " ", "\n", " // 注释"})
}

func c19AtNewline(r *rng) string {
	pre := pick(r, []string{"", " ", "\n", "(", "[1,", "中\n(", "(1+\n"})
	mid := pick(r, []string{".", "(.", "[.", "(1 .", "'a' .", "x.", "(x.", "(1+2).", "(", "(1+", "[1,", "{", "`{", "if", "(if"})
	post := pick(r, []string{"\n", "\n\n", "\n1", "\n)", " \n", "\r\n", "\n中"})
	return pre + mid + post
}

var c19Keywords = []string{
	"if", "if 1", "if x y", "if 1 {", "if 1 { 2 } else", "if 1 {\n  break\n}", "break", "continue", "while", "while 1", "func", "return",
	"`{}`", "`{% %}`", "`{%", "`a{", "x = `a{", "1+if", "(if)", "(while", "[else]", "\n\nif +", "if\n", "中 = if", "break\n", "(break)", "if 1 { continue }",
	"while 1 { if 1 { break } }; break", "`{", "`{\n}`", "'a' + `{%\n%}`", "func f( {", "else", "if 1 {} else if", "if 1 {} else 2",
}

var c19Fixed = []string{
	"", " ", "  ", "\n", "\n\n", " \n ", "\t", "\r\n", "\r", " \t\n\r ", ".\n", ".", "(", ")", "[", "]", "{", "}", "'", "\"", "`", "\x1e",
	"(1+2", "1+", "*3", "(1+\n2", "中文(1+\n2", "(中文+\n好*", "1 +\n\n", "\n*", "\x00", ".\x00", "(\x00", "#", "1 #", "(1 #",
	"(\n(\n(\n(", "[1,\n2,\n3,\n", "{'a':1,\n'b':\n", "'abc\ndef", "\"abc\n中文\n", "`abc{1}\n", "(1 ＋", "(1 + ＋", "＋1", "（1+", "【1",
}

func init() {
	cmds["c19"] = func(args []string) {
		fs, seed, n := stdFlags("c19")
		enum := fs.Int("enum", 2, "exhaustive token sequences up to this length")
		enumSample := fs.Int("enumSample", 0, "random token sequences of length enum+1..enum+3")
		fs.Parse(args)
		r := newRng(*seed)
		g := &c19Gen{seen: map[string]bool{}, accepted: map[string]int{}, rejected: map[string]int{}}
		for _, s := range c19Fixed {
			g.try("fixed", s)
		}
		for _, s := range []string{"(骰3+", "(1+\n 骰3 +", "(命运+", "[骰12, 命运", "(骰3", "{a: 骰6 + ", "骰3 + 命运 * ("} {
			g.try("custom", s)
		}
		for _, s := range c19Keywords {
			g.try("action", s)
			g.try("action", pick(r, []string{"", " ", "\n", "("})+s+pick(r, []string{"", "\n", " +", ")"}))
		}
		// exhaustive enumeration
		nt := len(c19Tokens)
		for l := 1; l <= *enum; l++ {
			var all []string
			idx := make([]int, l)
			for {
				var sb strings.Builder
				for _, k := range idx {
					sb.WriteString(c19Tokens[k])
				}
				all = append(all, sb.String())
				p := l - 1
				for p >= 0 {
					idx[p]++
					if idx[p] < nt {
						break
					}
					idx[p] = 0
					p--
				}
				if p < 0 {
					break
				}
			}
			g.batch("enum", all)
		}
		for k := 0; k < *enumSample; k++ {
			l := *enum + 1 + r.intn(3)
			var sb strings.Builder
			for j := 0; j < l; j++ {
				sb.WriteString(pick(r, c19Tokens))
			}
			g.try("tokens", sb.String())
		}
		for k := 0; k < *n; k++ {
			switch k % 10 {
			case 0, 1, 2:
				g.try("unclosed", c19Unclosed(r))
			case 3, 4:
				g.try("long", c19Long(r))
			case 5:
				g.try("utf8", c19Utf8(r))
			case 6, 7:
				g.try("stray", c19Stray(r))
			case 8:
				if r.chance(1, 2) {
					g.try("atnl", c19AtNewline(r))
				} else {
					g.try("custom", c19Custom(r))
				}
			default:
				l := 1 + r.intn(8)
				var sb strings.Builder
				for j := 0; j < l; j++ {
					if r.chance(1, 6) {
						sb.WriteString(pick(r, c19Fillers))
					} else {
						sb.WriteString(pick(r, c19Tokens))
					}
				}
				g.try("tokens", sb.String())
			}
		}
		emit(map[string]any{"summary": true, "accepted": g.accepted, "rejected": g.rejected, "panics": g.panics,
			"tokens": c19Tokens})
	}

	// an error VALUE keeps its text: after VM A (language a) rejected an input, VM B (language b) rejecting the same input must
	// not change what A's error says (error values are not shared between VMs)
	cmds["c19-deferred"] = func(args []string) {
		inputs := append([]string{"", " ", "\n", "(1+2", "/", "1 +\n", "[1,", "'abc", "if", "1 ? ", "x = = 1", "`{% %}`", "break", "\xff", "(骰3+"}, c19Fixed...)
		type diff struct {
			In     string `json:"in"`
			LangA  int    `json:"langA"`
			LangB  int    `json:"langB"`
			Before string `json:"before"`
			After  string `json:"after"`
		}
		var diffs []diff
		n := 0
		for _, src := range inputs {
			for a := 0; a < 3; a++ {
				for b := 0; b < 3; b++ {
					if a == b {
						continue
					}
					mk := func(lang int) *ds.Context {
						vm := ds.NewVM()
						c := allOn()
						c.Lang = lang
						c.apply(vm)
						return vm
					}
					var errA error
					func() {
						defer func() { _ = recover() }()
						errA = mk(a).Run(src)
					}()
					if errA == nil {
						continue
					}
					before := errA.Error()
					func() {
						defer func() { _ = recover() }()
						_ = mk(b).Run(src)
					}()
					n++
					if after := errA.Error(); after != before && len(diffs) < 10 {
						diffs = append(diffs, diff{hex.EncodeToString([]byte(src)), a, b, before, after})
					}
				}
			}
		}
		// bodies compiled at their first use (a computed value / function created by the host or restored from JSON): the syntax
		// error of a body is reported in the language of the VM that evaluates it NOW — a value shared by two VMs, or one VM
		// whose setting changes between two evaluations, must not carry the first evaluation's language along
		lazy := 0
		for _, body := range inputs {
			if strings.TrimSpace(body) == "" || strings.ContainsAny(body, "\xff") {
				continue
			}
			for a := 0; a < 3; a++ {
				for b := 0; b < 3; b++ {
					if a == b {
						continue
					}
					for kind := 0; kind < 2; kind++ {
						mkv := func() *ds.VMValue {
							if kind == 0 {
								return ds.NewComputedVal(body)
							}
							return ds.NewFunctionValRaw(&ds.FunctionData{Expr: body, Name: "fz"})
						}
						use := []string{"cz", "fz()"}[kind]
						name := []string{"cz", "fz"}[kind]
						eval := func(vm *ds.Context) (txt string) {
							defer func() {
								if r := recover(); r != nil {
									txt = "panic: " + fmt.Sprint(r)
								}
							}()
							if err := vm.Run(use); err != nil {
								return err.Error()
							}
							return "<no error>"
						}
						mk := func(lang int, v *ds.VMValue) *ds.Context {
							vm := ds.NewVM()
							c := allOn()
							c.Lang = lang
							c.apply(vm)
							vm.Attrs.Store(name, v)
							return vm
						}
						wantB := eval(mk(b, mkv())) // fresh value, fresh VM configured b
						shared := mkv()
						_ = eval(mk(a, shared))
						gotShared := eval(mk(b, shared))
						one := mk(a, mkv())
						_ = eval(one)
						one.Config.ParseErrorLanguage = b
						gotSame := eval(one)
						lazy++
						if (gotShared != wantB || gotSame != wantB) && len(diffs) < 10 {
							diffs = append(diffs, diff{hex.EncodeToString([]byte(body)), a, b, "lazily compiled " + []string{"computed value", "function"}[kind] + "; a fresh value on a VM configured B says: " + wantB,
								"value shared with a VM configured A first: " + gotShared + " || same VM after its setting changed from A to B: " + gotSame})
						}
					}
				}
			}
		}
		emit(map[string]any{"checked": n, "lazy_checked": lazy, "diffs": diffs})
	}

	cmds["c19-conc"] = func(args []string) {
		fs, seed, n := stdFlags("c19-conc")
		ng := fs.Int("g", 6, "goroutines")
		disturb := fs.Bool("disturb", true, "one more goroutine keeps changing the package-level default language")
		fs.Parse(args)
		r := newRng(*seed)
		// rejected inputs and what each configuration says in isolation
		var inputs []string
		cand := append([]string{}, c19Fixed...)
		cand = append(cand, c19Keywords...)
		for k := 0; k < 300; k++ {
			cand = append(cand, c19Unclosed(r), c19Stray(r), c19AtNewline(r))
		}
		want := map[string][3]string{}
		for _, s := range cand {
			if _, ok := want[s]; ok {
				continue
			}
			var w [3]string
			rej := true
			for lang := 0; lang < 3; lang++ {
				e, bad, _, pan := c19Parse(s, lang)
				if !bad || pan != "" {
					rej = false
					break
				}
				w[lang] = e
			}
			if rej {
				want[s] = w
				inputs = append(inputs, s)
			}
		}
		type mm struct {
			In   string `json:"in"`
			Lang int    `json:"lang"`
			Got  string `json:"got"`
			Want string `json:"want"`
			G    int    `json:"goroutine"`
		}
		var mu sync.Mutex
		var mism []mm
		total := 0
		var wg sync.WaitGroup
		stop := make(chan struct{})
		if *disturb {
			go func() {
				k := 0
				for {
					select {
					case <-stop:
						return
					default:
					}
					ds.SetParseErrorLanguage(k % 3)
					k++
				}
			}()
		}
		for gi := 0; gi < *ng; gi++ {
			wg.Add(1)
			go func(gi int) {
				defer wg.Done()
				lang := gi % 3
				rr := newRng(*seed*1000 + int64(gi))
				vm := ds.NewVM()
				c := allOn()
				c.Lang = lang
				c.apply(vm)
				cnt := 0
				var local []mm
				for it := 0; it < *n; it++ {
					s := inputs[rr.intn(len(inputs))]
					if rr.chance(1, 8) {
						// a fresh VM now and then: configuration is per VM, not per goroutine
						vm = ds.NewVM()
						c.apply(vm)
					}
					err := vm.Parse(s)
					got := ""
					if err != nil {
						got = err.Error()
					}
					cnt++
					if got != want[s][lang] && len(local) < 5 {
						local = append(local, mm{hex.EncodeToString([]byte(s)), lang, hex.EncodeToString([]byte(got)), hex.EncodeToString([]byte(want[s][lang])), gi})
					} else if got != want[s][lang] {
						local = append(local, mm{})
					}
				}
				mu.Lock()
				total += cnt
				mism = append(mism, local...)
				mu.Unlock()
			}(gi)
		}
		wg.Wait()
		close(stop)
		ds.SetParseErrorLanguage(ds.ParseErrorLanguageBilingual)
		first := []mm{}
		for _, m := range mism {
			if m.In != "" || m.Got != "" || m.Want != "" {
				if len(first) < 5 {
					first = append(first, m)
				}
			}
		}
		emit(map[string]any{"conc": true, "goroutines": *ng, "iterations": total, "inputs": len(inputs),
			"mismatches": len(mism), "first": first, "disturb": *disturb})
	}
}
