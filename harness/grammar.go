package main

import (
	ds "github.com/sealdice/dicescript"
)

func init() {
	// reflection dump of the generated PEG grammar, one JSON document
	cmds["grammar"] = func(args []string) {
		emit(ds.VerifGrammar())
	}
}
