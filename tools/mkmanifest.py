#!/usr/bin/env python3
"""Authoring helper: writes /verif/MANIFEST.json from the table below."""
import json
import subprocess

props = [json.loads(l) for l in open('/verif/properties.jsonl')]
hooks = subprocess.run(["git", "-C", "/repo", "log", "--format=%h %s"], capture_output=True, text=True).stdout.splitlines()
hook_commits = [l.split()[0] for l in hooks if "verif hooks" in l]

T = "machine-checked proof in Coq + model/implementation correspondence"
CLAIMS = {
 "C06": ("proof", "Coq theorems: the 16-byte generator state round-trips through GetCurSeed/UnmarshalBinary, a captured state installed in a fresh source continues the identical sequence for any number of draws, draws compose across a save/restore point, min/max modes never touch the generator; decidable confinement condition on the footprint table regenerated from /repo (the package-level generator is touched only by Roll's nil-source fallback and GetCurSeed, under the mutex; no package-level math/rand calls); Init/Uint64/GetCurSeed exact correspondence with the PCG model; Go-vs-Go search: same seed twice, package generator perturbed and unrelated unseeded VMs in between, resume on a fresh VM — every dice family and the random array methods",
         "trusted: Coq kernel+vm_compute, harness, go/ast footprint scanner; the per-opcode non-interference statement is decided by search until the VM model is in place; recorded finding: Go map order visible through dict iteration", "DESIGN.md §6 C06"),
 "C11": ("proof", "logic half proved in Coq: (1) decidable footprint condition over the table of package-level variable uses REGENERATED from /repo on every run (outside init, package state is only read, or accessed under a lock / by the explicit host setter; no package-level math/rand calls; the package generator is touched only by Roll's nil-source fallback and GetCurSeed under the mutex), (2) schedule-independence theorem: steps that are functions of immutable shared state and the VM's own state give every VM, under EVERY interleaving, the state it reaches alone. Runtime half: N goroutines x own VMs (seeded/unseeded, 3 languages, random flags) compared with isolated runs, and the same workload under the Go race detector",
         "trusted: Coq kernel+vm_compute, go/ast footprint scanner, harness; data-race freedom per the Go memory model is sampled evidence (race detector), not a theorem — partial", "DESIGN.md §6 C11"),
 "C13": ("proof", "Coq theorems for all texts, all four delimiters, all escape choices: literal round trip lex(quote(escape s)) = s, generic in the escape table (table_ok re-established, table probed against the real lexer for every byte x delimiter on each run), representability hypothesis proved necessary; template level on a VM fragment: a hole leaves exactly one value whatever its code did above the saved height, templates concatenate segments and hole values in order, nest to the accepted depth, the 21st nested hole is an error; exact correspondence on random texts and templates through the real parser+VM",
         "trusted: Coq kernel+vm_compute, harness; that arbitrary hole code respects its stack frame is an assumption validated by template runs (abstract hole code in the model)", "DESIGN.md §6 C13"),
 "C03": ("proof", "Coq theorems for every input and every final offset: Matched ++ RestInput = input, Matched is a white-space-trimmed prefix ending at or before the parser's offset, trimming is idempotent; the offset is tied to the PEG model of the regenerated grammar (K1). The positive half (text given back to RestInput contributes nothing) is REFUTED by a vm_compute witness on the parser model and recorded as a finding; outside the recorded call sites it is decided per input by a Go-vs-Go monitor (run the input, run Matched alone from the same seed and prior state: value, process text, variables, generator state, code)",
         "trusted: Coq kernel+vm_compute, harness, translator for Gen/Grammar.v; Model/Matched.v hand-written (exact Matched/Rest correspondence); contribution-freedom is validated case by case, not proved", "DESIGN.md §6 C03"),
 "C16": ("proof", "Coq theorem by reflection over the grammar and action table regenerated from /repo on every run: for EVERY byte string lacking the macro text `#EnableDice`, every setting of the other flags and every fuel, the PEG interpreter model emits no opcode of a disabled dice family and leaves the flag disabled; with DisableStmts set NO input can emit push.func/block.push/block.pop/ret or clear the flag. Generic soundness of the static gating analysis (memo replay, skip-code mode, non-rolled-back actions included) + side conditions gated(Gen.Grammar)=true by vm_compute; model tied by exact K1 correspondence; Config never written by Parse checked on the real parser",
         "trusted: Coq kernel+vm_compute, harness, translator tools/gen_grammar.py (may-emit sets are over-approximations), Model/Peg.v hand-written and K1-validated; functions compiled under an earlier macro keep their dice (interpretation note)", "DESIGN.md §6 C16"),
 "C19": ("proof", "Coq theorems for all inputs: every parser point is consistent (line/column bookkeeping of read), offset <= length, exact relation between the reported line:col and the plain line/column of the offset (they differ exactly at a newline byte — refuted-with-witness, recorded finding), the rendered text parses back to line, column, quoted line and caret, the message text is a function of the configured language column of the table only; table re-scraped from parser_errors.go every run; error-text correspondence on rejected inputs x 3 languages; concurrent VMs with different languages compared with isolated runs",
         "trusted: Coq kernel+vm_compute, harness, regexp scraper of the message table; data-race freedom is evidence from the race detector (thorough tier), not a theorem; three recorded findings (newline position, six action messages, invalid-encoding message)", "DESIGN.md §6 C19"),
 "C04": ("proof", "Coq theorems for all parameters, all generator streams, all three modes: legality of every die, kept/dropped rule, exact totals, CoC min/max rule, Fate, WoD/DC round chains, injectivity of the displayed text (text determines the dice); model tied to roll_func.go by exact correspondence (totals, counters, detail text, generator state) and the game rule re-evaluated on the displayed text; VM-level rejection of illegal parameters by search",
         "trusted: Coq kernel+vm_compute, harness; sort.Slice assumed to sort; no-overflow hypotheses stated in the theorems; the DC sides>10 order dependence is a recorded finding", "DESIGN.md §6 C04"),
 "C05": ("proof", "Coq theorems (range, exact preimage count per face, fast-check soundness, acceptance > 1/2, first-accepted-word, PCG = 128-bit LCG) about a hand-written model of Roll/_roll64/PCGSource, tied to the code by exact result+state correspondence on engineered boundary states",
         "trusted: Coq kernel+vm_compute, harness, PCG constants copied by hand (validated by exact state correspondence); PRNG output quality assumed", "DESIGN.md §6 C05"),
 "C12": ("proof", "sequential half: refinement of an ordinary finite map proved in Coq for EVERY operation history (invariant + abstraction function over a transliteration of the sync.Map clone incl. entry sharing, promotion, expunge); concurrent half: a Coq linearizability monitor proved sound and complete, run on recorded concurrent histories (all schedules are not proved)",
         "trusted: Coq kernel+vm_compute, harness; model tied by API-result correspondence (exhaustive short histories + random long ones); Go memory model / lock-free read path outside the model", "DESIGN.md §6 C12"),
 "C15": ("proof", "Coq theorems: min/max modes consume no randomness and are attained bounds for XdY with every modifier; Fate and CoC (bonus and penalty) brackets; bracket for every expression monotone in its dice by induction on the expression; model tied through the real parser+VM (three-mode exact correspondence incl. generator state)",
         "trusted: Coq kernel+vm_compute, harness; exploding families excluded as the property states; no-overflow side condition in wf_dexpr", "DESIGN.md §6 C15"),
}

m = {
 "version": 1,
 "setup_cmd": "./setup.sh",
 "hooks": {"guard": "verif", "enable": "go build -tags verif (files /repo/verif_hooks*.go, //go:build verif, add-only)",
           "baseline_off_cmd": "cd /repo && GOFLAGS=-mod=mod GOPROXY=off GOSUMDB=off GOTOOLCHAIN=local go test -vet=off -count=1 ./...",
           "source_commits": hook_commits, "add_only": True},
 "engines": [{"name": "coq-proof+correspondence", "path": "/verif/check", "serves_properties": sorted(CLAIMS),
              "kind_free_text": "Coq 8.16 theorems about executable Gallina models; models tied to /repo by correspondence (model evaluated by vm_compute on the inputs the Go harness ran) and by tables regenerated from the source"}],
 "checks": [], "notes": "see DESIGN.md; known findings and fixed defects in known_findings.json", "not_applicable": []}
for pid in sorted(CLAIMS):
    cat, text, note, ref = CLAIMS[pid]
    m["checks"].append({"property_id": pid, "quick_cmd": f"./check {pid} --tier quick", "thorough_cmd": f"./check {pid} --tier thorough",
                        "evidence_file": f"/verif/evidence/{pid}.json", "replay_cmd_template": f"./check {pid} --replay {{path}}",
                        "engine": "coq-proof+correspondence", "level_claimed": {"category": cat, "text": text, "design_ref": ref},
                        "level_note": note, "technique": T})
for p in props:
    if p['id'] not in CLAIMS:
        m["not_applicable"].append({"property_id": p['id'], "reason": "check not built yet in this revision (work in progress; see DESIGN.md §10 staging)"})
json.dump(m, open('/verif/MANIFEST.json', 'w'), indent=1, ensure_ascii=False)
print("claimed", sorted(CLAIMS))
