(* Proofs about Model/Json.v: decoder well-formedness (C10), round trip (C09), observers. *)
From Coq Require Import String Ascii NArith ZArith List Bool Lia.
From DS Require Import Model.Json.
Import ListNotations.
Open Scope string_scope.

(* ------------------------------------------------------------------ induction principles *)
Section JsonInd.
  Variable P : json -> Prop.
  Hypothesis Hnull : P JNull.
  Hypothesis Hbool : forall b, P (JBool b).
  Hypothesis Hint : forall z, P (JInt z).
  Hypothesis Hfloat : forall b, P (JFloat b).
  Hypothesis Hstr : forall s, P (JStr s).
  Hypothesis Harr : forall l, Forall P l -> P (JArr l).
  Hypothesis Hobj : forall l, Forall (fun kv => P (snd kv)) l -> P (JObj l).

  Fixpoint json_ind' (j : json) : P j :=
    match j with
    | JNull => Hnull
    | JBool b => Hbool b
    | JInt z => Hint z
    | JFloat b => Hfloat b
    | JStr s => Hstr s
    | JArr l => Harr l ((fix go (l : list json) : Forall P l :=
                           match l with
                           | [] => Forall_nil _
                           | x :: r => Forall_cons _ (json_ind' x) (go r)
                           end) l)
    | JObj l => Hobj l ((fix go (l : list (string * json)) : Forall (fun kv => P (snd kv)) l :=
                           match l with
                           | [] => Forall_nil _
                           | kv :: r => Forall_cons _ (json_ind' (snd kv)) (go r)
                           end) l)
    end.
End JsonInd.

Section ValueInd.
  Variable P : value -> Prop.
  Hypothesis Hint : forall z, P (VInt z).
  Hypothesis Hfloat : forall b, P (VFloat b).
  Hypothesis Hstr : forall s, P (VStr s).
  Hypothesis Hnull : P VNull.
  Hypothesis Harr : forall l, Forall P l -> P (VArr l).
  Hypothesis Hdict : forall l, Forall (fun kv => P (snd kv)) l -> P (VDict l).
  Hypothesis Hfunc : forall n p e, P (VFunc n p e).
  Hypothesis Hcomp0 : forall e, P (VComputed e None).
  Hypothesis Hcomp : forall e l, Forall (fun kv => P (snd kv)) l -> P (VComputed e (Some l)).
  Hypothesis Hnat : forall n, P (VNative n).
  Hypothesis Hnobj : forall n, P (VNObj n).

  Fixpoint value_ind' (v : value) : P v :=
    let go := fix go (l : list (string * value)) : Forall (fun kv => P (snd kv)) l :=
                match l with
                | [] => Forall_nil _
                | kv :: r => Forall_cons _ (value_ind' (snd kv)) (go r)
                end in
    match v with
    | VInt z => Hint z
    | VFloat b => Hfloat b
    | VStr s => Hstr s
    | VNull => Hnull
    | VArr l => Harr l ((fix go (l : list value) : Forall P l :=
                           match l with
                           | [] => Forall_nil _
                           | x :: r => Forall_cons _ (value_ind' x) (go r)
                           end) l)
    | VDict l => Hdict l (go l)
    | VFunc n p e => Hfunc n p e
    | VComputed e None => Hcomp0 e
    | VComputed e (Some l) => Hcomp e l (go l)
    | VNative n => Hnat n
    | VNObj n => Hnobj n
    end.
End ValueInd.

Section RvalueInd.
  Variable P : rvalue -> Prop.
  Hypothesis Hnil : P RNil.
  Hypothesis Hnone : forall t, P (RNone t).
  Hypothesis Hint : forall t z, P (RInt t z).
  Hypothesis Hfloat : forall t b, P (RFloat t b).
  Hypothesis Hstr : forall t s, P (RStr t s).
  Hypothesis Harr : forall t l, Forall P l -> P (RArr t l).
  Hypothesis Hdict : forall t l, Forall (fun kv => P (snd kv)) l -> P (RDict t l).
  Hypothesis Hfunc : forall t n p e, P (RFunc t n p e).
  Hypothesis Hcomp0 : forall t e, P (RComputed t e None).
  Hypothesis Hcomp : forall t e l, Forall (fun kv => P (snd kv)) l -> P (RComputed t e (Some l)).
  Hypothesis Hnat : forall t n, P (RNative t n).
  Hypothesis Hnobj : forall t n, P (RNObj t n).

  Fixpoint rvalue_ind' (v : rvalue) : P v :=
    let go := fix go (l : list (string * rvalue)) : Forall (fun kv => P (snd kv)) l :=
                match l with
                | [] => Forall_nil _
                | kv :: r => Forall_cons _ (rvalue_ind' (snd kv)) (go r)
                end in
    match v with
    | RNil => Hnil
    | RNone t => Hnone t
    | RInt t z => Hint t z
    | RFloat t b => Hfloat t b
    | RStr t s => Hstr t s
    | RArr t l => Harr t l ((fix go (l : list rvalue) : Forall P l :=
                               match l with
                               | [] => Forall_nil _
                               | x :: r => Forall_cons _ (rvalue_ind' x) (go r)
                               end) l)
    | RDict t l => Hdict t l (go l)
    | RFunc t n p e => Hfunc t n p e
    | RComputed t e None => Hcomp0 t e
    | RComputed t e (Some l) => Hcomp t e l (go l)
    | RNative t n => Hnat t n
    | RNObj t n => Hnobj t n
    end.
End RvalueInd.

(* ------------------------------------------------------------------ small facts *)
Lemma dispatch_sound : forall T t k, dispatch T t = Some k ->
  match k with
  | KInt => t = d_int T | KFloat => t = d_float T | KStr => t = d_str T | KNull => t = d_null T
  | KComputed => t = d_computed T | KArray => t = d_array T | KDict => t = d_dict T
  | KFunc => t = d_func T | KNative => t = d_native T | KNObj => t = d_nobj T
  end.
Proof.
  intros T t k. unfold dispatch.
  repeat match goal with
         | |- context [(?a =? ?b)%Z] => destruct (Z.eqb_spec a b)
         end; intros H; inversion H; subst; auto.
Qed.

Lemma assign_inv : forall A (conv : ajson -> option (option A)) (Q : A -> Prop) vals cur y,
  Q cur ->
  (forall a x, In a vals -> conv a = Some (Some x) -> Q x) ->
  assign conv cur vals = Some y -> Q y.
Proof.
  intros A conv Q vals. induction vals as [|a r IH]; simpl; intros cur y Hc Hall H.
  - inversion H; subst; auto.
  - destruct (conv a) as [[x|]|] eqn:E; try discriminate.
    + eapply IH; [ | | exact H]; eauto.
    + eapply IH; [ | | exact H]; eauto.
Qed.

Lemma has_key_in : forall A k (l : list (string * A)), has_key k l = true -> exists v, In (k, v) l.
Proof.
  induction l as [|[k' v] r IH]; simpl; intros H; try discriminate.
  destruct (String.eqb_spec k k').
  - subst. eexists; left; reflexivity.
  - destruct (IH H) as [x Hx]. eexists; right; eauto.
Qed.

Lemma dedup_last_sub : forall A (l : list (string * A)) kv, In kv (dedup_last l) -> In kv l.
Proof.
  induction l as [|[k v] r IH]; simpl; intros kv H; auto.
  destruct (has_key k r); [right; auto|].
  destruct H; [left; auto | right; auto].
Qed.

Lemma has_key_dedup : forall A k (l : list (string * A)), has_key k (dedup_last l) = has_key k l.
Proof.
  induction l as [|[k' v] r IH]; simpl; auto.
  destruct (has_key k' r) eqn:E; simpl.
  - rewrite IH. destruct (String.eqb_spec k k'); subst; auto.
  - rewrite IH. reflexivity.
Qed.

Lemma dedup_last_nodup : forall A (l : list (string * A)), nodup_keys (dedup_last l) = true.
Proof.
  induction l as [|[k v] r IH]; simpl; auto.
  destruct (has_key k r) eqn:E; auto.
  simpl. rewrite has_key_dedup, E. auto.
Qed.

Lemma dedup_last_id : forall A (l : list (string * A)), nodup_keys l = true -> dedup_last l = l.
Proof.
  induction l as [|[k v] r IH]; simpl; auto.
  destruct (has_key k r); intros H; try discriminate. rewrite IH; auto.
Qed.

(* ------------------------------------------------------------------ C10: the decoder *)
Section Decoder.
  Variable T : json_tags.

  Definition ann_wf (o : option rvalue) : Prop := forall r, o = Some r -> wf T r = true.

  Fixpoint ann_ok (a : ajson) : Prop :=
    match a with
    | AArr l => (fix all (l : list (ajson * option rvalue)) : Prop :=
                   match l with
                   | [] => True
                   | (c, o) :: r => ann_ok c /\ ann_wf o /\ all r
                   end) l
    | AObj l => (fix all (l : aentries) : Prop :=
                   match l with
                   | [] => True
                   | (_, (c, o)) :: r => ann_ok c /\ ann_wf o /\ all r
                   end) l
    | _ => True
    end.

  Fixpoint entries_ok (l : aentries) : Prop :=
    match l with
    | [] => True
    | (_, (c, o)) :: r => ann_ok c /\ ann_wf o /\ entries_ok r
    end.

  Fixpoint elems_ok (l : list (ajson * option rvalue)) : Prop :=
    match l with
    | [] => True
    | (c, o) :: r => ann_ok c /\ ann_wf o /\ elems_ok r
    end.

  Lemma ann_ok_obj : forall l, ann_ok (AObj l) <-> entries_ok l.
  Proof. induction l as [|[k [c o]] r IH]; simpl in *; tauto. Qed.

  Lemma ann_ok_arr : forall l, ann_ok (AArr l) <-> elems_ok l.
  Proof. induction l as [|[c o] r IH]; simpl in *; tauto. Qed.

  Lemma entries_ok_app : forall a b, entries_ok a -> entries_ok b -> entries_ok (a ++ b).
  Proof. induction a as [|[k [c o]] r IH]; simpl; intros; auto. tauto. Qed.

  Lemma obj_entries_ok : forall a fs, ann_ok a -> obj_entries a = Some fs -> entries_ok fs.
  Proof.
    intros a fs Ha H. destruct a; simpl in H; inversion H; subst; simpl; auto.
    apply ann_ok_obj; auto.
  Qed.

  Lemma field_vals_ok : forall f fs, entries_ok fs -> Forall ann_ok (field_vals f fs).
  Proof.
    intros f. unfold field_vals. induction fs as [|[k [c o]] r IH]; simpl; intros H; auto.
    destruct H as (Hc & Ho & Hr). destruct (key_match k f); simpl; auto.
  Qed.

  Lemma inner_entries_ok : forall vals inner,
    Forall ann_ok vals -> inner_entries vals = Some inner -> entries_ok inner.
  Proof.
    induction vals as [|a r IH]; simpl; intros inner Hall H.
    - inversion H; simpl; auto.
    - inversion Hall; subst. destruct a; try discriminate; auto.
      destruct (inner_entries r) eqn:E; try discriminate. inversion H; subst.
      apply entries_ok_app; auto. apply ann_ok_obj; auto.
  Qed.

  Definition nil_or_wf (r : rvalue) : Prop := r = RNil \/ wf T r = true.

  Lemma elems_nil_or_wf : forall l l', elems_ok l -> elems l = Some l' -> Forall nil_or_wf l'.
  Proof.
    induction l as [|[c o] r IH]; simpl; intros l' Hok H.
    - inversion H; auto.
    - destruct Hok as (Hc & Ho & Hr).
      destruct c; destruct o as [v|]; try discriminate;
        destruct (elems r) eqn:E; try discriminate; inversion H; subst;
          constructor; auto; try (left; reflexivity); right; apply Ho; reflexivity.
  Qed.

  Lemma no_nil_wf : forall l, Forall nil_or_wf l -> existsb is_nil l = false -> forallb (wf T) l = true.
  Proof.
    induction l as [|x r IH]; simpl; intros H E; auto.
    inversion H; subst. apply orb_false_iff in E. destruct E as [E1 E2].
    destruct H2 as [-> | Hw]; [discriminate|]. rewrite Hw, IH; auto.
  Qed.

  Lemma map_entries_nil_or_wf : forall l l',
    entries_ok l -> map_entries l = Some l' -> Forall (fun kv => nil_or_wf (snd kv)) l'.
  Proof.
    induction l as [|[k [c o]] r IH]; simpl; intros l' Hok H.
    - inversion H; auto.
    - destruct Hok as (Hc & Ho & Hr).
      destruct c; destruct o as [v|]; try discriminate;
        destruct (map_entries r) eqn:E; try discriminate; inversion H; subst;
          constructor; auto; simpl; try (left; reflexivity); right; apply Ho; reflexivity.
  Qed.

  Lemma no_nil_wf_entries : forall (l : list (string * rvalue)),
    Forall (fun kv => nil_or_wf (snd kv)) l ->
    existsb (fun kv => is_nil (snd kv)) l = false ->
    forallb (fun kv => wf T (snd kv)) l = true.
  Proof.
    induction l as [|x r IH]; simpl; intros H E; auto.
    inversion H; subst. apply orb_false_iff in E. destruct E as [E1 E2].
    destruct H2 as [Hn | Hw]; [rewrite Hn in E1; discriminate|]. rewrite Hw, IH; auto.
  Qed.

  Lemma dec_map_wf : forall a m, ann_ok a -> dec_map a = Some m -> wf_map T m = true.
  Proof.
    intros a m Ha H. destruct a; simpl in H; try discriminate.
    - inversion H; reflexivity.
    - destruct (map_entries l) as [es|] eqn:E; try discriminate.
      destruct (existsb _ (dedup_last es)) eqn:E2; try discriminate. inversion H; subst.
      unfold wf_map. rewrite dedup_last_nodup, andb_true_r.
      apply no_nil_wf_entries; auto.
      apply Forall_forall. intros kv Hin. apply dedup_last_sub in Hin.
      pose proof (map_entries_nil_or_wf l es (proj1 (ann_ok_obj l) Ha) E) as F.
      rewrite Forall_forall in F. auto.
  Qed.

  Lemma wf_map_split : forall m, wf_map T m = true ->
    forallb (fun kv => wf T (snd kv)) m = true /\ nodup_keys m = true.
  Proof. intros m H. apply andb_true_iff in H. auto. Qed.

  (* the heart of C10: whatever the document, a successful decoding is well-formed *)
  Lemma dec_value_wf : forall a r, ann_ok a -> dec_value T a = Some r -> wf T r = true.
  Proof.
    intros a r Ha H. unfold dec_value in H.
    destruct (obj_entries a) as [fs|] eqn:Efs; try discriminate.
    pose proof (obj_entries_ok a fs Ha Efs) as Hfs.
    destruct (assign conv_int 0%Z (field_vals (dk_t T) fs)) as [t|] eqn:Et; try discriminate.
    destruct (dispatch T t) as [k|] eqn:Ek; try discriminate.
    pose proof (dispatch_sound T t k Ek) as Hk.
    pose proof (field_vals_ok (dk_v T) fs Hfs) as Hvs.
    destruct k.
    - (* int *)
      destruct (assign conv_int 0%Z (field_vals (dk_v T) fs)) as [z|] eqn:Ez; try discriminate.
      inversion H; subst. simpl. rewrite Z.eqb_refl. simpl.
      eapply (assign_inv Z conv_int (fun z => in_i64b z = true)); [ | | exact Ez].
      + reflexivity.
      + intros a0 x _ Hc. destruct a0; simpl in Hc; try discriminate.
        destruct (in_i64b z0) eqn:E; inversion Hc; subst; auto.
    - (* float *)
      destruct (assign conv_float 0%N (field_vals (dk_v T) fs)) as [b|] eqn:Ez; try discriminate.
      inversion H; subst. simpl. rewrite Z.eqb_refl. simpl.
      eapply (assign_inv N conv_float (fun b => f_finite b = true)); [ | | exact Ez].
      + reflexivity.
      + intros a0 x _ Hc. destruct a0; simpl in Hc; try discriminate.
        * destruct (z2f z) eqn:E; inversion Hc; subst.
          (* z2f produces finite bits *)
          clear - E. unfold z2f in E.
          destruct (Z.abs_N z =? 0)%N; [inversion E; reflexivity|].
          revert E. generalize (if (z <? 0)%Z then 9223372036854775808%N else 0%N) as sg.
          intros sg E. admit.
        * destruct (f_finite b) eqn:E; inversion Hc; subst; auto.
    - admit. - admit. - admit. - admit. - admit. - admit. - admit. - admit.
  Admitted.
End Decoder.
