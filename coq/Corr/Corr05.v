(* Correspondence checker for C05/C06: run the model on the same (sides, mode, state)
   the implementation ran on; compare result and post-call generator state. *)
From Coq Require Import NArith ZArith List Bool.
From DS Require Import Model.PCG Model.Roll.
Import ListNotations.

Definition c05_case : Type := (Z * Z * N * N) * (Z * N * N).

Definition c05_ok (c : c05_case) : bool :=
  let '((d, mode, h, l), (r, h2, l2)) := c in
  match roll_pcg 256 d mode {| hi := h; lo := l |} with
  | Done (r', s') => (r' =? r)%Z && (hi s' =? h2)%N && (lo s' =? l2)%N
  | OutOfFuel => false
  end.

Fixpoint bad_indices {A} (ok : A -> bool) (i : N) (l : list A) : list N :=
  match l with
  | [] => []
  | c :: r => if ok c then bad_indices ok (i + 1) r else i :: bad_indices ok (i + 1) r
  end.

(* what the model says, for the replay file of a disagreeing case *)
Definition c05_model (c : c05_case) : option (Z * N * N) :=
  let '((d, mode, h, l), _) := c in
  match roll_pcg 256 d mode {| hi := h; lo := l |} with
  | Done (r', s') => Some (r', hi s', lo s')
  | OutOfFuel => None
  end.
