package main

import (
	ds "github.com/sealdice/dicescript"
)

// treeSize is the number of nodes of the TREE UNFOLDING of a value (what a tree-shaped text such as JSON has to
// write), computed on the object graph with a memo per container payload, so it is cheap even when the unfolding is
// astronomically large; graphSize is the number of distinct containers. A container on the current path (a cycle)
// counts 1: the serialiser stops there with an error. Used to delimit the recorded finding
// "json-of-shared-structure-is-its-tree-unfolding": ToJSON is skipped only when the unfolding is huge although the
// graph is small.
func treeSize(v *ds.VMValue, memo map[any]float64, onPath map[any]bool) float64 {
	if v == nil {
		return 1
	}
	var kids []*ds.VMValue
	var key any
	switch v.TypeId {
	case ds.VMTypeArray:
		ad, _ := v.ReadArray()
		key = ad
		kids = ad.List
	case ds.VMTypeDict:
		dd, _ := v.ReadDictData()
		key = dd
		dd.Dict.Range(func(_ string, x *ds.VMValue) bool { kids = append(kids, x); return true })
	case ds.VMTypeComputedValue:
		cd, _ := v.ReadComputed()
		key = cd
		if cd.Attrs != nil {
			cd.Attrs.Range(func(_ string, x *ds.VMValue) bool { kids = append(kids, x); return true })
		}
	default:
		return 1
	}
	if n, ok := memo[key]; ok {
		return n
	}
	if onPath[key] {
		return 1
	}
	onPath[key] = true
	n := 1.0
	for _, k := range kids {
		n += treeSize(k, memo, onPath)
	}
	delete(onPath, key)
	memo[key] = n
	return n
}

func attrsTreeSize(m *ds.ValueMap) (tree float64, graph int) {
	memo := map[any]float64{}
	tree = 1
	if m == nil {
		return
	}
	m.Range(func(_ string, x *ds.VMValue) bool { tree += treeSize(x, memo, map[any]bool{}); return true })
	return tree, len(memo)
}

func init() {
	// demonstration for the recorded finding json-of-shared-structure-is-its-tree-unfolding: k doubling steps
	// (`a=[a,a]`, six operations each) double the JSON text; measured for small k, where it still returns
	cmds["c09-tree"] = func(args []string) {
		var rows []map[string]any
		for _, k := range []int{4, 8, 12, 16} {
			vm := ds.NewVM()
			vm.Config.OpCountLimit = 30000
			src := "a=[1]"
			for i := 0; i < k; i++ {
				src += "; a=[a,a]"
			}
			err := vm.Run(src)
			tree, graph := attrsTreeSize(vm.Attrs)
			b, jerr := vm.Attrs.ToJSON()
			rows = append(rows, map[string]any{"steps": k, "ops": vm.NumOpCount, "run_err": err != nil, "json_err": jerr != nil, "json_bytes": len(b),
				"text_bytes": len(vm.Ret.ToString()), "tree_nodes": tree, "containers": graph})
		}
		emit(map[string]any{"rows": rows})
	}
}
