(* Theorems about Model/Dice.v (RollCommon, RollCoC, RollFate, RollWoD, RollDoubleCross):
   legality of the dice, sort / keep-drop structure, exact sums, min/max modes (C15),
   Fate and CoC closed forms. *)
From Coq Require Import String Ascii NArith ZArith List Bool Lia ZifyBool Permutation Sorted.
From Coq Require Import Decimal DecimalString DecimalPos DecimalZ.
From DS Require Import Model.PCG Model.Roll Model.Str Model.Dice Proofs.RollProofs.
Import ListNotations.
Open Scope string_scope.
Open Scope Z_scope.

(* CoC value of a (tens digit, units digit) pair: 00 reads as 100 *)
Definition coc_val (t u : Z) : Z := if (t =? 0) && (u =? 0) then 100 else 10 * t + u.

(* number of occurrences of a character in a string *)
Fixpoint count_char (c : ascii) (s : string) : Z :=
  match s with
  | EmptyString => 0
  | String a r => (if Ascii.eqb a c then 1 else 0) + count_char c r
  end.

Definition fate_char (a : ascii) : Prop := a = "+"%char \/ a = "-"%char \/ a = "0"%char.

(* ---- WoD / Double Cross round structure ---- *)
Definition countZ (f : Z -> bool) (l : list Z) : Z := Z.of_nat (length (filter f l)).
Definition wod_reach (addLine x : Z) : bool := negb (addLine =? 0) && (addLine <=? x).
Definition wod_succ (threshold : Z) (isGE : bool) (x : Z) : bool :=
  if isGE then threshold <=? x else x <=? threshold.
Definition dc_reach (addLine x : Z) : bool := addLine <=? x.
(* maxDice update of RollDoubleCross for one die *)
Definition dc_mx_step (addLine mx one : Z) : Z := if addLine <=? one then 10 else Z.max mx one.
Definition dc_round_max (addLine : Z) (r : list Z) : Z := fold_left (dc_mx_step addLine) r 0.
Definition dice_max (r : list Z) : Z := fold_left Z.max r 0.

(* rounds: the first has n dice; each later round has as many dice as the previous
   round had dice reaching the add line; the last round has none reaching it *)
Inductive round_chain (reach : Z -> bool) : nat -> list (list Z) -> Prop :=
| chain_last n r : length r = n -> filter reach r = [] -> round_chain reach n [r]
| chain_more n r rs : length r = n -> filter reach r <> [] ->
                      round_chain reach (length (filter reach r)) rs ->
                      round_chain reach n (r :: rs).

(* ---- characters of a rendered number: '-' and the ten digits ---- *)
Definition numc (a : ascii) : bool :=
  existsb (Ascii.eqb a) (list_ascii_of_string "-0123456789").
Fixpoint all_numc (s : string) : bool :=
  match s with EmptyString => true | String a r => numc a && all_numc r end.

Section Source.
  Variable S : Type.
  Variable next : S -> N * S.
  Hypothesis next_word : forall s, (fst (next s) < W64)%N.

  (* ------------------------------------------------------------------ *)
  (* generic helpers                                                     *)
  (* ------------------------------------------------------------------ *)
  Lemma wrap64_small z : - two63 <= z < two63 -> wrap64 z = z.
  Proof.
    intros H. unfold wrap64. unfold two63, two64 in *.
    rewrite Z.mod_small by lia. lia.
  Qed.

  Lemma Forall_firstn_Z (P : Z -> Prop) n l : Forall P l -> Forall P (firstn n l).
  Proof.
    revert n. induction l as [|x r IH]; intros n H; destruct n as [|n]; cbn [firstn];
      try constructor.
    - inversion H; assumption.
    - apply IH. inversion H; assumption.
  Qed.

  Lemma firstn_repeat_Z (c : Z) n m : (n <= m)%nat -> firstn n (repeat c m) = repeat c n.
  Proof.
    revert m. induction n as [|n IH]; intros m H; [reflexivity|].
    destruct m as [|m]; [lia|]. cbn [repeat firstn]. f_equal. apply IH. lia.
  Qed.

  Lemma Forall_repeat_Z (P : Z -> Prop) c n : P c -> Forall P (repeat c n).
  Proof. intros H. induction n; cbn [repeat]; constructor; assumption. Qed.

  Lemma sum_repeat c n : fold_right Z.add 0 (repeat c n) = Z.of_nat n * c.
  Proof. induction n as [|n IH]; cbn [repeat fold_right]; [lia|]. rewrite IH. lia. Qed.

  Lemma sum_bounds lo hi l :
    Forall (fun x => lo <= x <= hi) l ->
    Z.of_nat (length l) * lo <= fold_right Z.add 0 l <= Z.of_nat (length l) * hi.
  Proof.
    induction 1 as [|x r Hx Hr IH]; cbn [length fold_right]; [lia|].
    rewrite Nat2Z.inj_succ. lia.
  Qed.

  (* ------------------------------------------------------------------ *)
  (* clampdie                                                            *)
  (* ------------------------------------------------------------------ *)
  Lemma clampdie_mono dmin dmax a b : a <= b -> clampdie dmin dmax a <= clampdie dmin dmax b.
  Proof.
    intros H. unfold clampdie. destruct dmax as [mx|]; destruct dmin as [mn|];
      try (destruct (Z.ltb_spec mx a); destruct (Z.ltb_spec mx b));
      repeat match goal with |- context [?x <? ?y] => destruct (Z.ltb_spec x y) end; lia.
  Qed.

  (* ------------------------------------------------------------------ *)
  (* (1) roll_many: k dice, each a clamped legal face                    *)
  (* ------------------------------------------------------------------ *)
  Definition legal_die (d : Z) (dmin dmax : option Z) (x : Z) : Prop :=
    exists raw, 1 <= raw <= d /\ x = clampdie dmin dmax raw.

  Theorem roll_many_legal fuel k d mode dmin dmax s l s' :
    1 <= d <= MaxInt64 - 1 ->
    roll_many next fuel k d mode dmin dmax s = Done (l, s') ->
    length l = k /\
    Forall (fun x => exists raw, 1 <= raw <= d /\ x = clampdie dmin dmax raw) l.
  Proof.
    intros Hd. revert s l s'. induction k as [|k IH]; intros s l s' H; cbn [roll_many] in H.
    - inversion H; subst. split; [reflexivity|constructor].
    - destruct (roll next fuel d mode s) as [[die s1]|] eqn:Er; [|discriminate].
      destruct (roll_many next fuel k d mode dmin dmax s1) as [[r s2]|] eqn:Em; [|discriminate].
      inversion H; subst. destruct (IH _ _ _ Em) as [HL HF].
      split; [cbn [length]; f_equal; exact HL|]. constructor; [|exact HF].
      exists die. split; [|reflexivity].
      eapply (roll_range S next next_word); eassumption.
  Qed.

  (* ------------------------------------------------------------------ *)
  (* (2) insertion sort                                                  *)
  (* ------------------------------------------------------------------ *)
  Lemma insert_by_perm le x l : Permutation (insert_by le x l) (x :: l).
  Proof.
    induction l as [|y r IH]; cbn [insert_by]; [apply Permutation_refl|].
    destruct (le x y); [apply Permutation_refl|].
    eapply Permutation_trans; [apply perm_skip; exact IH|apply perm_swap].
  Qed.

  Theorem sort_by_perm le l : Permutation (sort_by le l) l.
  Proof.
    induction l as [|x r IH]; cbn [sort_by]; [constructor|].
    eapply Permutation_trans; [apply insert_by_perm|apply perm_skip; exact IH].
  Qed.

  Section SortGen.
    Variable le : Z -> Z -> bool.
    Variable R : Z -> Z -> Prop.
    Hypothesis R_trans : forall x y z, R x y -> R y z -> R x z.
    Hypothesis le_true : forall x y, le x y = true -> R x y.
    Hypothesis le_false : forall x y, le x y = false -> R y x.

    Lemma insert_by_ssorted x l : StronglySorted R l -> StronglySorted R (insert_by le x l).
    Proof.
      induction 1 as [|y r Hs IH Hf]; cbn [insert_by].
      - constructor; constructor.
      - destruct (le x y) eqn:E.
        + constructor; [constructor; assumption|].
          constructor; [apply le_true; exact E|].
          eapply Forall_impl; [|exact Hf]. intros z Hz. eapply R_trans; [apply le_true; exact E|exact Hz].
        + constructor; [exact IH|].
          eapply Permutation_Forall; [apply Permutation_sym, insert_by_perm|].
          constructor; [apply le_false; exact E|exact Hf].
    Qed.

    Lemma sort_by_ssorted l : StronglySorted R (sort_by le l).
    Proof.
      induction l as [|x r IH]; cbn [sort_by]; [constructor|].
      apply insert_by_ssorted; exact IH.
    Qed.
  End SortGen.

  Theorem sort_by_leb_ssorted l : StronglySorted Z.le (sort_by Z.leb l).
  Proof.
    apply sort_by_ssorted.
    - intros x y z; lia.
    - intros x y H; lia.
    - intros x y H; lia.
  Qed.

  Theorem sort_by_geb_ssorted l : StronglySorted Z.ge (sort_by Z.geb l).
  Proof.
    apply sort_by_ssorted.
    - intros x y z; lia.
    - intros x y H; rewrite Z.geb_leb in H; lia.
    - intros x y H; rewrite Z.geb_leb in H; lia.
  Qed.

  Theorem sort_by_leb_sorted l : Sorted Z.le (sort_by Z.leb l).
  Proof. apply StronglySorted_Sorted, sort_by_leb_ssorted. Qed.

  Theorem sort_by_geb_sorted l : Sorted Z.ge (sort_by Z.geb l).
  Proof. apply StronglySorted_Sorted, sort_by_geb_ssorted. Qed.

  (* kept / dropped split of a strongly sorted list *)
  Lemma ssorted_firstn_skipn (R : Z -> Z -> Prop) l :
    StronglySorted R l ->
    forall p x y, In x (firstn p l) -> In y (skipn p l) -> R x y.
  Proof.
    induction 1 as [|a r Hs IH Hf]; intros p x y Hx Hy.
    - destruct p; cbn in Hx; contradiction.
    - destruct p as [|p]; cbn [firstn skipn] in *; [contradiction|].
      destruct Hx as [<-|Hx].
      + rewrite Forall_forall in Hf. apply Hf.
        rewrite <- (firstn_skipn p r). apply in_or_app. right; exact Hy.
      + eapply IH; eassumption.
  Qed.

  (* ------------------------------------------------------------------ *)
  (* (3) pick_num                                                        *)
  (* ------------------------------------------------------------------ *)
  Theorem pick_num_range times keep lowNum highNum :
    0 <= times -> 0 <= pick_num times keep lowNum highNum <= times.
  Proof.
    intros Ht. unfold pick_num.
    destruct (keep =? 0); [lia|].
    generalize (if (keep =? 1) || (keep =? 3) then lowNum
                else if (keep =? 2) || (keep =? 4) then highNum else times).
    intros p0.
    generalize (if 2 <? keep then wrap64 (times - p0) else p0). intros p1.
    destruct (Z.ltb_spec p1 0).
    - destruct (Z.ltb_spec times 0); lia.
    - destruct (Z.ltb_spec times p1); lia.
  Qed.

  (* ------------------------------------------------------------------ *)
  (* (4) sum64 without wrap-around                                       *)
  (* ------------------------------------------------------------------ *)
  Lemma sum64_acc l : forall a B,
    Forall (fun x => - B <= x <= B) l ->
    Z.abs a + Z.of_nat (length l) * B < two63 ->
    fold_left (fun a x => wrap64 (a + x)) l a = a + fold_right Z.add 0 l.
  Proof.
    induction l as [|x r IH]; intros a B HF Hb; cbn [fold_left fold_right length] in *; [lia|].
    inversion HF as [|x' r' Hx Hr]; subst.
    assert (HB : 0 <= Z.of_nat (length r) * B) by nia.
    rewrite Nat2Z.inj_succ in Hb.
    rewrite wrap64_small by lia.
    rewrite (IH (a + x) B Hr) by lia. lia.
  Qed.

  Theorem sum64_exact_abs B l :
    Forall (fun x => - B <= x <= B) l ->
    Z.of_nat (length l) * B < two63 ->
    sum64 l = fold_right Z.add 0 l.
  Proof.
    intros HF Hb. unfold sum64. rewrite (sum64_acc l 0 B HF) by (cbn [Z.abs]; lia). lia.
  Qed.

  Theorem sum64_exact B l :
    Forall (fun x => 0 <= x <= B) l ->
    Z.of_nat (length l) * B < two63 ->
    sum64 l = fold_right Z.add 0 l.
  Proof.
    intros HF Hb. apply (sum64_exact_abs B); [|exact Hb].
    eapply Forall_impl; [|exact HF]. cbv beta. intros x Hx. lia.
  Qed.

  (* ------------------------------------------------------------------ *)
  (* (5) RollCommon                                                      *)
  (* ------------------------------------------------------------------ *)
  Lemma sorted_nums_perm keep l : Permutation (sorted_nums keep l) l.
  Proof.
    unfold sorted_nums. destruct (keep =? 0); [apply Permutation_refl|].
    destruct ((keep =? 1) || (keep =? 4)); apply sort_by_perm.
  Qed.

  Theorem roll_common_legal fuel times d dmin dmax keep lowNum highNum mode s num txt s' :
    0 <= times -> 1 <= d <= MaxInt64 - 1 ->
    roll_common next fuel times d dmin dmax keep lowNum highNum mode s = Done ((num, txt), s') ->
    exists draws shown : list Z,
      roll_many next fuel (Z.to_nat times) d mode dmin dmax s = Done (draws, s') /\
      Permutation shown draws /\
      Z.of_nat (length shown) = times /\
      Forall (fun x => exists raw, 1 <= raw <= d /\ x = clampdie dmin dmax raw) shown /\
      (keep = 0 -> shown = draws) /\
      (keep = 1 \/ keep = 4 -> StronglySorted Z.le shown) /\
      (keep = 2 \/ keep = 3 -> StronglySorted Z.ge shown) /\
      num = sum64 (firstn (Z.to_nat (pick_num times keep lowNum highNum)) shown) /\
      txt = common_text times (pick_num times keep lowNum highNum) shown.
  Proof.
    intros Ht Hd H. unfold roll_common in H.
    destruct (roll_many next fuel (Z.to_nat times) d mode dmin dmax s) as [[draws s1]|] eqn:Em;
      [|discriminate].
    cbv zeta in H. inversion H; subst. clear H.
    destruct (roll_many_legal _ _ _ _ _ _ _ _ _ Hd Em) as [HL HF].
    pose proof (sorted_nums_perm keep draws) as HP.
    exists draws, (sorted_nums keep draws).
    split; [reflexivity|]. split; [exact HP|].
    split; [rewrite (Permutation_length HP), HL; lia|].
    split; [eapply Permutation_Forall; [apply Permutation_sym; exact HP|exact HF]|].
    split; [intros ->; reflexivity|].
    split; [|split; [|split; reflexivity]].
    - intros [-> | ->]; cbn; apply sort_by_leb_ssorted.
    - intros [-> | ->]; cbn; apply sort_by_geb_ssorted.
  Qed.

  (* kl / dh keep the p smallest, kh / dl keep the p largest *)
  Theorem roll_common_keeps_extremes fuel times d dmin dmax keep lowNum highNum mode s num txt s' :
    0 <= times -> 1 <= d <= MaxInt64 - 1 ->
    roll_common next fuel times d dmin dmax keep lowNum highNum mode s = Done ((num, txt), s') ->
    exists draws shown : list Z,
      roll_many next fuel (Z.to_nat times) d mode dmin dmax s = Done (draws, s') /\
      Permutation shown draws /\
      num = sum64 (firstn (Z.to_nat (pick_num times keep lowNum highNum)) shown) /\
      (keep = 1 \/ keep = 4 ->
       forall x y, In x (firstn (Z.to_nat (pick_num times keep lowNum highNum)) shown) ->
                   In y (skipn (Z.to_nat (pick_num times keep lowNum highNum)) shown) -> x <= y) /\
      (keep = 2 \/ keep = 3 ->
       forall x y, In x (firstn (Z.to_nat (pick_num times keep lowNum highNum)) shown) ->
                   In y (skipn (Z.to_nat (pick_num times keep lowNum highNum)) shown) -> x >= y).
  Proof.
    intros Ht Hd H.
    destruct (roll_common_legal _ _ _ _ _ _ _ _ _ _ _ _ _ Ht Hd H)
      as (draws & shown & Hm & HP & _ & _ & _ & Hasc & Hdesc & Hnum & _).
    exists draws, shown. repeat split; try assumption.
    - intros Hk x y. apply ssorted_firstn_skipn. apply Hasc; exact Hk.
    - intros Hk x y. apply (ssorted_firstn_skipn Z.ge). apply Hdesc; exact Hk.
  Qed.

  (* ------------------------------------------------------------------ *)
  (* (6a) min / max modes of RollCommon                                  *)
  (* ------------------------------------------------------------------ *)
  Lemma roll_min_mode fuel d s :
    roll next fuel d (-1) s = Done ((if d =? 0 then 0 else 1), s).
  Proof. apply (roll_minmax_consumes_nothing S next). Qed.

  Lemma roll_max_mode fuel d s : roll next fuel d 1 s = Done (d, s).
  Proof. apply (roll_minmax_consumes_nothing S next). Qed.

  Lemma roll_many_min fuel k d dmin dmax s :
    roll_many next fuel k d (-1) dmin dmax s =
    Done (repeat (clampdie dmin dmax (if d =? 0 then 0 else 1)) k, s).
  Proof.
    induction k as [|k IH]; cbn [roll_many repeat]; [reflexivity|].
    rewrite roll_min_mode, IH. reflexivity.
  Qed.

  Lemma roll_many_max fuel k d dmin dmax s :
    roll_many next fuel k d 1 dmin dmax s = Done (repeat (clampdie dmin dmax d) k, s).
  Proof.
    induction k as [|k IH]; cbn [roll_many repeat]; [reflexivity|].
    rewrite roll_max_mode, IH. reflexivity.
  Qed.

  Lemma insert_by_repeat le c n : le c c = true -> insert_by le c (repeat c n) = c :: repeat c n.
  Proof. intros H. destruct n; cbn [repeat insert_by]; [reflexivity|]. rewrite H. reflexivity. Qed.

  Lemma sort_by_repeat le c n : le c c = true -> sort_by le (repeat c n) = repeat c n.
  Proof.
    intros H. induction n as [|n IH]; cbn [repeat sort_by]; [reflexivity|].
    rewrite IH. apply insert_by_repeat; exact H.
  Qed.

  Lemma sorted_nums_repeat keep c n : sorted_nums keep (repeat c n) = repeat c n.
  Proof.
    unfold sorted_nums. destruct (keep =? 0); [reflexivity|].
    destruct ((keep =? 1) || (keep =? 4)); apply sort_by_repeat.
    - apply Z.leb_refl.
    - rewrite Z.geb_leb. apply Z.leb_refl.
  Qed.

  Lemma roll_common_constant fuel times d dmin dmax keep lo hi mode s c :
    0 <= times ->
    roll_many next fuel (Z.to_nat times) d mode dmin dmax s = Done (repeat c (Z.to_nat times), s) ->
    roll_common next fuel times d dmin dmax keep lo hi mode s =
    Done ((sum64 (repeat c (Z.to_nat (pick_num times keep lo hi))),
           common_text times (pick_num times keep lo hi) (repeat c (Z.to_nat times))), s).
  Proof.
    clear next_word. intros Ht Hm. unfold roll_common. rewrite Hm. cbv zeta.
    rewrite sorted_nums_repeat.
    pose proof (pick_num_range times keep lo hi Ht) as Hp.
    rewrite firstn_repeat_Z by lia. reflexivity.
  Qed.

  (* every die shows its lowest face; nothing is drawn; never out of fuel *)
  Theorem roll_common_min_gen fuel times d dmin dmax keep lo hi s :
    0 <= times ->
    roll_common next fuel times d dmin dmax keep lo hi (-1) s =
    Done ((sum64 (repeat (clampdie dmin dmax (if d =? 0 then 0 else 1))
                         (Z.to_nat (pick_num times keep lo hi))),
           common_text times (pick_num times keep lo hi)
                       (repeat (clampdie dmin dmax (if d =? 0 then 0 else 1)) (Z.to_nat times))), s).
  Proof. intros Ht. apply roll_common_constant; [exact Ht|apply roll_many_min]. Qed.

  Theorem roll_common_min fuel times d dmin dmax keep lo hi s :
    0 <= times -> 1 <= d ->
    roll_common next fuel times d dmin dmax keep lo hi (-1) s =
    Done ((sum64 (repeat (clampdie dmin dmax 1) (Z.to_nat (pick_num times keep lo hi))),
           common_text times (pick_num times keep lo hi)
                       (repeat (clampdie dmin dmax 1) (Z.to_nat times))), s).
  Proof.
    clear next_word. intros Ht Hd. rewrite roll_common_min_gen by exact Ht.
    destruct (Z.eqb_spec d 0); [lia|reflexivity].
  Qed.

  (* every die shows its highest face; nothing is drawn; never out of fuel *)
  Theorem roll_common_max fuel times d dmin dmax keep lo hi s :
    0 <= times ->
    roll_common next fuel times d dmin dmax keep lo hi 1 s =
    Done ((sum64 (repeat (clampdie dmin dmax d) (Z.to_nat (pick_num times keep lo hi))),
           common_text times (pick_num times keep lo hi)
                       (repeat (clampdie dmin dmax d) (Z.to_nat times))), s).
  Proof. intros Ht. apply roll_common_constant; [exact Ht|apply roll_many_max]. Qed.

  (* ------------------------------------------------------------------ *)
  (* (6b) the random total lies between the min-mode and max-mode totals *)
  (* ------------------------------------------------------------------ *)
  Lemma sum64_repeat c n : Z.of_nat n * Z.abs c < two63 -> sum64 (repeat c n) = Z.of_nat n * c.
  Proof.
    intros H. rewrite (sum64_exact_abs (Z.abs c)).
    - apply sum_repeat.
    - apply Forall_repeat_Z. lia.
    - rewrite repeat_length. exact H.
  Qed.

  Theorem common_bracket fuel times d dmin dmax keep lo hi s num txt s' :
    let c1 := clampdie dmin dmax 1 in
    let cd := clampdie dmin dmax d in
    let p := pick_num times keep lo hi in
    0 <= times -> 1 <= d <= MaxInt64 - 1 ->
    times * Z.max (Z.abs c1) (Z.abs cd) < two63 ->
    roll_common next fuel times d dmin dmax keep lo hi 0 s = Done ((num, txt), s') ->
    p * c1 <= num <= p * cd /\
    (exists tmin, roll_common next fuel times d dmin dmax keep lo hi (-1) s = Done ((p * c1, tmin), s)) /\
    (exists tmax, roll_common next fuel times d dmin dmax keep lo hi 1 s = Done ((p * cd, tmax), s)).
  Proof.
    intros c1 cd p Ht Hd Hov H.
    pose proof (pick_num_range times keep lo hi Ht) as Hp. fold p in Hp.
    assert (HM : 0 <= Z.max (Z.abs c1) (Z.abs cd)) by lia.
    assert (Hpov : p * Z.max (Z.abs c1) (Z.abs cd) < two63) by nia.
    split; [|split].
    - destruct (roll_common_legal _ _ _ _ _ _ _ _ _ _ _ _ _ Ht Hd H)
        as (draws & shown & _ & _ & Hlen & HF & _ & _ & _ & Hnum & _).
      fold p in Hnum.
      assert (HF' : Forall (fun x => c1 <= x <= cd) shown).
      { eapply Forall_impl; [|exact HF]. cbv beta. intros x [raw [Hr ->]].
        split; apply clampdie_mono; lia. }
      assert (HK : Forall (fun x => c1 <= x <= cd) (firstn (Z.to_nat p) shown))
        by (apply Forall_firstn_Z; exact HF').
      assert (HlenK : Z.of_nat (length (firstn (Z.to_nat p) shown)) = p)
        by (rewrite firstn_length; lia).
      rewrite Hnum.
      rewrite (sum64_exact_abs (Z.max (Z.abs c1) (Z.abs cd))).
      + pose proof (sum_bounds c1 cd _ HK) as Hs. rewrite HlenK in Hs. exact Hs.
      + eapply Forall_impl; [|exact HK]. cbv beta. intros x Hx. lia.
      + rewrite HlenK. exact Hpov.
    - eexists. rewrite roll_common_min by lia. fold p c1.
      rewrite sum64_repeat by (rewrite Z2Nat.id by lia; nia).
      rewrite Z2Nat.id by lia. reflexivity.
    - eexists. rewrite roll_common_max by lia. fold p cd.
      rewrite sum64_repeat by (rewrite Z2Nat.id by lia; nia).
      rewrite Z2Nat.id by lia. reflexivity.
  Qed.

  (* ------------------------------------------------------------------ *)
  (* (7) Fate                                                            *)
  (* ------------------------------------------------------------------ *)
  Lemma sapp_assoc (a b c : string) : (a ++ b) ++ c = a ++ (b ++ c).
  Proof. induction a as [|ch a IH]; cbn [append]; [reflexivity|]. rewrite IH. reflexivity. Qed.

  Lemma sapp_length (a b : string) : String.length (a ++ b) = (String.length a + String.length b)%nat.
  Proof. induction a as [|ch a IH]; cbn [append String.length]; [reflexivity|]. rewrite IH. reflexivity. Qed.

  Ltac fate_eqb :=
    repeat match goal with
           | |- context [Ascii.eqb ?a ?b] =>
             let v := eval vm_compute in (Ascii.eqb a b) in change (Ascii.eqb a b) with v
           end; cbv iota.

  Lemma fate_loop_spec fuel mode k : forall sum detail s sum' txt s',
    fate_loop next fuel k mode sum detail s = Done ((sum', txt), s') ->
    exists suf, txt = detail ++ suf /\ String.length suf = k /\
                Forall fate_char (list_ascii_of_string suf) /\
                sum' = sum + count_char "+" suf - count_char "-" suf /\
                sum - Z.of_nat k <= sum' <= sum + Z.of_nat k.
  Proof.
    induction k as [|k IH]; intros sum detail s sum' txt s' H; cbn [fate_loop] in H.
    - inversion H; subst. exists "". repeat split; try (cbn; lia).
      + clear. induction txt as [|c t IHt]; cbn [append]; [reflexivity|]. rewrite <- IHt. reflexivity.
      + constructor.
    - destruct (roll next fuel 3 mode s) as [[r s1]|] eqn:Er; [|discriminate].
      assert (Hr : 1 <= r <= 3).
      { eapply (roll_range S next next_word); [|exact Er]. unfold MaxInt64. lia. }
      cbv zeta in H. apply IH in H. destruct H as (suf & Ht & Hl & Hc & Hs & Hb).
      assert (Hcases : r = 1 \/ r = 2 \/ r = 3) by lia.
      destruct Hcases as [-> | [-> | ->]]; cbn in Ht, Hs, Hb.
      + exists ("-" ++ suf). rewrite <- sapp_assoc.
        split; [exact Ht|]. split; [cbn; f_equal; exact Hl|].
        split; [cbn; constructor; [right; left; reflexivity|exact Hc]|].
        split; [cbn [append count_char]; fate_eqb; lia|]. rewrite Nat2Z.inj_succ. lia.
      + exists ("0" ++ suf). rewrite <- sapp_assoc.
        split; [exact Ht|]. split; [cbn; f_equal; exact Hl|].
        split; [cbn; constructor; [right; right; reflexivity|exact Hc]|].
        split; [cbn [append count_char]; fate_eqb; lia|]. rewrite Nat2Z.inj_succ. lia.
      + exists ("+" ++ suf). rewrite <- sapp_assoc.
        split; [exact Ht|]. split; [cbn; f_equal; exact Hl|].
        split; [cbn; constructor; [left; reflexivity|exact Hc]|].
        split; [cbn [append count_char]; fate_eqb; lia|]. rewrite Nat2Z.inj_succ. lia.
  Qed.

  Theorem roll_fate_spec fuel mode s sum txt s' :
    roll_fate next fuel mode s = Done ((sum, txt), s') ->
    String.length txt = 4%nat /\
    Forall fate_char (list_ascii_of_string txt) /\
    sum = count_char "+" txt - count_char "-" txt /\
    -4 <= sum <= 4.
  Proof.
    unfold roll_fate. intros H. apply fate_loop_spec in H.
    destruct H as (suf & Ht & Hl & Hc & Hs & Hb). cbn [append] in Ht. subst txt.
    repeat split; try assumption; try lia.
  Qed.

  Theorem roll_fate_min fuel s : roll_fate next fuel (-1) s = Done ((-4, "----"), s).
  Proof. unfold roll_fate. cbn [fate_loop]. rewrite !roll_min_mode. reflexivity. Qed.

  Theorem roll_fate_max fuel s : roll_fate next fuel 1 s = Done ((4, "++++"), s).
  Proof. unfold roll_fate. cbn [fate_loop]. rewrite !roll_max_mode. reflexivity. Qed.

  (* ------------------------------------------------------------------ *)
  (* (8) CoC bonus / penalty dice                                        *)
  (* ------------------------------------------------------------------ *)
  (* pure loop state (diceMin, diceMax, num10Exists) driven by displayed digits *)
  Definition coc_step (st : Z * Z * bool) (c : Z) : Z * Z * bool :=
    let '(a, b, ten) := st in
    if c =? 0 then (a, b, true)
    else ((if c <? a then c else a), (if b <? c then c else b), ten).

  Definition coc_bonus_val (u : Z) (st : Z * Z * bool) : Z :=
    let '(a, b, ten) := st in (if negb (u =? 0) && ten then 0 else a) * 10 + u.
  Definition coc_pen_val (u : Z) (st : Z * Z * bool) : Z :=
    let '(a, b, ten) := st in (if (u =? 0) && ten then 10 else b) * 10 + u.
  Definition coc_inv (u : Z) (st : Z * Z * bool) : Prop :=
    let '(a, b, ten) := st in
    0 <= a <= 10 /\ 0 <= b <= 10 /\ (u = 0 -> 1 <= a /\ 1 <= b) /\ (u <> 0 -> a <= 9 /\ b <= 9).

  Lemma show_Z_0 : show_Z 0 = "0".
  Proof. reflexivity. Qed.

  Lemma coc_die_range fuel isBonus mode s n s1 :
    coc_die next fuel isBonus mode s = Done (n, s1) -> 1 <= n <= 10.
  Proof.
    unfold coc_die. destruct ((mode =? -1) && negb isBonus).
    - intros E; inversion E; lia.
    - intros E. eapply (roll_range S next next_word); [|exact E]. unfold MaxInt64. lia.
  Qed.

  Lemma coc_loop_digits fuel isBonus mode k : forall nums a b ten s nums' a' b' ten' s',
    coc_loop next fuel k isBonus mode (nums, a, b, ten) s = Done ((nums', a', b', ten'), s') ->
    exists digits : list Z,
      length digits = k /\
      Forall (fun c => 0 <= c <= 9) digits /\
      nums' = (nums ++ map show_Z digits)%list /\
      (a', b', ten') = fold_left coc_step digits (a, b, ten).
  Proof.
    induction k as [|k IH]; intros nums a b ten s nums' a' b' ten' s' H; cbn [coc_loop] in H.
    - inversion H; subst. exists []. cbn [length map fold_left]. rewrite app_nil_r.
      repeat split. constructor.
    - destruct (coc_die next fuel isBonus mode s) as [[n s1]|] eqn:Er; [|discriminate].
      pose proof (coc_die_range _ _ _ _ _ _ Er) as Hn.
      destruct (Z.eqb_spec n 10) as [E|E].
      + apply IH in H. destruct H as (ds & Hl & Hf & Hnums & Hst).
        exists (0 :: ds). split; [cbn [length]; f_equal; exact Hl|].
        split; [constructor; [lia|exact Hf]|].
        split.
        * rewrite Hnums. cbn [map]. rewrite show_Z_0. rewrite <- app_assoc. reflexivity.
        * rewrite Hst. reflexivity.
      + apply IH in H. destruct H as (ds & Hl & Hf & Hnums & Hst).
        exists (n :: ds). split; [cbn [length]; f_equal; exact Hl|].
        split; [constructor; [lia|exact Hf]|].
        split.
        * rewrite Hnums. cbn [map]. rewrite <- app_assoc. reflexivity.
        * rewrite Hst. cbn [fold_left coc_step].
          destruct (Z.eqb_spec n 0); [lia|]. reflexivity.
  Qed.

  Lemma coc_val_range c u : 0 <= c <= 9 -> 0 <= u <= 9 -> 1 <= coc_val c u <= 100.
  Proof.
    intros Hc Hu. unfold coc_val.
    destruct (Z.eqb_spec c 0); destruct (Z.eqb_spec u 0); cbn [andb]; lia.
  Qed.

  Lemma coc_step_spec u st c :
    0 <= c <= 9 -> 0 <= u <= 9 -> coc_inv u st ->
    coc_inv u (coc_step st c) /\
    coc_bonus_val u (coc_step st c) = Z.min (coc_val c u) (coc_bonus_val u st) /\
    coc_pen_val u (coc_step st c) = Z.max (coc_val c u) (coc_pen_val u st).
  Proof.
    intros Hc Hu. destruct st as [[a b] ten]. unfold coc_inv, coc_step, coc_bonus_val, coc_pen_val, coc_val.
    intros (Ha & Hb & H0 & H1).
    destruct (Z.eqb_spec c 0) as [Ec|Ec]; destruct (Z.eqb_spec u 0) as [Eu|Eu];
      destruct ten; cbn [andb negb];
      try destruct (Z.ltb_spec c a); try destruct (Z.ltb_spec b c); lia.
  Qed.

  Lemma fold_min_shift x b l : fold_right Z.min (Z.min x b) l = Z.min x (fold_right Z.min b l).
  Proof. induction l as [|y r IH]; cbn [fold_right]; [reflexivity|]. rewrite IH. lia. Qed.
  Lemma fold_max_shift x b l : fold_right Z.max (Z.max x b) l = Z.max x (fold_right Z.max b l).
  Proof. induction l as [|y r IH]; cbn [fold_right]; [reflexivity|]. rewrite IH. lia. Qed.

  Lemma coc_fold u ds :
    0 <= u <= 9 -> Forall (fun c => 0 <= c <= 9) ds ->
    forall st, coc_inv u st ->
      coc_bonus_val u (fold_left coc_step ds st) =
        fold_right Z.min (coc_bonus_val u st) (map (fun c => coc_val c u) ds) /\
      coc_pen_val u (fold_left coc_step ds st) =
        fold_right Z.max (coc_pen_val u st) (map (fun c => coc_val c u) ds).
  Proof.
    intros Hu. induction 1 as [|c r Hc Hr IH]; intros st Hinv; cbn [fold_left map fold_right].
    - split; reflexivity.
    - destruct (coc_step_spec u st c Hc Hu Hinv) as (Hinv' & Hbv & Hpv).
      destruct (IH _ Hinv') as [IHb IHp].
      rewrite IHb, IHp, Hbv, Hpv, fold_min_shift, fold_max_shift. split; reflexivity.
  Qed.

  Lemma fold_min_range (lo hi b : Z) l :
    lo <= b <= hi -> Forall (fun x => lo <= x <= hi) l -> lo <= fold_right Z.min b l <= hi.
  Proof. intros Hb. induction 1; cbn [fold_right]; lia. Qed.
  Lemma fold_max_range (lo hi b : Z) l :
    lo <= b <= hi -> Forall (fun x => lo <= x <= hi) l -> lo <= fold_right Z.max b l <= hi.
  Proof. intros Hb. induction 1; cbn [fold_right]; lia. Qed.

  Theorem roll_coc_spec fuel isBonus diceNum mode s num txt s' :
    0 <= diceNum ->
    roll_coc next fuel isBonus diceNum mode s = Done ((num, txt), s') ->
    exists (res : Z) (digits : list Z),
      1 <= res <= 100 /\
      Z.of_nat (length digits) = diceNum /\
      Forall (fun c => 0 <= c <= 9) digits /\
      (let u := res mod 10 in
       let t0 := (res / 10) mod 10 in
       num = (if isBonus
              then fold_right Z.min (coc_val t0 u) (map (fun c => coc_val c u) digits)
              else fold_right Z.max (coc_val t0 u) (map (fun c => coc_val c u) digits))) /\
      1 <= num <= 100 /\
      txt = "(D100=" ++ show_Z res ++ (if isBonus then ",奖励" else ",惩罚")
              ++ join " " (map show_Z digits) ++ ")".
  Proof.
    intros Hd H. unfold roll_coc in H.
    destruct (roll next fuel 100 mode s) as [[res s1]|] eqn:Er; [|discriminate].
    assert (Hres : 1 <= res <= 100).
    { eapply (roll_range S next next_word); [|exact Er]. unfold MaxInt64. lia. }
    cbv zeta in H.
    rewrite Z.quot_div_nonneg in H by lia. rewrite Z.rem_mod_nonneg in H by lia.
    destruct (coc_loop next fuel (Z.to_nat diceNum) isBonus mode ([], res / 10, res / 10, false) s1)
      as [[[[[nums a] b] ten] s2]|] eqn:El; [|discriminate].
    apply coc_loop_digits in El. destruct El as (ds & Hl & Hf & Hnums & Hst).
    cbn [app] in Hnums. subst nums.
    set (u := res mod 10) in *. set (t0 := (res / 10) mod 10).
    assert (Hu : 0 <= u <= 9) by (subst u; lia).
    assert (Ht0 : 0 <= t0 <= 9) by (subst t0; lia).
    assert (Hinv : coc_inv u (res / 10, res / 10, false)).
    { unfold coc_inv. subst u. lia. }
    assert (Hbase : coc_val t0 u = res).
    { unfold coc_val. subst t0 u.
      destruct (Z.eqb_spec ((res / 10) mod 10) 0); destruct (Z.eqb_spec (res mod 10) 0);
        cbn [andb]; lia. }
    destruct (coc_fold u ds Hu Hf _ Hinv) as [Hb Hp]. rewrite <- Hst in Hb, Hp.
    assert (Hvals : Forall (fun x => 1 <= x <= 100) (map (fun c => coc_val c u) ds)).
    { rewrite Forall_map. eapply Forall_impl; [|exact Hf]. cbv beta. intros c Hc.
      apply coc_val_range; assumption. }
    exists res, ds.
    split; [exact Hres|]. split; [rewrite Hl; lia|]. split; [exact Hf|].
    fold u t0.
    destruct isBonus; inversion H; subst num txt s2; clear H.
    - unfold coc_bonus_val in Hb. rewrite andb_false_r in Hb. cbv zeta.
      replace (res / 10 * 10 + u) with (coc_val t0 u) in Hb by (rewrite Hbase; subst u; lia).
      split; [exact Hb|]. split; [|reflexivity].
      rewrite Hb. apply fold_min_range; [rewrite Hbase; lia|exact Hvals].
    - unfold coc_pen_val in Hp. rewrite andb_false_r in Hp. cbv zeta.
      replace (res / 10 * 10 + u) with (coc_val t0 u) in Hp by (rewrite Hbase; subst u; lia).
      split; [exact Hp|]. split; [|reflexivity].
      rewrite Hp. apply fold_max_range; [rewrite Hbase; lia|exact Hvals].
  Qed.

  (* (8b) min / max modes *)
  Lemma coc_die_bonus_min fuel s : coc_die next fuel true (-1) s = Done (1, s).
  Proof. unfold coc_die. cbn [negb andb]. rewrite andb_false_r. apply roll_min_mode. Qed.

  Lemma coc_die_penalty_min fuel s : coc_die next fuel false (-1) s = Done (10, s).
  Proof. reflexivity. Qed.

  Lemma coc_die_max fuel isBonus s : coc_die next fuel isBonus 1 s = Done (10, s).
  Proof. unfold coc_die. change (1 =? -1) with false. cbn [andb]. apply roll_max_mode. Qed.

  (* bonus, min mode: every tens die shows 1 *)
  Lemma coc_loop_min fuel k : forall nums b ten s,
    exists nums' b',
      coc_loop next fuel k true (-1) (nums, 0, b, ten) s = Done ((nums', 0, b', ten), s).
  Proof.
    induction k as [|k IH]; intros nums b ten s; cbn [coc_loop].
    - eexists; eexists; reflexivity.
    - rewrite coc_die_bonus_min.
      change (1 =? 10) with false. change (1 <? 0) with false. cbv iota. apply IH.
  Qed.

  (* a tens die showing 10 only sets num10Exists *)
  Lemma coc_loop_all10 fuel isBonus mode k :
    (forall s, coc_die next fuel isBonus mode s = Done (10, s)) ->
    forall nums a b ten s,
    exists nums' ten',
      coc_loop next fuel k isBonus mode (nums, a, b, ten) s = Done ((nums', a, b, ten'), s).
  Proof.
    intros Hdie. induction k as [|k IH]; intros nums a b ten s; cbn [coc_loop].
    - eexists; eexists; reflexivity.
    - rewrite Hdie. change (10 =? 10) with true. cbv iota. apply IH.
  Qed.

  Lemma coc_loop_max fuel isBonus k : forall nums a b ten s,
    exists nums' ten',
      coc_loop next fuel k isBonus 1 (nums, a, b, ten) s = Done ((nums', a, b, ten'), s).
  Proof. apply coc_loop_all10. intros s. apply coc_die_max. Qed.

  Theorem roll_coc_bonus_min fuel diceNum s :
    exists txt, roll_coc next fuel true diceNum (-1) s = Done ((1, txt), s).
  Proof.
    unfold roll_coc. rewrite roll_min_mode. change (100 =? 0) with false. cbv iota zeta.
    change (Z.quot 1 10) with 0. change (Z.rem 1 10) with 1.
    destruct (coc_loop_min fuel (Z.to_nat diceNum) [] 0 false s) as (nums' & b' & ->).
    eexists. reflexivity.
  Qed.

  Theorem roll_coc_max fuel isBonus diceNum s :
    exists txt, roll_coc next fuel isBonus diceNum 1 s = Done ((100, txt), s).
  Proof.
    unfold roll_coc. rewrite roll_max_mode. cbv zeta.
    change (Z.quot 100 10) with 10. change (Z.rem 100 10) with 0.
    destruct (coc_loop_max fuel isBonus (Z.to_nat diceNum) [] 10 10 false s) as (nums' & ten' & ->).
    destruct isBonus; [eexists; reflexivity|].
    destruct ten'; eexists; reflexivity.
  Qed.

  Theorem roll_coc_bonus_max fuel diceNum s :
    exists txt, roll_coc next fuel true diceNum 1 s = Done ((100, txt), s).
  Proof. apply roll_coc_max. Qed.

  (* repaired penalty die: in min mode every tens die shows 10 (digit 0), D100 = 1 -> 01 = 1 *)
  Lemma roll_coc_penalty_min_any fuel diceNum s :
    exists txt, roll_coc next fuel false diceNum (-1) s = Done ((1, txt), s).
  Proof.
    unfold roll_coc. rewrite roll_min_mode. change (100 =? 0) with false. cbv iota zeta.
    change (Z.quot 1 10) with 0. change (Z.rem 1 10) with 1.
    destruct (coc_loop_all10 fuel false (-1) (Z.to_nat diceNum) (coc_die_penalty_min fuel)
                             [] 0 0 false s) as (nums' & ten' & ->).
    eexists. reflexivity.
  Qed.

  Theorem roll_coc_penalty_min fuel diceNum s :
    0 <= diceNum ->
    exists txt, roll_coc next fuel false diceNum (-1) s = Done ((1, txt), s).
  Proof. intros _. apply roll_coc_penalty_min_any. Qed.

  Theorem roll_coc_penalty_max fuel diceNum s :
    0 <= diceNum ->
    exists txt, roll_coc next fuel false diceNum 1 s = Done ((100, txt), s).
  Proof. intros _. apply roll_coc_max. Qed.

  Theorem roll_coc_min fuel isBonus diceNum s :
    exists txt, roll_coc next fuel isBonus diceNum (-1) s = Done ((1, txt), s).
  Proof.
    destruct isBonus; [apply roll_coc_bonus_min|apply roll_coc_penalty_min_any].
  Qed.

  (* min mode and max mode bracket every random CoC roll, bonus and penalty alike *)
  Theorem coc_bracket fuel isBonus diceNum s num txt s' :
    0 <= diceNum ->
    roll_coc next fuel isBonus diceNum 0 s = Done ((num, txt), s') ->
    exists nmin tmin nmax tmax,
      roll_coc next fuel isBonus diceNum (-1) s = Done ((nmin, tmin), s) /\
      roll_coc next fuel isBonus diceNum 1 s = Done ((nmax, tmax), s) /\
      nmin = 1 /\ nmax = 100 /\ nmin <= num <= nmax.
  Proof.
    intros Hd H.
    destruct (roll_coc_min fuel isBonus diceNum s) as [tmin Hmin].
    destruct (roll_coc_max fuel isBonus diceNum s) as [tmax Hmax].
    destruct (roll_coc_spec _ _ _ _ _ _ _ _ Hd H) as (res & ds & _ & _ & _ & _ & Hr & _).
    exists 1, tmin, 100, tmax. repeat split; try assumption; lia.
  Qed.

  Theorem coc_bracket_bonus fuel diceNum s num txt s' :
    0 <= diceNum ->
    roll_coc next fuel true diceNum 0 s = Done ((num, txt), s') ->
    exists nmin tmin nmax tmax,
      roll_coc next fuel true diceNum (-1) s = Done ((nmin, tmin), s) /\
      roll_coc next fuel true diceNum 1 s = Done ((nmax, tmax), s) /\
      nmin = 1 /\ nmax = 100 /\ nmin <= num <= nmax.
  Proof. apply coc_bracket. Qed.

  (* ------------------------------------------------------------------ *)
  (* (9) WoD / Double Cross                                              *)
  (* ------------------------------------------------------------------ *)
  Lemma countZ_cons f x l : countZ f (x :: l) = (if f x then 1 else 0) + countZ f l.
  Proof.
    unfold countZ. cbn [filter]. destruct (f x); cbn [length]; [rewrite Nat2Z.inj_succ|]; lia.
  Qed.

  Lemma countZ_app f l1 l2 : countZ f (l1 ++ l2) = countZ f l1 + countZ f l2.
  Proof. unfold countZ. rewrite filter_app, app_length, Nat2Z.inj_add. reflexivity. Qed.

  Lemma countZ_nonneg f l : 0 <= countZ f l.
  Proof. unfold countZ. lia. Qed.

  Lemma round_chain_nonempty reach n rs : round_chain reach n rs -> rs <> [].
  Proof. destruct 1; discriminate. Qed.

  Lemma round_chain_concat_ge reach n rs : round_chain reach n rs -> (n <= length (concat rs))%nat.
  Proof. destruct 1 as [n r Hl _|n r rs Hl _ _]; cbn [concat]; rewrite app_length; lia. Qed.

  (* total dice count without wrap-around *)
  Lemma chain_all_exact reach n rs :
    round_chain reach n rs ->
    forall a, 0 <= a ->
      a + Z.of_nat (length (concat rs)) - Z.of_nat n < two63 ->
      fold_left (fun a r => wrap64 (a + countZ reach r)) rs a
      = a + Z.of_nat (length (concat rs)) - Z.of_nat n.
  Proof.
    induction 1 as [n r Hl Hf|n r rs Hl Hf Hc IH]; intros a Ha Hb; cbn [fold_left concat] in *;
      rewrite app_length, Nat2Z.inj_add in *.
    - unfold countZ. rewrite Hf. cbn [length app Z.of_nat].
      rewrite wrap64_small by (unfold two63 in *; lia). lia.
    - pose proof (round_chain_concat_ge _ _ _ Hc) as Hge.
      unfold countZ at 2. 
      rewrite wrap64_small by (unfold two63 in *; lia).
      rewrite IH by lia. lia.
  Qed.

  Lemma wod_round_spec fuel addLine points threshold isGE mode show k :
    1 <= points <= MaxInt64 - 1 ->
    forall succ add txt s succ' add' txt' s',
    wod_round next fuel k addLine points threshold isGE mode show (succ, add, txt) s
      = Done ((succ', add', txt'), s') ->
    exists dice, length dice = k /\ Forall (fun x => 1 <= x <= points) dice /\
                 succ' = succ + countZ (wod_succ threshold isGE) dice /\
                 add' = add + countZ (wod_reach addLine) dice.
  Proof.
    intros Hp. induction k as [|k IH]; intros succ add txt s succ' add' txt' s' H;
      cbn [wod_round] in H.
    - inversion H; subst. exists []. unfold countZ. cbn. repeat split; try lia. constructor.
    - destruct (roll next fuel points mode s) as [[one s1]|] eqn:Er; [|discriminate].
      pose proof (roll_range S next next_word _ _ _ _ _ _ Hp Er) as Hone.
      cbv zeta in H. apply IH in H. destruct H as (dice & Hl & Hf & Hs & Ha).
      exists (one :: dice). split; [cbn [length]; f_equal; exact Hl|].
      split; [constructor; assumption|].
      rewrite !countZ_cons. unfold wod_succ at 1, wod_reach at 1. split; lia.
  Qed.

  Lemma wod_rounds_spec fuel addLine points threshold isGE mode rfuel :
    1 <= points <= MaxInt64 - 1 ->
    forall pool show all succ rounds details s succ' all' rounds' details' s',
    wod_rounds next rfuel fuel addLine points threshold isGE mode pool show all succ rounds details s
      = Done ((succ', all', rounds', details'), s') ->
    exists rs : list (list Z),
      round_chain (wod_reach addLine) (Z.to_nat pool) rs /\
      Forall (Forall (fun x => 1 <= x <= points)) rs /\
      succ' = succ + countZ (wod_succ threshold isGE) (concat rs) /\
      all' = fold_left (fun a r => wrap64 (a + countZ (wod_reach addLine) r)) rs all /\
      rounds' = rounds + Z.of_nat (length rs) - 1.
  Proof.
    intros Hp. induction rfuel as [|rf IH];
      intros pool show all succ rounds details s succ' all' rounds' details' s' H;
      cbn [wod_rounds] in H; [discriminate|].
    destruct (wod_round next fuel (Z.to_nat pool) addLine points threshold isGE mode show (0, 0, []) s)
      as [[[[sc add] txt] s1]|] eqn:Er; [|discriminate].
    apply (wod_round_spec _ _ _ _ _ _ _ _ Hp) in Er.
    destruct Er as (dice & Hl & Hf & Hsc & Hadd). rewrite Z.add_0_l in Hsc, Hadd.
    cbv zeta in H.
    destruct (100 <? wrap64 (all + add)).
    - destruct (Z.ltb_spec 0 add) as [Hpos|Hnpos].
      + apply IH in H. destruct H as (rs & Hc & Hfr & Hs' & Ha' & Hr').
        exists (dice :: rs). split; [|split; [|split; [|split]]].
        * apply chain_more; [exact Hl| |].
          { intros E. unfold countZ in Hadd. rewrite E in Hadd. cbn in Hadd. lia. }
          { unfold countZ in Hadd. rewrite Hadd, Nat2Z.id in Hc. exact Hc. }
        * constructor; assumption.
        * cbn [concat]. rewrite countZ_app. lia.
        * cbn [fold_left]. rewrite <- Hadd. exact Ha'.
        * cbn [length]. lia.
      + inversion H; subst succ' all' rounds' details' s'. clear H.
        exists [dice]. split; [|split; [|split; [|split]]].
        * apply chain_last; [exact Hl|].
          unfold countZ in Hadd. destruct (filter (wod_reach addLine) dice); [reflexivity|].
          cbn [length] in Hadd. lia.
        * constructor; [assumption|constructor].
        * cbn [concat]. rewrite app_nil_r. lia.
        * cbn [fold_left]. rewrite <- Hadd. reflexivity.
        * cbn [length]. lia.
    - destruct (Z.ltb_spec 0 add) as [Hpos|Hnpos].
      + apply IH in H. destruct H as (rs & Hc & Hfr & Hs' & Ha' & Hr').
        exists (dice :: rs). split; [|split; [|split; [|split]]].
        * apply chain_more; [exact Hl| |].
          { intros E. unfold countZ in Hadd. rewrite E in Hadd. cbn in Hadd. lia. }
          { unfold countZ in Hadd. rewrite Hadd, Nat2Z.id in Hc. exact Hc. }
        * constructor; assumption.
        * cbn [concat]. rewrite countZ_app. lia.
        * cbn [fold_left]. rewrite <- Hadd. exact Ha'.
        * cbn [length]. lia.
      + destruct show; inversion H; subst succ' all' rounds' s'; clear H;
        (exists [dice]; split; [|split; [|split; [|split]]];
        [ apply chain_last; [exact Hl|];
          unfold countZ in Hadd; destruct (filter (wod_reach addLine) dice); [reflexivity|];
          cbn [length] in Hadd; lia
        | constructor; [assumption|constructor]
        | cbn [concat]; rewrite app_nil_r; lia
        | cbn [fold_left]; rewrite <- Hadd; reflexivity
        | cbn [length]; lia ]).
  Qed.

  Theorem roll_wod_spec rfuel fuel addLine pool points threshold isGE mode s succ all rounds txt s' :
    wod_check addLine pool points threshold = true ->
    points <= MaxInt64 - 1 ->
    roll_wod next rfuel fuel addLine pool points threshold isGE mode s
      = Done ((succ, all, rounds, txt), s') ->
    exists rs : list (list Z),
      1 <= pool <= 20000 /\
      round_chain (wod_reach addLine) (Z.to_nat pool) rs /\
      Forall (Forall (fun x => 1 <= x <= points)) rs /\
      succ = countZ (wod_succ threshold isGE) (concat rs) /\
      rounds = Z.of_nat (length rs) /\
      (Z.of_nat (length (concat rs)) < two63 -> all = Z.of_nat (length (concat rs))).
  Proof.
    intros Hchk Hpts H. unfold wod_check in Hchk.
    assert (Hpool : 1 <= pool <= 20000) by lia.
    assert (Hp : 1 <= points <= MaxInt64 - 1) by lia.
    unfold roll_wod in H.
    destruct (wod_rounds next rfuel fuel addLine points threshold isGE mode pool (pool <? 15) pool 0 1 [] s)
      as [[[[[succ0 all0] rounds0] details] s1]|] eqn:Er; [|discriminate].
    inversion H; subst succ0 all0 rounds0 s1. clear H.
    apply (wod_rounds_spec _ _ _ _ _ _ _ Hp) in Er.
    destruct Er as (rs & Hc & Hf & Hs & Ha & Hr).
    exists rs. split; [exact Hpool|]. split; [exact Hc|]. split; [exact Hf|].
    split; [lia|]. split; [lia|].
    intros Hb. rewrite Ha. rewrite (chain_all_exact _ _ _ Hc) by lia. lia.
  Qed.
  (* ---- Double Cross ---- *)
  Lemma dc_round_spec fuel addLine points mode show k :
    1 <= points <= MaxInt64 - 1 ->
    forall mx add txt s mx' add' txt' s',
    dc_round next fuel k addLine points mode show (mx, add, txt) s = Done ((mx', add', txt'), s') ->
    exists dice, length dice = k /\ Forall (fun x => 1 <= x <= points) dice /\
                 mx' = fold_left (dc_mx_step addLine) dice mx /\
                 add' = add + countZ (dc_reach addLine) dice.
  Proof.
    intros Hp. induction k as [|k IH]; intros mx add txt s mx' add' txt' s' H;
      cbn [dc_round] in H.
    - inversion H; subst. exists []. unfold countZ. cbn. repeat split; try lia. constructor.
    - destruct (roll next fuel points mode s) as [[one s1]|] eqn:Er; [|discriminate].
      pose proof (roll_range S next next_word _ _ _ _ _ _ Hp Er) as Hone.
      cbv zeta in H. apply IH in H. destruct H as (dice & Hl & Hf & Hm & Ha).
      exists (one :: dice). split; [cbn [length]; f_equal; exact Hl|].
      split; [constructor; assumption|].
      rewrite countZ_cons. unfold dc_reach at 1. cbn [fold_left]. split; [|lia].
      rewrite Hm. f_equal. unfold dc_mx_step.
      destruct (addLine <=? one); [reflexivity|]. destruct (Z.ltb_spec mx one); lia.
  Qed.

  Lemma dc_rounds_spec fuel addLine points mode rfuel :
    1 <= points <= MaxInt64 - 1 ->
    forall pool show all result rounds details s result' all' rounds' details' s',
    dc_rounds next rfuel fuel addLine points mode pool show all result rounds details s
      = Done ((result', all', rounds', details'), s') ->
    exists rs : list (list Z),
      round_chain (dc_reach addLine) (Z.to_nat pool) rs /\
      Forall (Forall (fun x => 1 <= x <= points)) rs /\
      result' = fold_left (fun a r => wrap64 (a + dc_round_max addLine r)) rs result /\
      all' = fold_left (fun a r => wrap64 (a + countZ (dc_reach addLine) r)) rs all /\
      rounds' = rounds + Z.of_nat (length rs) - 1.
  Proof.
    intros Hp. induction rfuel as [|rf IH];
      intros pool show all result rounds details s result' all' rounds' details' s' H;
      cbn [dc_rounds] in H; [discriminate|].
    destruct (dc_round next fuel (Z.to_nat pool) addLine points mode show (0, 0, []) s)
      as [[[[mx add] txt] s1]|] eqn:Er; [|discriminate].
    apply (dc_round_spec _ _ _ _ _ _ Hp) in Er.
    destruct Er as (dice & Hl & Hf & Hmx & Hadd). rewrite Z.add_0_l in Hadd.
    fold (dc_round_max addLine dice) in Hmx.
    cbv zeta in H.
    assert (Hlast : add <= 0 -> filter (dc_reach addLine) dice = []).
    { intros Hn. unfold countZ in Hadd. destruct (filter (dc_reach addLine) dice); [reflexivity|].
      cbn [length] in Hadd. lia. }
    assert (Hmore : 0 < add -> filter (dc_reach addLine) dice <> []).
    { intros Hn E. unfold countZ in Hadd. rewrite E in Hadd. cbn in Hadd. lia. }
    assert (Hnext : Z.to_nat add = length (filter (dc_reach addLine) dice)).
    { unfold countZ in Hadd. rewrite Hadd, Nat2Z.id. reflexivity. }
    destruct (100 <? wrap64 (all + add)); destruct show;
      (destruct (Z.ltb_spec 0 add) as [Hpos|Hnpos];
       [ apply IH in H; destruct H as (rs & Hc & Hfr & Hres' & Ha' & Hr');
         exists (dice :: rs); split; [|split; [|split; [|split]]];
         [ apply chain_more; [exact Hl|exact (Hmore Hpos)|rewrite <- Hnext; exact Hc]
         | constructor; assumption
         | cbn [fold_left]; rewrite <- Hmx; exact Hres'
         | cbn [fold_left]; rewrite <- Hadd; exact Ha'
         | cbn [length]; lia ]
       | inversion H; subst result' all' rounds' s'; clear H;
         exists [dice]; split; [|split; [|split; [|split]]];
         [ apply chain_last; [exact Hl|exact (Hlast Hnpos)]
         | constructor; [assumption|constructor]
         | cbn [fold_left]; rewrite <- Hmx; reflexivity
         | cbn [fold_left]; rewrite <- Hadd; reflexivity
         | cbn [length]; lia ] ]).
  Qed.

  (* maxDice of one round *)
  Lemma dc_mx_noreach addLine r : filter (dc_reach addLine) r = [] ->
    forall m, fold_left (dc_mx_step addLine) r m = fold_left Z.max r m.
  Proof.
    induction r as [|x r IH]; intros Hf m; cbn [fold_left]; [reflexivity|].
    cbn [filter] in Hf. unfold dc_mx_step at 2. unfold dc_reach in Hf at 1.
    destruct (addLine <=? x); [discriminate|]. apply IH; exact Hf.
  Qed.

  (* exact rule: 10 from the LAST die reaching the add line, then the running maximum *)
  Lemma dc_mx_exact addLine r1 x r2 m :
    dc_reach addLine x = true -> filter (dc_reach addLine) r2 = [] ->
    fold_left (dc_mx_step addLine) (r1 ++ x :: r2) m = fold_left Z.max r2 10.
  Proof.
    intros Hx Hr2. rewrite fold_left_app. cbn [fold_left].
    unfold dc_mx_step at 2. unfold dc_reach in Hx. rewrite Hx.
    apply dc_mx_noreach; exact Hr2.
  Qed.

  Lemma dc_mx_stays10 addLine r : Forall (fun x => x <= 10) r ->
    fold_left (dc_mx_step addLine) r 10 = 10.
  Proof.
    induction 1 as [|x r Hx Hr IH]; cbn [fold_left]; [reflexivity|].
    replace (dc_mx_step addLine 10 x) with 10; [exact IH|].
    unfold dc_mx_step. destruct (addLine <=? x); lia.
  Qed.

  Lemma dc_mx_reach addLine r : Forall (fun x => x <= 10) r ->
    filter (dc_reach addLine) r <> [] ->
    forall m, fold_left (dc_mx_step addLine) r m = 10.
  Proof.
    induction 1 as [|x r Hx Hr IH]; intros Hf m; cbn [fold_left filter] in *; [congruence|].
    unfold dc_mx_step at 2. unfold dc_reach at 1 in Hf.
    destruct (addLine <=? x).
    - apply dc_mx_stays10; exact Hr.
    - apply IH; exact Hf.
  Qed.

  Lemma fold_left_max_spec r : forall m,
    m <= fold_left Z.max r m /\
    Forall (fun x => x <= fold_left Z.max r m) r /\
    (fold_left Z.max r m = m \/ In (fold_left Z.max r m) r).
  Proof.
    induction r as [|x r IH]; intros m; cbn [fold_left].
    - split; [lia|]. split; [constructor|left; reflexivity].
    - destruct (IH (Z.max m x)) as (H1 & H2 & H3).
      split; [lia|]. split; [constructor; [lia|exact H2]|].
      destruct H3 as [H3|H3]; [|right; right; exact H3].
      rewrite H3. destruct (Z.max_spec m x) as [[_ E]|[_ E]]; rewrite E.
      + right; left; reflexivity.
      + left; reflexivity.
  Qed.

  (* dice_max really is the largest die of a non-empty round of positive dice *)
  Lemma dice_max_spec r :
    r <> [] -> Forall (fun x => 1 <= x) r ->
    In (dice_max r) r /\ Forall (fun x => x <= dice_max r) r.
  Proof.
    intros Hne Hpos. unfold dice_max. destruct (fold_left_max_spec r 0) as (H1 & H2 & H3).
    split; [|exact H2]. destruct H3 as [H3|H3]; [|exact H3]. exfalso.
    destruct r as [|x r]; [congruence|]. rewrite H3 in H2.
    inversion H2; subst. inversion Hpos; subst. lia.
  Qed.

  Lemma chain_result_exact addLine n rs :
    round_chain (dc_reach addLine) n rs ->
    Forall (Forall (fun x => x <= 10)) rs ->
    forall a, 0 <= a -> a + 10 * Z.of_nat (length rs) < two63 ->
      fold_left (fun a r => wrap64 (a + dc_round_max addLine r)) rs a
      = a + 10 * (Z.of_nat (length rs) - 1) + dice_max (last rs []).
  Proof.
    induction 1 as [n r Hl Hf|n r rs Hl Hf Hc IH]; intros Hall a Ha Hb;
      inversion Hall as [|r' rs' Hr Hrs]; subst; cbn [fold_left length] in *;
      rewrite ?Nat2Z.inj_succ in *.
    - unfold dc_round_max. rewrite (dc_mx_noreach _ _ Hf). fold (dice_max r).
      cbn [last].
      destruct (fold_left_max_spec r 0) as (H1 & H2 & H3). fold (dice_max r) in H1, H2, H3.
      assert (Hm : dice_max r <= 10).
      { destruct H3 as [H3|H3]; [lia|]. rewrite Forall_forall in Hr. apply Hr; exact H3. }
      rewrite wrap64_small by (unfold two63 in *; lia). cbn [Z.of_nat]. lia.
    - unfold dc_round_max at 2. rewrite (dc_mx_reach _ _ Hr Hf).
      rewrite wrap64_small by (unfold two63 in *; lia).
      rewrite (IH Hrs) by lia.
      pose proof (round_chain_nonempty _ _ _ Hc) as Hne.
      destruct rs as [|r2 rs2]; [congruence|]. cbn [last]. lia.
  Qed.

  Theorem roll_dc_spec rfuel fuel addLine pool points mode s result all rounds txt s' :
    dc_check addLine pool points = true ->
    points <= MaxInt64 - 1 ->
    roll_dc next rfuel fuel addLine pool points mode s = Done ((result, all, rounds, txt), s') ->
    exists rs : list (list Z),
      1 <= pool <= 20000 /\
      round_chain (dc_reach addLine) (Z.to_nat pool) rs /\
      Forall (Forall (fun x => 1 <= x <= points)) rs /\
      rounds = Z.of_nat (length rs) /\
      (Z.of_nat (length (concat rs)) < two63 -> all = Z.of_nat (length (concat rs))) /\
      result = fold_left (fun a r => wrap64 (a + dc_round_max addLine r)) rs 0 /\
      (points <= 10 -> 10 * rounds < two63 ->
       result = 10 * (rounds - 1) + dice_max (last rs [])).
  Proof.
    intros Hchk Hpts H. unfold dc_check in Hchk.
    assert (Hpool : 1 <= pool <= 20000) by lia.
    assert (Hp : 1 <= points <= MaxInt64 - 1) by lia.
    unfold roll_dc in H.
    destruct (dc_rounds next rfuel fuel addLine points mode pool (pool <? 15) pool 0 1 [] s)
      as [[[[[result0 all0] rounds0] details] s1]|] eqn:Er; [|discriminate].
    cbv zeta in H. inversion H; subst result0 all0 rounds0 s1. clear H.
    apply (dc_rounds_spec _ _ _ _ _ Hp) in Er.
    destruct Er as (rs & Hc & Hf & Hres & Ha & Hr).
    exists rs. split; [exact Hpool|]. split; [exact Hc|]. split; [exact Hf|].
    split; [lia|]. split; [|split; [exact Hres|]].
    - intros Hb. rewrite Ha. rewrite (chain_all_exact _ _ _ Hc) by lia. lia.
    - intros Hp10 Hrb. rewrite Hres.
      assert (Hle : Forall (Forall (fun x => x <= 10)) rs).
      { eapply Forall_impl; [|exact Hf]. intros r Hr'. eapply Forall_impl; [|exact Hr'].
        cbv beta. intros x Hx. lia. }
      rewrite (chain_result_exact _ _ _ Hc Hle) by lia. lia.
  Qed.
  (* ------------------------------------------------------------------ *)
  (* (10) the detail text determines the dice and the pick count         *)
  (* ------------------------------------------------------------------ *)
  Lemma uint_chars d : all_numc (NilEmpty.string_of_uint d) = true.
  Proof.
    induction d; cbn [NilEmpty.string_of_uint all_numc]; rewrite ?IHd; reflexivity.
  Qed.

  Lemma nz_uint_chars d :
    all_numc (NilZero.string_of_uint d) = true /\ NilZero.string_of_uint d <> "".
  Proof.
    destruct d; cbn [NilZero.string_of_uint NilEmpty.string_of_uint all_numc];
      rewrite ?uint_chars; split; (reflexivity || discriminate).
  Qed.

  Lemma show_Z_chars z : all_numc (show_Z z) = true /\ show_Z z <> "".
  Proof.
    unfold show_Z. destruct z as [|p|p]; cbn [Z.to_int NilZero.string_of_int].
    - apply nz_uint_chars.
    - apply nz_uint_chars.
    - destruct (nz_uint_chars (Pos.to_uint p)) as [H _].
      cbn [all_numc]. rewrite H. split; [reflexivity|discriminate].
  Qed.

  Lemma show_Z_head z : exists c r, show_Z z = String c r /\ numc c = true /\ all_numc r = true.
  Proof.
    destruct (show_Z_chars z) as [H1 H2]. destruct (show_Z z) as [|c r]; [congruence|].
    cbn [all_numc] in H1. apply andb_true_iff in H1. exists c, r. tauto.
  Qed.

  Lemma to_int_nonnil z : Z.to_int z <> Pos Nil /\ Z.to_int z <> Neg Nil.
  Proof.
    destruct z as [|p|p]; cbn [Z.to_int]; split; try discriminate;
      intros [= E]; exact (Unsigned.to_uint_nonnil p E).
  Qed.

  Theorem show_Z_inj x y : show_Z x = show_Z y -> x = y.
  Proof.
    unfold show_Z. intros H.
    apply (f_equal NilZero.int_of_string) in H.
    destruct (to_int_nonnil x) as [X1 X2]. destruct (to_int_nonnil y) as [Y1 Y2].
    rewrite !NilZero.isi in H by assumption.
    rewrite <- (DecimalZ.of_to x), <- (DecimalZ.of_to y). congruence.
  Qed.

  (* splitting at the first non-numeric character *)
  Lemma split_sep c a : forall a' r r',
    numc c = false -> all_numc a = true -> all_numc a' = true ->
    a ++ String c r = a' ++ String c r' -> a = a' /\ r = r'.
  Proof.
    induction a as [|x a IH]; intros a' r r' Hc Ha Ha' E; destruct a' as [|y a'];
      cbn [append all_numc] in *.
    - inversion E; subst. split; reflexivity.
    - inversion E; subst. apply andb_true_iff in Ha'. destruct Ha' as [Hy _]. congruence.
    - inversion E; subst. apply andb_true_iff in Ha. destruct Ha as [Hx _]. congruence.
    - inversion E; subst. apply andb_true_iff in Ha. apply andb_true_iff in Ha'.
      destruct (IH a' r r' Hc (proj2 Ha) (proj2 Ha') H1) as [-> ->]. split; reflexivity.
  Qed.

  Lemma sapp_inv_tail (a b c : string) : a ++ c = b ++ c -> a = b.
  Proof.
    intros H.
    apply (f_equal list_ascii_of_string) in H.
    assert (L : forall x y, list_ascii_of_string (x ++ y)
                            = (list_ascii_of_string x ++ list_ascii_of_string y)%list).
    { intros x y. induction x as [|ch x IHx]; cbn; [reflexivity|]. rewrite IHx. reflexivity. }
    rewrite !L in H. apply app_inv_tail in H.
    rewrite <- (string_of_list_ascii_of_string a), <- (string_of_list_ascii_of_string b).
    rewrite H. reflexivity.
  Qed.

  Lemma drop_last_snoc a c : drop_last (a ++ String c "") = a.
  Proof.
    induction a as [|x a IH]; cbn [append drop_last]; [reflexivity|].
    rewrite IH. destruct (a ++ String c "") eqn:E; [|reflexivity].
    destruct a; discriminate.
  Qed.

  Lemma drop_last_inj c s s' :
    (exists a, s = a ++ String c "") -> (exists a', s' = a' ++ String c "") ->
    drop_last s = drop_last s' -> s = s'.
  Proof.
    intros [a ->] [a' ->]. rewrite !drop_last_snoc. intros ->. reflexivity.
  Qed.

  Lemma drop_last_head c r : r <> "" -> drop_last (String c r) = String c (drop_last r).
  Proof. intros H. cbn [drop_last]. destruct r; [congruence|reflexivity]. Qed.

  (* --- the "a+b+c" form --- *)
  Lemma text_plus_ends l : l <> [] -> exists a, text_plus l = a ++ "+".
  Proof.
    induction l as [|x r IH]; intros H; [congruence|]. cbn [text_plus].
    destruct r as [|y q].
    - exists (show_Z x). cbn [text_plus]. reflexivity.
    - destruct IH as [a Ea]; [discriminate|]. rewrite Ea.
      exists (show_Z x ++ "+" ++ a). rewrite !sapp_assoc. reflexivity.
  Qed.

  Lemma text_plus_inj l : forall l', text_plus l = text_plus l' -> l = l'.
  Proof.
    induction l as [|x r IH]; intros l' E; destruct l' as [|y q]; cbn [text_plus] in E.
    - reflexivity.
    - destruct (show_Z_head y) as (c & t & Ey & _). rewrite Ey in E. discriminate.
    - destruct (show_Z_head x) as (c & t & Ex & _). rewrite Ex in E. discriminate.
    - change ("+" ++ text_plus r) with (String "+" (text_plus r)) in E.
      change ("+" ++ text_plus q) with (String "+" (text_plus q)) in E.
      apply split_sep in E; [|reflexivity|apply show_Z_chars|apply show_Z_chars].
      destruct E as [E1 E2]. apply show_Z_inj in E1. apply IH in E2. congruence.
  Qed.

  (* --- the "{a b | c}" form --- *)
  Lemma text_bar_ends l : forall i p, l <> [] -> exists a, text_bar i p l = a ++ " ".
  Proof.
    induction l as [|x r IH]; intros i p H; [congruence|]. cbn [text_bar].
    destruct r as [|y q].
    - exists ((if i =? p then "| " else "") ++ show_Z x). cbn [text_bar].
      rewrite !sapp_assoc. reflexivity.
    - destruct (IH (i + 1) p) as [a Ea]; [discriminate|]. rewrite Ea.
      exists ((if i =? p then "| " else "") ++ show_Z x ++ " " ++ a). rewrite !sapp_assoc. reflexivity.
  Qed.

  Lemma text_bar_inj p p' l : forall l' i,
    text_bar i p l = text_bar i p' l' ->
    l = l' /\ (i <= p < i + Z.of_nat (length l) -> i <= p' < i + Z.of_nat (length l) -> p = p').
  Proof.
    induction l as [|x r IH]; intros l' i E; destruct l' as [|y q]; cbn [text_bar] in E.
    - split; [reflexivity|]. cbn [length]. lia.
    - exfalso. destruct (show_Z_head y) as (c & t & Ey & _). rewrite Ey in E.
      destruct (i =? p'); discriminate.
    - exfalso. destruct (show_Z_head x) as (c & t & Ex & _). rewrite Ex in E.
      destruct (i =? p); discriminate.
    - change (" " ++ text_bar (i + 1) p r) with (String " " (text_bar (i + 1) p r)) in E.
      change (" " ++ text_bar (i + 1) p' q) with (String " " (text_bar (i + 1) p' q)) in E.
      assert (E' : show_Z x ++ String " " (text_bar (i + 1) p r)
                   = show_Z y ++ String " " (text_bar (i + 1) p' q) /\ ((i =? p) = (i =? p'))).
      { destruct (show_Z_head x) as (cx & tx & Ex & Hcx & _).
        destruct (show_Z_head y) as (cy & ty & Ey & Hcy & _).
        destruct (i =? p); destruct (i =? p'); cbn [append] in E.
        - inversion E. split; reflexivity.
        - exfalso. rewrite Ey in E. cbn [append] in E. inversion E; subst cy. discriminate.
        - exfalso. rewrite Ex in E. cbn [append] in E. inversion E; subst cx. discriminate.
        - split; [exact E|reflexivity]. }
      destruct E' as [E1 Eb].
      apply split_sep in E1; [|reflexivity|apply show_Z_chars|apply show_Z_chars].
      destruct E1 as [E1 E2]. apply show_Z_inj in E1. apply IH in E2. destruct E2 as [E2 E3].
      subst y q. split; [reflexivity|]. cbn [length]. rewrite Nat2Z.inj_succ. intros Hp Hp'.
      destruct (Z.eqb_spec i p); destruct (Z.eqb_spec i p'); try discriminate; [lia|].
      apply E3; lia.
  Qed.

  Theorem common_text_inj t p p' l l' :
    0 <= p <= t -> 0 <= p' <= t ->
    Z.of_nat (length l) = t -> Z.of_nat (length l') = t ->
    common_text t p l = common_text t p' l' ->
    l = l' /\ p = p'.
  Proof.
    intros Hp Hp' Hl Hl' E. unfold common_text in E.
    destruct (Z.eqb_spec p t) as [Ept|Ept]; destruct (Z.eqb_spec p' t) as [Ept'|Ept'].
    - split; [|lia].
      destruct l as [|x r]; destruct l' as [|y q]; cbn [length] in *; try lia; [reflexivity|].
      apply text_plus_inj.
      apply (drop_last_inj "+"); [apply text_plus_ends; discriminate| apply text_plus_ends; discriminate|exact E].
    - exfalso. destruct l as [|x r]; [discriminate|].
      cbn [text_plus] in E. destruct (show_Z_head x) as (c & tx & Ex & Hc & _).
      rewrite Ex in E. cbn [append] in E. rewrite drop_last_head in E by (destruct tx; discriminate).
      inversion E; subst c. discriminate.
    - exfalso. destruct l' as [|y q]; [discriminate|].
      cbn [text_plus] in E. destruct (show_Z_head y) as (c & ty & Ey & Hc & _).
      rewrite Ey in E. cbn [append] in E. rewrite drop_last_head in E by (destruct ty; discriminate).
      inversion E; subst c. discriminate.
    - cbn [append] in E. inversion E as [E0]. clear E. apply sapp_inv_tail in E0.
      destruct l as [|x r]; destruct l' as [|y q]; cbn [length] in *; try lia.
      apply (drop_last_inj " ") in E0; [| apply text_bar_ends; discriminate| apply text_bar_ends; discriminate].
      apply text_bar_inj in E0. destruct E0 as [E1 E2]. split; [exact E1|].
      apply E2; cbn [length]; lia.
  Qed.
End Source.

Print Assumptions roll_many_legal.
Print Assumptions sort_by_perm.
Print Assumptions sort_by_leb_ssorted.
Print Assumptions sort_by_geb_ssorted.
Print Assumptions pick_num_range.
Print Assumptions sum64_exact_abs.
Print Assumptions sum64_exact.
Print Assumptions roll_common_legal.
Print Assumptions roll_common_keeps_extremes.
Print Assumptions roll_common_min.
Print Assumptions roll_common_max.
Print Assumptions common_bracket.
Print Assumptions roll_fate_spec.
Print Assumptions roll_fate_min.
Print Assumptions roll_fate_max.
Print Assumptions roll_coc_spec.
Print Assumptions coc_bracket_bonus.
Print Assumptions roll_wod_spec.
Print Assumptions roll_dc_spec.
Print Assumptions sort_by_leb_sorted.
Print Assumptions sort_by_geb_sorted.
Print Assumptions roll_common_min_gen.
Print Assumptions roll_coc_bonus_min.
Print Assumptions roll_coc_bonus_max.
Print Assumptions roll_coc_penalty_min.
Print Assumptions roll_coc_penalty_max.
Print Assumptions coc_bracket.
Print Assumptions dc_mx_exact.
Print Assumptions dice_max_spec.
Print Assumptions show_Z_inj.
Print Assumptions common_text_inj.
