(* C01 tie: the byte-code the REAL parser emitted (K2 dumps) satisfies the hypotheses of the no-panic
   theorem: code_wf, ftab_wf (the spans hypothesis is gone: push.def_expr no longer slices outside the text). *)
From Coq Require Import NArith ZArith List Bool String.
From DS Require Import Model.Value Model.VM Model.CodeWf Corr.CorrK2.
Import ListNotations.

Definition c01_wf (c : k2_case) : bool :=
  let '(ft, _, _, steps) := c in
  ftab_wf ft && forallb (fun st : k2_step => let '(cd, _, _) := st in code_wf cd) steps.

Fixpoint bad_wf (i : N) (l : list k2_case) : list N :=
  match l with [] => [] | c :: r => if c01_wf c then bad_wf (i + 1)%N r else i :: bad_wf (i + 1)%N r end.
