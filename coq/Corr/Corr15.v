(* Correspondence for C15 (and the VM-syntax half of C04): a dice expression printed as
   source text and evaluated by the real parser + VM under the three modes, against
   Model/DiceExpr.deval on the same generator state. *)
From Coq Require Import String NArith ZArith List Bool.
From DS Require Import Model.PCG Model.Roll Model.Str Model.Dice Model.DiceExpr.
Import ListNotations.
Open Scope Z_scope.

(* observed: min result, random result + post state, max result *)
Definition c15_case : Type := dexpr * (N * N) * (Z * (Z * N * N) * Z).

Definition c15_ok (c : c15_case) : bool :=
  let '(e, (h, l), (rmin, (r0, h2, l2), rmax)) := c in
  let s := {| hi := h; lo := l |} in
  match deval pcg_next 256 (-1) e s, deval pcg_next 256 0 e s, deval pcg_next 256 1 e s with
  | Done (a, sa), Done (b, sb), Done (c', sc) =>
    (a =? rmin) && (hi sa =? h)%N && (lo sa =? l)%N &&
    (b =? r0) && (hi sb =? h2)%N && (lo sb =? l2)%N &&
    (c' =? rmax) && (hi sc =? h)%N && (lo sc =? l)%N
  | _, _, _ => false
  end.
