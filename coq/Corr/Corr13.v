(* Correspondence for C13: what the real parser + VM did with a source text against
   Model/StrLit.v on the same bytes. *)
From Coq Require Import NArith ZArith List Bool.
From DS Require Import Model.Str Model.StrLit.
Import ListNotations.
Open Scope N_scope.

Fixpoint bytes_eqb (a b : list N) : bool :=
  match a, b with
  | [], [] => true
  | x :: a', y :: b' => if x =? y then bytes_eqb a' b' else false
  | _, _ => false
  end.

Fixpoint parts_eqb (a b : list (list N)) : bool :=
  match a, b with
  | [], [] => true
  | x :: a', y :: b' => if bytes_eqb x y then parts_eqb a' b' else false
  | _, _ => false
  end.

Definition delim_of (n : N) : delim :=
  match n with 0 => DSingle | 1 => DDouble | 2 => DBack | _ => DRS end.

(* one run of the real code: source, utf8.Valid(source),
   full  = evaluated without error, nothing left unparsed, and the byte-code consists of
           push.str / ld.fs / halt only (i.e. the whole source was one hole-free literal),
   parts = push.str operands in order, str = Ret.ToString() *)
Definition obs : Type := list N * bool * bool * list (list N) * list N.

Definition obs_ok (d : delim) (o : obs) : bool :=
  let '(src, valid, full, parts, str) := o in
  if negb (Bool.eqb (utf8_valid src) valid) then false else
  match lex actual_table d src with
  | Some ps => if full then (if parts_eqb parts ps then bytes_eqb str (lit_value d ps) else false) else false
  | None => negb full
  end.

Definition c13_obs_case : Type := N * obs.
Definition c13_obs_ok (c : c13_obs_case) : bool := obs_ok (delim_of (fst c)) (snd c).

(* text, escape choices, and the run of the literal the Go mirror of `escape` printed:
   the model must print the same literal, lex it back to the text, and agree with Go *)
Definition c13_lit_case : Type := N * list N * list bool * obs.

Definition c13_lit_ok (c : c13_lit_case) : bool :=
  let '(dn, s, bits, o) := c in
  let d := delim_of dn in
  let '(src, _, _, _, _) := o in
  let choice := fun (i : nat) (_ : N) => nth i bits false in
  if negb (representable actual_table d s) then false else
  if negb (bytes_eqb src (quote d (escape actual_table d choice s))) then false else
  match lex actual_table d src with
  | Some [p] => if bytes_eqb p s then obs_ok d o else false
  | _ => false
  end.

(* templates: items = (0, text) literal segment | (1, v) hole whose value printed as v |
   (2, _) hole whose code left nothing; n = operand of Go's outermost ld.fs;
   skel = outermost byte-code skeleton (0 push.str, 1 fstr.block.push, 2 fstr.block.pop,
   3 ld.fs, 4 anything else); str = the template's value in Go *)
Definition c13_tmpl_case : Type := list (N * list N) * N * list N * list N.

Definition push_val (v : list N) : prim sval unit := fun e st => Done (e, SStr v :: st).

Definition tpart_of (it : N * list N) : tpart sval unit :=
  match fst it with
  | 0 => TLit (snd it)
  | 1 => THole [IPrim (push_val (snd it))] (sem_prim sval unit (push_val (snd it)))
  | _ => THole [] (sem_nil sval unit)
  end.

Definition skel_of (ps : list (tpart sval unit)) : list N :=
  flat_map (fun p => match p with TLit _ => [0] | THole _ _ => [1; 2] end) ps ++ [3].

Definition c13_tmpl_ok (c : c13_tmpl_case) : bool :=
  let '(items, n, skel, str) := c in
  let ps := map tpart_of items in
  if negb (bytes_eqb skel (skel_of ps)) then false else
  if negb (n =? N.of_nat (length ps)) then false else
  match exec sval unit sval_tostr SStr 1000 (compile_parts sval unit ps ++ [ILdFs (N.to_nat n)])
             {| env := tt; stk := []; fb := [] |} with
  | Done s => match stk s with [SStr r] => bytes_eqb r str | _ => false end
  | _ => false
  end.

Fixpoint bad13 {A : Type} (ok : A -> bool) (i : N) (l : list A) : list N :=
  match l with
  | [] => []
  | c :: r => if ok c then bad13 ok (N.succ i) r else i :: bad13 ok (N.succ i) r
  end.
