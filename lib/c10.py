"""C10 — deserialising untrusted or outdated JSON never yields a booby-trapped value."""
import json
import os
import random
import re

import common
import jsoncases as J
from common import Broken

LEVEL = "proof"


def source_natives():
    """Names of builtinValues entries, read from the source (the decoder's lookup table)."""
    text = open(os.path.join(common.REPO, "builtin_functions.go")).read()
    m = re.search(r"var builtinValues = map\[string\]\*VMValue\{(.*?)\n\}", text, re.S)
    body = m.group(1) if m else ""
    return sorted(set(re.findall(r'^\s*"([^"]*)"\s*:', body, re.M)))


def table_cases(res):
    """(a) tag table: ids and the accepted native names, re-read from the code on every run."""
    cands = sorted(set(J.NATIVE_CANDIDATES + source_natives()))
    rows, _ = common.run_harness(["c09-natives"], stdin="\n".join(cands) + "\n")
    tags = next(r["tags"] for r in rows if "tags" in r)
    accepted = [r["name"] for r in rows if r.get("accepted")]
    ids = [tags[k] for k in ("int", "float", "str", "null", "computed", "array", "dict", "func", "native", "nobj")]
    v = (J.HEADER + "Definition t1 := Eval vm_compute in natives_ok " + J.clist([J.cstr(n) for n in accepted]) + ".\nPrint t1.\n"
         "Definition t2 := Eval vm_compute in ids_ok " + J.clist([J.Zt(x) for x in ids]) + ".\nPrint t2.\n"
         "Definition t3 := Eval vm_compute in tags_ok T0.\nPrint t3.\n")
    out = common.coq_eval("c10_table", v)
    oks = re.findall(r"t[123] = (true|false)", out)
    bad_native = [r for r in rows if r.get("accepted") and (r["val"].get("nofn") or r["val"].get("bad") or r["val"].get("nilp"))]
    return oks == ["true", "true", "true"], {"accepted_native_names": accepted, "type_ids": tags, "coq": oks, "source_names": source_natives()}, bad_native


def run(res, tier, seed):
    common.build_harness()
    quick = tier == "quick"
    rng = random.Random(seed)
    n_enc = 300 if quick else 1500
    n_docs = 1600 if quick else 16000
    n_raw = 400 if quick else 4000
    enc, _ = common.run_harness(["c09-enc", "-seed", seed, "-n", n_enc])
    vtrees = [J.tree_of_go(r["tree"]) for r in enc if r.get("tree") and r["kind"] == "value" and J.dump_strings_ok(r["val"])]
    mtrees = [J.tree_of_go(r["tree"]) for r in enc if r.get("tree") and r["kind"] == "map" and J.dump_strings_ok(r["val"])]
    docs = J.make_docs(rng, vtrees, mtrees, n_docs)
    raws = J.raw_docs(rng, [d["text"] for d in docs[:600]], n_raw)
    alldocs = docs + raws

    # every document is decoded; the battery runs on a part of those that decode (a script run costs ~1 ms)
    full_every, red_every = (16, 5) if quick else (6, 2)

    def bat(i, d):
        if d["src"] == "fixed":
            return 2
        if d["src"] == "fixed-map":
            return 1
        return 2 if i % full_every == 0 else (1 if i % red_every == 0 else 0)
    rows, failed = J.run_dec(alldocs, bat)
    byid = {r["id"]: r for r in rows}

    srcs, decoded, errors = {}, 0, 0
    for i, d in enumerate(alldocs):
        srcs[d["src"]] = srcs.get(d["src"], 0) + 1
        r = byid.get(i)
        res.count(d["text"].hex()[:400], nontrivial=bool(r and r.get("val")))
        if r and r.get("val"):
            decoded += 1
        elif r and r.get("err"):
            errors += 1
    res.sample({"doc": docs[200]["text"].decode("utf-8", "replace"), "result": byid.get(200)})
    res.sample({"doc": docs[len(J.FIXED_DOCS) * 2 + 40]["text"].decode("utf-8", "replace"), "result": byid.get(len(J.FIXED_DOCS) * 2 + 40)})
    res.cov["rule"] = ("documents = Go encoder output for the C09 value battery (values and variable maps), mutated 0..3 times by: replacing any node by a scalar of "
                       "another type/null/[]/{}; deleting a field; substituting the type id (0..11, 20, 21, 99, -1, 2^31, 2^63-1, 6.0, \"6\", null, true); "
                       "re-spelling keys (upper case, Kelvin sign, long s, truncated); unknown extra fields; junk/null array elements; unknown native names; "
                       "duplicated scalar fields and map keys; nesting the whole document as array element / dict entry / attribute; int<->float literals; "
                       "reordering; duplicated struct-valued fields (crash battery only) "
                       f"+ {len(J.FIXED_DOCS)} hand-written documents (each also wrapped in a variable map) + byte-level garbage (truncation, byte flips, splices, "
                       "invalid UTF-8, 1000-deep nesting); every decoded value is bound as `x` and " +
                       "the full battery (ToString, ToRepr, AsBool, GetTypeName, Clone, ValueEqual, ToJSON->FromJSON, AsDictKey and ~100 scripts with and without dice families) "
                       "runs on a part of them (1 in 16 quick / 1 in 6 thorough, and all hand-written ones), a reduced battery on 1 in 5 / 1 in 2; distinct = distinct document, non-trivial = decoded without error")
    res.cov["input_distribution"] = {"documents": len(alldocs), "by_source": srcs, "decoded": decoded, "rejected": errors,
                                     "model_exact_documents": sum(1 for d in docs if d["exact"])}
    res.cov["trusted_base"] += [
        "Model/Json.v of_json is a hand-written model of VMValue.UnmarshalJSON / ValueMap.UnmarshalJSON and of encoding/json's decoding rules; tied by "
        "correspondence on every generated document except those repeating a struct-/slice-valued field (\"v\", \"list\", \"params\": Go re-uses the "
        "previous slice elements there, the model only approximates it; those documents go through the crash battery only)",
        "byte strings that are not valid JSON are outside the model (encoding/json rejects them before any decoding); exercised Go-side only",
        "C10_wf_no_trap covers the modelled observers (ToString/ToRepr, AsBool, ToJSON, ValueEqual); 'use as a variable in any script' is validated by the battery, not proved",
    ]
    res.assumptions += ["encoding/json.Unmarshal follows the documented rules modelled in Model/Json.v (checked by correspondence)",
                        "the battery scripts are representative of 'any script' for crash-freedom"]

    # --- property-level search: a Go panic (or a dead process) on any document is a violation
    found = 0
    for rc, stderr, nxt in failed:
        culprit = alldocs[nxt] if nxt is not None else None
        res.violation({"what": "the harness process died while decoding / exercising a document (fatal error, not recoverable)",
                       "returncode": rc, "stderr": stderr, "document_hex": culprit["text"].hex() if culprit else None,
                       "document": culprit["text"].decode("utf-8", "replace")[:2000] if culprit else None, "kind": culprit["kind"] if culprit else None})
        found += 1
    for i, d in enumerate(alldocs):
        r = byid.get(i)
        if not r:
            continue
        if r.get("panic"):
            res.violation({"what": "Go panic inside the decoder", "kind": d["kind"], "document": d["text"].decode("utf-8", "replace"),
                           "document_hex": d["text"].hex(), "panic": r["panic"]})
            found += 1
        elif r.get("bat") and r["bat"].get("panics"):
            res.violation({"what": "decoded value is a trap: an operation on it panics", "kind": d["kind"], "document": d["text"].decode("utf-8", "replace"),
                           "document_hex": d["text"].hex(), "decoded": r.get("val"), "panics": r["bat"]["panics"][:6]})
            found += 1
        elif r.get("val") and ill_formed(r["val"]):
            res.violation({"what": "decoder returned no error but the value is ill-formed (nil element / tag-payload mismatch / unknown tag)",
                           "kind": d["kind"], "document": d["text"].decode("utf-8", "replace"), "document_hex": d["text"].hex(), "decoded": r["val"]})
            found += 1
        if found >= 4:
            break

    broken = None
    try:
        J.ensure_coq()
        info = common.check_property_file("C10")
        res.proof(info, "cd coq && make && coqc -Q . DS Properties/C10.v  (Print Assumptions parsed)")
        ok, tinfo, bad_native = table_cases(res)
        res.cov["tag_table"] = tinfo
        if not ok:
            broken = Broken("tag table: Model/Json.v actual_table (type ids / native names / tags_ok) no longer matches the code", tinfo)
        for r in bad_native[:1]:
            res.violation({"what": "a native function accepted by the decoder has no callback / payload", "name": r["name"], "decoded": r["val"]})
            found += 1
        vitems, mitems = [], []
        for i, d in enumerate(docs):
            r = byid.get(i)
            if not d["exact"] or r is None or r.get("panic"):
                continue
            jt = J.json_term(d["tree"])
            if d["kind"] == "value":
                g = J.copt(J.rvalue_term(r["val"])) if r.get("val") else "None"
                vitems.append((i, f"({jt}, {g})"))
            else:
                g = J.copt(J.entries_term(r["val"], J.rvalue_term)) if r.get("val") else "None"
                mitems.append((i, f"({jt}, {g})"))
        bad_v = J.run_cases("c10v", "dec_case", "dec_ok", [t for _, t in vitems], shard=150 if quick else 400)
        bad_m = J.run_cases("c10m", "decmap_case", "decmap_ok", [t for _, t in mitems])
        bad_w = J.run_cases("c10w", "dec_case", "dec_wf_ok", [t for _, t in vitems[:400]])
        res.cov["correspondence"] = {"decoder_value_cases": len(vitems), "decoder_map_cases": len(mitems),
                                     "disagreements": len(bad_v) + len(bad_m), "model_wf_failures": len(bad_w)}
        if bad_v or bad_m or bad_w:
            first = [vitems[i][0] for i in bad_v[:3]] + [mitems[i][0] for i in bad_m[:3]] + [vitems[i][0] for i in bad_w[:2]]
            if not broken:
                broken = Broken("correspondence Corr09.dec_ok/decmap_ok (Model/Json.v of_json vs Go VMValueFromJSON / ValueMap.UnmarshalJSON)",
                                {"first_disagreeing_documents": [{"kind": docs[i]["kind"], "document": docs[i]["text"].decode("utf-8", "replace"),
                                                                  "go": {k: byid[i].get(k) for k in ("err", "val")}} for i in first]})
    except Broken as b:
        broken = b

    if broken and not found and not res.violations:
        res.violation({"broken": broken.what, "detail": broken.detail}, no_input=True)
    elif broken:
        res.cov["also_broken"] = {"what": broken.what, "detail": broken.detail}


def ill_formed(d):
    """The property's structural half on the real decoder output (nil-aware dump)."""
    for x in J.walk_dump(d):
        t = x["t"]
        if t == 100:
            continue
        if t == -1 or x.get("bad"):
            return True
        if t not in (0, 1, 2, 4, 5, 6, 7, 8, 9, 10):
            return True
        if t != 4 and x.get("nilp"):
            return True
        if t == 9 and x.get("nofn"):
            return True
    return False


def replay(path):
    p = json.load(open(path))
    print(json.dumps(p, indent=1, ensure_ascii=False)[:4000])
    if p.get("document_hex") is None:
        return 0
    common.build_harness()
    doc = {"kind": p.get("kind", "value"), "text": bytes.fromhex(p["document_hex"])}
    rows, failed = J.run_dec([doc], 2)
    print("process failures", failed)
    for r in rows:
        print(json.dumps(r, ensure_ascii=False)[:3000])
    bad = bool(failed) or any(r.get("panic") or (r.get("bat") or {}).get("panics") or (r.get("val") and ill_formed(r["val"])) for r in rows)
    return 1 if bad else 0
