(* The packrat interpreter Model/Peg.pe never moves the cursor past the end of the input:
   for an ARBITRARY grammar, class table, action table, predicate table and custom matcher
   (which may claim any length), and EVERY input, the final offset of parse_custom is at most
   the input length.

   Invariant: every point the interpreter can ever stand on or return to — the current point,
   every memoised end point of both memo tables, every locally saved start point — satisfies
       off p + w p <= ilen
   (offset plus width of the rune decoded there).  `read` moves to off p + w p and decodes a
   rune whose width never reaches beyond ilen (width 0 at the end of input); `restore` only
   returns to points that already satisfied the bound; ConsumeCustomDice advances through
   `read` only, so a matcher claiming more than what is left cannot push the cursor further. *)
From Coq Require Import NArith List Bool Lia ZifyN ZifyBool FMapPositive PeanoNat.
From DS Require Import Model.Peg Proofs.GatingProofs Model.Matched Proofs.MatchedProofs.
Import ListNotations.
Open Scope N_scope.

Section Bounds.
  Variable input : PositiveMap.t N.
  Variable ilen : N.

  Local Notation READ := (read input ilen).
  Local Notation DEC := (decode input ilen).
  Local Notation BYTE := (byte_at input ilen).

  (* ---------- the invariant ---------------------------------------------------- *)
  Definition good (p : pt) : Prop := off p + w p <= ilen.
  Definition MemoB (m : PositiveMap.t (bool * pt)) : Prop :=
    forall k b p, PositiveMap.find k m = Some (b, p) -> good p.
  Definition B (s : pst) : Prop := good (cur s) /\ MemoB (memo1 s) /\ MemoB (memo2 s).

  (* ---------- decoding stops at the end of the input ---------------------------- *)
  Lemma byte_at_lt : forall o b, BYTE o = Some b -> o < ilen.
  Proof. intros o b. unfold byte_at. destruct (o <? ilen) eqn:E; [lia|discriminate]. Qed.

  Lemma decode_width : forall o, o <= ilen -> o + snd (DEC o) <= ilen.
  Proof.
    intros o Ho. unfold decode.
    destruct (BYTE o) as [b0|] eqn:E0; [|cbn [snd]; lia].
    apply byte_at_lt in E0.
    destruct (b0 <? 128); [cbn [snd]; lia|].
    destruct (b0 <? 194); [cbn [snd]; lia|].
    destruct (b0 <? 224).
    { destruct (BYTE (o + 1)) as [b1|] eqn:E1; [|cbn [snd]; lia]. apply byte_at_lt in E1.
      destruct (cont b1); cbn [snd]; lia. }
    destruct (b0 <? 240).
    { destruct (BYTE (o + 1)) as [b1|] eqn:E1; [|cbn [snd]; lia]. apply byte_at_lt in E1.
      destruct (BYTE (o + 2)) as [b2|] eqn:E2; [|cbn [snd]; lia]. apply byte_at_lt in E2.
      cbv zeta. destruct (_ && _ && _); cbn [snd]; lia. }
    destruct (b0 <? 245).
    { destruct (BYTE (o + 1)) as [b1|] eqn:E1; [|cbn [snd]; lia]. apply byte_at_lt in E1.
      destruct (BYTE (o + 2)) as [b2|] eqn:E2; [|cbn [snd]; lia]. apply byte_at_lt in E2.
      destruct (BYTE (o + 3)) as [b3|] eqn:E3; [|cbn [snd]; lia]. apply byte_at_lt in E3.
      cbv zeta. destruct (_ && _ && _ && _); cbn [snd]; lia. }
    cbn [snd]; lia.
  Qed.

  (* at or past the end of the input nothing is decoded: width 0, so `read` does not advance *)
  Lemma decode_at_end : forall o, ilen <= o -> DEC o = (RuneError, 0).
  Proof.
    intros o Ho. unfold decode, byte_at. replace (o <? ilen) with false by lia. reflexivity.
  Qed.

  (* ---------- updaters ----------------------------------------------------------- *)
  Lemma B_tick : forall s, B s -> B (tick s). Proof. intros s H; exact H. Qed.
  Lemma B_upd_skip : forall s b, B s -> B (upd_skip s b). Proof. intros s b H; exact H. Qed.
  Lemma B_upd_inv : forall s b, B s -> B (upd_inv s b). Proof. intros s b H; exact H. Qed.
  Lemma B_upd_mf : forall s m, B s -> B (upd_mf s m). Proof. intros s m H; exact H. Qed.
  Lemma B_add_err : forall s, B s -> B (add_err s). Proof. intros s H; exact H. Qed.
  Lemma B_upd_caps : forall s a b, B s -> B (upd_caps s a b). Proof. intros s a b H; exact H. Qed.
  Lemma B_set_fuelout : forall s, B s -> B (set_fuelout s). Proof. intros s H; exact H. Qed.
  Lemma B_put_data : forall s d, B s -> B (put_data s d). Proof. intros s d H; exact H. Qed.

  Lemma B_upd_cur : forall s p, B s -> good p -> B (upd_cur s p).
  Proof. intros s p (H1 & H2 & H3) Hp. repeat split; assumption. Qed.

  (* restore only returns to a point that already satisfied the bound *)
  Lemma B_restore : forall s p, B s -> good p -> B (restore s p).
  Proof. intros s p H Hp. unfold restore. destruct (off p =? off (cur s)); auto using B_upd_cur. Qed.

  Lemma B_fail_at : forall m p s, B s -> B (fail_at m p s).
  Proof.
    intros m p s H. unfold fail_at. destruct (Bool.eqb m (inv s)); auto.
    destruct (mf s) as [[mo l] c]. destruct (mo <? off p); auto using B_upd_mf.
  Qed.

  (* read moves to off + w and decodes there *)
  Lemma B_read : forall s, B s -> B (READ s).
  Proof.
    intros s (H1 & H2 & H3). unfold good in H1.
    pose proof (decode_width (off (cur s) + w (cur s)) H1) as Hd.
    unfold read. cbv zeta.
    destruct (DEC (off (cur s) + w (cur s))) as [r n]. cbn [snd] in Hd.
    destruct ((r =? RuneError) && (n =? 1)); destruct (r =? 10);
      (split; [unfold good; cbn; exact Hd | split; assumption]).
  Qed.

  Lemma read_off : forall s, off (cur (READ s)) = off (cur s) + w (cur s).
  Proof.
    intros s. unfold read. cbv zeta.
    destruct (DEC (off (cur s) + w (cur s))) as [r n].
    destruct ((r =? RuneError) && (n =? 1)); destruct (r =? 10); reflexivity.
  Qed.

  (* the key fact in isolation: a read at the end of the input does not advance *)
  Lemma read_at_end_stays : forall s,
    ilen <= off (cur s) + w (cur s) -> off (cur (READ (READ s))) = off (cur (READ s)).
  Proof.
    intros s H. rewrite (read_off (READ s)), read_off.
    assert (E : w (cur (READ s)) = 0); [|lia].
    unfold read. cbv zeta. rewrite (decode_at_end _ H).
    destruct ((RuneError =? RuneError) && (0 =? 1)); destruct (RuneError =? 10); reflexivity.
  Qed.

  Lemma MemoB_empty : MemoB (PositiveMap.empty _).
  Proof. intros k b p H. rewrite PositiveMap.gempty in H. discriminate. Qed.

  Lemma MemoB_add : forall m k b p, MemoB m -> good p -> MemoB (PositiveMap.add k (b, p) m).
  Proof.
    intros m k b p Hm Hp k' b' p' Hf. destruct (Pos.eq_dec k' k) as [E|E].
    - subst. rewrite PositiveMap.gss in Hf. inversion Hf; subst; exact Hp.
    - rewrite PositiveMap.gso in Hf; eauto.
  Qed.

  Lemma B_memo_put : forall s pos id b p, B s -> good p -> B (memo_put s pos id (b, p)).
  Proof.
    intros s pos id b p (H1 & H2 & H3) Hp. unfold memo_put.
    destruct (skip s); (split; [exact H1|split]); cbn; try assumption; apply MemoB_add; assumption.
  Qed.

  Lemma memo_get_good : forall s id b p, B s -> memo_get s id = Some (b, p) -> good p.
  Proof.
    intros s id b p (H1 & H2 & H3). unfold memo_get. destruct (skip s); intros Hf; eauto.
  Qed.

  Lemma B_off_le : forall s, B s -> off (cur s) <= ilen.
  Proof. intros s (H & _). unfold good in H. lia. Qed.

  Lemma B_init : forall fl, B (READ (init_pst fl)).
  Proof.
    intros fl. apply B_read. split; [unfold good; cbn; lia|]. split; cbn; apply MemoB_empty.
  Qed.

  (* ---------- actions and predicates: the cursor only moves through `read` -------- *)
  Variable cmatch : N -> option N.
  Variable rules : list pexpr.
  Variable classes : list (list (N * N * N)).
  Variable acts : list (list aeff).
  Variable preds : list psum.

  Lemma B_read_until : forall k target s, B s -> B (read_until input ilen k target s).
  Proof.
    induction k as [|k IH]; intros target s H; cbn [read_until]; auto.
    destruct (off (cur s) <? target); auto using B_read.
  Qed.

  Lemma B_custom_consume : forall s, B s -> B (custom_consume input ilen cmatch s).
  Proof.
    intros s H. unfold custom_consume. destruct (cmatch (off (cur s))) as [len|]; auto.
    destruct (0 <? len); auto using B_read_until.
  Qed.

  Lemma B_run_action : forall fn s, B s -> B (run_action input ilen cmatch acts fn s).
  Proof.
    intros fn s H. unfold run_action. cbv zeta.
    destruct (has_consume (nth (N.to_nat fn) acts [AUnknown]));
      [apply B_custom_consume|]; apply B_put_data; exact H.
  Qed.

  Lemma B_run_pred : forall fn s b s',
    B s -> run_pred input ilen cmatch preds fn s = (b, s') -> B s'.
  Proof.
    intros fn s b s' H. unfold run_pred.
    destruct (nth (N.to_nat fn) preds PUnknownP) as [f' v|b' err| |]; intros E.
    - inversion E; subst; auto.
    - inversion E; subst. destruct err; auto using B_add_err.
    - destruct (cmatch (off (cur s))) as [len|]; [|inversion E; subst; auto].
      destruct (0 <? len); inversion E; subst; auto.
      destruct (skip s); auto using B_custom_consume.
    - inversion E; subst. apply B_put_data; exact H.
  Qed.

  Lemma B_match_lit : forall l ic s ok s',
    B s -> match_lit input ilen l ic s = (ok, s') -> B s'.
  Proof.
    induction l as [|c r IH]; intros ic s ok s' H E; cbn [match_lit] in E.
    - inversion E; subst; auto.
    - destruct ((if ic then to_lower (rn (cur s)) else rn (cur s)) =? c).
      + eapply IH; [|exact E]. now apply B_read.
      + inversion E; subst; auto.
  Qed.

  (* ---------- one interpreter step, given the property for the recursive calls ---- *)
  Section Step.
    Variable P : pexpr -> pst -> bool * pst.
    Hypothesis IHP : forall e s ok s', B s -> P e s = (ok, s') -> B s'.

    Lemma seq_go_B : forall start l st ok st',
      good start -> B st -> seq_go P start l st = (ok, st') -> B st'.
    Proof.
      intros start. induction l as [|x r IH]; intros st ok st' Hs HB Hgo; cbn [seq_go] in Hgo.
      - injection Hgo as E1 E2. now rewrite <- E2.
      - destruct (P x st) as [ok1 st1] eqn:E1. pose proof (IHP _ _ _ _ HB E1) as H1.
        destruct ok1; [eapply IH; eauto|].
        injection Hgo as E2 E3. rewrite <- E3. now apply B_restore.
    Qed.

    Lemma choice_go_B : forall l st ok st', B st -> choice_go P l st = (ok, st') -> B st'.
    Proof.
      induction l as [|x r IH]; intros st ok st' HB Hgo; cbn [choice_go] in Hgo.
      - injection Hgo as E1 E2. now rewrite <- E2.
      - destruct (P x st) as [ok1 st1] eqn:E1. pose proof (IHP _ _ _ _ HB E1) as H1.
        destruct ok1; [|eapply IH; eauto].
        injection Hgo as E2 E3. now rewrite <- E3.
    Qed.

    Lemma star_loop_B : forall e1 k st ok st', B st -> star_loop P e1 k st = (ok, st') -> B st'.
    Proof.
      intros e1. induction k as [|k IH]; intros st ok st' HB Hgo; cbn [star_loop] in Hgo.
      - injection Hgo as E1 E2. rewrite <- E2. now apply B_set_fuelout.
      - destruct (P e1 st) as [ok1 st1] eqn:E1. pose proof (IHP _ _ _ _ HB E1) as H1.
        destruct ok1; [eapply IH; eauto|].
        injection Hgo as E2 E3. now rewrite <- E3.
    Qed.

    Lemma step_B : forall fuel e s ok s1,
      B s -> step input ilen cmatch rules classes acts preds P fuel e s = (ok, s1) -> B s1.
    Proof.
      intros fuel e s ok s1 HB Hstep.
      assert (Hcur : good (cur s)) by apply HB.
      destruct e as [i fn e|i es|i es|i lab tc e|i e|i e|i e|i e|i e|i e|i e|i r|i fn|i fn|i fn ns
                    |i v ic|i chars ranges cls ic inv_|i]; cbn [step] in Hstep.
      - (* PAction *)
        destruct (skip s); [eapply IHP; eauto|].
        destruct (P e s) as [ok1 s'] eqn:E1. pose proof (IHP _ _ _ _ HB E1) as H1.
        destruct ok1; injection Hstep as E2 E3; rewrite <- E3; auto using B_run_action.
      - (* PSeq *) eapply seq_go_B; [exact Hcur|exact HB|exact Hstep].
      - (* PChoice *) eapply choice_go_B; [exact HB|exact Hstep].
      - (* PLabel *)
        destruct (P e s) as [ok1 s'] eqn:E1. pose proof (IHP _ _ _ _ HB E1) as H1.
        destruct ok1; [|injection Hstep as E2 E3; now rewrite <- E3].
        destruct (skip s'); [injection Hstep as E2 E3; now rewrite <- E3|].
        destruct (lab =? 1); [injection Hstep as E2 E3; rewrite <- E3; now apply B_upd_caps|].
        destruct (lab =? 2); injection Hstep as E2 E3; rewrite <- E3; auto using B_upd_caps.
      - (* PAnd *)
        destruct (P e (upd_skip s true)) as [ok1 s'] eqn:E1.
        pose proof (IHP _ _ _ _ (B_upd_skip s true HB) E1) as H1.
        injection Hstep as E2 E3. rewrite <- E3. apply B_restore; [apply B_upd_skip; exact H1|exact Hcur].
      - (* PNot *)
        destruct (P e (upd_inv (upd_skip s true) (negb (inv s)))) as [ok1 s'] eqn:E1.
        pose proof (IHP _ _ _ _ (B_upd_inv _ (negb (inv s)) (B_upd_skip s true HB)) E1) as H1.
        injection Hstep as E2 E3. rewrite <- E3.
        apply B_restore; [apply B_upd_inv, B_upd_skip; exact H1|exact Hcur].
      - (* PAndL *)
        destruct (P e (upd_skip s true)) as [ok1 s'] eqn:E1.
        pose proof (IHP _ _ _ _ (B_upd_skip s true HB) E1) as H1.
        injection Hstep as E2 E3. rewrite <- E3. apply B_restore; [apply B_upd_skip; exact H1|exact Hcur].
      - (* PNotL *)
        destruct (P e (upd_inv (upd_skip s true) (negb (inv s)))) as [ok1 s'] eqn:E1.
        pose proof (IHP _ _ _ _ (B_upd_inv _ (negb (inv s)) (B_upd_skip s true HB)) E1) as H1.
        injection Hstep as E2 E3. rewrite <- E3.
        apply B_restore; [apply B_upd_inv, B_upd_skip; exact H1|exact Hcur].
      - (* POpt *)
        destruct (P e s) as [ok1 s'] eqn:E1. pose proof (IHP _ _ _ _ HB E1) as H1.
        injection Hstep as E2 E3. now rewrite <- E3.
      - (* PStar *) eapply star_loop_B; [exact HB|exact Hstep].
      - (* PPlus *)
        destruct (P e s) as [ok1 s'] eqn:E1. pose proof (IHP _ _ _ _ HB E1) as H1.
        destruct ok1; [eapply star_loop_B; [exact H1|exact Hstep]|].
        injection Hstep as E2 E3. now rewrite <- E3.
      - (* PRef *) eapply IHP; [exact HB|exact Hstep].
      - (* PAndCode *) eapply B_run_pred; [exact HB|exact Hstep].
      - (* PNotCode *)
        destruct (run_pred input ilen cmatch preds fn s) as [b s'] eqn:E1.
        injection Hstep as E2 E3. rewrite <- E3. eapply B_run_pred; [exact HB|exact E1].
      - (* PCode *)
        destruct (if ns then false else skip s); injection Hstep as E2 E3; rewrite <- E3;
          auto using B_run_action.
      - (* PLit *)
        destruct (match_lit input ilen v ic s) as [ok1 s'] eqn:E1.
        pose proof (B_match_lit _ _ _ _ _ HB E1) as H1.
        destruct ok1; injection Hstep as E2 E3; rewrite <- E3; auto using B_fail_at, B_restore.
      - (* PClass *)
        destruct (at_eof (cur s)); [injection Hstep as E2 E3; rewrite <- E3; now apply B_fail_at|].
        cbv zeta in Hstep.
        match type of Hstep with (if ?c then _ else _) = _ => destruct c end;
          injection Hstep as E2 E3; rewrite <- E3; auto using B_fail_at, B_read.
      - (* PAny *)
        destruct (at_eof (cur s)); injection Hstep as E2 E3; rewrite <- E3; auto using B_fail_at, B_read.
    Qed.

    Lemma pe_body_B : forall fuel e s0 ok s',
      B s0 -> pe_body input ilen cmatch rules classes acts preds P fuel e s0 = (ok, s') -> B s'.
    Proof.
      intros fuel e s0 ok s' HB. unfold pe_body. cbv zeta.
      destruct (memo_get (tick s0) (node_id e)) as [[b p]|] eqn:Em.
      - intros E. injection E as E1 E2. rewrite <- E2.
        apply B_restore; [apply B_tick; exact HB|]. eapply memo_get_good; [apply B_tick; exact HB|exact Em].
      - destruct (step input ilen cmatch rules classes acts preds P fuel e (tick s0)) as [ok1 s1] eqn:E1.
        intros E. injection E as E2 E3. rewrite <- E3.
        pose proof (step_B _ _ _ _ _ (B_tick s0 HB) E1) as H1.
        apply B_memo_put; [exact H1|apply H1].
    Qed.
  End Step.

  (* ---------- the interpreter preserves the bound, for every grammar --------------- *)
  Theorem pe_B : forall fuel e s ok s',
    B s -> pe input ilen cmatch rules classes acts preds fuel e s = (ok, s') -> B s'.
  Proof.
    induction fuel as [|fuel IH]; intros e s ok s' HB E.
    - cbn [pe] in E. injection E as E1 E2. rewrite <- E2. now apply B_set_fuelout.
    - rewrite pe_S in E. eapply pe_body_B; [exact IH|exact HB|exact E].
  Qed.

End Bounds.

(* ================================================================================== *)
(* The final offset of Parse never exceeds the input length: arbitrary grammar, class table,
   action table, predicate table, custom matcher (claiming any length), fuel, flags, input. *)
Theorem parse_offset_le_length : forall cmatch rules classes acts preds fuel fl bytes,
  r_off (parse_custom cmatch rules classes acts preds fuel fl bytes) <= N.of_nat (length bytes).
Proof.
  intros cmatch rules classes acts preds fuel fl bytes. unfold parse_custom. cbv zeta.
  destruct (pe (mk_input bytes 0 (PositiveMap.empty N)) (N.of_nat (length bytes)) cmatch rules classes acts preds
               fuel (nth 0 rules (PAny 0))
               (read (mk_input bytes 0 (PositiveMap.empty N)) (N.of_nat (length bytes)) (init_pst fl)))
    as [ok s1] eqn:E.
  cbn [r_off]. eapply B_off_le. eapply pe_B; [|exact E]. apply B_init.
Qed.

(* the same for the parser without custom dice *)
Corollary parse_offset_le_length_nocustom : forall rules classes acts preds fuel fl bytes,
  r_off (parse rules classes acts preds fuel fl bytes) <= N.of_nat (length bytes).
Proof. intros. apply parse_offset_le_length. Qed.

(* a stronger form: the rune under the final cursor lies inside the input as well
   (presult only exports the offset, so this is stated on pe) *)
Theorem pe_final_point_in_input : forall cmatch rules classes acts preds fuel fl bytes ok s1,
  pe (mk_input bytes 0 (PositiveMap.empty N)) (N.of_nat (length bytes)) cmatch rules classes acts preds
     fuel (nth 0 rules (PAny 0))
     (read (mk_input bytes 0 (PositiveMap.empty N)) (N.of_nat (length bytes)) (init_pst fl)) = (ok, s1) ->
  off (cur s1) + w (cur s1) <= N.of_nat (length bytes).
Proof.
  intros cmatch rules classes acts preds fuel fl bytes ok s1 E.
  assert (H : B (N.of_nat (length bytes)) s1) by (eapply pe_B; [|exact E]; apply B_init).
  apply H.
Qed.

(* ---------- tie to Model/Matched.v (RunAfterParsed's Matched / RestInput) ---------- *)
(* With o the parser's final offset: data[:o] is a legal slice of exactly o bytes (no slice
   panic), Matched ++ RestInput = input, Matched is a prefix of the input of length <= o <= len,
   and RestInput is the corresponding suffix. *)
Theorem parse_matched_rest_split : forall cmatch rules classes acts preds fuel fl bytes,
  let o := N.to_nat (r_off (parse_custom cmatch rules classes acts preds fuel fl bytes)) in
  (o <= length bytes)%nat /\
  length (firstn o bytes) = o /\
  matched bytes o ++ rest bytes o = bytes /\
  (length (matched bytes o) <= o)%nat /\
  (length (matched bytes o) <= length bytes)%nat /\
  exists k, (k <= o)%nat /\ matched bytes o = firstn k bytes /\ rest bytes o = skipn k bytes.
Proof.
  intros cmatch rules classes acts preds fuel fl bytes o.
  pose proof (parse_offset_le_length cmatch rules classes acts preds fuel fl bytes) as Hle.
  assert (Ho : (o <= length bytes)%nat) by (unfold o; lia).
  pose proof (matched_length_le_offset bytes o) as Hm.
  split; [exact Ho|]. split; [rewrite firstn_length; lia|].
  split; [apply matched_rest_split|]. split; [exact Hm|]. split; [lia|].
  destruct (matched_is_prefix bytes o) as [k (Hk & Hl & Ek)].
  exists k. split; [exact Hk|]. split; [exact Ek|].
  unfold rest. rewrite Ek, firstn_length. f_equal. lia.
Qed.

(* non-vacuity: a custom matcher that claims 1000 bytes on a 3-byte input, consumed by
   ConsumeCustomDice — the cursor stops at the end of the input (offset 3), it does not reach 1000 *)
Example greedy_matcher_stops_at_end :
  let r := parse_custom (fun _ => Some 1000) [PSeq 1 [PAndCode 2 0; PCode 3 0 true]] [] [[ACustomConsume]] [PCustomP]
                        100 [] [49; 50; 51] in
  r_ok r = true /\ r_off r = 3.
Proof. vm_compute. split; reflexivity. Qed.

Print Assumptions parse_offset_le_length.
Print Assumptions parse_matched_rest_split.
