(* Abstract syntax of a CORE fragment of the documented dicescript language (docs/GUIDE.md, roll.peg)
   and a printer `print : ws_choice -> stmt -> string` that emits source text for ANY whitespace /
   redundant-parenthesis choice `ws`.

   FRAGMENT   int and string literals, null / true / false, variables, assignment `x = e`, unary + -,
   every binary operator (+ - * / % ^ ?? < <= == != >= > & | &&), `||`, the ternary `c ? a : b`,
   array literals and indexing `e[i]`, dice terms `XdY`; statements: expression statement, sequence
   (`;`), if / else (an `else` whose body is a single `if` may be printed `else if`), while, break,
   continue, the empty statement.  Parenthesised expressions are not a constructor: parentheses are
   a PRINTING choice (any sub-expression may be wrapped), and the printer adds the ones the grammar
   needs.

   THE PRINTER AND THE GRAMMAR (roll.peg).  Precedence, loosest first:
     0 assignment (exprRoot: only at statement level, inside ( ), [ ], conditions, right of `=`)
     1 ternary  2 ||  3 &&  4 |  5 &  6 compare  7 + -  8 * / %  9 ??  10 ^  11 unary  12 atom
   all binary operators are left associative: left operand at the operator's level, right operand
   one level higher.  ASYMMETRIES: the right operand of * / % is an exprExp (level 10, not 9);
   the three parts of a ternary are exprLogicOr (level 2); the operand of a unary operator is an
   exprDice (level 12); the base of an index must be a variable, an array literal or parenthesised.
   WHITESPACE is not free in this grammar: a number consumes no trailing blanks, a variable only
   blanks and tabs (spNoCR); every other token consumes `sp`.  Blanks after a number / newlines after
   a variable are legal only when the NEXT token's rule begins with `sp` (binary operators, ? : ;
   the { of a block, the ] of an index, the } of a block, end of input).  `if` / `while` need at least
   one blank.  Statements are always separated with `;` (a newline is not a reliable separator:
   known finding newline-after-bracket-value-not-a-separator).
   TWO PLACES WHERE THE PRINTER DELIBERATELY AVOIDS / FLAGS A DEFECT OF THE GRAMMAR
     * `&&` directly followed by an identifier / true / false / null is read as `&` + raw load
       (`1 &&x` = `1 & (&x)`): the printer always puts a blank there (finding logic-and-glued-identifier);
     * an expression in exprRoot position that starts with a parenthesis closed right before `!=`
       is cut after the parenthesis (`(1) != 1` returns 1): `paren_ne_flag` tells whether a printed
       text contains that shape (finding paren-lead-ne-truncated); the printer does not avoid it
       because for `(x || y) != 3` the parentheses are needed;
     * an index closed right before `==` (`x[0] == 1`) is cut before the index: the printer wraps the
       left operand of `==` in parentheses when it ends with an index (finding index-eq-truncated). *)
From Coq Require Import String Ascii NArith ZArith List Bool.
From DS Require Import Model.Str.
Import ListNotations.
Open Scope string_scope.

Inductive unop := UNeg | UPos.
Inductive binop :=
| BAdd | BSub | BMul | BDiv | BMod | BPow | BNullCo
| BLt | BLe | BEq | BNe | BGe | BGt
| BBitAnd | BBitOr | BAnd.

Inductive expr :=
| EInt (n : N)                        (* decimal literal *)
| EStr (s : string)
| ENull | ETrue | EFalse
| EVar (x : string)
| EAssign (x : string) (e : expr)
| EUn (o : unop) (e : expr)
| EBin (o : binop) (l r : expr)
| EOr (l r : expr)
| ETern (c a b : expr)
| EArr (l : list expr)
| EIdx (e i : expr)
| ERoll (x y : expr).                 (* XdY *)

Inductive stmt :=
| SNop                                (* empty statement / empty block *)
| SExpr (e : expr)
| SSeq (s1 s2 : stmt)
| SIf (c : expr) (t e : stmt)         (* e = SNop: no else part *)
| SWhile (c : expr) (b : stmt)
| SBreak
| SContinue.

(* ------------------------------------------------------------------ tokens *)
Inductive tok :=
| TNum (s : string)      (* digits; no trailing blanks *)
| TId (s : string)       (* variable read; trailing spNoCR *)
| TIdL (s : string)      (* assignment target; trailing sp *)
| TStr (s : string)      (* quoted literal, already escaped *)
| TKw (s : string)       (* true false null break continue *)
| TKw1 (s : string)      (* if while: at least one blank after *)
| TElse
| TOp (s : string)       (* binary operator: sp before and after *)
| TUn (s : string)       (* unary operator: sp after *)
| TQ | TColon | TAssign
| TLP | TRP
| TLB                    (* [ *)
| TRBidx                 (* ] closing an index: sp before *)
| TRBarr                 (* ] closing an array literal *)
| TComma
| TD                     (* the d of XdY: no blanks around *)
| TLC | TRC              (* { } of a block *)
| TSemi.

Definition tok_text (t : tok) : string :=
  match t with
  | TNum s | TId s | TIdL s | TStr s | TKw s | TKw1 s | TOp s | TUn s => s
  | TElse => "else" | TQ => "?" | TColon => ":" | TAssign => "="
  | TLP => "(" | TRP => ")" | TLB => "[" | TRBidx | TRBarr => "]" | TComma => ","
  | TD => "d" | TLC => "{" | TRC => "}" | TSemi => ";"
  end.

(* ------------------------------------------------------------------ choices *)
(* one number per position of the output under construction *)
Definition ws_choice := nat -> N.
Definition mk_ws (seed : N) : ws_choice :=
  let a := (N.land ((seed + 1) * 2654435761) 1099511627775)%N in
  fun i => let n := N.of_nat i in
           N.land (N.shiftr (a + (n + 7) * (n + 13) * 40503 + n * 977) 6) 65535.
Definition ws_none : ws_choice := fun _ => 353%N.   (* no redundant parentheses, no optional blanks *)

(* ------------------------------------------------------------------ literals *)
Definition bin_level (o : binop) : nat :=
  match o with
  | BAnd => 3 | BBitOr => 4 | BBitAnd => 5
  | BLt | BLe | BEq | BNe | BGe | BGt => 6
  | BAdd | BSub => 7
  | BMul | BDiv | BMod => 8
  | BNullCo => 9
  | BPow => 10
  end.
Definition bin_right_level (o : binop) : nat :=
  match o with
  | BMul | BDiv | BMod => 10            (* right operand is an exprExp *)
  | _ => S (bin_level o)
  end.
Definition bin_text (o : binop) (alt : bool) : string :=
  match o with
  | BAdd => "+" | BSub => "-" | BMul => "*" | BDiv => "/" | BMod => "%"
  | BPow => if alt then "**" else "^"
  | BNullCo => "??"
  | BLt => "<" | BLe => "<=" | BEq => "==" | BNe => "!=" | BGe => ">=" | BGt => ">"
  | BBitAnd => "&" | BBitOr => "|" | BAnd => "&&"
  end.

Definition level_of (e : expr) : nat :=
  match e with
  | EAssign _ _ => 0
  | ETern _ _ _ => 1
  | EOr _ _ => 2
  | EBin o _ _ => bin_level o
  | EUn _ _ => 11
  | ERoll _ _ => 12
  | _ => 12
  end.

(* escapes of a '...' literal (strEscape) *)
Fixpoint esc (s : string) : string :=
  match s with
  | EmptyString => EmptyString
  | String c r =>
    let n := N_of_ascii c in
    if (n =? 92)%N then String c (String c (esc r))                 (* \ *)
    else if (n =? 39)%N then String (ascii_of_N 92) (String c (esc r))   (* ' *)
    else if (n =? 10)%N then String (ascii_of_N 92) (String "n" (esc r))
    else if (n =? 13)%N then String (ascii_of_N 92) (String "r" (esc r))
    else if (n =? 9)%N then String (ascii_of_N 92) (String "t" (esc r))
    else if (n =? 12)%N then String (ascii_of_N 92) (String "f" (esc r))
    else String c (esc r)
  end.
Definition quote (s : string) : string := "'" ++ esc s ++ "'".

(* ------------------------------------------------------------------ expression tokens *)
(* accumulator style: `acc` is the reversed token list so far; the choice at a node is
   ws (length acc) *)
Section Toks.
  Variable ws : ws_choice.
  Definition pick (acc : list tok) : N := ws (length acc).

  Definition is_nos (e : expr) : bool := match e with EInt _ => true | _ => false end.

  Fixpoint etoks (e : expr) (lvl : nat) (acc : list tok) {struct e} : list tok :=
    let wrap := (Nat.ltb (level_of e) lvl) || ((pick acc mod 7 =? 0)%N) in
    let acc0 := if wrap then TLP :: acc else acc in
    let body :=
      match e with
      | EInt n => TNum (show_N n) :: acc0
      | EStr s => TStr (quote s) :: acc0
      | ENull => TKw "null" :: acc0
      | ETrue => TKw "true" :: acc0
      | EFalse => TKw "false" :: acc0
      | EVar x => TId x :: acc0
      | EAssign x e1 => etoks e1 0 (TAssign :: TIdL x :: acc0)
      | EUn o e1 => etoks e1 12 (TUn (match o with UNeg => "-" | UPos => "+" end) :: acc0)
      | EBin o l r =>
        let a1 := etoks l (bin_level o) acc0 in
        (* `x[0] == 1`: an index closed right before `==` is not parsed (finding index-eq-truncated):
           the printer wraps such a left operand *)
        let a1 := match o, a1 with
                  | BEq, TRBidx :: _ => etoks l 13 acc0
                  | _, _ => a1
                  end in
        etoks r (bin_right_level o) (TOp (bin_text o ((pick a1 mod 2 =? 0)%N)) :: a1)
      | EOr l r => etoks r 3 (TOp "||" :: etoks l 2 acc0)
      | ETern c a b => etoks b 2 (TColon :: etoks a 2 (TQ :: etoks c 2 acc0))
      | EArr l =>
        let fix items (l : list expr) (first : bool) (acc : list tok) : list tok :=
            match l with
            | [] => acc
            | x :: r => items r false (etoks x 0 (if first then acc else TComma :: acc))
            end in
        TRBarr :: items l true (TLB :: acc0)
      | EIdx b i =>
        (* base: a variable, an array literal, an index chain, or parenthesised *)
        let a1 := match b with
                  | EVar _ | EArr _ | EIdx _ _ => etoks b 12 acc0
                  | _ => TRP :: etoks b 0 (TLP :: acc0)
                  end in
        TRBidx :: etoks i 0 (TLB :: a1)
      | ERoll x y =>
        (* nos = number / sub *)
        let px := if is_nos x then etoks x 12 acc0 else TRP :: etoks x 0 (TLP :: acc0) in
        let a1 := TD :: px in
        if is_nos y then etoks y 12 a1 else TRP :: etoks y 0 (TLP :: a1)
      end in
    if wrap then TRP :: body else body.
End Toks.

(* NOTE on ERoll operands and on wrap: a number operand that the choice wraps in parentheses is
   still a legal `nos` (sub), so `etoks x 12` is fine for it. *)

(* ------------------------------------------------------------------ statement tokens *)
Section SToks.
  Variable ws : ws_choice.

  Definition ends_with_block (s : stmt) : bool :=
    match s with SIf _ _ _ | SWhile _ _ => true | _ => false end.
  Fixpoint last_stmt (s : stmt) : stmt := match s with SSeq _ s2 => last_stmt s2 | _ => s end.

  Fixpoint stoks (s : stmt) (acc : list tok) {struct s} : list tok :=
    match s with
    | SNop => acc
    | SExpr e => etoks ws e 0 acc
    | SSeq s1 s2 =>
      let a1 := stoks s1 acc in
      (* the `;` may be left out after a block *)
      let sep := if ends_with_block (last_stmt s1) && ((pick ws a1 mod 3 =? 0)%N) then a1 else TSemi :: a1 in
      stoks s2 sep
    | SIf c t e =>
      let a1 := TRC :: stoks t (TLC :: etoks ws c 0 (TKw1 "if" :: acc)) in
      match e with
      | SNop => if (pick ws a1 mod 4 =? 0)%N then TRC :: TLC :: TElse :: a1 else a1
      | SIf _ _ _ => if (pick ws a1 mod 2 =? 0)%N then stoks e (TElse :: a1)
                     else TRC :: stoks e (TLC :: TElse :: a1)
      | _ => TRC :: stoks e (TLC :: TElse :: a1)
      end
    | SWhile c b => TRC :: stoks b (TLC :: etoks ws c 0 (TKw1 "while" :: acc))
    | SBreak => TKw "break" :: acc
    | SContinue => TKw "continue" :: acc
    end.
End SToks.

(* ------------------------------------------------------------------ rendering *)
Inductive trail := TrNone | TrNoCR | TrAny.
Definition trailing (t : tok) : trail :=
  match t with
  | TNum _ => TrNone
  | TId _ => TrNoCR
  | TD => TrNone
  | _ => TrAny
  end.
(* the rule that consumes the token begins with `sp` *)
Definition leading_sp (t : tok) : bool :=
  match t with
  | TOp _ | TQ | TColon | TSemi | TLC | TRBidx | TRC => true
  | _ => false
  end.
Definition id_start (t : tok) : bool :=
  match t with TId _ | TIdL _ | TKw _ | TKw1 _ | TElse => true | _ => false end.

Inductive gap := GNone | GSpace | GAny | GNeed.
Definition gap_of (t1 t2 : tok) : gap :=
  if (match t1 with TOp s => String.eqb s "&&" | _ => false end) && id_start t2 then GNeed else
  match t1, t2 with
  | TKw1 _, _ => GNeed
  | TElse, TKw1 _ => GNeed
  | TId _, TColon => GNeed                 (* `x:y` is one identifier *)
  | _, TD => GNone
  | TD, _ => GNone
  | _, _ =>
    if leading_sp t2 then GAny
    else match trailing t1 with
         | TrAny => GAny
         | TrNoCR => GSpace
         | TrNone => GNone
         end
  end.

Definition nl : string := String (ascii_of_N 10) EmptyString.
Definition tab : string := String (ascii_of_N 9) EmptyString.
Definition cr : string := String (ascii_of_N 13) EmptyString.

Definition blanks (g : gap) (k : N) : string :=
  match g with
  | GNone => ""
  | GSpace => match (k mod 5)%N with 0%N => " " | 1%N => tab | 2%N => "  " | _ => "" end
  | GAny => match (k mod 9)%N with
            | 0%N => " " | 1%N => nl | 2%N => tab | 3%N => " " ++ nl ++ "  " | 4%N => cr ++ nl | 5%N => " "
            | _ => ""
            end
  | GNeed => match (k mod 5)%N with 0%N => nl | 1%N => tab | 2%N => "  " | 3%N => " " ++ nl | _ => " " end
  end.

(* end of input behaves like a token with a leading sp *)
Fixpoint render (ws : ws_choice) (l : list tok) (pos : nat) : string :=
  match l with
  | [] => ""
  | [t] => tok_text t ++ blanks GAny (N.shiftr (ws (pos + 3)%nat) 3)
  | t1 :: ((t2 :: _) as r) =>
    let b := blanks (gap_of t1 t2) (N.shiftr (ws (pos + 3)%nat) 3) in
    tok_text t1 ++ b ++ render ws r (S pos)
  end.

Definition tokens (ws : ws_choice) (s : stmt) : list tok := rev (stoks ws s []).
Definition print (ws : ws_choice) (s : stmt) : string :=
  blanks GAny (N.shiftr (ws 0%nat) 3) ++ render ws (tokens ws s) 1.
Definition print_expr (ws : ws_choice) (e : expr) : string := print ws (SExpr e).

(* ------------------------------------------------------------------ the `(...) !=` shape *)
Definition root_start (prev : option tok) : bool :=
  match prev with
  | None => true
  | Some t => match t with
              | TSemi | TLC | TLP | TAssign | TKw1 _ | TLB | TComma | TElse | TRC => true
              | _ => false
              end
  end.
(* the tokens after the parenthesis that matches an opening one (depth counts ( only) *)
Fixpoint after_close (l : list tok) (depth : nat) : list tok :=
  match l with
  | [] => []
  | TLP :: r => after_close r (S depth)
  | TRP :: r => match depth with
                | O => r
                | S d => after_close r d
                end
  | _ :: r => after_close r depth
  end.
(* skip index suffixes `[ .. ]` (subX = sub item_get attr_get) *)
Fixpoint skip_index (fuel : nat) (l : list tok) (depth : nat) : list tok :=
  match fuel with
  | O => l
  | S f =>
    match l, depth with
    | TLB :: r, _ => skip_index f r (S depth)
    | (TRBidx | TRBarr) :: r, S d => skip_index f r d
    | _ :: r, S _ => skip_index f r depth
    | _, O => l
    | [], _ => []
    end
  end.
Fixpoint paren_ne_scan (prev : option tok) (l : list tok) : bool :=
  match l with
  | [] => false
  | t :: r =>
    (match t with
     | TLP => if root_start prev then
                match skip_index (length r) (after_close r 0) 0 with TOp s :: _ => String.eqb s "!=" | _ => false end
              else false
     | _ => false
     end) || paren_ne_scan (Some t) r
  end.
Definition paren_ne_flag (ws : ws_choice) (s : stmt) : bool := paren_ne_scan None (tokens ws s).
