"""Encoding of the c04 harness rows as Coq `c04_case` terms (shared by C04, C15, C06)."""
from common import Z


def opt(x):
    return "None" if x is None else f"(Some {Z(x)})"


def qs(s):
    return '"' + s.replace('"', '""') + '"'


def call_term(r):
    a, m = r["args"], Z(r["mode"])
    c = r["call"]
    if c == "common":
        return f"(CCommon {Z(a[0])} {Z(a[1])} {opt(r['dmin'])} {opt(r['dmax'])} {Z(a[2])} {Z(a[3])} {Z(a[4])} {m})"
    if c == "coc":
        return f"(CCoC {'true' if r['flag'] else 'false'} {Z(a[0])} {m})"
    if c == "fate":
        return f"(CFate {m})"
    if c == "wod":
        return f"(CWod {Z(a[0])} {Z(a[1])} {Z(a[2])} {Z(a[3])} {'true' if r['flag'] else 'false'} {m})"
    if c == "dc":
        return f"(CDc {Z(a[0])} {Z(a[1])} {Z(a[2])} {m})"
    raise ValueError(c)


def case_term(r):
    nums = "[" + ";".join(Z(x) for x in r["out"]) + "]"
    return f"({call_term(r)}, ({r['hi']}%N,{r['lo']}%N), ({nums}, {qs(r['text'])}, {r['hi2']}%N, {r['lo2']}%N))"


HEADER = ("From Coq Require Import String NArith ZArith List.\n"
          "From DS Require Import Model.PCG Model.Roll Model.Str Model.Dice Corr.Corr05 Corr.Corr04.\n"
          "Import ListNotations.\nOpen Scope string_scope.\nSet Printing Width 1000000. Set Printing Depth 10000000.\n")


def cases_v(rows):
    return (HEADER + "Definition cases : list c04_case := [\n" + ";\n".join(case_term(r) for r in rows) + "].\n"
            "Definition bad := Eval vm_compute in bad_indices c04_ok 0%N cases.\nPrint bad.\n")


def correspond(common, rows, tag, shard=400):
    ks = list(range(0, len(rows), shard))
    outs = common.coq_eval_many([(f"{tag}_{k}", cases_v(rows[k:k + shard])) for k in ks])
    bad = []
    for k, out in zip(ks, outs):
        bad += [k + int(x.replace("%N", "")) for x in common.parse_coq_list(out, "bad")]
    return bad
