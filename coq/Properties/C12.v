(* C12 — ValueMap is a correct map (sequential half: every history).
   Only statements, `exact lemma`, Print Assumptions. *)
From stdpp Require Import gmap.
From Coq Require Import NArith.
From stdpp Require Import sorting.
From DS Require Import Model.ValueMap Proofs.ValueMapProofs Model.ValueMapConc Proofs.ValueMapConcLin Proofs.ValueMapConcProofs Model.ValueMapScan Proofs.ValueMapScanProofs.

(* For EVERY sequence of Store, Load, LoadOrStore, LoadAndDelete, Delete, Clear, Range and
   Length calls, the results of the transliterated sync.Map clone equal those of an ordinary
   finite map (Length = number of live keys; Range = exactly the live pairs, once each,
   compared sorted by key). *)
Theorem C12_results_equal_plain_map :
  forall ops : list vop, (vm_run vm_init ops).2 = (spec_run ∅ ops).2.
Proof. exact refines_run. Qed.

(* ... and the abstract contents after the history are those of the ordinary map *)
Theorem C12_contents_equal_plain_map :
  forall ops : list vop, abs (vm_run vm_init ops).1 = (spec_run ∅ ops).1.
Proof. exact refines_run_state. Qed.

(* one-step refinement from any state satisfying the invariant *)
Theorem C12_refines_step :
  forall m o, Inv m ->
    (vm_step m o).2 = (spec_step (abs m) o).2 /\ abs (vm_step m o).1 = (spec_step (abs m) o).1.
Proof. exact refines_step. Qed.

Theorem C12_invariant_init : Inv vm_init.
Proof. exact inv_init. Qed.

Theorem C12_invariant_step : forall m o, Inv m -> Inv (vm_step m o).1.
Proof. exact inv_step. Qed.

(* the code never writes to a nil dirty map (no Go panic), whatever the history *)
Theorem C12_never_panics : forall ops, ok (vm_run vm_init ops).1 = true.
Proof. exact never_panics. Qed.

(* the abstraction function is the pointwise lookup the code performs *)
Theorem C12_abs_is_lookup : forall m k, Inv m -> abs m !! k = abs_lookup m k.
Proof. exact abs_lookup_spec. Qed.

(* the Length of the unrepaired code (len of the map incl. tombstones) is NOT the number
   of live keys — the defect repaired by the `fix:` commit on valuemap.go *)
Theorem C12_length_raw_refuted :
  exists ops, let m := (vm_run vm_init ops).1 in vm_length_raw m <> size (abs m).
Proof. exact length_raw_refuted. Qed.

Print Assumptions C12_results_equal_plain_map.
Print Assumptions C12_contents_equal_plain_map.
Print Assumptions C12_refines_step.
Print Assumptions C12_invariant_init.
Print Assumptions C12_invariant_step.
Print Assumptions C12_never_panics.
Print Assumptions C12_abs_is_lookup.
Print Assumptions C12_length_raw_refuted.

(* non-vacuity: a reachable amended state with an expunged and a nil entry satisfies Inv *)
Example C12_nonvacuous : Inv ex_state /\ amended ex_state = true.
Proof. destruct ex_nonvacuous as (H1 & H2 & _). split; assumption. Qed.

(* ---- concurrent half: the linearizability monitor is sound and complete ---------- *)
From DS Require Import Model.Linz Proofs.LinzProofs.

(* linearizable h = true  <->  some permutation of the recorded events respects real-time
   order (an event that returned before another was invoked comes first) and is a legal
   sequential history of the ordinary-map specification with exactly the recorded results *)
Theorem C12_linearizability_monitor_correct :
  forall h, linearizable h = true <->
    exists l, l ≡ₚ h /\ respects_rt l /\ seq_ok ∅ l.
Proof. exact linearizable_correct. Qed.
Print Assumptions C12_linearizability_monitor_correct.

(* ---- concurrency: an INTERLEAVING model of the algorithm as written in valuemap.go (Model/ValueMapConc.v): shared state =
   read map + amended flag, dirty map, entry cells shared between the two (nil / expunged / value with a pointer tag),
   misses, mutex holder; one schedule element = one atomic action of the Go code (atomic load of m.read, atomic load /
   compare-and-swap of an entry pointer with the retry loops of tryStore / delete / tryLoadOrStore, Lock — enabled only when
   free —, the lock-protected region, Unlock); operations Load, Store, LoadAndDelete, LoadOrStore with fast and slow paths,
   unexpunge, missLocked with the real promotion test, dirtyLocked with expunging.
   For EVERY number of threads, every list of operations per thread and EVERY schedule, the history of invocations and
   responses is linearizable with respect to an ordinary finite map: there are linearization points between each
   operation's invocation and response such that the map specification, run in that order from the empty map, gives
   every completed operation exactly the response it returned.  (Range / Length / Clear are not in the concurrent model:
   Range / Length are a scanner layer on top of this model, see the end of the file; Clear is covered by the sequential
   theorems above and by the monitor on recorded histories; atomics are taken to be sequentially consistent.) *)
Theorem C12_linearizable_all_schedules : forall (threads : list (list cop)) (sched : list nat),
  ValueMapConc.linearizable (history_of (run_sched (init_conf threads) sched)).
Proof. exact valuemap_linearizable. Qed.

Print Assumptions C12_linearizable_all_schedules.

(* ---- Range / Length under concurrency (Model/ValueMapScan.v, Proofs/ValueMapScanProofs.v): a SCANNER thread layered on
   the interleaving model, step by step as in valuemap.go — atomic load of m.read; if amended: Lock, promote dirty, Unlock;
   then ONE atomic load of the entry cell PER KEY of the table taken, in key order — interleaved with the point-operation
   threads of the unchanged model (same shared record, same mutex).
   The property's sentence "every execution is linearizable" is FALSE for Range and Length (recorded finding
   concurrent-range-length-not-atomic-snapshot): in the schedule below the map is non-empty at every instant between the
   scan's invocation and its response, yet Range visits nothing and Length is 0 — the history
   Store(k1,1) | Range begins, takes the table {k1} | Store(k2,3); LoadAndDelete(k1) | Range loads k1's cell: gone. *)
Theorem C12_range_length_not_atomic_refuted :
  exists (threads : list (list cop)) (sched : list who),
    let tr := strace (sinit threads) sched in
    let fin := srun (sinit threads) sched in
    last tr = Some fin /\
    range_result fin = Some [] /\ length_result fin = Some 0%nat /\
    (forall x, x ∈ tr -> sc_pc x <> ScIdle -> abs_of (sc_sh x) <> ∅) /\
    (forall x, x ∈ tr -> sc_pc x <> ScIdle ->
       (spec_step (abs_of (sc_sh x)) ORange).2 <> RPairs [] /\
       (spec_step (abs_of (sc_sh x)) OLength).2 <> RLen 0).
Proof. exact range_not_atomic_snapshot. Qed.

(* What IS guaranteed, for every number of threads and EVERY schedule:
   every visited pair was the value of its key at the instant the scanner loaded that key's cell (an instant between the
   scan's invocation and its response) ... *)
Theorem C12_range_visited_was_present : forall threads ws res k v,
  range_result (srun (sinit threads) ws) = Some res -> (k, v) ∈ res ->
  exists x, x ∈ strace (sinit threads) ws /\ sc_active (sc_pc x) = true /\
            loading k (sc_pc x) /\ abs_of (sc_sh x) !! k = Some v.
Proof. exact range_visited_was_present. Qed.

(* ... every key is visited at most once, in increasing key order ... *)
Theorem C12_range_keys_once_in_order : forall threads ws res,
  range_result (srun (sinit threads) ws) = Some res -> StronglySorted key_lt res /\ NoDup (res.*1).
Proof. exact range_keys_increasing. Qed.

(* ... a key that is live during the whole scan is visited ... *)
Theorem C12_range_live_key_visited : forall threads ws res k,
  range_result (srun (sinit threads) ws) = Some res ->
  (forall x, x ∈ strace (sinit threads) ws -> sc_active (sc_pc x) = true -> is_Some (abs_of (sc_sh x) !! k)) ->
  k ∈ res.*1.
Proof. exact range_live_key_visited. Qed.

(* ... and ONCE QUIESCENT (no point operation in progress) the scan returns exactly the contents, which are those of a
   sequential order of the completed operations (the second half of the property's concurrency sentence) *)
Theorem C12_range_quiescent_exact : forall threads pre n res,
  let x := srun (sinit threads) pre in
  sc_pc x = ScIdle -> quiescent (sc_c x) ->
  range_result (srun x (repeat Scan n)) = Some res ->
  res = sort_pairs (map_to_list (abs_of (sc_sh x))) /\
  RPairs res = (spec_step (abs_of (sc_sh x)) ORange).2 /\
  abs_of (sc_sh (srun x (repeat Scan n))) = abs_of (sc_sh x).
Proof. exact range_quiescent_exact. Qed.

Theorem C12_quiescent_contents_are_linearized : forall threads ws,
  let x := srun (sinit threads) ws in
  exists l st, erase l = history_of (sc_c x) /\
               replay (∅, ∅) l = Some (abs_of (sc_sh x), st) /\
               (quiescent (sc_c x) -> st = ∅).
Proof. exact abs_of_is_linearized_contents. Qed.

Theorem C12_length_quiescent_exact : forall threads pre n m,
  let x := srun (sinit threads) pre in
  sc_pc x = ScIdle -> quiescent (sc_c x) ->
  length_result (srun x (repeat Scan n)) = Some m ->
  m = size (abs_of (sc_sh x)) /\ RLen m = (spec_step (abs_of (sc_sh x)) OLength).2.
Proof. exact length_quiescent_exact. Qed.

(* the point operations stay linearizable while a scanner runs (its promotion included) *)
Theorem C12_point_ops_linearizable_with_scan : forall threads ws,
  ValueMapConc.linearizable (history_of (sc_c (srun (sinit threads) ws))).
Proof. exact point_ops_linearizable_with_scan. Qed.

Print Assumptions C12_range_length_not_atomic_refuted.
Print Assumptions C12_range_visited_was_present.
Print Assumptions C12_range_keys_once_in_order.
Print Assumptions C12_range_live_key_visited.
Print Assumptions C12_range_quiescent_exact.
Print Assumptions C12_quiescent_contents_are_linearized.
Print Assumptions C12_length_quiescent_exact.
Print Assumptions C12_point_ops_linearizable_with_scan.
