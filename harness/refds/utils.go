//go:build !js && !tinygo
// +build !js,!tinygo

package dicescript

import (
	"encoding/json"
	"fmt"
	"strconv"
)

// FmtPrintf 输出调试信息
func FmtPrintf(format string, args ...any) {
	fmt.Printf(format, args...)
}

// FmtPrintln 输出一行信息
func FmtPrintln(args ...any) {
	fmt.Println(args...)
}

// FmtSprintf 格式化字符串
func FmtSprintf(format string, args ...any) string {
	return fmt.Sprintf(format, args...)
}

// FmtErrorf wraps fmt.Errorf
func FmtErrorf(format string, args ...interface{}) error {
	return fmt.Errorf(format, args...)
}

// StrconvParseInt wraps strconv.ParseInt
func StrconvParseInt(s string, base int, bitSize int) (int64, error) {
	return strconv.ParseInt(s, base, bitSize)
}

// StrconvFormatInt wraps strconv.FormatInt
func StrconvFormatInt(i int64, base int) string {
	return strconv.FormatInt(i, base)
}

// StrconvFormatFloat wraps strconv.FormatFloat
func StrconvFormatFloat(f float64, fmt byte, prec int, bitSize int) string {
	return strconv.FormatFloat(f, fmt, prec, bitSize)
}

func StrconvParseFloat(s string, bitSize int) (float64, error) {
	return strconv.ParseFloat(s, bitSize)
}

// JSONMarshal 封装json.Marshal
func JSONMarshal(v interface{}) ([]byte, error) {
	return json.Marshal(v)
}

// JSONUnmarshal 封装json.Unmarshal
func JSONUnmarshal(data []byte, v interface{}) error {
	return json.Unmarshal(data, v)
}
