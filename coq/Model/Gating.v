(* Static flag-gating analysis of a PEG grammar + action table (for C16).
   For a configuration flag f, its BLOCKING value bv (the value under which the syntax
   must stay disabled), a set X of opcodes and a literal `mlit` that the input is assumed
   not to contain (the enabling macro), `gated` checks that every action that may emit an
   opcode of X, or may move the flag away from bv, is only reachable behind an element
   that must fail while the flag has value bv (a predicate on the flag) or behind the
   absent literal.  Soundness w.r.t. the interpreter Model/Peg.pe is proved in
   Proofs/GatingProofs.v. *)
From Coq Require Import NArith List Bool.
From DS Require Import Model.Peg.
Import ListNotations.
Open Scope N_scope.

Section Gating.
  Variable acts : list (list aeff).
  Variable preds : list psum.
  Variable f : N.             (* the flag *)
  Variable bv : bool.         (* its blocking value *)
  Variable X : list N.        (* opcodes that must not be emitted *)
  Variable mlit : list N.     (* literal assumed absent from the input ([] = no such assumption) *)
  Variable gids : list N.     (* node ids of the nodes that must fail (guards and what contains them) *)

  Fixpoint list_eqb (a b : list N) : bool :=
    match a, b with
    | [], [] => true
    | x :: r, y :: q => if x =? y then list_eqb r q else false
    | _, _ => false
    end.

  (* may this effect list emit an opcode of X, or move flag f away from bv, or is it unknown? *)
  Fixpoint eff_bad (e : aeff) : bool :=
    match e with
    | AEmit op => mem_N op X
    | ASetFlag f' b => (f' =? f) && negb (Bool.eqb b bv)
    | AFlagsSwitch => f <? 4          (* sets one of the four family flags to a value read from the input *)
    | AIfLoop0 thn els => existsb eff_bad thn || existsb eff_bad els
    | AUnknown => true
    | _ => false
    end.
  Definition fn_bad (fn : N) : bool := existsb eff_bad (nth (N.to_nat fn) acts [AUnknown]).

  (* an element that cannot succeed while flag f = bv / while the input lacks mlit *)
  Definition is_guard (e : pexpr) : bool :=
    match e with
    | PAndCode _ fn =>
      match nth (N.to_nat fn) preds PUnknownP with
      | PFlag f' v => (f' =? f) && negb (Bool.eqb v bv)
      | _ => false
      end
    | PNotCode _ fn =>
      match nth (N.to_nat fn) preds PUnknownP with
      | PFlag f' v => (f' =? f) && Bool.eqb v bv
      | _ => false
      end
    | PLit _ v ic => match mlit with [] => false | _ => negb ic && list_eqb v mlit end
    | _ => false
    end.

  (* an expression that cannot succeed while the guards fail: a guard, a sequence containing such an
     element, a wrapper around one, a choice all of whose alternatives are such *)
  Fixpoint must_fail (e : pexpr) : bool :=
    is_guard e ||
    match e with
    | PSeq _ es => (fix any (l : list pexpr) : bool := match l with [] => false | x :: r => must_fail x || any r end) es
    | PChoice _ es =>
      match es with
      | [] => true
      | _ => (fix all (l : list pexpr) : bool := match l with [] => true | x :: r => must_fail x && all r end) es
      end
    | PAction _ _ e1 | PLabel _ _ _ e1 | PPlus _ e1 => must_fail e1
    | _ => false
    end.

  Definition id_ok (e : pexpr) : bool :=
    (node_id e <? NODES) && Bool.eqb (mem_N (node_id e) gids) (must_fail e).

  Section WithU.
    Variable U : list N.      (* rules allowed to be unsafe (only reachable behind guards) *)

    Fixpoint safe (e : pexpr) : bool :=
      id_ok e &&
      match e with
      | PAction _ fn e1 => safe e1 && (must_fail e1 || negb (fn_bad fn))
      | PCode _ fn _ => negb (fn_bad fn)
      | PSeq _ es =>
        (fix safe_seq (l : list pexpr) : bool :=
           match l with
           | [] => true
           | x :: r => safe x && (must_fail x || safe_seq r)
           end) es
      | PChoice _ es =>
        (fix all (l : list pexpr) : bool := match l with [] => true | x :: r => safe x && all r end) es
      | PLabel _ _ _ e1 | PAnd _ e1 | PNot _ e1 | PAndL _ e1 | PNotL _ e1 | POpt _ e1 | PStar _ e1 | PPlus _ e1 => safe e1
      | PRef _ r => negb (mem_N r U)
      | PAndCode _ _ | PNotCode _ _ | PLit _ _ _ | PClass _ _ _ _ _ _ | PAny _ => true
      end.
  End WithU.

  Fixpoint check_rules (U : list N) (i : N) (rs : list pexpr) : bool :=
    match rs with
    | [] => true
    | r :: rest => (if mem_N i U then true else safe U r) && check_rules U (i + 1) rest
    end.

  Definition gated (rules : list pexpr) (U : list N) : bool := negb (mem_N 0 U) && check_rules U 0 rules.

  (* untrusted computation of U: least set closed under "a rule that is not safe given U is in U" *)
  Fixpoint unsafe_now (U : list N) (i : N) (rs : list pexpr) : list N :=
    match rs with
    | [] => []
    | r :: rest => (if mem_N i U then [] else if safe U r then [] else [i]) ++ unsafe_now U (i + 1) rest
    end.
  Fixpoint compute_U (fuel : nat) (rules : list pexpr) (U : list N) : list N :=
    match fuel with
    | O => U
    | S k => match unsafe_now U 0 rules with [] => U | l => compute_U k rules (l ++ U) end
    end.

  (* collect the ids of all guard nodes of a grammar *)
  Fixpoint guard_ids (e : pexpr) : list N :=
    (if must_fail e then [node_id e] else []) ++
    match e with
    | PAction _ _ e1 | PLabel _ _ _ e1 | PAnd _ e1 | PNot _ e1 | PAndL _ e1 | PNotL _ e1 | POpt _ e1 | PStar _ e1 | PPlus _ e1 => guard_ids e1
    | PSeq _ es | PChoice _ es => flat_map guard_ids es
    | _ => []
    end.
End Gating.

(* does `v` occur in `bytes`? *)
Fixpoint prefix_eqb (v bytes : list N) : bool :=
  match v, bytes with
  | [], _ => true
  | c :: r, b :: q => if c =? b then prefix_eqb r q else false
  | _ :: _, [] => false
  end.
Fixpoint occurs (v bytes : list N) : bool :=
  match bytes with
  | [] => match v with [] => true | _ => false end
  | _ :: q => if prefix_eqb v bytes then true else occurs v q
  end.
