(* Case-file side of C08: run the proved verifier on byte-code dumped from the implementation,
   and replay executed-path traces of the real VM on the shape machine. *)
From Coq Require Import NArith ZArith List Bool String.
From DS Require Import Model.Bytecode Model.Verify.
Import ListNotations.

Definition reason_code (r : reason) : nat :=
  match r with
  | Underflow => 1 | BadJump => 2 | BadOperand => 3 | BlockUnderflow => 4 | BlockMismatch => 5
  | NoDiceState => 6 | NoDetail => 7 | NoLastPop => 8
  end.

(* (program index, path of body indices, kind, pc, reason):
   kind 1 = rejected at pc for reason; 2 = no fixpoint within fuel; 3 = inferred annotation fails check;
   4 = a mnemonic of the dump disagrees with the numbering of Model/Bytecode.v *)
Definition row : Type := (N * list nat * nat * nat * nat)%type.

Definition diag_row (k : N) (pd : list nat * diag) : row :=
  match snd pd with
  | DOk => (k, fst pd, 0, 0, 0)
  | DReject p r => (k, fst pd, 1, p, reason_code r)
  | DNoFixpoint => (k, fst pd, 2, 0, 0)
  | DCheckFailed => (k, fst pd, 3, 0, 0)
  end.

Definition rows_of (k : N) (c : code) : list row :=
  (if names_ok c then [] else [(k, [], 4, 0, 0)]) ++ map (diag_row k) (diagnose_all c).

Fixpoint rejected (k : N) (l : list code) : list row :=
  match l with
  | [] => []
  | c :: r => rows_of k c ++ rejected (N.succ k) r
  end.

(* verify_all agrees with "no diagnosis" — evaluated on every case as a self-test of the reporting *)
Definition report_consistent (c : code) : bool :=
  Bool.eqb (verify_all c) (match diagnose_all c with [] => true | _ => false end).

Fixpoint inconsistent (k : N) (l : list code) : list N :=
  match l with
  | [] => []
  | c :: r => if report_consistent c then inconsistent (N.succ k) r else k :: inconsistent (N.succ k) r
  end.

Definition total_bodies (l : list code) : nat := fold_right (fun c n => count_bodies c + n) 0 l.

(* ---------------------------------------------------------------- executed paths of the real VM *)
(* trace = the opIndex of every executed top-level instruction (Config.PrintBytecode);
   ended: 0 = run finished without error, 1 = ctx.Error set (other than E3), 2 = Go panic raised by
   evaluate() itself, 3 = the VM's structural guard fired ("E3:无效的表达式");
   top = ctx.StackTop() afterwards.

   The one structural failure after which the real VM CONTINUES is a missing detail span
   (lastDetail() fabricates an empty one): the replay continues there as with one span. *)
Definition with_one_det (s : sstate) : sstate :=
  {| pc := pc s; h := h s; blocks := blocks s; fblocks := fblocks s; dice := dice s; dets := 1; lastpop := lastpop s |}.

Definition succs (c : code) (s : sstate) : list sstate :=
  match sstep c s with
  | Next l => l
  | Stuck NoDetail => match sstep c (with_one_det s) with Next l => l | _ => [] end
  | _ => []
  end.

(* instructions that can run other code (function bodies, computed values, the default-sides
   expression, custom dice): an E3 reported there may come from the nested run *)
Definition may_nest (c : code) (s : sstate) : bool :=
  match nth_error c (pc s) with
  | Some i => match i_t i with
              | 12 | 14 | 15 | 16 | 20 | 22 | 24 | 25 | 23 | 56 => true
              | _ => false
              end%N
  | None => false
  end.

Definition at_pc (p : nat) (l : list sstate) : list sstate := filter (fun s => pc s =? p) l.

Fixpoint follow (c : code) (cur : list sstate) (tr : list nat) : option (list sstate) :=
  match tr with
  | [] => Some cur
  | p :: rest =>
    match at_pc p cur with
    | [] => None
    | here => match rest with
              | [] => Some here
              | _ => follow c (flat_map (succs c) here) rest
              end
    end
  end.

Definition ends_with (c : code) (top : nat) (s : sstate) : bool :=
  match sstep c s with
  | Halt => h s =? top
  | Stuck _ => false
  | Next _ => existsb (fun s' => (pc s' =? List.length c) && (h s' =? top)) (succs c s)
  end.

Definition is_stuck (c : code) (s : sstate) : bool :=
  match sstep c s with Stuck _ => true | _ => false end.

Definition trace_case : Type := (code * list nat * N * nat)%type.

Definition trace_ok (tc : trace_case) : bool :=
  let '(c, tr, ended, top) := tc in
  match tr with
  | [] => true
  | _ =>
    match follow c [init_state] tr with
    | None => false                                   (* the VM took a step the model does not have *)
    | Some last =>
      match ended with
      | 0%N => existsb (ends_with c top) last         (* normal end: heights agree *)
      | 1%N => true                                   (* value-dependent error at the last instruction *)
      | 2%N => existsb (is_stuck c) last              (* panic inside evaluate: the model must be stuck there *)
      | _ => if existsb (is_stuck c) last then true   (* E3: the model must be stuck there ... *)
             else existsb (may_nest c) last           (* ... unless the error came out of nested code *)
      end
    end
  end.

Fixpoint bad_traces (k : N) (l : list trace_case) : list N :=
  match l with
  | [] => []
  | t :: r => if trace_ok t then bad_traces (N.succ k) r else k :: bad_traces (N.succ k) r
  end.
