(* C03 — Matched/RestInput contract. Statements + `exact lemma` + Print Assumptions. *)
From Coq Require Import NArith List Bool.
From DS Require Import Model.Matched Proofs.MatchedProofs Model.Peg Gen.Grammar Corr.CorrK1.
Import ListNotations.

(* Matched followed by RestInput is exactly the input — for every input and every offset the parser may end at *)
Theorem C03_matched_rest_split : forall input offset, matched input offset ++ rest input offset = input.
Proof. exact matched_rest_split. Qed.

(* Matched is a prefix of the input that ends at or before the parser's final offset *)
Theorem C03_matched_is_prefix :
  forall input offset, exists k, (k <= offset)%nat /\ (k <= length input)%nat /\ matched input offset = firstn k input.
Proof. exact matched_is_prefix. Qed.

(* Matched carries no trailing white space (unicode.IsSpace) *)
Theorem C03_matched_has_no_trailing_space :
  forall input offset, let '(r, size) := decode_last (matched input offset) in size = 0%nat \/ is_space r = false.
Proof. exact matched_has_no_trailing_space. Qed.

(* trimming Matched again changes nothing *)
Theorem C03_trim_idempotent : forall l, rtrim (rtrim l) = rtrim l.
Proof. exact rtrim_idempotent. Qed.

Print Assumptions C03_matched_rest_split.
Print Assumptions C03_matched_is_prefix.
Print Assumptions C03_matched_has_no_trailing_space.
Print Assumptions C03_trim_idempotent.

(* The positive half — "text given back to RestInput contributes nothing" — is FALSE of the faithful
   parser model: actions run while parsing and are not rolled back when an alternative is abandoned.
   Witness: "5\n{'a':1" is accepted with offset 1 (Matched = "5"), yet the opcodes emitted while
   parsing the whole input include push.str (opcode 2), which parsing "5" alone never emits.
   The same input misbehaves on the implementation (result 1 instead of 5): recorded finding. *)
Definition w_input : list N := [53; 10; 123; 39; 97; 39; 58; 49].
Definition all_on : list bool := [true; true; true; true; false; false; false].
Theorem C03_tail_contribution_refuted :
  let r := run_model all_on w_input in
  let m := matched w_input (N.to_nat (r_off r)) in
  r_ok r = true /\ r_errs r = 0%N /\ m = [53%N] /\
  mem_N 2 (r_emitted r) = true /\ mem_N 2 (r_emitted (run_model all_on m)) = false.
Proof. vm_compute. repeat split. Qed.
Print Assumptions C03_tail_contribution_refuted.

Example C03_nonvacuous : matched [49; 43; 50; 32; 227; 128; 128; 41]%N 7 = [49; 43; 50]%N.
Proof. vm_compute. reflexivity. Qed.
