(* C17 — extension points: executable models (no proofs here; see Proofs/CustomProofs.v).

   (a) the pending-match PROTOCOL of custom_dice_parser.go
       (PrepareCustomDice / ConsumeCustomDice / CommitCustomDice / ensurePendingCustomDice),
       the matcher (tryMatchCustomDice: registered items in order, regexp engine, user stream parsers) is a
       deterministic function of the byte offset: an oracle;
   (b) the HOOKS: control flow of LoadNameWithDetail / solveLoadPostAndComputed / LoadNameGlobalWithDetail /
       StoreName (types.go) around HookValueLoadPre / HookValueLoadPost / HookValueStore and the Global*Func
       callbacks; the two call sites of the detail rewriters in makeDetailStr (rollvm.go); the VM case
       typeCustomDice (handler called with cloned groups + payload, result cloned). *)
From Coq Require Import NArith ZArith List String Bool.
Import ListNotations.
Open Scope N_scope.

(* ================================================================== (a) protocol *)

(* what tryMatchCustomDice found, without the start offset (which it always sets to p.pt.offset) *)
Record rawmatch := { rm_item : N; rm_groups : list string; rm_text : string; rm_len : Z; rm_payload : N }.
(* customDiceMatch *)
Record cmatch := { m_raw : rawmatch; m_start : N }.
(* customDiceCompiled: operand of the emitted typeCustomDice instruction *)
Record compiled := { c_item : N; c_groups : list string; c_text : string; c_payload : N }.

Record pstate := { pending : option cmatch; offset : N; emitted : list compiled }.

Definition set_pending (s : pstate) (p : option cmatch) : pstate :=
  {| pending := p; offset := offset s; emitted := emitted s |}.
Definition set_offset (s : pstate) (o : N) : pstate :=
  {| pending := pending s; offset := o; emitted := emitted s |}.

Section Protocol.
  (* tryMatchCustomDice at an offset: None = nothing registered / offset out of range / no item matches *)
  Variable m : N -> option rawmatch.
  (* p.pt.w: byte width of the rune at an offset (0 at the end of the input) *)
  Variable width : N -> N.

  Definition try_match (off : N) : option cmatch :=
    match m off with Some r => Some {| m_raw := r; m_start := off |} | None => None end.

  (* PrepareCustomDice *)
  Definition prepare (s : pstate) : bool * pstate :=
    match try_match (offset s) with
    | None => (false, set_pending s None)
    | Some mt => (true, set_pending s (Some mt))
    end.

  (* ensurePendingCustomDice *)
  Definition ensure_pending (s : pstate) : option cmatch * pstate :=
    let rematch :=
      match try_match (offset s) with
      | None => (None, set_pending s None)
      | Some mt => (Some mt, set_pending s (Some mt))
      end in
    match pending s with
    | Some p => if m_start p =? offset s then (Some p, s) else rematch
    | None => rematch
    end.

  (* for p.pt.offset < targetOffset { p.read() }   (fuel: the distance; every read advances by the rune width) *)
  Fixpoint read_to (fuel : nat) (target off : N) : N :=
    match fuel with
    | O => off
    | S f => if off <? target then read_to f target (off + width off) else off
    end.

  (* ConsumeCustomDice *)
  Definition consume (s : pstate) : pstate :=
    let '(mo, s1) := ensure_pending s in
    match mo with
    | None => s1
    | Some mt =>
      if (rm_len (m_raw mt) <=? 0)%Z then set_pending s1 None
      else
        let target := m_start mt + Z.to_N (rm_len (m_raw mt)) in
        set_offset s1 (read_to (S (N.to_nat (target - offset s1))) target (offset s1))
    end.

  Definition compile (r : rawmatch) : compiled :=
    {| c_item := rm_item r;
       c_groups := rm_groups r;                       (* cloneStrings *)
       c_text := match rm_text r, rm_groups r with
                 | EmptyString, g0 :: _ => g0
                 | t, _ => t
                 end;
       c_payload := rm_payload r |}.

  (* CommitCustomDice *)
  Definition commit (s : pstate) : pstate :=
    match pending s with
    | None => set_pending s None
    | Some mt => {| pending := None; offset := offset s; emitted := emitted s ++ [compile (m_raw mt)] |}
    end.

  Inductive pop := Prepare | Consume | Commit.

  Definition pstep (o : pop) (s : pstate) : pstate :=
    match o with
    | Prepare => snd (prepare s)
    | Consume => consume s
    | Commit => commit s
    end.

  Fixpoint prun (ops : list pop) (s : pstate) : pstate :=
    match ops with [] => s | o :: r => prun r (pstep o s) end.

  (* results of the Prepare predicates along a run *)
  Fixpoint prepared (ops : list pop) (s : pstate) : list bool :=
    match ops with
    | [] => []
    | Prepare :: r => fst (prepare s) :: prepared r (pstep Prepare s)
    | o :: r => prepared r (pstep o s)
    end.
End Protocol.

(* Parse: d.pendingCustomDice = nil, offset 0 *)
Definition pinit : pstate := {| pending := None; offset := 0; emitted := [] |}.

(* ================================================================== (b) hooks of variable load / store *)

Section Hooks.
  Variable val : Type.
  Variable null : val.                      (* NewNullVal() *)
  Variable is_null : val -> bool.           (* TypeId == VMTypeNull *)
  Variable is_computed : val -> bool.       (* TypeId == VMTypeComputedValue *)
  Variable val_eqb : val -> val -> bool.    (* stands for the pointer comparison oldRet == detail.Ret *)

  Definition scope := list (string * val).  (* Attrs of one context *)
  Fixpoint lookup (n : string) (s : scope) : option val :=
    match s with [] => None | (k, v) :: r => if String.eqb k n then Some v else lookup n r end.
  Fixpoint update (n : string) (v : val) (s : scope) : scope :=
    match s with
    | [] => [(n, v)]
    | (k, x) :: r => if String.eqb k n then (k, v) :: r else (k, x) :: update n v r
    end.

  (* what a load / store can touch: the scope chain (current context first, then UpCtx ...), the names declared
     global, ctx.Error, detail.Ret of the span passed in, and everything else computed values may change (world) *)
  Variable world : Type.
  Record hst := { chain : list scope; gnames : list string; err : option string; dret : option val; wld : world }.
  Definition set_dret (s : hst) (d : option val) : hst :=
    {| chain := chain s; gnames := gnames s; err := err s; dret := d; wld := wld s |}.
  Definition set_err (s : hst) (e : string) : hst :=
    {| chain := chain s; gnames := gnames s; err := Some e; dret := dret s; wld := wld s |}.
  Definition set_chain (s : hst) (c : list scope) : hst :=
    {| chain := c; gnames := gnames s; err := err s; dret := dret s; wld := wld s |}.

  (* ComputedExecute: None = ctx.Error was set (the caller returns nil) *)
  Variable exec : val -> hst -> hst * option val.
  Variable builtin : string -> option val.  (* loadInnerVar *)

  (* outcome of a load: a value, nil with ctx.Error set, or a nil dereference (only reachable through a hook that
     returns nil without setting an error) *)
  Inductive outcome := OVal (v : val) | ONil | OPanic.

  Definition pre_hook := hst -> string -> hst * string * option val.
  Definition do_compute_t := val -> hst -> hst * option val.
  Definition post_hook := string -> val -> do_compute_t -> hst -> hst * option val.
  Definition store_hook := hst -> string -> val -> hst * option val * bool.

  Record hooks := {
    h_pre : option pre_hook;
    h_post : option post_hook;
    h_store : option store_hook;
    g_load : option (string -> option val);                 (* GlobalValueLoadFunc *)
    g_over : option (string -> option val -> option val);   (* GlobalValueLoadOverwriteFunc *)
    g_store : option (string -> val -> hst -> hst) }.       (* GlobalValueStoreFunc *)

  Definition no_hooks : hooks :=
    {| h_pre := None; h_post := None; h_store := None; g_load := None; g_over := None; g_store := None |}.

  (* hooks that pass everything through *)
  Definition id_hooks : hooks :=
    {| h_pre := Some (fun s n => (s, n, None));
       h_post := Some (fun _ cur doCompute s => doCompute cur s);
       h_store := Some (fun s _ _ => (s, None, false));
       g_load := Some (fun _ => None);
       g_over := Some (fun _ cur => cur);
       g_store := None |}.

  Section WithHooks.
    Variable H : hooks.

    (* doCompute of solveLoadPostAndComputed *)
    Definition do_compute (isRaw withDetail : bool) : do_compute_t := fun v s =>
      let '(s1, r) := if negb isRaw && is_computed v then exec v s else (s, Some v) in
      match r with
      | None => (s1, None)
      | Some v' => (if withDetail then set_dret s1 (Some v') else s1, Some v')
      end.

    Definition opt_eqb (a b : option val) : bool :=
      match a, b with Some x, Some y => val_eqb x y | None, None => true | _, _ => false end.

    (* solveLoadPostAndComputed *)
    Definition solve (name : string) (v : val) (isRaw withDetail : bool) (s : hst) : hst * option val :=
      match h_post H with
      | Some h =>
        if withDetail then
          let old := dret s in
          let '(s1, r) := h name v (do_compute isRaw true) s in
          (if opt_eqb old (dret s1) then set_dret s1 r else s1, r)
        else h name v (do_compute isRaw false) s     (* the hook gets a fresh &BufferSpan{} *)
      | None => do_compute isRaw withDetail v s
      end.

    (* LoadNameGlobalWithDetail *)
    Definition load_global (name : string) (isRaw withDetail : bool) (s : hst) : hst * outcome :=
      let continue :=
        let v0 := builtin name in
        let v1 := match g_over H with Some g => g name v0 | None => v0 end in
        let v2 := match v1 with Some v => v | None => null end in
        match solve name v2 isRaw withDetail s with
        | (s1, Some v) => (s1, OVal v)
        | (s1, None) => (s1, ONil)
        end in
      match g_load H with
      | Some f =>
        match f name with
        | Some v =>
          if negb isRaw && is_computed v then
            match exec v s with (s1, Some v') => (s1, OVal v') | (s1, None) => (s1, ONil) end
          else (s, OVal v)
        | None => continue
        end
      | None => continue
      end.

    (* the `for` loop of LoadNameWithDetail over curCtx = ctx, ctx.UpCtx, ...: LoadNameLocalWithDetail on each level *)
    Fixpoint load_chain (name : string) (isRaw withDetail : bool) (scopes : list scope) (s : hst) : hst * outcome :=
      match scopes with
      | [] => load_global name isRaw withDetail s
      | sc :: up =>
        let v := match lookup name sc with Some v => v | None => null end in
        match solve name v isRaw withDetail s with
        | (s1, r) =>
          match err s1 with
          | Some _ => (s1, ONil)                        (* curCtx.Error != nil: return nil *)
          | None =>
            match r with
            | None => (s1, OPanic)                      (* ret.TypeId on a nil pointer *)
            | Some v' => if negb (is_null v') then (s1, OVal v') else load_chain name isRaw withDetail up s1
            end
          end
        end
      end.

    (* LoadNameWithDetail (detail == nil is withDetail = false, i.e. LoadName) *)
    Definition load_name (name : string) (isRaw useHook withDetail : bool) (s : hst) : hst * outcome :=
      let go (s : hst) (name : string) := load_chain name isRaw withDetail (chain s) s in
      match (if useHook then h_pre H else None) with
      | Some h =>
        let '(s1, name', over) := h s name in
        match over with Some v => (s1, OVal v) | None => go s1 name' end
      | None => go s name
      end.

    Fixpoint mem_str (n : string) (l : list string) : bool :=
      match l with [] => false | x :: r => if String.eqb x n then true else mem_str n r end.

    (* StoreName *)
    Definition store_name (name : string) (v : val) (useHook : bool) (s : hst) : hst :=
      let finish (s : hst) (v : val) :=
        if mem_str name (gnames s) then
          match g_store H with
          | Some f => f name v s
          | None => set_err s "no GlobalValueStoreFunc"
          end
        else
          match chain s with
          | sc :: up => set_chain s (update name v sc :: up)
          | [] => set_chain s [update name v []]
          end in
      match (if useHook then h_store H else None) with
      | Some h =>
        let '(s1, over, solved) := h s name v in
        if solved then s1 else finish s1 (match over with Some o => o | None => v end)
      | None => finish s v
      end.
  End WithHooks.

  (* a failed load stops the evaluation (ctx.Error / panic); the Ret field of the span it was writing is dead then *)
  Definition observe (x : hst * outcome) : hst * outcome :=
    match x with
    | (s, ONil) => (set_dret s None, ONil)
    | (s, OPanic) => (set_dret s None, OPanic)
    | _ => x
    end.
End Hooks.

(* ================================================================== (b') detail rewriters in makeDetailStr *)

Section Rewriters.
  Variable span : Type.
  Variable group : Type.
  Variable inner_spans : group -> list span.      (* item.spans without the last one, sorted by end *)
  Variable last_span : group -> span.
  Variable sub_default : string -> span -> string. (* text[span.Begin:span.End] + "=" + span.Ret.ToString() on the current text *)
  Variable main_default : string -> group -> list string -> string. (* the default "[...]" text of the group incl. ",sub,sub", rules 1.1/1.3, the 400-byte cut *)
  Variable splice : string -> group -> string -> string.            (* text[:begin] + partRet + detail + text[end:] *)

  Definition span_rw := string -> span -> bool -> string.   (* CustomDetailSpanRewriteFunc (defaultDetail, span, isRoot) *)
  Definition rw := string -> span -> string.                (* CustomDetailRewriteFunc (curDetail, span) *)

  Definition nonempty (s : string) : bool := match s with EmptyString => false | _ => true end.

  Definition group_detail (srw : option span_rw) (r : option rw) (text : string) (g : group) : string :=
    let subs := map (fun sp => let d := sub_default text sp in
                               match srw with Some f => f d sp false | None => d end) (inner_spans g) in
    let subs := filter nonempty subs in
    let d := main_default text g subs in
    let d := match srw with Some f => f d (last_span g) true | None => d end in
    let d := match r with Some f => f d (last_span g) | None => d end in
    splice text g d.

  (* for i := len(m)-1; i >= 0; i-- { ... detailResult = buf.Bytes() } *)
  Definition make_detail (srw : option span_rw) (r : option rw) (text : string) (groups : list group) : string :=
    fold_left (group_detail srw r) (rev groups) text.
End Rewriters.

(* ================================================================== (b'') VM case typeCustomDice *)

(* a VMValue cell: TypeId and payload collapsed into one number *)
Definition cell := Z.
Record heap := { cells : list (N * cell); next : N }.

Fixpoint hread (l : list (N * cell)) (a : N) : option cell :=
  match l with [] => None | (k, c) :: r => if k =? a then Some c else hread r a end.
Definition read (h : heap) (a : N) : option cell := hread (cells h) a.
Definition write (h : heap) (a : N) (c : cell) : heap := {| cells := (a, c) :: cells h; next := next h |}.
Definition alloc (h : heap) (c : cell) : heap * N := ({| cells := (next h, c) :: cells h; next := next h + 1 |}, next h).
Definition heap_wf (h : heap) : Prop := forall a c, read h a = Some c -> a < next h.

(* one handler invocation as the VM sees it: the arguments it was given *)
Record hcall := { hc_item : N; hc_groups : list string; hc_payload : N }.

Record vmst := { vheap : heap; stack : list cell; detail_ret : option N; detail_text : string; calls : list hcall; verr : option string }.

(* handler: (groups, payload, heap) -> (heap', result address or nil, detail text, error) *)
Definition handler_t := list string -> N -> heap -> heap * option N * string * option string.

(* case typeCustomDice of evaluate() *)
Definition exec_custom (handlers : N -> handler_t) (c : compiled) (s : vmst) : vmst :=
  let log := calls s ++ [{| hc_item := c_item c; hc_groups := c_groups c; hc_payload := c_payload c |}] in
  let '(h1, res, dtext, e) := handlers (c_item c) (c_groups c) (c_payload c) (vheap s) in
  match e with
  | Some msg => {| vheap := h1; stack := stack s; detail_ret := detail_ret s; detail_text := detail_text s; calls := log; verr := Some msg |}
  | None =>
    match res with
    | None => {| vheap := h1; stack := stack s; detail_ret := detail_ret s; detail_text := detail_text s; calls := log; verr := Some "nil result"%string |}
    | Some a =>
      match read h1 a with
      | None => {| vheap := h1; stack := stack s; detail_ret := detail_ret s; detail_text := detail_text s; calls := log; verr := Some "dangling result"%string |}
      | Some content =>
        let '(h2, r) := alloc h1 content in                      (* ret := result.Clone() *)
        {| vheap := h2;
           stack := content :: stack s;                            (* stackPush(ret): the slot holds a copy of *ret *)
           detail_ret := Some r;                                   (* detail.Ret = ret *)
           detail_text := match dtext with EmptyString => c_text c | t => t end;
           calls := log; verr := None |}
      end
    end
  end.

Inductive instr := ICustom (c : compiled) | IOther.

Fixpoint exec_code (handlers : N -> handler_t) (code : list instr) (s : vmst) : vmst :=
  match code with
  | [] => s
  | ICustom c :: r => let s1 := exec_custom handlers c s in
                      match verr s1 with Some _ => s1 | None => exec_code handlers r s1 end
  | IOther :: r => exec_code handlers r s
  end.

Fixpoint count_custom (code : list instr) : nat :=
  match code with [] => O | ICustom _ :: r => S (count_custom r) | IOther :: r => count_custom r end.
