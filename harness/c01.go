package main

import (
	"bufio"
	"encoding/base64"
	"encoding/json"
	"fmt"
	"os"
	"runtime/debug"
	"strings"

	ds "github.com/sealdice/dicescript"
)

type c01In struct {
	Hist       []string `json:"hist"` // base64 sources run before on the same VM
	B64        string   `json:"b64"`
	Flags      []bool   `json:"flags"`
	IgnoreDiv0 bool     `json:"div0"`
	Mode       int      `json:"mode"`
	DefExpr    string   `json:"defexpr"`
	OpLimit    int64    `json:"oplimit"`
	ParseLimit uint64   `json:"parselimit"`
	St         bool     `json:"st"` // install a CallbackSt
}

type c01Out struct {
	I      int    `json:"i"`
	Panic  string `json:"panic,omitempty"`
	Where  string `json:"where,omitempty"`
	Frame  string `json:"frame,omitempty"` // innermost dicescript frame of the panic
	Ok     bool   `json:"ok"`
	ErrCls string `json:"err,omitempty"`
	Ops    int64  `json:"ops"`
	// the JSON observer was skipped: tree unfolding of the variables (nodes) vs distinct containers (recorded finding
	// json-of-shared-structure-is-its-tree-unfolding); 0 = observed
	JSONSkipTree  float64 `json:"json_skip_tree,omitempty"`
	JSONSkipGraph int     `json:"json_skip_graph,omitempty"`
}

func innermostFrame(stack string) string {
	lines := strings.Split(stack, "\n")
	for _, l := range lines {
		if strings.Contains(l, "sealdice/dicescript.") && !strings.Contains(l, "verif") {
			l = strings.TrimSpace(l)
			if k := strings.Index(l, "("); k > 0 {
				l = l[:k]
			}
			return strings.TrimPrefix(l, "github.com/sealdice/dicescript.")
		}
	}
	return ""
}

func guarded(where string, o *c01Out, f func()) {
	defer func() {
		if r := recover(); r != nil && o.Panic == "" {
			o.Panic = fmt.Sprint(r)
			o.Where = where
			o.Frame = innermostFrame(string(debug.Stack()))
		}
	}()
	f()
}

func init() {
	// totality search: parse, run, re-run and every observer under recover; one flushed line per case so that a
	// fatal error / hang of the process identifies its case (the one after the last line)
	cmds["c01"] = func(args []string) {
		sc := bufio.NewScanner(os.Stdin)
		sc.Buffer(make([]byte, 1<<20), 1<<26)
		idx := 0
		for sc.Scan() {
			var in c01In
			if json.Unmarshal(sc.Bytes(), &in) != nil {
				continue
			}
			o := c01Out{I: idx}
			idx++
			src, _ := base64.StdEncoding.DecodeString(in.B64)
			cfg := cfgFromFlags(in.Flags)
			cfg.IgnoreDiv0, cfg.Mode, cfg.DefaultSides, cfg.OpLimit, cfg.ParseLimit = in.IgnoreDiv0, in.Mode, in.DefExpr, in.OpLimit, in.ParseLimit
			vm := newVM(cfg, 11, 22, true)
			if in.St {
				vm.Config.CallbackSt = func(_type string, name string, val *ds.VMValue, extra *ds.VMValue, op string, detail string) {
					_ = val.ToString()
					if extra != nil {
						_ = extra.ToString()
					}
				}
			}
			for _, h := range in.Hist {
				hs, _ := base64.StdEncoding.DecodeString(h)
				guarded("history", &o, func() { _ = vm.Run(string(hs)) })
			}
			var err error
			guarded("run", &o, func() { err = vm.Run(string(src)) })
			o.Ops = int64(vm.NumOpCount)
			if o.Panic == "" {
				o.Ok = err == nil
				if err != nil {
					e := err.Error()
					if len(e) > 40 {
						e = e[:40]
					}
					o.ErrCls = e
				}
				if err == nil {
					guarded("tostring", &o, func() { _ = vm.Ret.ToString(); _ = vm.Ret.ToRepr(); _ = vm.Ret.AsBool() })
					guarded("detail", &o, func() { _ = vm.GetDetailText(); _ = vm.GetDetailText() })
					guarded("matched", &o, func() { _ = vm.Matched + vm.RestInput })
				}
				guarded("asm", &o, func() { _ = vm.GetAsmText() })
				guarded("json", &o, func() {
					if vm.Attrs != nil {
						if tree, graph := attrsTreeSize(vm.Attrs); tree > 2e6 && graph <= 5000 {
							o.JSONSkipTree, o.JSONSkipGraph = tree, graph
							return
						}
						_, _ = vm.Attrs.ToJSON()
					}
				})
				guarded("rerun", &o, func() { _ = vm.Run(string(src)) })
				guarded("rerun-detail", &o, func() { _ = vm.GetDetailText() })
				guarded("errtext", &o, func() { _ = vm.GetErrorText() })
			}
			emit(o)
			out.Flush()
		}
	}
}
