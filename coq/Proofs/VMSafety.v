(* C01 (VM half): well-formed byte-code never makes the VM model reach a Go panic site;
   C07 (VM half): the operation budget fails closed.
   Everything here is ABOUT Model/VM.v (validated against the implementation by the K2 correspondence).

   PART A (C01)
     C01_step_no_panic_partial     one instruction, per opcode family (step_<family>_no_panic), any state
     C01_exec/run_no_panic_anystate  any values, any heap: the only Panic left is one of the two
                                   VALUE-dependent sites of the model (`allowed`)
     C01_run_no_panic_refuted_*    vm_compute witnesses: the unrestricted statement is false of the model
     push_range_no_panic_i64       site 1 needs an operand outside int64 (no Go value)
     step_good_all / exec_good     site 2 needs a bound `Computed.compute` without Self; no instruction creates
                                   one (invariant G: stack, lastPop, every array and map of the heap)
     C01_exec/run_no_panic_partial  from a state without such a value: the only Panic left is site 1
     C01_run_keeps_state_good      the state after a run satisfies the hypothesis again
   PART B (C07)
     C07_ops_add_spec, C07_dispatch_counts, C07_budget_error_once_exceeded,
     C07_dice_batch_charged_before_rolling, C07_coc_batch_charged_before_rolling,
     C07_wod_dc_rounds_charged(_step), C07_budget_bounds_dispatches, C07_counter_never_lowered,
     C07_run_dispatch_bound, C07_call_costs_100, C07_computed_costs_100.
   Proof style: `step` is never unfolded wholesale; each family lemma unfolds it on ONE opcode and a
   goal-directed tactic (q_go / q2_go / q3_go) walks the continuation-passing structure with one lemma per
   helper (with_pop, lift, do_push, ...), so reordering `match` branches does not matter. *)
From Coq Require Import String Ascii NArith ZArith List Bool Lia.
From DS Require Import Model.Str Model.PCG Model.Roll Model.Dice Model.Value Model.VM Model.CodeWf Proofs.VMFacts.
Import ListNotations.
Open Scope Z_scope.

(* ================================================================== PART A: C01 *)

(* The two Panic sites of the model that do not depend on the byte-code but on a VALUE that the Go
   program cannot construct: see C01_*_refuted / the report at the end of part A. *)
Definition range_msg : string := "index out of range (push.range)".
Definition nilself_msg : string := "nil Self".
Definition allowed (s : string) : Prop := s = range_msg \/ s = nilself_msg.

Definition res_ok (r : result) : Prop := match r with Panic s => allowed s | _ => True end.
Definition rok {A} (r : R A) : Prop := match r with RPanic s => allowed s | _ => True end.

(* ------------------------------------------------------------------ code_wf / ftab_wf lookups *)
Lemma code_wf_from_nth : forall len c pc k i,
  code_wf_from len pc c = true -> nth_error c k = Some i -> instr_wf len (pc + k) i = true.
Proof.
  induction c as [|a c IH]; intros pc k i H Hn.
  - destruct k; discriminate.
  - cbn [code_wf_from] in H. apply andb_true_iff in H. destruct H as [H1 H2]. destruct k as [|k].
    + cbn in Hn. injection Hn as <-. rewrite Nat.add_0_r. exact H1.
    + cbn [nth_error] in Hn. replace (pc + S k)%nat with (S pc + k)%nat by lia. eapply IH; eauto.
Qed.

Lemma code_wf_nth : forall c k i, code_wf c = true -> nth_error c k = Some i -> instr_wf (length c) k i = true.
Proof. unfold code_wf; intros c k i H Hn. exact (code_wf_from_nth _ _ 0%nat _ _ H Hn). Qed.

Lemma ftab_wf_lookup : forall ft id d c, ftab_wf ft = true -> f_lookup ft id = Some d -> f_code d = Some c ->
  code_wf c = true.
Proof.
  unfold ftab_wf, f_lookup; intros ft id d c H Hl Hc. rewrite forallb_forall in H.
  specialize (H d (nth_error_In _ _ Hl)). unfold fentry_wf in H. rewrite Hc in H. exact H.
Qed.

(* ------------------------------------------------------------------ the frame invariant *)
(* c, src: code and source text of the activation (never change) *)
Definition frame_ok (c : code) (src : option string) (fr : frame) : Prop :=
  fr_code fr = c /\ fr_src fr = src /\ fr_top fr <= stack_size /\
  Forall (fun t => t < stack_size) (fr_blocks fr) /\ Forall (fun t => t < stack_size) (fr_fblocks fr).

Definition machine_ok (m : machine) : Prop :=
  let fr := m_fr m in
  code_wf (fr_code fr) = true /\
  frame_ok (fr_code fr) (fr_src fr) fr /\ 0 <= fr_pc fr.

Definition callee_ok (call : machine -> result) : Prop := forall m, machine_ok m -> res_ok (call m).

Lemma new_frame_ok : forall c src, frame_ok c src (new_frame c src).
Proof. intros; unfold frame_ok, new_frame, stack_size; cbn. repeat split; try constructor; lia. Qed.

Lemma new_frame_machine_ok : forall c src w, code_wf c = true ->
  machine_ok {| m_fr := new_frame c src; m_w := w |}.
Proof.
  intros c src w H1. unfold machine_ok; cbn [m_fr]. change (fr_code (new_frame c src)) with c.
  change (fr_src (new_frame c src)) with src. split; [exact H1|]. split; [apply new_frame_ok|].
  cbn; lia.
Qed.

Ltac fr_unfold :=
  unfold frame_ok, jump, fr_set_stack, fr_set_pc, fr_set_blocks, fr_set_dice, fr_set_wod, fr_set_dc,
         fr_set_details, fr_set_err, mk in *;
  cbn [fr_code fr_pc fr_live fr_dead fr_top fr_last fr_blocks fr_fblocks fr_dice fr_wod fr_dc fr_details
       fr_src fr_err m_fr m_w] in *.

Section StepSafety.
  Variable call : machine -> result.
  Variable rfuel : nat.
  Variable E : env.
  Variable c : code.
  Variable src : option string.
  Variable pc0 : Z.
  Hypothesis Hpc0 : 0 <= pc0.
  Hypothesis Hft : ftab_wf (e_ftab E) = true.
  Hypothesis Hcall : callee_ok call.

  (* a frame in the middle of the instruction at pc0: below the overflow line *)
  Definition mid (fr : frame) : Prop := frame_ok c src fr /\ fr_top fr < stack_size /\ fr_pc fr = pc0.
  (* a frame that may be pushed on / handed back to the loop *)
  Definition ready (fr : frame) : Prop := frame_ok c src fr /\ fr_top fr < stack_size /\ -1 <= fr_pc fr.
  Definition post (fr : frame) : Prop := frame_ok c src fr /\ -1 <= fr_pc fr.

  Definition Q (r : sresult) : Prop :=
    match r with SNext m => post (m_fr m) | SPanic s => allowed s | _ => True end.

  Lemma mid_ready : forall fr, mid fr -> ready fr.
  Proof. unfold mid, ready; intros fr (H1 & H2 & H3); split; [exact H1|split; [exact H2|lia]]. Qed.
  Lemma ready_post : forall fr, ready fr -> post fr.
  Proof. unfold ready, post; tauto. Qed.

  (* ---- stack primitives keep `mid` and do not touch the dice states *)
  Lemma err_invalid_mid : forall fr, mid fr -> mid (err_invalid fr) /\ fr_dice (err_invalid fr) = fr_dice fr.
  Proof. unfold err_invalid, mid; intros fr H. destruct (fr_err fr); fr_unfold; tauto. Qed.

  Lemma pop_mid : forall fr v fr1, mid fr -> pop fr = (v, fr1) -> mid fr1 /\ fr_dice fr1 = fr_dice fr.
  Proof.
    unfold pop; intros fr v fr1 H. destruct (fr_live fr).
    - intros [= <- <-]. destruct (err_invalid_mid fr H) as [H1 H2]. unfold mid in *. fr_unfold. tauto.
    - intros [= <- <-]. unfold mid in *. fr_unfold. intuition lia.
  Qed.

  Lemma pop_n_aux_mid : forall n fr acc l fr1, mid fr -> pop_n_aux n fr acc = (l, fr1) -> mid fr1 /\ fr_dice fr1 = fr_dice fr.
  Proof.
    induction n; intros fr acc l fr1 H; cbn [pop_n_aux].
    - intros [= <- <-]; auto.
    - destruct (pop fr) as [v fr0] eqn:Hp. destruct (pop_mid _ _ _ H Hp) as [H1 H2]. intros H3.
      destruct (IHn _ _ _ _ H1 H3) as [H4 H5]. split; congruence.
  Qed.

  Lemma pop_n_mid : forall n fr l fr1, mid fr -> pop_n n fr = (l, fr1) -> mid fr1 /\ fr_dice fr1 = fr_dice fr.
  Proof.
    unfold pop_n; intros n fr l fr1 H. destruct (n <=? 0); [intros [= <- <-]; auto|].
    destruct (pop_n_aux (Z.to_nat n) fr []) as [l1 fr0] eqn:Hp. destruct (pop_n_aux_mid _ _ _ _ _ H Hp) as [H1 H2].
    intros [= <- <-]. unfold mid in *. fr_unfold. tauto.
  Qed.

  Lemma set_top_mid : forall fr t fr1, mid fr -> t < stack_size -> set_top fr t = Some fr1 ->
    mid fr1 /\ fr_dice fr1 = fr_dice fr /\ fr_blocks fr1 = fr_blocks fr /\ fr_fblocks fr1 = fr_fblocks fr.
  Proof.
    unfold set_top; intros fr t fr1 H Ht. destruct (t <=? fr_top fr).
    - destruct (lower_top _ _ _) as [l d]. intros [= <-]. unfold mid in *. fr_unfold. intuition lia.
    - destruct (raise_top _ _ _) as [[l d]|]; [|discriminate]. intros [= <-]. unfold mid in *. fr_unfold. intuition lia.
  Qed.

  Lemma last_detail_mid : forall fr, mid fr -> mid (last_detail fr) /\ fr_dice (last_detail fr) = fr_dice fr.
  Proof.
    unfold last_detail; intros fr H. destruct (fr_details fr) eqn:Hd; auto; unfold mid in *; fr_unfold;
    intuition auto.
  Qed.

  Lemma jump_ready : forall fr off, mid fr -> -1 <= pc0 + off -> ready (jump fr off).
  Proof. unfold mid, ready; intros fr off H Ho. fr_unfold. intuition lia. Qed.

  (* ---- result-level facts *)
  Lemma Q_next : forall fr w, post fr -> Q (SNext (mk fr w)).
  Proof. intros; exact H. Qed.

  Lemma Q_do_push : forall v fr w, ready fr -> Q (do_push v fr w).
  Proof.
    unfold do_push, push, ready; intros v fr w (H1 & H2 & H3).
    replace (stack_size <=? fr_top fr) with false by (symmetry; apply Z.leb_gt; lia).
    cbn [Q mk m_fr]. unfold post. fr_unfold. intuition lia.
  Qed.

  Lemma Q_dice_result : forall z fr w, mid fr -> Q (dice_result z fr w).
  Proof. intros z fr w H. unfold dice_result. apply Q_do_push, mid_ready, last_detail_mid, H. Qed.

  Lemma rok_rbind : forall A B (r : R A) (k : A -> world -> R B), rok r -> (forall a w, rok (k a w)) -> rok (rbind r k).
  Proof. intros A B r k H1 H2. destruct r; cbn; auto. Qed.

  Lemma Q_lift : forall A (r : R A) fr k, rok r -> (forall a w, Q (k a w)) -> Q (lift r fr k).
  Proof. intros A r fr k H1 H2. destruct r; cbn; auto. unfold check_err. destruct (fr_err fr); cbn; auto. Qed.


  (* ---- operations of one instruction: no panic besides the two value-dependent sites *)
  Ltac rok_tac :=
    repeat first
      [ exact Logic.I
      | right; reflexivity
      | left; reflexivity
      | progress cbv zeta
      | apply rok_rbind; [|intros]
      | match goal with
        | |- rok (if ?b then _ else _) => destruct b
        | |- rok (match ?x with _ => _ end) => destruct x
        end ].

  Lemma sub_result_ok : forall m, machine_ok m -> res_ok (call m).
  Proof. exact Hcall. Qed.

  Lemma computed_execute_ok : forall cid k w, rok (computed_execute call E cid k w).
  Proof.
    intros cid k w. unfold computed_execute.
    destruct (nth_error (w_chain w) k); [|exact Logic.I].
    destruct (cattrs_force cid (w_heap w)) as [mapid h1].
    destruct (limit_hit E _); [exact Logic.I|].
    destruct (f_lookup (e_ftab E) cid) as [d|] eqn:Hl; [|exact Logic.I].
    destruct (f_code d) as [body|] eqn:Hc; [|exact Logic.I].
    pose proof (ftab_wf_lookup _ _ _ _ Hft Hl Hc) as W1.
    match goal with |- rok (match call ?sub with _ => _ end) =>
      pose proof (sub_result_ok sub (new_frame_machine_ok _ _ _ W1)) as Hs; destruct (call sub) end;
    cbn [res_ok] in Hs; rok_tac; exact Hs.
  Qed.

  Lemma func_invoke_ok : forall fid args w, rok (func_invoke call E fid args w).
  Proof.
    intros fid args w. unfold func_invoke.
    destruct (f_lookup (e_ftab E) fid) as [d|] eqn:Hl; [|exact Logic.I].
    destruct (w_chain w) as [|self ups]; [exact Logic.I|].
    destruct (negb _); [exact Logic.I|].
    destruct (alloc_map _ _) as [mapid h1].
    destruct (limit_hit E _); [exact Logic.I|].
    destruct (f_code d) as [body|] eqn:Hc; [|exact Logic.I].
    pose proof (ftab_wf_lookup _ _ _ _ Hft Hl Hc) as W1.
    match goal with |- rok (match call ?sub with _ => _ end) =>
      pose proof (sub_result_ok sub (new_frame_machine_ok body None _ W1)) as Hs; destruct (call sub) end;
    cbn [res_ok] in Hs; rok_tac; exact Hs.
  Qed.

  Lemma rok_rmapw : forall A (f : world -> world) (r : R A), rok r -> rok (rmapw f r).
  Proof. intros A f r H. destruct r; cbn; auto. Qed.

  Lemma load_walk_ok : forall n k name isRaw w, rok (load_walk call E n k name isRaw w).
  Proof.
    induction n; intros k name isRaw w; cbn [load_walk]; [exact Logic.I|].
    destruct (nth_error (w_chain w) k); [|exact Logic.I]. cbv zeta.
    apply rok_rbind.
    - apply rok_rmapw.
      destruct (match mget name _ with Some v => v | None => VNull end); try exact Logic.I.
      destruct isRaw; [exact Logic.I|apply computed_execute_ok].
    - intros v w'. destruct v; try exact Logic.I. apply IHn.
  Qed.

  Lemma load_name_ok : forall name isRaw w, rok (load_name call E name isRaw w).
  Proof. intros; apply load_walk_ok. Qed.

  Lemma load_local_ok : forall name w, rok (load_local call E name w).
  Proof.
    intros name w. unfold load_local.
    destruct (match mget name _ with Some v => v | None => VNull end); try exact Logic.I. apply computed_execute_ok.
  Qed.

  Lemma new_arr_ok : forall l w, rok (new_arr l w).
  Proof. intros; unfold new_arr. destruct (alloc_arr _ _); exact Logic.I. Qed.

  Lemma str_of_ok : forall E' b v w, rok (str_of E' b v w).
  Proof. intros; unfold str_of. rok_tac. Qed.

  Lemma roll1_ok : forall n w, rok (roll1 n w).
  Proof. intros; unfold roll1. rok_tac. Qed.

  Lemma shuffle_loop_ok : forall i l w, rok (shuffle_loop i l w).
  Proof.
    induction i; intros l w; cbn [shuffle_loop]; [exact Logic.I|].
    apply rok_rbind; [apply roll1_ok|]. intros; apply IHi.
  Qed.
  Lemma shuffle_ok : forall l w, rok (shuffle l w).
  Proof. intros; apply shuffle_loop_ok. Qed.

  Lemma array_repeat_ok : forall id t w, rok (array_repeat id t w).
  Proof. intros; unfold array_repeat. rok_tac; apply new_arr_ok. Qed.

  Lemma attr_get_ok : forall v name w, rok (attr_get call E v name w).
  Proof.
    intros v name w. unfold attr_get. destruct v; try exact Logic.I.
    - rok_tac.
    - apply rok_rbind; [apply load_local_ok|intros; exact Logic.I].
  Qed.

  Lemma attr_set_ok : forall v name x w, rok (attr_set v name x w).
  Proof. intros; unfold attr_set. rok_tac. Qed.
  Lemma item_get_ok : forall a b w, rok (item_get a b w).
  Proof. intros; unfold item_get. rok_tac. Qed.
  Lemma item_set_ok : forall a b x w, rok (item_set a b x w).
  Proof. intros; unfold item_set. rok_tac. Qed.
  Lemma slice_get_ok : forall o a b w, rok (slice_get o a b w).
  Proof. intros; unfold slice_get. rok_tac; apply new_arr_ok. Qed.
  Lemma slice_set_ok : forall o a b x w, rok (slice_set o a b x w).
  Proof. intros; unfold slice_set. rok_tac. Qed.

  Lemma bin_op_ok : forall op v1 v2 w, rok (bin_op rfuel E op v1 v2 w).
  Proof.
    intros op v1 v2 w. unfold bin_op.
    destruct op; try exact Logic.I; destruct v1; try exact Logic.I; destruct v2; try exact Logic.I;
      rok_tac; try apply new_arr_ok; try apply array_repeat_ok.
  Qed.

  (* push.range: the only panic is the model's "index out of range" (reachable only when an operand
     is not an int64, see push_range_no_panic_i64 below) *)
  Lemma push_range_ok : forall a b w, rok (push_range a b w).
  Proof. intros; unfold push_range. rok_tac; apply new_arr_ok. Qed.

  Lemma native_call_ok : forall name self args w, rok (native_call call E name self args w).
  Proof.
    intros name self args w. unfold native_call.
    destruct (native_sig name) as [np defaults]. cbv zeta.
    repeat match goal with
    | |- rok (if ?b then _ else _) => destruct b
    end;
    try exact Logic.I;
    try (apply rok_rbind; [first [apply str_of_ok | apply shuffle_ok | apply roll1_ok | apply new_arr_ok | idtac]|intros]);
    repeat match goal with
    | |- rok (load_name _ _ _ _ _) => apply load_name_ok
    | |- rok (computed_execute _ _ _ _ _) => apply computed_execute_ok
    | |- rok (new_arr _ _) => apply new_arr_ok
    | |- rok (shuffle _ _) => apply shuffle_ok
    | |- rok (roll1 _ _) => apply roll1_ok
    | |- rok (rbind _ _) => apply rok_rbind; [|intros]
    | |- rok (RPanic _) => right; reflexivity
    | |- rok (if ?b then _ else _) => destruct b
    | |- rok (match ?x with _ => _ end) => destruct x
    | |- _ => exact Logic.I
    end.
  Qed.


  (* ------------------------------------------------------------------ one instruction *)
  Definition step_safe (op : opcode) : Prop :=
    forall o m len, mid (m_fr m) -> instr_wf len (Z.to_nat pc0) (I op o) = true ->
                    Q (step call rfuel E (I op o) m).

  Lemma Q_same : forall m, mid (m_fr m) -> Q (SNext m).
  Proof. intros m H. exact (ready_post _ (mid_ready _ H)). Qed.

  Ltac fr_solve :=
    unfold mid, ready, post in *; fr_unfold;
    repeat match goal with H : _ /\ _ |- _ => destruct H end;
    repeat split; try assumption; try lia; try congruence;
    try (constructor; first [assumption | lia]).

  Ltac q_fact :=
    repeat match goal with
    | Hm : mid ?fr, Hp : pop ?fr = (_, _) |- _ =>
      let H1 := fresh "Hm" in let H2 := fresh "Hd" in destruct (pop_mid _ _ _ Hm Hp) as [H1 H2]; clear Hp
    | Hm : mid ?fr, Hp : pop_n _ ?fr = (_, _) |- _ =>
      let H1 := fresh "Hm" in let H2 := fresh "Hd" in destruct (pop_n_mid _ _ _ _ Hm Hp) as [H1 H2]; clear Hp
    end.

  Ltac q_rok0 :=
    first [ apply func_invoke_ok | apply native_call_ok | apply load_name_ok | apply attr_get_ok | apply attr_set_ok
          | apply item_get_ok | apply item_set_ok | apply slice_get_ok | apply slice_set_ok | apply bin_op_ok
          | apply push_range_ok ].
  Ltac q_rok :=
    first [ q_rok0 | exact Logic.I
          | match goal with H : _ = ?r |- rok ?r => rewrite <- H; q_rok0 end ].

  Ltac q_ready :=
    first [ apply mid_ready; assumption
          | apply mid_ready; apply last_detail_mid; assumption
          | fr_solve ].

  Ltac q_go :=
    repeat (cbv beta iota zeta; first
      [ exact Logic.I
      | apply Q_same; assumption
      | apply Q_do_push; q_ready
      | apply Q_dice_result; first [assumption | fr_solve]
      | apply Q_next; first [apply ready_post; q_ready | fr_solve]
      | apply Q_lift; [q_rok | intros]
      | match goal with
        | |- Q (if ?b then _ else _) => destruct b eqn:?
        | |- Q (match ?x with _ => _ end) => destruct x eqn:?; q_fact
        end
      | exfalso; congruence ]).

  Ltac q_start :=
    intros o m len Hm Hwf; unfold step; cbn [i_op i_arg];
    unfold instr_wf, jump_ok, is_oint, is_ostr, is_ospan, is_ost, is_ofn, is_oint_nonneg in Hwf; cbn [i_op i_arg] in Hwf;
    match type of Hwf with
    | true = true => idtac
    | _ => destruct o; try discriminate Hwf
    end;
    unfold with_pop2, with_pop, with_pop_n, with_int, need_dice, arg_int, arg_str, upd_dice, add_ops.

  Ltac by_cases tac :=
    let op := fresh "op" in let Hin := fresh "Hin" in
    intros op Hin; cbn [In] in Hin;
    repeat (destruct Hin as [<-|Hin]; [tac|]); contradiction.

  Lemma step_push_no_panic : forall op,
    In op [OpPushInt; OpPushFlt; OpPushStr; OpPushArr; OpPushDict; OpPushComputed; OpPushFunc; OpPushNull; OpPushThis;
           OpPushRange; OpPushLast] -> step_safe op.
  Proof. by_cases ltac:(q_start; q_go). Qed.


  Lemma step_arith_no_panic : forall op,
    In op [OpAdd; OpSub; OpMul; OpDiv; OpMod; OpPow; OpNullCoalescing; OpLt; OpLe; OpEq; OpNe; OpGe; OpGt;
           OpBitAnd; OpBitOr; OpAnd; OpOr; OpNeg; OpPos] -> step_safe op.
  Proof. by_cases ltac:(q_start; q_go). Qed.

  Lemma step_invoke_no_panic : forall op, In op [OpInvoke; OpInvokeSelf] -> step_safe op.
  Proof. by_cases ltac:(q_start; q_go). Qed.

  Lemma step_item_attr_slice_no_panic : forall op,
    In op [OpItemGet; OpItemSet; OpAttrGet; OpAttrSet; OpSliceGet; OpSliceSet] -> step_safe op.
  Proof. by_cases ltac:(q_start; q_go). Qed.

  Lemma step_pop_misc_no_panic : forall op,
    In op [OpPop; OpPopN; OpNop; OpRet; OpHalt; OpPushGlobal; OpStoreGlobal; OpUnknown; OpDiceCustom] -> step_safe op.
  Proof. by_cases ltac:(q_start; q_go). Qed.

  Lemma step_st_no_panic : forall op, In op [OpStSet; OpStMod; OpStX0; OpStX1] -> step_safe op.
  Proof. by_cases ltac:(q_start; q_go). Qed.


  Lemma step_jump_no_panic : forall op, In op [OpJmp; OpJe; OpJne; OpJeDup] -> step_safe op.
  Proof.
    by_cases ltac:(q_start; apply Z.leb_le in Hwf; (rewrite Z2Nat.id in Hwf by (exact Hpc0)); q_go).
  Qed.

  Lemma step_load_store_no_panic : forall op, In op [OpLd; OpLdD; OpLdRaw; OpStore; OpStoreLocal] -> step_safe op.
  Proof. by_cases ltac:(q_start; q_go). Qed.


  Lemma step_dice_no_panic : forall op,
    In op [OpDiceInit; OpDiceSetTimes; OpDiceSetKeepLow; OpDiceSetKeepHigh; OpDiceSetDropLow; OpDiceSetDropHigh;
           OpDiceSetMin; OpDiceSetMax; OpDice; OpDiceFate; OpCocPenalty; OpCocBonus; OpMarkDetail] -> step_safe op.
  Proof. by_cases ltac:(q_start; q_go). Qed.

  Lemma step_wod_dc_no_panic : forall op,
    In op [OpDiceWod; OpWodInit; OpWodPool; OpWodPoints; OpWodThreshold; OpWodThresholdQ;
           OpDiceDC; OpDcInit; OpDcPool; OpDcPoints] -> step_safe op.
  Proof. by_cases ltac:(q_start; q_go). Qed.


  Lemma blocks_head : forall fr t rest, mid fr -> fr_blocks fr = t :: rest ->
    t < stack_size /\ Forall (fun t => t < stack_size) rest.
  Proof. unfold mid, frame_ok; intros fr t rest H Hb. rewrite Hb in H. destruct H as ((_ & _ & _ & H & _) & _). inversion H; auto. Qed.
  Lemma fblocks_head : forall fr t rest, mid fr -> fr_fblocks fr = t :: rest ->
    t < stack_size /\ Forall (fun t => t < stack_size) rest.
  Proof. unfold mid, frame_ok; intros fr t rest H Hb. rewrite Hb in H. destruct H as ((_ & _ & _ & _ & H) & _). inversion H; auto. Qed.

  Lemma step_block_no_panic : forall op, In op [OpBlockPush; OpBlockPop; OpFstrPush; OpFstrPop] -> step_safe op.
  Proof.
    intros op Hin; cbn [In] in Hin. destruct Hin as [<-|[<-|[<-|[<-|[]]]]].
    - q_start; q_go.
    - q_start. destruct (fr_blocks (m_fr m)) as [|t rest] eqn:Hb; [exact Logic.I|].
      destruct (blocks_head _ _ _ Hm Hb) as [Ht Hr].
      destruct (set_top (m_fr m) t) as [fr1|] eqn:Hs; [|exact Logic.I].
      destruct (set_top_mid _ _ _ Hm Ht Hs) as (M1 & D1 & B1 & F1).
      apply Q_do_push. unfold mid, ready in *. fr_unfold. intuition lia.
    - q_start; q_go.
    - q_start. destruct (fr_fblocks (m_fr m)) as [|t rest] eqn:Hb; [exact Logic.I|].
      destruct (fblocks_head _ _ _ Hm Hb) as [Ht Hr]. cbv zeta.
      assert (Hfin : forall v fr1, mid fr1 ->
                Q (match set_top fr1 t with
                   | None => SUnsup "uninit slot"
                   | Some fr2 => do_push v (fr_set_blocks fr2 (fr_blocks fr2) rest) (m_w m)
                   end)).
      { intros v fr1 M. destruct (set_top fr1 t) as [fr2|] eqn:Hs; [|exact Logic.I].
        destruct (set_top_mid _ _ _ M Ht Hs) as (M1 & D1 & B1 & F1).
        apply Q_do_push. unfold mid, ready in *. fr_unfold. intuition lia. }
      destruct (t =? fr_top (m_fr m)); [apply Hfin; assumption|].
      destruct (pop (m_fr m)) as [v fr1] eqn:Hp. destruct (pop_mid _ _ _ Hm Hp) as [M1 _]. apply Hfin; assumption.
  Qed.

  Lemma step_ldfs_no_panic : step_safe OpLdFs.
  Proof.
    q_start. apply Z.leb_le in Hwf.
    destruct ((0 <? z) && (fr_top (m_fr m) - z <? 0)); [exact Logic.I|].
    match goal with |- Q (?f ?l0 ?a0) => cut (forall l acc, Q (f l acc)); [intros Hx; apply Hx|] end.
    induction l as [|v l IH]; intros acc; cbv beta iota.
    - assert (Ht : fr_top (m_fr m) - z < stack_size) by (destruct Hm as (_ & Ht & _); lia).
      replace (stack_size <=? fr_top (m_fr m) - z) with false by (symmetry; apply Z.leb_gt; exact Ht).
      destruct (set_top (m_fr m) (fr_top (m_fr m) - z)) as [fr1|] eqn:Hs; [|exact Logic.I].
      destruct (set_top_mid _ _ _ Hm Ht Hs) as (M1 & _). apply Q_do_push, mid_ready, M1.
    - destruct (to_string _ _ v); [apply IH|exact Logic.I].
  Qed.

  Lemma step_def_expr_no_panic : step_safe OpPushDefExpr.
  Proof.
    q_start. destruct (negb _); [exact Logic.I|].
    destruct (push (VInt 100) (m_fr m)) as [fr1|] eqn:Hp.
    2:{ destruct (push_some (VInt 100) (m_fr m)) as [x Hx]; [apply Hm|congruence]. }
    assert (P1 : post fr1).
    { unfold push in Hp. destruct (stack_size <=? fr_top (m_fr m)) eqn:Ht; [discriminate|]. apply Z.leb_gt in Ht.
      injection Hp as <-. unfold mid, post in *. fr_unfold. intuition lia. }
    destruct (fr_src fr1) as [s|] eqn:Hs; [|apply Q_next, P1].
    destruct (fr_details fr1) as [|[b e] ds] eqn:Hd; [apply Q_next, P1|].
    destruct (fr_dice fr1); [apply Q_next, P1|].
    (* a span outside the text: the repaired push.def_expr skips the rewrite of the detail text *)
    destruct (substring_b (bytes_of s) b e) eqn:Hsub; apply Q_next, P1.
  Qed.

  (* the step theorem: every opcode *)
  Theorem C01_step_no_panic_partial : forall op, step_safe op.
  Proof.
    intros op.
    destruct op;
      first [ apply step_push_no_panic; cbn; tauto
            | apply step_arith_no_panic; cbn; tauto
            | apply step_invoke_no_panic; cbn; tauto
            | apply step_item_attr_slice_no_panic; cbn; tauto
            | apply step_pop_misc_no_panic; cbn; tauto
            | apply step_st_no_panic; cbn; tauto
            | apply step_jump_no_panic; cbn; tauto
            | apply step_load_store_no_panic; cbn; tauto
            | apply step_dice_no_panic; cbn; tauto
            | apply step_wod_dc_no_panic; cbn; tauto
            | apply step_block_no_panic; cbn; tauto
            | apply step_ldfs_no_panic
            | apply step_def_expr_no_panic ].
  Qed.

End StepSafety.

(* ------------------------------------------------------------------ the loop *)
Lemma count_op_frame : forall E m m1 over, count_op E m = (m1, over) -> m_fr m1 = m_fr m.
Proof. unfold count_op; intros E m m1 over. destruct (ops_add _ _ _). intros [= <- <-]. reflexivity. Qed.

Lemma nth_error_in_range : forall A (l : list A) z, 0 <= z -> z < zlen l -> nth_error l (Z.to_nat z) <> None.
Proof. unfold zlen; intros A l z H1 H2. apply nth_error_Some. lia. Qed.

Theorem C01_exec_no_panic_anystate : forall E, ftab_wf (e_ftab E) = true ->
  forall fuel m, machine_ok m -> res_ok (exec fuel E m).
Proof.
  intros E Hft. induction fuel as [|f IH]; intros m Hm; [exact Logic.I|].
  cbn [exec]. destruct Hm as (W1 & F & Hpc).
  destruct (zlen (fr_code (m_fr m)) <=? fr_pc (m_fr m)) eqn:Hlen; [destruct (fr_err (m_fr m)); exact Logic.I|].
  apply Z.leb_gt in Hlen.
  destruct (count_op E m) as [m1 over] eqn:Hc. pose proof (count_op_frame _ _ _ _ Hc) as Hfr.
  destruct over; [exact Logic.I|]. destruct (fr_err (m_fr m)); [exact Logic.I|].
  destruct (fr_top (m_fr m) =? stack_size) eqn:Htop; [exact Logic.I|]. apply Z.eqb_neq in Htop.
  destruct (fr_pc (m_fr m) <? 0) eqn:Hneg; [apply Z.ltb_lt in Hneg; lia|].
  destruct (nth_error (fr_code (m_fr m)) (Z.to_nat (fr_pc (m_fr m)))) as [[op o]|] eqn:Hn.
  2:{ exfalso. exact (nth_error_in_range _ _ _ Hpc Hlen Hn). }
  assert (Hmid : mid (fr_code (m_fr m)) (fr_src (m_fr m)) (fr_pc (m_fr m)) (m_fr m1)).
  { rewrite Hfr. unfold mid. split; [exact F|]. split; [|reflexivity]. destruct F as (_ & _ & Ht & _). lia. }
  pose proof (C01_step_no_panic_partial (exec f E) f E _ _ _ Hpc Hft IH op o m1 _ Hmid
                (code_wf_nth _ _ _ W1 Hn)) as HQ.
  destruct (step (exec f E) f E {| i_op := op; i_arg := o |} m1) as [m2|m2|e m2|s| |s]; try exact Logic.I.
  - apply IH. cbn [Q] in HQ. destruct HQ as [F2 P2].
    unfold machine_ok; cbn [m_fr]. unfold frame_ok in *. fr_unfold.
    destruct F2 as (C2 & S2 & R2). rewrite C2, S2. repeat (split; [tauto|]). lia.
  - exact HQ.
Qed.

Theorem C01_run_no_panic_anystate : forall E c src,
  code_wf c = true -> ftab_wf (e_ftab E) = true ->
  forall fuel st, match run fuel E c src st with OPanic s => allowed s | _ => True end.
Proof.
  intros E c src W1 Hft fuel st. unfold run.
  match goal with |- context [exec fuel E ?m] =>
    pose proof (C01_exec_no_panic_anystate E Hft fuel m (new_frame_machine_ok _ _ _ W1)) as H;
    destruct (exec fuel E m) end; try exact Logic.I. exact H.
Qed.

(* ------------------------------------------------------------------ the two value-dependent sites *)
Lemma wrap64_id : forall z, in_i64 z -> wrap64 z = z.
Proof. unfold in_i64, wrap64, two63, two64; intros z H. rewrite Z.mod_small; lia. Qed.

(* push.range: with int64 operands (all the Go VM can hold) the element loop stays inside the array *)
Lemma range_loop_some : forall step y len, (step = 1 \/ step = -1) -> in_i64 y ->
  forall n i idx acc, in_i64 i -> 0 <= (y - i) * step -> (y - i) * step <= Z.of_nat n -> idx + (y - i) * step < len ->
  range_loop n i step y idx len acc <> None.
Proof.
  intros step y len Hs Hy. induction n as [|n IH]; intros i idx acc Hi H1 H2 H3.
  - cbn [range_loop]. replace (len <=? idx) with false by (symmetry; apply Z.leb_gt; lia).
    replace (i =? y) with true by (symmetry; apply Z.eqb_eq; destruct Hs; subst step; lia). discriminate.
  - cbn [range_loop]. replace (len <=? idx) with false by (symmetry; apply Z.leb_gt; lia).
    destruct (i =? y) eqn:He; [discriminate|]. apply Z.eqb_neq in He.
    assert (Hi2 : in_i64 (i + step)) by (unfold in_i64 in *; destruct Hs; subst step; lia).
    rewrite (wrap64_id _ Hi2). apply IH; auto; destruct Hs; subst step; lia.
Qed.

Lemma push_range_no_panic_i64 : forall x y w s, in_i64 x -> in_i64 y -> push_range (VInt x) (VInt y) w <> RPanic s.
Proof.
  intros x y w s Hx Hy. unfold push_range.
  assert (Hw : forall d, 0 <= d < two64 -> (wrap64 d <? 0) || (511 <? wrap64 d) = false -> wrap64 d = d /\ d <= 511).
  { intros d Hd H. apply orb_false_iff in H. destruct H as [A B]. apply Z.ltb_ge in A, B.
    unfold wrap64, two63, two64 in *. destruct (Z_lt_dec d 9223372036854775808).
    - rewrite Z.mod_small in * by lia. lia.
    - replace (d + 9223372036854775808) with (d - 9223372036854775808 + 1 * 18446744073709551616) in A by lia.
      rewrite Z.mod_add in A by lia. rewrite Z.mod_small in A by lia. lia. }
  destruct (x <=? y) eqn:Hxy.
  - apply Z.leb_le in Hxy. destruct ((wrap64 (y - x) <? 0) || (511 <? wrap64 (y - x))) eqn:Hc; [discriminate|].
    destruct (Hw (y - x)) as [W1 W2]; [unfold in_i64, two63, two64 in *; lia|exact Hc|]. rewrite W1.
    rewrite (wrap64_id (y - x + 1)) by (unfold in_i64, two63 in *; lia).
    destruct (512 <? y - x + 1); [discriminate|].
    destruct (range_loop 513 x 1 y 0 (y - x + 1) []) eqn:Hr.
    + unfold new_arr. destruct (alloc_arr _ _). discriminate.
    + exfalso. revert Hr. apply range_loop_some; auto; lia.
  - apply Z.leb_gt in Hxy. destruct ((wrap64 (x - y) <? 0) || (511 <? wrap64 (x - y))) eqn:Hc; [discriminate|].
    destruct (Hw (x - y)) as [W1 W2]; [unfold in_i64, two63, two64 in *; lia|exact Hc|]. rewrite W1.
    rewrite (wrap64_id (x - y + 1)) by (unfold in_i64, two63 in *; lia).
    destruct (512 <? x - y + 1); [discriminate|].
    destruct (range_loop 513 x (-1) y 0 (x - y + 1) []) eqn:Hr.
    + unfold new_arr. destruct (alloc_arr _ _). discriminate.
    + exfalso. revert Hr. apply range_loop_some; auto; lia.
Qed.

(* ------------------------------------------------------------------ A3: non-vacuity *)
Definition cfg0 : config :=
  {| cfg_ignore_div0 := false; cfg_min_mode := false; cfg_max_mode := false; cfg_op_limit := 0;
     cfg_def_expr_empty := true; cfg_st_callback := false |}.
Definition env0 (ft : ftab) : env := {| e_ftab := ft; e_cfg := cfg0 |}.
Definition st0 : vmstate := init_vmstate {| hi := 1; lo := 2 |}.

(* byte-code dumped from the real parser (harness k2) for "1+2*3; x=5; if x {x}" *)
Definition prog_if : code :=
  [I OpPushInt (OInt 1); I OpPushInt (OInt 2); I OpPushInt (OInt 3); I OpMul ONil; I OpAdd ONil;
   I OpPushInt (OInt 5); I OpStore (OStr "x"); I OpMarkDetail (OSpan 15 16); I OpLdD (OStr "x"); I OpBlockPush ONil;
   I OpJne (OInt 3); I OpMarkDetail (OSpan 18 19); I OpLdD (OStr "x"); I OpJmp (OInt 0); I OpBlockPop ONil; I OpHalt ONil].
Definition src_if : string := "1+2*3; x=5; if x {x}".

Example code_wf_accepts_real_program :
  code_wf prog_if = true /\ spans_wf (Some src_if) prog_if = true /\
  exists st', run 100 (env0 []) prog_if src_if st0 = Val VNull st' /\ vs_ops st' = 16.
Proof. split; [reflexivity|]. split; [reflexivity|]. eexists; split; vm_compute; reflexivity. Qed.

(* "x=1; while x<3 {x=x+1}; x": a backward jump (-11 from index 13) *)
Definition prog_while : code :=
  [I OpPushInt (OInt 1); I OpStore (OStr "x"); I OpBlockPush ONil; I OpMarkDetail (OSpan 11 12); I OpLdD (OStr "x");
   I OpPushInt (OInt 3); I OpLt ONil; I OpJne (OInt 6); I OpMarkDetail (OSpan 18 19); I OpLdD (OStr "x");
   I OpPushInt (OInt 1); I OpAdd ONil; I OpStore (OStr "x"); I OpJmp (OInt (-11)); I OpBlockPop ONil;
   I OpMarkDetail (OSpan 24 25); I OpLdD (OStr "x"); I OpHalt ONil].
Example code_wf_accepts_loop :
  code_wf prog_while = true /\ spans_wf (Some "x=1; while x<3 {x=x+1}; x"%string) prog_while = true /\
  exists st', run 100 (env0 []) prog_while "x=1; while x<3 {x=x+1}; x" st0 = Val (VInt 3) st' /\ vs_ops st' = 34.
Proof. split; [reflexivity|]. split; [reflexivity|]. eexists; split; vm_compute; reflexivity. Qed.

(* "          &a = 2d+1; a": a computed value whose body uses push.def_expr; the parser made the span
   relative to the body text *)
Definition ftab_comp : ftab :=
  [ {| f_computed := true; f_name := ""; f_params := []; f_expr := "2d+1";
       f_code := Some [I OpPushInt (OInt 2); I OpDiceInit ONil; I OpDiceSetTimes ONil; I OpMarkDetail (OSpan 0 2);
                       I OpPushDefExpr ONil; I OpDice ONil; I OpPushInt (OInt 1); I OpAdd ONil] |} ].
Definition prog_comp : code :=
  [I OpPushComputed (OFn 0); I OpStore (OStr "a"); I OpMarkDetail (OSpan 21 22); I OpLdD (OStr "a"); I OpHalt ONil].
Example ftab_wf_accepts_real_computed :
  ftab_wf ftab_comp = true /\ code_wf prog_comp = true /\
  spans_wf (Some "          &a = 2d+1; a"%string) prog_comp = true /\
  exists st', run 100 (env0 ftab_comp) prog_comp "          &a = 2d+1; a" st0 = Val (VInt 173) st' /\ vs_ops st' = 115.
Proof. split; [reflexivity|]. split; [reflexivity|]. split; [reflexivity|]. eexists; split; vm_compute; reflexivity. Qed.

Example code_wf_rejects_nil_operand : code_wf [I OpPushInt ONil; I OpHalt ONil] = false.
Proof. reflexivity. Qed.
Example code_wf_rejects_nil_jump : code_wf [I OpPushInt (OInt 1); I OpJeDup ONil; I OpHalt ONil] = false.
Proof. reflexivity. Qed.
Example code_wf_rejects_backward_jump : code_wf [I OpJmp (OInt (-5)); I OpHalt ONil] = false.
Proof. reflexivity. Qed.
Example code_wf_accepts_jump_to_start : code_wf [I OpNop ONil; I OpJmp (OInt (-2)); I OpHalt ONil] = true.
Proof. reflexivity. Qed.

(* the hypotheses matter: each of these ill-formed programs really reaches a panic site *)
Example non_wf_jump_panics :
  run 100 (env0 []) [I OpJmp (OInt (-5)); I OpHalt ONil] "" st0 = OPanic "code index negative".
Proof. vm_compute; reflexivity. Qed.
Example non_wf_operand_panics :
  run 100 (env0 []) [I OpPushInt (OInt 1); I OpJeDup ONil; I OpHalt ONil] "" st0 = OPanic "operand is not an IntType".
Proof. vm_compute; reflexivity. Qed.
(* ld.fs with a negative count RAISES the top: why instr_wf asks for a non-negative one *)
Example non_wf_ldfs_panics :
  code_wf [I OpLdFs (OInt (-1000)); I OpHalt ONil] = false /\
  run 100 (env0 []) [I OpLdFs (OInt (-1000)); I OpHalt ONil] "" st0 = OPanic "stack index 1000".
Proof. split; [reflexivity|vm_compute; reflexivity]. Qed.
(* a span outside the text (dice state open, default sides): until the repair e540a42 of /repo this was a Go panic
   ("slice bounds out of range", reachable through left-over code in a computed value: `&x = 0 ? 1, 2d ?` then `x`) and
   the reason spans_wf was asked for; the repaired code — and the model — skip the rewrite of the detail text *)
Example non_wf_span_no_longer_panics :
  code_wf [I OpDiceInit ONil; I OpMarkDetail (OSpan 0 9); I OpPushDefExpr ONil; I OpHalt ONil] = true /\
  spans_wf (Some "d"%string) [I OpDiceInit ONil; I OpMarkDetail (OSpan 0 9); I OpPushDefExpr ONil; I OpHalt ONil] = false /\
  match run 100 (env0 []) [I OpDiceInit ONil; I OpMarkDetail (OSpan 0 9); I OpPushDefExpr ONil; I OpHalt ONil] "d" st0 with
  | Val (VInt 100) _ => True
  | _ => False
  end.
Proof. split; [reflexivity|]. split; [reflexivity|vm_compute; exact Logic.I]. Qed.

(* ---- the unrestricted statement is false OF THE MODEL: two sites depend on a value, not on the code.
   (1) an integer outside int64 (the model's VInt carries a Z; a Go IntType cannot hold it) *)
Definition prog_range_big : code :=
  [I OpPushInt (OInt 0); I OpPushInt (OInt 18446744073709551616); I OpPushRange ONil; I OpHalt ONil].
Example C01_run_no_panic_refuted_big_int :
  code_wf prog_range_big = true /\ spans_wf (Some ""%string) prog_range_big = true /\
  run 100 (env0 []) prog_range_big "" st0 = OPanic range_msg.
Proof. split; [reflexivity|]. split; [reflexivity|vm_compute; reflexivity]. Qed.

(* (2) a variable holding the bound method Computed.compute WITHOUT its Self (no instruction creates one:
   attr.get on a computed value reads only the attribute map; it can only come from outside, e.g. a decoder) *)
Definition st_bare_compute : vmstate :=
  {| vs_heap := set_map 0 [("f"%string, VNative "Computed.compute" SNone)] (vs_heap st0);
     vs_pcg := vs_pcg st0; vs_attrs := vs_attrs st0; vs_ops := 0; vs_st := [] |}.
Definition prog_call_f : code := [I OpLd (OStr "f"); I OpInvoke (OInt 0); I OpHalt ONil].
Example C01_run_no_panic_refuted_bare_method :
  code_wf prog_call_f = true /\ spans_wf (Some "f()"%string) prog_call_f = true /\
  run 100 (env0 []) prog_call_f "f()" st_bare_compute = OPanic nilself_msg.
Proof. split; [reflexivity|]. split; [reflexivity|vm_compute; reflexivity]. Qed.

Print Assumptions C01_step_no_panic_partial.
Print Assumptions C01_exec_no_panic_anystate.
Print Assumptions C01_run_no_panic_anystate.
Print Assumptions push_range_no_panic_i64.

(* ================================================================== PART B: C07 *)
Definition ops_of (w : world) : Z := c_ops (w_self w).

(* B1: numOpCountAdd = saturating addition, then "limit set and exceeded" *)
Lemma ops_add_value : forall c cur count, 0 <= cur <= MaxInt64 -> 0 <= count ->
  fst (ops_add c cur count) = Z.min (cur + count) MaxInt64.
Proof.
  unfold ops_add, MaxInt64, wrap64, two63, two64; intros c cur count H1 H2; cbn [fst].
  rewrite (Z.mod_small (9223372036854775807 - cur + 9223372036854775808)) by lia.
  replace (9223372036854775807 - cur + 9223372036854775808 - 9223372036854775808) with (9223372036854775807 - cur) by lia.
  destruct (9223372036854775807 - cur <? count) eqn:E.
  - apply Z.ltb_lt in E. lia.
  - apply Z.ltb_ge in E. rewrite Z.mod_small by lia. lia.
Qed.

Theorem C07_ops_add_spec : forall c cur count new over,
  0 <= cur <= MaxInt64 -> 0 <= count -> ops_add c cur count = (new, over) ->
  cur <= new /\ new <= MaxInt64 /\ new = Z.min (cur + count) MaxInt64 /\
  (over = true <-> (0 < cfg_op_limit c /\ cfg_op_limit c < new)).
Proof.
  intros c cur count new over H1 H2 H.
  pose proof (ops_add_value c cur count H1 H2) as Hv. pose proof (ops_add_over c cur count) as Ho.
  rewrite H in Hv, Ho. cbn [fst snd] in Hv, Ho. repeat split; try lia; apply Ho; assumption.
Qed.

(* B2: the loop head: count first, then the pending error, the stack line, the dispatch *)
Definition next_pc (m2 : machine) : machine :=
  {| m_fr := fr_set_pc (m_fr m2) (fr_pc (m_fr m2) + 1); m_w := m_w m2 |}.
Definition counted (E : env) (m : machine) : machine :=
  {| m_fr := m_fr m; m_w := w_set_self_ops (m_w m) (fst (ops_add (e_cfg E) (ops_of (m_w m)) 1)) |}.

Lemma count_op_spec : forall E m, count_op E m = (counted E m, snd (ops_add (e_cfg E) (ops_of (m_w m)) 1)).
Proof. intros; unfold count_op, counted, ops_of. destruct (ops_add _ _ _); reflexivity. Qed.

Lemma ops_of_set_self : forall w x, w_chain w <> [] -> ops_of (w_set_self_ops w x) = x.
Proof. unfold ops_of, w_self, w_set_self_ops; intros w x H. destruct (w_chain w); [congruence|reflexivity]. Qed.

Lemma counted_ops : forall E m, w_chain (m_w m) <> [] ->
  ops_of (m_w (counted E m)) = fst (ops_add (e_cfg E) (ops_of (m_w m)) 1).
Proof. intros; unfold counted; cbn [m_w]. apply ops_of_set_self; assumption. Qed.

Lemma counted_rest : forall E m,
  m_fr (counted E m) = m_fr m /\ w_heap (m_w (counted E m)) = w_heap (m_w m) /\
  w_pcg (m_w (counted E m)) = w_pcg (m_w m) /\ w_st (m_w (counted E m)) = w_st (m_w m).
Proof. intros; unfold counted, w_set_self_ops; cbn [m_fr m_w]. destruct (w_chain (m_w m)); cbn; auto. Qed.

(* every dispatched instruction is handed to `step` on the machine whose counter is ops_add .. 1 of the
   previous one; when that exceeds the limit the instruction is not executed *)
Theorem C07_dispatch_counts : forall f E m,
  fr_pc (m_fr m) < zlen (fr_code (m_fr m)) ->
  exec (S f) E m =
  if snd (ops_add (e_cfg E) (ops_of (m_w m)) 1) then Fail EBudget (counted E m)
  else match fr_err (m_fr m) with
       | Some e => Fail e (counted E m)
       | None =>
         if fr_top (m_fr m) =? stack_size then Fail EStack (counted E m)
         else if fr_pc (m_fr m) <? 0 then Panic "code index negative"
         else match nth_error (fr_code (m_fr m)) (Z.to_nat (fr_pc (m_fr m))) with
              | None => Panic "code index out of range"
              | Some ins =>
                match step (exec f E) f E ins (counted E m) with
                | SNext m2 => exec f E (next_pc m2)
                | SStop m2 => Fin m2
                | SFail e m2 => Fail e m2
                | SPanic s => Panic s
                | SFuel => OutOfFuel
                | SUnsup s => Unsupported s
                end
              end
       end.
Proof.
  intros f E m Hlen. cbn [exec].
  replace (zlen (fr_code (m_fr m)) <=? fr_pc (m_fr m)) with false by (symmetry; apply Z.leb_gt; exact Hlen).
  rewrite count_op_spec. reflexivity.
Qed.

Theorem C07_budget_error_once_exceeded : forall f E m,
  0 < cfg_op_limit (e_cfg E) < MaxInt64 -> fr_pc (m_fr m) < zlen (fr_code (m_fr m)) ->
  0 <= ops_of (m_w m) <= MaxInt64 -> cfg_op_limit (e_cfg E) <= ops_of (m_w m) ->
  exec (S f) E m = Fail EBudget (counted E m).
Proof.
  intros f E m HL Hlen Hr Hex. rewrite C07_dispatch_counts by exact Hlen.
  destruct (ops_add (e_cfg E) (ops_of (m_w m)) 1) as [new over] eqn:Ha.
  assert (H01 : 0 <= 1) by lia.
  destruct (C07_ops_add_spec _ _ _ _ _ Hr H01 Ha) as (H1 & H2 & H3 & H4).
  cbn [snd]. replace over with true; [reflexivity|]. symmetry. apply H4. unfold MaxInt64 in *. lia.
Qed.

(* B4: a batch of dice is charged before the first die is rolled *)
Definition charged (E : env) (w : world) (count : Z) : world :=
  w_set_self_ops w (fst (ops_add (e_cfg E) (ops_of w) count)).
Definition over_by (E : env) (w : world) (count : Z) : bool := snd (ops_add (e_cfg E) (ops_of w) count).

Lemma add_ops_spec : forall E w count, add_ops E w count = (charged E w count, over_by E w count).
Proof. intros; unfold add_ops, charged, over_by, ops_of. destruct (ops_add _ _ _); reflexivity. Qed.

Lemma charged_pcg : forall E w n, w_pcg (charged E w n) = w_pcg w.
Proof. intros; unfold charged, w_set_self_ops. destruct (w_chain w); reflexivity. Qed.

(* `dice`: the generator is untouched whenever the instruction fails; a budget failure leaves the
   charged counter; a roll happens only when the charge of d_times dice stayed within the limit, and
   it happens on the charged world *)
Theorem C07_dice_batch_charged_before_rolling : forall call rf E o m d rest,
  fr_dice (m_fr m) = d :: rest ->
  match step call rf E (I OpDice o) m with
  | SFail e m' => w_pcg (m_w m') = w_pcg (m_w m) /\
                  (e = EBudget -> m_w m' = charged E (m_w m) (d_times d) /\ over_by E (m_w m) (d_times d) = true)
  | SNext m' => over_by E (m_w m) (d_times d) = false /\ exists s, m_w m' = w_set_pcg (charged E (m_w m) (d_times d)) s
  | SStop _ => False
  | _ => over_by E (m_w m) (d_times d) = false
  end.
Proof.
  intros call rf E o m d rest Hd. unfold step; cbn [i_op i_arg]. rewrite Hd. unfold with_pop.
  destruct (pop (m_fr m)) as [v fr1]. destruct v; try (cbn [m_w mk]; split; [reflexivity|discriminate]).
  repeat match goal with |- context [if ?b then SFail EDice _ else _] =>
           destruct b; [cbn [m_w mk]; split; [reflexivity|discriminate]|] end.
  rewrite add_ops_spec. destruct (over_by E (m_w m) (d_times d)) eqn:Ho.
  - cbn [m_w mk]. split; [apply charged_pcg|]. intros _; auto.
  - destruct (dice_cap <? d_times d); [reflexivity|].
    destruct (roll_common _ _ _ _ _ _ _ _ _ _ _) as [[[num x] s]|]; [|reflexivity].
    unfold dice_result, do_push. destruct (push _ _); [|reflexivity]. cbn [m_w mk]. split; [reflexivity|].
    exists s. reflexivity.
Qed.

(* when the charge exceeds the limit the instruction fails and no die was rolled *)
Corollary C07_dice_over_budget_no_roll : forall call rf E o m d rest,
  fr_dice (m_fr m) = d :: rest -> over_by E (m_w m) (d_times d) = true ->
  exists e m', step call rf E (I OpDice o) m = SFail e m' /\ w_pcg (m_w m') = w_pcg (m_w m).
Proof.
  intros call rf E o m d rest Hd Ho. pose proof (C07_dice_batch_charged_before_rolling call rf E o m d rest Hd) as H.
  destruct (step call rf E (I OpDice o) m) as [m'|m'|e m'|s| |s]; rewrite ?Ho in H;
    try discriminate; try contradiction; try (destruct H; discriminate).
  exists e, m'. split; [reflexivity|apply H].
Qed.

(* with well-formed operands the failure IS the budget error *)
Lemma C07_dice_over_budget_is_EBudget : forall call rf E o m d rest sides l,
  fr_dice (m_fr m) = d :: rest -> fr_live (m_fr m) = VInt sides :: l -> 0 < sides ->
  (d_keep d = 0 \/ (0 < d_low d /\ 0 < d_high d)) ->
  over_by E (m_w m) (d_times d) = true ->
  exists fr1, step call rf E (I OpDice o) m = SFail EBudget (mk fr1 (charged E (m_w m) (d_times d))).
Proof.
  intros call rf E o m d rest sides l Hd Hl Hs Hk Ho. unfold step; cbn [i_op i_arg]. rewrite Hd. unfold with_pop, pop.
  rewrite Hl. cbv beta iota zeta.
  replace (sides <=? 0) with false by (symmetry; apply Z.leb_gt; lia).
  replace (((d_keep d =? 1) || (d_keep d =? 3)) && (d_low d <=? 0)) with false.
  2:{ symmetry. destruct Hk as [Hk|[Hk _]]; [rewrite Hk; reflexivity|]. apply andb_false_iff; right. apply Z.leb_gt; lia. }
  replace (((d_keep d =? 2) || (d_keep d =? 4)) && (d_high d <=? 0)) with false.
  2:{ symmetry. destruct Hk as [Hk|[_ Hk]]; [rewrite Hk; reflexivity|]. apply andb_false_iff; right. apply Z.leb_gt; lia. }
  rewrite add_ops_spec, Ho. eexists; reflexivity.
Qed.

(* coc.bonus / coc.penalty: a negative count is an error; otherwise the count is charged first *)
Theorem C07_coc_batch_charged_before_rolling : forall call rf E op o m n l,
  op = OpCocBonus \/ op = OpCocPenalty -> fr_live (m_fr m) = VInt n :: l ->
  let fr1 := snd (pop (m_fr m)) in
  if n <? 0 then step call rf E (I op o) m = SFail EDice (mk fr1 (m_w m))
  else if over_by E (m_w m) n then step call rf E (I op o) m = SFail EBudget (mk fr1 (charged E (m_w m) n))
  else match step call rf E (I op o) m with
       | SNext m' => exists s, m_w m' = w_set_pcg (charged E (m_w m) n) s
       | SFail _ _ | SStop _ => False
       | _ => True
       end.
Proof.
  intros call rf E op o m n l Hop Hl. unfold step.
  destruct Hop as [-> | ->]; cbn [i_op i_arg]; unfold with_pop, with_int, pop; rewrite Hl; cbv beta iota zeta; cbn [snd];
    (destruct (n <? 0); [reflexivity|]); rewrite add_ops_spec; (destruct (over_by E (m_w m) n); [reflexivity|]);
    (destruct (dice_cap <? n); [exact Logic.I|]);
    (destruct (roll_coc _ _ _ _ _ _) as [[[r x] s]|]; [|exact Logic.I]);
    unfold dice_result, do_push; (destruct (push _ _); [|exact Logic.I]); cbn [m_w mk];
    exists s; reflexivity.
Qed.

(* WoD / Double Cross: every round's pool is charged before that round is rolled *)
Lemma wod_budget_cnt_fst : forall n c addLine points threshold isGE mode pool succ ops s,
  fst (wod_budget_cnt n c addLine points threshold isGE mode pool succ ops s)
  = wod_budget n c addLine points threshold isGE mode pool succ ops s.
Proof.
  induction n; intros; cbn [wod_budget_cnt wod_budget]; [reflexivity|].
  destruct (ops_add c ops pool) as [ops' over]. destruct over; [reflexivity|].
  destruct (wod_round _ _ _ _ _ _ _ _ _ _ _) as [[[[sc add] x] s1]|]; [|reflexivity].
  destruct (0 <? add); [|reflexivity].
  specialize (IHn c addLine points threshold isGE mode add (succ + sc) ops' s1).
  destruct (wod_budget_cnt n c addLine points threshold isGE mode add (succ + sc) ops' s1). exact IHn.
Qed.

Lemma dc_budget_cnt_fst : forall n c addLine points mode pool result ops s,
  fst (dc_budget_cnt n c addLine points mode pool result ops s) = dc_budget n c addLine points mode pool result ops s.
Proof.
  induction n; intros; cbn [dc_budget_cnt dc_budget]; [reflexivity|].
  destruct (ops_add c ops pool) as [ops' over]. destruct over; [reflexivity|].
  destruct (dc_round _ _ _ _ _ _ _ _ _) as [[[[mx add] x] s1]|]; [|reflexivity].
  destruct (0 <? add); [|reflexivity].
  specialize (IHn c addLine points mode add (wrap64 (result + mx)) ops' s1).
  destruct (dc_budget_cnt n c addLine points mode add (wrap64 (result + mx)) ops' s1). exact IHn.
Qed.

(* what a run of rounds may end with, given k dice in started rounds *)
Definition rounds_charged (L ops : Z) (r : rounds_res) (k : Z) : Prop :=
  0 <= k /\ k <= Z.max 0 (L - ops) /\
  match r with
  | RDone _ ops' _ => ops' = ops + k /\ ops' <= L        (* every die rolled was paid for, within the limit *)
  | ROver ops' _ => L < ops'                             (* the round that broke the limit was not rolled *)
  | RNoFuel => True
  end.

Lemma charge_step : forall c L ops pool ops' over, cfg_op_limit c = L -> 0 < L < MaxInt64 -> 0 <= ops <= MaxInt64 -> 0 <= pool ->
  ops_add c ops pool = (ops', over) ->
  (over = true -> L < ops') /\ (over = false -> ops' = ops + pool /\ ops' <= L).
Proof.
  intros c L ops pool ops' over HL HLr Hops Hpool Ha.
  destruct (C07_ops_add_spec _ _ _ _ _ Hops Hpool Ha) as (H1 & H2 & H3 & H4). rewrite HL in H4. split.
  - intros ->. apply H4; reflexivity.
  - intros ->. assert (~ (0 < L /\ L < ops')) by (intros X; apply H4 in X; discriminate). lia.
Qed.

Theorem C07_wod_rounds_charged : forall c L addLine points threshold isGE mode, cfg_op_limit c = L -> 0 < L < MaxInt64 ->
  forall n pool succ ops s, 0 <= ops <= MaxInt64 -> 0 <= pool ->
  let '(r, k) := wod_budget_cnt n c addLine points threshold isGE mode pool succ ops s in rounds_charged L ops r k.
Proof.
  intros c L addLine points threshold isGE mode HL HLr. induction n; intros pool succ ops s Hops Hpool; cbn [wod_budget_cnt].
  - unfold rounds_charged; lia.
  - destruct (ops_add c ops pool) as [ops' over] eqn:Ha.
    destruct (charge_step _ _ _ _ _ _ HL HLr Hops Hpool Ha) as [C1 C2]. destruct over.
    + specialize (C1 eq_refl). unfold rounds_charged. lia.
    + destruct (C2 eq_refl) as [E1 E2].
      destruct (wod_round _ _ _ _ _ _ _ _ _ _ _) as [[[[sc add] x] s1]|]; [|unfold rounds_charged; lia].
      destruct (0 <? add) eqn:Hadd; [|unfold rounds_charged; lia]. apply Z.ltb_lt in Hadd.
      assert (Hops' : 0 <= ops' <= MaxInt64) by lia.
      specialize (IHn add (succ + sc) ops' s1 Hops' ltac:(lia)).
      destruct (wod_budget_cnt n c addLine points threshold isGE mode add (succ + sc) ops' s1) as [r k].
      unfold rounds_charged in *. destruct IHn as (K1 & K2 & K3). destruct r; lia.
Qed.

Theorem C07_dc_rounds_charged : forall c L addLine points mode, cfg_op_limit c = L -> 0 < L < MaxInt64 ->
  forall n pool result ops s, 0 <= ops <= MaxInt64 -> 0 <= pool ->
  let '(r, k) := dc_budget_cnt n c addLine points mode pool result ops s in rounds_charged L ops r k.
Proof.
  intros c L addLine points mode HL HLr. induction n; intros pool result ops s Hops Hpool; cbn [dc_budget_cnt].
  - unfold rounds_charged; lia.
  - destruct (ops_add c ops pool) as [ops' over] eqn:Ha.
    destruct (charge_step _ _ _ _ _ _ HL HLr Hops Hpool Ha) as [C1 C2]. destruct over.
    + specialize (C1 eq_refl). unfold rounds_charged. lia.
    + destruct (C2 eq_refl) as [E1 E2].
      destruct (dc_round _ _ _ _ _ _ _ _ _) as [[[[mx add] x] s1]|]; [|unfold rounds_charged; lia].
      destruct (0 <? add) eqn:Hadd; [|unfold rounds_charged; lia]. apply Z.ltb_lt in Hadd.
      assert (Hops' : 0 <= ops' <= MaxInt64) by lia.
      specialize (IHn add (wrap64 (result + mx)) ops' s1 Hops' ltac:(lia)).
      destruct (dc_budget_cnt n c addLine points mode add (wrap64 (result + mx)) ops' s1) as [r k].
      unfold rounds_charged in *. destruct IHn as (K1 & K2 & K3). destruct r; lia.
Qed.

(* the instruction: with a well-formed operand the outcome is exactly that of the budgeted rounds,
   started on the running context's counter; a budget stop is `Fail EBudget` with the charged counter *)
Theorem C07_wod_dc_rounds_charged_step : forall call rf E o m addLine l,
  fr_live (m_fr m) = VInt addLine :: l ->
  let fr1 := snd (pop (m_fr m)) in
  let w := m_w m in
  let cfg := e_cfg E in
  (let x := fr_wod fr1 in
   wod_check addLine (w_pool x) (w_points x) (w_threshold x) = true ->
   step call rf E (I OpDiceWod o) m =
   match wod_budget rf cfg addLine (w_points x) (w_threshold x) (w_isge x) (roll_mode cfg) (w_pool x) 0 (ops_of w) (w_pcg w) with
   | RNoFuel => SFuel
   | ROver ops s => SFail EBudget (mk fr1 (w_set_pcg (w_set_self_ops w ops) s))
   | RDone num ops s => dice_result num fr1 (w_set_pcg (w_set_self_ops w ops) s)
   end /\ 0 <= w_pool x) /\
  (let x := fr_dc fr1 in
   dc_check addLine (c_pool x) (c_points x) = true ->
   step call rf E (I OpDiceDC o) m =
   match dc_budget rf cfg addLine (c_points x) (roll_mode cfg) (c_pool x) 0 (ops_of w) (w_pcg w) with
   | RNoFuel => SFuel
   | ROver ops s => SFail EBudget (mk fr1 (w_set_pcg (w_set_self_ops w ops) s))
   | RDone num ops s => dice_result num fr1 (w_set_pcg (w_set_self_ops w ops) s)
   end /\ 0 <= c_pool x).
Proof.
  intros call rf E o m addLine l Hl. cbv zeta. split; intros Hc.
  - split.
    + unfold step; cbn [i_op i_arg]. unfold with_pop, with_int. destruct (pop (m_fr m)) as [v fr1] eqn:Hp.
      unfold pop in Hp. rewrite Hl in Hp. injection Hp as <- <-. cbn [snd] in *. cbv beta iota zeta. rewrite Hc. reflexivity.
    + unfold wod_check in Hc. rewrite !andb_true_iff, !negb_true_iff, orb_false_iff, Z.ltb_ge in Hc. lia.
  - split.
    + unfold step; cbn [i_op i_arg]. unfold with_pop, with_int. destruct (pop (m_fr m)) as [v fr1] eqn:Hp.
      unfold pop in Hp. rewrite Hl in Hp. injection Hp as <- <-. cbn [snd] in *. cbv beta iota zeta. rewrite Hc. reflexivity.
    + unfold dc_check in Hc. rewrite !andb_true_iff, !negb_true_iff, orb_false_iff, Z.ltb_ge in Hc. lia.
Qed.

(* ------------------------------------------------------------------ B3: the counter only grows *)
Definition dice_ok (fr : frame) : Prop := Forall (fun d => 0 <= d_times d) (fr_dice fr).

Lemma err_invalid_dice : forall fr, fr_dice (err_invalid fr) = fr_dice fr.
Proof. intros; unfold err_invalid. destruct (fr_err fr); reflexivity. Qed.
Lemma pop_dice : forall fr v fr1, pop fr = (v, fr1) -> fr_dice fr1 = fr_dice fr.
Proof.
  unfold pop; intros fr v fr1. destruct (fr_live fr); intros [= <- <-]; cbn [fr_set_stack fr_dice]; [apply err_invalid_dice|reflexivity].
Qed.
Lemma pop_n_aux_dice : forall n fr acc l fr1, pop_n_aux n fr acc = (l, fr1) -> fr_dice fr1 = fr_dice fr.
Proof.
  induction n; intros fr acc l fr1; cbn [pop_n_aux]; [intros [= <- <-]; reflexivity|].
  destruct (pop fr) as [v fr0] eqn:Hp. intros H. rewrite (IHn _ _ _ _ H). exact (pop_dice _ _ _ Hp).
Qed.
Lemma pop_n_dice : forall n fr l fr1, pop_n n fr = (l, fr1) -> fr_dice fr1 = fr_dice fr.
Proof.
  unfold pop_n; intros n fr l fr1. destruct (n <=? 0); [intros [= <- <-]; reflexivity|].
  destruct (pop_n_aux _ _ _) as [l1 fr0] eqn:Hp. intros [= <- <-]. cbn [fr_set_stack fr_dice]. exact (pop_n_aux_dice _ _ _ _ _ Hp).
Qed.
Lemma set_top_dice : forall fr t fr1, set_top fr t = Some fr1 -> fr_dice fr1 = fr_dice fr.
Proof.
  unfold set_top; intros fr t fr1. destruct (t <=? fr_top fr).
  - destruct (lower_top _ _ _). intros [= <-]. reflexivity.
  - destruct (raise_top _ _ _) as [[l d]|]; [|discriminate]. intros [= <-]. reflexivity.
Qed.
Lemma last_detail_dice : forall fr, fr_dice (last_detail fr) = fr_dice fr.
Proof. intros; unfold last_detail. destruct (fr_details fr); reflexivity. Qed.
Lemma push_dice : forall v fr fr1, push v fr = Some fr1 -> fr_dice fr1 = fr_dice fr.
Proof. unfold push; intros v fr fr1. destruct (_ <=? _); [discriminate|]. intros [= <-]. reflexivity. Qed.

Lemma wrap64_range : forall z, MinInt64 <= wrap64 z <= MaxInt64.
Proof. intros; unfold wrap64, MinInt64, MaxInt64, two63, two64. pose proof (Z.mod_pos_bound (z + 9223372036854775808) 18446744073709551616). lia. Qed.

(* the rounds only add to the counter *)
Lemma wod_budget_mono : forall n c addLine points threshold isGE mode pool succ ops s,
  0 <= ops <= MaxInt64 -> 0 <= pool ->
  match wod_budget n c addLine points threshold isGE mode pool succ ops s with
  | RDone _ ops' _ | ROver ops' _ => ops <= ops' <= MaxInt64
  | RNoFuel => True
  end.
Proof.
  induction n; intros c addLine points threshold isGE mode pool succ ops s Hops Hpool; cbn [wod_budget]; [exact Logic.I|].
  destruct (ops_add c ops pool) as [ops' over] eqn:Ha.
  destruct (C07_ops_add_spec _ _ _ _ _ Hops Hpool Ha) as (H1 & H2 & _). destruct over; [lia|].
  destruct (wod_round _ _ _ _ _ _ _ _ _ _ _) as [[[[sc add] x] s1]|]; [|exact Logic.I].
  destruct (0 <? add) eqn:Hadd; [|lia]. apply Z.ltb_lt in Hadd.
  specialize (IHn c addLine points threshold isGE mode add (succ + sc) ops' s1 ltac:(lia) ltac:(lia)).
  destruct (wod_budget n c addLine points threshold isGE mode add (succ + sc) ops' s1); try exact Logic.I; lia.
Qed.
Lemma dc_budget_mono : forall n c addLine points mode pool result ops s,
  0 <= ops <= MaxInt64 -> 0 <= pool ->
  match dc_budget n c addLine points mode pool result ops s with
  | RDone _ ops' _ | ROver ops' _ => ops <= ops' <= MaxInt64
  | RNoFuel => True
  end.
Proof.
  induction n; intros c addLine points mode pool result ops s Hops Hpool; cbn [dc_budget]; [exact Logic.I|].
  destruct (ops_add c ops pool) as [ops' over] eqn:Ha.
  destruct (C07_ops_add_spec _ _ _ _ _ Hops Hpool Ha) as (H1 & H2 & _). destruct over; [lia|].
  destruct (dc_round _ _ _ _ _ _ _ _ _) as [[[[mx add] x] s1]|]; [|exact Logic.I].
  destruct (0 <? add) eqn:Hadd; [|lia]. apply Z.ltb_lt in Hadd.
  specialize (IHn c addLine points mode add (wrap64 (result + mx)) ops' s1 ltac:(lia) ltac:(lia)).
  destruct (dc_budget n c addLine points mode add (wrap64 (result + mx)) ops' s1); try exact Logic.I; lia.
Qed.

Definition run_pre (m : machine) : Prop :=
  w_chain (m_w m) <> [] /\ 0 <= ops_of (m_w m) <= MaxInt64 /\ dice_ok (m_fr m).

Section Mono.
  Variable call : machine -> result.
  Variable rfuel : nat.
  Variable E : env.
  Variable L : Z.
  Hypothesis HL : cfg_op_limit (e_cfg E) = L.
  Hypothesis HLr : 0 < L <= MaxInt64 - 100.
  Hypothesis Hcall : forall m m', run_pre m -> call m = Fin m' -> ops_of (m_w m) <= ops_of (m_w m') <= MaxInt64.
  Variable c1 : Z.
  Hypothesis Hc1 : 0 <= c1.

  Definition W (w : world) : Prop := w_chain w <> [] /\ c1 <= ops_of w <= MaxInt64.
  Definition rmono {A} (r : R A) : Prop := match r with ROk _ w => W w | _ => True end.

  Lemma rmono_rbind : forall A B (r : R A) (k : A -> world -> R B),
    rmono r -> (forall a w, W w -> rmono (k a w)) -> rmono (rbind r k).
  Proof. intros A B r k H1 H2. destruct r; cbn; auto. Qed.

  Ltac w_solve :=
    unfold W, ops_of, w_self, store_name, w_set_heap, w_set_pcg, w_add_st, st_log in *;
    cbn [w_chain w_heap w_pcg w_st] in *; assumption.

  Ltac rmono_tac :=
    repeat first
      [ exact Logic.I
      | match goal with |- rmono (ROk _ ?w) => change (W w); w_solve end
      | progress cbv zeta
      | apply rmono_rbind; [|intros]
      | match goal with
        | |- rmono (if ?b then _ else _) => destruct b
        | |- rmono (match ?x with _ => _ end) => destruct x
        end ].

  Lemma W_head : forall w x r, W w -> w_chain w = x :: r -> c1 <= c_ops x <= MaxInt64.
  Proof. unfold W, ops_of, w_self; intros w x r [_ H] Hc. rewrite Hc in H. exact H. Qed.

  Lemma computed_execute_mono : forall cid k w, W w -> (k = 0%nat -> ops_of w <= L) ->
    rmono (computed_execute call E cid k w).
  Proof.
    intros cid k w Hw Hk. unfold computed_execute.
    destruct (nth_error (w_chain w) k) as [t|] eqn:Hn; [|exact Logic.I].
    destruct (cattrs_force cid (w_heap w)) as [mapid h1].
    destruct (limit_hit E _); [exact Logic.I|].
    destruct (f_lookup (e_ftab E) cid) as [d|]; [|exact Logic.I].
    destruct (f_code d) as [body|]; [|exact Logic.I].
    destruct k as [|k].
    - (* the running context: its counter becomes the callee's final one *)
      destruct (w_chain w) as [|x r] eqn:Hc; [discriminate|]. cbn in Hn. injection Hn as ->.
      pose proof (W_head _ _ _ Hw Hc) as Hx. specialize (Hk eq_refl). unfold ops_of, w_self in Hk. rewrite Hc in Hk. cbn in Hk.
      assert (Hw100 : wrap64 (c_ops t + 100) = c_ops t + 100) by (apply wrap64_id; unfold in_i64, two63, MaxInt64 in *; lia).
      match goal with |- rmono (match call ?sub with _ => _ end) =>
        pose proof (Hcall sub) as Hs; destruct (call sub) as [m'| | | |]; try exact Logic.I end.
      + specialize (Hs m'). cbn [m_w m_fr] in Hs. unfold run_pre, ops_of, w_self, dice_ok in Hs. cbn in Hs. rewrite Hw100 in Hs.
        destruct Hs as [Hs1 Hs2]; [split; [discriminate|split; [unfold MaxInt64 in *; lia|constructor]]|reflexivity|].
        destruct (w_chain (m_w m')) as [|s' [|t' rest']] eqn:Hc'; try exact Logic.I.
        cbn. unfold W, ops_of, w_self. cbn. split; [discriminate|]. cbn in Hs1, Hs2. lia.
      + destruct (w_chain (m_w m)) as [|s' [|t' rest']]; exact Logic.I.
    - (* an upper context: the running context's counter is untouched *)
      destruct (w_chain w) as [|x r] eqn:Hc; [discriminate|].
      pose proof (W_head _ _ _ Hw Hc) as Hx.
      match goal with |- rmono (match call ?sub with _ => _ end) => destruct (call sub) as [m'| | | |]; try exact Logic.I end.
      + destruct (w_chain (m_w m')) as [|s' [|t' rest']]; try exact Logic.I.
        cbn. unfold W, ops_of, w_self. cbn. split; [discriminate|exact Hx].
      + destruct (w_chain (m_w m)) as [|s' [|t' rest']]; exact Logic.I.
  Qed.

  Lemma func_invoke_mono : forall fid args w, W w -> ops_of w <= L -> rmono (func_invoke call E fid args w).
  Proof.
    intros fid args w Hw Hk. unfold func_invoke.
    destruct (f_lookup (e_ftab E) fid) as [d|]; [|exact Logic.I].
    destruct (w_chain w) as [|self ups] eqn:Hc; [exact Logic.I|].
    destruct (negb _); [exact Logic.I|].
    destruct (alloc_map _ _) as [mapid h1].
    destruct (limit_hit E _); [exact Logic.I|].
    destruct (f_code d) as [body|]; [|exact Logic.I].
    pose proof (W_head _ _ _ Hw Hc) as Hx. unfold ops_of, w_self in Hk. rewrite Hc in Hk. cbn in Hk.
    assert (Hw100 : wrap64 (c_ops self + 100) = c_ops self + 100) by (apply wrap64_id; unfold in_i64, two63, MaxInt64 in *; lia).
    match goal with |- rmono (match call ?sub with _ => _ end) =>
      pose proof (Hcall sub) as Hs; destruct (call sub) as [m'| | | |]; try exact Logic.I end.
    - specialize (Hs m'). cbn [m_w m_fr] in Hs. unfold run_pre, ops_of, w_self, dice_ok in Hs. cbn in Hs. rewrite Hw100 in Hs.
      destruct Hs as [Hs1 Hs2]; [split; [discriminate|split; [unfold MaxInt64 in *; lia|constructor]]|reflexivity|].
      destruct (w_chain (m_w m')) as [|s' [|t' rest']] eqn:Hc'; try exact Logic.I.
      cbn. unfold W, ops_of, w_self. cbn. split; [discriminate|]. cbn in Hs1, Hs2. lia.
    - destruct (w_chain (m_w m)) as [|s' [|t' rest']]; exact Logic.I.
  Qed.

  (* carrying the counter to a calling context leaves the running context's counter alone; carrying it back only raises it,
     to an int64 *)
  Lemma W_sync_to : forall k w, W w -> W (sync_to k w).
  Proof.
    intros k w Hw. destruct k as [|k]; [exact Hw|]. unfold sync_to.
    destruct (_ <? _); [|exact Hw]. unfold set_ops_at.
    destruct (nth_error (w_chain w) (S k)) as [c|] eqn:Hn; [|exact Hw].
    destruct Hw as [Hne Ho]. unfold W, ops_of, w_self in *. unfold chain_put. cbn [w_set_chain w_chain].
    destruct (w_chain w) as [|x r]; [congruence|]. cbn [firstn app hd]. split; [discriminate|exact Ho].
  Qed.

  Lemma W_sync_back : forall k w, W w -> W (sync_back k w).
  Proof.
    intros k w Hw. destruct k as [|k]; [exact Hw|]. unfold sync_back. cbv zeta.
    destruct (ops_at 0 w <? wrap64 (ops_at (S k) w)) eqn:Hlt; [|exact Hw]. apply Z.ltb_lt in Hlt.
    unfold set_ops_at. destruct (nth_error (w_chain w) 0) as [c|] eqn:Hn; [|exact Hw].
    destruct Hw as [Hne Ho]. unfold W, ops_of, w_self, ops_at in *. unfold chain_put. cbn [w_set_chain w_chain firstn app hd c_ops].
    destruct (w_chain w) as [|x r]; [congruence|]. cbn in Hn. injection Hn as <-. cbn [hd nth_error] in *.
    split; [discriminate|].
    match goal with H : _ < wrap64 ?z |- _ => pose proof (wrap64_range z) as Hr end.
    unfold MinInt64, MaxInt64 in *. cbn [nth_error] in *. lia.
  Qed.

  Lemma rmono_rmapw : forall A (f : world -> world) (r : R A), (forall w, W w -> W (f w)) -> rmono r -> rmono (rmapw f r).
  Proof. intros A f r Hf H. destruct r; cbn; auto. Qed.

  Lemma load_walk_mono : forall n k name isRaw w, W w -> (k = 0%nat -> ops_of w <= L) ->
    rmono (load_walk call E n k name isRaw w).
  Proof.
    induction n; intros k name isRaw w Hw Hk; cbn [load_walk]; [exact Hw|].
    destruct (nth_error (w_chain w) k); [|exact Hw]. cbv zeta.
    assert (Hw0 : W (sync_to k w)) by (apply W_sync_to; exact Hw).
    apply rmono_rbind.
    - apply rmono_rmapw; [intros; apply W_sync_back; assumption|].
      destruct (match mget name _ with Some v => v | None => VNull end); try exact Hw0.
      destruct isRaw; [exact Hw0|apply computed_execute_mono; [exact Hw0|]].
      intros ->. cbn [sync_to]. apply Hk; reflexivity.
    - intros v w' Hw'. destruct v; try exact Hw'. apply IHn; [exact Hw'|discriminate].
  Qed.

  Lemma load_name_mono : forall name isRaw w, W w -> ops_of w <= L -> rmono (load_name call E name isRaw w).
  Proof. intros; apply load_walk_mono; auto. Qed.

  Lemma load_local_mono : forall name w, W w -> ops_of w <= L -> rmono (load_local call E name w).
  Proof.
    intros name w Hw Hk. unfold load_local.
    destruct (match mget name _ with Some v => v | None => VNull end); try exact Hw. apply computed_execute_mono; auto.
  Qed.

  Lemma new_arr_mono : forall l w, W w -> rmono (new_arr l w).
  Proof. intros l w Hw; unfold new_arr. destruct (alloc_arr _ _). change (W (w_set_heap w h)). w_solve. Qed.
  Lemma str_of_mono : forall E' b v w, W w -> rmono (str_of E' b v w).
  Proof. intros E' b v w Hw; unfold str_of. rmono_tac. Qed.
  Lemma roll1_mono : forall n w, W w -> rmono (roll1 n w).
  Proof. intros n w Hw; unfold roll1. rmono_tac. Qed.
  Lemma shuffle_loop_mono : forall i l w, W w -> rmono (shuffle_loop i l w).
  Proof.
    induction i; intros l w Hw; cbn [shuffle_loop]; [exact Hw|].
    apply rmono_rbind; [apply roll1_mono; exact Hw|]. intros; apply IHi; assumption.
  Qed.
  Lemma shuffle_mono : forall l w, W w -> rmono (shuffle l w).
  Proof. intros; apply shuffle_loop_mono; assumption. Qed.
  Lemma array_repeat_mono : forall id t w, W w -> rmono (array_repeat id t w).
  Proof. intros id t w Hw; unfold array_repeat. rmono_tac; apply new_arr_mono; exact Hw. Qed.

  Lemma attr_get_mono : forall v name w, W w -> ops_of w <= L -> rmono (attr_get call E v name w).
  Proof.
    intros v name w Hw Hk. unfold attr_get. destruct v; try exact Hw.
    - rmono_tac.
    - apply rmono_rbind; [apply load_local_mono; assumption|intros; assumption].
  Qed.
  Lemma attr_set_mono : forall v name x w, W w -> rmono (attr_set v name x w).
  Proof. intros v name x w Hw; unfold attr_set. rmono_tac. Qed.
  Lemma item_get_mono : forall a b w, W w -> rmono (item_get a b w).
  Proof. intros a b w Hw; unfold item_get. rmono_tac. Qed.
  Lemma item_set_mono : forall a b x w, W w -> rmono (item_set a b x w).
  Proof. intros a b x w Hw; unfold item_set. rmono_tac. Qed.
  Lemma slice_get_mono : forall o a b w, W w -> rmono (slice_get o a b w).
  Proof. intros o a b w Hw; unfold slice_get. rmono_tac; apply new_arr_mono; exact Hw. Qed.
  Lemma slice_set_mono : forall o a b x w, W w -> rmono (slice_set o a b x w).
  Proof. intros o a b x w Hw; unfold slice_set. rmono_tac. Qed.
  Lemma bin_op_mono : forall op v1 v2 w, W w -> rmono (bin_op rfuel E op v1 v2 w).
  Proof.
    intros op v1 v2 w Hw. unfold bin_op.
    destruct op; try exact Logic.I; destruct v1; try exact Logic.I; destruct v2; try exact Logic.I;
      rmono_tac; try (apply new_arr_mono; exact Hw); try (apply array_repeat_mono; exact Hw).
  Qed.
  Lemma push_range_mono : forall a b w, W w -> rmono (push_range a b w).
  Proof. intros a b w Hw; unfold push_range. rmono_tac; apply new_arr_mono; exact Hw. Qed.

  Lemma native_call_mono : forall name self args w, W w -> ops_of w <= L -> rmono (native_call call E name self args w).
  Proof.
    intros name self args w Hw Hk. unfold native_call.
    destruct (native_sig name) as [np defaults]. cbv zeta.
    repeat match goal with
    | |- rmono (if ?b then _ else _) => destruct b
    end;
    try exact Logic.I;
    repeat match goal with
    | |- rmono (load_name _ _ _ _ _) => apply load_name_mono; assumption
    | |- rmono (computed_execute _ _ _ _ _) => apply computed_execute_mono; [assumption|intros; assumption]
    | |- rmono (new_arr _ _) => apply new_arr_mono; assumption
    | |- rmono (shuffle _ _) => apply shuffle_mono; assumption
    | |- rmono (roll1 _ _) => apply roll1_mono; assumption
    | |- rmono (str_of _ _ _ _) => apply str_of_mono; assumption
    | |- rmono (rbind _ _) => apply rmono_rbind; [|intros]
    | |- rmono (ROk _ ?w) => change (W w); w_solve
    | |- rmono (if ?b then _ else _) => destruct b
    | |- rmono (match ?x with _ => _ end) => destruct x
    | |- _ => exact Logic.I
    end.
  Qed.

  (* ---- one instruction *)
  Definition Q2 (r : sresult) : Prop :=
    match r with SNext m => W (m_w m) /\ dice_ok (m_fr m) | SStop m => W (m_w m) | _ => True end.
  Definition step_mono (op : opcode) : Prop :=
    forall o m, W (m_w m) -> ops_of (m_w m) <= L -> dice_ok (m_fr m) -> Q2 (step call rfuel E (I op o) m).

  Lemma Q2_next : forall fr w, W w -> dice_ok fr -> Q2 (SNext (mk fr w)).
  Proof. intros; split; assumption. Qed.
  Lemma Q2_do_push : forall v fr w, W w -> dice_ok fr -> Q2 (do_push v fr w).
  Proof.
    intros v fr w Hw Hd. unfold do_push. destruct (push v fr) as [fr1|] eqn:Hp; [|exact Logic.I].
    split; [exact Hw|]. unfold dice_ok in *. cbn [mk m_fr]. rewrite (push_dice _ _ _ Hp). exact Hd.
  Qed.
  Lemma Q2_dice_result : forall z fr w, W w -> dice_ok fr -> Q2 (dice_result z fr w).
  Proof. intros; unfold dice_result. apply Q2_do_push; [assumption|]. unfold dice_ok in *. rewrite last_detail_dice. assumption. Qed.
  Lemma Q2_lift : forall A (r : R A) fr k, rmono r -> (forall a w, W w -> Q2 (k a w)) -> Q2 (lift r fr k).
  Proof. intros A r fr k H1 H2. destruct r; cbn; auto. unfold check_err. destruct (fr_err fr); cbn; auto. Qed.

  Lemma W_same_chain : forall w w', w_chain w' = w_chain w -> W w -> W w'.
  Proof. unfold W, ops_of, w_self; intros w w' H. rewrite H. auto. Qed.

  Lemma W_set_self_ops : forall w x, W w -> ops_of w <= x <= MaxInt64 -> W (w_set_self_ops w x).
  Proof.
    unfold W, ops_of, w_self, w_set_self_ops; intros w x [H1 H2] H3. destruct (w_chain w) as [|a r]; [congruence|].
    cbn in *. split; [discriminate|lia].
  Qed.

  Lemma W_charged : forall w n, W w -> 0 <= n -> W (charged E w n).
  Proof.
    intros w n Hw Hn. unfold charged. apply W_set_self_ops; [exact Hw|].
    destruct Hw as [_ Hw]. destruct (ops_add (e_cfg E) (ops_of w) n) as [new over] eqn:Ha.
    assert (Hr : 0 <= ops_of w <= MaxInt64) by lia.
    destruct (C07_ops_add_spec _ _ _ _ _ Hr Hn Ha) as (H1 & H2 & _). cbn [fst]. lia.
  Qed.

  Ltac w_tac :=
    try match goal with |- W (if ?b then _ else _) => destruct b end;
    first [ assumption
          | match goal with |- W (w_set_pcg ?w _) => apply (W_same_chain w); [reflexivity|] end; first [assumption | apply W_charged; [assumption|lia]]
          | w_solve ].

  Ltac d_tac :=
    unfold dice_ok in *; fr_unfold; rewrite ?last_detail_dice, ?err_invalid_dice;
    first [ assumption | congruence
          | constructor; [cbn [d_times dstate0]; lia | first [assumption | congruence]]
          | match goal with
            | H : fr_dice _ = ?d :: ?r |- _ =>
              let HF := fresh "HF" in
              assert (HF : Forall (fun d => 0 <= d_times d) (d :: r)) by congruence;
              inversion HF; subst; first [assumption | constructor; [cbn [d_times]; first [assumption | lia] | assumption]]
            end ].

  Ltac q2_fact :=
    repeat match goal with
    | Hp : pop _ = (_, _) |- _ => pose proof (pop_dice _ _ _ Hp); clear Hp
    | Hp : pop_n _ _ = (_, _) |- _ => pose proof (pop_n_dice _ _ _ _ Hp); clear Hp
    | Hp : set_top _ _ = Some _ |- _ => pose proof (set_top_dice _ _ _ Hp); clear Hp
    | Hp : push _ _ = Some _ |- _ => pose proof (push_dice _ _ _ Hp); clear Hp
    end.

  Ltac q2_r0 :=
    first [ apply func_invoke_mono; assumption | apply native_call_mono; assumption | apply load_name_mono; assumption
          | apply attr_get_mono; assumption | apply attr_set_mono; assumption
          | apply item_get_mono; assumption | apply item_set_mono; assumption | apply slice_get_mono; assumption
          | apply slice_set_mono; assumption | apply bin_op_mono; assumption | apply push_range_mono; assumption ].
  Ltac q2_r :=
    first [ q2_r0 | exact Logic.I
          | match goal with H : _ = ?r |- rmono ?r => rewrite <- H; q2_r0 end ].

  Ltac q2_go :=
    repeat (cbv beta iota zeta; first
      [ exact Logic.I
      | split; assumption
      | match goal with |- Q2 (SStop ?m) => change (W (m_w m)); assumption end
      | apply Q2_do_push; [w_tac | d_tac]
      | apply Q2_dice_result; [w_tac | d_tac]
      | apply Q2_next; [w_tac | d_tac]
      | apply Q2_lift; [q2_r | intros]
      | progress rewrite add_ops_spec
      | match goal with
        | |- Q2 (if ?b then _ else _) => destruct b eqn:?
        | |- Q2 (match ?x with _ => _ end) => destruct x eqn:?; q2_fact
        end ]).

  Ltac q2_start :=
    intros o m Hw HkL Hd; unfold step; cbn [i_op i_arg];
    unfold with_pop2, with_pop, with_pop_n, with_int, need_dice, arg_int, arg_str, upd_dice; rewrite ?add_ops_spec.

  Ltac by_cases tac :=
    let op := fresh "op" in let Hin := fresh "Hin" in
    intros op Hin; cbn [In] in Hin;
    repeat (destruct Hin as [<-|Hin]; [tac|]); contradiction.

  Lemma step_mono_plain : forall op,
    In op [OpPushInt; OpPushFlt; OpPushStr; OpPushArr; OpPushDict; OpPushComputed; OpPushFunc; OpPushNull; OpPushThis;
           OpPushRange; OpPushLast; OpPushDefExpr;
           OpAdd; OpSub; OpMul; OpDiv; OpMod; OpPow; OpNullCoalescing; OpLt; OpLe; OpEq; OpNe; OpGe; OpGt;
           OpBitAnd; OpBitOr; OpAnd; OpOr; OpNeg; OpPos; OpInvoke; OpInvokeSelf;
           OpItemGet; OpItemSet; OpAttrGet; OpAttrSet; OpSliceGet; OpSliceSet;
           OpPop; OpPopN; OpNop; OpRet; OpHalt; OpPushGlobal; OpStoreGlobal; OpUnknown; OpDiceCustom;
           OpStSet; OpStMod; OpStX0; OpStX1; OpJmp; OpJe; OpJne; OpJeDup; OpLd; OpLdD; OpLdRaw; OpStore; OpStoreLocal;
           OpBlockPush; OpBlockPop; OpFstrPush; OpMarkDetail;
           OpWodInit; OpWodPool; OpWodPoints; OpWodThreshold; OpWodThresholdQ; OpDcInit; OpDcPool; OpDcPoints]
    -> step_mono op.
  Proof. by_cases ltac:(q2_start; q2_go). Qed.

  Lemma step_mono_dice : forall op,
    In op [OpDiceInit; OpDiceSetTimes; OpDiceSetKeepLow; OpDiceSetKeepHigh; OpDiceSetDropLow; OpDiceSetDropHigh;
           OpDiceSetMin; OpDiceSetMax; OpDiceFate; OpFstrPop] -> step_mono op.
  Proof. by_cases ltac:(q2_start; q2_go). Qed.

  Lemma step_mono_OpDice : step_mono OpDice.
  Proof.
    q2_start. destruct (fr_dice (m_fr m)) as [|d rest] eqn:Hfd; [q2_go|].
    assert (Hd0 : 0 <= d_times d /\ Forall (fun d => 0 <= d_times d) rest)
      by (unfold dice_ok in Hd; rewrite Hfd in Hd; inversion Hd; auto).
    destruct Hd0 as [Hd0 Hd1]. q2_go.
  Qed.

  Lemma step_mono_coc : forall op, In op [OpCocBonus; OpCocPenalty] -> step_mono op.
  Proof.
    by_cases ltac:(q2_start; q2_go).
  Qed.

  Lemma step_mono_OpLdFs : step_mono OpLdFs.
  Proof.
    q2_start. destruct o; try exact Logic.I.
    destruct ((0 <? z) && (fr_top (m_fr m) - z <? 0)); [exact Logic.I|].
    match goal with |- Q2 (?f ?l0 ?a0) => cut (forall l acc, Q2 (f l acc)); [intros Hx; apply Hx|] end.
    induction l as [|v l IH]; intros acc; cbv beta iota.
    - destruct (stack_size <=? fr_top (m_fr m) - z); [exact Logic.I|].
      destruct (set_top (m_fr m) (fr_top (m_fr m) - z)) as [fr1|] eqn:Hs; [|exact Logic.I].
      apply Q2_do_push; [assumption|]. unfold dice_ok in *. rewrite (set_top_dice _ _ _ Hs). assumption.
    - destruct (to_string _ _ v); [apply IH|exact Logic.I].
  Qed.

  Lemma wod_check_pool : forall a pool pts thr, negb (wod_check a pool pts thr) = false -> 0 <= pool.
  Proof.
    unfold wod_check; intros a pool pts thr H. apply negb_false_iff in H.
    rewrite !andb_true_iff, !negb_true_iff, orb_false_iff, Z.ltb_ge in H. lia.
  Qed.
  Lemma dc_check_pool : forall a pool pts, negb (dc_check a pool pts) = false -> 0 <= pool.
  Proof.
    unfold dc_check; intros a pool pts H. apply negb_false_iff in H.
    rewrite !andb_true_iff, !negb_true_iff, orb_false_iff, Z.ltb_ge in H. lia.
  Qed.

  Lemma step_mono_OpDiceWod : step_mono OpDiceWod.
  Proof.
    q2_start. destruct (pop (m_fr m)) as [v fr1] eqn:Hp. q2_fact. destruct v; try exact Logic.I. cbv beta iota zeta.
    destruct (negb (wod_check _ _ _ _)) eqn:Hc; [exact Logic.I|]. apply wod_check_pool in Hc.
    assert (Hr : 0 <= c_ops (w_self (m_w m)) <= MaxInt64) by (destruct Hw as [_ Hw]; unfold ops_of in Hw; lia).
    match goal with |- context [wod_budget ?a ?b ?c ?d ?e ?f ?g ?h ?i ?j ?k] =>
      pose proof (wod_budget_mono a b c d e f g h i j k Hr Hc) as Hm; destruct (wod_budget a b c d e f g h i j k) end;
      try exact Logic.I.
    apply Q2_dice_result; [|d_tac].
    apply (W_same_chain (w_set_self_ops (m_w m) ops)); [reflexivity|]. apply W_set_self_ops; [assumption|exact Hm].
  Qed.

  Lemma step_mono_OpDiceDC : step_mono OpDiceDC.
  Proof.
    q2_start. destruct (pop (m_fr m)) as [v fr1] eqn:Hp. q2_fact. destruct v; try exact Logic.I. cbv beta iota zeta.
    destruct (negb (dc_check _ _ _)) eqn:Hc; [exact Logic.I|]. apply dc_check_pool in Hc.
    assert (Hr : 0 <= c_ops (w_self (m_w m)) <= MaxInt64) by (destruct Hw as [_ Hw]; unfold ops_of in Hw; lia).
    match goal with |- context [dc_budget ?a ?b ?c ?d ?e ?f ?g ?h ?i] =>
      pose proof (dc_budget_mono a b c d e f g h i Hr Hc) as Hm; destruct (dc_budget a b c d e f g h i) end;
      try exact Logic.I.
    apply Q2_dice_result; [|d_tac].
    apply (W_same_chain (w_set_self_ops (m_w m) ops)); [reflexivity|]. apply W_set_self_ops; [assumption|exact Hm].
  Qed.

  Theorem step_ops_mono : forall op, step_mono op.
  Proof.
    intros op.
    destruct op;
      first [ apply step_mono_plain; cbn; tauto
            | apply step_mono_dice; cbn; tauto
            | apply step_mono_coc; cbn; tauto
            | apply step_mono_OpDice | apply step_mono_OpLdFs | apply step_mono_OpDiceWod | apply step_mono_OpDiceDC ].
  Qed.
End Mono.

Lemma exec_count_fst : forall fuel E m, fst (exec_count fuel E m) = exec fuel E m.
Proof.
  induction fuel as [|f IH]; intros E m; [reflexivity|]. cbn [exec_count exec].
  destruct (zlen (fr_code (m_fr m)) <=? fr_pc (m_fr m)); [reflexivity|].
  destruct (count_op E m) as [m1 over]. destruct over; [reflexivity|].
  destruct (fr_err (m_fr m)); [reflexivity|]. destruct (fr_top (m_fr m) =? stack_size); [reflexivity|].
  destruct (fr_pc (m_fr m) <? 0); [reflexivity|]. destruct (nth_error _ _); [|reflexivity].
  destruct (step (exec f E) f E i m1); try reflexivity.
  match goal with |- context [exec_count f E ?x] => specialize (IH E x); destruct (exec_count f E x) end. exact IH.
Qed.

Lemma exec_mono_bound_aux : forall E L, 0 < cfg_op_limit (e_cfg E) -> cfg_op_limit (e_cfg E) = L -> L <= MaxInt64 - 100 ->
  forall fuel m, run_pre m ->
  (forall m', exec fuel E m = Fin m' -> ops_of (m_w m) <= ops_of (m_w m') <= MaxInt64) /\
  Z.of_nat (snd (exec_count fuel E m)) <= Z.max 0 (L - ops_of (m_w m)).
Proof.
  intros E L HL0 HL HLr. induction fuel as [|f IH]; intros m Hpre.
  - cbn. split; [discriminate|lia].
  - destruct Hpre as (Hch & Hops & Hdice). cbn [exec_count exec].
    destruct (zlen (fr_code (m_fr m)) <=? fr_pc (m_fr m)).
    { cbn [snd]. split; [|lia]. destruct (fr_err (m_fr m)); [discriminate|]. intros m' [= <-]. lia. }
    rewrite count_op_spec.
    destruct (ops_add (e_cfg E) (ops_of (m_w m)) 1) as [new over] eqn:Ha. cbn [snd fst].
    assert (H01 : 0 <= 1) by lia.
    destruct (C07_ops_add_spec _ _ _ _ _ Hops H01 Ha) as (A1 & A2 & A3 & A4).
    destruct over; [cbn [snd]; split; [discriminate|lia]|].
    assert (Hnew : new = ops_of (m_w m) + 1 /\ new <= L).
    { assert (~ (0 < cfg_op_limit (e_cfg E) /\ cfg_op_limit (e_cfg E) < new)) by (intros X; apply A4 in X; discriminate).
      unfold MaxInt64 in *. lia. }
    destruct Hnew as [Hn1 Hn2].
    destruct (fr_err (m_fr m)); [cbn [snd]; split; [discriminate|lia]|].
    destruct (fr_top (m_fr m) =? stack_size); [cbn [snd]; split; [discriminate|lia]|].
    destruct (fr_pc (m_fr m) <? 0); [cbn [snd]; split; [discriminate|lia]|].
    destruct (nth_error _ _) as [[op o]|]; [|cbn [snd]; split; [discriminate|lia]].
    assert (Hm1 : ops_of (m_w (counted E m)) = new) by (rewrite counted_ops by exact Hch; rewrite Ha; reflexivity).
    assert (Hch1 : w_chain (m_w (counted E m)) <> []).
    { unfold counted, w_set_self_ops; cbn [m_w]. destruct (w_chain (m_w m)); [congruence|discriminate]. }
    assert (HW : W new (m_w (counted E m))) by (unfold W; rewrite Hm1; split; [exact Hch1|lia]).
    assert (Hcall : forall m0 m', run_pre m0 -> exec f E m0 = Fin m' -> ops_of (m_w m0) <= ops_of (m_w m') <= MaxInt64)
      by (intros m0 m' P0; apply (IH m0 P0)).
    assert (HLr2 : 0 < L <= MaxInt64 - 100) by (split; [rewrite <- HL; exact HL0|exact HLr]).
    assert (Hnew0 : 0 <= new) by lia.
    assert (HmL : ops_of (m_w (counted E m)) <= L) by (rewrite Hm1; exact Hn2).
    pose proof (step_ops_mono (exec f E) f E L HL HLr2 Hcall new Hnew0 op o (counted E m) HW HmL Hdice) as HQ.
    destruct (step (exec f E) f E {| i_op := op; i_arg := o |} (counted E m)) as [m2|m2|e m2|s| |s];
      cbn [snd]; try (split; [discriminate|lia]).
    + destruct HQ as [[W1 W2] D2].
      match goal with |- context [exec_count f E ?x] => destruct (IH x) as [I1 I2] end.
      { unfold run_pre; cbn [m_w m_fr]. split; [exact W1|]. split; [lia|]. exact D2. }
      cbn [m_w] in I1, I2.
      match goal with |- context [exec_count f E ?x] => destruct (exec_count f E x) as [r n] end.
      cbn [snd] in *. split; [|lia]. intros m' Hm'. specialize (I1 m' Hm'). lia.
    + cbn [Q2] in HQ. destruct HQ as [_ W2]. split; [|lia]. intros m' [= <-]. lia.
Qed.

(* B3 (main): under a limit L the running context dispatches at most L - c0 instructions (a call into a
   sub-VM is one dispatch of the caller; the callee is bounded by the same theorem from ITS start
   counter, which is the caller's + 100), and its counter never goes down *)
Theorem C07_budget_bounds_dispatches : forall E L, cfg_op_limit (e_cfg E) = L -> 0 < L <= MaxInt64 - 100 ->
  forall fuel m, run_pre m ->
  fst (exec_count fuel E m) = exec fuel E m /\
  Z.of_nat (snd (exec_count fuel E m)) <= Z.max 0 (L - ops_of (m_w m)).
Proof.
  intros E L HL [HL0 HLr] fuel m Hpre. split; [apply exec_count_fst|].
  apply (exec_mono_bound_aux E L); auto. rewrite HL; exact HL0.
Qed.

Theorem C07_counter_never_lowered : forall E L, cfg_op_limit (e_cfg E) = L -> 0 < L <= MaxInt64 - 100 ->
  forall fuel m m', run_pre m -> exec fuel E m = Fin m' -> ops_of (m_w m) <= ops_of (m_w m') <= MaxInt64.
Proof.
  intros E L HL [HL0 HLr] fuel m m' Hpre. apply (exec_mono_bound_aux E L); auto. rewrite HL; exact HL0.
Qed.

(* the machine `run` starts: counter 0, so at most L dispatches of the main code *)
Corollary C07_run_dispatch_bound : forall E L c src st fuel, cfg_op_limit (e_cfg E) = L -> 0 < L <= MaxInt64 - 100 ->
  let m0 := {| m_fr := new_frame c (Some src);
               m_w := {| w_heap := vs_heap st; w_pcg := vs_pcg st; w_st := [];
                         w_chain := [{| c_attrs := vs_attrs st; c_ops := 0 |}] |} |} in
  (snd (exec_count fuel E m0) <= Z.to_nat L)%nat.
Proof.
  intros E L c src st fuel HL HLr m0.
  destruct (C07_budget_bounds_dispatches E L HL HLr fuel m0) as [_ H].
  { unfold run_pre, m0, ops_of, w_self, dice_ok, MaxInt64; cbn. split; [discriminate|]. split; [lia|constructor]. }
  change (ops_of (m_w m0)) with 0 in H. lia.
Qed.

(* a call / a computed evaluation costs 100: the callee's counter starts at caller + 100 (the callee is
   only ever run on such a machine), and when that exceeds the limit the callee is not started *)
Theorem C07_call_costs_100 : forall E fid args w self ups,
  w_chain w = self :: ups ->
  let ops1 := wrap64 (c_ops self + 100) in
  (forall call1 call2,
     (forall sub, ops_of (m_w sub) = ops1 -> fr_pc (m_fr sub) = 0 -> fr_live (m_fr sub) = [] -> call1 sub = call2 sub) ->
     func_invoke call1 E fid args w = func_invoke call2 E fid args w) /\
  (limit_hit E ops1 = true -> forall call d, f_lookup (e_ftab E) fid = Some d -> length (f_params d) = length args ->
     exists w1, func_invoke call E fid args w = RFail EBudget w1 /\ ops_of w1 = ops1 /\ w_pcg w1 = w_pcg w).
Proof.
  intros E fid args w self ups Hc ops1. split.
  - intros call1 call2 H. unfold func_invoke. rewrite Hc.
    destruct (f_lookup (e_ftab E) fid) as [d|]; [|reflexivity]. destruct (negb _); [reflexivity|].
    destruct (alloc_map _ _) as [mapid h1]. fold ops1. destruct (limit_hit E ops1); [reflexivity|].
    destruct (f_code d) as [body|]; [|reflexivity]. rewrite H; reflexivity.
  - intros Hl call d Hd Hlen. unfold func_invoke. rewrite Hc, Hd, Hlen, Nat.eqb_refl. cbn [negb].
    destruct (alloc_map _ _) as [mapid h1]. fold ops1. rewrite Hl. eexists; split; [reflexivity|]. split; reflexivity.
Qed.

Theorem C07_computed_costs_100 : forall E cid w self ups,
  w_chain w = self :: ups ->
  let ops1 := wrap64 (c_ops self + 100) in
  (forall call1 call2,
     (forall sub, ops_of (m_w sub) = ops1 -> fr_pc (m_fr sub) = 0 -> fr_live (m_fr sub) = [] -> call1 sub = call2 sub) ->
     computed_execute call1 E cid 0 w = computed_execute call2 E cid 0 w) /\
  (limit_hit E ops1 = true -> forall call,
     exists w1, computed_execute call E cid 0 w = RFail EBudget w1 /\ ops_of w1 = ops1 /\ w_pcg w1 = w_pcg w).
Proof.
  intros E cid w self ups Hc ops1. split.
  - intros call1 call2 H. unfold computed_execute. rewrite Hc. cbn [nth_error firstn skipn].
    destruct (cattrs_force cid (w_heap w)) as [mapid h1]. fold ops1. destruct (limit_hit E ops1); [reflexivity|].
    destruct (f_lookup (e_ftab E) cid) as [d|]; [|reflexivity].
    destruct (f_code d) as [body|]; [|reflexivity]. rewrite H; reflexivity.
  - intros Hl call. unfold computed_execute. rewrite Hc. cbn [nth_error firstn skipn].
    destruct (cattrs_force cid (w_heap w)) as [mapid h1]. fold ops1. rewrite Hl. eexists; split; [reflexivity|]. split; reflexivity.
Qed.

Print Assumptions C07_budget_bounds_dispatches.
Print Assumptions C07_counter_never_lowered.
Print Assumptions C07_call_costs_100.

(* non-vacuity: the loop program under a limit of 10 stops with the budget error after exactly 10 dispatches *)
Definition env_lim (L : Z) : env :=
  {| e_ftab := []; e_cfg := {| cfg_ignore_div0 := false; cfg_min_mode := false; cfg_max_mode := false; cfg_op_limit := L;
                               cfg_def_expr_empty := true; cfg_st_callback := false |} |}.
Example C07_budget_example :
  (exists st', run 100 (env_lim 10) prog_while "x=1; while x<3 {x=x+1}; x" st0 = Err EBudget st' /\ vs_ops st' = 11) /\
  snd (exec_count 100 (env_lim 10)
         {| m_fr := new_frame prog_while (Some "x=1; while x<3 {x=x+1}; x"%string);
            m_w := {| w_heap := vs_heap st0; w_pcg := vs_pcg st0; w_st := [];
                      w_chain := [{| c_attrs := vs_attrs st0; c_ops := 0 |}] |} |}) = 10%nat.
Proof. split; [eexists; split; vm_compute; reflexivity|vm_compute; reflexivity]. Qed.

(* the statement asked for under one name: both kinds of exploding rounds *)
Theorem C07_wod_dc_rounds_charged : forall c L, cfg_op_limit c = L -> 0 < L < MaxInt64 ->
  forall n ops pool s, 0 <= ops <= MaxInt64 -> 0 <= pool ->
  (forall addLine points threshold isGE mode succ,
     let rk := wod_budget_cnt n c addLine points threshold isGE mode pool succ ops s in
     fst rk = wod_budget n c addLine points threshold isGE mode pool succ ops s /\ rounds_charged L ops (fst rk) (snd rk)) /\
  (forall addLine points mode result,
     let rk := dc_budget_cnt n c addLine points mode pool result ops s in
     fst rk = dc_budget n c addLine points mode pool result ops s /\ rounds_charged L ops (fst rk) (snd rk)).
Proof.
  intros c L HL HLr n ops pool s Hops Hpool. split; intros; cbv zeta; split.
  - apply wod_budget_cnt_fst.
  - pose proof (C07_wod_rounds_charged c L addLine points threshold isGE mode HL HLr n pool succ ops s Hops Hpool) as H.
    destruct (wod_budget_cnt _ _ _ _ _ _ _ _ _ _ _). exact H.
  - apply dc_budget_cnt_fst.
  - pose proof (C07_dc_rounds_charged c L addLine points mode HL HLr n pool result ops s Hops Hpool) as H.
    destruct (dc_budget_cnt _ _ _ _ _ _ _ _ _). exact H.
Qed.

(* edge of the +100 charge: with a limit within 100 of MaxInt64 the int64 addition wraps and the limit test
   of the call passes on a NEGATIVE counter (so "never lowered" needs L <= MaxInt64 - 100); the run still
   fails closed, because numOpCountAdd's own overflow test `MaxInt64 - ops < count` overflows for a negative
   counter and saturates it: the callee's first dispatch reports the budget error *)
Definition ftab_one : ftab :=
  [ {| f_computed := false; f_name := "f"; f_params := []; f_expr := "return 1";
       f_code := Some [I OpPushInt (OInt 1); I OpRet ONil] |} ].
Example C07_call_charge_wraps_near_MaxInt64 :
  let E := {| e_ftab := ftab_one; e_cfg := e_cfg (env_lim (MaxInt64 - 50)) |} in
  let w := {| w_heap := vs_heap st0; w_pcg := vs_pcg st0; w_st := [];
              w_chain := [{| c_attrs := vs_attrs st0; c_ops := MaxInt64 - 60 |}] |} in
  match func_invoke (exec 10 E) E 0 [] w with
  | RFail EBudget w' => ops_of w' = MaxInt64      (* the callee's saturated counter is charged to the caller *)
  | _ => False
  end.
Proof. vm_compute. reflexivity. Qed.

Print Assumptions C07_ops_add_spec.
Print Assumptions C07_dispatch_counts.
Print Assumptions C07_budget_error_once_exceeded.
Print Assumptions C07_dice_batch_charged_before_rolling.
Print Assumptions C07_coc_batch_charged_before_rolling.
Print Assumptions C07_wod_dc_rounds_charged.
Print Assumptions C07_wod_dc_rounds_charged_step.
Print Assumptions C07_run_dispatch_bound.
Print Assumptions C07_computed_costs_100.

(* ================================================================== C01, strengthened: value provenance *)
(* No instruction creates the bound method Computed.compute (attr.get on a computed value reads only its
   attribute map), so a state that holds none never holds one: the "nil Self" site is unreachable from
   such a state, whatever the code. *)
Definition vgood (v : value) : Prop :=
  match v with VNative n _ => String.eqb n "Computed.compute" = false | _ => True end.
Definition lgood (l : list value) : Prop := Forall vgood l.
Definition mgood (m : vmap) : Prop := Forall (fun kv => vgood (snd kv)) m.
Definition heap_good (h : heap) : Prop :=
  Forall (fun p => lgood (snd p)) (h_arrs h) /\ Forall (fun p => mgood (snd p)) (h_maps h).

Lemma aget_Forall : forall A (P : A -> Prop) k m x, Forall (fun p => P (snd p)) m -> aget k m = Some x -> P x.
Proof.
  induction m as [|[k' v] m IH]; intros x H; cbn [aget]; [discriminate|]. inversion H; subst.
  destruct (k =? k')%N; [intros [= <-]; assumption|auto].
Qed.
Lemma aset_Forall : forall A (P : A -> Prop) k x m, Forall (fun p => P (snd p)) m -> P x -> Forall (fun p => P (snd p)) (aset k x m).
Proof.
  induction m as [|[k' v] m IH]; intros H Hx; cbn [aset]; [repeat constructor; assumption|]. inversion H; subst.
  destruct (k =? k')%N; constructor; auto.
Qed.

Lemma get_arr_good : forall id h, heap_good h -> lgood (get_arr id h).
Proof. unfold get_arr; intros id h [H _]. destruct (aget id (h_arrs h)) eqn:E; [exact (aget_Forall _ _ _ _ _ H E)|constructor]. Qed.
Lemma get_map_good : forall id h, heap_good h -> mgood (get_map id h).
Proof. unfold get_map; intros id h [_ H]. destruct (aget id (h_maps h)) eqn:E; [exact (aget_Forall _ _ _ _ _ H E)|constructor]. Qed.
Lemma cattrs_get_good : forall cid h, heap_good h -> mgood (cattrs_get cid h).
Proof. unfold cattrs_get; intros. destruct (aget cid (h_cattrs h)); [apply get_map_good; assumption|constructor]. Qed.

Lemma mget_good : forall k m v, mgood m -> mget k m = Some v -> vgood v.
Proof.
  induction m as [|[k' x] m IH]; intros v H; cbn [mget]; [discriminate|]. inversion H; subst.
  destruct (String.eqb k k'); [intros [= <-]; assumption|auto].
Qed.
Lemma mget_or_null_good : forall k m, mgood m -> vgood (match mget k m with Some v => v | None => VNull end).
Proof. intros k m H. destruct (mget k m) eqn:E; [exact (mget_good _ _ _ H E)|exact Logic.I]. Qed.
Lemma mset_good : forall k v m, mgood m -> vgood v -> mgood (mset k v m).
Proof.
  induction m as [|[k' x] m IH]; intros H Hv; cbn [mset]; [repeat constructor; assumption|]. inversion H; subst.
  destruct (String.eqb k k'); constructor; auto. apply IH; assumption.
Qed.

Lemma alloc_arr_good : forall l h, heap_good h -> lgood l -> heap_good (snd (alloc_arr l h)).
Proof. unfold alloc_arr, heap_good; intros l h [H1 H2] Hl; cbn. split; [constructor; assumption|assumption]. Qed.
Lemma alloc_map_good : forall m h, heap_good h -> mgood m -> heap_good (snd (alloc_map m h)).
Proof. unfold alloc_map, heap_good; intros m h [H1 H2] Hl; cbn. split; [assumption|constructor; assumption]. Qed.
Lemma set_arr_good : forall id l h, heap_good h -> lgood l -> heap_good (set_arr id l h).
Proof. unfold set_arr, heap_good; intros id l h [H1 H2] Hl; cbn. split; [apply aset_Forall; assumption|assumption]. Qed.
Lemma set_map_good : forall id m h, heap_good h -> mgood m -> heap_good (set_map id m h).
Proof. unfold set_map, heap_good; intros id m h [H1 H2] Hl; cbn. split; [assumption|apply aset_Forall; assumption]. Qed.
Lemma cattrs_force_good : forall cid h, heap_good h -> heap_good (snd (cattrs_force cid h)).
Proof.
  unfold cattrs_force; intros cid h H. destruct (aget cid (h_cattrs h)); [exact H|].
  unfold alloc_map, heap_good in *. cbn. destruct H as [H1 H2]. split; [assumption|]. constructor; [constructor|assumption].
Qed.

(* lists *)
Lemma lgood_firstn : forall n l, lgood l -> lgood (firstn n l).
Proof. induction n; intros l H; cbn; [constructor|]. destruct l; [constructor|]. inversion H; subst. constructor; auto. apply IHn; assumption. Qed.
Lemma lgood_skipn : forall n l, lgood l -> lgood (skipn n l).
Proof. induction n; intros l H; cbn; [assumption|]. destruct l; [constructor|]. inversion H; subst. apply IHn; assumption. Qed.
Lemma lgood_slice : forall l a b, lgood l -> lgood (slice l a b).
Proof. intros; unfold slice. apply lgood_firstn, lgood_skipn; assumption. Qed.
Lemma lgood_app : forall l1 l2, lgood l1 -> lgood l2 -> lgood (l1 ++ l2).
Proof. intros; apply Forall_app; split; assumption. Qed.
Lemma lgood_rev : forall l, lgood l -> lgood (rev l).
Proof. intros; apply Forall_rev; assumption. Qed.
Lemma lgood_repeat : forall n l, lgood l -> lgood (repeat_list l n).
Proof. induction n; intros; cbn; [constructor|apply lgood_app; auto]. Qed.
Lemma lgood_nth : forall n l d, lgood l -> vgood d -> vgood (nth n l d).
Proof. induction n; intros l d H Hd; destruct l; cbn; auto; inversion H; subst; auto. Qed.
Lemma lgood_list_set : forall l i x, lgood l -> vgood x -> lgood (list_set l i x).
Proof. induction l; intros i x H Hx; cbn; [constructor|]. inversion H; subst. destruct i; constructor; auto. apply IHl; assumption. Qed.
Lemma lgood_swap : forall l i j, lgood l -> lgood (swap l i j).
Proof. intros; unfold swap. repeat apply lgood_list_set; auto; apply lgood_nth; auto; exact Logic.I. Qed.
Lemma lgood_set_slice : forall l l2 a b, lgood l -> lgood l2 -> lgood (set_slice l l2 a b).
Proof. intros; unfold set_slice. destruct (slice_bounds _ _ _). repeat apply lgood_app; auto using lgood_firstn, lgood_skipn. Qed.
Lemma lgood_removelast : forall l, lgood l -> lgood (removelast l).
Proof. induction l; intros H; [constructor|]. inversion H; subst. cbn [removelast]. destruct l; [constructor|]. constructor; [assumption|apply IHl; assumption]. Qed.
Lemma lgood_last : forall l d, lgood l -> vgood d -> vgood (last l d).
Proof. induction l; intros d H Hd; cbn; auto. inversion H; subst. destruct l; auto. Qed.
Lemma dict_of_good : forall l m m', lgood l -> mgood m -> dict_of l m = Some m' -> mgood m'.
Proof.
  fix IH 1. intros l m m' Hl Hm. destruct l as [|k [|v r]]; cbn [dict_of]; try (intros [= <-]; assumption).
  destruct (as_dict_key k); [|discriminate]. inversion Hl as [|? ? _ Hl1]; subst. inversion Hl1; subst.
  apply IH; [assumption|apply mset_good; assumption].
Qed.
Lemma bind_params_good : forall ps args m, lgood args -> mgood m -> mgood (bind_params ps args m).
Proof.
  induction ps; intros args m Ha Hm; cbn; [assumption|]. destruct args; [assumption|]. inversion Ha; subst.
  apply IHps; [assumption|apply mset_good; assumption].
Qed.

Lemma lgood_znth : forall l i d, lgood l -> vgood d -> vgood (znth l i d).
Proof. intros; unfold znth; apply lgood_nth; assumption. Qed.
Lemma mgood_hd : forall k x m, mgood ((k, x) :: m) -> vgood x.
Proof. intros k x m H; inversion H; assumption. Qed.
Lemma lgood_hd : forall x l, lgood (x :: l) -> vgood x.
Proof. intros x l H; inversion H; assumption. Qed.
Lemma lgood_tl : forall x l, lgood (x :: l) -> lgood l.
Proof. intros x l H; inversion H; assumption. Qed.
Lemma lgood_nil : lgood [].
Proof. constructor. Qed.
Lemma lgood_cons : forall x l, vgood x -> lgood l -> lgood (x :: l).
Proof. intros; constructor; assumption. Qed.
Lemma mgood_nil : mgood [].
Proof. constructor. Qed.

Definition wg (w : world) : Prop := heap_good (w_heap w).
Lemma wg_set_heap : forall w h, heap_good h -> wg (w_set_heap w h).
Proof. intros; exact H. Qed.
Lemma wg_heap : forall w, wg w -> heap_good (w_heap w).
Proof. intros; assumption. Qed.
Lemma wg_set_pcg : forall w s, wg w -> wg (w_set_pcg w s).
Proof. intros; assumption. Qed.
Lemma wg_set_chain : forall w c, wg w -> wg (w_set_chain w c).
Proof. intros; assumption. Qed.
Lemma wg_set_self_ops : forall w x, wg w -> wg (w_set_self_ops w x).
Proof. intros w x H; unfold w_set_self_ops. destruct (w_chain w); assumption. Qed.
Lemma wg_st_log : forall w a b c d e f, wg w -> wg (st_log w a b c d e f).
Proof. intros; assumption. Qed.
Lemma wg_store_name : forall n v w, wg w -> vgood v -> wg (store_name n v w).
Proof.
  intros n v w H Hv; unfold store_name, wg; cbn [w_heap w_set_heap].
  apply set_map_good; [exact H|]. apply mset_good; [apply get_map_good; exact H|exact Hv].
Qed.

Lemma vgood_vint : forall z, vgood (VInt z). Proof. intros; exact Logic.I. Qed.
Lemma vgood_vstr : forall z, vgood (VStr z). Proof. intros; exact Logic.I. Qed.
Lemma vgood_vnull : vgood VNull. Proof. exact Logic.I. Qed.
Lemma vgood_varr : forall z, vgood (VArr z). Proof. intros; exact Logic.I. Qed.
Lemma vgood_vdict : forall z, vgood (VDict z). Proof. intros; exact Logic.I. Qed.
Lemma vgood_vbool : forall b, vgood (vbool b). Proof. intros; exact Logic.I. Qed.

Lemma load_global_good : forall name, vgood (load_global name).
Proof.
  intros name. unfold load_global. destruct (mem_s name builtin_names) eqn:H; [|exact Logic.I].
  unfold vgood. destruct (String.eqb name "Computed.compute") eqn:He; [|reflexivity].
  apply String.eqb_eq in He. subst name. vm_compute in H. discriminate.
Qed.

Lemma attr_fallback_good : forall v name x, (forall c, v <> VComp c) -> attr_fallback v name = Some x -> vgood x.
Proof.
  intros v name x Hv. unfold attr_fallback, proto_method.
  destruct v; try (destruct (mem_s name _)); try (intros [= <-]; exact Logic.I); try discriminate.
  - exfalso; exact (Hv cid eq_refl).
  - intros [= <-]. reflexivity.
  - intros [= <-]. reflexivity.
Qed.

Lemma native_sig_good : forall name, lgood (snd (native_sig name)).
Proof. intros; unfold native_sig. repeat destruct (_ : bool); cbn; repeat constructor. Qed.

Lemma range_loop_good : forall n i step b idx len acc l, lgood acc -> range_loop n i step b idx len acc = Some l -> lgood l.
Proof.
  induction n; intros i step b idx len acc l Ha; cbn [range_loop]; destruct (len <=? idx); try discriminate;
    destruct (i =? b); try discriminate.
  - intros [= <-]. apply (lgood_rev (VInt i :: acc)). constructor; [exact Logic.I|assumption].
  - intros [= <-]. apply (lgood_rev (VInt i :: acc)). constructor; [exact Logic.I|assumption].
  - apply IHn. constructor; [exact Logic.I|assumption].
Qed.

Lemma wg_charged : forall E w n, wg w -> wg (charged E w n).
Proof. intros; unfold charged. apply wg_set_self_ops; assumption. Qed.

Create HintDb good.
#[export] Hint Resolve wg_charged : good.
#[export] Hint Resolve get_arr_good get_map_good cattrs_get_good mget_or_null_good mset_good alloc_arr_good alloc_map_good
  set_arr_good set_map_good cattrs_force_good lgood_firstn lgood_skipn lgood_slice lgood_app lgood_rev lgood_repeat lgood_nth
  lgood_list_set lgood_swap lgood_set_slice lgood_removelast lgood_last bind_params_good lgood_znth lgood_nil lgood_cons mgood_nil
  wg_set_heap wg_heap wg_set_pcg wg_set_chain wg_set_self_ops wg_st_log wg_store_name vgood_vint vgood_vstr vgood_vnull vgood_varr
  vgood_vdict vgood_vbool load_global_good : good.
#[export] Hint Immediate mgood_hd lgood_hd lgood_tl : good.

Definition frame_good (fr : frame) : Prop :=
  lgood (fr_live fr) /\ lgood (fr_dead fr) /\ match fr_last fr with LVal v => vgood v | _ => True end.
Definition G (m : machine) : Prop := frame_good (m_fr m) /\ wg (m_w m).

Definition rg {A} (P : A -> Prop) (r : R A) : Prop :=
  match r with ROk a w => P a /\ wg w | RPanic s => s <> nilself_msg | _ => True end.
Definition tt_ok {A} : A -> Prop := fun _ => True.
Definition ovgood (o : option value) : Prop := match o with Some x => vgood x | None => True end.

Lemma new_frame_good : forall c s, frame_good (new_frame c s).
Proof. intros; unfold frame_good, new_frame; cbn. repeat split; constructor. Qed.

Section Good.
  Variable call : machine -> result.
  Variable rfuel : nat.
  Variable E : env.
  Hypothesis Hcall : forall m, G m -> match call m with Fin m' => G m' | Panic s => s <> nilself_msg | _ => True end.

  Lemma rg_rbind : forall A B (P : A -> Prop) (Q : B -> Prop) (r : R A) (k : A -> world -> R B),
    rg P r -> (forall a w, P a -> wg w -> rg Q (k a w)) -> rg Q (rbind r k).
  Proof. intros A B P Q r k H1 H2. destruct r; cbn in *; auto. destruct H1; auto. Qed.

  Ltac leaf :=
    match goal with
    | |- rg _ (ROk _ _) => split; [try exact Logic.I; cbn beta; eauto 7 with good | eauto 7 with good]
    | |- rg _ (RPanic _) => let X := fresh in intro X; discriminate X
    end.

  Ltac rg_tac :=
    repeat first
      [ exact Logic.I
      | leaf
      | progress cbv zeta
      | match goal with
        | |- rg _ (if ?b then _ else _) => destruct b
        | |- rg _ (match ?x with _ => _ end) => destruct x
        end ].

  Lemma ret_good : forall m', G m' -> vgood (match fr_live (m_fr m') with v :: _ => v | [] => VNull end).
  Proof. intros m' [[H _] _]. destruct (fr_live (m_fr m')); [exact Logic.I|inversion H; assumption]. Qed.

  Lemma computed_execute_g : forall cid k w, wg w -> rg vgood (computed_execute call E cid k w).
  Proof.
    intros cid k w Hw. unfold computed_execute.
    destruct (nth_error (w_chain w) k); [|exact Logic.I].
    pose proof (cattrs_force_good cid (w_heap w) Hw) as Hh.
    destruct (cattrs_force cid (w_heap w)) as [mapid h1]. cbn [snd] in Hh.
    destruct (limit_hit E _); [exact Logic.I|].
    destruct (f_lookup (e_ftab E) cid) as [d|]; [|exact Logic.I].
    destruct (f_code d) as [body|]; [|exact Logic.I].
    match goal with |- rg _ (match call ?sub with _ => _ end) =>
      pose proof (Hcall sub) as Hs; destruct (call sub) as [m'| | | |] end; try exact Logic.I.
    - assert (Gm : G m') by (apply Hs; split; [apply new_frame_good|exact Hh]).
      destruct (w_chain (m_w m')) as [|s' [|t' rest']]; try exact Logic.I.
      split; [apply ret_good; exact Gm|apply Gm].
    - destruct (w_chain (m_w m)) as [|s' [|t' rest']]; exact Logic.I.
    - apply Hs. split; [apply new_frame_good|exact Hh].
  Qed.

  Lemma func_invoke_g : forall fid args w, wg w -> lgood args -> rg vgood (func_invoke call E fid args w).
  Proof.
    intros fid args w Hw Ha. unfold func_invoke.
    destruct (f_lookup (e_ftab E) fid) as [d|]; [|exact Logic.I].
    destruct (w_chain w) as [|self ups]; [exact Logic.I|].
    destruct (negb _); [exact Logic.I|].
    pose proof (alloc_map_good (bind_params (f_params d) args []) (w_heap w) Hw
                  (bind_params_good _ _ _ Ha mgood_nil)) as Hh.
    destruct (alloc_map _ _) as [mapid h1]. cbn [snd] in Hh.
    destruct (limit_hit E _); [exact Logic.I|].
    destruct (f_code d) as [body|]; [|exact Logic.I].
    match goal with |- rg _ (match call ?sub with _ => _ end) =>
      pose proof (Hcall sub) as Hs; destruct (call sub) as [m'| | | |] end; try exact Logic.I.
    - assert (Gm : G m') by (apply Hs; split; [apply new_frame_good|exact Hh]).
      destruct (w_chain (m_w m')) as [|s' [|t' rest']]; try exact Logic.I.
      split; [apply ret_good; exact Gm|apply Gm].
    - destruct (w_chain (m_w m)) as [|s' [|t' rest']]; exact Logic.I.
    - apply Hs. split; [apply new_frame_good|exact Hh].
  Qed.

  (* carrying the operation counter between contexts does not touch the heap *)
  Lemma heap_set_ops_at : forall k ops w, w_heap (set_ops_at k ops w) = w_heap w.
  Proof. intros; unfold set_ops_at. destruct (nth_error _ _); reflexivity. Qed.
  Lemma wg_sync_to : forall k w, wg w -> wg (sync_to k w).
  Proof.
    intros k w H. destruct k; [exact H|]. unfold sync_to. destruct (_ <? _); [|exact H].
    unfold wg. rewrite heap_set_ops_at. exact H.
  Qed.
  Lemma wg_sync_back : forall k w, wg w -> wg (sync_back k w).
  Proof.
    intros k w H. destruct k; [exact H|]. unfold sync_back. cbv zeta. destruct (_ <? _); [|exact H].
    unfold wg. rewrite heap_set_ops_at. exact H.
  Qed.
  Lemma rg_rmapw : forall A (P : A -> Prop) (f : world -> world) (r : R A),
    (forall w, wg w -> wg (f w)) -> rg P r -> rg P (rmapw f r).
  Proof. intros A P f r Hf H. destruct r; cbn in *; auto. destruct H; auto. Qed.

  Lemma load_walk_g : forall n k name isRaw w, wg w -> rg vgood (load_walk call E n k name isRaw w).
  Proof.
    induction n; intros k name isRaw w Hw; cbn [load_walk]; [split; [apply load_global_good|exact Hw]|].
    destruct (nth_error (w_chain w) k); [|split; [apply load_global_good|exact Hw]]. cbv zeta.
    pose proof (wg_sync_to k w Hw) as Hw0.
    eapply rg_rbind with (P := vgood).
    - apply rg_rmapw; [intros; apply wg_sync_back; assumption|].
      pose proof (mget_or_null_good name _ (get_map_good (c_attrs c) _ Hw)) as Hv.
      destruct (match mget name _ with Some v => v | None => VNull end); try (split; [exact Hv|exact Hw0]).
      destruct isRaw; [split; [exact Hv|exact Hw0]|apply computed_execute_g; exact Hw0].
    - intros v w' Hv Hw'. destruct v; try (split; [exact Hv|exact Hw']). apply IHn; exact Hw'.
  Qed.
  Lemma load_name_g : forall name isRaw w, wg w -> rg vgood (load_name call E name isRaw w).
  Proof. intros; apply load_walk_g; assumption. Qed.
  Lemma load_local_g : forall name w, wg w -> rg vgood (load_local call E name w).
  Proof.
    intros name w Hw. unfold load_local.
    pose proof (mget_or_null_good name _ (get_map_good (c_attrs (w_self w)) _ Hw)) as Hv.
    destruct (match mget name _ with Some v => v | None => VNull end); try (split; [exact Hv|exact Hw]).
    apply computed_execute_g; exact Hw.
  Qed.

  Lemma new_arr_g : forall l w, wg w -> lgood l -> rg vgood (new_arr l w).
  Proof.
    intros l w Hw Hl; unfold new_arr. pose proof (alloc_arr_good l _ Hw Hl) as Hh.
    destruct (alloc_arr _ _). split; [exact Logic.I|exact Hh].
  Qed.
  Lemma str_of_g : forall E' b v w, wg w -> rg tt_ok (str_of E' b v w).
  Proof. intros E' b v w Hw; unfold str_of. destruct (if b then _ else _); [split; [exact Logic.I|exact Hw]|exact Logic.I]. Qed.
  Lemma roll1_g : forall n w, wg w -> rg tt_ok (roll1 n w).
  Proof. intros n w Hw; unfold roll1. destruct (roll _ _ _ _ _) as [[r s]|]; [split; [exact Logic.I|exact Hw]|exact Logic.I]. Qed.
  Lemma shuffle_loop_g : forall i l w, wg w -> lgood l -> rg lgood (shuffle_loop i l w).
  Proof.
    induction i; intros l w Hw Hl; cbn [shuffle_loop]; [split; assumption|].
    eapply rg_rbind; [apply roll1_g; exact Hw|]. intros r w' _ Hw'. apply IHi; [exact Hw'|apply lgood_swap; exact Hl].
  Qed.
  Lemma shuffle_g : forall l w, wg w -> lgood l -> rg lgood (shuffle l w).
  Proof. intros; apply shuffle_loop_g; assumption. Qed.

  Lemma array_repeat_g : forall id t w, wg w -> rg vgood (array_repeat id t w).
  Proof.
    intros id t w Hw; unfold array_repeat. destruct t; try exact Logic.I. cbv zeta.
    destruct (z <? 0); [exact Logic.I|]. destruct (_ || _); [exact Logic.I|].
    apply new_arr_g; [exact Hw|]. destruct (get_arr id (w_heap w)) eqn:He; [constructor|]. rewrite <- He. auto with good.
  Qed.

  Lemma attr_get_g : forall v name w, wg w -> rg ovgood (attr_get call E v name w).
  Proof.
    intros v name w Hw. unfold attr_get.
    assert (Hfb : forall v0, (forall c, v0 <> VComp c) -> rg ovgood (ROk (attr_fallback v0 name) w)).
    { intros v0 Hv0. split; [|exact Hw]. destruct (attr_fallback v0 name) eqn:Hf; [|exact Logic.I].
      exact (attr_fallback_good _ _ _ Hv0 Hf). }
    destruct v; try (apply Hfb; intros; discriminate).
    - split; [|exact Hw]. apply (mget_or_null_good name). apply cattrs_get_good; exact Hw.
    - destruct (mget name (get_map id (w_heap w))) eqn:Hm.
      + split; [|exact Hw]. exact (mget_good _ _ _ (get_map_good _ _ Hw) Hm).
      + destruct (proto_walk 64 id name (w_heap w)) eqn:Hp; [|apply Hfb; intros; discriminate].
        split; [|exact Hw]. revert Hp. generalize 64%nat id.
        induction n; intros cur; cbn [proto_walk]; [discriminate|].
        destruct (mget "__proto__" (get_map cur (w_heap w))) as [[]|]; try discriminate.
        destruct (mget name (get_map id0 (w_heap w))) eqn:Hm2; [|apply IHn].
        intros [= <-]. exact (mget_good _ _ _ (get_map_good _ _ Hw) Hm2).
    - eapply rg_rbind; [apply load_local_g; exact Hw|]. intros x w' Hx Hw'. split; assumption.
  Qed.

  Lemma attr_set_g : forall v name x w, wg w -> vgood x -> rg tt_ok (attr_set v name x w).
  Proof.
    intros v name x w Hw Hx; unfold attr_set. destruct v; try exact Logic.I.
    - pose proof (cattrs_force_good cid _ Hw) as Hh. destruct (cattrs_force cid (w_heap w)) as [id h1]. cbn [snd] in Hh.
      split; [exact Logic.I|]. auto 6 with good.
    - split; [exact Logic.I|]. auto 6 with good.
  Qed.
  Lemma item_get_g : forall a b w, wg w -> rg vgood (item_get a b w).
  Proof. intros a b w Hw; unfold item_get. rg_tac. Qed.
  Lemma item_set_g : forall a b x w, wg w -> vgood x -> rg tt_ok (item_set a b x w).
  Proof. intros a b x w Hw Hx; unfold item_set. rg_tac. Qed.
  Lemma slice_get_g : forall o a b w, wg w -> rg vgood (slice_get o a b w).
  Proof. intros o a b w Hw; unfold slice_get. rg_tac; apply new_arr_g; auto with good. Qed.
  Lemma slice_set_g : forall o a b x w, wg w -> rg tt_ok (slice_set o a b x w).
  Proof. intros o a b x w Hw; unfold slice_set. rg_tac. Qed.

  Lemma bin_op_g : forall op v1 v2 w, wg w -> vgood v1 -> vgood v2 -> rg vgood (bin_op rfuel E op v1 v2 w).
  Proof.
    intros op v1 v2 w Hw H1 H2. unfold bin_op.
    destruct op; try exact Logic.I; destruct v1; try exact Logic.I; destruct v2; try exact Logic.I;
      rg_tac; try (apply new_arr_g; auto with good); try (apply array_repeat_g; exact Hw).
  Qed.

  Lemma push_range_g : forall a b w, wg w -> rg vgood (push_range a b w).
  Proof.
    intros a b w Hw; unfold push_range. destruct a; try exact Logic.I; destruct b; try exact Logic.I.
    destruct (if z <=? z0 then _ else _) as [step len]. destruct (_ || _); [exact Logic.I|]. cbv zeta.
    destruct (512 <? _); [exact Logic.I|].
    destruct (range_loop _ _ _ _ _ _ _) eqn:Hr; [|intro X; discriminate X].
    apply new_arr_g; [exact Hw|]. exact (range_loop_good _ _ _ _ _ _ _ _ lgood_nil Hr).
  Qed.

  Lemma native_call_g : forall name self args w, wg w -> lgood args -> String.eqb name "Computed.compute" = false ->
    rg vgood (native_call call E name self args w).
  Proof.
    intros name self args w Hw Ha Hn. unfold native_call.
    pose proof (native_sig_good name) as Hd. destruct (native_sig name) as [np defaults]. cbn [snd] in Hd. cbv zeta.
    set (args' := (args ++ skipn (length args) defaults)%list).
    assert (Ha' : lgood args') by (apply lgood_app; [exact Ha|apply lgood_skipn; exact Hd]). clearbody args'.
    rewrite Hn.
    set (sa := match self with SArr id => id | _ => 0%N end).
    set (sd := match self with SDict id => id | _ => 0%N end).
    set (l := get_arr sa (w_heap w)). assert (Hl : lgood l) by (apply get_arr_good; exact Hw). clearbody l.
    set (mp := get_map sd (w_heap w)). assert (Hmp : mgood mp) by (apply get_map_good; exact Hw). clearbody mp.
    assert (H0 : vgood (nth 0 args' VNull)) by (apply lgood_nth; [exact Ha'|exact Logic.I]).
    assert (H1 : vgood (nth 1 args' VNull)) by (apply lgood_nth; [exact Ha'|exact Logic.I]).
    repeat match goal with
    | |- rg _ (if ?b then _ else _) => destruct b
    end;
    try exact Logic.I;
    repeat match goal with
    | |- rg _ (load_name _ _ _ _ _) => apply load_name_g; assumption
    | |- rg _ (computed_execute _ _ _ _ _) => apply computed_execute_g; assumption
    | |- rg _ (new_arr _ _) => apply new_arr_g; [assumption|eauto 7 with good]
    | |- rg _ (rbind (str_of _ _ _ _) _) => eapply rg_rbind; [apply str_of_g; assumption|intros]
    | |- rg _ (rbind (shuffle _ _) _) => eapply rg_rbind; [apply shuffle_g; assumption|intros]
    | |- rg _ (rbind (roll1 _ _) _) => eapply rg_rbind; [apply roll1_g; assumption|intros]
    | |- rg _ (rbind (new_arr _ _) _) => eapply rg_rbind; [apply new_arr_g; [assumption|eauto 7 with good]|intros]
    | |- rg _ (ROk _ _) => split; [try exact Logic.I; eauto 7 with good | eauto 7 with good]
    | |- rg _ (RPanic _) => let X := fresh in intro X; discriminate X
    | |- rg _ (if ?b then _ else _) => destruct b
    | |- rg _ (match ?x with _ => _ end) => destruct x
    | |- _ => exact Logic.I
    end;
    match goal with |- vgood (if ?b then _ else _) => destruct b; exact Logic.I end.
  Qed.

  (* ---- frames *)
  Lemma err_invalid_good : forall fr, frame_good fr -> frame_good (err_invalid fr).
  Proof. intros fr H; unfold err_invalid. destruct (fr_err fr); exact H. Qed.
  Lemma last_detail_good : forall fr, frame_good fr -> frame_good (last_detail fr).
  Proof. intros fr H; unfold last_detail. destruct (fr_details fr); exact H. Qed.

  Lemma pop_good : forall fr v fr1, frame_good fr -> pop fr = (v, fr1) -> vgood v /\ frame_good fr1.
  Proof.
    unfold pop; intros fr v fr1 H. destruct (fr_live fr) eqn:Hl.
    - intros [= <- <-]. split; [exact Logic.I|].
      unfold frame_good in *. cbn [fr_set_stack fr_live fr_dead fr_last]. split; [apply lgood_nil|split; [apply H|exact Logic.I]].
    - intros [= <- <-]. unfold frame_good in *. rewrite Hl in H. destruct H as (H1 & H2 & H3). inversion H1; subst.
      cbn [fr_set_stack fr_live fr_dead fr_last]. repeat split; auto. constructor; assumption.
  Qed.
  Lemma pop_n_aux_good : forall n fr acc l fr1, frame_good fr -> lgood acc -> pop_n_aux n fr acc = (l, fr1) ->
    lgood l /\ frame_good fr1.
  Proof.
    induction n; intros fr acc l fr1 H Ha; cbn [pop_n_aux]; [intros [= <- <-]; auto|].
    destruct (pop fr) as [v fr0] eqn:Hp. destruct (pop_good _ _ _ H Hp) as [Hv H0]. apply IHn; [exact H0|constructor; assumption].
  Qed.
  Lemma pop_n_good : forall n fr l fr1, frame_good fr -> pop_n n fr = (l, fr1) -> lgood l /\ frame_good fr1.
  Proof.
    unfold pop_n; intros n fr l fr1 H. destruct (n <=? 0); [intros [= <- <-]; split; [constructor|exact H]|].
    destruct (pop_n_aux _ _ _) as [l1 fr0] eqn:Hp. destruct (pop_n_aux_good _ _ _ _ _ H lgood_nil Hp) as [Hl H0].
    intros [= <- <-]. split; [exact Hl|]. unfold frame_good in *. cbn [fr_set_stack fr_live fr_dead fr_last].
    destruct H0 as (A & B & C). repeat split; auto. destruct l1; [exact C|inversion Hl; assumption].
  Qed.
  Lemma push_good : forall v fr fr1, vgood v -> frame_good fr -> push v fr = Some fr1 -> frame_good fr1.
  Proof.
    unfold push; intros v fr fr1 Hv H. destruct (_ <=? _); [discriminate|]. intros [= <-].
    unfold frame_good in *. cbn [fr_set_stack fr_live fr_dead fr_last]. destruct H as (A & B & C). repeat split; auto.
    - constructor; assumption.
    - destruct (fr_dead fr); [constructor|inversion B; assumption].
  Qed.
  Lemma lower_top_good : forall n live dead l d, lgood live -> lgood dead -> lower_top n live dead = (l, d) -> lgood l /\ lgood d.
  Proof.
    induction n; intros live dead l d H1 H2; cbn [lower_top]; [intros [= <- <-]; auto|].
    destruct live; [intros [= <- <-]; auto|]. inversion H1; subst. apply IHn; [assumption|constructor; assumption].
  Qed.
  Lemma raise_top_good : forall n live dead l d, lgood live -> lgood dead -> raise_top n live dead = Some (l, d) -> lgood l /\ lgood d.
  Proof.
    induction n; intros live dead l d H1 H2; cbn [raise_top]; [intros [= <- <-]; auto|].
    destruct dead; [discriminate|]. inversion H2; subst. apply IHn; [constructor; assumption|assumption].
  Qed.
  Lemma set_top_good : forall fr t fr1, frame_good fr -> set_top fr t = Some fr1 -> frame_good fr1.
  Proof.
    unfold set_top; intros fr t fr1 (A & B & C). destruct (t <=? fr_top fr).
    - destruct (lower_top _ _ _) as [l d] eqn:Hl. destruct (lower_top_good _ _ _ _ _ A B Hl). intros [= <-].
      unfold frame_good; cbn [fr_set_stack fr_live fr_dead fr_last]. auto.
    - destruct (raise_top _ _ _) as [[l d]|] eqn:Hl; [|discriminate]. destruct (raise_top_good _ _ _ _ _ A B Hl). intros [= <-].
      unfold frame_good; cbn [fr_set_stack fr_live fr_dead fr_last]. auto.
  Qed.
  Lemma nth_error_good : forall l n v, lgood l -> nth_error l n = Some v -> vgood v.
  Proof. intros l n v H Hn. unfold lgood in H. rewrite Forall_forall in H. apply H. eapply nth_error_In; eauto. Qed.
  Lemma read_slot_good : forall fr i v, frame_good fr -> read_slot fr i = Some v -> vgood v.
  Proof.
    unfold read_slot; intros fr i v (A & B & C). destruct (i <? 0); [discriminate|].
    destruct (i <? fr_top fr); apply nth_error_good; assumption.
  Qed.
  Lemma last_good : forall fr v, frame_good fr -> fr_last fr = LVal v -> vgood v.
  Proof. intros fr v (A & B & C) H. rewrite H in C. exact C. Qed.
  Lemma live_hd_good : forall fr v l, frame_good fr -> fr_live fr = v :: l -> vgood v.
  Proof. intros fr v l (A & B & C) H. rewrite H in A. inversion A; assumption. Qed.

  (* ---- one instruction *)
  Definition Q3 (r : sresult) : Prop :=
    match r with SNext m | SStop m => G m | SPanic s => s <> nilself_msg | _ => True end.
  Definition step_good (op : opcode) : Prop := forall o m, G m -> Q3 (step call rfuel E (I op o) m).

  Lemma Q3_next : forall fr w, frame_good fr -> wg w -> Q3 (SNext (mk fr w)).
  Proof. intros; split; assumption. Qed.
  Lemma Q3_do_push : forall v fr w, vgood v -> frame_good fr -> wg w -> Q3 (do_push v fr w).
  Proof.
    intros v fr w Hv Hf Hw. unfold do_push. destruct (push v fr) as [fr1|] eqn:Hp; [|intro X; discriminate X].
    split; [exact (push_good _ _ _ Hv Hf Hp)|exact Hw].
  Qed.
  Lemma Q3_dice_result : forall z fr w, frame_good fr -> wg w -> Q3 (dice_result z fr w).
  Proof. intros; unfold dice_result. apply Q3_do_push; [exact Logic.I|apply last_detail_good; assumption|assumption]. Qed.
  Lemma Q3_lift : forall A (P : A -> Prop) (r : R A) fr k, rg P r -> (forall a w, P a -> wg w -> Q3 (k a w)) -> Q3 (lift r fr k).
  Proof.
    intros A P r fr k H1 H2. destruct r; cbn in *; auto. unfold check_err. destruct (fr_err fr); cbn; [exact Logic.I|].
    destruct H1; auto.
  Qed.

  Ltac fg_tac :=
    first [ assumption
          | apply last_detail_good; assumption
          | apply err_invalid_good; assumption
          | unfold frame_good in *; fr_unfold; repeat match goal with H : _ /\ _ |- _ => destruct H end; repeat split; assumption ].
  Ltac vg_tac :=
    try match goal with |- vgood (if ?b then _ else _) => destruct b end;
    first [ assumption | exact Logic.I | eauto 5 with good ].
  Ltac wg_tac :=
    try match goal with |- wg (if ?b then _ else _) => destruct b end;
    first [ assumption | eauto 7 with good ].

  Ltac q3_fact :=
    repeat match goal with
    | Hm : frame_good ?fr, Hp : pop ?fr = (_, _) |- _ =>
      let H1 := fresh "Hv" in let H2 := fresh "Hf" in destruct (pop_good _ _ _ Hm Hp) as [H1 H2]; clear Hp
    | Hm : frame_good ?fr, Hp : pop_n _ ?fr = (_, _) |- _ =>
      let H1 := fresh "Hl" in let H2 := fresh "Hf" in destruct (pop_n_good _ _ _ _ Hm Hp) as [H1 H2]; clear Hp
    | Hm : frame_good ?fr, Hp : push (VInt _) ?fr = Some _ |- _ => pose proof (push_good _ _ _ (vgood_vint _) Hm Hp); clear Hp
    | Hl : lgood ?l, Hp : dict_of ?l [] = Some _ |- _ => pose proof (dict_of_good _ _ _ Hl mgood_nil Hp); clear Hp
    | Hm : frame_good ?fr, Hp : set_top ?fr _ = Some _ |- _ => pose proof (set_top_good _ _ _ Hm Hp); clear Hp
    | Hm : frame_good ?fr, Hp : read_slot ?fr _ = Some _ |- _ => pose proof (read_slot_good _ _ _ Hm Hp); clear Hp
    | Hm : frame_good ?fr, Hp : fr_last ?fr = LVal _ |- _ => pose proof (last_good _ _ Hm Hp); clear Hp
    | Hm : frame_good ?fr, Hp : fr_live ?fr = _ :: _ |- _ => pose proof (live_hd_good _ _ _ Hm Hp); clear Hp
    end.

  Ltac q3_r0 :=
    first [ apply func_invoke_g; assumption
          | apply native_call_g; [assumption | assumption | match goal with H : vgood (VNative _ _) |- _ => exact H end]
          | apply load_name_g; assumption
          | apply attr_get_g; assumption | apply attr_set_g; assumption
          | apply item_get_g; assumption | apply item_set_g; assumption | apply slice_get_g; assumption
          | apply slice_set_g; assumption | apply bin_op_g; assumption | apply push_range_g; assumption ].
  Ltac q3_r :=
    first [ q3_r0 | match goal with H : _ = ?r |- rg _ ?r => rewrite <- H; q3_r0 end ].

  Ltac q3_go :=
    repeat (cbv beta iota zeta; first
      [ exact Logic.I
      | split; assumption
      | match goal with |- Q3 (SPanic _) => let X := fresh in intro X; discriminate X end
      | match goal with
        | |- context [alloc_arr ?l ?h] =>
          let H := fresh "Hh" in
          assert (H : heap_good (snd (alloc_arr l h))) by (apply alloc_arr_good; [assumption | eauto 5 with good]);
          revert H; destruct (alloc_arr l h); intro H; cbn [snd] in H
        | |- context [alloc_map ?l ?h] =>
          let H := fresh "Hh" in
          assert (H : heap_good (snd (alloc_map l h))) by (apply alloc_map_good; [assumption | eauto 5 with good]);
          revert H; destruct (alloc_map l h); intro H; cbn [snd] in H
        end
      | progress rewrite add_ops_spec
      | match goal with |- Q3 (do_push _ _ _) => apply Q3_do_push; [vg_tac | fg_tac | wg_tac] end
      | match goal with |- Q3 (dice_result _ _ _) => apply Q3_dice_result; [fg_tac | wg_tac] end
      | match goal with |- Q3 (SNext (mk _ _)) => apply Q3_next; [fg_tac | wg_tac] end
      | match goal with |- Q3 (lift _ _ _) => eapply Q3_lift; [q3_r | cbn [ovgood tt_ok]; intros] end
      | match goal with
        | |- Q3 (if ?b then _ else _) => destruct b eqn:?
        | |- Q3 (match ?x with _ => _ end) => destruct x eqn:?; cbn [ovgood] in *; q3_fact
        end ]).

  Ltac q3_start :=
    intros o m [Hf Hw]; unfold step; cbn [i_op i_arg];
    unfold with_pop2, with_pop, with_pop_n, with_int, need_dice, arg_int, arg_str, upd_dice.

  Ltac by_cases tac :=
    let op := fresh "op" in let Hin := fresh "Hin" in
    intros op Hin; cbn [In] in Hin;
    repeat (destruct Hin as [<-|Hin]; [tac|]); contradiction.

  Lemma step_good_plain : forall op,
    In op [OpPushInt; OpPushFlt; OpPushStr; OpPushArr; OpPushDict; OpPushComputed; OpPushFunc; OpPushNull; OpPushThis;
           OpPushRange; OpPushLast; OpPushDefExpr] -> step_good op.
  Proof. by_cases ltac:(q3_start; q3_go). Qed.

  Lemma step_good_more : forall op,
    In op [OpAdd; OpSub; OpMul; OpDiv; OpMod; OpPow; OpNullCoalescing; OpLt; OpLe; OpEq; OpNe; OpGe; OpGt;
           OpBitAnd; OpBitOr; OpAnd; OpOr; OpNeg; OpPos; OpInvoke; OpInvokeSelf;
           OpItemGet; OpItemSet; OpAttrGet; OpAttrSet; OpSliceGet; OpSliceSet;
           OpPop; OpPopN; OpNop; OpRet; OpHalt; OpPushGlobal; OpStoreGlobal; OpUnknown; OpDiceCustom;
           OpStSet; OpStMod; OpStX0; OpStX1; OpJmp; OpJe; OpJne; OpJeDup; OpLd; OpLdD; OpLdRaw; OpStore; OpStoreLocal;
           OpBlockPush; OpBlockPop; OpFstrPush; OpFstrPop; OpMarkDetail;
           OpDiceInit; OpDiceSetTimes; OpDiceSetKeepLow; OpDiceSetKeepHigh; OpDiceSetDropLow; OpDiceSetDropHigh;
           OpDiceSetMin; OpDiceSetMax; OpDice; OpDiceFate; OpCocPenalty; OpCocBonus;
           OpDiceWod; OpWodInit; OpWodPool; OpWodPoints; OpWodThreshold; OpWodThresholdQ;
           OpDiceDC; OpDcInit; OpDcPool; OpDcPoints]
    -> step_good op.
  Proof. by_cases ltac:(q3_start; q3_go). Qed.

  Lemma step_good_OpLdFs : step_good OpLdFs.
  Proof.
    q3_start. destruct o; try (intro X; discriminate X).
    destruct ((0 <? z) && (fr_top (m_fr m) - z <? 0)); [exact Logic.I|].
    match goal with |- Q3 (?f ?l0 ?a0) => cut (forall l acc, Q3 (f l acc)); [intros Hx; apply Hx|] end.
    induction l as [|v l IH]; intros acc; cbv beta iota.
    - destruct (stack_size <=? fr_top (m_fr m) - z); [intro X; discriminate X|].
      destruct (set_top (m_fr m) (fr_top (m_fr m) - z)) as [fr1|] eqn:Hs; [|exact Logic.I].
      apply Q3_do_push; [exact Logic.I|exact (set_top_good _ _ _ Hf Hs)|exact Hw].
    - destruct (to_string _ _ v); [apply IH|exact Logic.I].
  Qed.

  Theorem step_good_all : forall op, step_good op.
  Proof.
    intros op. destruct op;
      first [ apply step_good_plain; cbn; tauto | apply step_good_more; cbn; tauto | apply step_good_OpLdFs ].
  Qed.
End Good.

Lemma counted_good : forall E m, G m -> G (counted E m).
Proof. intros E m [H1 H2]. split; [exact H1|]. unfold counted; cbn [m_w]. apply wg_set_self_ops; exact H2. Qed.

Theorem exec_good : forall E fuel m, G m ->
  match exec fuel E m with Fin m' => G m' | Panic s => s <> nilself_msg | _ => True end.
Proof.
  intros E. induction fuel as [|f IH]; intros m Hm; [exact Logic.I|]. cbn [exec].
  destruct (zlen (fr_code (m_fr m)) <=? fr_pc (m_fr m)); [destruct (fr_err (m_fr m)); [exact Logic.I|exact Hm]|].
  rewrite count_op_spec. destruct (snd (ops_add _ _ _)); [exact Logic.I|].
  destruct (fr_err (m_fr m)); [exact Logic.I|]. destruct (fr_top (m_fr m) =? stack_size); [exact Logic.I|].
  destruct (fr_pc (m_fr m) <? 0); [intro X; discriminate X|].
  destruct (nth_error _ _) as [[op o]|]; [|intro X; discriminate X].
  pose proof (step_good_all (exec f E) f E IH op o (counted E m) (counted_good E m Hm)) as HQ.
  destruct (step (exec f E) f E {| i_op := op; i_arg := o |} (counted E m)) as [m2|m2|e m2|s| |s]; try exact Logic.I.
  - apply IH. destruct HQ as [H1 H2]. split; [exact H1|exact H2].
  - exact HQ.
  - exact HQ.
Qed.

(* C01, the form that holds: from a state free of bare Computed.compute methods, well-formed code never
   reaches a panic site, except the model-only push.range site (operands outside int64) *)
Theorem C01_exec_no_panic_partial : forall E, ftab_wf (e_ftab E) = true ->
  forall fuel m, machine_ok m -> G m -> match exec fuel E m with Panic s => s = range_msg | _ => True end.
Proof.
  intros E Hft fuel m Hm Hg. pose proof (C01_exec_no_panic_anystate E Hft fuel m Hm) as H1.
  pose proof (exec_good E fuel m Hg) as H2. destruct (exec fuel E m); try exact Logic.I.
  destruct H1 as [H1|H1]; [exact H1|contradiction].
Qed.

Definition state_good (st : vmstate) : Prop := heap_good (vs_heap st).

Theorem C01_run_no_panic_partial : forall E c src,
  code_wf c = true -> ftab_wf (e_ftab E) = true ->
  forall fuel st, state_good st -> match run fuel E c src st with OPanic s => s = range_msg | _ => True end.
Proof.
  intros E c src W1 Hft fuel st Hst. unfold run.
  match goal with |- context [exec fuel E ?m] =>
    pose proof (C01_exec_no_panic_partial E Hft fuel m (new_frame_machine_ok _ _ _ W1)) as H;
    destruct (exec fuel E m) end; try exact Logic.I.
  apply H. split; [apply new_frame_good|exact Hst].
Qed.

(* the invariant is kept across runs on one VM: the state after a run that returned a value is good again *)
Theorem C01_run_keeps_state_good : forall E c src fuel st v st',
  state_good st -> run fuel E c src st = Val v st' -> state_good st' /\ vgood v.
Proof.
  intros E c src fuel st v st' Hst. unfold run.
  match goal with |- context [exec fuel E ?m] =>
    pose proof (exec_good E fuel m) as H; destruct (exec fuel E m) as [m'| | | |] end; try discriminate.
  intros [= <- <-]. destruct H as [Hf Hw]; [split; [apply new_frame_good|exact Hst]|].
  split; [exact Hw|]. destruct Hf as [Hl _]. destruct (fr_live (m_fr m')); [exact Logic.I|inversion Hl; assumption].
Qed.

Example init_state_good : state_good st0.
Proof. unfold state_good, st0, init_vmstate, heap_good. cbn. split; repeat constructor. Qed.

Print Assumptions C01_exec_no_panic_partial.
Print Assumptions C01_run_no_panic_partial.
Print Assumptions C01_run_keeps_state_good.
