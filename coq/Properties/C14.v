(* C14 — the calculation-process text explains the result; observing it is harmless.
   Only statements, closed by `exact lemma`, and Print Assumptions. *)
From Coq Require Import String Ascii NArith ZArith List Bool Sorted.
From DS Require Import Model.PCG Model.Roll Model.Str Model.Dice Model.Detail Proofs.DiceProofs Proofs.DetailProofs Proofs.PoolText.
Import ListNotations.
Open Scope nat_scope.
Open Scope string_scope.

(* makeDetailStr never panics, whatever the span list is (the span filter of the repair guarantees every slice) *)
Theorem C14_detail_no_panic data offset spans ret :
  offset <= String.length data -> make_detail_res data offset spans ret <> DPanic.
Proof. exact (make_detail_no_panic data offset spans ret). Qed.

(* the text = matched source with each top-level group [b,e) replaced by value ++ annotation (everything else byte
   identical; annotations read from the ORIGINAL source), then trimmed / emptied by the final rule; the groups lie
   inside the matched text, are strictly separated, in source order, and partition the recorded spans *)
Theorem C14_detail_shape data offset spans ret :
  offset <= String.length data -> wf_spans offset spans ->
  let src := stake offset data in
  let gs := groups_of offset spans in
  make_detail data offset spans ret = finish (splice src 0 (map (replacement (length gs) src) gs)) ret /\
  Forall (group_ok (Z.of_nat offset)) gs /\ sep_fwd gs /\ concat (map g_spans gs) = spans.
Proof. exact (detail_shape data offset spans ret). Qed.

(* the same equation for ARBITRARY span lists (spans outside the matched text are skipped) *)
Theorem C14_detail_shape_all data offset spans ret :
  offset <= String.length data ->
  let src := stake offset data in
  let gs := groups_of offset spans in
  make_detail_res data offset spans ret = DText (finish (splice src 0 (map (replacement (length gs) src) gs)) ret).
Proof. exact (detail_shape_all data offset spans ret). Qed.

(* deleting the annotations leaves the source with each top-level roll replaced by its value
   (bracket-free source and span fields: the fragment) *)
Theorem C14_strip_is_source_with_values data offset spans :
  let src := stake offset data in
  let gs := groups_of offset spans in
  nobr src = true -> Forall span_clean spans ->
  strip_annotations (splice src 0 (map (replacement (length gs) src) gs)) = splice src 0 (map value_only gs).
Proof. exact (strip_is_source_with_values data offset spans). Qed.

(* the annotation of a dice roll: value[source=dice text]; [source] alone when the dice text is the value (rule 1.1);
   nothing when that roll is the whole input (rule 1.3); [略] above 400 bytes *)
Theorem C14_annotation_format rd n b e num txt tag :
  tag <> "load" -> tag <> "load.computed" ->
  let base := rd (Z.to_nat b) (Z.to_nat e) in
  let body := if nonempty txt && negb (String.eqb (show_Z num) txt) then base ++ "=" ++ txt else base in
  let d3 := "[" ++ body ++ "]" in
  let d4 := if Nat.eqb n 1 && String.eqb d3 ("[" ++ base ++ "]") then "" else d3 in
  group_ret (dice_group b e num txt tag) = show_Z num /\
  annotation_with rd n (dice_group b e num txt tag) = if Nat.ltb 400 (String.length d4) then "[略]" else d4.
Proof. exact (dice_annotation_format rd n b e num txt tag). Qed.

Section Source.
  Variable S : Type.
  Variable next : S -> N * S.
  Hypothesis next_word : forall s, (fst (next s) < W64)%N.
  Open Scope Z_scope.

(* the number before the bracket is the total of the dice listed inside, and the listing determines it *)
Theorem C14_annotation_total fuel times d dmin dmax keep lo hi mode s num txt s' :
    0 <= times -> 1 <= d <= MaxInt64 - 1 ->
    roll_common next fuel times d dmin dmax keep lo hi mode s = Done ((num, txt), s') ->
    let pick := pick_num times keep lo hi in
    exists shown : list Z,
      Z.of_nat (length shown) = times /\ 0 <= pick <= times /\
      txt = common_text times pick shown /\
      num = sum64 (firstn (Z.to_nat pick) shown) /\
      (forall shown' pick', 0 <= pick' <= times -> Z.of_nat (length shown') = times ->
         common_text times pick' shown' = txt ->
         shown' = shown /\ pick' = pick /\ sum64 (firstn (Z.to_nat pick') shown') = num).
Proof. exact (annotation_total_common S next next_word fuel times d dmin dmax keep lo hi mode s num txt s'). Qed.

Theorem C14_annotation_total_fate fuel mode s sum txt s' :
    roll_fate next fuel mode s = Done ((sum, txt), s') ->
    String.length txt = 4%nat /\ Forall fate_char (list_ascii_of_string txt) /\
    sum = count_char "+" txt - count_char "-" txt.
Proof. exact (annotation_total_fate S next next_word fuel mode s sum txt s'). Qed.

Theorem C14_annotation_total_coc fuel isBonus diceNum mode s num txt s' :
    0 <= diceNum ->
    roll_coc next fuel isBonus diceNum mode s = Done ((num, txt), s') ->
    exists (res : Z) (digits : list Z),
      txt = ("(D100=" ++ show_Z res ++ (if isBonus then ",奖励" else ",惩罚") ++ join " " (map show_Z digits) ++ ")")%string /\
      Z.of_nat (length digits) = diceNum /\
      (let u := res mod 10 in
       let t0 := (res / 10) mod 10 in
       num = (if isBonus
              then fold_right Z.min (coc_val t0 u) (map (fun c => coc_val c u) digits)
              else fold_right Z.max (coc_val t0 u) (map (fun c => coc_val c u) digits))).
Proof. exact (annotation_total_coc S next next_word fuel isBonus diceNum mode s num txt s'). Qed.

(* WoD / Double Cross (partial): the value is the first counter of the text's header; that the displayed rounds
   recount to it is validated on the real outputs (rule predicates of C04), not proved here *)
Theorem C14_annotation_total_wod_partial rfuel fuel addLine pool points threshold isGE mode s succ all rounds txt s' :
    roll_wod next rfuel fuel addLine pool points threshold isGE mode s = Done ((succ, all, rounds, txt), s') ->
    exists tail, txt = ("成功" ++ show_Z succ ++ "/" ++ show_Z all ++ tail)%string.
Proof. exact (annotation_total_wod_header S next rfuel fuel addLine pool points threshold isGE mode s succ all rounds txt s'). Qed.

Theorem C14_annotation_total_dc_partial rfuel fuel addLine pool points mode s result all rounds txt s' :
    roll_dc next rfuel fuel addLine pool points mode s = Done ((result, all, rounds, txt), s') ->
    exists head tail, txt = (head ++ "出目" ++ show_Z result ++ "/" ++ show_Z all ++ tail)%string /\ (head = "" \/ head = "大失败 ").
Proof. exact (annotation_total_dc_header S next rfuel fuel addLine pool points mode s result all rounds txt s'). Qed.
(* WoD / Double Cross IN FULL (Proofs/PoolText.v): the text is exactly the rendering of the SAME rounds `rs` that the counting
   rule of C04 speaks about — header 成功succ/all resp. [大失败 ]出目result/all, " 轮数:n" when n > 1, then every round in
   braces, every die in order, `*` after a success, `<...>` around a die that reaches the add-line (re-rolled in the next
   round).  Elision is all-or-nothing: no die is listed when the first pool has 15 or more dice or the running total of
   dice ever exceeds 100 (`pool_displayed`); the header is printed in every case. *)
Theorem C14_annotation_total_wod rfuel fuel addLine pool points threshold isGE mode s succ all rounds txt s' :
    wod_check addLine pool points threshold = true -> points <= MaxInt64 - 1 ->
    roll_wod next rfuel fuel addLine pool points threshold isGE mode s = Done ((succ, all, rounds, txt), s') ->
    exists rs : list (list Z),
      1 <= pool <= 20000 /\
      round_chain (wod_reach addLine) (Z.to_nat pool) rs /\
      Forall (Forall (fun x => 1 <= x <= points)) rs /\
      succ = countZ (wod_succ threshold isGE) (concat rs) /\
      rounds = Z.of_nat (length rs) /\
      (Z.of_nat (length (concat rs)) < two63 -> all = Z.of_nat (length (concat rs))) /\
      (length rs <= rfuel)%nat /\
      txt = wod_render addLine threshold isGE pool succ all rounds rs.
Proof. exact (roll_wod_text S next next_word rfuel fuel addLine pool points threshold isGE mode s succ all rounds txt s'). Qed.

Theorem C14_annotation_total_dc rfuel fuel addLine pool points mode s result all rounds txt s' :
    dc_check addLine pool points = true -> points <= MaxInt64 - 1 ->
    roll_dc next rfuel fuel addLine pool points mode s = Done ((result, all, rounds, txt), s') ->
    exists rs : list (list Z),
      1 <= pool <= 20000 /\
      round_chain (dc_reach addLine) (Z.to_nat pool) rs /\
      Forall (Forall (fun x => 1 <= x <= points)) rs /\
      rounds = Z.of_nat (length rs) /\
      (Z.of_nat (length (concat rs)) < two63 -> all = Z.of_nat (length (concat rs))) /\
      result = fold_left (fun a r => wrap64 (a + dc_round_max addLine r)) rs 0 /\
      (points <= 10 -> 10 * rounds < two63 -> result = 10 * (rounds - 1) + dice_max (last rs [])) /\
      (length rs <= rfuel)%nat /\
      txt = dc_render addLine pool result all rounds rs.
Proof. exact (roll_dc_text S next next_word rfuel fuel addLine pool points mode s result all rounds txt s'). Qed.

(* the displayed dice recount to the result: ANY reading of the text as header + listed rounds is the actual roll — the
   listed rounds form the legal chain, the number of starred dice conditions (successes) is the value, the totals are the
   totals; dice are listed only when pool < 15 and all <= 100 *)
Theorem C14_wod_text_recounts rfuel fuel addLine pool points threshold isGE mode s succ all rounds txt s' :
    wod_check addLine pool points threshold = true -> points <= MaxInt64 - 1 ->
    roll_wod next rfuel fuel addLine pool points threshold isGE mode s = Done ((succ, all, rounds, txt), s') ->
    forall succ' all' rounds' rs',
      1 <= rounds' ->
      txt = pool_text "成功" succ' all' rounds' (Some (rounds_text (wod_die_text addLine threshold isGE) rs')) ->
      succ' = succ /\ all' = all /\ rounds' = rounds /\
      round_chain (wod_reach addLine) (Z.to_nat pool) rs' /\
      Forall (Forall (fun x => 1 <= x <= points)) rs' /\
      succ = countZ (wod_succ threshold isGE) (concat rs') /\
      all = Z.of_nat (length (concat rs')) /\
      rounds = Z.of_nat (length rs') /\
      pool < 15 /\ all <= 100.
Proof. exact (roll_wod_recount S next next_word rfuel fuel addLine pool points threshold isGE mode s succ all rounds txt s'). Qed.

Theorem C14_dc_text_recounts rfuel fuel addLine pool points mode s result all rounds txt s' :
    dc_check addLine pool points = true -> points <= MaxInt64 - 1 ->
    roll_dc next rfuel fuel addLine pool points mode s = Done ((result, all, rounds, txt), s') ->
    forall result' all' rounds' rs',
      1 <= rounds' ->
      txt = (if result' =? 1 then "大失败 " else "") ++
            pool_text "出目" result' all' rounds' (Some (rounds_text (dc_die_text addLine) rs')) ->
      result' = result /\ all' = all /\ rounds' = rounds /\
      round_chain (dc_reach addLine) (Z.to_nat pool) rs' /\
      Forall (Forall (fun x => 1 <= x <= points)) rs' /\
      result = fold_left (fun a r => wrap64 (a + dc_round_max addLine r)) rs' 0 /\
      (points <= 10 -> result = 10 * (rounds - 1) + dice_max (last rs' [])) /\
      all = Z.of_nat (length (concat rs')) /\
      rounds = Z.of_nat (length rs') /\
      pool < 15 /\ all <= 100.
Proof. exact (roll_dc_recount S next next_word rfuel fuel addLine pool points mode s result all rounds txt s'). Qed.
End Source.

(* the stripped text evaluates to the value of the expression: for EVERY well-formed fragment expression (integer literals,
   rolls printed as their values, unary signs, parentheses, + - *, arbitrary blanks), printing it and evaluating the text
   gives the value of the expression — a printer / evaluator round trip proved by induction (Proofs/DetailProofs.v
   round_trip), no bound on size or depth.  On the texts Go produces the same evaluator runs inside Coq (Corr14.c14_eval_ok). *)
Definition C14_strip_evaluates_statement : Prop := strip_evaluates_statement.
Theorem C14_strip_evaluates :
  forall e : aexp, prec_ok e = true -> eval_arith (aprint e) = Some (avalue e).
Proof. exact strip_evaluates. Qed.

(* requesting the text twice gives the same text; result, variables, generator state, source and spans are not
   touched (only the cache is); right after Parse the text is a function of (data, offset, spans, ret) alone *)
Theorem C14_detail_pure {V R} (st : vmstate V R) :
  let '(t, st') := get_detail_text_vm st in
  vm_ret st' = vm_ret st /\ vm_vars st' = vm_vars st /\ vm_rng st' = vm_rng st /\
  vm_data st' = vm_data st /\ vm_offset st' = vm_offset st /\ vm_spans st' = vm_spans st /\
  get_detail_text_vm st' = (t, st') /\
  (vm_cache st = "" -> t = match vm_spans st with [] => "" | _ => make_detail (vm_data st) (vm_offset st) (vm_spans st) (vm_ret st) end).
Proof. exact (get_detail_text_vm_pure st). Qed.

Theorem C14_detail_idempotent data offset spans ret cache :
  let '(t1, c1) := get_detail_text data offset spans ret cache in
  let '(t2, c2) := get_detail_text data offset spans ret c1 in
  t2 = t1 /\ c2 = c1.
Proof. exact (get_detail_text_idem data offset spans ret cache). Qed.

(* ---- non-vacuity on a real dump: `x1 = 5` then `(2d6)d4 + 3*f - x1` (harness c14-src, seed 5) *)
Example C14_nonvacuous_shape :
  make_detail ex_src 18 ex_spans "14" = ex_go_text /\ wf_spans 18 ex_spans /\ length (groups_of 18 ex_spans) = 3.
Proof. exact ex_shape. Qed.
Example C14_nonvacuous_strip :
  nobr (stake 18 ex_src) = true /\ Forall span_clean ex_spans /\
  strip_annotations ex_go_text = "19 + 3*0 - 5" /\ eval_arith (strip_annotations ex_go_text) = Some 14%Z.
Proof. exact ex_strip. Qed.
Example C14_nonvacuous_elision_and_empty :
  make_detail "d10" 3 [mkSpan 0 3 "3" "3" "" "dice" false ""] "3" = "" /\
  make_detail " 2d6 " 5 [mkSpan 1 4 "7" "3+4" "" "dice" false ""] "7" = "7[2d6=3+4]".
Proof. exact ex_small. Qed.

Print Assumptions C14_detail_no_panic.
Print Assumptions C14_detail_shape.
Print Assumptions C14_detail_shape_all.
Print Assumptions C14_strip_is_source_with_values.
Print Assumptions C14_annotation_format.
Print Assumptions C14_annotation_total.
Print Assumptions C14_annotation_total_fate.
Print Assumptions C14_annotation_total_coc.
Print Assumptions C14_annotation_total_wod_partial.
Print Assumptions C14_annotation_total_dc_partial.
Print Assumptions C14_annotation_total_wod.
Print Assumptions C14_annotation_total_dc.
Print Assumptions C14_wod_text_recounts.
Print Assumptions C14_dc_text_recounts.
Print Assumptions C14_strip_evaluates.
Print Assumptions C14_detail_pure.
Print Assumptions C14_detail_idempotent.
