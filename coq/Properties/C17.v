(* C17 — extension points are transparent unless they act.

   "Registering custom dice syntaxes that do not match, installing load/store hooks that pass values through
    unchanged, or installing detail rewriters that return their input changes nothing [...]. When a custom syntax
    does match at the start of an operand, its handler runs exactly once per evaluation of that operand, receives
    exactly the matched text and groups, and its returned value is used by copy."

   Parser side: Model/Peg.v on the grammar REGENERATED from /repo (Gen/Grammar.v), the registered matchers are a
   function offset -> matched length (regexp engine and user parsers are oracles).  Protocol, hooks, rewriters and
   the VM case typeCustomDice: Model/Custom.v.  Only statements here; proofs in Proofs/. *)
From Coq Require Import NArith ZArith List Bool String.
From DS Require Import Model.Peg Gen.Grammar Model.Custom Proofs.GatingProofs Proofs.CustomProofs.
Import ListNotations.
Open Scope N_scope.

(* ---------- custom dice syntaxes that never match: the parse is the parse without them ---------- *)
(* for EVERY input, flag setting and fuel, on the regenerated grammar: same acceptance, final offset, ExprCnt,
   errors, furthest failure, emitted opcodes, configuration *)
Theorem C17_never_matching_custom_transparent :
  forall (cm : N -> option N) (fuel : nat) (fl : list bool) (bytes : list N),
    (forall o, cm o = None) ->
    parse_custom cm rules classes acts preds fuel fl bytes = parse rules classes acts preds fuel fl bytes.
Proof. intros. apply never_matching_custom_parse. assumption. Qed.

(* the same on the three-step protocol of custom_dice_parser.go itself: no offset change, nothing emitted,
   nothing pending, every predicate false *)
Theorem C17_never_matching_protocol_inert :
  forall (m : N -> option rawmatch) (width : N -> N), (forall o, m o = None) ->
  forall ops s, pending s = None ->
    prun m width ops s = s /\ Forall (fun b => b = false) (prepared m width ops s).
Proof. exact never_matching_protocol_inert. Qed.

(* ---------- a match at an operand start ---------- *)
(* predicate true; the action advances exactly over the matched bytes (which end on a rune boundary);
   the emitted instruction carries exactly the match's text / groups / payload; the slot is empty afterwards *)
Theorem C17_protocol_on_match :
  forall (m : N -> option rawmatch) (width : N -> N) s r,
    m (offset s) = Some r -> (0 < rm_len r)%Z ->
    boundary_from width (offset s) (offset s + Z.to_N (rm_len r)) ->
    let s1 := snd (prepare m s) in
    let s2 := consume m width s1 in
    let s3 := commit s2 in
    fst (prepare m s) = true /\
    offset s2 = offset s + Z.to_N (rm_len r) /\
    emitted s3 = emitted s ++ [compile r] /\
    pending s3 = None /\ offset s3 = offset s2.
Proof. exact protocol_on_match. Qed.

(* a match left in the slot by a look-ahead at another offset is never used: the consuming action behaves as if
   the slot held the matcher's answer at the current offset — in every state reachable from Parse's initial one *)
Theorem C17_stale_pending_never_used :
  forall (m : N -> option rawmatch) (width : N -> N) ops o,
    let s := set_offset (prun m width ops pinit) o in
    consume m width s = consume m width (set_pending s (try_match m o)).
Proof. exact stale_pending_never_used_reachable. Qed.

(* parser and VM together: the handler is called with exactly the groups and payload of the match, once per
   evaluation of the emitted instruction *)
Theorem C17_custom_protocol :
  forall m width s r hs vs,
    m (offset s) = Some r -> (0 < rm_len r)%Z ->
    boundary_from width (offset s) (offset s + Z.to_N (rm_len r)) ->
    let s3 := commit (consume m width (snd (prepare m s))) in
    exists c, emitted s3 = emitted s ++ [c] /\ offset s3 = offset s + Z.to_N (rm_len r) /\ pending s3 = None /\
              calls (exec_custom hs c vs) = calls vs ++ [{| hc_item := rm_item r; hc_groups := rm_groups r; hc_payload := rm_payload r |}].
Proof. exact custom_protocol. Qed.

Theorem C17_handler_called_once_per_evaluation :
  forall hs code s, verr (exec_code hs code s) = None -> verr s = None ->
    List.length (calls (exec_code hs code s)) = (List.length (calls s) + count_custom code)%nat.
Proof. exact handler_called_once_per_evaluation. Qed.

(* the value pushed and the span's Ret are copies in a fresh cell: overwriting the handler's own object afterwards
   changes neither *)
Theorem C17_handler_result_used_by_copy :
  forall hs c s h1 a dt content,
    hs (c_item c) (c_groups c) (c_payload c) (vheap s) = (h1, Some a, dt, None) ->
    heap_wf h1 -> read h1 a = Some content ->
    let s' := exec_custom hs c s in
    exists r, detail_ret s' = Some r /\ r <> a /\ read h1 r = None /\
              stack s' = content :: stack s /\
              forall c', read (write (vheap s') a c') r = Some content /\ stack s' = content :: stack s.
Proof. exact handler_result_used_by_copy. Qed.

(* ---------- hooks that pass everything through ---------- *)
(* for every store, scope chain, name, raw / hooked / with-detail mode and every behaviour of computed values:
   the load with HookValueLoadPre = (same name, no overwrite), HookValueLoadPost = doCompute,
   GlobalValueLoadFunc = not found, GlobalValueLoadOverwriteFunc = identity is the load without them
   (`observe`: after a FAILED load the Ret field of the span being written is dead; it is the one place where the
   two differ) *)
Theorem C17_identity_hooks_transparent :
  forall (val : Type) (null : val) (is_null is_computed : val -> bool) (val_eqb : val -> val -> bool) (world : Type)
         (exec : val -> hst val world -> hst val world * option val) (builtin : string -> option val)
         name isRaw useHook wd (s : hst val world) v,
    observe val world (load_name val null is_null is_computed val_eqb world exec builtin (id_hooks val world) name isRaw useHook wd s) =
    observe val world (load_name val null is_null is_computed val_eqb world exec builtin (no_hooks val world) name isRaw useHook wd s)
    /\
    store_name val world (id_hooks val world) name v useHook s = store_name val world (no_hooks val world) name v useHook s.
Proof.
  intros. split.
  - apply identity_hooks_transparent_load.
  - apply identity_hooks_transparent_store.
Qed.

(* when the load delivers a value, value and state are identical without `observe` *)
Theorem C17_identity_hooks_transparent_value :
  forall (val : Type) (null : val) (is_null is_computed : val -> bool) (val_eqb : val -> val -> bool) (world : Type)
         (exec : val -> hst val world -> hst val world * option val) (builtin : string -> option val)
         name isRaw useHook wd (s s' : hst val world) v,
    load_name val null is_null is_computed val_eqb world exec builtin (no_hooks val world) name isRaw useHook wd s = (s', OVal val v) ->
    load_name val null is_null is_computed val_eqb world exec builtin (id_hooks val world) name isRaw useHook wd s = (s', OVal val v).
Proof. intros. eapply identity_hooks_transparent_value. eassumption. Qed.

(* ---------- detail rewriters that return their input ---------- *)
Theorem C17_identity_rewriters_transparent :
  forall (span group : Type) (inner_spans : group -> list span) (last_span : group -> span)
         (sub_default : string -> span -> string) (main_default : string -> group -> list string -> string)
         (splice : string -> group -> string -> string) text groups,
    make_detail span group inner_spans last_span sub_default main_default splice
                (Some (fun d _ _ => d)) (Some (fun d _ => d)) text groups =
    make_detail span group inner_spans last_span sub_default main_default splice None None text groups.
Proof. intros. apply identity_rewriters_transparent. Qed.

(* ---------- non-vacuity ---------- *)
(* the table is really consulted: on input "E5" a matcher for E5 changes the parse (dice.custom is emitted),
   a never-matching one does not *)
Definition in_E5 : list N := [69; 53].
Definition all_on : list bool := [true; true; true; true; false; false; false].
Definition fuel0 : nat := Nat.mul 60 100.
Example C17_matching_custom_is_visible :
  let r1 := parse_custom (fun o => if o =? 0 then Some 2 else None) rules classes acts preds fuel0 all_on in_E5 in
  let r0 := parse rules classes acts preds fuel0 all_on in_E5 in
  r_ok r1 = true /\ r_off r1 = 2 /\ mem_N 56 (r_emitted r1) = true /\
  r_ok r0 = true /\ r_off r0 = 2 /\ mem_N 56 (r_emitted r0) = false /\
  parse_custom (fun _ => None) rules classes acts preds fuel0 all_on in_E5 = r0.
Proof. vm_compute. repeat split; reflexivity. Qed.

(* Inside a syntactic predicate the grammar's actions are skipped — ConsumeCustomDice included.  Before the repair
   recorded in known_findings.json (fixed: custom-dice-zero-width-inside-lookahead) the custom alternative therefore
   had zero width in every look-ahead and "(E5)" was rejected although the matcher matches "E5" at offset 1.  Since the
   repair PrepareCustomDice itself advances in skip mode (Model/Peg.v run_pred PCustomP); on the regenerated grammar
   the parenthesised operand is accepted, consumed whole, and dice.custom (opcode 56) is emitted exactly as for the
   bare operand. *)
Definition cm_at1 (o : N) : option N := if o =? 1 then Some 2 else None.
Definition in_pE5 : list N := [40; 69; 53; 41].
Theorem C17_custom_inside_lookahead_consumed :
  exists (cm : N -> option N) (bytes : list N),
    cm 1 = Some 2 /\ bytes = in_pE5 /\
    (let r := parse_custom cm rules classes acts preds fuel0 all_on bytes in
     r_ok r && (r_errs r =? 0) = true /\ r_off r = 4 /\ mem_N 56 (r_emitted r) = true) /\
    (let r := parse_custom (fun o => cm (o + 1)) rules classes acts preds fuel0 all_on [69; 53] in
     r_ok r && (r_errs r =? 0) = true /\ r_off r = 2).
Proof.
  exists cm_at1, in_pE5. vm_compute. repeat split; reflexivity.
Qed.

Example C17_protocol_nonvacuous : exists (m : N -> option rawmatch) w s r,
  m (offset s) = Some r /\ (0 < rm_len r)%Z /\ boundary_from w (offset s) (offset s + Z.to_N (rm_len r)).
Proof.
  exists ex_m, ex_w, {| pending := None; offset := 4; emitted := [] |}, {| rm_item := 0; rm_groups := ["E12"%string; "12"%string]; rm_text := ""%string; rm_len := 3; rm_payload := 9 |}.
  split; [reflexivity |]. split; [reflexivity |].
  simpl. apply bf_step; [reflexivity | discriminate |].
  apply bf_step; [reflexivity | discriminate |].
  apply bf_step; [reflexivity | discriminate |].
  apply bf_refl.
Qed.

Print Assumptions C17_never_matching_custom_transparent.
Print Assumptions C17_never_matching_protocol_inert.
Print Assumptions C17_protocol_on_match.
Print Assumptions C17_stale_pending_never_used.
Print Assumptions C17_custom_protocol.
Print Assumptions C17_handler_called_once_per_evaluation.
Print Assumptions C17_handler_result_used_by_copy.
Print Assumptions C17_identity_hooks_transparent.
Print Assumptions C17_identity_hooks_transparent_value.
Print Assumptions C17_identity_rewriters_transparent.
Print Assumptions C17_custom_inside_lookahead_consumed.
