(* Model of roll_func.go: _roll64 and Roll.  The die source is abstract
   (a Section variable `next`) so that every theorem holds for every generator;
   the instance used by the correspondence check is PCG.pcg_next.
   Control flow mirrors the Go code: power-of-two mask; "fast check"
   v > MaxUint64 - n; ceiling; redraw loop (fuelled). *)
From Coq Require Import NArith ZArith List Bool.
From DS Require Import Model.PCG.
Import ListNotations.
Open Scope N_scope.

Definition MaxUint64 : N := W64 - 1.
Definition MaxInt64 : Z := 9223372036854775807%Z.

Definition ceiling (n : N) : N := MaxUint64 - MaxUint64 mod n.
Definition is_pow2 (n : N) : bool := N.land n (n - 1) =? 0.   (* n&(n-1) == 0, n >= 1 *)

(* int64 -> uint64 conversion *)
Definition to_u64 (z : Z) : N := Z.to_N (z mod (Z.of_N W64)).
(* uint64 -> int64 conversion *)
Definition to_i64 (n : N) : Z :=
  let z := Z.of_N (n mod W64) in if (z <? 9223372036854775808)%Z then z else (z - Z.of_N W64)%Z.

Inductive outcome (A : Type) : Type :=
| Done (a : A)
| OutOfFuel.
Arguments Done {A} a.
Arguments OutOfFuel {A}.

Section Source.
  Variable S : Type.
  Variable next : S -> N * S.

  (* for v >= ceiling { v = src.Uint64() } *)
  Fixpoint redraw (fuel : nat) (c : N) (v : N) (s : S) : outcome (N * S) :=
    if v <? c then Done (v, s)
    else match fuel with
         | O => OutOfFuel
         | Datatypes.S f => let '(v', s') := next s in redraw f c v' s'
         end.

  (* _roll64(src, dicePoints) with n = uint64(dicePoints); caller has excluded
     dicePoints > MaxInt64-1.  Returns the uint64 value before the int64 cast. *)
  Definition roll64_u (fuel : nat) (n : N) (s : S) : outcome (N * S) :=
    let '(v, s1) := next s in
    if is_pow2 n then Done ((N.land v (n - 1) + 1) mod W64, s1)
    else if MaxUint64 - n <? v then
      match redraw fuel (ceiling n) v s1 with
      | Done (v', s2) => Done ((v' mod n + 1) mod W64, s2)
      | OutOfFuel => OutOfFuel
      end
    else Done ((v mod n + 1) mod W64, s1).

  Definition roll64 (fuel : nat) (dicePoints : Z) (s : S) : outcome (Z * S) :=
    if (MaxInt64 - 1 <? dicePoints)%Z then Done (0%Z, s)
    else match roll64_u fuel (to_u64 dicePoints) s with
         | Done (r, s') => Done (to_i64 r, s')
         | OutOfFuel => OutOfFuel
         end.

  (* Roll(src, dicePoints, mod): mod = -1 min, 0 random, +1 max *)
  Definition roll (fuel : nat) (dicePoints : Z) (mode : Z) (s : S) : outcome (Z * S) :=
    if (dicePoints =? 0)%Z then Done (0%Z, s)
    else if (mode =? -1)%Z then Done (1%Z, s)
    else if (mode =? 1)%Z then Done (dicePoints, s)
    else roll64 fuel dicePoints s.

  (* --- word-level specification used by the theorems ------------------ *)
  (* the set of accepted words and the face an accepted word maps to *)
  Definition acc_bound (n : N) : N := if is_pow2 n then W64 else ceiling n.
  Definition accepted (n v : N) : bool := v <? acc_bound n.
  Definition face (n v : N) : N := v mod n + 1.

  (* first accepted word of the stream, within fuel+1 draws *)
  Fixpoint first_accepted (fuel : nat) (n : N) (s : S) : outcome (N * S) :=
    let '(v, s1) := next s in
    if accepted n v then Done (v, s1)
    else match fuel with
         | O => OutOfFuel
         | Datatypes.S f => first_accepted f n s1
         end.
End Source.

Arguments redraw {S} next fuel c v s.
Arguments roll64_u {S} next fuel n s.
Arguments roll64 {S} next fuel dicePoints s.
Arguments roll {S} next fuel dicePoints mode s.
Arguments first_accepted {S} next fuel n s.

(* instance on PCG *)
Definition roll_pcg := roll pcg_next.
Definition roll64_pcg := roll64 pcg_next.

(* a list-of-words source: used for rule-level theorems and for driving the
   model with the exact words the implementation saw *)
Definition list_next (ws : list N) : N * list N :=
  match ws with [] => (0, []) | v :: r => (v, r) end.
