(* Corr/Corr09.v — checker functions for the C09 / C10 case files (evaluated by vm_compute).
   Nothing here is trusted by the theorems; a wrong checker shows up as a disagreement. *)
From Coq Require Import String Ascii NArith ZArith List Bool.
From DS Require Import Model.Str Model.Json.
Import ListNotations.
Open Scope string_scope.

Definition T0 := actual_table.

(* JSON equality modulo object entry order; a float literal and an integer literal denote the
   same number when the integer parses to exactly these bits (Go prints 5.0 as `5`) *)
Fixpoint jeqv (a b : json) {struct a} : bool :=
  match a, b with
  | JNull, JNull => true
  | JBool x, JBool y => Bool.eqb x y
  | JInt x, JInt y => (x =? y)%Z
  | JFloat x, JFloat y => (x =? y)%N
  | JFloat x, JInt z => match z2f z with Some y => (x =? y)%N | None => false end
  | JStr x, JStr y => String.eqb x y
  | JArr l, JArr m => list_eqb jeqv l m
  | JObj l, JObj m =>
    if (length l =? length m)%nat then
      if nodup_keys m then
        forallb (fun kv : string * json => let (k, x) := kv in
                   match lookup k m with Some y => jeqv x y | None => false end) l
      else false
    else false
  | _, _ => false
  end.

Definition ojeqv (a b : option json) : bool :=
  match a, b with
  | Some x, Some y => jeqv x y
  | None, None => true
  | _, _ => false
  end.

(* (a) encoder: the value as dumped from Go, and what Go's ToJSON produced (None = error) *)
Definition enc_case := (value * option json)%type.
Definition enc_ok (c : enc_case) : bool := let (v, g) := c in ojeqv (to_json T0 v) g.

Definition encmap_case := (list (string * value) * option json)%type.
Definition encmap_ok (c : encmap_case) : bool := let (m, g) := c in ojeqv (to_json_map T0 m) g.

(* (b) decoder: the document, and Go's structural dump of the decoded value (None = error) *)
Definition req2 (a b : rvalue) : bool := if req a b then req b a else false.

Definition dec_case := (json * option rvalue)%type.
Definition dec_ok (c : dec_case) : bool :=
  let (j, g) := c in
  match of_json T0 j, g with
  | Some x, Some y => req2 x y
  | None, None => true
  | _, _ => false
  end.

Definition decmap_case := (json * option (list (string * rvalue)))%type.
Definition decmap_ok (c : decmap_case) : bool :=
  let (j, g) := c in
  match of_json_map T0 j, g with
  | Some x, Some y => req2 (RDict 0 x) (RDict 0 y)
  | None, None => true
  | _, _ => false
  end.

(* C10 on the model side, re-checked on every generated document: decoded => well-formed *)
Definition dec_wf_ok (c : dec_case) : bool :=
  match of_json T0 (fst c) with Some x => wf T0 x | None => true end.

(* heap graphs: Go's heap as dumped by the harness, root wrapper, Go's outcome
   (Some j = text, None = error) *)
Definition graph_case := (heap * nat * option json)%type.
Definition graph_ok (c : graph_case) : bool :=
  let '(h, w, g) := c in
  match to_json_graph_top T0 h w, g with
  | GOk j, Some y => jeqv j y
  | GErr, None => true
  | _, _ => false
  end.

(* the table: names the decoder accepts as native functions = natives T0; type ids *)
Definition natives_ok (accepted : list string) : bool :=
  forallb (fun n => mem_str n accepted) (natives T0) && forallb (fun n => mem_str n (natives T0)) accepted.

Definition ids_ok (ids : list Z) : bool :=
  list_eqb Z.eqb ids [d_int T0; d_float T0; d_str T0; d_null T0; d_computed T0; d_array T0; d_dict T0;
                      d_func T0; d_native T0; d_nobj T0].

Fixpoint bad_idx {A} (okf : A -> bool) (i : N) (l : list A) : list N :=
  match l with
  | [] => []
  | c :: r => if okf c then bad_idx okf (i + 1)%N r else i :: bad_idx okf (i + 1)%N r
  end.
