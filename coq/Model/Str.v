(* Byte strings (Coq `string` = list of bytes), decimal rendering, int64 wrap. *)
From Coq Require Import String Ascii NArith ZArith DecimalString List.
Import ListNotations.
Open Scope string_scope.

Definition show_Z (z : Z) : string := NilZero.string_of_int (Z.to_int z).
Definition show_N (n : N) : string := show_Z (Z.of_N n).

Fixpoint s_of (l : list N) : string :=
  match l with [] => EmptyString | b :: r => String (ascii_of_N b) (s_of r) end.
Fixpoint bytes_of (s : string) : list N :=
  match s with EmptyString => [] | String a r => N_of_ascii a :: bytes_of r end.

Fixpoint join (sep : string) (l : list string) : string :=
  match l with
  | [] => ""
  | [x] => x
  | x :: r => x ++ sep ++ join sep r
  end.

(* drop the last byte: text[:len(text)-1] *)
Fixpoint drop_last (s : string) : string :=
  match s with
  | EmptyString => EmptyString
  | String a EmptyString => EmptyString
  | String a r => String a (drop_last r)
  end.

(* int64 arithmetic *)
Definition two63 : Z := 9223372036854775808.
Definition two64 : Z := 18446744073709551616.
Definition wrap64 (z : Z) : Z := ((z + two63) mod two64 - two63)%Z.
Definition in_i64 (z : Z) : Prop := (- two63 <= z < two63)%Z.
