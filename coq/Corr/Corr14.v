(* Correspondence checker for C14: Model/Detail.make_detail evaluated on the spans, source, offset and result
   string that the Go VM produced must give GetDetailText() byte for byte; plus, on Go's own text, the
   model-side strip + evaluate (used as a cross-check of the Python search). *)
From Coq Require Import String Ascii NArith ZArith List Bool.
From DS Require Import Model.Str Model.Detail Corr.Corr05.
Import ListNotations.
Open Scope string_scope.

(* (data, offset, spans, Ret.ToString(), Go's GetDetailText()) *)
Definition c14_case : Type := string * nat * list span * string * string.

Definition c14_model (c : c14_case) : dres :=
  let '(data, offset, spans, ret, _) := c in make_detail_res data offset spans ret.

Definition c14_ok (c : c14_case) : bool :=
  let '(data, offset, spans, ret, go) := c in
  match spans with
  | [] => String.eqb go ""                       (* DetailSpans == nil *)
  | _ => match make_detail_res data offset spans ret with
         | DText t => String.eqb t go
         | DPanic => false
         end
  end.

(* equal End values inside one group: `any` = the stable order matters at all, `risk` = Go's order would be
   implementation-defined (more than 12 spans in the group) *)
Definition c14_tie_any (c : c14_case) : bool :=
  let '(_, offset, spans, _, _) := c in existsb group_tie (groups_of offset spans).
Definition c14_tie_risk (c : c14_case) : bool :=
  let '(_, offset, spans, _, _) := c in existsb group_tie_risk (groups_of offset spans).

(* cached GetDetailText: second call on the state left by the first *)
Definition c14_twice_ok (c : c14_case) : bool :=
  let '(data, offset, spans, ret, go) := c in
  let '(t1, cache1) := get_detail_text data offset spans ret "" in
  let '(t2, _) := get_detail_text data offset spans ret cache1 in
  String.eqb t1 t2 && String.eqb t1 go.

(* fragment cross-check: strip Go's text, evaluate, compare with the expected integer *)
Definition c14_eval_case : Type := string * Z.
Definition c14_eval_ok (c : c14_eval_case) : bool :=
  let '(text, want) := c in
  match eval_arith (strip_annotations text) with
  | Some v => (wrap64 v =? want)%Z        (* the VM's int64 wrap, applied once to the exact value *)
  | None => false
  end.

Definition neg_indices {A} (f : A -> bool) (i : N) (l : list A) : list N :=
  bad_indices (fun x => negb (f x)) i l.
