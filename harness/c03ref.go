package main

// The pinned reference copy of the library (harness/refds, a snapshot of /repo's non-test sources at the commit in
// refds/PINNED_COMMIT).  It is used for ONE thing: to say exactly which (input -> compiled code) pairs the recorded finding
// "left-over code of an abandoned grammar alternative" covers.  An input whose Matched-alone evaluation differs from the
// evaluation of the whole input is excused by that finding only if the pinned copy compiles the whole input to the very same
// code; left-over code that the pinned copy does not produce is a new violation.
import (
	"fmt"
	"strconv"

	ref "verifharness/refds"
)

func refOpsSig(code []ref.VerifOp) []string {
	var out []string
	for _, c := range code {
		s := c.Name
		if c.I != nil {
			s += " " + i(*c.I)
		}
		if c.S != nil {
			s += " " + *c.S
		}
		if c.Fn != nil {
			s += " <" + c.Fn.Kind + ":" + c.Fn.Expr + ">"
		}
		out = append(out, s)
	}
	return out
}

func regCustomRef(vm *ref.Context) {
	_ = vm.RegCustomDice(`E(\d+)`, func(ctx *ref.Context, groups []string, payload any) (*ref.VMValue, string, error) {
		n, _ := strconv.Atoi(groups[1])
		return ref.NewIntVal(ref.IntType(2 * n)), "", nil
	})
	_ = vm.RegCustomDiceParser(func(ctx *ref.Context, st *ref.CustomDiceStream) (*ref.CustomDiceParseResult, error) {
		readNum := func() (int, bool) {
			n, k := 0, 0
			for {
				r, ok := st.Peek()
				if !ok || r < '0' || r > '9' {
					break
				}
				st.Read()
				n = n*10 + int(r-'0')
				k++
			}
			return n, k > 0
		}
		if r, ok := st.Read(); !ok || r != 'C' {
			return nil, nil
		}
		a, ok := readNum()
		if !ok {
			return nil, nil
		}
		if r, ok := st.Read(); !ok || r != 'T' {
			return nil, nil
		}
		b, ok := readNum()
		if !ok {
			return nil, nil
		}
		return &ref.CustomDiceParseResult{Matched: true, Display: fmt.Sprintf("C%dT%d", a, b), Payload: [2]int{a, b}}, nil
	}, func(ctx *ref.Context, groups []string, payload any) (*ref.VMValue, string, error) {
		p := payload.([2]int)
		return ref.NewIntVal(ref.IntType(p[0] + p[1])), "", nil
	})
}

// refCompile: code the pinned copy compiles for src under the same syntax flags (nil when it rejects the input or panics)
func refCompile(src, pre string, flags []bool, custom bool) (code []string, offset int, ok bool) {
	defer func() {
		if r := recover(); r != nil {
			code, ok = nil, false
		}
	}()
	vm := ref.NewVM()
	c := cfgFromFlags(flags)
	vm.Config.EnableDiceWoD, vm.Config.EnableDiceCoC, vm.Config.EnableDiceFate, vm.Config.EnableDiceDoubleCross = c.WoD, c.CoC, c.Fate, c.DC
	vm.Config.DisableBitwiseOp, vm.Config.DisableStmts, vm.Config.DisableNDice = c.NoBitwise, c.NoStmts, c.NoNDice
	vm.Config.OpCountLimit = ref.IntType(c.OpLimit)
	if custom {
		regCustomRef(vm)
	}
	if pre != "" {
		func() {
			defer func() { _ = recover() }()
			_ = vm.Run(pre)
		}()
	}
	if err := vm.Parse(src); err != nil {
		return nil, 0, false
	}
	return refOpsSig(vm.VerifCode()), vm.VerifParsedOffset(), true
}
