(* Model of golang.org/x/exp/rand.PCGSource (PCG XSL-RR 128/64, LCG) as used by
   dicescript: state = two 64-bit words, Uint64 = multiply; add; xor-rotate output,
   MarshalBinary/UnmarshalBinary = 16 bytes big-endian (high word first).
   Hand-written; tied to the implementation by the C05/C06 correspondence
   (exact outputs and exact post-call state on engineered and random states). *)
From Coq Require Import NArith List.
Import ListNotations.
Open Scope N_scope.

Definition W64 : N := 18446744073709551616.          (* 2^64 *)
Definition W128 : N := W64 * W64.

Definition multiplier : N := 47026247687942121848144207491837523525.
Definition increment  : N := 117397592171526113268558934119004209487.
Definition mulHigh := multiplier / W64.
Definition mulLow  := multiplier mod W64.
Definition incHigh := increment / W64.
Definition incLow  := increment mod W64.

Record pcg := { hi : N; lo : N }.

Definition pcg_wf (s : pcg) : Prop := hi s < W64 /\ lo s < W64.

(* bits.Mul64(low, mulLow); hi += high*mulLow; hi += low*mulHigh  (all mod 2^64) *)
Definition pcg_multiply (s : pcg) : pcg :=
  let p := lo s * mulLow in
  let h := (p / W64 + hi s * mulLow + lo s * mulHigh) mod W64 in
  {| hi := h; lo := p mod W64 |}.

(* bits.Add64 with carry *)
Definition pcg_add (s : pcg) : pcg :=
  let l := lo s + incLow in
  let carry := l / W64 in
  {| hi := (hi s + incHigh + carry) mod W64; lo := l mod W64 |}.

Definition pcg_step (s : pcg) : pcg := pcg_add (pcg_multiply s).

(* bits.RotateLeft64(x, -k) = rotate right by k, 0 <= k < 64 *)
Definition rotr64 (x k : N) : N :=
  (N.shiftr x k + (x mod (2 ^ k)) * 2 ^ (64 - k)) mod W64.

Definition pcg_out (s : pcg) : N :=
  rotr64 (N.lxor (hi s) (lo s)) (hi s / 2 ^ 58).

(* Uint64: advance, then output of the NEW state *)
Definition pcg_next (s : pcg) : N * pcg :=
  let s' := pcg_step s in (pcg_out s', s').

(* the 128-bit view *)
Definition pcg_val (s : pcg) : N := hi s * W64 + lo s.
Definition pcg_of_val (v : N) : pcg := {| hi := (v / W64) mod W64; lo := v mod W64 |}.

(* big-endian bytes *)
Fixpoint be_bytes (k : nat) (x : N) : list N :=
  match k with
  | O => []
  | S k' => be_bytes k' (x / 256) ++ [x mod 256]
  end.
Fixpoint be_val (l : list N) (acc : N) : N :=
  match l with
  | [] => acc
  | b :: r => be_val r (acc * 256 + b)
  end.

Definition pcg_marshal (s : pcg) : list N := be_bytes 8 (hi s) ++ be_bytes 8 (lo s).

(* UnmarshalBinary: needs >= 16 bytes, reads the first 16 *)
Definition pcg_unmarshal (data : list N) : option pcg :=
  if Nat.ltb (length data) 16 then None
  else Some {| hi := be_val (firstn 8 data) 0; lo := be_val (firstn 8 (skipn 8 data)) 0 |}.

(* k successive outputs *)
Fixpoint pcg_draws (k : nat) (s : pcg) : list N * pcg :=
  match k with
  | O => ([], s)
  | S k' => let '(v, s1) := pcg_next s in
            let '(vs, s2) := pcg_draws k' s1 in (v :: vs, s2)
  end.
