(* C03 — Matched/RestInput contract. Statements + `exact lemma` + Print Assumptions. *)
From Coq Require Import NArith List Bool.
From DS Require Import Model.Matched Proofs.MatchedProofs Model.Peg Gen.Grammar Corr.CorrK1 Proofs.PegBounds.
Import ListNotations.

(* Matched followed by RestInput is exactly the input — for every input and every offset the parser may end at *)
Theorem C03_matched_rest_split : forall input offset, matched input offset ++ rest input offset = input.
Proof. exact matched_rest_split. Qed.

(* ... and the offset the PEG interpreter ends at never exceeds the input length — for EVERY grammar, action table,
   custom-dice matcher (even one that claims more text than there is), flag setting, fuel and input — so the split above
   applies to what the parser really does: data[:offset] is a legal slice, Matched is a prefix of the input of at most
   `offset` bytes and RestInput is the rest. *)
Theorem C03_parse_offset_le_length :
  forall (cmatch : N -> option N) rules classes acts preds fuel fl bytes,
  (r_off (parse_custom cmatch rules classes acts preds fuel fl bytes) <= N.of_nat (length bytes))%N.
Proof. exact parse_offset_le_length. Qed.

Theorem C03_parse_matched_rest_split :
  forall cmatch rules classes acts preds fuel fl bytes,
  let o := N.to_nat (r_off (parse_custom cmatch rules classes acts preds fuel fl bytes)) in
  (o <= length bytes)%nat /\
  length (firstn o bytes) = o /\
  matched bytes o ++ rest bytes o = bytes /\
  (length (matched bytes o) <= o)%nat /\
  (length (matched bytes o) <= length bytes)%nat /\
  exists k, (k <= o)%nat /\ matched bytes o = firstn k bytes /\ rest bytes o = skipn k bytes.
Proof. exact parse_matched_rest_split. Qed.

(* Matched is a prefix of the input that ends at or before the parser's final offset *)
Theorem C03_matched_is_prefix :
  forall input offset, exists k, (k <= offset)%nat /\ (k <= length input)%nat /\ matched input offset = firstn k input.
Proof. exact matched_is_prefix. Qed.

(* Matched carries no trailing white space (unicode.IsSpace) *)
Theorem C03_matched_has_no_trailing_space :
  forall input offset, let '(r, size) := decode_last (matched input offset) in size = 0%nat \/ is_space r = false.
Proof. exact matched_has_no_trailing_space. Qed.

(* trimming Matched again changes nothing *)
Theorem C03_trim_idempotent : forall l, rtrim (rtrim l) = rtrim l.
Proof. exact rtrim_idempotent. Qed.

Print Assumptions C03_matched_rest_split.
Print Assumptions C03_matched_is_prefix.
Print Assumptions C03_matched_has_no_trailing_space.
Print Assumptions C03_trim_idempotent.

(* The positive half — "text given back to RestInput contributes nothing" — is FALSE of the faithful
   parser model: actions run while parsing and are not rolled back when an alternative is abandoned.
   Witness: "5\n{'a':1" is accepted with offset 1 (Matched = "5"), yet the opcodes emitted while
   parsing the whole input include push.str (opcode 2), which parsing "5" alone never emits.
   The same input misbehaves on the implementation (result 1 instead of 5): recorded finding. *)
Definition w_input : list N := [53; 10; 123; 39; 97; 39; 58; 49].
Definition all_on : list bool := [true; true; true; true; false; false; false].
Theorem C03_tail_contribution_refuted :
  let r := run_model all_on w_input in
  let m := matched w_input (N.to_nat (r_off r)) in
  r_ok r = true /\ r_errs r = 0%N /\ m = [53%N] /\
  mem_N 2 (r_emitted r) = true /\ mem_N 2 (r_emitted (run_model all_on m)) = false.
Proof. vm_compute. repeat split. Qed.
Print Assumptions C03_tail_contribution_refuted.

Example C03_nonvacuous : matched [49; 43; 50; 32; 227; 128; 128; 41]%N 7 = [49; 43; 50]%N.
Proof. vm_compute. reflexivity. Qed.
Print Assumptions C03_parse_offset_le_length.
Print Assumptions C03_parse_matched_rest_split.
