(* Reference compiler from Model/Ast.v to the byte-code of Model/VM.v, following the code the real
   parser emits (DESIGN Appendix C.1; roll.peg actions + parser.go), checked instruction by
   instruction against dumps of the real parser (K4, lib/c02.py).

   Jump operands are relative: `k` = skip the next k instructions.
     x            mark.detail b,e ; ld.d x          (the span depends on the printed text: the reference
                                                      compiler writes 0,0 and K4 ignores span operands)
     x = e        e ; store x
     -e  +e       e ; neg | pos
     l op r       l ; r ; op                         (&& is the plain binary `and`: no short circuit)
     l || r       l ; je.dup |r|+2 ; r ; je.dup 1 ; push.last
     c ? a : b    c ; jne |a|+1 ; a ; jmp |b| ; b
     [e1..en]     e1 .. en ; push.arr n
     e[i]         e ; i ; item.get
     XdY          X ; dice.init ; dice.setTimes ; Y ; mark.detail ; dice   (the span is written by detailEnd)
     if c {A} else {B}   c ; block.push ; jne |A|+1 ; A ; jmp |B| ; B ; block.pop
                         (the block height is saved AFTER the condition was pushed)
     while c {A}  block.push ; L: c ; jne |A|+1 ; A ; jmp ->L ; X: block.pop
     break        one block.pop per `if` open inside the loop body, then jmp ->X
     continue     one block.pop per `if` open inside the loop body, then jmp ->L
     program      statements ; halt

   compile_stmt d bo ao s: d = number of `if` blocks open between the enclosing loop and s;
   bo = number of instructions between L (first instruction of the loop condition) and the start
   of s; ao = number of instructions between the end of s and X. *)
From Coq Require Import String NArith ZArith List Bool.
From DS Require Import Model.Str Model.Value Model.VM Model.Ast Model.Denote.
Import ListNotations.
Open Scope Z_scope.
Open Scope list_scope.

Definition bin_opcode (o : binop) : opcode :=
  match o with
  | BAdd => OpAdd | BSub => OpSub | BMul => OpMul | BDiv => OpDiv | BMod => OpMod | BPow => OpPow
  | BNullCo => OpNullCoalescing
  | BLt => OpLt | BLe => OpLe | BEq => OpEq | BNe => OpNe | BGe => OpGe | BGt => OpGt
  | BBitAnd => OpBitAnd | BBitOr => OpBitOr | BAnd => OpAnd
  end.
Definition un_opcode (o : unop) : opcode := match o with UNeg => OpNeg | UPos => OpPos end.

Fixpoint compile_expr (e : expr) : code :=
  match e with
  | EInt n => [I OpPushInt (OInt (lit_int n))]
  | EStr s => [I OpPushStr (OStr s)]
  | ENull => [I OpPushNull ONil]
  | ETrue => [I OpPushInt (OInt 1)]
  | EFalse => [I OpPushInt (OInt 0)]
  | EVar x => [I OpMarkDetail (OSpan 0 0); I OpLdD (OStr x)]
  | EAssign x e1 => compile_expr e1 ++ [I OpStore (OStr x)]
  | EUn o e1 => compile_expr e1 ++ [I (un_opcode o) ONil]
  | EBin o l r => compile_expr l ++ compile_expr r ++ [I (bin_opcode o) ONil]
  | EOr l r =>
    let cr := compile_expr r in
    compile_expr l ++ [I OpJeDup (OInt (zlen cr + 2))] ++ cr ++ [I OpJeDup (OInt 1); I OpPushLast ONil]
  | ETern c a b =>
    let ca := compile_expr a in
    let cb := compile_expr b in
    compile_expr c ++ [I OpJne (OInt (zlen ca + 1))] ++ ca ++ [I OpJmp (OInt (zlen cb))] ++ cb
  | EArr l =>
    (fix items (l : list expr) : code :=
       match l with [] => [] | x :: r => compile_expr x ++ items r end) l
    ++ [I OpPushArr (OInt (zlen l))]
  | EIdx b i => compile_expr b ++ compile_expr i ++ [I OpItemGet ONil]
  | ERoll x y =>
    compile_expr x ++ [I OpDiceInit ONil; I OpDiceSetTimes ONil]
    ++ compile_expr y ++ [I OpMarkDetail (OSpan 0 0); I OpDice ONil]
  end.

(* number of instructions of a statement (depends on d through break / continue) *)
Fixpoint ssize (d : nat) (s : stmt) : Z :=
  match s with
  | SNop => 0
  | SExpr e => zlen (compile_expr e)
  | SSeq a b => ssize d a + ssize d b
  | SIf c t e => zlen (compile_expr c) + 2 + ssize (S d) t + 1 + ssize (S d) e + 1
  | SWhile c b => 1 + zlen (compile_expr c) + 1 + ssize 0 b + 1 + 1
  | SBreak | SContinue => Z.of_nat d + 1
  end.

Definition pops (d : nat) : code := repeat (I OpBlockPop ONil) d.

Fixpoint compile_stmt (d : nat) (bo ao : Z) (s : stmt) : code :=
  match s with
  | SNop => []
  | SExpr e => compile_expr e
  | SSeq a b => compile_stmt d bo (ao + ssize d b) a ++ compile_stmt d (bo + ssize d a) ao b
  | SIf c t e =>
    let cc := compile_expr c in
    let nt := ssize (S d) t in
    let ne := ssize (S d) e in
    cc ++ [I OpBlockPush ONil; I OpJne (OInt (nt + 1))]
       ++ compile_stmt (S d) (bo + zlen cc + 2) (ao + 1 + ne + 1) t
       ++ [I OpJmp (OInt ne)]
       ++ compile_stmt (S d) (bo + zlen cc + 2 + nt + 1) (ao + 1) e
       ++ [I OpBlockPop ONil]
  | SWhile c b =>
    let cc := compile_expr c in
    let nb := ssize 0 b in
    [I OpBlockPush ONil] ++ cc ++ [I OpJne (OInt (nb + 1))]
       ++ compile_stmt 0 (zlen cc + 1) 1 b
       ++ [I OpJmp (OInt (- (zlen cc + 1 + nb + 1)))]
       ++ [I OpBlockPop ONil]
  | SBreak => pops d ++ [I OpJmp (OInt ao)]
  | SContinue => pops d ++ [I OpJmp (OInt (- (bo + Z.of_nat d + 1)))]
  end.

Definition compile (p : stmt) : code := compile_stmt 0 0 0 p ++ [I OpHalt ONil].
