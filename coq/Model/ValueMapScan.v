(* Range / Length of valuemap.go under concurrency, as a LAYER on top of the interleaving model
   Model/ValueMapConc.v (which is left untouched).

   A single scanner thread runs the Go code of Range (Length performs exactly the same memory
   actions and counts the visited entries instead of passing them to the callback):

       read := m.loadReadOnly()                      ScLoadRead   atomic load of m.read
       if read.amended {
           m.mu.Lock()                               ScLock       enabled only when the mutex is free
           read = m.loadReadOnly()                   ScLocked     the lock-protected region, ONE step
           if read.amended { read = readOnly{m: m.dirty}; m.read.Store(&read);
                             m.dirty = nil; m.misses = 0 }
           m.mu.Unlock()                             ScUnlock
       }
       for k in sorted keys of read.m {              the table taken above is immutable
           v, ok := read.m[k].load()                 ScEntry      ONE atomic load of one entry cell
           if !ok { continue }
           f(k, v)   /   n++
       }
                                                     ScDone       response

   The scanner reads and writes the SAME `shared` record as the point-operation threads and is
   interleaved with their (unchanged) step function `cstep`: a schedule is a list of `who`, each
   element lets either one point-operation thread or the scanner perform one atomic action.
   The granularity is that of Model/ValueMapConc.v (lock acquisition, the whole locked region,
   and the release are one step each; atomics are sequentially consistent).

   The mutex: the existing `s_lock : option nat` field is used, with a holder id `sc_sid` that is
   not the id of any point-operation thread (for `sinit threads`, the number of threads).  The
   existing step relation needs no change for this: `try_lock` of a point thread only succeeds on
   `None`, and only a thread at a PUnlock / P*Locked pc releases / uses the mutex, which (by the
   invariant of Proofs/ValueMapConcInv.v) is then the holder itself.

   Abstractions specific to this layer: the callback always continues and does not touch the map
   (a callback that breaks sees a prefix of the visited list); one scan per run. *)
From stdpp Require Import gmap.
From Coq Require Import NArith.
From DS Require Import Model.ValueMap Model.ValueMapConc.

(* program counter of the scanner *)
Inductive spc :=
| ScIdle                                               (* Range / Length not invoked yet *)
| ScLoadRead                                           (* invoked *)
| ScLock
| ScLocked
| ScUnlock (tbl : gmap key eid)
| ScEntry (todo : list (key * eid)) (acc : list (key * val))
| ScDone (acc : list (key * val)).                     (* returned; acc = the visited pairs *)

(* "sorted keys of read.m": the table as a list of (key, entry) sorted by key.
   (eid = val = N, so the insertion sort of Model/ValueMap.v is reused as is.) *)
Definition sorted_tbl (m : gmap key eid) : list (key * eid) := sort_pairs (map_to_list m).

(* one atomic action of the scanner; sid = its identity as a mutex holder *)
Definition scstep (sid : nat) (s : shared) (p : spc) : shared * spc :=
  match p with
  | ScIdle => (s, ScLoadRead)
  | ScLoadRead => if s_am s then (s, ScLock) else (s, ScEntry (sorted_tbl (s_rd s)) [])
  | ScLock =>
    match s_lock s with
    | None => (set_lock s (Some sid), ScLocked)
    | Some _ => (s, ScLock)
    end
  | ScLocked => let s' := if s_am s then promote s else s in (s', ScUnlock (s_rd s'))
  | ScUnlock tbl => (set_lock s None, ScEntry (sorted_tbl tbl) [])
  | ScEntry [] acc => (s, ScDone acc)
  | ScEntry ((k, e) :: rest) acc =>
    (s, ScEntry rest (match kload (s_cell s e) with Some v => acc ++ [(k, v)] | None => acc end))
  | ScDone _ => (s, p)
  end.

(* ---- combined system -------------------------------------------------------- *)
Record sconf := { sc_c : conf; sc_sid : nat; sc_pc : spc }.

Inductive who := Th (t : nat) | Scan.

Definition with_sh (c : conf) (s : shared) : conf :=
  {| c_sh := s; c_thr := c_thr c; c_hist := c_hist c |}.

Definition sstep1 (x : sconf) (w : who) : sconf :=
  match w with
  | Th t => {| sc_c := cstep (sc_c x) t; sc_sid := sc_sid x; sc_pc := sc_pc x |}
  | Scan =>
    let '(s', p') := scstep (sc_sid x) (c_sh (sc_c x)) (sc_pc x) in
    {| sc_c := with_sh (sc_c x) s'; sc_sid := sc_sid x; sc_pc := p' |}
  end.

Definition srun (x : sconf) (ws : list who) : sconf := fold_left sstep1 ws x.

(* all configurations passed through, the initial one first *)
Fixpoint strace (x : sconf) (ws : list who) : list sconf :=
  x :: match ws with [] => [] | w :: r => strace (sstep1 x w) r end.

Definition sinit (threads : list (list cop)) : sconf :=
  {| sc_c := init_conf threads; sc_sid := length threads; sc_pc := ScIdle |}.

(* ---- observations ----------------------------------------------------------- *)
Definition sc_sh (x : sconf) : shared := c_sh (sc_c x).

(* the abstract contents of the map in a shared state: what a Load of every key would see
   (pointwise equal to abs_lookup of Proofs/ValueMapConcInv.v, and equal to the abstract map
   g_abs of the linearization proof in every reachable state: ValueMapScanProofs.abs_of_lin) *)
Definition abs_of (s : shared) : gmap key val :=
  omap (fun e => kload (s_cell s e))
       (s_rd s ∪ (if s_am s then default ∅ (s_dirty s) else ∅)).

(* strictly between invocation and response *)
Definition sc_active (p : spc) : bool :=
  match p with ScIdle | ScDone _ => false | _ => true end.
Definition sc_idle (p : spc) : bool := match p with ScIdle => true | _ => false end.

Definition range_result (x : sconf) : option (list (key * val)) :=
  match sc_pc x with ScDone acc => Some acc | _ => None end.
Definition length_result (x : sconf) : option nat := length <$> range_result x.

(* no point operation in progress *)
Definition quiescent (c : conf) : Prop :=
  forall t ts, c_thr c !! t = Some ts -> t_pc ts = PIdle.

(* ---- small tests ------------------------------------------------------------ *)
Definition demo_threads : list (list cop) :=
  [[CStore 1 1]; [CStore 2 3; CLoadAndDelete 1]]%N.
(* Store(1,1) completes; the scan is invoked, promotes, takes the table {1}; thread 1 runs
   Store(2,3) and LoadAndDelete(1) to completion; the scan loads the cell of key 1 and returns *)
Definition demo_sched : list who :=
  repeat (Th 0) 6 ++ repeat Scan 5 ++ repeat (Th 1) 11 ++ repeat Scan 2.

Definition contents (x : sconf) : list (key * val) := map_to_list (abs_of (sc_sh x)).
