"""C08 — compiled code is well-formed on every path, not only the path taken.

Proof: Model/Verify.v `check` (an inductive-annotation checker over lower bounds of stack / saved heights,
exact block depths, dice / detail / lastPop facts) is sound for the shape-level machine Model/Bytecode.v
(Properties/C08.v).  Use: translation validation — the proved verifier runs INSIDE Coq on the byte-code that the
implementation's parser produced (ctx.VerifCode(), nested function / computed bodies included) for every accepted
input of a corpus.  A rejected program is attributed to a recorded finding only when the shape-level repair of
exactly that cause makes the verifier accept it; anything else is searched on the real VM for a failing run."""
import json
import os
import re
import time

import common
from common import Broken

LEVEL = "proof"
PID = "C08"

MY_COQ_FILES = ["Model/Bytecode.v", "Model/Verify.v", "Proofs/VerifyProofs.v", "Corr/Corr08.v"]

HEADER = ("From Coq Require Import String NArith ZArith List.\n"
          "From DS Require Import Model.Bytecode Model.Verify Corr.Corr08.\n"
          "Import ListNotations.\nOpen Scope string_scope.\nSet Printing Width 1000000. Set Printing Depth 10000000.\n"
          "Notation I := (fun t n o b => Instr (N.of_nat t) n o b).\n")

REASONS = {0: "-", 1: "Underflow", 2: "BadJump", 3: "BadOperand", 4: "BlockUnderflow", 5: "BlockMismatch",
           6: "NoDiceState", 7: "NoDetail", 8: "NoLastPop"}
KINDS = {1: "rejected", 2: "no-fixpoint", 3: "inferred-annotation-fails-check", 4: "mnemonic-numbering-mismatch"}

E3 = "E3:无效的表达式"


# ---------------------------------------------------------------- Coq side
def ensure_compiled():
    """Compile this property's Coq files when their .vo is missing or older than a source they depend on
    (they are compiled by `make` as well once listed in _CoqProject; this keeps the check self-contained)."""
    with common.Lock("coqmake"):
        newest = 0.0
        for f in MY_COQ_FILES:
            src = os.path.join(common.COQ, f)
            vo = src[:-2] + ".vo"
            newest = max(newest, os.path.getmtime(src))
            if not os.path.exists(vo) or os.path.getmtime(vo) < newest:
                r = common.sh(["timeout", "900", "coqc", "-q", "-Q", ".", "DS", f], cwd=common.COQ)
                if r.returncode != 0:
                    raise Broken("coq-build " + f, r.stdout[-3000:])
                newest = max(newest, os.path.getmtime(vo))


def property_file_alone():
    src = os.path.join(common.COQ, "Properties", PID + ".v")
    theorems = re.findall(r"^\s*Theorem\s+([A-Za-z0-9_']+)", open(src).read(), re.M)
    with common.Lock("coqmake"):
        r = common.sh(["timeout", "1200", "coqc", "-q", "-Q", ".", "DS", os.path.join("Properties", PID + ".v")], cwd=common.COQ)
    if r.returncode != 0:
        raise Broken(f"theorem-file Properties/{PID}.v", r.stdout[-4000:])
    closed = len(re.findall(r"Closed under the global context", r.stdout))
    axioms = sorted(set(re.findall(r"^([A-Za-z0-9_.']+)\s*:", r.stdout, re.M)))
    blocks = len(re.findall(r"^Axioms:", r.stdout, re.M))
    return dict(obligations=len(theorems), discharged=closed + blocks, axioms=axioms, theorems=theorems, refuted=[], partial=[])


def opd_term(kind, val):
    k = kind.split(":")[0]
    if k == "i":
        return f"(PInt ({int(val)})%Z)"
    return {"nil": "PNil", "f": "PFloat", "s": "PStr", "s0": "PStr", "span": "PSpan", "st": "PSt", "fn": "PFn",
            "cust": "PCust", "bad": "PBad"}[k]


def code_term(code):
    items = []
    for t, name, kind, val, body in code:
        b = "None" if body is None else f"(Some {code_term(body)})"
        items.append(f"I {int(t)} {common.coq_string(name)} {opd_term(kind, val)} {b}")
    return "[" + ";".join(items) + "]"


def verify_v(programs):
    return (HEADER + "Definition cases : list code := [\n" + ";\n".join(code_term(p) for p in programs) + "].\n"
            "Definition rej := Eval vm_compute in rejected 0%N cases.\nPrint rej.\n"
            "Definition inc := Eval vm_compute in inconsistent 0%N cases.\nPrint inc.\n"
            "Definition nb := Eval vm_compute in total_bodies cases.\nPrint nb.\n")


ROW = re.compile(r"\((\d+)%N, \[([\d; ]*)\], (\d+), (\d+), (\d+)\)")


def run_verifier(programs, tag, shard=400):
    """-> (rejections [(index, path, kind, pc, reason)], nested body count)"""
    ks = list(range(0, len(programs), shard))
    outs = common.coq_eval_many([(f"c08_{tag}_{k}", verify_v(programs[k:k + shard])) for k in ks])
    rej, bodies = [], 0
    for k, out in zip(ks, outs):
        m = re.search(r"rej\s*=\s*(.*?)\n\s*:", out, re.S)
        if not m:
            raise Broken("coq-output", out[-1500:])
        body = m.group(1).replace("%nat", "")
        found = ROW.findall(body)
        if body.strip() not in ("[]", "nil") and not found:
            raise Broken("coq-output (rows)", body[:1500])
        for idx, path, kind, pc, r in found:
            rej.append((k + int(idx), [int(x) for x in path.split(";") if x.strip()], int(kind), int(pc), int(r)))
        inc = common.parse_coq_list(out, "inc")
        if inc:
            raise Broken("Corr08.report_consistent: verify_all and diagnose_all disagree", {"indices": inc[:5]})
        mb = re.search(r"nb\s*=\s*(\d+)", out)
        bodies += int(mb.group(1)) if mb else 0
    return rej, bodies


def trace_v(cases):
    items = []
    for c in cases:
        tr = "[" + ";".join(str(int(p)) for p in c["trace"]) + "]"
        items.append(f"({code_term(c['code'])}, {tr}, {int(c['ended'])}%N, {int(c['top'])})")
    return (HEADER + "Definition cases : list trace_case := [\n" + ";\n".join(items) + "].\n"
            "Definition bad := Eval vm_compute in bad_traces 0%N cases.\nPrint bad.\n")


# ---------------------------------------------------------------- attribution to recorded findings
def body_at(code, path):
    for p in path:
        code = code[p][4]
    return code


def map_bodies(code, f):
    out = []
    for op in code:
        op = list(op)
        if op[4] is not None:
            op[4] = map_bodies(op[4], f)
        out.append(op)
    return f(out)


def repair_valueless(code, src=""):
    """attr.set / item.set / slice.set given a result value: same pops, one push
    (attr.set -> shape of `add`, item.set -> `invoke 2`, slice.set -> `invoke 4`)."""
    n = [0]

    def f(c):
        for op in c:
            if op[1] == "attr.set":
                op[0:4] = [28, "add", "nil", 0]
                n[0] += 1
            elif op[1] == "item.set":
                op[0:4] = [20, "invoke", "i", 2]
                n[0] += 1
            elif op[1] == "slice.set":
                op[0:4] = [20, "invoke", "i", 4]
                n[0] += 1
        return c
    return map_bodies(code, f), n[0]


def repair_jedup(code, src=""):
    """a `je.dup 0` is never emitted by a completed `||` (offsets are >= 1): it is the placeholder of an
    abandoned right operand; without it the left value simply stays."""
    n = [0]

    def f(c):
        for op in c:
            if op[1] == "je.dup" and op[2] == "i" and int(op[3]) == 0:
                op[0:4] = [74, "nop", "nil", 0]
                n[0] += 1
        return c
    return map_bodies(code, f), n[0]


def repair_ternary(code, src=""):
    """`c ? x` + `, item`: the item's code sits between the arm's `jmp k` and the default `push.str ""`, inside
    the range the jump skips.  Signature: jmp k (k >= 2) whose last skipped instruction is `push.str ""` and whose
    skipped range before it is self-contained (every jump in it stays in it, no halt/ret) — a proper further arm
    ends with a jmp that leaves the range.  Shape-level repair: the jump (and the jumps of the earlier arms to the
    same end) lands ON the default push (k-1), which gives the taken path the height of the other path."""
    n = [0]

    def f(c):
        for p, op in enumerate(c):
            if op[1] != "jmp" or op[2] != "i":
                continue
            k = int(op[3])
            if k < 2 or p + k >= len(c):
                continue
            last = c[p + k]
            if not (last[1] == "push.str" and last[2] == "s0"):
                continue
            ok = True
            for q in range(p + 1, p + k):
                o = c[q]
                if o[1] in ("halt", "ret"):
                    ok = False
                if o[1] in ("jmp", "je", "jne", "je.dup"):
                    if o[2] != "i":
                        ok = False
                    else:
                        t = q + int(o[3]) + 1
                        if not (p + 1 <= t <= p + k):
                            ok = False
            if ok:
                # the earlier arms of the same ternary jump to the same end: they skip the item's code as well
                for q in range(p):
                    o = c[q]
                    if o[1] == "jmp" and o[2] == "i" and q + int(o[3]) + 1 == p + k + 1:
                        o[3] = int(o[3]) - 1
                op[3] = k - 1
                n[0] += 1
        return c
    return map_bodies(code, f), n[0]


def repair_ternary_tail(code, src=""):
    """the same root cause with the abandoned item at the END of the multi-way ternary (`x = 1 ? 2, 3 ?`, `g = c ? a, 1 ? 's`):
    the item emitted its condition and its `jne` (and perhaps the beginning of its value) and pushed the jne's index before it
    failed; the closing action then patches that jne to the end of the ternary, OVER the default `push.str ""` — in a complete
    ternary every jne lands on the next item or on the default, never behind it — and, when the offsets ran out, leaves the
    previous arm's jmp as `jmp 0`.  Signature: a `jne` whose target is the instruction right behind a `push.str ""`, the code in
    between being self-contained.  Shape-level repair: that jne lands ON the default push; a `jmp 0` of the previous arm right
    before the abandoned condition lands behind the default."""
    n = [0]
    ctl = ("halt", "ret", "jmp", "je", "jne", "je.dup", "block.push", "block.pop", "fstr.block.push", "fstr.block.pop")

    def f(c):
        for q, op in enumerate(c):
            if not (op[1] == "jne" and op[2] == "i"):
                continue
            k = int(op[3])
            t = q + k + 1                      # target
            if k < 1 or t > len(c):
                continue
            d = c[t - 1]
            if not (d[1] == "push.str" and d[2] == "s0"):
                continue
            if any(c[x][1] in ctl for x in range(q + 1, t - 1)):
                continue
            op[3] = k - 1
            n[0] += 1
            # the previous arm's unpatched jmp, with only the abandoned condition between it and this jne
            p = next((x for x in range(q - 1, -1, -1) if c[x][1] in ctl), None)
            if p is not None and c[p][1] == "jmp" and c[p][2] == "i" and int(c[p][3]) == 0:
                c[p][3] = t - p - 1
        return c
    return map_bodies(code, f), n[0]


ARRAY_SLICE = re.compile(r"\]\s*\[[^\]]*:")


def repair_array_slice(code, src=""):
    """slice on an array literal: array_call tries item-get first, emits the index code and fails at `:`; the slice
    suffix then finds the index memoised and does not emit it again, so the first bound sits right behind push.arr —
    misplaced as soon as anything is emitted in between (`1 || [1,2][0:1]`).  Only for sources that contain an
    array literal directly followed by `[ ... :`; shape-level repair: the slice instruction takes one operand less
    (slice.get -> shape of `invoke 2`, slice.set -> `popn 4`)."""
    n = [0]
    if not ARRAY_SLICE.search(src or ""):
        return code, 0

    def f(c):
        for op in c:
            if op[1] == "slice.get":
                op[0:4] = [20, "invoke", "i", 2]
                n[0] += 1
            elif op[1] == "slice.set":
                op[0:4] = [73, "popn", "i", 4]
                n[0] += 1
        return c
    return map_bodies(code, f), n[0]


REPAIRS = [("valueless-assignment-used-as-value", repair_valueless),
           ("ternary-list-misplaced-item-code", repair_ternary),
           ("ternary-list-misplaced-item-code", repair_ternary_tail),
           ("abandoned-or-operand-unpatched-jedup", repair_jedup),
           ("array-literal-slice-misplaced-index-code", repair_array_slice)]


def repair_candidates(code, src):
    """all non-empty subsets of applicable repairs, smallest first -> [(keys, repaired code)]"""
    applicable = []
    for key, fn in REPAIRS:
        _, n = fn(json.loads(json.dumps(code)), src)
        if n:
            applicable.append((key, fn))
    out = []
    m = len(applicable)
    subsets = sorted(range(1, 1 << m), key=lambda b: (bin(b).count("1"), b))
    for bits in subsets:
        c = json.loads(json.dumps(code))
        keys = []
        for j, (key, fn) in enumerate(applicable):
            if bits >> j & 1:
                c, _ = fn(c, src)
                keys.append(key)
        out.append((keys, c))
    return out


def describe(row, rj):
    idx, path, kind, pc, r = rj
    body = body_at(row["code"], path)
    op = body[pc][1] if kind == 1 and pc < len(body) else "?"
    return {"src": row["src"], "cfg": row["cfg"], "origin": row["origin"], "body_path": path, "verdict": KINDS.get(kind, kind),
            "pc": pc, "reason": REASONS.get(r, r), "opcode_at_pc": op,
            "listing": [f"{i}: {o[1]}" + (f" {o[3]}" if o[2] == "i" else "") for i, o in enumerate(body)][:120]}


# ---------------------------------------------------------------- the check
def run(res, tier, seed):
    common.build_harness()
    n = 1200 if tier == "quick" else 12000
    t0 = time.time()
    rows, _ = common.run_harness(["c08", "-seed", seed, "-n", n, "-repo", common.REPO], timeout=1800)
    stats = rows[-1]
    rows = rows[:-1]
    st = stats["stats"]
    common.log(f"[c08] corpus: {st.get('inputs')} inputs, {st.get('accepted')} accepted, {len(rows)} distinct code shapes "
               f"({time.time()-t0:.1f}s)")
    known = {f["key"]: f for f in common.known_for(PID)}

    res.cov["rule"] = ("one evaluation = one ACCEPTED (input, configuration) whose byte-code dump was judged by the proved verifier "
                       "(programs with the same code shape — opcodes, integer operands, operand kinds, nested bodies — are judged "
                       "once); distinct = distinct code shapes; non-trivial = contains a jump, a block, a dice term, a template "
                       "hole or a nested body")
    res.cov["input_distribution"] = {
        "inputs_parsed": st.get("inputs"), "accepted_by_parser": st.get("accepted"), "rejected_by_parser": st.get("rejected_by_parser"),
        "configurations": ["all dice families on", "library default", "est flags (no statements / no N-dice / no bitwise)"],
        "by_origin_accepted": {k[len("accepted_"):]: v for k, v in st.items() if k.startswith("accepted_")},
        "by_origin_inputs": {k[len("inputs_"):]: v for k, v in st.items() if k.startswith("inputs_")},
        "origins": {"seed": "hand-written programs covering every grammar construct and the known left-over shapes",
                    "gen": "grammar-directed random programs (all operators, ternaries incl. multi-way, templates, arrays, dicts, "
                           "ranges, index/slice/attr get+set, calls, if/else-if/else, while+break/continue, functions, computed, "
                           "all dice families, st commands)",
                    "test": "every string literal of the repository's *_test.go files",
                    "tail": "valid program + garbage tail", "cut": "valid program + separator + truncated valid program",
                    "mut": "byte / token mutations", "lazy": "function / computed texts the implementation compiles only when called"},
        "scraped_test_literals": stats.get("scraped_literals"), "lazily_compiled_bodies_parsed_separately": st.get("lazy_bodies", 0)}
    if stats.get("parse_panics"):
        # vm.Parse must not panic (C01); for C08 such an input is not "accepted", but it is a failing input all the same
        for pp in stats["parse_panics"][:2]:
            res.violation({"what": "vm.Parse panicked (the parser's helper stacks were unbalanced by left-over actions)", **pp})

    def nontrivial(code):
        for op in code:
            if op[1] in ("jmp", "je", "jne", "je.dup", "block.push", "fstr.block.push", "dice", "dice.wod", "dice.dc", "dice.fate",
                         "coc.bonus", "coc.penalty") or op[4] is not None:
                return True
        return False
    for r in rows:
        res.count(json.dumps(r["code"]), nontrivial=nontrivial(r["code"]))
    for r in rows[:2] + rows[len(rows) // 2: len(rows) // 2 + 2]:
        res.sample({"src": r["src"], "cfg": r["cfg"], "ops": [o[1] for o in r["code"]][:40]})

    # ---- proof
    ensure_compiled()
    try:
        info = common.check_property_file(PID)
    except Broken as b:
        if not str(b.what).startswith("coq-build") or any(f[:-2] in str(b.what) for f in MY_COQ_FILES):
            raise
        # somebody else's file in the shared project does not build right now: this property's own files are
        # compiled above, so its theorem file can still be checked on its own
        common.log(f"[c08] shared Coq build broken elsewhere ({b.what}); checking Properties/C08.v directly")
        info = property_file_alone()
    res.proof(info, "cd coq && make && coqc -Q . DS Properties/C08.v  (Print Assumptions parsed)")
    res.cov["trusted_base"] += [
        "Model/Bytecode.v is a hand-written SHAPE model of rollvm.go evaluate(): per opcode the number of pops / pushes, the auxiliary "
        "state it indexes, the operand type assertion, the jump arithmetic; values are abstracted (both arms of every conditional jump "
        "are successors). It is tied to the code by replaying executed-instruction traces of the real VM (Config.PrintBytecode) on the "
        "model: every executed step must be a model step, final stack heights must agree, an E3 / panic end must be a stuck model state",
        "universality over the implementation's compiler output is CASE BY CASE: translation validation of each dumped program by the "
        "proved verifier; no theorem about parser.go / roll.peg.go is claimed",
        "the dump accessor ctx.VerifCode() (verif_hooks.go) and the Python translation of the dump into a Coq term "
        "(opcode number, mnemonic — cross-checked against the numbering of Model/Bytecode.v inside Coq —, operand kind, integer operand, body)",
        "bodies that the implementation compiles lazily (no code in the dump) are parsed separately from their text and judged as programs",
    ]

    # ---- the verifier on the implementation's output
    programs = [r["code"] for r in rows]
    rej, nbodies = run_verifier(programs, "v")
    rej_by_prog = {}
    for rj in rej:
        rej_by_prog.setdefault(rj[0], []).append(rj)
    common.log(f"[c08] verifier: {len(programs)} programs, {nbodies} nested bodies, {len(rej_by_prog)} programs rejected")

    # ---- attribution of rejected programs to recorded findings
    cand = []       # (program index, keys, repaired code)
    for idx in sorted(rej_by_prog):
        if any(rj[2] == 4 for rj in rej_by_prog[idx]):
            continue    # numbering mismatch: nothing to repair
        for keys, c in repair_candidates(programs[idx], rows[idx]["src"]):
            cand.append((idx, keys, c))
    attributed, per_key, examples = {}, {}, {}
    if cand:
        rej2, _ = run_verifier([c for _, _, c in cand], "r")
        still = {i for i, *_ in rej2}
        for j, (idx, keys, _) in enumerate(cand):
            if j not in still and idx not in attributed and all(k in known for k in keys):
                attributed[idx] = keys
        for idx, keys in attributed.items():
            for k in keys:
                per_key[k] = per_key.get(k, 0) + 1
                d = describe(rows[idx], rej_by_prog[idx][0])
                if k not in examples or len(d["src"]) < len(examples[k]["src"]):
                    examples[k] = d
    unattributed = [idx for idx in sorted(rej_by_prog) if idx not in attributed]

    for k in sorted(per_key):
        e = examples[k]
        res.known(f"key={k} rejected_programs={per_key[k]} e.g. input={json.dumps(e['src'], ensure_ascii=False)} cfg={e['cfg']} "
                  f"verifier={e['reason']}@pc{e['pc']}({e['opcode_at_pc']})")

    # ---- the real VM on rejected programs: confirmation for attributed ones (sample), search for the others
    confirm = sorted(attributed, key=lambda i: len(rows[i]["src"]))[:40]
    todo = unattributed[:60] + confirm
    hits = {}
    if todo:
        inp = "\n".join(json.dumps({"src": rows[i]["src"], "cfg": rows[i]["cfg"]}, ensure_ascii=False) for i in todo) + "\n"
        outs, _ = common.run_harness(["c08-run", "-seed", seed, "-n", 40 if tier == "quick" else 200], stdin=inp, timeout=1500)
        for i, o in zip(todo, outs):
            hits[i] = o
    res.cov["verifier_on_implementation_output"] = {
        "programs_dumped": st.get("accepted"), "distinct_programs_judged": len(programs), "nested_bodies_checked": nbodies,
        "accepted_by_verify": len(programs) - len(rej_by_prog), "rejected": len(rej_by_prog),
        "rejected_matched_to_known_findings": len(attributed), "by_key": per_key, "rejected_unmatched": len(unattributed),
        "attributed_programs_rerun_on_real_VM": len(confirm),
        "of_those_failing_with_E3_or_panic_under_some_variable_binding": sum(1 for i in confirm if hits.get(i, {}).get("hits")),
        "note": "acceptance of the implementation's output is validated per program (translation validation by a proved checker), "
                "not proved for the compiler"}

    nviol = 0
    # rejections for which the search found a failing run are reported first (they carry the replayable input)
    for idx in sorted(unattributed, key=lambda i: (0 if hits.get(i, {}).get("hits") else 1, i)):
        if nviol >= 3:
            break
        d = describe(rows[idx], rej_by_prog[idx][0])
        d["all_verdicts"] = [describe(rows[idx], rj) | {"listing": None} for rj in rej_by_prog[idx]][:5]
        h = hits.get(idx, {})
        if h.get("hits"):
            res.violation({"what": "compiled code is ill-formed and the real VM fails on it (E3 guard / panic)", "input": d["src"], "cfg": d["cfg"],
                           "failing_run": h["hits"][0], "verifier": d,
                           "replay": "harness c08-run <<< {src,cfg}: pre-binds the listed variables, runs vm.Run(src)"})
        else:
            res.violation({"what": "the proved verifier rejects byte-code the parser produced; no failing run found", "verifier": d,
                           "runs_tried": h.get("runs"), "other_panics": h.get("other_panics")}, no_input=True)
        nviol += 1

    # ---- correspondence of the shape model with the real VM: executed paths
    pick = list(range(0, len(rows), max(1, len(rows) // (500 if tier == "quick" else 3000))))
    pick = sorted(set(pick) | set(sorted(rej_by_prog)[:100]))
    inp = "\n".join(json.dumps({"src": rows[i]["src"], "cfg": rows[i]["cfg"]}, ensure_ascii=False) for i in pick) + "\n"
    traces, _ = common.run_harness(["c08-trace"], stdin=inp, timeout=900)
    usable = [t for t in traces if t["ended"] != 4 and t.get("trace") and len(t["trace"]) <= 6000]
    ended = {}
    for t in traces:
        ended[t["ended"]] = ended.get(t["ended"], 0) + 1
    shard = 250
    ks = list(range(0, len(usable), shard))
    outs = common.coq_eval_many([(f"c08_t_{k}", trace_v(usable[k:k + shard])) for k in ks])
    bad = []
    for k, out in zip(ks, outs):
        bad += [k + int(x.replace("%N", "")) for x in common.parse_coq_list(out, "bad")]
    res.cov["correspondence"] = {"traced_runs": len(traces), "replayed_on_model": len(usable), "disagreements": len(bad),
                                 "executed_instructions": sum(len(t["trace"]) for t in usable),
                                 "ended": {"ok": ended.get(0, 0), "value_error": ended.get(1, 0), "panic_in_evaluate": ended.get(2, 0),
                                           "E3": ended.get(3, 0), "panic_below_evaluate_skipped": ended.get(4, 0)}}
    for t in traces:
        if t["ended"] == 2 and nviol < 3:
            res.violation({"what": "Go panic raised by evaluate() itself", "input": t["src"], "cfg": t["cfg"], "panic": t.get("panic"),
                           "site": t.get("site"), "executed_pcs": t["trace"][-20:]})
            nviol += 1
    seen_bad = set()
    for b in bad:
        t = usable[b]
        if (t["src"], t["cfg"]) in seen_bad or len(seen_bad) >= 2:
            continue
        seen_bad.add((t["src"], t["cfg"]))
        res.violation({"what": "the real VM's executed path is not a path of Model/Bytecode.v (or heights / stuckness disagree)",
                       "broken": "correspondence Corr08.trace_ok", "input": t["src"], "cfg": t["cfg"], "trace": t["trace"][:200],
                       "ended": t["ended"], "top": t["top"], "err": t.get("err"), "panic": t.get("panic"),
                       "ops": [f"{i}: {o[1]}" + (f" {o[3]}" if o[2] == "i" else "") for i, o in enumerate(t["code"])][:150]},
                      no_input=False)


def replay(path):
    p = json.load(open(path))
    print(json.dumps(p, indent=1, ensure_ascii=False))
    src = p.get("input") or (p.get("verifier") or {}).get("src")
    cfg = p.get("cfg") or (p.get("verifier") or {}).get("cfg") or "all"
    if src is not None:
        common.build_harness()
        outs, _ = common.run_harness(["c08-run", "-seed", 1, "-n", 40], stdin=json.dumps({"src": src, "cfg": cfg}, ensure_ascii=False) + "\n")
        print(json.dumps(outs, indent=1, ensure_ascii=False))
        return 1 if outs and outs[0].get("hits") else 0
    return 0
