// Static footprint scan (translator, trusted base) for C06/C11: every package-level
// variable of the dicescript package with, per use inside a function body: the enclosing
// function, whether the use is a write / address-taken / method call / read, and whether it
// lies lexically inside a Lock()…Unlock() region of the same function. go/ast only
// (identifier resolution of the parser handles local shadowing).
package main

import (
	"encoding/json"
	"fmt"
	"go/ast"
	"go/parser"
	"go/token"
	"os"
	"path/filepath"
	"sort"
	"strings"
)

type Use struct {
	Var    string `json:"var"`
	Func   string `json:"func"`
	Kind   string `json:"kind"` // read | write | addr | method
	Locked bool   `json:"locked"`
	File   string `json:"file"`
	Line   int    `json:"line"`
}

type Out struct {
	Vars     []string `json:"vars"`
	VarTypes []string `json:"varTypes"`
	Uses     []Use    `json:"uses"`
	// calls of package-level functions of math/rand-like packages (shared hidden state)
	RandCalls []Use `json:"randCalls"`
}

func main() {
	dir := os.Args[1]
	fset := token.NewFileSet()
	matches, _ := filepath.Glob(filepath.Join(dir, "*.go"))
	var files []*ast.File
	names := map[*ast.File]string{}
	for _, m := range matches {
		base := filepath.Base(m)
		if strings.HasSuffix(base, "_test.go") || strings.HasPrefix(base, "verif_hooks") {
			continue
		}
		f, err := parser.ParseFile(fset, m, nil, parser.ParseComments)
		if err != nil {
			fmt.Fprintln(os.Stderr, err)
			os.Exit(1)
		}
		files = append(files, f)
		names[f] = base
	}
	vars := map[string]string{}
	for _, f := range files {
		for _, d := range f.Decls {
			gd, ok := d.(*ast.GenDecl)
			if !ok || gd.Tok != token.VAR {
				continue
			}
			for _, sp := range gd.Specs {
				vs := sp.(*ast.ValueSpec)
				for _, n := range vs.Names {
					if n.Name == "_" {
						continue
					}
					if n.Obj != nil {
						pkgLevelObjs[n.Obj] = true
					}
					t := ""
					if vs.Type != nil {
						t = exprString(vs.Type)
					}
					vars[n.Name] = t
				}
			}
		}
	}
	out := Out{}
	for v := range vars {
		out.Vars = append(out.Vars, v)
	}
	sort.Strings(out.Vars)
	for _, v := range out.Vars {
		out.VarTypes = append(out.VarTypes, vars[v])
	}
	// import names of random packages
	for _, f := range files {
		randNames := map[string]bool{}
		for _, im := range f.Imports {
			p := strings.Trim(im.Path.Value, "\"")
			if p == "math/rand" || p == "golang.org/x/exp/rand" || p == "math/rand/v2" {
				n := "rand"
				if im.Name != nil {
					n = im.Name.Name
				}
				randNames[n] = true
			}
		}
		for _, d := range f.Decls {
			fd, ok := d.(*ast.FuncDecl)
			if !ok || fd.Body == nil {
				continue
			}
			fname := fd.Name.Name
			if fd.Recv != nil && len(fd.Recv.List) > 0 {
				fname = exprString(fd.Recv.List[0].Type) + "." + fname
			}
			scanFunc(fset, names[f], fname, fd.Body, vars, randNames, &out)
		}
		// package-level initialisers: function literals inside var decls
		for _, d := range f.Decls {
			gd, ok := d.(*ast.GenDecl)
			if !ok || gd.Tok != token.VAR {
				continue
			}
			for _, sp := range gd.Specs {
				vs := sp.(*ast.ValueSpec)
				for _, val := range vs.Values {
					ast.Inspect(val, func(n ast.Node) bool {
						if fl, ok := n.(*ast.FuncLit); ok {
							scanFunc(fset, names[f], "<initializer>", fl.Body, vars, randNames, &out)
							return false
						}
						return true
					})
				}
			}
		}
	}
	b, _ := json.Marshal(out)
	fmt.Println(string(b))
}

func exprString(e ast.Expr) string {
	switch x := e.(type) {
	case *ast.Ident:
		return x.Name
	case *ast.StarExpr:
		return "*" + exprString(x.X)
	case *ast.SelectorExpr:
		return exprString(x.X) + "." + x.Sel.Name
	case *ast.ArrayType:
		return "[]" + exprString(x.Elt)
	case *ast.MapType:
		return "map[" + exprString(x.Key) + "]" + exprString(x.Value)
	case *ast.FuncType:
		return "func"
	case *ast.InterfaceType:
		return "interface"
	}
	return "?"
}

func isGlobal(id *ast.Ident, vars map[string]string) bool {
	if _, ok := vars[id.Name]; !ok {
		return false
	}
	if id.Obj == nil {
		return true // unresolved in file scope => package level (another file)
	}
	if vs, ok := id.Obj.Decl.(*ast.ValueSpec); ok {
		_ = vs
		return id.Obj.Kind == ast.Var && id.Obj.Pos() != token.NoPos && isPkgLevel(id.Obj)
	}
	return false
}

var pkgLevelObjs = map[*ast.Object]bool{}

func isPkgLevel(o *ast.Object) bool {
	// objects declared by a top-level ValueSpec have no enclosing function: we approximate by
	// checking that the declaration is a ValueSpec whose Names contain the object's own ident at
	// file scope; local `var x T` also is a ValueSpec, so compare with the collected positions
	return pkgLevelObjs[o]
}

func scanFunc(fset *token.FileSet, file, fname string, body *ast.BlockStmt, vars map[string]string, randNames map[string]bool, out *Out) {
	// lock regions: positions between X.Lock() and the matching X.Unlock() (or end of function when deferred)
	type region struct{ from, to token.Pos }
	var regions []region
	var lockPos []token.Pos
	deferred := false
	deferredCalls := map[*ast.CallExpr]bool{}
	ast.Inspect(body, func(n ast.Node) bool {
		switch x := n.(type) {
		case *ast.DeferStmt:
			if se, ok := x.Call.Fun.(*ast.SelectorExpr); ok && se.Sel.Name == "Unlock" {
				deferred = true
				deferredCalls[x.Call] = true
			}
		case *ast.CallExpr:
			if deferredCalls[x] {
				return true
			}
			if se, ok := x.Fun.(*ast.SelectorExpr); ok {
				if se.Sel.Name == "Lock" {
					lockPos = append(lockPos, x.Pos())
				}
				if se.Sel.Name == "Unlock" && len(lockPos) > 0 {
					regions = append(regions, region{lockPos[len(lockPos)-1], x.Pos()})
					lockPos = lockPos[:len(lockPos)-1]
				}
			}
		}
		return true
	})
	if deferred || len(lockPos) > 0 {
		for _, p := range lockPos {
			regions = append(regions, region{p, body.End()})
		}
	}
	locked := func(p token.Pos) bool {
		for _, r := range regions {
			if p > r.from && p < r.to {
				return true
			}
		}
		return false
	}
	add := func(id *ast.Ident, kind string) {
		pos := fset.Position(id.Pos())
		out.Uses = append(out.Uses, Use{Var: id.Name, Func: fname, Kind: kind, Locked: locked(id.Pos()), File: file, Line: pos.Line})
	}
	written := map[*ast.Ident]string{}
	ast.Inspect(body, func(n ast.Node) bool {
		switch x := n.(type) {
		case *ast.AssignStmt:
			for _, l := range x.Lhs {
				if id := rootIdent(l); id != nil {
					written[id] = "write"
				}
			}
		case *ast.IncDecStmt:
			if id := rootIdent(x.X); id != nil {
				written[id] = "write"
			}
		case *ast.UnaryExpr:
			if x.Op == token.AND {
				if id := rootIdent(x.X); id != nil {
					written[id] = "addr"
				}
			}
		case *ast.CallExpr:
			if se, ok := x.Fun.(*ast.SelectorExpr); ok {
				if id, ok := se.X.(*ast.Ident); ok {
					if randNames[id.Name] && id.Obj == nil {
						pos := fset.Position(x.Pos())
						switch se.Sel.Name {
						case "New", "NewSource", "NewPCG":
						default:
							out.RandCalls = append(out.RandCalls, Use{Var: id.Name + "." + se.Sel.Name, Func: fname, Kind: "call", File: file, Line: pos.Line})
						}
					}
					if _, isVar := vars[id.Name]; isVar {
						if _, done := written[id]; !done {
							written[id] = "method"
						}
					}
				}
			}
		}
		return true
	})
	ast.Inspect(body, func(n ast.Node) bool {
		id, ok := n.(*ast.Ident)
		if !ok {
			return true
		}
		if _, isVar := vars[id.Name]; !isVar {
			return true
		}
		if id.Obj != nil && !pkgLevelObjs[id.Obj] {
			return true // resolved to a local declaration (shadowing) or a parameter
		}
		kind := "read"
		if k, ok := written[id]; ok {
			kind = k
		}
		add(id, kind)
		return true
	})
}

func rootIdent(e ast.Expr) *ast.Ident {
	for {
		switch x := e.(type) {
		case *ast.Ident:
			return x
		case *ast.SelectorExpr:
			e = x.X
		case *ast.IndexExpr:
			e = x.X
		case *ast.StarExpr:
			e = x.X
		case *ast.ParenExpr:
			e = x.X
		default:
			return nil
		}
	}
}

func init() {
	// fill pkgLevelObjs lazily: done in main via a pre-pass; to keep this single-file simple we
	// re-parse here is not possible, so main registers objects through registerPkgObjs
}
