(* C18 — lemmas about Model/St.v: the st.* stack machine on the code of an edit list. *)
From Coq Require Import NArith ZArith List Bool Lia.
From DS Require Import Model.Str Model.St.
Import ListNotations.

Lemma str_eqb_refl : forall s, str_eqb s s = true.
Proof. induction s; cbn; [reflexivity|]. now rewrite N.eqb_refl. Qed.

Lemma str_eqb_eq : forall a b, str_eqb a b = true <-> a = b.
Proof.
  induction a; destruct b; cbn; split; intro H; try reflexivity; try discriminate.
  - destruct (N.eqb_spec a n); [|discriminate]. subst. f_equal. now apply IHa.
  - inversion H; subst. rewrite N.eqb_refl. now apply IHa.
Qed.

(* ---- one edit: generalised over the code that follows, the stack below and the log so far ---- *)
Lemma exec_edit : forall e rest stk log,
  negatable e ->
  st_exec (compile_edit e ++ rest) stk log = st_exec rest stk (callback_of e :: log).
Proof.
  intros e rest stk log Hn. destruct e; cbn; try reflexivity.
  destruct o; cbn; try reflexivity.
  unfold negatable in Hn. cbn in Hn. destruct (neg v); [reflexivity|discriminate].
Qed.

Lemma exec_edits : forall es rest stk log,
  all_negatable es ->
  st_exec (compile_st es ++ rest) stk log = st_exec rest stk (rev (map callback_of es) ++ log).
Proof.
  induction es as [|e es IH]; intros rest stk log Hn; [reflexivity|].
  inversion Hn; subst. unfold compile_st in *. cbn [flat_map]. rewrite <- app_assoc.
  rewrite exec_edit by assumption. rewrite IH by assumption.
  cbn [map rev]. now rewrite <- app_assoc.
Qed.

(* once each, in source order, name verbatim, value evaluated (sign-normalised for `-`), operator *)
Theorem st_trace : forall es,
  all_negatable es -> st_run (compile_st es) = Some (map callback_of es).
Proof.
  intros es Hn. unfold st_run. rewrite <- (app_nil_r (compile_st es)).
  rewrite exec_edits by assumption. cbn. now rewrite app_nil_r, rev_involutive.
Qed.

(* the same with anything below on the stack and a log already accumulated: the stack prefix is
   neither read nor changed (what follows runs on the same stack) *)
Theorem st_trace_framed : forall es rest stk log,
  all_negatable es ->
  st_exec (compile_st es ++ rest) stk (rev log) = st_exec rest stk (rev (log ++ map callback_of es)).
Proof. intros. rewrite exec_edits by assumption. now rewrite rev_app_distr. Qed.

(* ---- a value whose negation is undefined ------------------------------------------------- *)
Theorem st_not_negatable_stops : forall es1 n v t es2,
  all_negatable es1 -> neg v = None ->
  st_exec (compile_st (es1 ++ EMod OpSub n v t :: es2)) [] [] = Failed (map callback_of es1).
Proof.
  intros es1 n v t es2 H1 Hv. unfold compile_st. rewrite flat_map_app.
  fold (compile_st es1). rewrite exec_edits by assumption. cbn. rewrite Hv.
  now rewrite app_nil_r, rev_involutive.
Qed.

Lemma negatable_dec : forall e, {negatable e} + {~ negatable e}.
Proof. intro e. unfold negatable. destruct (negatableb e); [left; reflexivity|right; discriminate]. Qed.

Lemma first_not_negatable : forall es,
  ~ all_negatable es ->
  exists es1 n v t es2, es = es1 ++ EMod OpSub n v t :: es2 /\ all_negatable es1 /\ neg v = None.
Proof.
  induction es as [|e es IH]; intro H.
  - exfalso. apply H. constructor.
  - destruct (negatable_dec e) as [He|He].
    + destruct IH as (es1 & n & v & t & es2 & E & H1 & Hv).
      { intro Hall. apply H. now constructor. }
      exists (e :: es1), n, v, t, es2. subst. repeat split; [now constructor|assumption].
    + destruct e as [| | | |o n v t]; try (exfalso; apply He; reflexivity).
      destruct o; try (exfalso; apply He; reflexivity).
      exists [], n, v, t, es. repeat split; [constructor|].
      unfold negatable in He. cbn in He. destruct (neg v); [exfalso; now apply He|reflexivity].
Qed.

Theorem st_not_negatable_is_error : forall es,
  ~ all_negatable es -> st_run (compile_st es) = None.
Proof.
  intros es H. destruct (first_not_negatable es H) as (es1 & n & v & t & es2 & E & H1 & Hv).
  subst. unfold st_run. now rewrite st_not_negatable_stops.
Qed.

(* ---- nothing else: callbacks come from st.* instructions only, one each, in order ---------- *)
Lemma sigs_exec : forall code stk log,
  match st_exec code stk log with
  | Done l => map cb_sig l = map cb_sig (rev log) ++ st_sigs code
  | Failed l => exists k, map cb_sig l = map cb_sig (rev log) ++ firstn k (st_sigs code)
  end.
Proof.
  induction code as [|i rest IH]; intros stk log.
  - cbn. now rewrite app_nil_r.
  - assert (Hstep : forall c stk', sig_of i = Some (cb_sig c) ->
        match st_exec rest stk' (c :: log) with
        | Done l => map cb_sig l = map cb_sig (rev log) ++ st_sigs (i :: rest)
        | Failed l => exists k, map cb_sig l = map cb_sig (rev log) ++ firstn k (st_sigs (i :: rest))
        end).
    { intros c stk' Hs. specialize (IH stk' (c :: log)). cbn [st_sigs]. rewrite Hs.
      destruct (st_exec rest stk' (c :: log)).
      - rewrite IH. cbn [rev]. rewrite map_app. cbn. now rewrite <- app_assoc.
      - destruct IH as [k IH]. exists (S k). rewrite IH. cbn [rev]. rewrite map_app. cbn.
        now rewrite <- app_assoc. }
    assert (Hfail : forall c, sig_of i = Some (cb_sig c) ->
        exists k, map cb_sig (rev (c :: log)) = map cb_sig (rev log) ++ firstn k (st_sigs (i :: rest))).
    { intros c Hs. exists 1%nat. cbn [st_sigs]. rewrite Hs. cbn [rev firstn]. rewrite map_app. reflexivity. }
    assert (Hnone : exists k, map cb_sig (rev log) = map cb_sig (rev log) ++ firstn k (st_sigs (i :: rest))).
    { exists 0%nat. cbn. now rewrite app_nil_r. }
    destruct i; cbn [st_exec].
    + apply (IH (SStr s :: stk) log).
    + apply (IH (v :: stk) log).
    + apply (IH (k :: stk) log).
    + apply (IH (SComputed text :: stk) log).
    + destruct (pop stk) as [[v s1] u1]. destruct (pop s1) as [[n s2] u2].
      destruct (u1 || u2); [apply Hfail|apply Hstep]; reflexivity.
    + destruct (pop stk) as [[v s1] u1]. destruct (pop s1) as [[n s2] u2].
      destruct (str_eqb op s_minus).
      * destruct (neg v); [|exact Hnone].
        destruct (u1 || u2); [apply Hfail|apply Hstep]; reflexivity.
      * destruct (u1 || u2); [apply Hfail|apply Hstep]; reflexivity.
    + destruct (pop stk) as [[v s1] u1]. destruct (pop s1) as [[n s2] u2].
      destruct (u1 || u2); [apply Hfail|apply Hstep]; reflexivity.
    + destruct (pop stk) as [[v s1] u1]. destruct (pop s1) as [[k s2] u2]. destruct (pop s2) as [[n s3] u3].
      destruct (u1 || u2 || u3); [apply Hfail|apply Hstep]; reflexivity.
Qed.

Lemma st_sigs_length : forall code, length (st_sigs code) = count_st code.
Proof.
  unfold count_st. induction code as [|i r IH]; [reflexivity|].
  destruct i; cbn in *; auto.
Qed.

(* a successful run: the callbacks are exactly the st.* instructions of the code, in order, each with
   the type / op / text its instruction fixes *)
Theorem st_signatures : forall code log,
  st_run code = Some log -> map cb_sig log = st_sigs code.
Proof.
  intros code log H. unfold st_run in H. pose proof (sigs_exec code [] []) as S.
  destruct (st_exec code [] []); [|discriminate]. inversion H; subst. exact S.
Qed.

Theorem st_nothing_else : forall code log,
  st_run code = Some log -> length log = count_st code.
Proof.
  intros code log H. apply st_signatures in H.
  rewrite <- st_sigs_length, <- H. now rewrite map_length.
Qed.

(* a failed run never reports more than the instructions executed so far *)
Theorem st_failed_prefix : forall code l,
  st_exec code [] [] = Failed l -> exists k, map cb_sig l = firstn k (st_sigs code).
Proof.
  intros code l H. pose proof (sigs_exec code [] []) as S. rewrite H in S. exact S.
Qed.

(* the code of an edit list contains one st.* instruction per edit *)
Lemma count_st_compile : forall es, count_st (compile_st es) = length es.
Proof.
  unfold count_st, compile_st. induction es as [|e es IH]; [reflexivity|].
  cbn [flat_map]. rewrite filter_app, app_length, IH. destruct e; reflexivity.
Qed.

(* sign rule spelled out *)
Lemma reported_sub_int : forall z, reported_value OpSub (SInt z) = SInt (wrap64 (- z)).
Proof. reflexivity. Qed.
Lemma reported_other : forall o v, o <> OpSub -> reported_value o v = v.
Proof. intros o v H. destruct o; try reflexivity. now elim H. Qed.
Lemma op_addeq_reported_as_add : op_text OpAddEq = op_text OpAdd.
Proof. reflexivity. Qed.
