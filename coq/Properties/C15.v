(* C15 — generated once by tools/mkprops.py from the lemma statements; only statements,
   `exact lemma` and Print Assumptions live here. *)
From Coq Require Import String Ascii NArith ZArith List Bool.
From DS Require Import Model.PCG Model.Roll Model.Str Model.Dice Model.DiceExpr Proofs.RollProofs Proofs.DiceProofs Proofs.DiceExprProofs.
Import ListNotations.
Open Scope string_scope.
Open Scope Z_scope.

Section Source.
  Variable S : Type.
  Variable next : S -> N * S.
  Hypothesis next_word : forall s, (fst (next s) < W64)%N.

(* min mode: no randomness consumed (state returned unchanged, never out of fuel); every die at its lowest face clamp(1): the bound is attained *)
Theorem C15_common_min_mode fuel times d dmin dmax keep lo hi s :
    0 <= times -> 1 <= d ->
    roll_common next fuel times d dmin dmax keep lo hi (-1) s =
    Done ((sum64 (repeat (clampdie dmin dmax 1) (Z.to_nat (pick_num times keep lo hi))),
           common_text times (pick_num times keep lo hi)
                       (repeat (clampdie dmin dmax 1) (Z.to_nat times))), s).
Proof. first [ exact (roll_common_min S next next_word fuel times d dmin dmax keep lo hi s) | exact (roll_common_min S next fuel times d dmin dmax keep lo hi s) | exact (roll_common_min fuel times d dmin dmax keep lo hi s) | exact (roll_common_min S fuel times d dmin dmax keep lo hi s) ]. Qed.

(* max mode: no randomness consumed; every die at its highest face clamp(sides) *)
Theorem C15_common_max_mode fuel times d dmin dmax keep lo hi s :
    0 <= times ->
    roll_common next fuel times d dmin dmax keep lo hi 1 s =
    Done ((sum64 (repeat (clampdie dmin dmax d) (Z.to_nat (pick_num times keep lo hi))),
           common_text times (pick_num times keep lo hi)
                       (repeat (clampdie dmin dmax d) (Z.to_nat times))), s).
Proof. first [ exact (roll_common_max S next next_word fuel times d dmin dmax keep lo hi s) | exact (roll_common_max S next fuel times d dmin dmax keep lo hi s) | exact (roll_common_max fuel times d dmin dmax keep lo hi s) | exact (roll_common_max S fuel times d dmin dmax keep lo hi s) ]. Qed.

(* XdY with every keep/drop/min/max combination: min-mode total <= any random total <= max-mode total, and the two bounds are exactly the min/max-mode results *)
Theorem C15_common_bracket fuel times d dmin dmax keep lo hi s num txt s' :
    let c1 := clampdie dmin dmax 1 in
    let cd := clampdie dmin dmax d in
    let p := pick_num times keep lo hi in
    0 <= times -> 1 <= d <= MaxInt64 - 1 ->
    times * Z.max (Z.abs c1) (Z.abs cd) < two63 ->
    roll_common next fuel times d dmin dmax keep lo hi 0 s = Done ((num, txt), s') ->
    p * c1 <= num <= p * cd /\
    (exists tmin, roll_common next fuel times d dmin dmax keep lo hi (-1) s = Done ((p * c1, tmin), s)) /\
    (exists tmax, roll_common next fuel times d dmin dmax keep lo hi 1 s = Done ((p * cd, tmax), s)).
Proof. first [ exact (common_bracket S next next_word fuel times d dmin dmax keep lo hi s num txt s') | exact (common_bracket S next fuel times d dmin dmax keep lo hi s num txt s') | exact (common_bracket fuel times d dmin dmax keep lo hi s num txt s') | exact (common_bracket S fuel times d dmin dmax keep lo hi s num txt s') ]. Qed.

(* Fate min mode = -4, state unchanged *)
Theorem C15_fate_min fuel s : roll_fate next fuel (-1) s = Done ((-4, "----"), s).
Proof. first [ exact (roll_fate_min S next next_word fuel s) | exact (roll_fate_min S next fuel s) | exact (roll_fate_min fuel s) | exact (roll_fate_min S fuel s) ]. Qed.

(* Fate max mode = 4, state unchanged *)
Theorem C15_fate_max fuel s : roll_fate next fuel 1 s = Done ((4, "++++"), s).
Proof. first [ exact (roll_fate_max S next next_word fuel s) | exact (roll_fate_max S next fuel s) | exact (roll_fate_max fuel s) | exact (roll_fate_max S fuel s) ]. Qed.

(* every Fate roll lies in -4..4 *)
Theorem C15_fate_bracket fuel mode s sum txt s' :
    roll_fate next fuel mode s = Done ((sum, txt), s') ->
    String.length txt = 4%nat /\
    Forall fate_char (list_ascii_of_string txt) /\
    sum = count_char "+" txt - count_char "-" txt /\
    -4 <= sum <= 4.
Proof. first [ exact (roll_fate_spec S next next_word fuel mode s sum txt s') | exact (roll_fate_spec S next fuel mode s sum txt s') | exact (roll_fate_spec fuel mode s sum txt s') | exact (roll_fate_spec S fuel mode s sum txt s') ]. Qed.

(* CoC bonus AND penalty dice (after the fix of defect #33): min-mode = 1 <= any roll <= 100 = max-mode, modes consume nothing *)
Theorem C15_coc_bracket fuel isBonus diceNum s num txt s' :
    0 <= diceNum ->
    roll_coc next fuel isBonus diceNum 0 s = Done ((num, txt), s') ->
    exists nmin tmin nmax tmax,
      roll_coc next fuel isBonus diceNum (-1) s = Done ((nmin, tmin), s) /\
      roll_coc next fuel isBonus diceNum 1 s = Done ((nmax, tmax), s) /\
      nmin = 1 /\ nmax = 100 /\ nmin <= num <= nmax.
Proof. first [ exact (coc_bracket S next next_word fuel isBonus diceNum s num txt s') | exact (coc_bracket S next fuel isBonus diceNum s num txt s') | exact (coc_bracket fuel isBonus diceNum s num txt s') | exact (coc_bracket S fuel isBonus diceNum s num txt s') ]. Qed.

(* expressions: min/max-mode evaluation consumes no randomness and does not depend on the generator state *)
Theorem C15_minmax_pure mode e :
    mode = -1 \/ mode = 1 -> wf_dexpr e ->
    exists v, forall fuel s, deval next fuel mode e s = Done (v, s).
Proof. first [ exact (deval_minmax_pure S next next_word mode e) | exact (deval_minmax_pure S next mode e) | exact (deval_minmax_pure mode e) | exact (deval_minmax_pure S mode e) ]. Qed.

(* every expression built from constants, dice terms, + and multiplication by non-negative constants: min-mode value <= random value <= max-mode value, for every generator state *)
Theorem C15_mono_expr_bracket e : forall fuel s r s',
    wf_dexpr e ->
    deval next fuel 0 e s = Done (r, s') ->
    exists lo hi,
      (forall f2 s2, deval next f2 (-1) e s2 = Done (lo, s2)) /\
      (forall f2 s2, deval next f2 1 e s2 = Done (hi, s2)) /\
      lo <= r <= hi.
Proof. first [ exact (mono_expr_bracket S next next_word e) | exact (mono_expr_bracket S next e) | exact (mono_expr_bracket e) | exact (mono_expr_bracket S e) ]. Qed.

End Source.

(* non-vacuity: a concrete well-formed expression inside its bracket *)
Example C15_nonvacuous : wf_dexpr ex_expr.
Proof. exact ex_expr_wf. Qed.

Print Assumptions C15_common_min_mode.
Print Assumptions C15_common_max_mode.
Print Assumptions C15_common_bracket.
Print Assumptions C15_fate_min.
Print Assumptions C15_fate_max.
Print Assumptions C15_fate_bracket.
Print Assumptions C15_coc_bracket.
Print Assumptions C15_minmax_pure.
Print Assumptions C15_mono_expr_bracket.
